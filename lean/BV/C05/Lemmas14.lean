/-
C05 helper lemmas, part 14: navigation in the union of two sorted lists without a common key is
navigation in their sorted merge.
-/
import BV.C05.Lemmas13
import BV.C05.Lemmas6
import BV.C05.Lemmas3
namespace BV.C05.Lemmas
open BV.C05

section
variable {K V : Type} {cmp : K → K → Ordering}

def minE (cmp : K → K → Ordering) (a b : Option (K × V)) : Option (K × V) := (pick cmp true a b).entry
def maxE (cmp : K → K → Ordering) (a b : Option (K × V)) : Option (K × V) := (pick cmp false a b).entry

theorem minE_none_left (b : Option (K × V)) : minE cmp none b = b := by
  cases b <;> rfl
theorem minE_none_right (a : Option (K × V)) : minE cmp a none = a := by
  cases a <;> rfl
theorem minE_some (x y : K × V) :
    minE cmp (some x) (some y) = if cmp x.1 y.1 = .gt then some y else some x := by
  unfold minE pick
  by_cases hc : cmp x.1 y.1 = .gt
  · simp [hc, MergeSt.entry]
  · have : (cmp x.1 y.1 == Ordering.gt) = false := by cases hcc : cmp x.1 y.1 <;> simp_all
    simp [hc, this, MergeSt.entry]

theorem maxE_none_left (b : Option (K × V)) : maxE cmp none b = b := by
  cases b <;> rfl
theorem maxE_none_right (a : Option (K × V)) : maxE cmp a none = a := by
  cases a <;> rfl
theorem maxE_some (x y : K × V) :
    maxE cmp (some x) (some y) = if cmp x.1 y.1 = .lt then some y else some x := by
  unfold maxE pick
  by_cases hc : cmp x.1 y.1 = .lt
  · simp [hc, MergeSt.entry]
  · have : (cmp x.1 y.1 == Ordering.lt) = false := by cases hcc : cmp x.1 y.1 <;> simp_all
    simp [hc, this, MergeSt.entry]

theorem le_le_trans (h : OrdLaws cmp) {a b c : K} (h1 : cmp a b ≠ .gt) (h2 : cmp b c ≠ .gt) :
    cmp a c ≠ .gt := by
  cases hbc : cmp b c with
  | lt => rw [le_lt_trans h h1 hbc]; simp
  | eq => rw [← (h.eq_iff _ _).mp hbc]; exact h1
  | gt => exact absurd hbc h2

theorem mergeSorted_cons_cons (a : K × V) (as : List (K × V)) (b : K × V) (bs : List (K × V)) :
    mergeSorted cmp (a :: as) (b :: bs) =
      if cmp a.1 b.1 = .gt then b :: mergeSorted cmp (a :: as) bs
      else a :: mergeSorted cmp as (b :: bs) := by
  simp [mergeSorted, mergeSorted.go]

theorem mergeSorted_nil_right (X : List (K × V)) : mergeSorted cmp X [] = X :=
  mergeSorted_nil cmp X

theorem firstGT_merge (h : OrdLaws cmp) (k : K) (X Y : List (K × V)) :
    firstGT cmp k (mergeSorted cmp X Y) = minE cmp (firstGT cmp k X) (firstGT cmp k Y) := by
  induction X generalizing Y with
  | nil => simp [mergeSorted, firstGT, minE_none_left]
  | cons a as ih =>
    induction Y with
    | nil => rw [mergeSorted_nil_right]; simp [firstGT, minE_none_right]
    | cons b bs ihb =>
      rw [mergeSorted_cons_cons]
      by_cases hc : cmp a.1 b.1 = .gt
      · simp only [hc, if_true]
        rw [firstGT, ihb]
        by_cases hkb : cmp k b.1 = .lt
        · have hka : cmp k a.1 = .lt := h.lt_trans _ _ _ hkb (lt_of_gt h hc)
          simp [firstGT, hkb, hka, minE_some, hc]
        · simp [firstGT, hkb]
      · simp only [hc, if_false]
        rw [firstGT, ih]
        by_cases hka : cmp k a.1 = .lt
        · have hkb : cmp k b.1 = .lt := lt_le_trans h hka hc
          simp [firstGT, hka, hkb, minE_some, hc]
        · simp [firstGT, hka]

theorem firstGE_merge (h : OrdLaws cmp) (k : K) (X Y : List (K × V)) :
    firstGE cmp k (mergeSorted cmp X Y) = minE cmp (firstGE cmp k X) (firstGE cmp k Y) := by
  induction X generalizing Y with
  | nil => simp [mergeSorted, firstGE, minE_none_left]
  | cons a as ih =>
    induction Y with
    | nil => rw [mergeSorted_nil_right]; simp [firstGE, minE_none_right]
    | cons b bs ihb =>
      rw [mergeSorted_cons_cons]
      by_cases hc : cmp a.1 b.1 = .gt
      · simp only [hc, if_true]
        rw [firstGE, ihb]
        by_cases hkb : cmp k b.1 = .gt
        · simp [firstGE, hkb]
        · have hka : cmp k a.1 ≠ .gt := by
            rw [le_lt_trans h hkb (lt_of_gt h hc)]; simp
          simp [firstGE, hkb, hka, minE_some, hc]
      · simp only [hc, if_false]
        rw [firstGE, ih]
        by_cases hka : cmp k a.1 = .gt
        · simp [firstGE, hka]
        · have hkb : cmp k b.1 ≠ .gt := le_le_trans h hka hc
          simp [firstGE, hka, hkb, minE_some, hc]

theorem head_merge (X Y : List (K × V)) :
    (mergeSorted cmp X Y).head? = minE cmp X.head? Y.head? := by
  cases X with
  | nil => simp [mergeSorted, minE_none_left]
  | cons a as =>
    cases Y with
    | nil => rw [mergeSorted_nil_right]; simp [minE_none_right]
    | cons b bs =>
      rw [mergeSorted_cons_cons]
      by_cases hc : cmp a.1 b.1 = .gt <;> simp [hc, minE_some]

/-- `orr o x`: `o` if present, else `x` -/
def orr {α : Type} (o : Option α) (x : α) : Option α := match o with | some y => some y | none => some x

theorem lastLT_cons (k : K) (x : K × V) (xs : List (K × V)) :
    lastLT cmp k (x :: xs) = if cmp k x.1 = .gt then orr (lastLT cmp k xs) x else none := by
  simp only [lastLT, orr]
  by_cases hc : cmp k x.1 = .gt
  · simp only [hc, if_true]; cases lastLT cmp k xs <;> rfl
  · simp only [hc, if_false]

theorem getLast?_cons_orr {α : Type} (x : α) (L : List α) : (x :: L).getLast? = orr L.getLast? x := by
  rw [getLast?_cons_or]; rfl

theorem lastLT_merge (h : OrdLaws cmp) (k : K) (X Y : List (K × V))
    (hX : SortedKeys cmp X) (hY : SortedKeys cmp Y)
    (hd : ∀ x ∈ X, ∀ y ∈ Y, cmp x.1 y.1 ≠ .eq) :
    lastLT cmp k (mergeSorted cmp X Y) = maxE cmp (lastLT cmp k X) (lastLT cmp k Y) := by
  induction X generalizing Y with
  | nil => simp [mergeSorted, lastLT, maxE_none_left]
  | cons a as ih =>
    unfold SortedKeys at hX
    rw [List.pairwise_cons] at hX
    induction Y with
    | nil => rw [mergeSorted_nil_right]; simp [lastLT, maxE_none_right]
    | cons b bs ihb =>
      unfold SortedKeys at hY
      rw [List.pairwise_cons] at hY
      rw [mergeSorted_cons_cons]
      by_cases hc : cmp a.1 b.1 = .gt
      · simp only [hc, if_true]
        rw [lastLT_cons, ihb hY.2 (fun x hx y hy => hd x hx y (List.mem_cons_of_mem _ hy)),
          lastLT_cons k b bs]
        by_cases hkb : cmp k b.1 = .gt
        · simp only [hkb, if_true]
          cases hp : lastLT cmp k (a :: as) with
          | none => cases hq : lastLT cmp k bs <;> simp [orr, maxE_none_left]
          | some x0 =>
            cases hq : lastLT cmp k bs with
            | some y0 => by_cases hh : cmp x0.1 y0.1 = .lt <;> simp [orr, maxE_some, hh]
            | none =>
              have hx0 : x0 ∈ a :: as := (lastLT_mem k _ x0 hp).1
              have hbx : cmp x0.1 b.1 ≠ .lt := by
                rcases List.mem_cons.mp hx0 with h1 | h1
                · rw [h1, hc]; simp
                · rw [gt_of_lt h (h.lt_trans _ _ _ (lt_of_gt h hc) (hX.1 x0 h1))]; simp
              simp [orr, maxE_none_right, maxE_some, hbx]
        · have hka : cmp k a.1 ≠ .gt := by
            rw [le_lt_trans h hkb (lt_of_gt h hc)]; simp
          simp [hkb, lastLT_cons, hka, maxE_none_left]
      · simp only [hc, if_false]
        have hab : cmp a.1 b.1 = .lt := by
          have hne := hd a (List.mem_cons_self ..) b (List.mem_cons_self ..)
          cases hcc : cmp a.1 b.1 with
          | lt => rfl
          | eq => exact absurd hcc hne
          | gt => exact absurd hcc hc
        rw [lastLT_cons, ih (b :: bs) hX.2 (List.pairwise_cons.mpr hY)
          (fun x hx y hy => hd x (List.mem_cons_of_mem _ hx) y hy), lastLT_cons k a as]
        by_cases hka : cmp k a.1 = .gt
        · simp only [hka, if_true]
          cases hq : lastLT cmp k (b :: bs) with
          | none => cases hp : lastLT cmp k as <;> simp [orr, maxE_none_right]
          | some y0 =>
            cases hp : lastLT cmp k as with
            | some x0 => by_cases hh : cmp x0.1 y0.1 = .lt <;> simp [orr, maxE_some, hh]
            | none =>
              have hy0 : y0 ∈ b :: bs := (lastLT_mem k _ y0 hq).1
              have hay : cmp a.1 y0.1 = .lt := by
                rcases List.mem_cons.mp hy0 with h1 | h1
                · rw [h1]; exact hab
                · exact h.lt_trans _ _ _ hab (hY.1 y0 h1)
              simp [orr, maxE_none_left, maxE_some, hay]
        · have hkb : cmp k b.1 ≠ .gt := le_le_trans h hka hc
          simp [hka, lastLT_cons, hkb, maxE_none_left]

theorem getLast_merge (h : OrdLaws cmp) (X Y : List (K × V))
    (hX : SortedKeys cmp X) (hY : SortedKeys cmp Y)
    (hd : ∀ x ∈ X, ∀ y ∈ Y, cmp x.1 y.1 ≠ .eq) :
    (mergeSorted cmp X Y).getLast? = maxE cmp X.getLast? Y.getLast? := by
  induction X generalizing Y with
  | nil => simp [mergeSorted, maxE_none_left]
  | cons a as ih =>
    unfold SortedKeys at hX
    rw [List.pairwise_cons] at hX
    induction Y with
    | nil => rw [mergeSorted_nil_right]; simp [maxE_none_right]
    | cons b bs ihb =>
      unfold SortedKeys at hY
      rw [List.pairwise_cons] at hY
      rw [mergeSorted_cons_cons]
      obtain ⟨x0, hx0⟩ : ∃ x0, (a :: as).getLast? = some x0 :=
        ⟨_, List.getLast?_eq_some_getLast (List.cons_ne_nil a as)⟩
      obtain ⟨y0, hy0⟩ : ∃ y0, (b :: bs).getLast? = some y0 :=
        ⟨_, List.getLast?_eq_some_getLast (List.cons_ne_nil b bs)⟩
      by_cases hc : cmp a.1 b.1 = .gt
      · simp only [hc, if_true]
        rw [getLast?_cons_orr, ihb hY.2 (fun x hx y hy => hd x hx y (List.mem_cons_of_mem _ hy)),
          getLast?_cons_orr b bs, hx0]
        cases hq : bs.getLast? with
        | some y1 => by_cases hh : cmp x0.1 y1.1 = .lt <;> simp [orr, maxE_some, hh]
        | none =>
          have hm : x0 ∈ a :: as := List.mem_of_getLast? hx0
          have hbx : cmp x0.1 b.1 ≠ .lt := by
            rcases List.mem_cons.mp hm with h1 | h1
            · rw [h1, hc]; simp
            · rw [gt_of_lt h (h.lt_trans _ _ _ (lt_of_gt h hc) (hX.1 x0 h1))]; simp
          simp [orr, maxE_none_right, maxE_some, hbx]
      · simp only [hc, if_false]
        have hab : cmp a.1 b.1 = .lt := by
          have hne := hd a (List.mem_cons_self ..) b (List.mem_cons_self ..)
          cases hcc : cmp a.1 b.1 with
          | lt => rfl
          | eq => exact absurd hcc hne
          | gt => exact absurd hcc hc
        rw [getLast?_cons_orr, ih (b :: bs) hX.2 (List.pairwise_cons.mpr hY)
          (fun x hx y hy => hd x (List.mem_cons_of_mem _ hx) y hy), getLast?_cons_orr a as, hy0]
        cases hp : as.getLast? with
        | some x1 => by_cases hh : cmp x1.1 y0.1 = .lt <;> simp [orr, maxE_some, hh]
        | none =>
          have hm : y0 ∈ b :: bs := List.mem_of_getLast? hy0
          have hay : cmp a.1 y0.1 = .lt := by
            rcases List.mem_cons.mp hm with h1 | h1
            · rw [h1]; exact hab
            · exact h.lt_trans _ _ _ hab (hY.1 y0 h1)
          simp [orr, maxE_none_left, maxE_some, hay]

end
end BV.C05.Lemmas
