/-
C05 helper lemmas, part 13: the repaired cursor follows successor / predecessor navigation in the
union of the two layers, for every sequence of operations.
-/
import BV.C05.Lemmas12
namespace BV.C05.Lemmas
open BV.C05

section
variable {K V : Type} {cmp : K → K → Ordering}

theorem entry_some_cur (s : MergeSt K V) (e : K × V) (he : s.entry = some e) :
    (s.cur = some true ∧ s.a = some e) ∨ (s.cur = some false ∧ s.b = some e) := by
  unfold MergeSt.entry at he
  cases hc : s.cur with
  | none => rw [hc] at he; cases he
  | some w =>
    rw [hc] at he
    cases w with
    | true => exact Or.inl ⟨rfl, he⟩
    | false => exact Or.inr ⟨rfl, he⟩

theorem pick_entry_none (fw : Bool) (a b : Option (K × V)) (hn : (pick cmp fw a b).entry = none) :
    (pick cmp fw a b).cur = none := by
  unfold pick at hn ⊢
  cases a with
  | none =>
    cases b with
    | none => rfl
    | some y => simp [MergeSt.entry] at hn
  | some x =>
    cases b with
    | none => simp [MergeSt.entry] at hn
    | some y =>
      simp only [] at hn ⊢
      split at hn <;> simp [MergeSt.entry] at hn

/-- forwards the chosen entry is the smaller one -/
theorem pick_min (h : OrdLaws cmp) (a b : Option (K × V)) (e : K × V)
    (he : (pick cmp true a b).entry = some e) :
    (a = some e ∨ b = some e) ∧ (∀ x0, a = some x0 → cmp e.1 x0.1 ≠ .gt) ∧
      (∀ y0, b = some y0 → cmp e.1 y0.1 ≠ .gt) := by
  unfold pick at he
  cases a with
  | none =>
    cases b with
    | none => simp [MergeSt.entry] at he
    | some y =>
      simp [MergeSt.entry] at he; subst he
      exact ⟨Or.inr rfl, (fun _ hx => by cases hx), (fun y0 hy => by cases hy; rw [cmp_refl h]; simp)⟩
  | some x =>
    cases b with
    | none =>
      simp [MergeSt.entry] at he; subst he
      exact ⟨Or.inl rfl, (fun x0 hx => by cases hx; rw [cmp_refl h]; simp), (fun _ hy => by cases hy)⟩
    | some y =>
      simp only [Bool.true_and, Bool.not_true, Bool.false_and, Bool.or_false] at he
      by_cases hc : cmp x.1 y.1 = .gt
      · simp [hc, MergeSt.entry] at he; subst he
        refine ⟨Or.inr rfl, fun x0 hx => ?_, fun y0 hy => ?_⟩
        · cases hx; rw [lt_of_gt h hc]; simp
        · cases hy; rw [cmp_refl h]; simp
      · have hc' : (cmp x.1 y.1 == Ordering.gt) = false := by
          cases hcc : cmp x.1 y.1 <;> simp_all
        simp [hc', MergeSt.entry] at he; subst he
        refine ⟨Or.inl rfl, fun x0 hx => ?_, fun y0 hy => ?_⟩
        · cases hx; rw [cmp_refl h]; simp
        · cases hy; exact hc

/-- backwards the chosen entry is the larger one -/
theorem pick_max (h : OrdLaws cmp) (a b : Option (K × V)) (e : K × V)
    (he : (pick cmp false a b).entry = some e) :
    (a = some e ∨ b = some e) ∧ (∀ x0, a = some x0 → cmp e.1 x0.1 ≠ .lt) ∧
      (∀ y0, b = some y0 → cmp e.1 y0.1 ≠ .lt) := by
  unfold pick at he
  cases a with
  | none =>
    cases b with
    | none => simp [MergeSt.entry] at he
    | some y =>
      simp [MergeSt.entry] at he; subst he
      exact ⟨Or.inr rfl, (fun _ hx => by cases hx), (fun y0 hy => by cases hy; rw [cmp_refl h]; simp)⟩
  | some x =>
    cases b with
    | none =>
      simp [MergeSt.entry] at he; subst he
      exact ⟨Or.inl rfl, (fun x0 hx => by cases hx; rw [cmp_refl h]; simp), (fun _ hy => by cases hy)⟩
    | some y =>
      simp only [Bool.false_and, Bool.not_false, Bool.true_and, Bool.false_or] at he
      by_cases hc : cmp x.1 y.1 = .lt
      · simp [hc, MergeSt.entry] at he; subst he
        refine ⟨Or.inr rfl, fun x0 hx => ?_, fun y0 hy => ?_⟩
        · cases hx; rw [gt_of_lt h hc]; simp
        · cases hy; rw [cmp_refl h]; simp
      · have hc' : (cmp x.1 y.1 == Ordering.lt) = false := by
          cases hcc : cmp x.1 y.1 <;> simp_all
        simp [hc', MergeSt.entry] at he; subst he
        refine ⟨Or.inl rfl, fun x0 hx => ?_, fun y0 hy => ?_⟩
        · cases hx; rw [cmp_refl h]; simp
        · cases hy; exact hc

end

section Main
variable {K V : Type} {cmp : K → K → Ordering} {sh : K → Bool} {A B : List (K × V)}

/-- canonical state of a cursor standing on `e` after moving forwards / backwards -/
def canonF (cmp : K → K → Ordering) (sh : K → Bool) (A B : List (K × V)) (e : K × V) : MergeSt K V :=
  pick cmp true (firstGE cmp e.1 (unsh sh A)) (firstGE cmp e.1 B)
def canonB (cmp : K → K → Ordering) (sh : K → Bool) (A B : List (K × V)) (e : K × V) : MergeSt K V :=
  pick cmp false (lastLE cmp e.1 (unsh sh A)) (lastLE cmp e.1 B)

theorem canon_after_gt (S : Setting cmp sh A B) (k : K) (e : K × V)
    (he : (pick cmp true (firstGT cmp k (unsh sh A)) (firstGT cmp k B)).entry = some e) :
    pick cmp true (firstGT cmp k (unsh sh A)) (firstGT cmp k B) = canonF cmp sh A B e := by
  obtain ⟨hor, hx, hy⟩ := pick_min S.laws _ _ e he
  have hk : cmp k e.1 = .lt := by
    rcases hor with h1 | h1
    · exact (firstGT_mem k _ e h1).2
    · exact (firstGT_mem k _ e h1).2
  unfold canonF
  rw [firstGT_to_GE S.laws k e.1 _ hk hx, firstGT_to_GE S.laws k e.1 _ hk hy]

theorem canon_after_ge (S : Setting cmp sh A B) (k : K) (e : K × V)
    (he : (pick cmp true (firstGE cmp k (unsh sh A)) (firstGE cmp k B)).entry = some e) :
    pick cmp true (firstGE cmp k (unsh sh A)) (firstGE cmp k B) = canonF cmp sh A B e := by
  obtain ⟨hor, hx, hy⟩ := pick_min S.laws _ _ e he
  have hk : cmp k e.1 ≠ .gt := by
    rcases hor with h1 | h1
    · exact (firstGE_mem k _ e h1).2
    · exact (firstGE_mem k _ e h1).2
  unfold canonF
  rw [firstGE_to_GE S.laws k e.1 _ hk hx, firstGE_to_GE S.laws k e.1 _ hk hy]

theorem canon_after_head (S : Setting cmp sh A B) (e : K × V)
    (he : (pick cmp true (unsh sh A).head? B.head?).entry = some e) :
    pick cmp true (unsh sh A).head? B.head? = canonF cmp sh A B e := by
  obtain ⟨_, hx, hy⟩ := pick_min S.laws _ _ e he
  unfold canonF
  rw [head_to_GE e.1 _ hx, head_to_GE e.1 _ hy]

theorem canon_after_lt (S : Setting cmp sh A B) (k : K) (e : K × V)
    (he : (pick cmp false (lastLT cmp k (unsh sh A)) (lastLT cmp k B)).entry = some e) :
    pick cmp false (lastLT cmp k (unsh sh A)) (lastLT cmp k B) = canonB cmp sh A B e := by
  obtain ⟨hor, hx, hy⟩ := pick_max S.laws _ _ e he
  have hk : cmp e.1 k = .lt := by
    rcases hor with h1 | h1
    · exact lt_of_gt S.laws (lastLT_mem k _ e h1).2
    · exact lt_of_gt S.laws (lastLT_mem k _ e h1).2
  unfold canonB
  rw [lastLT_to_LE S.laws k e.1 _ S.sortedX hk hx, lastLT_to_LE S.laws k e.1 _ S.sortedB hk hy]

theorem canon_after_last (S : Setting cmp sh A B) (e : K × V)
    (he : (pick cmp false (unsh sh A).getLast? B.getLast?).entry = some e) :
    pick cmp false (unsh sh A).getLast? B.getLast? = canonB cmp sh A B e := by
  obtain ⟨_, hx, hy⟩ := pick_max S.laws _ _ e he
  unfold canonB
  rw [last_to_LE S.laws e.1 _ S.sortedX hx, last_to_LE S.laws e.1 _ S.sortedB hy]

/-- `Next` in the forward state -/
theorem mNext_canonF (S : Setting cmp sh A B) (e : K × V)
    (he : (canonF cmp sh A B e).entry = some e) :
    mNext cmp sh A B (canonF cmp sh A B e) =
      pick cmp true (firstGT cmp e.1 (unsh sh A)) (firstGT cmp e.1 B) := by
  rcases entry_some_cur _ e he with ⟨hc, ha⟩ | ⟨hc, hb⟩
  · have ha' : firstGE cmp e.1 (unsh sh A) = some e := by
      rw [← ha]; unfold canonF; rw [pick_a]
    have hex : e ∈ unsh sh A := (firstGE_mem _ _ e ha').1
    unfold mNext
    rw [hc]
    simp only []
    rw [ha]
    have hb : (canonF cmp sh A B e).b = firstGE cmp e.1 B := by unfold canonF; rw [pick_b]
    rw [hb]
    simp only [itNext]
    rw [choose_fwd_gt S, firstGE_eq_GT_of_absent S.laws e.1 B (S.absentY hex)]
  · have hb' : firstGE cmp e.1 B = some e := by
      rw [← hb]; unfold canonF; rw [pick_b]
    have hey : e ∈ B := (firstGE_mem _ _ e hb').1
    unfold mNext
    rw [hc]
    simp only []
    rw [hb]
    have ha : (canonF cmp sh A B e).a = firstGE cmp e.1 (unsh sh A) := by unfold canonF; rw [pick_a]
    rw [ha]
    simp only [itNext]
    rw [choose_keep S true _ _ (fun x hx => (firstGE_mem _ _ x hx).1),
      firstGE_eq_GT_of_absent S.laws e.1 (unsh sh A) (S.absentX hey)]

/-- `Prev` in the backward state -/
theorem mPrev_canonB (S : Setting cmp sh A B) (e : K × V)
    (he : (canonB cmp sh A B e).entry = some e) :
    mPrev cmp sh A B (canonB cmp sh A B e) =
      pick cmp false (lastLT cmp e.1 (unsh sh A)) (lastLT cmp e.1 B) := by
  rcases entry_some_cur _ e he with ⟨hc, ha⟩ | ⟨hc, hb⟩
  · have ha' : lastLE cmp e.1 (unsh sh A) = some e := by
      rw [← ha]; unfold canonB; rw [pick_a]
    have hex : e ∈ unsh sh A := (lastLE_mem _ _ e ha').1
    unfold mPrev
    rw [hc]
    simp only []
    rw [ha]
    have hb : (canonB cmp sh A B e).b = lastLE cmp e.1 B := by unfold canonB; rw [pick_b]
    rw [hb]
    simp only [itPrev]
    rw [choose_bwd_lt S, lastLE_eq_LT_of_absent e.1 B (S.absentY hex)]
  · have hb' : lastLE cmp e.1 B = some e := by
      rw [← hb]; unfold canonB; rw [pick_b]
    have hey : e ∈ B := (lastLE_mem _ _ e hb').1
    unfold mPrev
    rw [hc]
    simp only []
    rw [hb]
    have ha : (canonB cmp sh A B e).a = lastLE cmp e.1 (unsh sh A) := by unfold canonB; rw [pick_a]
    rw [ha]
    simp only [itPrev]
    rw [choose_keep S false _ _ (fun x hx => (lastLE_mem _ _ x hx).1),
      lastLE_eq_LT_of_absent e.1 (unsh sh A) (S.absentX hey)]

/-- successor / predecessor navigation in the union of two sorted lists -/
def specU (cmp : K → K → Ordering) (X Y : List (K × V)) (cur : Option (K × V)) : MOp K → Option (K × V)
  | .first => (pick cmp true X.head? Y.head?).entry
  | .last => (pick cmp false X.getLast? Y.getLast?).entry
  | .seek k => (pick cmp true (firstGE cmp k X) (firstGE cmp k Y)).entry
  | .next => match cur with
    | some c => (pick cmp true (firstGT cmp c.1 X) (firstGT cmp c.1 Y)).entry
    | none => none
  | .prev => match cur with
    | some c => (pick cmp false (lastLT cmp c.1 X) (lastLT cmp c.1 Y)).entry
    | none => none

/-- invariant tying the cursor state to the Spec position -/
def CurInv (cmp : K → K → Ordering) (sh : K → Bool) (A B : List (K × V)) (s : CurSt K V)
    (c : Option (K × V)) : Prop :=
  s.m.entry = c ∧ (c = none → s.m.cur = none) ∧
    ∀ e, c = some e → (s.fwd = true → s.m = canonF cmp sh A B e) ∧
      (s.fwd = false → s.m = canonB cmp sh A B e)

theorem inv_fwd (P : MergeSt K V) (hn : P.entry = none → P.cur = none)
    (hc : ∀ e, P.entry = some e → P = canonF cmp sh A B e) :
    CurInv cmp sh A B ⟨P, true⟩ P.entry :=
  ⟨rfl, hn, fun e he => ⟨(fun _ => hc e he), (fun hf => by cases hf)⟩⟩

theorem inv_bwd (P : MergeSt K V) (hn : P.entry = none → P.cur = none)
    (hc : ∀ e, P.entry = some e → P = canonB cmp sh A B e) :
    CurInv cmp sh A B ⟨P, false⟩ P.entry :=
  ⟨rfl, hn, fun e he => ⟨(fun hf => by cases hf), (fun _ => hc e he)⟩⟩

theorem step_inv (S : Setting cmp sh A B) (s : CurSt K V) (c : Option (K × V))
    (hinv : CurInv cmp sh A B s c) (op : MOp K) :
    CurInv cmp sh A B (fStep cmp sh A B s op) (specU cmp (unsh sh A) B c op) := by
  obtain ⟨hent, hnone, hcan⟩ := hinv
  cases op with
  | first =>
    simp only [fStep, specU, mFirst]
    rw [choose_fwd_head S]
    exact inv_fwd _ (pick_entry_none _ _ _) (canon_after_head S)
  | last =>
    simp only [fStep, specU, mLast]
    rw [choose_bwd_last S]
    exact inv_bwd _ (pick_entry_none _ _ _) (canon_after_last S)
  | seek k =>
    simp only [fStep, specU, mSeek]
    rw [choose_fwd_ge S]
    exact inv_fwd _ (pick_entry_none _ _ _) (canon_after_ge S k)
  | next =>
    cases c with
    | none =>
      have hcur := hnone rfl
      simp only [fStep, specU, fNext, hcur]
      exact ⟨hent, hnone, hcan⟩
    | some e =>
      have hnew : fNext cmp sh A B s =
          ⟨pick cmp true (firstGT cmp e.1 (unsh sh A)) (firstGT cmp e.1 B), true⟩ := by
        unfold fNext
        rcases entry_some_cur _ e hent with ⟨hc, _⟩ | ⟨hc, _⟩ <;>
        · rw [hc, hent]
          simp only []
          cases hf : s.fwd with
          | true =>
            simp only [if_true]
            have hm := (hcan e rfl).1 hf
            rw [hm, mNext_canonF S e (hm ▸ hent)]
          | false =>
            simp only [Bool.false_eq_true, if_false]
            rw [reseekFwd_eq S.laws, reseekFwd_eq S.laws, choose_fwd_gt S]
      simp only [fStep, specU]
      rw [hnew]
      exact inv_fwd _ (pick_entry_none _ _ _) (canon_after_gt S e.1)
  | prev =>
    cases c with
    | none =>
      have hcur := hnone rfl
      simp only [fStep, specU, fPrev, hcur]
      exact ⟨hent, hnone, hcan⟩
    | some e =>
      have hnew : fPrev cmp sh A B s =
          ⟨pick cmp false (lastLT cmp e.1 (unsh sh A)) (lastLT cmp e.1 B), false⟩ := by
        unfold fPrev
        rcases entry_some_cur _ e hent with ⟨hc, _⟩ | ⟨hc, _⟩ <;>
        · rw [hc, hent]
          simp only []
          cases hf : s.fwd with
          | true =>
            simp only [if_true]
            rw [reseekBwd_eq S.laws, reseekBwd_eq S.laws, choose_bwd_lt S]
          | false =>
            simp only [Bool.false_eq_true, if_false]
            have hm := (hcan e rfl).2 hf
            rw [hm, mPrev_canonB S e (hm ▸ hent)]
      simp only [fStep, specU]
      rw [hnew]
      exact inv_bwd _ (pick_entry_none _ _ _) (canon_after_lt S e.1)

theorem init_inv_cur : CurInv cmp sh A B (curInit : CurSt K V) none :=
  ⟨rfl, fun _ => rfl, fun e he => by cases he⟩

/-- the repaired cursor follows the Spec navigation for every operation sequence -/
theorem run_inv (S : Setting cmp sh A B) (ops : List (MOp K)) :
    ∀ (s : CurSt K V) (c : Option (K × V)), CurInv cmp sh A B s c →
      CurInv cmp sh A B (ops.foldl (fStep cmp sh A B) s) (ops.foldl (specU cmp (unsh sh A) B) c) := by
  induction ops with
  | nil => intro s c h; exact h
  | cons op ops ih =>
    intro s c h
    simp only [List.foldl_cons]
    exact ih _ _ (step_inv S s c h op)

end Main
end BV.C05.Lemmas
