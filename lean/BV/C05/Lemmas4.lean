/-
C05 helper lemmas, part 4: the heap (balance) invariant of the treap.
-/
import BV.C05.Model
import BV.C05.Cursor
namespace BV.C05.Lemmas
open BV.C05 BV.C05.Treap

section
variable {K V : Type}

/-- root priority at least `q` (vacuous for the empty tree) -/
def rootGe (q : Nat) : Treap K V → Prop
  | .nil => True
  | .node _ _ _ p _ => q ≤ p

/-- min-heap on priorities: every parent's priority is ≤ its children's -/
def Heap : Treap K V → Prop
  | .nil => True
  | .node l _ _ p r => Heap l ∧ Heap r ∧ rootGe p l ∧ rootGe p r

theorem rootGe_mono {q q' : Nat} (h : q' ≤ q) : ∀ t : Treap K V, rootGe q t → rootGe q' t
  | .nil, _ => trivial
  | .node _ _ _ _ _, h1 => Nat.le_trans h h1

variable (cmp : K → K → Ordering)

/-- what `putAux` returns on a heap: while the new node is still bubbling (`true`) it is the root of
a heap built from old nodes; once it stopped (`false`) the result is a heap with the old root. -/
theorem putAux_heap (k : K) (v : V) (p : Nat) : ∀ t : Treap K V, Heap t →
    (((putAux cmp k v p t).2 = true →
        ∃ a b, (putAux cmp k v p t).1 = .node a k v p b ∧ Heap a ∧ Heap b ∧ rootGe p a ∧ rootGe p b ∧
          ∀ q, rootGe q t → rootGe q a ∧ rootGe q b) ∧
     ((putAux cmp k v p t).2 = false →
        Heap (putAux cmp k v p t).1 ∧ ∀ q, rootGe q t → rootGe q (putAux cmp k v p t).1)) := by
  intro t
  induction t with
  | nil =>
    intro _
    simp only [putAux]
    exact ⟨fun _ => ⟨.nil, .nil, rfl, trivial, trivial, trivial, trivial, fun _ _ => ⟨trivial, trivial⟩⟩,
      fun h => by cases h⟩
  | node l k' v' p' r ihl ihr =>
    intro hh
    obtain ⟨hl, hr, hpl, hpr⟩ : Heap l ∧ Heap r ∧ rootGe p' l ∧ rootGe p' r := hh
    simp only [putAux]
    cases hc : cmp k k' with
    | eq =>
      simp only []
      exact ⟨(fun h => by cases h), fun _ => ⟨⟨hl, hr, hpl, hpr⟩, fun q hq => hq⟩⟩
    | lt =>
      simp only []
      obtain ⟨iht, ihf⟩ := ihl hl
      cases hq : putAux cmp k v p l with
      | mk l' f =>
        rw [hq] at iht ihf
        cases f with
        | false =>
          obtain ⟨hl', hmono⟩ := ihf rfl
          cases l' <;> simp only [] <;>
          exact ⟨(fun h => by cases h), fun _ => ⟨⟨hl', hr, hmono p' hpl, hpr⟩, fun q hq => hq⟩⟩
        | true =>
          obtain ⟨a, b, hab, ha, hb, hpa, hpb, hmono⟩ := iht rfl
          simp only [] at hab
          subst hab
          simp only []
          by_cases hp : p < p'
          · simp only [hp, if_true]
            refine ⟨fun _ => ⟨a, .node b k' v' p' r, rfl, ha, ⟨hb, hr, (hmono p' hpl).2, hpr⟩, hpa,
              Nat.le_of_lt hp, ?_⟩, fun h => by cases h⟩
            intro q hq
            exact ⟨rootGe_mono (show q ≤ p' from hq) a (hmono p' hpl).1, hq⟩
          · simp only [hp, if_false]
            refine ⟨(fun h => by cases h), fun _ => ⟨⟨⟨ha, hb, hpa, hpb⟩, hr, ?_, hpr⟩, fun q hq => hq⟩⟩
            show p' ≤ p
            omega
    | gt =>
      simp only []
      obtain ⟨iht, ihf⟩ := ihr hr
      cases hq : putAux cmp k v p r with
      | mk r' f =>
        rw [hq] at iht ihf
        cases f with
        | false =>
          obtain ⟨hr', hmono⟩ := ihf rfl
          cases r' <;> simp only [] <;>
          exact ⟨(fun h => by cases h), fun _ => ⟨⟨hl, hr', hpl, hmono p' hpr⟩, fun q hq => hq⟩⟩
        | true =>
          obtain ⟨a, b, hab, ha, hb, hpa, hpb, hmono⟩ := iht rfl
          simp only [] at hab
          subst hab
          simp only []
          by_cases hp : p < p'
          · simp only [hp, if_true]
            refine ⟨fun _ => ⟨.node l k' v' p' a, b, rfl, ⟨hl, ha, hpl, (hmono p' hpr).1⟩, hb,
              Nat.le_of_lt hp, hpb, ?_⟩, fun h => by cases h⟩
            intro q hq
            exact ⟨hq, rootGe_mono (show q ≤ p' from hq) b (hmono p' hpr).2⟩
          · simp only [hp, if_false]
            refine ⟨(fun h => by cases h), fun _ => ⟨⟨hl, ⟨ha, hb, hpa, hpb⟩, hpl, ?_⟩, fun q hq => hq⟩⟩
            show p' ≤ p
            omega

theorem put_heap (k : K) (v : V) (p : Nat) (t : Treap K V) (h : Heap t) : Heap (put cmp k v p t) := by
  unfold put
  obtain ⟨ht, hf⟩ := putAux_heap cmp k v p t h
  cases hb : (putAux cmp k v p t).2 with
  | true =>
    obtain ⟨a, b, hab, ha, hb', hpa, hpb, _⟩ := ht hb
    rw [hab]; exact ⟨ha, hb', hpa, hpb⟩
  | false => exact (hf hb).1

end

/-- decidable version of `Heap` for the concrete witness -/
def heapB : Treap Nat Nat → Bool
  | .nil => true
  | .node l _ _ p r => heapB l && heapB r &&
      (match l with | .nil => true | .node _ _ _ q _ => decide (p ≤ q)) &&
      (match r with | .nil => true | .node _ _ _ q _ => decide (p ≤ q))

/-- the node 2 (priority 5) with children 1 (priority 10) and 3 (priority 7) -/
def heapWitness : Treap Nat Nat := .node (.node .nil 1 0 10 .nil) 2 0 5 (.node .nil 3 0 7 .nil)

end BV.C05.Lemmas
