/-
C05 helper lemmas, part 17: truncating the block log back to a write cursor.
-/
import BV.C05.Lemmas16
namespace BV.C05.Lemmas
open BV.C05 BV.C05.DbModel

theorem fileGet_filter_le (fs : List (Nat × Bytes)) (f n : Nat) :
    fileGet (fs.filter (fun p => p.1 ≤ f)) n = if n ≤ f then fileGet fs n else none := by
  induction fs with
  | nil => simp [fileGet]
  | cons x xs ih =>
    obtain ⟨m, c⟩ := x
    unfold fileGet at ih ⊢
    by_cases hm : m ≤ f
    · simp only [List.filter, hm, decide_true, List.find?]
      by_cases hmn : (m == n) = true
      · have : m = n := by simpa using hmn
        subst this
        simp [hm]
      · simp only [hmn]
        exact ih
    · simp only [List.filter, hm, decide_false, List.find?]
      by_cases hmn : (m == n) = true
      · have : m = n := by simpa using hmn
        subst this
        simp only [hm, if_false]
        rw [ih]; simp [hm]
      · simp only [hmn]
        exact ih

/-- reads that end at or before the cut, or lie in an earlier file, survive the truncation; the
result is a well-formed log again -/
theorem logTruncate_ok (crc : Bytes → Nat) (net : Nat) (st : LogSt) (f o : Nat)
    (ho : o ≤ (st.file f).length) :
    LogOk (logTruncate st f o) ∧
    (∀ n off len, (n < f ∨ (n = f ∧ off + len ≤ o)) → off + len ≤ (st.file n).length →
      readRecord crc net ((logTruncate st f o).file n) off len = readRecord crc net (st.file n) off len) := by
  have hkept : ∀ n, (fileGet (st.files.filter (fun p => p.1 ≤ f)) n).getD [] =
      if n ≤ f then st.file n else [] := by
    intro n
    rw [fileGet_filter_le]
    by_cases hn : n ≤ f <;> simp [hn, LogSt.file]
  have hfile : ∀ n, (logTruncate st f o).file n =
      if n = f then (st.file f).take o else if n < f then st.file n else [] := by
    intro n
    unfold logTruncate LogSt.file
    simp only []
    by_cases hn : n = f
    · subst hn
      rw [fileGet_set_same]
      have := hkept n
      simp only [Nat.le_refl, if_true] at this
      simp [this, LogSt.file]
    · rw [fileGet_set_other _ _ _ _ hn]
      have := hkept n
      by_cases hlt : n < f
      · have hle : n ≤ f := Nat.le_of_lt hlt
        simp only [hle, if_true] at this
        simp [hn, hlt, this, LogSt.file]
      · have hle : ¬ n ≤ f := by omega
        simp only [hle, if_false] at this
        simp [hn, hlt, this]
  refine ⟨⟨?_, ?_⟩, ?_⟩
  · show ((logTruncate st f o).file f).length = o
    rw [hfile f]; simp [List.length_take]; omega
  · intro n hn
    have hn' : f < n := hn
    rw [hfile n]
    have h1 : ¬ n = f := by omega
    have h2 : ¬ n < f := by omega
    simp [h1, h2]
  · intro n off len hcase hlen
    rw [hfile n]
    rcases hcase with hlt | ⟨heq, hbound⟩
    · have h1 : ¬ n = f := by omega
      simp [h1, hlt]
    · subst heq
      simp only [if_true]
      have hsplit : st.file n = (st.file n).take o ++ (st.file n).drop o := (List.take_append_drop o _).symm
      conv => rhs; rw [hsplit]
      rw [readRecord_append]
      rw [List.length_take]; omega

end BV.C05.Lemmas
