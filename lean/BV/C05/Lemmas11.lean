/-
C05 helper lemmas, part 11: `skipPendingUpdates` and `reseekPast` in terms of the filtered list.
-/
import BV.C05.Lemmas10
namespace BV.C05.Lemmas
open BV.C05

section
variable {K V : Type} {cmp : K → K → Ordering}

/-- entries below `k` / not above `k` as predicates (both are closed downwards) -/
def pLT (cmp : K → K → Ordering) (k : K) (x : K × V) : Bool := cmp k x.1 == .gt
def pLE (cmp : K → K → Ordering) (k : K) (x : K × V) : Bool := cmp k x.1 != .lt

theorem pLT_down (h : OrdLaws cmp) (k : K) (x y : K × V) (hxy : cmp x.1 y.1 = .lt)
    (hy : pLT cmp k y = true) : pLT cmp k x = true := by
  unfold pLT at hy ⊢
  have : cmp k y.1 = .gt := by simpa using hy
  have := gt_of_lt h (h.lt_trans _ _ _ hxy (lt_of_gt h this))
  simp [this]

theorem pLE_down (h : OrdLaws cmp) (k : K) (x y : K × V) (hxy : cmp x.1 y.1 = .lt)
    (hy : pLE cmp k y = true) : pLE cmp k x = true := by
  unfold pLE at hy ⊢
  have hy' : cmp k y.1 ≠ .lt := by simpa using hy
  have hyk : cmp y.1 k ≠ .gt := fun hc => hy' (lt_of_gt h hc)
  have := gt_of_lt h (lt_le_trans h hxy hyk)
  simp [this]

/-- on a sorted list, dropping a downward-closed prefix commutes with filtering -/
theorem dropWhile_filter (p q : K × V → Bool) (A : List (K × V)) (hs : SortedKeys cmp A)
    (hp : ∀ x y, cmp x.1 y.1 = .lt → p y = true → p x = true) :
    (A.filter q).dropWhile p = (A.dropWhile p).filter q := by
  induction A with
  | nil => rfl
  | cons x xs ih =>
    unfold SortedKeys at hs
    rw [List.pairwise_cons] at hs
    by_cases hpx : p x = true
    · by_cases hqx : q x = true
      · simp [List.filter, List.dropWhile, hpx, hqx, ih hs.2]
      · simp [List.filter, List.dropWhile, hpx, hqx, ih hs.2]
    · have hall : ∀ y ∈ xs, p y = false := by
        intro y hy
        cases hpy : p y with
        | false => rfl
        | true => exact absurd (hp x y (hs.1 y hy) hpy) hpx
      have hdw : ∀ L : List (K × V), (∀ y ∈ L, p y = false) → L.dropWhile p = L := by
        intro L hL
        cases L with
        | nil => rfl
        | cons z zs => simp [List.dropWhile, hL z (List.mem_cons_self ..)]
      have hpx' : p x = false := by simpa using hpx
      simp only [List.dropWhile, hpx']
      apply hdw
      intro y hy
      rcases List.mem_filter.mp hy with ⟨hm, _⟩
      rcases List.mem_cons.mp hm with h1 | h1
      · rw [h1]; exact hpx'
      · exact hall y h1

theorem takeWhile_filter (p q : K × V → Bool) (A : List (K × V)) (hs : SortedKeys cmp A)
    (hp : ∀ x y, cmp x.1 y.1 = .lt → p y = true → p x = true) :
    (A.filter q).takeWhile p = (A.takeWhile p).filter q := by
  induction A with
  | nil => rfl
  | cons x xs ih =>
    unfold SortedKeys at hs
    rw [List.pairwise_cons] at hs
    by_cases hpx : p x = true
    · by_cases hqx : q x = true
      · simp [List.filter, List.takeWhile, hpx, hqx, ih hs.2]
      · simp [List.filter, List.takeWhile, hpx, hqx, ih hs.2]
    · have hall : ∀ y ∈ xs, p y = false := by
        intro y hy
        cases hpy : p y with
        | false => rfl
        | true => exact absurd (hp x y (hs.1 y hy) hpy) hpx
      have htw : ∀ L : List (K × V), (∀ y ∈ L, p y = false) → L.takeWhile p = [] := by
        intro L hL
        cases L with
        | nil => rfl
        | cons z zs => simp [List.takeWhile, hL z (List.mem_cons_self ..)]
      have hpx' : p x = false := by simpa using hpx
      simp only [List.takeWhile, hpx', List.filter_nil]
      apply htw
      intro y hy
      rcases List.mem_filter.mp hy with ⟨hm, _⟩
      rcases List.mem_cons.mp hm with h1 | h1
      · rw [h1]; exact hpx'
      · exact hall y h1

theorem dropShadow_head (sh : K → Bool) (xs : List (K × V)) :
    (dropShadow sh xs).head? = (xs.filter (fun x => !sh x.1)).head? := by
  induction xs with
  | nil => rfl
  | cons x xs ih =>
    by_cases hx : sh x.1 = true
    · simp [dropShadow, List.filter, hx, ih]
    · have : sh x.1 = false := by simpa using hx
      simp [dropShadow, List.filter, this]

theorem firstGE_dropWhile (k : K) (xs : List (K × V)) :
    firstGE cmp k xs = (xs.dropWhile (pLT cmp k)).head? := firstGE_eq_head k xs

theorem getLast?_cons_or {α : Type} (x : α) (L : List α) :
    (x :: L).getLast? = (match L.getLast? with | some y => some y | none => some x) := by
  cases L with
  | nil => rfl
  | cons z zs => rw [List.getLast?_cons_cons, List.getLast?_eq_some_getLast (List.cons_ne_nil z zs)]

theorem firstGT_dropWhile (k : K) (xs : List (K × V)) :
    firstGT cmp k xs = (xs.dropWhile (pLE cmp k)).head? := by
  induction xs with
  | nil => rfl
  | cons x xs ih =>
    by_cases hc : cmp k x.1 = .lt
    · have hp : pLE cmp k x = false := by simp [pLE, hc]
      simp [firstGT, hc, List.dropWhile, hp]
    · have hp : pLE cmp k x = true := by simp [pLE, hc]
      simp [firstGT, hc, List.dropWhile, hp, ih]

theorem lastLT_takeWhile (k : K) (xs : List (K × V)) :
    lastLT cmp k xs = (xs.takeWhile (pLT cmp k)).getLast? := by
  induction xs with
  | nil => rfl
  | cons x xs ih =>
    by_cases hc : cmp k x.1 = .gt
    · have hp : pLT cmp k x = true := by simp [pLT, hc]
      simp only [lastLT, hc, if_true, List.takeWhile, hp, getLast?_cons_or, ih]
      cases (List.takeWhile (pLT cmp k) xs).getLast? <;> rfl
    · have hp : pLT cmp k x = false := by simp [pLT, hc]
      simp [lastLT, hc, List.takeWhile, hp]

theorem lastLE_takeWhile (k : K) (xs : List (K × V)) :
    lastLE cmp k xs = (xs.takeWhile (pLE cmp k)).getLast? := by
  induction xs with
  | nil => rfl
  | cons x xs ih =>
    by_cases hc : cmp k x.1 = .lt
    · have hp : pLE cmp k x = false := by simp [pLE, hc]
      simp [lastLE, hc, List.takeWhile, hp]
    · have hp : pLE cmp k x = true := by simp [pLE, hc]
      simp only [lastLE, hc, if_false, List.takeWhile, hp, getLast?_cons_or, ih]
      cases (List.takeWhile (pLE cmp k) xs).getLast? <;> rfl

/-- forward skip from the head of `A.dropWhile p` lands on the head of `(A.filter ¬sh).dropWhile p` -/
theorem skip_fwd_dropWhile (h : OrdLaws cmp) (sh : K → Bool) (A : List (K × V))
    (hs : SortedKeys cmp A) (p : K × V → Bool)
    (hp : ∀ x y, cmp x.1 y.1 = .lt → p y = true → p x = true) :
    skipLoop sh (itNext cmp A) A.length (A.dropWhile p).head? =
      ((A.filter (fun x => !sh x.1)).dropWhile p).head? := by
  rw [skip_suffix h sh A hs (A.dropWhile p) (A.takeWhile p) A.length
    (List.takeWhile_append_dropWhile).symm (List.Sublist.length_le (List.dropWhile_sublist _)),
    dropShadow_head, dropWhile_filter p _ A hs hp]

/-- backward skip from the end of `A.takeWhile p` lands on the end of `(A.filter ¬sh).takeWhile p` -/
theorem skip_bwd_takeWhile (h : OrdLaws cmp) (sh : K → Bool) (A : List (K × V))
    (hs : SortedKeys cmp A) (p : K × V → Bool)
    (hp : ∀ x y, cmp x.1 y.1 = .lt → p y = true → p x = true) :
    skipLoop sh (itPrev cmp A) A.length (A.takeWhile p).getLast? =
      ((A.filter (fun x => !sh x.1)).takeWhile p).getLast? := by
  have e : (A.takeWhile p).getLast? = (A.takeWhile p).reverse.head? := by simp
  rw [e, skip_prefix h sh A hs (A.takeWhile p).reverse (A.dropWhile p) A.length
    (by simp [List.takeWhile_append_dropWhile])
    (by rw [List.length_reverse]; exact List.Sublist.length_le (List.takeWhile_sublist _)),
    dropShadow_head, List.filter_reverse, List.head?_reverse, takeWhile_filter p _ A hs hp]

end
end BV.C05.Lemmas
