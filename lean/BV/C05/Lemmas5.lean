/-
C05 helper lemmas, part 5: the treap iterator's seeks are navigation in the sorted contents.
-/
import BV.C05.Lemmas
namespace BV.C05.Lemmas
open BV.C05 BV.C05.Treap

section
variable {K V : Type} {cmp : K → K → Ordering}

/-- first alternative if present, else the second -/
def orSel {α : Type} : Option α → Option α → Option α
  | some x, _ => some x
  | none, b => b

theorem firstGE_append_gt (k : K) (xs ys : List (K × V)) (h : ∀ x ∈ xs, cmp k x.1 = .gt) :
    firstGE cmp k (xs ++ ys) = firstGE cmp k ys := by
  induction xs with
  | nil => rfl
  | cons x xs ih =>
    simp only [List.cons_append, firstGE, h x (List.mem_cons_self ..), if_true]
    exact ih (fun y hy => h y (List.mem_cons_of_mem _ hy))

theorem firstGE_append_le (k : K) (xs : List (K × V)) (y : K × V) (ys : List (K × V))
    (h : cmp k y.1 ≠ .gt) :
    firstGE cmp k (xs ++ y :: ys) = orSel (firstGE cmp k xs) (some y) := by
  induction xs with
  | nil => simp [firstGE, h, orSel]
  | cons x xs ih =>
    simp only [List.cons_append, firstGE]
    by_cases hx : cmp k x.1 = .gt
    · simp only [hx, if_true]; exact ih
    · simp only [hx, if_false, orSel]

theorem firstGT_append_ge (k : K) (xs ys : List (K × V)) (h : ∀ x ∈ xs, cmp k x.1 ≠ .lt) :
    firstGT cmp k (xs ++ ys) = firstGT cmp k ys := by
  induction xs with
  | nil => rfl
  | cons x xs ih =>
    simp only [List.cons_append, firstGT, h x (List.mem_cons_self ..), if_false]
    exact ih (fun y hy => h y (List.mem_cons_of_mem _ hy))

theorem firstGT_append_lt (k : K) (xs : List (K × V)) (y : K × V) (ys : List (K × V))
    (h : cmp k y.1 = .lt) :
    firstGT cmp k (xs ++ y :: ys) = orSel (firstGT cmp k xs) (some y) := by
  induction xs with
  | nil => simp [firstGT, h, orSel]
  | cons x xs ih =>
    simp only [List.cons_append, firstGT]
    by_cases hx : cmp k x.1 = .lt
    · simp only [hx, if_true, orSel]
    · simp only [hx, if_false]; exact ih

theorem lastLT_append_le (k : K) (xs : List (K × V)) (y : K × V) (ys : List (K × V))
    (h : cmp k y.1 ≠ .gt) :
    lastLT cmp k (xs ++ y :: ys) = lastLT cmp k xs := by
  induction xs with
  | nil => simp [lastLT, h]
  | cons x xs ih =>
    simp only [List.cons_append, lastLT]
    by_cases hx : cmp k x.1 = .gt
    · simp only [hx, if_true, ih]
    · simp only [hx, if_false]

theorem lastLT_append_gt (k : K) (xs ys : List (K × V)) (h : ∀ x ∈ xs, cmp k x.1 = .gt) :
    lastLT cmp k (xs ++ ys) = orSel (lastLT cmp k ys) xs.getLast? := by
  induction xs with
  | nil => simp only [List.nil_append, List.getLast?_nil]; cases lastLT cmp k ys <;> rfl
  | cons x xs ih =>
    simp only [List.cons_append, lastLT, h x (List.mem_cons_self ..), if_true]
    rw [ih (fun y hy => h y (List.mem_cons_of_mem _ hy))]
    cases hl : lastLT cmp k ys with
    | some y => simp [orSel]
    | none =>
      simp only [orSel]
      cases xs with
      | nil => simp
      | cons z zs =>
        simp only [List.getLast?_cons_cons]
        rw [List.getLast?_eq_some_getLast (List.cons_ne_nil z zs)]

/-- the keys of `l ++ [(k', v')]` are all below `k` when `k' < k` and `l` is below `k'` -/
theorem all_gt_snoc (h : OrdLaws cmp) (k k' : K) (v' : V) (l : List (K × V))
    (hl : ∀ x ∈ l, cmp x.1 k' = .lt) (hc : cmp k k' = .gt) :
    ∀ x ∈ l ++ [(k', v')], cmp k x.1 = .gt := by
  intro x hx
  rcases List.mem_append.mp hx with h1 | h1
  · exact gt_of_lt h (h.lt_trans _ _ _ (hl x h1) (lt_of_gt h hc))
  · rw [List.mem_singleton] at h1; rw [h1]; exact hc

theorem split_snoc (l r : List (K × V)) (x : K × V) : l ++ x :: r = (l ++ [x]) ++ r := by simp

/-- `seek(key, exactMatch = true, greater = true)` (`Seek`, `First` with a start key) -/
theorem seekGE_spec (h : OrdLaws cmp) (k : K) (t : Treap K V) (sel : Option (K × V))
    (hs : SortedKeys cmp (toList t)) :
    seekAux cmp k true true t sel = orSel (firstGE cmp k (toList t)) sel := by
  induction t generalizing sel with
  | nil => simp [seekAux, toList, firstGE, orSel]
  | node l k' v' p' r ihl ihr =>
    obtain ⟨hsl, hsr, hl, hr⟩ := sorted_node hs
    simp only [seekAux, toList]
    cases hc : cmp k k' with
    | lt =>
      simp only [if_true]
      rw [ihl _ hsl, firstGE_append_le k _ (k', v') _ (by simp [hc])]
      cases firstGE cmp k (toList l) <;> simp [orSel]
    | gt =>
      simp only [if_true]
      rw [ihr _ hsr, split_snoc, firstGE_append_gt k _ _ (all_gt_snoc h k k' v' _ hl hc)]
    | eq =>
      simp only [if_true]
      have hk : k = k' := (h.eq_iff _ _).mp hc
      subst hk
      rw [firstGE_append_gt k _ _ (fun x hx => gt_of_lt h (hl x hx))]
      simp [firstGE, hc, orSel]

/-- `seek(key, exactMatch = false, greater = true)` (`Next` after `ForceReseek`) -/
theorem seekGT_spec (h : OrdLaws cmp) (k : K) (t : Treap K V) (sel : Option (K × V))
    (hs : SortedKeys cmp (toList t)) :
    seekAux cmp k false true t sel = orSel (firstGT cmp k (toList t)) sel := by
  induction t generalizing sel with
  | nil => simp [seekAux, toList, firstGT, orSel]
  | node l k' v' p' r ihl ihr =>
    obtain ⟨hsl, hsr, hl, hr⟩ := sorted_node hs
    simp only [seekAux, toList]
    cases hc : cmp k k' with
    | lt =>
      simp only [if_true]
      rw [ihl _ hsl, firstGT_append_lt k _ (k', v') _ hc]
      cases firstGT cmp k (toList l) <;> simp [orSel]
    | gt =>
      simp only [if_true]
      rw [ihr _ hsr, split_snoc, firstGT_append_ge k _ _
        (fun x hx => by rw [all_gt_snoc h k k' v' _ hl hc x hx]; simp)]
    | eq =>
      simp only [Bool.false_eq_true, if_false, if_true]
      have hk : k = k' := (h.eq_iff _ _).mp hc
      subst hk
      have hall : ∀ x ∈ toList l ++ [(k, v')], cmp k x.1 ≠ .lt := by
        intro x hx
        rcases List.mem_append.mp hx with h1 | h1
        · rw [gt_of_lt h (hl x h1)]; simp
        · rw [List.mem_singleton] at h1; rw [h1, hc]; simp
      rw [ihr _ hsr, split_snoc, firstGT_append_ge k _ _ hall]

/-- `seek(key, exactMatch = false, greater = false)` (`Last` with a limit key, `Prev` after
`ForceReseek`) -/
theorem seekLT_spec (h : OrdLaws cmp) (k : K) (t : Treap K V) (sel : Option (K × V))
    (hs : SortedKeys cmp (toList t)) :
    seekAux cmp k false false t sel = orSel (lastLT cmp k (toList t)) sel := by
  induction t generalizing sel with
  | nil => simp [seekAux, toList, lastLT, orSel]
  | node l k' v' p' r ihl ihr =>
    obtain ⟨hsl, hsr, hl, hr⟩ := sorted_node hs
    simp only [seekAux, toList]
    cases hc : cmp k k' with
    | lt =>
      simp only [Bool.false_eq_true, if_false]
      rw [ihl _ hsl, lastLT_append_le k _ (k', v') _ (by simp [hc])]
    | gt =>
      simp only [Bool.false_eq_true, if_false]
      rw [ihr _ hsr, split_snoc, lastLT_append_gt k _ _ (all_gt_snoc h k k' v' _ hl hc)]
      cases lastLT cmp k (toList r) <;> simp [orSel]
    | eq =>
      simp only [Bool.false_eq_true, if_false]
      rw [ihl _ hsl, lastLT_append_le k _ (k', v') _ (by simp [hc])]

theorem getLast?_append_cons_ne {α : Type} (a : List α) (x : α) (b : List α) (hb : b ≠ []) :
    (a ++ x :: b).getLast? = b.getLast? := by
  cases b with
  | nil => exact absurd rfl hb
  | cons c cs =>
    simp only [List.getLast?_append, List.getLast?_cons_cons]
    rw [List.getLast?_eq_some_getLast (List.cons_ne_nil c cs)]
    rfl

theorem leftmost_spec (t : Treap K V) : leftmost t = (toList t).head? := by
  induction t with
  | nil => rfl
  | node l k v p r ihl _ =>
    cases l with
    | nil => simp [leftmost, toList]
    | node ll lk lv lp lr =>
      simp only [leftmost, toList] at ihl ⊢
      rw [ihl]
      simp [List.head?_append]

theorem rightmost_spec (t : Treap K V) : rightmost t = (toList t).getLast? := by
  induction t with
  | nil => rfl
  | node l k v p r _ ihr =>
    cases r with
    | nil => simp [rightmost, toList]
    | node rl rk rv rp rr =>
      simp only [rightmost, toList] at ihr ⊢
      rw [ihr]
      exact (getLast?_append_cons_ne _ _ _ (by simp)).symm

end
end BV.C05.Lemmas
