/-
C05 helper lemmas, part 3: cursor merge; lookups through layers; commit of the pending layer.
-/
import BV.C05.Lemmas
import BV.C05.Cursor
import BV.C05.DbModel
namespace BV.C05.Lemmas
open BV.C05

section Cur
variable {K V : Type} (cmp : K → K → Ordering)

theorem mergeSorted_nil (X : List (K × V)) : mergeSorted cmp X [] = X := by
  cases X <;> simp [mergeSorted, mergeSorted.go]

theorem fwdRun_eq_merge (sh : K → Bool) (A B : List (K × V)) :
    fwdRun cmp sh A B = mergeSorted cmp (A.filter (fun x => !sh x.1)) B := by
  induction A generalizing B with
  | nil => simp [fwdRun, mergeSorted]
  | cons a as ih =>
    by_cases hs : sh a.1 = true
    · simp [fwdRun, hs, ih]
    · have hs' : sh a.1 = false := by simpa using hs
      simp only [fwdRun, hs', Bool.false_eq_true, if_false, List.filter, Bool.not_false, mergeSorted]
      induction B with
      | nil => simp [fwdRun.go, mergeSorted.go, ih, mergeSorted_nil]
      | cons b bs ihb =>
        simp only [fwdRun.go, mergeSorted.go]
        by_cases hc : cmp a.1 b.1 = .gt
        · simp only [hc, if_true]; rw [ihb]
        · simp only [hc, if_false]; rw [ih]

end Cur

/-! ### lookups through folds of inserts / erases -/

theorem foldl_insert_sorted (m B : KV) (hm : SortedKeys cmpB m) :
    SortedKeys cmpB (B.foldl (fun m kv => insertSorted cmpB kv.1 kv.2 m) m) := by
  induction B generalizing m with
  | nil => exact hm
  | cons x xs ih => exact ih _ (insertSorted_sorted cmpB_laws _ _ _ hm)

theorem foldl_erase_sorted (m R : KV) (hm : SortedKeys cmpB m) :
    SortedKeys cmpB (R.foldl (fun m kv => eraseKey cmpB kv.1 m) m) := by
  induction R generalizing m with
  | nil => exact hm
  | cons x xs ih => exact ih _ (eraseKey_sorted _ _ hm)

/-- lookup after inserting every entry of the sorted list `B` -/
theorem lookup_foldl_insert (k : Key) (m B : KV) (hm : SortedKeys cmpB m) (hB : SortedKeys cmpB B) :
    lookup cmpB k (B.foldl (fun m kv => insertSorted cmpB kv.1 kv.2 m) m) =
      match lookup cmpB k B with
      | some v => some v
      | none => lookup cmpB k m := by
  induction B generalizing m with
  | nil => simp [lookup]
  | cons x xs ih =>
    obtain ⟨xk, xv⟩ := x
    unfold SortedKeys at hB
    rw [List.pairwise_cons] at hB
    obtain ⟨hx, hxs⟩ := hB
    simp only [List.foldl_cons]
    rw [ih _ (insertSorted_sorted cmpB_laws _ _ _ hm) hxs, lookup_insertSorted cmpB_laws _ _ _ _ hm]
    simp only [lookup]
    cases hc : cmpB k xk with
    | lt =>
      have : ∀ y ∈ xs, cmpB k y.1 = .lt := fun y hy => cmpB_lt_trans _ _ _ hc (hx y hy)
      simp [lookup_all_lt k xs this]
    | eq =>
      have hk : k = xk := (cmpB_eq_iff _ _).mp hc
      subst hk
      simp [lookup_all_lt k xs hx]
    | gt => simp

/-- lookup after erasing every key of the list `R` -/
theorem lookup_foldl_erase (k : Key) (m R : KV) (hm : SortedKeys cmpB m) (hR : SortedKeys cmpB R) :
    lookup cmpB k (R.foldl (fun m kv => eraseKey cmpB kv.1 m) m) =
      if (lookup cmpB k R).isSome then none else lookup cmpB k m := by
  induction R generalizing m with
  | nil => simp [lookup]
  | cons x xs ih =>
    obtain ⟨xk, xv⟩ := x
    unfold SortedKeys at hR
    rw [List.pairwise_cons] at hR
    obtain ⟨hx, hxs⟩ := hR
    simp only [List.foldl_cons]
    rw [ih _ (eraseKey_sorted _ _ hm) hxs, lookup_eraseKey cmpB_laws _ _ _ hm]
    simp only [lookup]
    have hcases : cmpB k xk = .lt ∨ cmpB k xk = .eq ∨ cmpB k xk = .gt := by
      cases cmpB k xk <;> simp
    rcases hcases with hc | hc | hc
    · have : ∀ y ∈ xs, cmpB k y.1 = .lt := fun y hy => cmpB_lt_trans _ _ _ hc (hx y hy)
      simp [hc, lookup_all_lt k xs this]
    · have hk : k = xk := (cmpB_eq_iff _ _).mp hc
      subst hk
      simp [hc, lookup_all_lt k xs hx]
    · simp [hc]

/-- well-formed layer: both lists strictly sorted -/
structure LayerOk (keys rem : KV) : Prop where
  keys : SortedKeys cmpB keys
  rem : SortedKeys cmpB rem

theorem applyToLdb_sorted (ldb keys rem : KV) (h : SortedKeys cmpB ldb) :
    SortedKeys cmpB (applyToLdb ldb keys rem) :=
  foldl_erase_sorted _ _ (foldl_insert_sorted _ _ h)

/-- lookup in leveldb after `commitTreaps` -/
theorem lookup_applyToLdb (k : Key) (ldb keys rem : KV) (h : SortedKeys cmpB ldb)
    (hl : LayerOk keys rem) :
    lookup cmpB k (applyToLdb ldb keys rem) =
      if (lookup cmpB k rem).isSome then none else
      match lookup cmpB k keys with
      | some v => some v
      | none => lookup cmpB k ldb := by
  unfold applyToLdb
  rw [lookup_foldl_erase k _ _ (foldl_insert_sorted _ _ h) hl.rem, lookup_foldl_insert k _ _ h hl.keys]

/-- the cache layer after `commitTx` (no-flush path) -/
theorem commitCache_lookups (k : Key) (cKeys cRem pKeys pRem : KV)
    (hc : LayerOk cKeys cRem) (hp : LayerOk pKeys pRem) :
    lookup cmpB k (commitCache cKeys cRem pKeys pRem).1 =
      (if (lookup cmpB k pRem).isSome then none else
        match lookup cmpB k pKeys with
        | some v => some v
        | none => lookup cmpB k cKeys) ∧
    lookup cmpB k (commitCache cKeys cRem pKeys pRem).2 =
      (match lookup cmpB k pRem with
        | some v => some v
        | none => if (lookup cmpB k pKeys).isSome then none else lookup cmpB k cRem) := by
  unfold commitCache
  constructor
  · simp only []
    rw [lookup_foldl_erase k _ _ (foldl_insert_sorted _ _ hc.keys) hp.rem,
      lookup_foldl_insert k _ _ hc.keys hp.keys]
  · simp only []
    rw [lookup_foldl_insert k _ _ (foldl_erase_sorted _ _ hc.rem) hp.rem,
      lookup_foldl_erase k _ _ hc.rem hp.keys]

theorem commitCache_ok (cKeys cRem pKeys pRem : KV) (hc : LayerOk cKeys cRem) :
    LayerOk (commitCache cKeys cRem pKeys pRem).1 (commitCache cKeys cRem pKeys pRem).2 := by
  unfold commitCache
  exact ⟨foldl_erase_sorted _ _ (foldl_insert_sorted _ _ hc.keys),
    foldl_insert_sorted _ _ (foldl_erase_sorted _ _ hc.rem)⟩

/-- Commit through the cache: a transaction that begins afterwards reads, for every key, exactly
what the committing writer read at the end of its transaction. -/
theorem commit_cache_path (k : Key) (ldb cKeys cRem pKeys pRem : KV)
    (hc : LayerOk cKeys cRem) (hp : LayerOk pKeys pRem) :
    Snap.get ⟨ldb, (commitCache cKeys cRem pKeys pRem).1, (commitCache cKeys cRem pKeys pRem).2⟩ k =
      txGet true pKeys pRem ⟨ldb, cKeys, cRem⟩ k := by
  obtain ⟨h1, h2⟩ := commitCache_lookups k cKeys cRem pKeys pRem hc hp
  unfold Snap.get txGet
  simp only [h1, h2, Snap.get, Bool.true_and, if_true]
  cases hpr : lookup cmpB k pRem <;> cases hpk : lookup cmpB k pKeys <;>
    cases hcr : lookup cmpB k cRem <;> cases hck : lookup cmpB k cKeys <;> simp

/-- Commit on the flush path: the cache is written to leveldb, then the transaction. -/
theorem commit_flush_path (k : Key) (ldb cKeys cRem pKeys pRem : KV) (hl : SortedKeys cmpB ldb)
    (hc : LayerOk cKeys cRem) (hp : LayerOk pKeys pRem) :
    Snap.get ⟨applyToLdb (applyToLdb ldb cKeys cRem) pKeys pRem, [], []⟩ k =
      txGet true pKeys pRem ⟨ldb, cKeys, cRem⟩ k := by
  unfold Snap.get txGet
  simp only [lookup, Option.isSome_none, Bool.false_eq_true, if_false, Bool.true_and, if_true, Snap.get]
  rw [lookup_applyToLdb k _ _ _ (applyToLdb_sorted _ _ _ hl) hp, lookup_applyToLdb k _ _ _ hl hc]
  cases hpr : lookup cmpB k pRem <;> cases hpk : lookup cmpB k pKeys <;>
    cases hcr : lookup cmpB k cRem <;> cases hck : lookup cmpB k cKeys <;> simp

/-- a flush does not change what is read -/
theorem flush_preserves_reads (k : Key) (ldb cKeys cRem : KV) (hl : SortedKeys cmpB ldb)
    (hc : LayerOk cKeys cRem) :
    Snap.get ⟨applyToLdb ldb cKeys cRem, [], []⟩ k = Snap.get ⟨ldb, cKeys, cRem⟩ k := by
  unfold Snap.get
  simp only [lookup, Option.isSome_none, Bool.false_eq_true, if_false]
  rw [lookup_applyToLdb k _ _ _ hl hc]
  cases hcr : lookup cmpB k cRem <;> cases hck : lookup cmpB k cKeys <;> simp

/-- pending put / delete keep the pending layer well-formed and act as a map update on reads -/
theorem pendPut_ok (pKeys pRem : KV) (k : Key) (v : Val) (h : LayerOk pKeys pRem) :
    LayerOk (pendPut pKeys pRem k v).1 (pendPut pKeys pRem k v).2 :=
  ⟨insertSorted_sorted cmpB_laws _ _ _ h.keys, eraseKey_sorted _ _ h.rem⟩

theorem pendDel_ok (pKeys pRem : KV) (k : Key) (h : LayerOk pKeys pRem) :
    LayerOk (pendDel pKeys pRem k).1 (pendDel pKeys pRem k).2 :=
  ⟨eraseKey_sorted _ _ h.keys, insertSorted_sorted cmpB_laws _ _ _ h.rem⟩

theorem txGet_pendPut (s : Snap) (pKeys pRem : KV) (k k' : Key) (v : Val) (h : LayerOk pKeys pRem) :
    txGet true (pendPut pKeys pRem k v).1 (pendPut pKeys pRem k v).2 s k' =
      if k' = k then some v else txGet true pKeys pRem s k' := by
  unfold txGet pendPut
  simp only [Bool.true_and, if_true]
  rw [lookup_insertSorted cmpB_laws _ _ _ _ h.keys, lookup_eraseKey cmpB_laws _ _ _ h.rem]
  by_cases hk : k' = k
  · subst hk; simp [(cmpB_eq_iff k' k').mpr rfl]
  · have : cmpB k' k ≠ .eq := fun hc => hk ((cmpB_eq_iff _ _).mp hc)
    simp [hk, this]

theorem txGet_pendDel (s : Snap) (pKeys pRem : KV) (k k' : Key) (h : LayerOk pKeys pRem) :
    txGet true (pendDel pKeys pRem k).1 (pendDel pKeys pRem k).2 s k' =
      if k' = k then none else txGet true pKeys pRem s k' := by
  unfold txGet pendDel
  simp only [Bool.true_and, if_true]
  rw [lookup_insertSorted cmpB_laws _ _ _ _ h.rem, lookup_eraseKey cmpB_laws _ _ _ h.keys]
  by_cases hk : k' = k
  · subst hk; simp [(cmpB_eq_iff k' k').mpr rfl]
  · have : cmpB k' k ≠ .eq := fun hc => hk ((cmpB_eq_iff _ _).mp hc)
    simp [hk, this]

end BV.C05.Lemmas
