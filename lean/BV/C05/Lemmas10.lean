/-
C05 helper lemmas, part 10: list-level facts for the repaired cursor (seeks on sorted lists,
skipping of shadowed entries in both directions).
-/
import BV.C05.Lemmas8
import BV.C05.CursorFix
namespace BV.C05.Lemmas
open BV.C05

section
variable {K V : Type} {cmp : K → K → Ordering}

/-- `k ≤ x` as "not greater" composed with `x < y` -/
theorem le_lt_trans (h : OrdLaws cmp) {a b c : K} (h1 : cmp a b ≠ .gt) (h2 : cmp b c = .lt) :
    cmp a c = .lt := by
  cases hab : cmp a b with
  | lt => exact h.lt_trans _ _ _ hab h2
  | eq => rw [(h.eq_iff _ _).mp hab]; exact h2
  | gt => exact absurd hab h1

theorem lt_le_trans (h : OrdLaws cmp) {a b c : K} (h1 : cmp a b = .lt) (h2 : cmp b c ≠ .gt) :
    cmp a c = .lt := by
  cases hbc : cmp b c with
  | lt => exact h.lt_trans _ _ _ h1 hbc
  | eq => rw [← (h.eq_iff _ _).mp hbc]; exact h1
  | gt => exact absurd hbc h2

theorem firstGE_mem (k : K) (xs : List (K × V)) (x : K × V) (hx : firstGE cmp k xs = some x) :
    x ∈ xs ∧ cmp k x.1 ≠ .gt := by
  induction xs with
  | nil => simp [firstGE] at hx
  | cons y ys ih =>
    simp only [firstGE] at hx
    by_cases hy : cmp k y.1 = .gt
    · simp only [hy, if_true] at hx
      exact ⟨List.mem_cons_of_mem _ (ih hx).1, (ih hx).2⟩
    · simp only [hy, if_false, Option.some.injEq] at hx
      subst hx; exact ⟨List.mem_cons_self .., hy⟩

theorem firstGT_mem (k : K) (xs : List (K × V)) (x : K × V) (hx : firstGT cmp k xs = some x) :
    x ∈ xs ∧ cmp k x.1 = .lt := by
  induction xs with
  | nil => simp [firstGT] at hx
  | cons y ys ih =>
    simp only [firstGT] at hx
    by_cases hy : cmp k y.1 = .lt
    · simp only [hy, if_true, Option.some.injEq] at hx
      subst hx; exact ⟨List.mem_cons_self .., hy⟩
    · simp only [hy, if_false] at hx
      exact ⟨List.mem_cons_of_mem _ (ih hx).1, (ih hx).2⟩

/-- K1: nothing of `X` lies strictly between `k` and `k'`, so "first > k" is "first ≥ k'" -/
theorem firstGT_to_GE (h : OrdLaws cmp) (k k' : K) (X : List (K × V)) (hkk : cmp k k' = .lt)
    (hr : ∀ y, firstGT cmp k X = some y → cmp k' y.1 ≠ .gt) :
    firstGE cmp k' X = firstGT cmp k X := by
  induction X with
  | nil => rfl
  | cons x xs ih =>
    simp only [firstGT] at hr ⊢
    simp only [firstGE]
    by_cases hx : cmp k x.1 = .lt
    · simp only [hx, if_true] at hr ⊢
      have := hr x rfl
      simp [this]
    · simp only [hx, if_false] at hr ⊢
      have hgt : cmp k' x.1 = .gt := by
        apply gt_of_lt h
        cases hc : cmp k x.1 with
        | lt => exact absurd hc hx
        | eq => rw [← (h.eq_iff _ _).mp hc]; exact hkk
        | gt => exact h.lt_trans _ _ _ (lt_of_gt h hc) hkk
      simp only [hgt, if_true]
      exact ih hr

/-- K1': the same for "first ≥ k" and `k ≤ k'` -/
theorem firstGE_to_GE (h : OrdLaws cmp) (k k' : K) (X : List (K × V)) (hkk : cmp k k' ≠ .gt)
    (hr : ∀ y, firstGE cmp k X = some y → cmp k' y.1 ≠ .gt) :
    firstGE cmp k' X = firstGE cmp k X := by
  induction X with
  | nil => rfl
  | cons x xs ih =>
    simp only [firstGE] at hr ⊢
    by_cases hx : cmp k x.1 = .gt
    · simp only [hx, if_true] at hr ⊢
      have hgt : cmp k' x.1 = .gt := by
        apply gt_of_lt h
        exact lt_le_trans h (lt_of_gt h hx) hkk
      simp only [hgt, if_true]
      exact ih hr
    · simp only [hx, if_false] at hr ⊢
      have := hr x rfl
      simp [this]

theorem head_to_GE (k' : K) (X : List (K × V))
    (hr : ∀ y, X.head? = some y → cmp k' y.1 ≠ .gt) :
    firstGE cmp k' X = X.head? := by
  cases X with
  | nil => rfl
  | cons x xs => have := hr x rfl; simp [firstGE, this]

/-- an entry of a sorted list is its own "first ≥" -/
theorem firstGE_self (h : OrdLaws cmp) (X : List (K × V)) (hs : SortedKeys cmp X) (x : K × V)
    (hx : x ∈ X) : firstGE cmp x.1 X = some x := by
  induction X with
  | nil => cases hx
  | cons y ys ih =>
    unfold SortedKeys at hs
    rw [List.pairwise_cons] at hs
    simp only [firstGE]
    rcases List.mem_cons.mp hx with h1 | h1
    · subst h1; simp [cmp_refl h]
    · have : cmp x.1 y.1 = .gt := gt_of_lt h (hs.1 x h1)
      simp only [this, if_true]; exact ih hs.2 h1

/-- … and when the key is not in the list, "first ≥" is "first >" -/
theorem firstGE_eq_GT_of_absent (h : OrdLaws cmp) (k : K) (X : List (K × V))
    (hab : ∀ x ∈ X, cmp k x.1 ≠ .eq) : firstGE cmp k X = firstGT cmp k X := by
  induction X with
  | nil => rfl
  | cons x xs ih =>
    simp only [firstGE, firstGT]
    have hne := hab x (List.mem_cons_self ..)
    have ih' := ih (fun y hy => hab y (List.mem_cons_of_mem _ hy))
    cases hc : cmp k x.1 with
    | lt => simp
    | eq => exact absurd hc hne
    | gt => simp [ih']

/-! #### backward counterparts -/

theorem lastLT_mem (k : K) (xs : List (K × V)) (x : K × V) (hx : lastLT cmp k xs = some x) :
    x ∈ xs ∧ cmp k x.1 = .gt := by
  induction xs with
  | nil => simp [lastLT] at hx
  | cons y ys ih =>
    simp only [lastLT] at hx
    by_cases hy : cmp k y.1 = .gt
    · simp only [hy, if_true] at hx
      cases hl : lastLT cmp k ys with
      | some z =>
        rw [hl] at hx; simp only [Option.some.injEq] at hx; subst hx
        exact ⟨List.mem_cons_of_mem _ (ih hl).1, (ih hl).2⟩
      | none =>
        rw [hl] at hx; simp only [Option.some.injEq] at hx; subst hx
        exact ⟨List.mem_cons_self .., hy⟩
    · simp [hy] at hx

theorem lastLE_mem (k : K) (xs : List (K × V)) (x : K × V) (hx : lastLE cmp k xs = some x) :
    x ∈ xs ∧ cmp k x.1 ≠ .lt := by
  induction xs with
  | nil => simp [lastLE] at hx
  | cons y ys ih =>
    simp only [lastLE] at hx
    by_cases hy : cmp k y.1 = .lt
    · simp [hy] at hx
    · simp only [hy, if_false] at hx
      cases hl : lastLE cmp k ys with
      | some z =>
        rw [hl] at hx; simp only [Option.some.injEq] at hx; subst hx
        exact ⟨List.mem_cons_of_mem _ (ih hl).1, (ih hl).2⟩
      | none =>
        rw [hl] at hx; simp only [Option.some.injEq] at hx; subst hx
        exact ⟨List.mem_cons_self .., hy⟩

/-- K2: "last < k" is "last ≤ k'" when `k' < k` and nothing lies strictly between -/
theorem lastLT_to_LE (h : OrdLaws cmp) (k k' : K) (X : List (K × V)) (hs : SortedKeys cmp X)
    (hkk : cmp k' k = .lt)
    (hr : ∀ y, lastLT cmp k X = some y → cmp k' y.1 ≠ .lt) :
    lastLE cmp k' X = lastLT cmp k X := by
  induction X with
  | nil => rfl
  | cons x xs ih =>
    unfold SortedKeys at hs
    rw [List.pairwise_cons] at hs
    simp only [lastLT, lastLE] at hr ⊢
    by_cases hx : cmp k x.1 = .gt
    · simp only [hx, if_true] at hr ⊢
      cases hl : lastLT cmp k xs with
      | some z =>
        rw [hl] at hr
        have hz := hr z rfl
        have ihz := ih hs.2 (fun y hy => by rw [hl] at hy; cases hy; exact hz)
        have hxz : cmp x.1 z.1 = .lt := hs.1 z (lastLT_mem k xs z hl).1
        have hk'x : cmp k' x.1 ≠ .lt := by
          intro hc
          exact hz (h.lt_trans _ _ _ hc hxz)
        simp only [hk'x, if_false, ihz, hl]
      | none =>
        rw [hl] at hr
        have hxx := hr x rfl
        have ihn := ih hs.2 (fun y hy => by rw [hl] at hy; cases hy)
        simp only [hxx, if_false, ihn, hl]
    · simp only [hx, if_false] at hr ⊢
      have : cmp k' x.1 = .lt := by
        cases hc : cmp k x.1 with
        | lt => exact h.lt_trans _ _ _ hkk hc
        | eq => rw [← (h.eq_iff _ _).mp hc]; exact hkk
        | gt => exact absurd hc hx
      simp [this]

/-- K2': the same for "last ≤ k" and `k' ≤ k` -/
theorem lastLE_to_LE (h : OrdLaws cmp) (k k' : K) (X : List (K × V)) (hs : SortedKeys cmp X)
    (hkk : cmp k' k ≠ .gt)
    (hr : ∀ y, lastLE cmp k X = some y → cmp k' y.1 ≠ .lt) :
    lastLE cmp k' X = lastLE cmp k X := by
  induction X with
  | nil => rfl
  | cons x xs ih =>
    unfold SortedKeys at hs
    rw [List.pairwise_cons] at hs
    simp only [lastLE] at hr ⊢
    by_cases hx : cmp k x.1 = .lt
    · simp only [hx, if_true] at hr ⊢
      have : cmp k' x.1 = .lt := le_lt_trans h hkk hx
      simp [this]
    · simp only [hx, if_false] at hr ⊢
      cases hl : lastLE cmp k xs with
      | some z =>
        rw [hl] at hr
        have hz := hr z rfl
        have ihz := ih hs.2 (fun y hy => by rw [hl] at hy; cases hy; exact hz)
        have hxz : cmp x.1 z.1 = .lt := hs.1 z (lastLE_mem k xs z hl).1
        have hk'x : cmp k' x.1 ≠ .lt := fun hc => hz (h.lt_trans _ _ _ hc hxz)
        simp only [hk'x, if_false, ihz, hl]
      | none =>
        rw [hl] at hr
        have hxx := hr x rfl
        have ihn := ih hs.2 (fun y hy => by rw [hl] at hy; cases hy)
        simp only [hxx, if_false, ihn, hl]

theorem last_to_LE (h : OrdLaws cmp) (k' : K) (X : List (K × V)) (hs : SortedKeys cmp X)
    (hr : ∀ y, X.getLast? = some y → cmp k' y.1 ≠ .lt) :
    lastLE cmp k' X = X.getLast? := by
  induction X with
  | nil => rfl
  | cons x xs ih =>
    unfold SortedKeys at hs
    rw [List.pairwise_cons] at hs
    simp only [lastLE]
    cases xs with
    | nil =>
      have := hr x rfl
      simp [this, lastLE]
    | cons z zs =>
      have hlast : (x :: z :: zs).getLast? = (z :: zs).getLast? := List.getLast?_cons_cons
      rw [hlast] at hr ⊢
      have ih' := ih hs.2 hr
      obtain ⟨w, hw⟩ : ∃ w, (z :: zs).getLast? = some w :=
        ⟨_, List.getLast?_eq_some_getLast (List.cons_ne_nil z zs)⟩
      have hwm : w ∈ z :: zs := List.mem_of_getLast? hw
      have hk'x : cmp k' x.1 ≠ .lt := fun hc => hr w hw (h.lt_trans _ _ _ hc (hs.1 w hwm))
      simp only [hk'x, if_false, ih', hw]

theorem lastLE_self (h : OrdLaws cmp) (X : List (K × V)) (hs : SortedKeys cmp X) (x : K × V)
    (hx : x ∈ X) : lastLE cmp x.1 X = some x := by
  induction X with
  | nil => cases hx
  | cons y ys ih =>
    unfold SortedKeys at hs
    rw [List.pairwise_cons] at hs
    simp only [lastLE]
    rcases List.mem_cons.mp hx with h1 | h1
    · subst h1
      have hn : lastLE cmp x.1 ys = none := by
        cases ys with
        | nil => rfl
        | cons z zs => simp [lastLE, hs.1 z (List.mem_cons_self ..)]
      simp [cmp_refl h, hn]
    · have hgt : cmp x.1 y.1 = .gt := gt_of_lt h (hs.1 x h1)
      simp [hgt, ih hs.2 h1]

theorem lastLE_eq_LT_of_absent (k : K) (X : List (K × V))
    (hab : ∀ x ∈ X, cmp k x.1 ≠ .eq) : lastLE cmp k X = lastLT cmp k X := by
  induction X with
  | nil => rfl
  | cons x xs ih =>
    simp only [lastLE, lastLT]
    have hne := hab x (List.mem_cons_self ..)
    have ih' := ih (fun y hy => hab y (List.mem_cons_of_mem _ hy))
    cases hc : cmp k x.1 with
    | lt => simp
    | eq => exact absurd hc hne
    | gt => simp [ih']; cases lastLT cmp k xs <;> rfl

end
end BV.C05.Lemmas
