/-
C05 helper lemmas, part 2: block-log records, rows, reconcile, durability machine.
-/
import BV.C05.DbModel
import BV.C05.Durable
namespace BV.C05.Lemmas
open BV.Hex BV.C05

theorem le32_eq (n : Nat) : le32 n = [UInt8.ofNat (n % 2^32 % 256), UInt8.ofNat (n % 2^32 / 256 % 256),
    UInt8.ofNat (n % 2^32 / 65536 % 256), UInt8.ofNat (n % 2^32 / 16777216 % 256)] := by
  simp [le32, natLE, List.range, List.range.loop]

theorem be32_eq (n : Nat) : be32 n = [UInt8.ofNat (n % 2^32 / 16777216 % 256), UInt8.ofNat (n % 2^32 / 65536 % 256),
    UInt8.ofNat (n % 2^32 / 256 % 256), UInt8.ofNat (n % 2^32 % 256)] := by
  simp [be32, natBE, List.range, List.range.loop]

theorem le32_length (n : Nat) : (le32 n).length = 4 := by rw [le32_eq]; rfl
theorem be32_length (n : Nat) : (be32 n).length = 4 := by rw [be32_eq]; rfl

theorem leToNat_le32 (n : Nat) : leToNat (le32 n) = n % 2^32 := by
  rw [le32_eq]; simp [leToNat]; omega

theorem beToNat_be32 (n : Nat) : beToNat (be32 n) = n % 2^32 := by
  rw [be32_eq]; simp [beToNat]; omega

theorem record_length (crc : Bytes → Nat) (net : Nat) (b : Bytes) :
    (record crc net b).length = b.length + 12 := by
  simp [record, le32_length, be32_length]; omega

/-- reading back a record that sits at offset `pre.length` of a file -/
theorem readRecord_record (crc : Bytes → Nat) (hcrc : ∀ x, crc x < 2^32) (net : Nat)
    (pre b post : Bytes) :
    readRecord crc net (pre ++ record crc net b ++ post) pre.length (b.length + 12) = .ok b := by
  have hlen := record_length crc net b
  have hdata : ((pre ++ record crc net b ++ post).drop pre.length).take (b.length + 12)
      = record crc net b := by
    rw [List.append_assoc, List.drop_left' rfl, List.take_left' hlen]
  unfold readRecord
  simp only [hdata]
  have hhdr : (le32 net ++ le32 b.length ++ b).length = b.length + 12 - 4 := by
    simp [le32_length]; omega
  have htake : (record crc net b).take (b.length + 12 - 4) = le32 net ++ le32 b.length ++ b := by
    unfold record; rw [List.take_left' hhdr]
  have hdrop : (record crc net b).drop (b.length + 12 - 4) = be32 (crc (le32 net ++ le32 b.length ++ b)) := by
    unfold record; rw [List.drop_left' hhdr]
  have htake4 : (record crc net b).take 4 = le32 net := by
    unfold record; rw [List.append_assoc, List.append_assoc, List.take_left' (le32_length net)]
  rw [htake, hdrop, htake4, beToNat_be32, leToNat_le32, hlen]
  have h1 : crc (le32 net ++ le32 b.length ++ b) % 2^32 = crc (le32 net ++ le32 b.length ++ b) :=
    Nat.mod_eq_of_lt (hcrc _)
  simp only [h1]
  have h8 : (le32 net ++ le32 b.length).length = 8 := by simp [le32_length]
  simp
  rw [← List.append_assoc]
  exact List.drop_left' h8

/-- a region read returns the sub-slice of the stored block -/
theorem readRegion_record (crc : Bytes → Nat) (net : Nat) (pre b post : Bytes) (off n : Nat)
    (h : off + n ≤ b.length) :
    readRegion (pre ++ record crc net b ++ post) pre.length off n = some ((b.drop off).take n) := by
  unfold readRegion record
  have h8 : (le32 net ++ le32 b.length).length = 8 := by simp [le32_length]
  have e : pre ++ (le32 net ++ le32 b.length ++ b ++ be32 (crc (le32 net ++ le32 b.length ++ b))) ++ post
      = (pre ++ (le32 net ++ le32 b.length)) ++ (b ++ (be32 (crc (le32 net ++ le32 b.length ++ b)) ++ post)) := by
    simp [List.append_assoc]
  have hl : (pre ++ (le32 net ++ le32 b.length)).length = pre.length + 8 := by
    rw [List.length_append, h8]
  have hd : (pre ++ (le32 net ++ le32 b.length ++ b ++ be32 (crc (le32 net ++ le32 b.length ++ b))) ++ post).drop
      (pre.length + 8 + off) = b.drop off ++ (be32 (crc (le32 net ++ le32 b.length ++ b)) ++ post) := by
    rw [e, ← List.drop_drop, List.drop_left' hl, List.drop_append_of_le_length (by omega)]
  simp only [hd]
  have hlen : n ≤ (b.drop off).length := by rw [List.length_drop]; omega
  rw [List.take_append_of_le_length hlen]
  simp only [List.length_take, List.length_drop]
  have : ¬ min n (b.length - off) < n := by omega
  simp [this]

theorem writeRow_roundtrip (crc : Bytes → Nat) (hcrc : ∀ x, crc x < 2^32) (f o : Nat) :
    deserializeWriteRow crc (serializeWriteRow crc f o) = some (f % 2^32, o % 2^32) := by
  unfold deserializeWriteRow serializeWriteRow
  have h8 : (le32 f ++ le32 o).length = 8 := by simp [le32_length]
  have t8 : (le32 f ++ le32 o ++ le32 (crc (le32 f ++ le32 o))).take 8 = le32 f ++ le32 o :=
    List.take_left' h8
  have d8 : (le32 f ++ le32 o ++ le32 (crc (le32 f ++ le32 o))).drop 8 = le32 (crc (le32 f ++ le32 o)) :=
    List.drop_left' h8
  have t4 : (le32 f ++ le32 o ++ le32 (crc (le32 f ++ le32 o))).take 4 = le32 f := by
    rw [List.append_assoc, List.take_left' (le32_length f)]
  have d4 : ((le32 f ++ le32 o ++ le32 (crc (le32 f ++ le32 o))).drop 4).take 4 = le32 o := by
    rw [List.append_assoc, List.drop_left' (le32_length f), List.take_left' (le32_length o)]
  rw [t8, d8, t4, d4]
  have e4 : (le32 (crc (le32 f ++ le32 o))).take 4 = le32 (crc (le32 f ++ le32 o)) :=
    List.take_of_length_le (by rw [le32_length]; exact Nat.le_refl 4)
  rw [e4, leToNat_le32, leToNat_le32, leToNat_le32, Nat.mod_eq_of_lt (hcrc _)]
  simp

theorem blockLoc_roundtrip (f o l : Nat) :
    deserializeBlockLoc (serializeBlockLoc f o l) = (f % 2^32, o % 2^32, l % 2^32) := by
  unfold deserializeBlockLoc serializeBlockLoc
  have t4 : (le32 f ++ le32 o ++ le32 l).take 4 = le32 f := by
    rw [List.append_assoc, List.take_left' (le32_length f)]
  have d4 : ((le32 f ++ le32 o ++ le32 l).drop 4).take 4 = le32 o := by
    rw [List.append_assoc, List.drop_left' (le32_length f), List.take_left' (le32_length o)]
  have h8 : (le32 f ++ le32 o).length = 8 := by simp [le32_length]
  have d8 : ((le32 f ++ le32 o ++ le32 l).drop 8).take 4 = le32 l := by
    rw [List.drop_left' h8]; exact List.take_of_length_le (by rw [le32_length]; exact Nat.le_refl 4)
  rw [t4, d4, d8, leToNat_le32, leToNat_le32, leToNat_le32]

/-! ### durability machine -/

section Dur
variable {S C : Type} (apply : S → C → S) (s0 : S)

theorem foldl_take_succ (l : List C) (n : Nat) (s : S) (hn : n < l.length) :
    (l.take (n + 1)).foldl apply s = apply ((l.take n).foldl apply s) l[n] := by
  rw [List.take_succ_eq_append_getElem hn, List.foldl_append]; rfl

/-- every event re-establishes the invariant and appends its commit to the history -/
theorem event_preserves (d : DState S C) (ev : DEvent C) (h : BInv apply s0 d) :
    BInv apply s0 (runMicros apply d (stepsOf ev)) ∧
      (runMicros apply d (stepsOf ev)).history = d.history ++ commitsOf [ev] := by
  obtain ⟨h1, h2, h3, h4, h5, h6⟩ := h
  cases ev with
  | flush =>
    simp only [stepsOf, flushSteps, runMicros, List.foldl, microStep, commitsOf, List.append_nil]
    refine ⟨⟨?_, ?_, ?_, ?_, ?_, ?_⟩, by first | trivial | rfl | simp⟩
    · simp only []
      rw [h1, h2, ← List.foldl_append, List.length_drop]
      have : d.nDisk + (d.history.length - d.nDisk) = d.history.length := by omega
      rw [this, List.take_length]
      conv => lhs; rw [List.take_append_drop]
    · simp only []; rw [h2, List.length_drop]
      have : d.nDisk + (d.history.length - d.nDisk) = d.history.length := by omega
      rw [this, List.drop_length]
    · simp only []; rw [h2, List.length_drop]; omega
    · simp only []; rw [h2, List.length_drop]; omega
    · simp only []; omega
    · simp only []; exact h6
  | commit c f =>
    cases f with
    | false =>
      simp only [stepsOf, commitSteps, runMicros, List.foldl, microStep, commitsOf]
      refine ⟨⟨?_, ?_, ?_, ?_, ?_, ?_⟩, by first | trivial | rfl | simp⟩
      · simp only [Bool.false_eq_true, if_false, List.foldl, microStep]
        rw [List.take_append_of_le_length h3]; exact h1
      · simp only [Bool.false_eq_true, if_false, List.foldl, microStep]
        rw [List.drop_append_of_le_length h3, h2]
      · simp only [Bool.false_eq_true, if_false, List.foldl, microStep, List.length_append, List.length_singleton]; omega
      · simp only [Bool.false_eq_true, if_false, List.foldl, microStep]; exact h4
      · simp only [Bool.false_eq_true, if_false, List.foldl, microStep]; omega
      · simp only [Bool.false_eq_true, if_false, List.foldl, microStep, List.length_append, List.length_singleton]; omega
    | true =>
      simp only [stepsOf, commitSteps, runMicros, List.foldl, microStep, commitsOf, if_true]
      have hlen : d.nDisk + (d.history.drop d.nDisk).length = d.history.length := by
        rw [List.length_drop]; omega
      refine ⟨⟨?_, ?_, ?_, ?_, ?_, ?_⟩, by first | trivial | rfl | simp⟩
      · simp only []
        rw [h2, hlen, h1, ← List.foldl_append, List.take_append_drop]
        have : d.history.length + 1 = (d.history ++ [c]).length := by simp
        rw [this, List.take_length, List.foldl_append]; rfl
      · simp only []
        rw [h2, hlen]
        have : d.history.length + 1 = (d.history ++ [c]).length := by simp
        rw [this, List.drop_length]
      · simp only [List.length_append, List.length_singleton]; rw [h2, hlen]; omega
      · simp only []; rw [h2, hlen]; omega
      · simp only []; omega
      · simp only [List.length_append, List.length_singleton]; omega

/-- what holds in every state a crash can strike in -/
def CrashSafe (all : List C) (d : DState S C) : Prop :=
  d.nDisk ≤ d.nSynced ∧ d.nDisk ≤ all.length ∧ d.disk = (all.take d.nDisk).foldl apply s0

theorem inEvent_safe (d : DState S C) (ev : DEvent C) (k : Nat) (more : List C) (h : BInv apply s0 d) :
    CrashSafe apply s0 (d.history ++ commitsOf [ev] ++ more)
      (runMicros apply d ((stepsOf ev).take k)) := by
  obtain ⟨h1, h2, h3, h4, h5, h6⟩ := h
  have base : ∀ (extra : List C), d.disk = ((d.history ++ extra).take d.nDisk).foldl apply s0 := by
    intro extra; rw [List.take_append_of_le_length h3]; exact h1
  have hlen : d.nDisk + (d.history.drop d.nDisk).length = d.history.length := by
    rw [List.length_drop]; omega
  have full : ∀ (extra : List C), (d.history.drop d.nDisk).foldl apply d.disk
      = ((d.history ++ extra).take d.history.length).foldl apply s0 := by
    intro extra
    rw [List.take_left' rfl, h1, ← List.foldl_append, List.take_append_drop]
  cases ev with
  | flush =>
    simp only [stepsOf, flushSteps, commitsOf, List.append_nil]
    rcases k with _ | _ | k
    · simp only [List.take_zero, runMicros, List.foldl]
      exact ⟨h4, by rw [List.length_append]; omega, base more⟩
    · simp only [List.take_succ_cons, List.take_zero, runMicros, List.foldl, microStep]
      exact ⟨by simp only []; omega, by simp only [List.length_append]; omega, base more⟩
    · simp only [List.take_succ_cons, List.take_nil, runMicros, List.foldl, microStep]
      refine ⟨?_, ?_, ?_⟩
      · simp only []; rw [h2, hlen]; omega
      · simp only []; rw [h2, hlen, List.length_append]; omega
      · simp only []; rw [h2, hlen]; exact full more
  | commit c f =>
    cases f with
    | false =>
      simp only [stepsOf, commitSteps, commitsOf, Bool.false_eq_true, if_false]
      rcases k with _ | _ | k
      · simp only [List.take_zero, runMicros, List.foldl]
        exact ⟨h4, by simp only [List.length_append]; omega, by rw [List.append_assoc]; exact base _⟩
      · simp only [List.take_succ_cons, List.take_zero, runMicros, List.foldl, microStep]
        exact ⟨h4, by simp only [List.length_append]; omega, by rw [List.append_assoc]; exact base _⟩
      · simp only [List.take_succ_cons, List.take_nil, runMicros, List.foldl, microStep]
        exact ⟨h4, by simp only [List.length_append]; omega, by rw [List.append_assoc]; exact base _⟩
    | true =>
      simp only [stepsOf, commitSteps, commitsOf, if_true]
      rcases k with _ | _ | _ | _ | k
      · simp only [List.take_zero, runMicros, List.foldl]
        exact ⟨h4, by simp only [List.length_append]; omega, by rw [List.append_assoc]; exact base _⟩
      · simp only [List.take_succ_cons, List.take_zero, runMicros, List.foldl, microStep]
        exact ⟨h4, by simp only [List.length_append]; omega, by rw [List.append_assoc]; exact base _⟩
      · simp only [List.take_succ_cons, List.take_zero, runMicros, List.foldl, microStep]
        exact ⟨by simp only []; omega, by simp only [List.length_append]; omega,
          by rw [List.append_assoc]; exact base _⟩
      · simp only [List.take_succ_cons, List.take_zero, runMicros, List.foldl, microStep]
        refine ⟨?_, ?_, ?_⟩
        · simp only []; rw [h2, hlen]; omega
        · simp only []; rw [h2, hlen]; simp only [List.length_append]; omega
        · simp only []; rw [h2, hlen, List.append_assoc]; exact full _
      · simp only [List.take_succ_cons, List.take_nil, runMicros, List.foldl, microStep]
        refine ⟨?_, ?_, ?_⟩
        · simp only []; rw [h2, hlen]; omega
        · simp only []; rw [h2, hlen]; simp only [List.length_append, List.length_singleton]; omega
        · simp only []
          rw [h2, hlen, full ([c] ++ more)]
          have hn : d.history.length < (d.history ++ ([c] ++ more)).length := by
            simp only [List.length_append, List.length_singleton]; omega
          have e : d.history ++ [c] ++ more = d.history ++ ([c] ++ more) := by simp
          rw [e, foldl_take_succ apply _ _ s0 hn]
          congr 1
          simp

theorem crash_safe (d : DState S C) (evs : List (DEvent C)) (d' : DState S C)
    (h : BInv apply s0 d) (hc : CrashAt apply d evs d') :
    CrashSafe apply s0 (d.history ++ commitsOf evs) d' := by
  induction hc with
  | inEvent d ev r k =>
    have := inEvent_safe apply s0 d ev k (commitsOf r) h
    have e : commitsOf (ev :: r) = commitsOf [ev] ++ commitsOf r := by
      cases ev <;> simp [commitsOf]
    rw [e, ← List.append_assoc]; exact this
  | later d ev r d' _ ih =>
    obtain ⟨hb, hh⟩ := event_preserves apply s0 d ev h
    have := ih hb
    rw [hh, List.append_assoc] at this
    have e : commitsOf (ev :: r) = commitsOf [ev] ++ commitsOf r := by
      cases ev <;> simp [commitsOf]
    rw [e]; exact this
  | atEnd d =>
    obtain ⟨h1, h2, h3, h4, h5, h6⟩ := h
    simp only [commitsOf, List.append_nil]
    exact ⟨h4, h3, h1⟩

theorem init_inv : BInv apply s0 (init s0 : DState S C) := by
  simp [BInv, init]

end Dur

/-! ### reconcile -/

theorem reconcile_cases (df dof mf mo : Nat) :
    (reconcileAction df dof mf mo = .clean ↔ (df = mf ∧ dof = mo)) ∧
    (reconcileAction df dof mf mo = .truncateTo mf mo ↔ (df > mf ∨ (df = mf ∧ dof > mo))) ∧
    (reconcileAction df dof mf mo = .refuse ↔ (df < mf ∨ (df = mf ∧ dof < mo))) := by
  unfold reconcileAction
  by_cases h1 : df > mf ∨ (df = mf ∧ dof > mo)
  · simp only [h1, if_true]
    refine ⟨?_, ?_, ?_⟩
    · constructor
      · intro h; cases h
      · intro h; omega
    · simp
    · constructor
      · intro h; cases h
      · intro h; omega
  · by_cases h2 : df < mf ∨ (df = mf ∧ dof < mo)
    · simp only [h1, h2, if_true, if_false]
      refine ⟨?_, ?_, ?_⟩
      · constructor
        · intro h; cases h
        · intro h; omega
      · constructor
        · intro h; cases h
        · intro h; exact h.elim
      · simp
    · simp only [h1, h2, if_false]
      refine ⟨?_, ?_, ?_⟩
      · constructor
        · intro _; omega
        · intro _; trivial
      · constructor
        · intro h; cases h
        · intro h; exact h.elim
      · constructor
        · intro h; cases h
        · intro h; exact h.elim

end BV.C05.Lemmas
