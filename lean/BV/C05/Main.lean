import BV.Common.Loop
import BV.C05.Driver
/-! `drv_c05`: one case per input line `C05 <op> <args…>`, one canonical result line back.
Imports only core-only modules so that it links as a native executable. -/
def main : IO Unit := BV.Loop.run "C05" BV.C05.Driver.handle
