/-
C05 Model, part (c): the merge of two iterators in `cursor.chooseIterator` (db.go) and, one level
down, `dbCacheIterator.chooseIterator` (dbcache.go). core-only.

`dbIter` ranges over the committed layer `A`, `pendingIter` over the pending keys `B`; a key of `A`
is skipped when it is shadowed, i.e. pending for removal or pending for update (`sh`).
Both sub-iterators are lawful iterators over static sorted lists (a leveldb snapshot iterator, a
treap iterator that is re-sought after every update).

* `MergeSt` / `mFirst mLast mSeek mNext mPrev`: the algorithm for arbitrary operation sequences,
  positions are entries of the lists;
* `fwdRun`: what a forward-only run (`First`, then `Next` until exhausted) emits, written as the
  structural recursion the loop performs: drop shadowed heads of `A`, compare the two heads, emit
  the smaller one and advance that iterator. A backward-only run is the same algorithm on the
  reversed lists with the comparison flipped.
-/
import BV.C05.Spec
namespace BV.C05

section
variable {K V : Type} (cmp : K → K → Ordering)

/-- lawful sub-iterator moves on a static sorted list -/
def itNext (xs : List (K × V)) : Option (K × V) → Option (K × V)
  | some x => firstGT cmp x.1 xs
  | none => none
def itPrev (xs : List (K × V)) : Option (K × V) → Option (K × V)
  | some x => lastLT cmp x.1 xs
  | none => none

/-- `skipPendingUpdates`: move `dbIter` on while it sits on a shadowed key -/
def skipLoop (sh : K → Bool) (step : Option (K × V) → Option (K × V)) :
    Nat → Option (K × V) → Option (K × V)
  | 0, p => p
  | n + 1, p =>
    match p with
    | none => none
    | some x => if sh x.1 then skipLoop sh step n (step (some x)) else some x

structure MergeSt (K V : Type) where
  a : Option (K × V)        -- dbIter
  b : Option (K × V)        -- pendingIter
  cur : Option Bool         -- none: exhausted; some true: dbIter is current; some false: pendingIter

def MergeSt.entry (s : MergeSt K V) : Option (K × V) :=
  match s.cur with
  | some true => s.a
  | some false => s.b
  | none => none

/-- `chooseIterator` -/
def choose (sh : K → Bool) (A : List (K × V)) (forwards : Bool) (a b : Option (K × V)) : MergeSt K V :=
  let a := skipLoop sh (if forwards then itNext cmp A else itPrev cmp A) A.length a
  match a, b with
  | none, none => ⟨a, b, none⟩
  | some _, none => ⟨a, b, some true⟩
  | none, some _ => ⟨a, b, some false⟩
  | some x, some y =>
    let c := cmp x.1 y.1
    if (forwards && c == .gt) || (!forwards && c == .lt) then ⟨a, b, some false⟩ else ⟨a, b, some true⟩

def mFirst (sh : K → Bool) (A B : List (K × V)) : MergeSt K V := choose cmp sh A true A.head? B.head?
def mLast (sh : K → Bool) (A B : List (K × V)) : MergeSt K V := choose cmp sh A false A.getLast? B.getLast?
def mSeek (sh : K → Bool) (A B : List (K × V)) (k : K) : MergeSt K V :=
  choose cmp sh A true (firstGE cmp k A) (firstGE cmp k B)

def mNext (sh : K → Bool) (A B : List (K × V)) (s : MergeSt K V) : MergeSt K V :=
  match s.cur with
  | none => s
  | some true => choose cmp sh A true (itNext cmp A s.a) s.b
  | some false => choose cmp sh A true s.a (itNext cmp B s.b)

def mPrev (sh : K → Bool) (A B : List (K × V)) (s : MergeSt K V) : MergeSt K V :=
  match s.cur with
  | none => s
  | some true => choose cmp sh A false (itPrev cmp A s.a) s.b
  | some false => choose cmp sh A false s.a (itPrev cmp B s.b)

/-- what `First, Next, Next, …` emits until the cursor is exhausted -/
def fwdRun (sh : K → Bool) : List (K × V) → List (K × V) → List (K × V)
  | [], B => B
  | a :: as, B =>
    if sh a.1 then fwdRun sh as B else
    let rec go : List (K × V) → List (K × V)
      | [] => a :: fwdRun sh as []
      | b :: bs => if cmp a.1 b.1 = .gt then b :: go bs else a :: fwdRun sh as (b :: bs)
    go B

/-- what `Last, Prev, Prev, …` emits: the same algorithm, mirrored -/
def bwdRun (sh : K → Bool) (A B : List (K × V)) : List (K × V) :=
  fwdRun (fun x y => cmp y x) sh A.reverse B.reverse

/-- Spec of a monotone run: the sorted merge of the pending entries with the unshadowed committed
entries -/
def mergeSorted : List (K × V) → List (K × V) → List (K × V)
  | [], B => B
  | a :: as, B =>
    let rec go : List (K × V) → List (K × V)
      | [] => a :: as
      | b :: bs => if cmp a.1 b.1 = .gt then b :: go bs else a :: mergeSorted as (b :: bs)
    go B

/-- iterate `mNext` from `mFirst`, collecting the entries (fuel bounds the number of steps) -/
def collectFwd (sh : K → Bool) (A B : List (K × V)) : Nat → MergeSt K V → List (K × V)
  | 0, _ => []
  | n + 1, s =>
    match s.entry with
    | none => []
    | some e => e :: collectFwd sh A B n (mNext cmp sh A B s)

/-- iterate `mPrev`, collecting the entries -/
def collectBwd (sh : K → Bool) (A B : List (K × V)) : Nat → MergeSt K V → List (K × V)
  | 0, _ => []
  | n + 1, s =>
    match s.entry with
    | none => []
    | some e => e :: collectBwd sh A B n (mPrev cmp sh A B s)

end

/-- three-way comparison on `Nat` for the concrete witnesses -/
def cmpNat (a b : Nat) : Ordering := if a < b then .lt else if a = b then .eq else .gt

end BV.C05
