/-
C05 helper lemmas, part 6: the merge emitted by a monotone cursor run is the sorted list of the union.
-/
import BV.C05.Lemmas
import BV.C05.Cursor
namespace BV.C05.Lemmas
open BV.C05

section
variable {K V : Type} {cmp : K → K → Ordering}

theorem mem_mergeSorted (X Y : List (K × V)) (z : K × V) :
    z ∈ mergeSorted cmp X Y ↔ z ∈ X ∨ z ∈ Y := by
  induction X generalizing Y with
  | nil => simp [mergeSorted]
  | cons a as ih =>
    simp only [mergeSorted]
    induction Y with
    | nil => simp [mergeSorted.go]
    | cons b bs ihb =>
      simp only [mergeSorted.go]
      by_cases hc : cmp a.1 b.1 = .gt
      · simp only [hc, if_true, List.mem_cons, ihb]
        constructor
        · rintro (h | h | h)
          · exact Or.inr (Or.inl h)
          · exact Or.inl h
          · exact Or.inr (Or.inr h)
        · rintro (h | h | h)
          · exact Or.inr (Or.inl h)
          · exact Or.inl h
          · exact Or.inr (Or.inr h)
      · simp only [hc, if_false, List.mem_cons, ih]
        constructor
        · rintro (h | h | h)
          · exact Or.inl (Or.inl h)
          · exact Or.inl (Or.inr h)
          · exact Or.inr h
        · rintro ((h | h) | h)
          · exact Or.inl h
          · exact Or.inr (Or.inl h)
          · exact Or.inr (Or.inr h)

/-- merging two strictly sorted lists without a common key gives a strictly sorted list -/
theorem mergeSorted_sorted (h : OrdLaws cmp) (X Y : List (K × V))
    (hX : SortedKeys cmp X) (hY : SortedKeys cmp Y)
    (hd : ∀ x ∈ X, ∀ y ∈ Y, cmp x.1 y.1 ≠ .eq) :
    SortedKeys cmp (mergeSorted cmp X Y) := by
  induction X generalizing Y with
  | nil => simpa [mergeSorted] using hY
  | cons a as ih =>
    unfold SortedKeys at hX
    rw [List.pairwise_cons] at hX
    obtain ⟨ha, has⟩ := hX
    simp only [mergeSorted]
    induction Y with
    | nil => simp only [mergeSorted.go]; exact List.pairwise_cons.mpr ⟨ha, has⟩
    | cons b bs ihb =>
      unfold SortedKeys at hY
      rw [List.pairwise_cons] at hY
      obtain ⟨hb, hbs⟩ := hY
      simp only [mergeSorted.go]
      by_cases hc : cmp a.1 b.1 = .gt
      · simp only [hc, if_true]
        have hrec := ihb hbs (fun x hx y hy => hd x hx y (List.mem_cons_of_mem _ hy))
        unfold SortedKeys at hrec ⊢
        rw [List.pairwise_cons]
        refine ⟨?_, hrec⟩
        intro z hz
        have hz' : z ∈ mergeSorted cmp (a :: as) bs := by simpa [mergeSorted] using hz
        rcases (mem_mergeSorted (a :: as) bs z).mp hz' with h1 | h1
        · rcases List.mem_cons.mp h1 with h2 | h2
          · rw [h2]; exact lt_of_gt h hc
          · exact h.lt_trans _ _ _ (lt_of_gt h hc) (ha z h2)
        · exact hb z h1
      · simp only [hc, if_false]
        have hlt : cmp a.1 b.1 = .lt := by
          have hne := hd a (List.mem_cons_self ..) b (List.mem_cons_self ..)
          cases hcab : cmp a.1 b.1 with
          | lt => rfl
          | eq => exact absurd hcab hne
          | gt => exact absurd hcab hc
        have hrec := ih (b :: bs) has (List.pairwise_cons.mpr ⟨hb, hbs⟩)
          (fun x hx y hy => hd x (List.mem_cons_of_mem _ hx) y hy)
        unfold SortedKeys at hrec ⊢
        rw [List.pairwise_cons]
        refine ⟨?_, hrec⟩
        intro z hz
        rcases (mem_mergeSorted as (b :: bs) z).mp hz with h1 | h1
        · exact ha z h1
        · rcases List.mem_cons.mp h1 with h2 | h2
          · rw [h2]; exact hlt
          · exact h.lt_trans _ _ _ hlt (hb z h2)

end
end BV.C05.Lemmas
