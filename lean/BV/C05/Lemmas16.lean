/-
C05 helper lemmas, part 16: the block log over a history — every record stays readable.
-/
import BV.C05.BlockLog
import BV.C05.Lemmas2
namespace BV.C05.Lemmas
open BV.C05 BV.C05.DbModel

theorem fileGet_ins_same (n : Nat) (b : Bytes) (fs : List (Nat × Bytes)) :
    fileGet (fileSet.ins n b fs) n = some b := by
  induction fs with
  | nil => simp [fileSet.ins, fileGet]
  | cons x xs ih =>
    obtain ⟨m, c⟩ := x
    simp only [fileSet.ins]
    by_cases h1 : n < m
    · simp [h1, fileGet]
    · by_cases h2 : n = m
      · simp [h1, h2, fileGet]
      · have h3 : (m == n) = false := by simp; omega
        simp only [h1, h2, if_false, fileGet, List.find?, h3]
        exact ih

theorem fileGet_ins_other (n m : Nat) (b : Bytes) (fs : List (Nat × Bytes)) (hne : m ≠ n) :
    fileGet (fileSet.ins n b fs) m = fileGet fs m := by
  induction fs with
  | nil =>
    have : (n == m) = false := by simp; omega
    simp [fileSet.ins, fileGet, List.find?, this]
  | cons x xs ih =>
    obtain ⟨k, c⟩ := x
    simp only [fileSet.ins]
    by_cases h1 : n < k
    · have : (n == m) = false := by simp; omega
      simp [h1, fileGet, List.find?, this]
    · by_cases h2 : n = k
      · have h3 : (n == m) = false := by simp; omega
        have h4 : (k == m) = false := by simp; omega
        simp [h1, h2, fileGet, List.find?, h4]
      · simp only [h1, h2, if_false, fileGet, List.find?]
        by_cases h5 : (k == m) = true
        · simp [h5]
        · simp only [h5]
          exact ih

theorem fileGet_set_same (fs : List (Nat × Bytes)) (n : Nat) (b : Bytes) :
    fileGet (fileSet fs n b) n = some b := fileGet_ins_same n b fs

theorem fileGet_set_other (fs : List (Nat × Bytes)) (n m : Nat) (b : Bytes) (hne : m ≠ n) :
    fileGet (fileSet fs n b) m = fileGet fs m := fileGet_ins_other n m b fs hne

/-- a read that lies inside a file is not affected by appending to the file -/
theorem readRecord_append (crc : Bytes → Nat) (net : Nat) (file extra : Bytes) (off len : Nat)
    (h : off + len ≤ file.length) :
    readRecord crc net (file ++ extra) off len = readRecord crc net file off len := by
  unfold readRecord
  have : ((file ++ extra).drop off).take len = (file.drop off).take len := by
    rw [List.drop_append_of_le_length (by omega), List.take_append_of_le_length (by rw [List.length_drop]; omega)]
  simp only [this]

theorem logAppend_ok (crc : Bytes → Nat) (hcrc : ∀ x, crc x < 2^32) (net maxFile : Nat)
    (st : LogSt) (b : Bytes) (h : LogOk st) :
    LogOk (logAppend crc net maxFile st b).1 ∧
    (let loc := (logAppend crc net maxFile st b).2
     readRecord crc net ((logAppend crc net maxFile st b).1.file loc.1) loc.2.1 loc.2.2 = .ok b) ∧
    (∀ n off len r, off + len ≤ (st.file n).length →
      readRecord crc net (st.file n) off len = r →
      readRecord crc net ((logAppend crc net maxFile st b).1.file n) off len = r) := by
  obtain ⟨hend, hlater⟩ := h
  unfold logAppend
  simp only []
  by_cases hr : needsRollover st.wcOff (b.length + 12) maxFile = true
  · -- roll over to the next, empty file
    simp only [hr, if_true]
    have hempty : st.file (st.wcFile + 1) = [] := hlater _ (by omega)
    have hnew : ([] : Bytes).take 0 ++ List.replicate (0 - ([] : Bytes).length) 0 ++ record crc net b ++
        ([] : Bytes).drop (0 + (b.length + 12)) = record crc net b := by simp
    rw [hempty, hnew]
    refine ⟨⟨?_, ?_⟩, ?_, ?_⟩
    · simp only [LogSt.file, fileGet_set_same, Option.getD_some, record_length]; omega
    · intro n hn
      have hn' : st.wcFile + 1 < n := hn
      simp only [LogSt.file]
      rw [fileGet_set_other _ _ _ _ (by omega)]
      exact hlater n (by omega)
    · simp only [LogSt.file, fileGet_set_same, Option.getD_some]
      have := readRecord_record crc hcrc net [] b []
      simpa using this
    · intro n off len r hlen hrd
      by_cases hn : n = st.wcFile + 1
      · subst hn
        rw [hempty] at hlen hrd
        simp only [LogSt.file, fileGet_set_same, Option.getD_some]
        have hz : off = 0 ∧ len = 0 := by simp at hlen; omega
        obtain ⟨h0, h1⟩ := hz
        subst h0; subst h1
        rw [← hrd]
        unfold readRecord
        simp
      · simp only [LogSt.file]
        rw [fileGet_set_other _ _ _ _ hn]
        exact hrd
  · -- append to the current file
    have hr' : needsRollover st.wcOff (b.length + 12) maxFile = false := by simpa using hr
    simp only [hr', Bool.false_eq_true, if_false]
    have hnew : (st.file st.wcFile).take st.wcOff ++
        List.replicate (st.wcOff - (st.file st.wcFile).length) 0 ++ record crc net b ++
        (st.file st.wcFile).drop (st.wcOff + (b.length + 12)) = st.file st.wcFile ++ record crc net b := by
      rw [← hend, List.take_length, Nat.sub_self, List.replicate_zero, List.append_nil,
        List.drop_eq_nil_of_le (by omega), List.append_nil]
    rw [hnew]
    refine ⟨⟨?_, ?_⟩, ?_, ?_⟩
    · simp only [LogSt.file, fileGet_set_same, Option.getD_some, List.length_append, record_length]
      have : ((fileGet st.files st.wcFile).getD []).length = st.wcOff := hend
      omega
    · intro n hn
      have hn' : st.wcFile < n := hn
      simp only [LogSt.file]
      rw [fileGet_set_other _ _ _ _ (by omega)]
      exact hlater n hn'
    · simp only [LogSt.file, fileGet_set_same, Option.getD_some]
      have := readRecord_record crc hcrc net (st.file st.wcFile) b []
      rw [List.append_nil, hend] at this
      exact this
    · intro n off len r hlen hrd
      by_cases hn : n = st.wcFile
      · subst hn
        simp only [LogSt.file, fileGet_set_same, Option.getD_some]
        rw [← hrd]
        exact readRecord_append crc net _ _ off len hlen
      · simp only [LogSt.file]
        rw [fileGet_set_other _ _ _ _ hn]
        exact hrd

theorem logAppend_len (crc : Bytes → Nat) (net maxFile : Nat) (st : LogSt) (b : Bytes) (h : LogOk st) :
    (∀ n, (st.file n).length ≤ ((logAppend crc net maxFile st b).1.file n).length) ∧
    (let loc := (logAppend crc net maxFile st b).2
     loc.2.1 + loc.2.2 ≤ ((logAppend crc net maxFile st b).1.file loc.1).length) := by
  obtain ⟨hend, hlater⟩ := h
  unfold logAppend
  simp only []
  by_cases hr : needsRollover st.wcOff (b.length + 12) maxFile = true
  · simp only [hr, if_true]
    have hempty : st.file (st.wcFile + 1) = [] := hlater _ (by omega)
    have hnew : ([] : Bytes).take 0 ++ List.replicate (0 - ([] : Bytes).length) 0 ++ record crc net b ++
        ([] : Bytes).drop (0 + (b.length + 12)) = record crc net b := by simp
    rw [hempty, hnew]
    refine ⟨?_, ?_⟩
    · intro n
      by_cases hn : n = st.wcFile + 1
      · subst hn; rw [hempty]; simp
      · simp only [LogSt.file]; rw [fileGet_set_other _ _ _ _ hn]; exact Nat.le_refl _
    · simp only [LogSt.file, fileGet_set_same, Option.getD_some, record_length]; omega
  · have hr' : needsRollover st.wcOff (b.length + 12) maxFile = false := by simpa using hr
    simp only [hr', Bool.false_eq_true, if_false]
    have hnew : (st.file st.wcFile).take st.wcOff ++
        List.replicate (st.wcOff - (st.file st.wcFile).length) 0 ++ record crc net b ++
        (st.file st.wcFile).drop (st.wcOff + (b.length + 12)) = st.file st.wcFile ++ record crc net b := by
      rw [← hend, List.take_length, Nat.sub_self, List.replicate_zero, List.append_nil,
        List.drop_eq_nil_of_le (by omega), List.append_nil]
    rw [hnew]
    refine ⟨?_, ?_⟩
    · intro n
      by_cases hn : n = st.wcFile
      · subst hn
        simp only [LogSt.file, fileGet_set_same, Option.getD_some, List.length_append]; omega
      · simp only [LogSt.file]; rw [fileGet_set_other _ _ _ _ hn]; exact Nat.le_refl _
    · simp only [LogSt.file, fileGet_set_same, Option.getD_some, List.length_append, record_length]
      have : ((fileGet st.files st.wcFile).getD []).length = st.wcOff := hend
      omega

/-- append a history of blocks, remembering where each one went -/
def logRun (crc : Bytes → Nat) (net maxFile : Nat) :
    LogSt → List Bytes → LogSt × List ((Nat × Nat × Nat) × Bytes)
  | st, [] => (st, [])
  | st, b :: bs =>
    let (st1, loc) := logAppend crc net maxFile st b
    let (st2, rest) := logRun crc net maxFile st1 bs
    (st2, (loc, b) :: rest)

/-- every record of the list is inside its file and reads back its block -/
def Readable (crc : Bytes → Nat) (net : Nat) (st : LogSt) (L : List ((Nat × Nat × Nat) × Bytes)) : Prop :=
  ∀ p ∈ L, p.1.2.1 + p.1.2.2 ≤ (st.file p.1.1).length ∧
    readRecord crc net (st.file p.1.1) p.1.2.1 p.1.2.2 = .ok p.2

theorem readable_step (crc : Bytes → Nat) (hcrc : ∀ x, crc x < 2^32) (net maxFile : Nat)
    (st : LogSt) (b : Bytes) (h : LogOk st) (L : List ((Nat × Nat × Nat) × Bytes))
    (hL : Readable crc net st L) :
    Readable crc net (logAppend crc net maxFile st b).1 (((logAppend crc net maxFile st b).2, b) :: L) := by
  obtain ⟨_, hnew, hold⟩ := logAppend_ok crc hcrc net maxFile st b h
  obtain ⟨hlen, hbound⟩ := logAppend_len crc net maxFile st b h
  intro p hp
  rcases List.mem_cons.mp hp with h1 | h1
  · subst h1; exact ⟨hbound, hnew⟩
  · obtain ⟨hb, hr⟩ := hL p h1
    exact ⟨Nat.le_trans hb (hlen _), hold _ _ _ _ hb hr⟩

theorem logRun_readable (crc : Bytes → Nat) (hcrc : ∀ x, crc x < 2^32) (net maxFile : Nat)
    (bs : List Bytes) : ∀ (st : LogSt) (L : List ((Nat × Nat × Nat) × Bytes)), LogOk st →
      Readable crc net st L →
      LogOk (logRun crc net maxFile st bs).1 ∧
        Readable crc net (logRun crc net maxFile st bs).1 ((logRun crc net maxFile st bs).2 ++ L) := by
  induction bs with
  | nil => intro st L h hL; exact ⟨h, by simpa [logRun] using hL⟩
  | cons b bs ih =>
    intro st L h hL
    have hok := (logAppend_ok crc hcrc net maxFile st b h).1
    have hstep := readable_step crc hcrc net maxFile st b h L hL
    obtain ⟨h2, hr2⟩ := ih _ _ hok hstep
    simp only [logRun]
    refine ⟨h2, ?_⟩
    intro p hp
    apply hr2 p
    simp only [List.cons_append, List.mem_cons, List.mem_append] at hp ⊢
    rcases hp with h1 | h1 | h1
    · exact Or.inr (Or.inl h1)
    · exact Or.inl h1
    · exact Or.inr (Or.inr h1)

end BV.C05.Lemmas
