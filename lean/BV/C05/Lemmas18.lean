/-
C05 helper lemmas, part 18: `Cursor.Delete` in the middle of a walk. Deleting the current key `e`
moves it from the pending keys to the pending removals; the cursor keeps its position. The next move
(either direction) lands on the neighbour of `e` in the NEW view and re-establishes the invariant.
-/
import BV.C05.Lemmas13
namespace BV.C05.Lemmas
open BV.C05

section
variable {K V : Type} {cmp : K → K → Ordering} {sh : K → Bool} {A B : List (K × V)}

/-- shadow predicate after `deleteKey k` -/
def shDel (cmp : K → K → Ordering) (sh : K → Bool) (k : K) : K → Bool :=
  fun x => if cmp x k = .eq then true else sh x

theorem eraseKey_absent (k : K) (L : List (K × V)) (hab : ∀ y ∈ L, cmp k y.1 ≠ .eq)
    (hs : SortedKeys cmp L) (h : OrdLaws cmp) : eraseKey cmp k L = L := by
  induction L with
  | nil => rfl
  | cons y ys ih =>
    obtain ⟨yk, yv⟩ := y
    unfold SortedKeys at hs
    rw [List.pairwise_cons] at hs
    simp only [eraseKey]
    cases hc : cmp k yk with
    | lt => rfl
    | eq => exact absurd hc (hab (yk, yv) (List.mem_cons_self ..))
    | gt => simp only []; rw [ih (fun y hy => hab y (List.mem_cons_of_mem _ hy)) hs.2]

theorem setting_after_delete (S : Setting cmp sh A B) (k : K) :
    Setting cmp (shDel cmp sh k) A (eraseKey cmp k B) := by
  refine ⟨S.laws, S.sortedA, eraseKey_sorted k B S.sortedB, ?_⟩
  intro y hy
  have hyB : y ∈ B := (eraseKey_sublist k B).subset hy
  unfold shDel
  by_cases hc : cmp y.1 k = .eq
  · simp [hc]
  · simp [hc, S.shadowed y hyB]

/-- when the deleted key was a pending one, the unshadowed committed entries are the same -/
theorem unsh_after_delete_pending (S : Setting cmp sh A B) (e : K × V) (he : e ∈ B) :
    unsh (shDel cmp sh e.1) A = unsh sh A := by
  unfold unsh
  apply List.filter_congr
  intro x _
  unfold shDel
  by_cases hc : cmp x.1 e.1 = .eq
  · have : sh x.1 = true := by rw [(S.laws.eq_iff _ _).mp hc]; exact S.shadowed e he
    simp [hc, this]
  · simp [hc]

theorem next_after_delete (S : Setting cmp sh A B) (s : CurSt K V) (e : K × V)
    (hinv : CurInv cmp sh A B s (some e)) :
    fNext cmp (shDel cmp sh e.1) A (eraseKey cmp e.1 B) s =
      ⟨pick cmp true (firstGT cmp e.1 (unsh (shDel cmp sh e.1) A))
        (firstGT cmp e.1 (eraseKey cmp e.1 B)), true⟩ := by
  obtain ⟨hent, _, hcan⟩ := hinv
  have S' := setting_after_delete S e.1
  unfold fNext
  rcases entry_some_cur _ e hent with ⟨hc, ha⟩ | ⟨hc, hb⟩
  · rw [hc, hent]
    simp only []
    cases hf : s.fwd with
    | false =>
      simp only [Bool.false_eq_true, if_false]
      rw [reseekFwd_eq S.laws, reseekFwd_eq S.laws, choose_fwd_gt S']
    | true =>
      simp only [if_true]
      have hm := (hcan e rfl).1 hf
      have ha' : firstGE cmp e.1 (unsh sh A) = some e := by
        rw [← ha, hm]; unfold canonF; rw [pick_a]
      have hex : e ∈ unsh sh A := (firstGE_mem _ _ e ha').1
      have hBsame : eraseKey cmp e.1 B = B :=
        eraseKey_absent e.1 B (S.absentY hex) S.sortedB S.laws
      have hbf : s.m.b = firstGE cmp e.1 B := by rw [hm]; unfold canonF; rw [pick_b]
      unfold mNext
      rw [hc]
      simp only []
      rw [ha, hbf]
      simp only [itNext]
      rw [choose_fwd_gt S', hBsame, firstGE_eq_GT_of_absent S.laws e.1 B (S.absentY hex)]
  · rw [hc, hent]
    simp only []
    cases hf : s.fwd with
    | false =>
      simp only [Bool.false_eq_true, if_false]
      rw [reseekFwd_eq S.laws, reseekFwd_eq S.laws, choose_fwd_gt S']
    | true =>
      simp only [if_true]
      have hm := (hcan e rfl).1 hf
      have hb' : firstGE cmp e.1 B = some e := by
        rw [← hb, hm]; unfold canonF; rw [pick_b]
      have hey : e ∈ B := (firstGE_mem _ _ e hb').1
      have hX := unsh_after_delete_pending S e hey
      have haf : s.m.a = firstGE cmp e.1 (unsh sh A) := by rw [hm]; unfold canonF; rw [pick_a]
      unfold mNext
      rw [hc]
      simp only []
      rw [hb, haf]
      simp only [itNext]
      rw [choose_keep S' true _ _ (fun x hx => by rw [hX]; exact (firstGE_mem _ _ x hx).1), hX,
        firstGE_eq_GT_of_absent S.laws e.1 (unsh sh A) (S.absentX hey)]

theorem prev_after_delete (S : Setting cmp sh A B) (s : CurSt K V) (e : K × V)
    (hinv : CurInv cmp sh A B s (some e)) :
    fPrev cmp (shDel cmp sh e.1) A (eraseKey cmp e.1 B) s =
      ⟨pick cmp false (lastLT cmp e.1 (unsh (shDel cmp sh e.1) A))
        (lastLT cmp e.1 (eraseKey cmp e.1 B)), false⟩ := by
  obtain ⟨hent, _, hcan⟩ := hinv
  have S' := setting_after_delete S e.1
  unfold fPrev
  rcases entry_some_cur _ e hent with ⟨hc, ha⟩ | ⟨hc, hb⟩
  · rw [hc, hent]
    simp only []
    cases hf : s.fwd with
    | true =>
      simp only [if_true]
      rw [reseekBwd_eq S.laws, reseekBwd_eq S.laws, choose_bwd_lt S']
    | false =>
      simp only [Bool.false_eq_true, if_false]
      have hm := (hcan e rfl).2 hf
      have ha' : lastLE cmp e.1 (unsh sh A) = some e := by
        rw [← ha, hm]; unfold canonB; rw [pick_a]
      have hex : e ∈ unsh sh A := (lastLE_mem _ _ e ha').1
      have hBsame : eraseKey cmp e.1 B = B :=
        eraseKey_absent e.1 B (S.absentY hex) S.sortedB S.laws
      have hbf : s.m.b = lastLE cmp e.1 B := by rw [hm]; unfold canonB; rw [pick_b]
      unfold mPrev
      rw [hc]
      simp only []
      rw [ha, hbf]
      simp only [itPrev]
      rw [choose_bwd_lt S', hBsame, lastLE_eq_LT_of_absent e.1 B (S.absentY hex)]
  · rw [hc, hent]
    simp only []
    cases hf : s.fwd with
    | true =>
      simp only [if_true]
      rw [reseekBwd_eq S.laws, reseekBwd_eq S.laws, choose_bwd_lt S']
    | false =>
      simp only [Bool.false_eq_true, if_false]
      have hm := (hcan e rfl).2 hf
      have hb' : lastLE cmp e.1 B = some e := by
        rw [← hb, hm]; unfold canonB; rw [pick_b]
      have hey : e ∈ B := (lastLE_mem _ _ e hb').1
      have hX := unsh_after_delete_pending S e hey
      have haf : s.m.a = lastLE cmp e.1 (unsh sh A) := by rw [hm]; unfold canonB; rw [pick_a]
      unfold mPrev
      rw [hc]
      simp only []
      rw [hb, haf]
      simp only [itPrev]
      rw [choose_keep S' false _ _ (fun x hx => by rw [hX]; exact (lastLE_mem _ _ x hx).1), hX,
        lastLE_eq_LT_of_absent e.1 (unsh sh A) (S.absentX hey)]

/-- after `Cursor.Delete` on the current entry, the next move lands on the neighbour in the new view
and the cursor satisfies the invariant of the new layers again -/
theorem delete_then_move (S : Setting cmp sh A B) (s : CurSt K V) (e : K × V)
    (hinv : CurInv cmp sh A B s (some e)) :
    CurInv cmp (shDel cmp sh e.1) A (eraseKey cmp e.1 B)
      (fNext cmp (shDel cmp sh e.1) A (eraseKey cmp e.1 B) s)
      (specU cmp (unsh (shDel cmp sh e.1) A) (eraseKey cmp e.1 B) (some e) .next) ∧
    CurInv cmp (shDel cmp sh e.1) A (eraseKey cmp e.1 B)
      (fPrev cmp (shDel cmp sh e.1) A (eraseKey cmp e.1 B) s)
      (specU cmp (unsh (shDel cmp sh e.1) A) (eraseKey cmp e.1 B) (some e) .prev) := by
  have S' := setting_after_delete S e.1
  constructor
  · rw [next_after_delete S s e hinv]
    exact inv_fwd _ (pick_entry_none _ _ _) (canon_after_gt S' e.1)
  · rw [prev_after_delete S s e hinv]
    exact inv_bwd _ (pick_entry_none _ _ _) (canon_after_lt S' e.1)

end
end BV.C05.Lemmas
