/-
C05 Model, part (c'): the cursor merge AFTER the repair of finding F-C05-a (`reseekPast` in db.go,
used by `cursor.Next/Prev` and `dbCacheIterator.Next/Prev`): the direction of the last positioning
or move is remembered; a move in the same direction steps the current iterator as before; a move in
the opposite direction moves BOTH iterators past the current key by a seek (`Seek(key)`, then `Next`
if it landed on the key when going forwards; `Prev`, or `Last` when the seek ran off the end, when
going backwards) and then chooses. core-only.
-/
import BV.C05.Cursor
namespace BV.C05

section
variable {K V : Type} (cmp : K → K → Ordering)

/-- last entry with key ≤ k -/
def lastLE (k : K) : List (K × V) → Option (K × V)
  | [] => none
  | x :: xs => if cmp k x.1 = .lt then none else
      (match lastLE k xs with | some y => some y | none => some x)

/-- `reseekPast(key, forwards = true)` on one lawful iterator -/
def reseekFwd (xs : List (K × V)) (k : K) : Option (K × V) :=
  match firstGE cmp k xs with
  | some x => if cmp x.1 k = .eq then itNext cmp xs (some x) else some x
  | none => none

/-- `reseekPast(key, forwards = false)` on one lawful iterator -/
def reseekBwd (xs : List (K × V)) (k : K) : Option (K × V) :=
  match firstGE cmp k xs with
  | some x => itPrev cmp xs (some x)
  | none => xs.getLast?

/-- cursor state: the two iterators, the current one, and the remembered direction -/
structure CurSt (K V : Type) where
  m : MergeSt K V
  fwd : Bool

inductive MOp (K : Type) where
  | first | last | seek (k : K) | next | prev

def fNext (sh : K → Bool) (A B : List (K × V)) (s : CurSt K V) : CurSt K V :=
  match s.m.cur, s.m.entry with
  | some _, some e =>
    if s.fwd then ⟨mNext cmp sh A B s.m, true⟩
    else ⟨choose cmp sh A true (reseekFwd cmp A e.1) (reseekFwd cmp B e.1), true⟩
  | _, _ => s

def fPrev (sh : K → Bool) (A B : List (K × V)) (s : CurSt K V) : CurSt K V :=
  match s.m.cur, s.m.entry with
  | some _, some e =>
    if s.fwd then ⟨choose cmp sh A false (reseekBwd cmp A e.1) (reseekBwd cmp B e.1), false⟩
    else ⟨mPrev cmp sh A B s.m, false⟩
  | _, _ => s

def fStep (sh : K → Bool) (A B : List (K × V)) (s : CurSt K V) : MOp K → CurSt K V
  | .first => ⟨mFirst cmp sh A B, true⟩
  | .last => ⟨mLast cmp sh A B, false⟩
  | .seek k => ⟨mSeek cmp sh A B k, true⟩
  | .next => fNext cmp sh A B s
  | .prev => fPrev cmp sh A B s

/-- a cursor that has not been positioned yet -/
def curInit : CurSt K V := ⟨⟨none, none, none⟩, false⟩

/-- Spec: navigation in the merged sorted view `M`; the position is the current entry -/
def specNav (M : List (K × V)) (cur : Option (K × V)) : MOp K → Option (K × V)
  | .first => M.head?
  | .last => M.getLast?
  | .seek k => firstGE cmp k M
  | .next => match cur with | some c => firstGT cmp c.1 M | none => none
  | .prev => match cur with | some c => lastLT cmp c.1 M | none => none

end
end BV.C05
