/- C05 line-protocol driver (core-only). -/
import BV.Common.Hex
import BV.C05.Model
import BV.C05.DbModel
namespace BV.C05.Driver
open BV.Hex BV.C05

abbrev T := Treap Key Val

def kvStr (x : Key × Val) : String := listToHexTok x.1 ++ "=" ++ listToHexTok x.2

def optKey? (s : String) : Option (Option Key) :=
  if s == "~" then some none else (hexToList? s).map some

def posStr (b : Bool) (c : Option (Key × Val)) : String :=
  if b then "1:" ++ (match c with | some x => kvStr x | none => "~") else "0:~"

structure TState where
  isMut : Bool
  vers : Array T
  iter : Option (T × Range Key × IterSt Key Val)

def parsePut? (fs : List String) : Option (Key × Val × Nat) :=
  match fs with
  | [k, v, p] => do
    let k ← hexToList? k
    let v ← if v == "~" then some [] else hexToList? v
    let p ← p.toNat?
    pure (k, v, p)
  | _ => none

/-- a mutable treap's iterator follows the treap (`ForceReseek` after every update, as ffldb does) -/
def iterTree (st : TState) (t : T) : T := if st.isMut then st.vers.back?.getD .nil else t

def treapOp (st : TState) (op : String) : Option (TState × String) :=
  let cur := st.vers.back?.getD .nil
  let ver? (s : String) : Option T := do
    let n ← s.toNat?
    st.vers[n]?
  match op.splitOn ":" with
  | ["p", k, v, p] => do
    let (k, v, p) ← parsePut? [k, v, p]
    pure ({ st with vers := st.vers.push (Treap.put cmpB k v p cur) }, "ok")
  | ["b", items] => do
    let ps ← (items.splitOn "/").mapM (fun it => parsePut? (it.splitOn "+"))
    let t := ps.foldl (fun t (k, v, p) => Treap.put cmpB k v p t) cur
    pure ({ st with vers := st.vers.push t }, "ok")
  | ["d", k] => do
    let k ← hexToList? k
    pure ({ st with vers := st.vers.push (Treap.delete cmpB k cur) }, "ok")
  | ["g", ver, k] => do
    let t ← ver? ver
    let k ← hexToList? k
    pure (st, match Treap.get cmpB k t with | some v => listToHexTok v | none => "nil")
  | ["h", ver, k] => do
    let t ← ver? ver
    let k ← hexToList? k
    pure (st, if (Treap.get cmpB k t).isSome then "1" else "0")
  | ["l", ver] => do
    let t ← ver? ver
    pure (st, toString t.count)
  | ["E", ver, n] => do
    let t ← ver? ver
    let n ← n.toNat?
    pure (st, "[" ++ ",".intercalate ((t.toList.take n).map kvStr) ++ "]")
  | ["z"] => pure ({ st with vers := st.vers.push .nil }, "ok")
  | ["e", ver] => do
    let t ← ver? ver
    pure (st, "[" ++ ",".intercalate (t.toList.map kvStr) ++ "]")
  | ["i", ver, s, l] => do
    let t ← ver? ver
    let s ← optKey? s
    let l ← optKey? l
    pure ({ st with iter := some (t, ⟨s, l⟩, ⟨true, none⟩) }, "ok")
  | ["F"] => do
    let (t, rg, it) ← st.iter
    let t := iterTree st t
    let (it', b) := Treap.iterFirst cmpB t rg it
    pure ({ st with iter := some (t, rg, it') }, posStr b it'.cur)
  | ["L"] => do
    let (t, rg, it) ← st.iter
    let t := iterTree st t
    let (it', b) := Treap.iterLast cmpB t rg it
    pure ({ st with iter := some (t, rg, it') }, posStr b it'.cur)
  | ["N"] => do
    let (t, rg, it) ← st.iter
    let t := iterTree st t
    let (it', b) := Treap.iterNext cmpB t rg it
    pure ({ st with iter := some (t, rg, it') }, posStr b it'.cur)
  | ["P"] => do
    let (t, rg, it) ← st.iter
    let t := iterTree st t
    let (it', b) := Treap.iterPrev cmpB t rg it
    pure ({ st with iter := some (t, rg, it') }, posStr b it'.cur)
  | ["S", k] => do
    let (t, rg, _) ← st.iter
    let k ← hexToList? k
    let t := iterTree st t
    let (it', b) := Treap.iterSeekOp cmpB t rg k
    pure ({ st with iter := some (t, rg, it') }, posStr b it'.cur)
  | _ => none

def runTreap (kind : String) (ops : List String) : String :=
  let rec go (st : TState) (ops : List String) (acc : List String) : Option (List String) :=
    match ops with
    | [] => some acc.reverse
    | op :: rest =>
      match treapOp st op with
      | some (st', out) => go st' rest (out :: acc)
      | none => none
  match go ⟨kind == "mut", #[.nil], none⟩ ops [] with
  | some outs => "|".intercalate outs
  | none => "bad-op"

def handle1 : List String → String
  | "treap" :: kind :: ops => runTreap kind ops
  | "db" :: rest => DbModel.runDb rest
  -- fault / crash classes: the harness checks the implementation's answers for membership in the
  -- Spec's admissible set (`adm`, below) and reports the verdict
  | "dbf" :: _ => "admissible"
  | "adm" :: rest => DbModel.runAdm rest
  -- schedule exploration (readers against one writer, optionally under the race detector):
  -- the Spec admits only one answer
  | ["race", _, _, _, _] => "ok"
  | ["racebuild", _] => "ok"
  | _ => "bad-op"

/-- split at the separator token -/
def splitPar (toks : List String) : List (List String) :=
  let (cur, acc) := toks.foldl (fun (cur, acc) t =>
    if t == "//" then ([], acc ++ [cur]) else (cur ++ [t], acc)) (([] : List String), ([] : List (List String)))
  acc ++ [cur]

def handle : List String → String
  -- independent instances run side by side answer as each does alone
  | "par" :: rest => " // ".intercalate ((splitPar rest).map handle1)
  | toks => handle1 toks

end BV.C05.Driver
