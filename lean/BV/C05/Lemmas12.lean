/-
C05 helper lemmas, part 12: the repaired cursor — `chooseIterator` in terms of the filtered list,
`reseekPast` as first-greater / last-smaller, the canonical states.
-/
import BV.C05.Lemmas11
namespace BV.C05.Lemmas
open BV.C05

section
variable {K V : Type} {cmp : K → K → Ordering}

/-- the selection part of `chooseIterator`, after the skipping -/
def pick (cmp : K → K → Ordering) (forwards : Bool) (a b : Option (K × V)) : MergeSt K V :=
  match a, b with
  | none, none => ⟨a, b, none⟩
  | some _, none => ⟨a, b, some true⟩
  | none, some _ => ⟨a, b, some false⟩
  | some x, some y =>
    let c := cmp x.1 y.1
    if (forwards && c == .gt) || (!forwards && c == .lt) then ⟨a, b, some false⟩ else ⟨a, b, some true⟩

theorem choose_eq_pick (sh : K → Bool) (A : List (K × V)) (fw : Bool) (a b : Option (K × V)) :
    choose cmp sh A fw a b =
      pick cmp fw (skipLoop sh (if fw then itNext cmp A else itPrev cmp A) A.length a) b := by
  unfold choose pick
  rfl

theorem pick_a (fw : Bool) (a b : Option (K × V)) : (pick cmp fw a b).a = a := by
  unfold pick
  cases a <;> cases b <;> simp
  split <;> rfl

theorem pick_b (fw : Bool) (a b : Option (K × V)) : (pick cmp fw a b).b = b := by
  unfold pick
  cases a <;> cases b <;> simp
  split <;> rfl

theorem skipLoop_none (sh : K → Bool) (step : Option (K × V) → Option (K × V)) (n : Nat) :
    skipLoop sh step n none = none := by
  cases n <;> rfl

theorem skipLoop_keep (sh : K → Bool) (step : Option (K × V) → Option (K × V)) (n : Nat)
    (x : K × V) (hx : sh x.1 = false) : skipLoop sh step n (some x) = some x := by
  cases n <;> simp [skipLoop, hx]

/-- `reseekPast` forwards on a lawful iterator: the first entry beyond the key -/
theorem reseekFwd_eq (h : OrdLaws cmp) (A : List (K × V)) (k : K) :
    reseekFwd cmp A k = firstGT cmp k A := by
  induction A with
  | nil => rfl
  | cons y ys ih =>
    unfold reseekFwd at ih ⊢
    simp only [firstGE, firstGT]
    cases hc : cmp k y.1 with
    | gt =>
      simp only [if_true]
      have hnl : ¬ (Ordering.gt = Ordering.lt) := by decide
      simp only [hnl, if_false]
      rw [← ih]
      cases hf : firstGE cmp k ys with
      | none => rfl
      | some x =>
        simp only []
        by_cases hx : cmp x.1 k = .eq
        · simp only [hx, if_true, itNext, firstGT]
          have hxk : x.1 = k := (h.eq_iff _ _).mp hx
          rw [hxk, hc]; simp
        · simp only [hx, if_false]
    | eq =>
      have hky : k = y.1 := (h.eq_iff _ _).mp hc
      have hyk : cmp y.1 k = .eq := by rw [hky]; exact cmp_refl h _
      simp [hyk, itNext, firstGT, ← hky, cmp_refl h]
    | lt =>
      have hyk : cmp y.1 k ≠ .eq := by
        intro he; rw [(h.eq_iff _ _).mp he, cmp_refl h] at hc; cases hc
      simp [hyk]

/-- `reseekPast` backwards on a lawful iterator: the last entry before the key -/
theorem reseekBwd_eq (h : OrdLaws cmp) (A : List (K × V)) (k : K) :
    reseekBwd cmp A k = lastLT cmp k A := by
  induction A with
  | nil => rfl
  | cons y ys ih =>
    unfold reseekBwd at ih ⊢
    simp only [firstGE, lastLT]
    by_cases hc : cmp k y.1 = .gt
    · simp only [hc, if_true]
      rw [← ih]
      cases hf : firstGE cmp k ys with
      | none => simp only []; rw [getLast?_cons_or]; cases ys.getLast? <;> rfl
      | some x =>
        simp only [itPrev, lastLT]
        have hxk : cmp k x.1 ≠ .gt := (firstGE_mem k ys x hf).2
        have hxy : cmp x.1 y.1 = .gt := by
          apply gt_of_lt h
          exact lt_le_trans h (lt_of_gt h hc) hxk
        simp [hxy]
    · simp only [hc, if_false, itPrev, lastLT, cmp_refl h]
      simp

end

/-! ### the setting: committed layer `A`, pending layer `B`, shadow predicate -/

section Setting
variable {K V : Type} {cmp : K → K → Ordering}

/-- the unshadowed committed entries -/
def unsh (sh : K → Bool) (A : List (K × V)) : List (K × V) := A.filter (fun x => !sh x.1)

structure Setting (cmp : K → K → Ordering) (sh : K → Bool) (A B : List (K × V)) : Prop where
  laws : OrdLaws cmp
  sortedA : SortedKeys cmp A
  sortedB : SortedKeys cmp B
  shadowed : ∀ y ∈ B, sh y.1 = true

variable {sh : K → Bool} {A B : List (K × V)}

theorem Setting.sortedX (S : Setting cmp sh A B) : SortedKeys cmp (unsh sh A) :=
  List.Pairwise.sublist List.filter_sublist S.sortedA

theorem Setting.memX (_S : Setting cmp sh A B) {x : K × V} (hx : x ∈ unsh sh A) :
    x ∈ A ∧ sh x.1 = false := by
  rcases List.mem_filter.mp hx with ⟨h1, h2⟩
  exact ⟨h1, by simpa using h2⟩

theorem Setting.absentY (S : Setting cmp sh A B) {x : K × V} (hx : x ∈ unsh sh A) :
    ∀ y ∈ B, cmp x.1 y.1 ≠ .eq := by
  intro y hy hc
  have h1 := (S.memX hx).2
  have h2 := S.shadowed y hy
  rw [← (S.laws.eq_iff _ _).mp hc, h1] at h2
  cases h2

theorem Setting.absentX (S : Setting cmp sh A B) {y : K × V} (hy : y ∈ B) :
    ∀ x ∈ unsh sh A, cmp y.1 x.1 ≠ .eq := by
  intro x hx hc
  have h1 := (S.memX hx).2
  have h2 := S.shadowed y hy
  rw [(S.laws.eq_iff _ _).mp hc, h1] at h2
  cases h2

/-- `chooseIterator(forwards)` when `dbIter` stands at the first entry `≥ k` of the committed layer -/
theorem choose_fwd_ge (S : Setting cmp sh A B) (k : K) (b : Option (K × V)) :
    choose cmp sh A true (firstGE cmp k A) b = pick cmp true (firstGE cmp k (unsh sh A)) b := by
  rw [choose_eq_pick]
  simp only [if_true]
  rw [firstGE_dropWhile, skip_fwd_dropWhile S.laws sh A S.sortedA (pLT cmp k) (pLT_down S.laws k),
    ← firstGE_dropWhile]
  rfl

theorem choose_fwd_gt (S : Setting cmp sh A B) (k : K) (b : Option (K × V)) :
    choose cmp sh A true (firstGT cmp k A) b = pick cmp true (firstGT cmp k (unsh sh A)) b := by
  rw [choose_eq_pick]
  simp only [if_true]
  rw [firstGT_dropWhile, skip_fwd_dropWhile S.laws sh A S.sortedA (pLE cmp k) (pLE_down S.laws k),
    ← firstGT_dropWhile]
  rfl

theorem choose_fwd_head (S : Setting cmp sh A B) (b : Option (K × V)) :
    choose cmp sh A true A.head? b = pick cmp true (unsh sh A).head? b := by
  rw [choose_eq_pick]
  simp only [if_true]
  have e : ∀ L : List (K × V), L.dropWhile (fun _ => false) = L := by
    intro L; cases L <;> simp [List.dropWhile]
  have := skip_fwd_dropWhile S.laws sh A S.sortedA (fun _ => false) (fun _ _ _ hc => by cases hc)
  rw [e, e] at this
  rw [this]; rfl

theorem choose_bwd_le (S : Setting cmp sh A B) (k : K) (b : Option (K × V)) :
    choose cmp sh A false (lastLE cmp k A) b = pick cmp false (lastLE cmp k (unsh sh A)) b := by
  rw [choose_eq_pick]
  simp only [Bool.false_eq_true, if_false]
  rw [lastLE_takeWhile, skip_bwd_takeWhile S.laws sh A S.sortedA (pLE cmp k) (pLE_down S.laws k),
    ← lastLE_takeWhile]
  rfl

theorem choose_bwd_lt (S : Setting cmp sh A B) (k : K) (b : Option (K × V)) :
    choose cmp sh A false (lastLT cmp k A) b = pick cmp false (lastLT cmp k (unsh sh A)) b := by
  rw [choose_eq_pick]
  simp only [Bool.false_eq_true, if_false]
  rw [lastLT_takeWhile, skip_bwd_takeWhile S.laws sh A S.sortedA (pLT cmp k) (pLT_down S.laws k),
    ← lastLT_takeWhile]
  rfl

theorem choose_bwd_last (S : Setting cmp sh A B) (b : Option (K × V)) :
    choose cmp sh A false A.getLast? b = pick cmp false (unsh sh A).getLast? b := by
  rw [choose_eq_pick]
  simp only [Bool.false_eq_true, if_false]
  have e : ∀ L : List (K × V), L.takeWhile (fun _ => true) = L := by
    intro L; induction L with
    | nil => rfl
    | cons x xs ih => simp [List.takeWhile, ih]
  have := skip_bwd_takeWhile S.laws sh A S.sortedA (fun _ => true) (fun _ _ _ _ => rfl)
  rw [e, e] at this
  rw [this]; rfl

/-- an iterator already standing on an unshadowed entry (or exhausted) is not moved by the skip -/
theorem choose_keep (S : Setting cmp sh A B) (fw : Bool) (o b : Option (K × V))
    (ho : ∀ x, o = some x → x ∈ unsh sh A) :
    choose cmp sh A fw o b = pick cmp fw o b := by
  rw [choose_eq_pick]
  cases o with
  | none => rw [skipLoop_none]
  | some x => rw [skipLoop_keep sh _ _ x (S.memX (ho x rfl)).2]

end Setting
end BV.C05.Lemmas
