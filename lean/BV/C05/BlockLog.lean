/-
C05 Model, part (e'): the block log as a pure append function over a history of blocks (no faults):
`writeBlock` with roll-over, on files represented as byte lists. core-only.
-/
import BV.C05.DbModel
namespace BV.C05
open BV.C05.DbModel

structure LogSt where
  files : List (Nat × Bytes)
  wcFile : Nat
  wcOff : Nat

def LogSt.file (st : LogSt) (n : Nat) : Bytes := (fileGet st.files n).getD []

/-- `writeBlock`: roll over when the record does not fit, then append the record at the cursor -/
def logAppend (crc : Bytes → Nat) (net maxFile : Nat) (st : LogSt) (b : Bytes) :
    LogSt × (Nat × Nat × Nat) :=
  let full := b.length + 12
  let roll := needsRollover st.wcOff full maxFile
  let f := if roll then st.wcFile + 1 else st.wcFile
  let o := if roll then 0 else st.wcOff
  let old := st.file f
  let new := old.take o ++ List.replicate (o - old.length) 0 ++ record crc net b ++ old.drop (o + full)
  (⟨fileSet st.files f new, f, o + full⟩, (f, o, full))

/-- the write cursor is the end of valid data: it sits at the end of its file and later files are empty -/
def LogOk (st : LogSt) : Prop :=
  (st.file st.wcFile).length = st.wcOff ∧ ∀ n, st.wcFile < n → st.file n = []

end BV.C05

namespace BV.C05
open BV.C05.DbModel

/-- `handleRollback` / the repair of `reconcileDB`: delete the files beyond `f`, cut file `f` at `o`,
put the write cursor there -/
def logTruncate (st : LogSt) (f o : Nat) : LogSt :=
  let kept := st.files.filter (fun p => p.1 ≤ f)
  ⟨fileSet kept f ((fileGet kept f).getD [] |>.take o), f, o⟩

end BV.C05
