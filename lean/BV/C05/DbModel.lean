/- C05 Model, parts (b)–(e): transaction layers, cursor merge, bucket encoding, block log. core-only. -/
import BV.Common.Hex
import BV.C05.Model
namespace BV.C05.DbModel

def runDb (_ : List String) : String := "unimplemented"

end BV.C05.DbModel
