/-
C05 Model, parts (b)–(e): transaction layers over a snapshot, cache commit / flush, bucket encoding,
block log (record format, roll-over, rollback, write-cursor row, reconcile, prune), and the
history interpreter the driver runs. core-only.

Pure pieces that the theorems talk about come first (`record`, `readRecord`, `txGet`, `commitCache`,
`flushCache`, `reconcileAction`, key encodings); the interpreter at the end sequences them exactly in
the order of the Go code, one modelled I/O call at a time, so that "the n-th call fails" and "the
directory is copied before the n-th call" have a meaning in the model.
-/
import BV.Common.Hex
import BV.Common.Sha256
import BV.C05.Model
namespace BV.C05
open BV.Hex

abbrev KV := List (Key × Val)
abbrev Bytes := List UInt8

/-! ### encodings -/

def le32 (n : Nat) : Bytes := natLE (n % 2^32) 4
def be32 (n : Nat) : Bytes := natBE (n % 2^32) 4

def bucketIndexPrefix : Bytes := [98, 105, 100, 120]                                  -- "bidx"
def curBucketIDKeyName : Bytes := [98, 105, 100, 120, 45, 99, 98, 105, 100]            -- "bidx-cbid"
def blockIdxBucketName : Bytes :=
  [102, 102, 108, 100, 98, 45, 98, 108, 111, 99, 107, 105, 100, 120]                  -- "ffldb-blockidx"
def writeLocKeyName : Bytes :=
  [102, 102, 108, 100, 98, 45, 119, 114, 105, 116, 101, 108, 111, 99]                 -- "ffldb-writeloc"
def metadataBucketID : Bytes := [0, 0, 0, 0]
def blockIdxBucketID : Bytes := [0, 0, 0, 1]

/-- `<bucketindexprefix><parentbucketid><bucketname>` -/
def bucketIndexKey (parent : Bytes) (name : Bytes) : Bytes := bucketIndexPrefix ++ parent ++ name
/-- `<bucketid><key>` -/
def bucketizedKey (id : Bytes) (k : Bytes) : Bytes := id ++ k

/-- CRC-32 (Castagnoli), bitwise -/
def crcStep (c : Nat) : Nat := if c % 2 = 1 then (c / 2) ^^^ 0x82F63B78 else c / 2
def crcByte (c : Nat) (b : UInt8) : Nat :=
  crcStep (crcStep (crcStep (crcStep (crcStep (crcStep (crcStep (crcStep (c ^^^ b.toNat))))))))
def crc32c (bs : Bytes) : Nat := (bs.foldl crcByte 0xFFFFFFFF) ^^^ 0xFFFFFFFF

/-- write-cursor row: file | offset | crc32c(file|offset), all little endian -/
def serializeWriteRow (crc : Bytes → Nat) (file off : Nat) : Bytes :=
  le32 file ++ le32 off ++ le32 (crc (le32 file ++ le32 off))

def deserializeWriteRow (crc : Bytes → Nat) (row : Bytes) : Option (Nat × Nat) :=
  if crc (row.take 8) = leToNat ((row.drop 8).take 4) then
    some (leToNat (row.take 4), leToNat ((row.drop 4).take 4))
  else none

/-- block location row: file | offset | full record length -/
def serializeBlockLoc (file off len : Nat) : Bytes := le32 file ++ le32 off ++ le32 len
def deserializeBlockLoc (row : Bytes) : Nat × Nat × Nat :=
  (leToNat (row.take 4), leToNat ((row.drop 4).take 4), leToNat ((row.drop 8).take 4))

/-! ### block log records -/

/-- the record `writeBlock` appends: network | length | bytes | checksum (big endian) -/
def record (crc : Bytes → Nat) (net : Nat) (b : Bytes) : Bytes :=
  le32 net ++ le32 b.length ++ b ++ be32 (crc (le32 net ++ le32 b.length ++ b))

inductive ReadRes where
  | ok (b : Bytes)
  | ioError        -- short read
  | corruption     -- checksum mismatch
  | wrongNet
  deriving DecidableEq, Repr

/-- `readBlock`: read `len` bytes at `off` of the file, verify checksum and network, strip framing -/
def readRecord (crc : Bytes → Nat) (net : Nat) (file : Bytes) (off len : Nat) : ReadRes :=
  let data := (file.drop off).take len
  if data.length < len then .ioError else
  if beToNat (data.drop (len - 4)) ≠ crc (data.take (len - 4)) then .corruption else
  if leToNat (data.take 4) ≠ net % 2^32 then .wrongNet else
  .ok ((data.take (len - 4)).drop 8)

/-- `readBlockRegion`: raw read inside the record, no checks -/
def readRegion (file : Bytes) (recOff off n : Nat) : Option Bytes :=
  let data := (file.drop (recOff + 8 + off)).take n
  if data.length < n then none else some data

/-- roll-over decision of `writeBlock` (uint32 arithmetic) -/
def needsRollover (curOff fullLen maxSize : Nat) : Bool :=
  let fin := (curOff + fullLen) % 2^32
  fin < curOff || fin > maxSize

/-! ### reconcile -/

inductive Reconcile where
  | clean
  | truncateTo (file off : Nat)     -- surplus block data: roll back to the metadata's cursor
  | refuse                          -- metadata ahead of block data: corruption
  deriving DecidableEq, Repr

/-- `reconcileDB`: compare the scanned end of block data with the write cursor in the metadata -/
def reconcileAction (dataFile dataOff metaFile metaOff : Nat) : Reconcile :=
  if dataFile > metaFile ∨ (dataFile = metaFile ∧ dataOff > metaOff) then .truncateTo metaFile metaOff
  else if dataFile < metaFile ∨ (dataFile = metaFile ∧ dataOff < metaOff) then .refuse
  else .clean

/-! ### layers -/

/-- what a transaction sees of the cache + leveldb at `begin` (`dbCacheSnapshot`) -/
structure Snap where
  ldb : KV
  cKeys : KV
  cRem : KV

def Snap.get (s : Snap) (k : Key) : Option Val :=
  if (lookup cmpB k s.cRem).isSome then none else
  match lookup cmpB k s.cKeys with
  | some v => some v
  | none => lookup cmpB k s.ldb

/-- the flat map a snapshot denotes -/
def Snap.flat (s : Snap) : KV :=
  applyLayer cmpB s.cKeys (s.cRem.map (·.1)) s.ldb

/-- transaction reads: pending removes, pending keys (writable only), then the snapshot -/
def txGet (writable : Bool) (pKeys pRem : KV) (s : Snap) (k : Key) : Option Val :=
  if writable && (lookup cmpB k pRem).isSome then none else
  match (if writable then lookup cmpB k pKeys else none) with
  | some v => some v
  | none => s.get k

/-- `putKey` / `deleteKey` on the pending layer -/
def pendPut (pKeys pRem : KV) (k : Key) (v : Val) : KV × KV :=
  (insertSorted cmpB k v pKeys, eraseKey cmpB k pRem)
def pendDel (pKeys pRem : KV) (k : Key) : KV × KV :=
  (eraseKey cmpB k pKeys, insertSorted cmpB k [] pRem)

/-- `commitTx`, no-flush path: fold the pending layer into the cache layer -/
def commitCache (cKeys cRem pKeys pRem : KV) : KV × KV :=
  let cRem1 := pKeys.foldl (fun m kv => eraseKey cmpB kv.1 m) cRem
  let cKeys1 := pKeys.foldl (fun m kv => insertSorted cmpB kv.1 kv.2 m) cKeys
  let cKeys2 := pRem.foldl (fun m kv => eraseKey cmpB kv.1 m) cKeys1
  let cRem2 := pRem.foldl (fun m kv => insertSorted cmpB kv.1 kv.2 m) cRem1
  (cKeys2, cRem2)

/-- `commitTreaps`: apply a layer to leveldb (one leveldb transaction) -/
def applyToLdb (ldb keys rem : KV) : KV :=
  rem.foldl (fun m kv => eraseKey cmpB kv.1 m) (keys.foldl (fun m kv => insertSorted cmpB kv.1 kv.2 m) ldb)

def kvSize (m : KV) : Nat := m.foldl (fun a kv => a + (nodeFieldsSize + kv.1.length + kv.2.length)) 0

/-- `needsFlush` by size (the time criterion is disabled in the harness) -/
def needsFlush (s : Snap) (maxSize : Nat) : Bool :=
  (kvSize s.cKeys + kvSize s.cRem) * 3 / 2 > maxSize

/-! ### cursor at the Spec level: navigation in the sorted view of one bucket -/

def hasPrefix (p k : Bytes) : Bool := k.take p.length == p

/-- the entries a full cursor of bucket `id` ranges over: its keys, then its nested buckets -/
def bucketView (flat : KV) (id : Bytes) : KV :=
  flat.filter (fun kv => hasPrefix id kv.1 || hasPrefix (bucketIndexPrefix ++ id) kv.1)

def keysView (flat : KV) (id : Bytes) : KV := flat.filter (fun kv => hasPrefix id kv.1)
def bucketsView (flat : KV) (id : Bytes) : KV :=
  flat.filter (fun kv => hasPrefix (bucketIndexPrefix ++ id) kv.1)

inductive CurOp where
  | first | last | next | prev | seek (k : Key)

/-- Spec cursor: the position is a key; moves are successor / predecessor in the current view -/
def specCursor (view : KV) (cur : Option Key) : CurOp → Option (Key × Val)
  | .first => view.head?
  | .last => view.getLast?
  | .seek k => firstGE cmpB k view
  | .next => match cur with | some c => firstGT cmpB c view | none => none
  | .prev => match cur with | some c => lastLT cmpB c view | none => none

end BV.C05

/-! ## history interpreter -/
namespace BV.C05.DbModel
open BV.Hex BV.C05

structure Tx where
  writable : Bool
  snap : Snap
  pKeys : KV := []
  pRem : KV := []
  pBlocks : List (Nat × Nat) := []     -- (id, len) in store order
  pDel : List Nat := []                -- block files to delete on commit

structure Cur where
  tx : String
  bucket : Bytes
  cur : Option Key                     -- raw key

structure Img where
  ldb : KV
  files : List (Nat × Bytes)

structure Db where
  ldb : KV := []
  cKeys : KV := []
  cRem : KV := []
  files : List (Nat × Bytes) := []     -- ascending file numbers
  wcFile : Nat := 0
  wcOff : Nat := 0
  curOpen : Bool := false              -- write-cursor file handle open
  openRead : List Nat := []            -- read handles
  lru : List Nat := []                 -- `openBlocksLRU` (most recent first; may hold closed numbers)
  dead : List (String × Bool) := []    -- ended transactions whose handle is still used: id, writable
  -- admissibility mode (fault / crash classes): outcomes are checked against the Spec's admissible set
  flushAlways : Bool := false          -- flush interval 0: every commit takes the flush path
  admMode : Bool := false
  hist : List KV := []                 -- flat metadata after each commit, oldest first
  floor : Nat := 0                     -- commits known to be durable (clean reopen)
  armed : Bool := false                -- a fault is armed …
  errUsed : Bool := false              -- … and has already surfaced as an error
  imgLo : Option Nat := none           -- an image capture is armed since that many commits
  synced : List (Nat × Nat) := []      -- harness bookkeeping: fsynced length per file touched
  maxFile : Nat
  maxCache : Nat
  net : Nat := 0xd9b4bef9
  txs : List (String × Tx) := []
  curs : List (String × Cur) := []
  blockIds : List (Nat × Nat) := []    -- (id, len) in first-seen order
  -- fault: kind, n, seen
  fKind : String := ""
  fN : Nat := 0
  fSeen : Nat := 0
  fFired : Bool := false
  -- image capture
  iKind : String := ""
  iN : Nat := 0
  iSeen : Nat := 0
  iStrict : Bool := false
  img : Option Img := none

abbrev M := StateM Db

def blockBytes (id n : Nat) : Bytes :=
  (List.range n).map (fun i => UInt8.ofNat ((id * 131 + i * 7 + i / 251) % 256))

/-- serialized header of protocol block `id` and its hash -/
def blockHeader (id : Nat) : Bytes :=
  le32 1 ++ List.replicate 64 0 ++ le32 1700000000 ++ le32 0 ++ le32 id
def blockHash (id : Nat) : Bytes := BV.Sha256.hash2List (blockHeader id)

def fileGet (fs : List (Nat × Bytes)) (n : Nat) : Option Bytes := (fs.find? (·.1 == n)).map (·.2)
def fileSet (fs : List (Nat × Bytes)) (n : Nat) (b : Bytes) : List (Nat × Bytes) :=
  let rec ins : List (Nat × Bytes) → List (Nat × Bytes)
    | [] => [(n, b)]
    | (m, c) :: r => if n < m then (n, b) :: (m, c) :: r else if n = m then (n, b) :: r else (m, c) :: ins r
  ins fs
def fileDel (fs : List (Nat × Bytes)) (n : Nat) : List (Nat × Bytes) := fs.filter (·.1 != n)

def syncedLen (d : Db) (n : Nat) (full : Nat) : Nat :=
  match d.synced.find? (·.1 == n) with
  | some (_, l) => l
  | none => full

def strictFiles (d : Db) : List (Nat × Bytes) :=
  d.files.map (fun (n, b) => (n, b.take (syncedLen d n b.length)))

/-- one modelled I/O call of the block store: image capture first, then the fault check -/
def io (kind : String) : M Bool := do
  let d ← get
  let d := if d.iKind == kind && d.img.isNone then
      let seen := d.iSeen + 1
      if seen == d.iN then
        { d with iSeen := seen, img := some ⟨d.ldb, if d.iStrict then strictFiles d else d.files⟩ }
      else { d with iSeen := seen }
    else d
  if d.fKind == kind then
    let seen := d.fSeen + 1
    if seen == d.fN then
      set { d with fSeen := seen, fFired := true }
      return false
    else
      set { d with fSeen := seen }
      return true
  else
    set d
    return true

def touch (n : Nat) : M Unit := modify fun d =>
  if (d.synced.find? (·.1 == n)).isSome then d
  else { d with synced := (n, ((fileGet d.files n).getD []).length) :: d.synced }

def markSynced (n : Nat) : M Unit := modify fun d =>
  { d with synced := (n, ((fileGet d.files n).getD []).length) :: d.synced.filter (·.1 != n) }

/-- `openWriteFileFunc`: O_CREATE -/
def openWrite (n : Nat) : M Bool := do
  if !(← io "openw") then return false
  modify fun d => if (fileGet d.files n).isSome then d else { d with files := fileSet d.files n [] }
  touch n
  return true

/-- `deleteFileFunc` (refuses an open read handle, fails on a missing file) -/
def removeFile (n : Nat) : M Bool := do
  if !(← io "remove") then return false
  let d ← get
  if d.openRead.contains n then return false
  if (fileGet d.files n).isNone then return false
  set { d with files := fileDel d.files n }
  return true

/-- `writeData`: WriteAt at the cursor; a failing call leaves half of the data (torn write) -/
def writeData (data : Bytes) : M Bool := do
  let ok ← io "writeat"
  modify fun d =>
    let data := if ok then data else data.take (data.length / 2)
    let old := (fileGet d.files d.wcFile).getD []
    let new := old.take d.wcOff ++ List.replicate (d.wcOff - old.length) 0 ++ data ++ old.drop (d.wcOff + data.length)
    { d with files := fileSet d.files d.wcFile new, wcOff := d.wcOff + data.length }
  return ok

/-- `writeBlock`; returns the location row on success -/
def writeBlock (b : Bytes) : M (Option (Nat × Nat × Nat)) := do
  let d ← get
  let fullLen := b.length + 12
  if needsRollover d.wcOff fullLen d.maxFile then
    if d.curOpen then
      -- sync before close: later flushes only sync the then-current file
      if !(← io "sync") then return none
      markSynced d.wcFile
      let _ ← io "close"
    modify fun d => { d with curOpen := false, wcFile := d.wcFile + 1, wcOff := 0 }
  let d ← get
  if !d.curOpen then
    if !(← openWrite d.wcFile) then return none
    modify fun d => { d with curOpen := true }
  let d ← get
  let orig := d.wcOff
  let rec' := record crc32c d.net b
  -- four writes: network, length, block, checksum
  if !(← writeData (rec'.take 4)) then return none
  if !(← writeData ((rec'.drop 4).take 4)) then return none
  if !(← writeData ((rec'.drop 8).take b.length)) then return none
  if !(← writeData (rec'.drop (8 + b.length))) then return none
  let d ← get
  return some (d.wcFile, orig, fullLen)

/-- `handleRollback` -/
def handleRollback (oldFile oldOff : Nat) : M Unit := do
  let d ← get
  if d.wcFile == oldFile && d.wcOff == oldOff then return
  if d.wcFile > oldFile then
    if d.curOpen then let _ ← io "close"
    modify fun d => { d with curOpen := false }
  -- delete newer files, highest first; a failure aborts the rollback (cursor restored regardless)
  let rec delLoop (fuel cur : Nat) : M Bool := do
    match fuel with
    | 0 => return true
    | fuel + 1 =>
      if cur > oldFile then
        if !(← removeFile cur) then return false
        delLoop fuel (cur - 1)
      else return true
  let okDel ← delLoop (d.wcFile - oldFile) d.wcFile
  let finish : M Unit := modify fun d => { d with wcFile := oldFile, wcOff := oldOff }
  if !okDel then finish; return
  modify fun d => { d with wcFile := oldFile }
  let d ← get
  if !d.curOpen then
    if !(← openWrite oldFile) then finish; return
    modify fun d => { d with curOpen := true }
  if !(← io "truncate") then finish; return
  modify fun d =>
    let old := (fileGet d.files oldFile).getD []
    { d with files := fileSet d.files oldFile (old.take oldOff ++ List.replicate (oldOff - old.length) 0) }
  if !(← io "sync") then finish; return
  markSynced oldFile
  finish

/-- `syncBlocks` -/
def syncBlocks : M Bool := do
  let d ← get
  if !d.curOpen then return true
  if !(← io "sync") then return false
  markSynced d.wcFile
  return true

/-- `dbCache.flush` -/
def flush : M Bool := do
  if !(← syncBlocks) then return false
  modify fun d =>
    if d.cKeys.isEmpty && d.cRem.isEmpty then d
    else { d with ldb := applyToLdb d.ldb d.cKeys d.cRem, cKeys := [], cRem := [] }
  return true

def getTx (id : String) : M (Option Tx) := do return (← get).txs.lookup id
def setTx (id : String) (t : Tx) : M Unit :=
  modify fun d => { d with txs := (id, t) :: d.txs.filter (·.1 != id) }

/-- a new transaction takes over the id: cursors of the previous holder stay closed for good -/
def beginTx (id : String) (t : Tx) : M Unit := do
  modify fun d => { d with dead := d.dead.filter (·.1 != id),
                           curs := d.curs.map (fun (cid, c) => if c.tx == id then (cid, { c with tx := "(closed)" }) else (cid, c)) }
  setTx id t
/-- the transaction ends (commit / rollback); its handle and its cursors stay around, closed -/
def dropTx (id : String) : M Unit :=
  modify fun d =>
    match d.txs.lookup id with
    | some t => { d with txs := d.txs.filter (·.1 != id), dead := (id, t.writable) :: d.dead.filter (·.1 != id) }
    | none => d

def Tx.get (t : Tx) (k : Key) : Option Val := txGet t.writable t.pKeys t.pRem t.snap k
def Tx.put (t : Tx) (k : Key) (v : Val) : Tx :=
  let (a, b) := pendPut t.pKeys t.pRem k v; { t with pKeys := a, pRem := b }
def Tx.del (t : Tx) (k : Key) : Tx :=
  let (a, b) := pendDel t.pKeys t.pRem k; { t with pKeys := a, pRem := b }

/-- the flat map a transaction sees (Spec view) -/
def Tx.flat (t : Tx) : KV :=
  if t.writable then applyLayer cmpB t.pKeys (t.pRem.map (·.1)) t.snap.flat else t.snap.flat

/-- `writePendingAndCommit` + `commitTx`: blocks, index rows, write-cursor row, cache commit (with
a flush first when the cache is over its limit); pruned files are removed last, after a flush. -/
def commit (id : String) : M String := do
  let some t ← getTx id | return "notx"
  dropTx id
  if !t.writable then return "err:TxNotWritable"
  let d ← get
  let (oldFile, oldOff) := (d.wcFile, d.wcOff)
  -- blocks
  let mut t := t
  for (bid, len) in t.pBlocks do
    match ← writeBlock (blockBytes bid len) with
    | none =>
      handleRollback oldFile oldOff
      return "err:DriverSpecific"
    | some (f, o, l) =>
      t := t.put (bucketizedKey blockIdxBucketID (blockHash bid)) (serializeBlockLoc f o l)
  let d ← get
  t := t.put (bucketizedKey metadataBucketID writeLocKeyName) (serializeWriteRow crc32c d.wcFile d.wcOff)
  -- commitTx
  if d.flushAlways || needsFlush t.snap d.maxCache then
    if !(← flush) then return "err:DriverSpecific"
    modify fun d => { d with ldb := applyToLdb d.ldb t.pKeys t.pRem }
  else
    modify fun d =>
      let (a, b) := commitCache d.cKeys d.cRem t.pKeys t.pRem
      { d with cKeys := a, cRem := b }
  -- pruned files: only once the metadata is durable; failures are only logged
  if !t.pDel.isEmpty then
    if !(← flush) then return "ok"
    for n in t.pDel do
      let d ← get
      if d.openRead.contains n then
        let _ ← io "close"
        modify fun d => { d with openRead := d.openRead.filter (· != n) }
      let _ ← removeFile n
  return "ok"

/-- state of a freshly created database (`initDB`) -/
def initLdb : KV :=
  [ (bucketizedKey metadataBucketID writeLocKeyName, serializeWriteRow crc32c 0 0),
    (bucketIndexKey metadataBucketID blockIdxBucketName, blockIdxBucketID),
    (curBucketIDKeyName, blockIdxBucketID) ].foldl (fun m kv => insertSorted cmpB kv.1 kv.2 m) []

/-- open an existing directory: scan block files, reconcile with the metadata -/
def reopen : M String := do
  modify fun d => { d with txs := [], curs := [], dead := [], cKeys := [], cRem := [], curOpen := false,
                           openRead := [], lru := [], synced := [] }
  let d ← get
  let (sf, so) := match d.files.getLast? with
    | some (n, b) => (n, b.length)
    | none => (0, 0)
  modify fun d => { d with wcFile := sf, wcOff := so }
  let snap : Snap := ⟨d.ldb, [], []⟩
  let some row := snap.get (bucketizedKey metadataBucketID writeLocKeyName) | return "open-err:Corruption"
  let some (mf, mo) := deserializeWriteRow crc32c row | return "open-err:Corruption"
  match reconcileAction sf so mf mo with
  | .clean => return "ok"
  | .refuse => return "open-err:Corruption"
  | .truncateTo f o =>
    handleRollback f o
    return "ok"

def pathBucket (t : Tx) (path : String) : Option Bytes :=
  if path == "." then some metadataBucketID else
  (path.splitOn "/").foldlM (fun id name => do
    let name ← hexToList? name
    t.get (bucketIndexKey id name)) metadataBucketID

def valStr : Option Val → String
  | some v => listToHexTok v
  | none => "nil"

def userKey (id : Bytes) (raw : Key) : Key × Bool :=
  if hasPrefix bucketIndexPrefix raw then (raw.drop 8, true) else (raw.drop id.length, false)

def kvOut (id : Bytes) (kv : Key × Val) : String :=
  let (k, isB) := userKey id kv.1
  listToHexTok k ++ "=" ++ (if isB then "nil" else listToHexTok kv.2)

partial def dumpBucket (flat : KV) (id : Bytes) : String :=
  let ks := (keysView flat id).map (kvOut id)
  let bs := (bucketsView flat id).map (fun kv => listToHexTok (kv.1.drop 8) ++ dumpBucket flat kv.2)
  "{" ++ ",".intercalate (ks ++ bs) ++ "}"

/-- read a stored block through the index row -/
def fetchBlock (d : Db) (t : Tx) (bid : Nat) : Except String Bytes :=
  match t.pBlocks.find? (·.1 == bid) with
  | some (_, len) => .ok (blockBytes bid len)
  | none =>
    match t.get (bucketizedKey blockIdxBucketID (blockHash bid)) with
    | none => .error "err:BlockNotFound"
    | some row =>
      let (f, o, l) := deserializeBlockLoc row
      if d.admMode then
        match d.blockIds.find? (·.1 == bid) with
        | some (_, len) => .ok (blockBytes bid len)
        | none => .error "err:DriverSpecific"
      else
      match fileGet d.files f with
      | none => .error "err:DriverSpecific"
      | some fb =>
        match readRecord crc32c d.net fb o l with
        | .ok b => .ok b
        | .ioError => .error "err:DriverSpecific"
        | .corruption => .error "err:Corruption"
        | .wrongNet => .error "err:DriverSpecific"

def fetchRegion (d : Db) (t : Tx) (bid off len : Nat) : Except String Bytes :=
  let endOff := (off + len) % 2^32
  match t.pBlocks.find? (·.1 == bid) with
  | some (_, blen) =>
    if endOff < off || endOff > blen then .error "err:BlockRegionInvalid"
    else .ok (((blockBytes bid blen).drop off).take len)
  | none =>
    match t.get (bucketizedKey blockIdxBucketID (blockHash bid)) with
    | none => .error "err:BlockNotFound"
    | some row =>
      let (f, o, l) := deserializeBlockLoc row
      -- the row stores the framed record length
      if endOff < off || endOff > l - 12 then .error "err:BlockRegionInvalid" else
      if d.admMode then
        match d.blockIds.find? (·.1 == bid) with
        | some (_, blen) => .ok (((blockBytes bid blen).drop off).take len)
        | none => .error "err:DriverSpecific"
      else
      match fileGet d.files f with
      | none => .error "err:DriverSpecific"
      | some fb =>
        match readRegion fb o off len with
        | some b => .ok b
        | none => .error "err:DriverSpecific"

def exceptStr : Except String Bytes → String
  | .ok b => listToHexTok b
  | .error e => e

def dumpAll (d : Db) (ldb : KV) (files : List (Nat × Bytes)) : String :=
  let t : Tx := { writable := false, snap := ⟨ldb, d.cKeys, d.cRem⟩ }
  let d' := { d with files := files }
  let blocks := d.blockIds.filterMap (fun (bid, len) =>
    if (t.get (bucketizedKey blockIdxBucketID (blockHash bid))).isNone then none else
    some (toString bid ++ ":" ++ (match fetchBlock d' t bid with
      | .ok b => if b == blockBytes bid len then "ok" else "DIFF"
      | .error e => e) ++ ","))
  dumpBucket t.flat metadataBucketID ++ "#" ++ String.join blocks

def curMove (c : Cur) (t : Tx) (op : CurOp) : Cur × String :=
  let view := bucketView t.flat c.bucket
  let op := match op with
    | .seek k => CurOp.seek (bucketizedKey c.bucket k)
    | o => o
  match specCursor view c.cur op with
  | some kv => ({ c with cur := some kv.1 }, "1:" ++ kvOut c.bucket kv)
  | none => ({ c with cur := none }, "0:~")

/-- `DeleteBucket`: remove the keys and, recursively, the nested buckets of `child` -/
partial def deleteTree (t : Tx) (ids : List Bytes) : Tx :=
  match ids with
  | [] => t
  | cid :: rest =>
    let flat := t.flat
    let t1 := (keysView flat cid).foldl (fun t kv => t.del kv.1) t
    let subs := bucketsView flat cid
    let t2 := subs.foldl (fun t kv => t.del kv.1) t1
    deleteTree t2 (subs.map (·.2) ++ rest)

def nat? (s : String) : Option Nat := s.toNat?

def bucketOp (kind id : String) (t : Tx) (b name : Bytes) : M (Option String) := do
  if !t.writable then return some "err:TxNotWritable"
  let bidx := bucketIndexKey b name
  if kind == "xb" then
    match t.get bidx with
    | none => return some "err:BucketNotFound"
    | some cid =>
      setTx id ((deleteTree t [cid]).del bidx)
      return some "ok"
  else
    if kind == "ci" && (t.get bidx).isSome then return some "ok"
    if name.isEmpty then return some "err:BucketNameRequired"
    if (t.get bidx).isSome then return some "err:BucketExists"
    if b == metadataBucketID && name == blockIdxBucketName then
      setTx id (t.put bidx blockIdxBucketID)
      return some "ok"
    let cur := beToNat ((t.get curBucketIDKeyName).getD [])
    let nid := be32 (cur + 1)
    setTx id ((t.put curBucketIDKeyName nid).put bidx nid)
    return some "ok"

def cursorOp (mv cid : String) (seek : Key) : M (Option String) := do
  let d ← get
  match d.curs.lookup cid with
  | none => return some "nocursor"
  | some c =>
    match d.txs.lookup c.tx with
    | none =>
      -- the cursor's transaction has ended
      if mv == "D" then return some "err:TxClosed"
      else if mv == "B" then return some "0"
      else return some "0:~"
    | some t =>
      if mv == "B" then return some "1" else
      if mv == "D" then
        if !t.writable then return some "err:TxNotWritable"
        match c.cur with
        | none => return some "err:IncompatibleValue"
        | some raw =>
          if hasPrefix bucketIndexPrefix raw then return some "err:IncompatibleValue"
          setTx c.tx (t.del raw)
          return some "ok"
      else
        let op := if mv == "F" then CurOp.first else if mv == "L" then .last
                  else if mv == "N" then .next else if mv == "P" then .prev else .seek seek
        let (c', out) := curMove c t op
        modify fun d => { d with curs := (cid, c') :: d.curs.filter (·.1 != cid) }
        return some out

/-- a read through a block file handle: `open` when no handle exists yet, then `ReadAt` -/
def readIo (file : Nat) : M Bool := do
  let d ← get
  if d.admMode then return true
  if (fileGet d.files file).isNone then
    -- openFile fails by itself; the hook still counts the attempt
    let _ ← io "open"
    return false
  if file == d.wcFile && d.curOpen then
    pure ()
  else if d.openRead.contains file then
    modify fun d => { d with lru := file :: d.lru.filter (· != file) }
  else
    if !(← io "open") then return false
    touch file
    -- at most `maxOpenFiles` entries in the LRU list: the least recently used one goes
    let d ← get
    if d.lru.length ≥ 25 then
      match d.lru.getLast? with
      | some victim =>
        if d.openRead.contains victim then let _ ← io "close"
        modify fun d => { d with lru := d.lru.dropLast, openRead := d.openRead.filter (· != victim) }
      | none => pure ()
    modify fun d => { d with openRead := file :: d.openRead, lru := file :: d.lru }
  io "readat"

def blockLoc (t : Tx) (bid : Nat) : Option (Nat × Nat × Nat) :=
  if (t.pBlocks.find? (·.1 == bid)).isSome then none
  else (t.get (bucketizedKey blockIdxBucketID (blockHash bid))).map deserializeBlockLoc

def fetchBlockM (t : Tx) (bid : Nat) : M String := do
  match blockLoc t bid with
  | some (f, _, _) =>
    if !(← readIo f) then return "err:DriverSpecific"
  | none => pure ()
  return exceptStr (fetchBlock (← get) t bid)

def fetchRegionM (t : Tx) (bid off len : Nat) : M String := do
  let r := fetchRegion (← get) t bid off len
  match blockLoc t bid, r with
  | some (f, _, _), .ok _ => if !(← readIo f) then return "err:DriverSpecific"
  | some (f, _, l), .error e =>
    -- the region check precedes the read; a missing file is found at open time
    if e == "err:DriverSpecific" && !((off + len) % 2^32 < off || (off + len) % 2^32 > l - 12) then
      let _ ← readIo f
  | _, _ => pure ()
  return exceptStr r

/-- `FetchBlocks`: one `FetchBlock` after the other, the first error wins -/
def fetchBlocksM (t : Tx) (ids : List Nat) : M String := do
  let mut outs : List String := []
  for bid in ids do
    let r ← fetchBlockM t bid
    if r.startsWith "err:" then return r
    outs := outs ++ [r]
  return "+".intercalate outs

/-- `FetchBlockRegions`: all regions are validated in request order first (pending blocks are
answered from memory), then the stored ones are read in (file, offset) order -/
def fetchRegionsM (t : Tx) (rs : List (Nat × Nat × Nat)) : M String := do
  let d ← get
  -- phase 1: validation in request order
  let mut stored : List (Nat × Nat × Nat × Nat) := []   -- (file, offset, index, _)
  let mut idx := 0
  for (bid, off, len) in rs do
    match fetchRegion d t bid off len with
    | .error e =>
      -- a read problem (missing file, short read) is only discovered in phase 2
      if e != "err:DriverSpecific" then return e
    | .ok _ => pure ()
    match blockLoc t bid with
    | some (f, o, _) => stored := stored ++ [(f, o, idx, 0)]
    | none => pure ()
    idx := idx + 1
  -- phase 2: reads sorted by location
  let sorted := stored.toArray.qsort (fun a b => a.1 < b.1 || (a.1 == b.1 && a.2.1 < b.2.1)) |>.toList
  for (f, _, i, _) in sorted do
    if !(← readIo f) then return "err:DriverSpecific"
    match rs[i]? with
    | some (bid, off, len) =>
      match fetchRegion (← get) t bid off len with
      | .error e => return e
      | .ok _ => pure ()
    | none => pure ()
  let d ← get
  return "+".intercalate (rs.map (fun (bid, off, len) => exceptStr (fetchRegion d t bid off len)))

def pruneBlocks (id : String) (t : Tx) (target : Nat) : M String := do
  if !t.writable then return "err:TxNotWritable"
  let d ← get
  if target < d.maxFile then return "err:other"
  match d.files.head?, d.files.getLast? with
  | some (first, _), some (last, lb) =>
    if first == last then return "[]"
    let total := lb.length + d.maxFile * (last - first)
    if total ≤ target then return "[]"
    -- files first, first+1, … until the estimate drops to the target
    let rec pick (fuel i total : Nat) (acc : List Nat) : List Nat :=
      match fuel with
      | 0 => acc
      | fuel + 1 =>
        if i < last then
          let acc := acc ++ [i]
          let total := total - d.maxFile
          if total ≤ target then acc else pick fuel (i + 1) total acc
        else acc
    let dels := pick (last - first) first total []
    let rows := keysView t.flat blockIdxBucketID
    let hit := rows.filter (fun kv => dels.contains (deserializeBlockLoc kv.2).1)
    let t' := hit.foldl (fun t kv => t.del kv.1) { t with pDel := t.pDel ++ dels }
    setTx id t'
    let ids := d.blockIds.filterMap (fun (bid, _) =>
      if hit.any (fun kv => kv.1 == bucketizedKey blockIdxBucketID (blockHash bid)) then some bid else none)
    let sorted := ids.toArray.qsort (· < ·) |>.toList
    return "[" ++ "+".intercalate (sorted.map toString) ++ "]"
  | _, _ => return "[]"

/-- user-visible dump: buckets and keys without ffldb's own rows, and the indexed blocks -/
def userDump (d : Db) (flat : KV) : String :=
  let keys := (keysView flat metadataBucketID).filter (fun kv => kv.1 != bucketizedKey metadataBucketID writeLocKeyName)
  let ks := keys.map (kvOut metadataBucketID)
  let bs := (bucketsView flat metadataBucketID).filter (fun kv => kv.1.drop 8 != blockIdxBucketName)
  let bsS := bs.map (fun kv => listToHexTok (kv.1.drop 8) ++ dumpBucket flat kv.2)
  let blocks := d.blockIds.filterMap (fun (bid, _) =>
    if (lookup cmpB (bucketizedKey blockIdxBucketID (blockHash bid)) flat).isSome then some (toString bid ++ ":ok,") else none)
  "{" ++ ",".intercalate (ks ++ bsS) ++ "}#" ++ String.join blocks

def flatNow (d : Db) : KV := applyToLdb d.ldb d.cKeys d.cRem

/-- `BeenPruned` looks at the directory only -/
def beenPruned (d : Db) : String :=
  match d.files.head?, d.files.getLast? with
  | some (first, _), some (last, _) => if first != 0 && first != last then "1" else "0"
  | _, _ => "0"

/-- answers of an ended transaction's handle (everything checks `closed` first, except `Writable`,
`BeenPruned`, `Metadata` and, for the root bucket, `Cursor`) -/
def deadAnswer (f : List String) (writable : Bool) : M (Option String) := do
  let root (path : String) (ans : String) : Option String := some (if path == "." then ans else "nobucket")
  match f with
  | ["co", _] | ["rb", _] => return some "err:TxClosed"
  | ["p", _, path, _, _] | ["d", _, path, _] | ["cb", _, path, _] | ["ci", _, path, _] | ["xb", _, path, _] =>
    return root path "err:TxClosed"
  | ["fes", _, path, _] | ["feb", _, path, _] => return root path "err:TxClosed"
  | ["g", _, path, _] => return root path "nil"
  | ["fe", _, path] => return root path "{}"
  | ["wr", _, path] => return root path (if writable then "1" else "0")
  | ["cu", _, cid, path] =>
    if path == "." then
      modify fun d => { d with curs := (cid, ⟨"(closed)", metadataBucketID, none⟩) :: d.curs.filter (·.1 != cid) }
      return some "ok"
    else return some "nobucket"
  | ["sb", _, bid, len] =>
    match bid.toNat?, len.toNat? with
    | some bid, some len =>
      modify fun d => if (d.blockIds.find? (·.1 == bid)).isSome then d
                      else { d with blockIds := d.blockIds ++ [(bid, len)] }
      return some "err:TxClosed"
    | _, _ => return none
  | ["bp", _] => return some (beenPruned (← get))
  | [op, _, _] =>
    if ["hb", "fk", "fh", "fks", "frs", "hbs", "fhs", "pr"].contains op then return some "err:TxClosed" else return none
  | ["fr", _, _, _, _] => return some "err:TxClosed"
  | _ => return none

def step (op : String) : M (Option String) := do
  let f := op.splitOn ":"
  let withTx (id : String) (k : Tx → M (Option String)) : M (Option String) := do
    match ← getTx id with
    | some t => k t
    | none =>
      match (← get).dead.lookup id with
      | some w => deadAnswer f w
      | none => return none
  let withBucket (id path : String) (k : Tx → Bytes → M (Option String)) : M (Option String) :=
    withTx id fun t =>
      match pathBucket t path with
      | some b => k t b
      | none => return some "nobucket"
  match f with
  | ["bw", id] =>
    let d ← get
    beginTx id { writable := true, snap := ⟨d.ldb, d.cKeys, d.cRem⟩ }
    return some "ok"
  | ["br", id] =>
    let d ← get
    beginTx id { writable := false, snap := ⟨d.ldb, d.cKeys, d.cRem⟩ }
    return some "ok"
  | ["co", id] => withTx id fun _ => do return some (← commit id)
  | ["rb", id] => withTx id fun _ => do dropTx id; return some "ok"
  | ["p", id, path, k, v] =>
    match hexToList? k, hexToList? v with
    | some k, some v => withBucket id path fun t b => do
        if !t.writable then return some "err:TxNotWritable"
        if k.isEmpty then return some "err:KeyRequired"
        setTx id (t.put (bucketizedKey b k) v)
        return some "ok"
    | _, _ => return none
  | ["g", id, path, k] =>
    match hexToList? k with
    | some k => withBucket id path fun t b =>
        return some (if k.isEmpty then "nil" else valStr (t.get (bucketizedKey b k)))
    | none => return none
  | ["d", id, path, k] =>
    match hexToList? k with
    | some k => withBucket id path fun t b => do
        if !t.writable then return some "err:TxNotWritable"
        if k.isEmpty then return some "ok"
        setTx id (t.del (bucketizedKey b k))
        return some "ok"
    | none => return none
  | ["cb", id, path, name] | ["ci", id, path, name] | ["xb", id, path, name] =>
    match hexToList? name with
    | some name => withBucket id path fun t b => bucketOp f.head! id t b name
    | none => return none
  | ["cu", id, cid, path] =>
    withBucket id path fun _ b => do
      modify fun d => { d with curs := (cid, ⟨id, b, none⟩) :: d.curs.filter (·.1 != cid) }
      return some "ok"
  | ["fe", id, path] => withBucket id path fun t b => return some (dumpBucket t.flat b)
  | ["F", cid] | ["L", cid] | ["N", cid] | ["P", cid] | ["D", cid] => cursorOp f.head! cid []
  | ["S", cid, k] =>
    match hexToList? k with
    | some k => cursorOp "S" cid k
    | none => return none
  | ["sb", id, bid, len] =>
    match nat? bid, nat? len with
    | some bid, some len => withTx id fun t => do
      modify fun d => if (d.blockIds.find? (·.1 == bid)).isSome then d
                      else { d with blockIds := d.blockIds ++ [(bid, len)] }
      if !t.writable then return some "err:TxNotWritable"
      if (t.pBlocks.find? (·.1 == bid)).isSome ||
          (t.get (bucketizedKey blockIdxBucketID (blockHash bid))).isSome then
        return some "err:BlockExists"
      setTx id { t with pBlocks := t.pBlocks ++ [(bid, len)] }
      return some "ok"
    | _, _ => return none
  | ["hb", id, bid] =>
    match nat? bid with
    | some bid => withTx id fun t =>
      return some (if (t.pBlocks.find? (·.1 == bid)).isSome ||
        (t.get (bucketizedKey blockIdxBucketID (blockHash bid))).isSome then "1" else "0")
    | none => return none
  | ["fk", id, bid] =>
    match nat? bid with
    | some bid => withTx id fun t => do return some (← fetchBlockM t bid)
    | none => return none
  | ["fh", id, bid] =>
    match nat? bid with
    | some bid => withTx id fun t => do return some (← fetchRegionM t bid 0 80)
    | none => return none
  | ["fr", id, bid, off, len] =>
    match nat? bid, nat? off, nat? len with
    | some bid, some off, some len => withTx id fun t => do return some (← fetchRegionM t bid off len)
    | _, _, _ => return none
  | ["cbk", cid] => cursorOp "B" cid []
  | ["wr", id, path] => withBucket id path fun t _ => return some (if t.writable then "1" else "0")
  | ["bp", id] => withTx id fun _ => do return some (beenPruned (← get))
  | ["hbs", id, ids] =>
    match (ids.splitOn "+").mapM nat? with
    | some ids => withTx id fun t =>
      return some ("+".intercalate (ids.map fun bid =>
        if (t.pBlocks.find? (·.1 == bid)).isSome ||
          (t.get (bucketizedKey blockIdxBucketID (blockHash bid))).isSome then "1" else "0"))
    | none => return none
  | ["fhs", id, ids] =>
    match (ids.splitOn "+").mapM nat? with
    | some ids => withTx id fun t => do return some (← fetchRegionsM t (ids.map fun bid => (bid, 0, 80)))
    | none => return none
  | ["fes", id, path, n] =>
    match nat? n with
    | some n => withBucket id path fun t b =>
      let items := (keysView t.flat b).map (kvOut b)
      let stop := n ≥ 1 && items.length ≥ n
      return some ("[" ++ ",".intercalate (if stop then items.take n else items) ++ "]" ++ (if stop then "!" else ""))
    | none => return none
  | ["feb", id, path, n] =>
    match nat? n with
    | some n => withBucket id path fun t b =>
      let items := (bucketsView t.flat b).map (fun kv => listToHexTok (kv.1.drop 8))
      let stop := n ≥ 1 && items.length ≥ n
      return some ("[" ++ ",".intercalate (if stop then items.take n else items) ++ "]" ++ (if stop then "!" else ""))
    | none => return none
  | ["fks", id, ids] =>
    match (ids.splitOn "+").mapM nat? with
    | some ids => withTx id fun t => do return some (← fetchBlocksM t ids)
    | none => return none
  | ["frs", id, spec] =>
    let parse (it : String) : Option (Nat × Nat × Nat) :=
      match it.splitOn "/" with
      | [a, b, c] => do pure (← nat? a, ← nat? b, ← nat? c)
      | _ => none
    match (spec.splitOn "+").mapM parse with
    | some rs => withTx id fun t => do return some (← fetchRegionsM t rs)
    | none => return none
  | ["pr", id, target] =>
    match nat? target with
    | some target => withTx id fun t => do return some (← pruneBlocks id t target)
    | none => return none
  | ["fi", v] =>
    modify fun d => { d with flushAlways := v == "0" }
    return some "ok"
  | ["fl"] => return some (if ← flush then "ok" else "err:DriverSpecific")
  | ["ro", mf, mc, net] =>
    match nat? mf, nat? mc, nat? net with
    | some mf, some mc, some net =>
      let ok ← flush
      let d ← get
      if d.curOpen then let _ ← io "close"
      modify fun d => { d with maxFile := mf, maxCache := mc, net := net }
      let r ← reopen
      if ok then return some r
      else return some ("close-err:DriverSpecific" ++ (if r == "ok" then "" else r))
    | _, _, _ => return none
  | [cp, mf, mc, net] =>
    if cp == "cp" || cp == "cps" then
      match nat? mf, nat? mc, nat? net with
      | some mf, some mc, some net =>
        if cp == "cps" then modify fun d => { d with files := strictFiles d }
        let d ← get
        if d.curOpen then let _ ← io "close"
        modify fun d => { d with maxFile := mf, maxCache := mc, net := net }
        return some (← reopen)
      | _, _, _ => return none
    else return none
  | ["ro"] =>
    -- Close flushes; a failing flush loses the cache (leveldb is closed regardless)
    let ok ← flush
    let d ← get
    if d.curOpen then let _ ← io "close"
    let r ← reopen
    if ok then return some r
    else return some ("close-err:DriverSpecific" ++ (if r == "ok" then "" else r))
  | ["cp"] | ["cps"] =>
    if f.head! == "cps" then modify fun d => { d with files := strictFiles d }
    let d ← get
    if d.curOpen then let _ ← io "close"
    let r ← reopen
    return some r
  | ["ft", kind, n] =>
    match nat? n with
    | some n =>
      modify fun d => { d with fKind := kind, fN := n, fSeen := 0, fFired := false }
      return some "ok"
    | none => return none
  | ["fc"] =>
    let d ← get
    set { d with fKind := "" }
    return some (if d.fFired then "fired" else "idle")
  | ["ti", kind, n] | ["tis", kind, n] =>
    match nat? n with
    | some n =>
      modify fun d => { d with iKind := kind, iN := n, iSeen := 0, img := none, iStrict := f.head! == "tis" }
      return some "ok"
    | none => return none
  | ["tx"] =>
    let d ← get
    match d.img with
    | none => return some "noimg"
    | some img =>
      -- reopen the image in a scratch copy of the model
      let d2 : Db := { maxFile := d.maxFile, maxCache := d.maxCache, ldb := img.ldb, files := img.files,
                       blockIds := d.blockIds, net := d.net }
      let (r, d2) := reopen.run d2
      set { d with iKind := "" }
      if r == "ok" then return some (dumpAll d2 d2.ldb d2.files) else return some r
  | ["wc"] =>
    let d ← get
    return some (toString d.wcFile ++ "/" ++ toString d.wcOff)
  | ["xf", file, off] =>
    match nat? file, nat? off with
    | some file, some off =>
      let d ← get
      match fileGet d.files file with
      | none => return some "nofile"
      | some b =>
        if off ≥ b.length then return some "nofile"
        set { d with files := fileSet d.files file (b.take off ++ [(b.getD off 0) ^^^ 1] ++ b.drop (off + 1)) }
        return some "ok"
    | _, _ => return none
  | ["du"] =>
    let d ← get
    return some (userDump d (flatNow d))
  | ["da"] =>
    let d ← get
    return some (dumpAll d (applyToLdb d.ldb d.cKeys d.cRem) d.files)
  | _ => return none

/-! ### admissibility mode

Fault and crash classes: the implementation's observed answers are fed back and checked against the
set of outcomes the property admits, instead of against the one outcome the I/O-level model
predicts: a transaction under an armed fault commits completely or fails without effect; an armed
fault surfaces as at most one error; a clean reopen keeps everything; a crash (and an image taken at
any moment) shows the state after SOME prefix of the commits not older than the last clean reopen;
every block the metadata of that state indexes is intact; which blocks a prune selects is not
prescribed. File layout, write cursor and call counts are not observed. -/

/-- restart on the state after `p` commits -/
def admRestart (d : Db) (p : Nat) (cfg : Option (Nat × Nat × Nat)) : Db :=
  let flat := (d.hist[p]?).getD []
  let d := { d with ldb := flat, cKeys := [], cRem := [], txs := [], curs := [], dead := [], files := [],
                    wcFile := 0, wcOff := 0, curOpen := false, openRead := [], lru := [], synced := [],
                    hist := d.hist.take (p + 1) }
  match cfg with
  | some (mf, mc, net) => { d with maxFile := mf, maxCache := mc, net := net }
  | none => d

def cfgOf (f : List String) : Option (Option (Nat × Nat × Nat)) :=
  match f with
  | [_] => some none
  | [_, a, b, c] => do pure (some (← a.toNat?, ← b.toNat?, ← c.toNat?))
  | _ => none

def isFetch (op : String) : Bool := ["fk", "fh", "fr", "fks", "frs", "fhs"].contains op

/-- all states consistent with answer `obs` to operation `op` in state `d` -/
def admStep (d : Db) (op obs : String) : List Db :=
  let f := op.splitOn ":"
  let n := d.hist.length - 1
  let faultOk := d.armed && !d.errUsed
  let model : List Db :=
    match (step op).run d with
    | (some out, d') => if out == obs then [d'] else []
    | (none, _) => []
  match f with
  | ["co", id] =>
    match d.txs.lookup id with
    | some t =>
      if t.writable && obs == "ok" then
        match (commit id).run { d with fKind := "" } with
        | (out, d') => if out == "ok" then [{ d' with hist := d'.hist ++ [flatNow d'] }] else []
      else if t.writable && obs == "err:DriverSpecific" && faultOk then
        [((dropTx id).run d).2 |> fun d' => { d' with errUsed := true }]
      else model
    | none => model
  | ["fl"] =>
    if obs == "ok" then [((flush).run d).2]
    else if obs == "err:DriverSpecific" && faultOk then [{ d with errUsed := true }] else []
  | "ro" :: _ =>
    match cfgOf f with
    | some cfg =>
      if obs == "ok" then [{ (admRestart { d with ldb := flatNow d, cKeys := [], cRem := [] } n cfg) with floor := n }]
      else if obs == "close-err:DriverSpecific" && faultOk then
        (List.range (n + 1)).filterMap (fun p => if p ≥ d.floor then some { (admRestart d p cfg) with errUsed := true } else none)
      else []
    | none => []
  | "cp" :: _ | "cps" :: _ =>
    match cfgOf f with
    | some cfg =>
      if obs == "ok" then (List.range (n + 1)).filterMap (fun p => if p ≥ d.floor then some (admRestart d p cfg) else none)
      else []
    | none => []
  | ["ft", _, _] => if obs == "ok" then [{ d with armed := true, errUsed := false }] else []
  | ["fc"] =>
    if (obs == "fired") || (obs == "idle" && !d.errUsed) then [{ d with armed := false, errUsed := false }] else []
  | ["ti", _, _] | ["tis", _, _] => if obs == "ok" then [{ d with imgLo := some d.floor }] else []
  | ["tx"] =>
    match d.imgLo with
    | none => if obs == "noimg" then [d] else []
    | some lo =>
      if obs == "noimg" || (List.range (n + 1)).any (fun p => p ≥ lo && userDump d ((d.hist[p]?).getD []) == obs)
      then [{ d with imgLo := none }] else []
  | ["du"] => if obs == userDump d (flatNow d) then [d] else []
  -- whether block files have been pruned is a statement about the file layout
  | ["bp", _] => if obs == "0" || obs == "1" then [d] else []
  | ["pr", id, target] =>
    match d.txs.lookup id, target.toNat? with
    | some t, some target =>
      if !t.writable || target < d.maxFile then model
      else
        -- which blocks a prune selects depends on the file layout; any set of indexed blocks is accepted
        let body := ((obs.drop 1).toString.dropEnd 1).toString
        let ids? := if body.isEmpty then some [] else (body.splitOn "+").mapM (fun (x : String) => x.toNat?)
        match ids? with
        | some ids =>
          if obs.startsWith "[" && ids.all (fun bid => (t.get (bucketizedKey blockIdxBucketID (blockHash bid))).isSome) then
            let t' := ids.foldl (fun t bid => t.del (bucketizedKey blockIdxBucketID (blockHash bid))) t
            [((setTx id t').run d).2]
          else []
        | none => []
    | _, _ => model
  | opn :: _ =>
    if model.isEmpty && isFetch opn && obs == "err:DriverSpecific" && faultOk then [{ d with errUsed := true }]
    else model
  | [] => []

def admRun (maxFile maxCache : Nat) (ops obs : List String) : String :=
  if ops.length != obs.length then "inadmissible:length" else
  let d0 : Db := { maxFile := maxFile, maxCache := maxCache, ldb := initLdb, admMode := true, hist := [initLdb] }
  let rec go (cands : List Db) (pairs : List (String × String)) (i : Nat) : String :=
    match pairs with
    | [] => if cands.isEmpty then "inadmissible:" ++ toString i else "admissible"
    | (op, ob) :: rest =>
      let next := (cands.flatMap (fun d => admStep d op ob)).take 64
      if next.isEmpty then "inadmissible:" ++ toString i ++ ":" ++ op else go next rest (i + 1)
  go [d0] (ops.zip obs) 0

def runAdm : List String → String
  | maxFile :: maxCache :: rest =>
    match nat? maxFile, nat? maxCache with
    | some mf, some mc =>
      let ops := rest.takeWhile (· != "##")
      let obs := (rest.dropWhile (· != "##")).drop 1
      admRun mf mc ops obs
    | _, _ => "bad-op"
  | _ => "bad-op"

def runOps (ops : List String) : M (Option (List String)) := do
  let mut outs : Array String := #[]
  for op in ops do
    match ← step op with
    | some o =>
      outs := outs.push o
      if o.startsWith "open-" || (o.startsWith "close-" && o.length > 24) then return some outs.toList
    | none => return none
  return some outs.toList

def runDb : List String → String
  | maxFile :: maxCache :: ops =>
    match nat? maxFile, nat? maxCache with
    | some mf, some mc =>
      let d : Db := { maxFile := mf, maxCache := mc, ldb := initLdb }
      match (runOps ops).run' d with
      | some outs => "|".intercalate outs
      | none => "bad-op"
    | _, _ => "bad-op"
  | _ => "bad-op"

end BV.C05.DbModel
