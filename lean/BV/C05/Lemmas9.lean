/-
C05 helper lemmas, part 9: small facts used by the property theorems (key prefixes, CRC range).
-/
import BV.C05.Lemmas2
namespace BV.C05.Lemmas
open BV.C05

theorem cmpB_append_left (p a b : Key) : cmpB (p ++ a) (p ++ b) = cmpB a b := by
  induction p with
  | nil => rfl
  | cons x xs ih =>
    simp only [List.cons_append, cmpB]
    have : ¬ x.toNat < x.toNat := by omega
    simp only [this, if_false]; exact ih

theorem take_append_length (p k : Key) : (p ++ k).take p.length = p := List.take_left' rfl

theorem crcStep_lt (c : Nat) (h : c < 2^32) : crcStep c < 2^32 := by
  unfold crcStep
  split
  · exact Nat.xor_lt_two_pow (by omega) (by decide)
  · omega

theorem crc32c_lt (bs : Bytes) : crc32c bs < 2^32 := by
  unfold crc32c
  apply Nat.xor_lt_two_pow _ (by decide)
  suffices h : ∀ (c : Nat), c < 2^32 → bs.foldl crcByte c < 2^32 from h _ (by decide)
  induction bs with
  | nil => intro c hc; exact hc
  | cons b bs ih =>
    intro c hc
    apply ih
    unfold crcByte
    have hb : c ^^^ b.toNat < 2^32 :=
      Nat.xor_lt_two_pow hc (Nat.lt_of_lt_of_le b.toNat_lt (by decide))
    exact crcStep_lt _ (crcStep_lt _ (crcStep_lt _ (crcStep_lt _ (crcStep_lt _ (crcStep_lt _
      (crcStep_lt _ (crcStep_lt _ hb)))))))

end BV.C05.Lemmas
