/-
C05 property theorems. Only statements of the property + non-vacuity examples live here;
helper lemmas are in Lemmas*.lean.
-/
import BV.C05.Lemmas
import BV.C05.Lemmas2
import BV.C05.Lemmas3
import BV.C05.Lemmas4
import BV.C05.Lemmas5
import BV.C05.Lemmas6
import BV.C05.Lemmas7
import BV.C05.Lemmas8
import BV.C05.Lemmas9
import BV.C05.Lemmas14
import BV.C05.Lemmas15
import BV.C05.Lemmas16
import BV.C05.Lemmas17
import BV.C05.Lemmas18
import BV.Generated.C05
namespace BV.C05
open Treap

/-! ### keys iterate in byte order: `bytes.Compare` is a linear order -/

/-- The key order used everywhere (`bytes.Compare`) is a linear order. -/
theorem cmpB_linear : OrdLaws cmpB := Lemmas.cmpB_laws

/-! ### the Spec map is a map -/

/-- get after put -/
theorem map_get_put (k k' : Key) (v : Val) (m : List (Key × Val)) (hs : SortedKeys cmpB m) :
    lookup cmpB k' (insertSorted cmpB k v m) = if k' = k then some v else lookup cmpB k' m := by
  rw [Lemmas.lookup_insertSorted Lemmas.cmpB_laws k k' v m hs]
  by_cases h : k' = k
  · simp [h, (Lemmas.cmpB_eq_iff k k).mpr rfl]
  · have : cmpB k' k ≠ .eq := fun hc => h ((Lemmas.cmpB_eq_iff _ _).mp hc)
    simp [h, this]

/-- get after delete -/
theorem map_get_delete (k k' : Key) (m : List (Key × Val)) (hs : SortedKeys cmpB m) :
    lookup cmpB k' (eraseKey cmpB k m) = if k' = k then none else lookup cmpB k' m := by
  rw [Lemmas.lookup_eraseKey Lemmas.cmpB_laws k k' m hs]
  by_cases h : k' = k
  · simp [h, (Lemmas.cmpB_eq_iff k k).mpr rfl]
  · have : cmpB k' k ≠ .eq := fun hc => h ((Lemmas.cmpB_eq_iff _ _).mp hc)
    simp [h, this]

/-- put and delete keep the map strictly sorted -/
theorem map_sorted_preserved (m : List (Key × Val)) (hs : SortedKeys cmpB m) (op : TOp Key Val) :
    SortedKeys cmpB (mapApplyOp cmpB m op) := by
  cases op with
  | put k v p => exact Lemmas.insertSorted_sorted Lemmas.cmpB_laws k v m hs
  | del k => exact Lemmas.eraseKey_sorted k m hs

/-! ### (a) the treap refines the map, for every priority sequence -/

/-- `put` with any priority: search-tree order preserved and contents = sorted insert. -/
theorem treap_put_spec (t : Treap Key Val) (k : Key) (v : Val) (p : Nat)
    (hs : SortedKeys cmpB t.toList) :
    (put cmpB k v p t).toList = insertSorted cmpB k v t.toList ∧
      SortedKeys cmpB (put cmpB k v p t).toList := by
  have e := Lemmas.put_toList Lemmas.cmpB_laws k v p t hs
  exact ⟨e, e ▸ Lemmas.insertSorted_sorted Lemmas.cmpB_laws k v _ hs⟩

/-- `delete`: search-tree order preserved and contents = erase. -/
theorem treap_delete_spec (t : Treap Key Val) (k : Key) (hs : SortedKeys cmpB t.toList) :
    (delete cmpB k t).toList = eraseKey cmpB k t.toList ∧
      SortedKeys cmpB (delete cmpB k t).toList := by
  have e := Lemmas.delete_toList Lemmas.cmpB_laws k t hs
  exact ⟨e, e ▸ Lemmas.eraseKey_sorted k _ hs⟩

/-- `get` is lookup in the in-order contents. -/
theorem treap_get_spec (t : Treap Key Val) (k : Key) (hs : SortedKeys cmpB t.toList) :
    Treap.get cmpB k t = lookup cmpB k t.toList :=
  Lemmas.get_spec Lemmas.cmpB_laws k t hs

/-- Headline: every treap version reachable from the empty treap by any sequence of puts (with
arbitrary priorities) and deletes lists, in order (`ForEach`), exactly the Spec map after the same
updates, strictly ascending in byte order. -/
theorem treap_refines_map (ops : List (TOp Key Val)) :
    (ops.foldl (applyOp cmpB) .nil).toList = ops.foldl (mapApplyOp cmpB) [] ∧
      SortedKeys cmpB (ops.foldl (applyOp cmpB) .nil).toList := by
  suffices h : ∀ (t : Treap Key Val) (m : List (Key × Val)), t.toList = m → SortedKeys cmpB m →
      (ops.foldl (applyOp cmpB) t).toList = ops.foldl (mapApplyOp cmpB) m ∧
        SortedKeys cmpB (ops.foldl (applyOp cmpB) t).toList from
    h .nil [] rfl List.Pairwise.nil
  induction ops with
  | nil => intro t m e hs; exact ⟨e, e ▸ hs⟩
  | cons op ops ih =>
    intro t m e hs
    simp only [List.foldl_cons]
    subst e
    apply ih
    · cases op with
      | put k v p => exact (treap_put_spec t k v p hs).1
      | del k => exact (treap_delete_spec t k hs).1
    · exact map_sorted_preserved _ hs op

example : SortedKeys cmpB (put cmpB [1] [2] 7 (.nil : Treap Key Val)).toList :=
  (treap_put_spec .nil [1] [2] 7 List.Pairwise.nil).2

/-- The iterator's three seeks (`Seek`/`First` with a start key; `Next` resp. `Prev` after an update
of the treap; `Last` with a limit key) are navigation in the sorted contents: first entry `≥ k`,
first entry `> k`, last entry `< k`; `First`/`Last` without limits are the ends of the list.
(`limitIter` then applies the range limits to the selected entry.) -/
theorem treap_iter_seek (t : Treap Key Val) (k : Key) (hs : SortedKeys cmpB t.toList) :
    seekAux cmpB k true true t none = firstGE cmpB k t.toList ∧
    seekAux cmpB k false true t none = firstGT cmpB k t.toList ∧
    seekAux cmpB k false false t none = lastLT cmpB k t.toList ∧
    leftmost t = t.toList.head? ∧ rightmost t = t.toList.getLast? := by
  refine ⟨?_, ?_, ?_, Lemmas.leftmost_spec t, Lemmas.rightmost_spec t⟩
  · rw [Lemmas.seekGE_spec Lemmas.cmpB_laws k t none hs]; cases firstGE cmpB k t.toList <;> rfl
  · rw [Lemmas.seekGT_spec Lemmas.cmpB_laws k t none hs]; cases firstGT cmpB k t.toList <;> rfl
  · rw [Lemmas.seekLT_spec Lemmas.cmpB_laws k t none hs]; cases lastLT cmpB k t.toList <;> rfl

/-- Balance invariant, first half: `put` keeps the min-heap order on priorities (with the BST order
this makes the shape the one of a random binary search tree). -/
theorem treap_put_heap (t : Treap Key Val) (k : Key) (v : Val) (p : Nat) (h : Lemmas.Heap t) :
    Lemmas.Heap (put cmpB k v p t) :=
  Lemmas.put_heap cmpB k v p t h

/-- Balance invariant, second half — it does NOT hold for `Delete`: the Go code rotates the child
with the LARGER priority up (`left.priority >= right.priority`), although `Put` maintains a min-heap.
Deleting the root of (1:10) ← (2:5) → (3:7) leaves 1 (priority 10) above 3 (priority 7). Contents and
order are unaffected (`treap_delete_spec`); only the expected O(log n) depth is lost. Not part of
property C05's observables; recorded as an observation. -/
theorem treap_delete_heap_fails :
    ¬ ∀ (t : Treap Nat Nat) (k : Nat), Lemmas.heapB t = true → Lemmas.heapB (delete cmpNat k t) = true := by
  intro h
  have h1 := h Lemmas.heapWitness 2 (by decide)
  simp [Lemmas.heapWitness, Treap.delete, Treap.merge, Treap.merge.go, cmpNat, Lemmas.heapB] at h1

/-! ### (b) transaction layer -/

/-- Read-your-writes: a pending put is a map update of what the writer reads. -/
theorem tx_get_after_put (s : Snap) (pKeys pRem : KV) (k k' : Key) (v : Val)
    (h : Lemmas.LayerOk pKeys pRem) :
    txGet true (pendPut pKeys pRem k v).1 (pendPut pKeys pRem k v).2 s k' =
      if k' = k then some v else txGet true pKeys pRem s k' :=
  Lemmas.txGet_pendPut s pKeys pRem k k' v h

/-- … and a pending delete removes exactly that key. -/
theorem tx_get_after_delete (s : Snap) (pKeys pRem : KV) (k k' : Key)
    (h : Lemmas.LayerOk pKeys pRem) :
    txGet true (pendDel pKeys pRem k).1 (pendDel pKeys pRem k).2 s k' =
      if k' = k then none else txGet true pKeys pRem s k' :=
  Lemmas.txGet_pendDel s pKeys pRem k k' h

/-- `tx_atomic`, commit: whichever path `commitTx` takes (fold into the cache, or flush the cache
and write the transaction to leveldb), a transaction that begins afterwards reads for EVERY key
exactly what the committing writer read last: the pending operations are applied completely and
nothing else changes. (Rollback and every failure before `commitTx` leave `ldb`, `cKeys`, `cRem`
untouched by construction: they are only assigned in these two places.) -/
theorem tx_atomic (k : Key) (ldb cKeys cRem pKeys pRem : KV) (hl : SortedKeys cmpB ldb)
    (hc : Lemmas.LayerOk cKeys cRem) (hp : Lemmas.LayerOk pKeys pRem) :
    Snap.get ⟨ldb, (commitCache cKeys cRem pKeys pRem).1, (commitCache cKeys cRem pKeys pRem).2⟩ k =
        txGet true pKeys pRem ⟨ldb, cKeys, cRem⟩ k ∧
    Snap.get ⟨applyToLdb (applyToLdb ldb cKeys cRem) pKeys pRem, [], []⟩ k =
        txGet true pKeys pRem ⟨ldb, cKeys, cRem⟩ k :=
  ⟨Lemmas.commit_cache_path k ldb cKeys cRem pKeys pRem hc hp,
   Lemmas.commit_flush_path k ldb cKeys cRem pKeys pRem hl hc hp⟩

/-- the layer invariant used above is established by the empty layer and kept by every operation -/
theorem layer_invariant (cKeys cRem pKeys pRem : KV) (k : Key) (v : Val)
    (hc : Lemmas.LayerOk cKeys cRem) (hp : Lemmas.LayerOk pKeys pRem) :
    Lemmas.LayerOk [] [] ∧
    Lemmas.LayerOk (pendPut pKeys pRem k v).1 (pendPut pKeys pRem k v).2 ∧
    Lemmas.LayerOk (pendDel pKeys pRem k).1 (pendDel pKeys pRem k).2 ∧
    Lemmas.LayerOk (commitCache cKeys cRem pKeys pRem).1 (commitCache cKeys cRem pKeys pRem).2 :=
  ⟨⟨List.Pairwise.nil, List.Pairwise.nil⟩, Lemmas.pendPut_ok _ _ _ _ hp, Lemmas.pendDel_ok _ _ _ hp,
   Lemmas.commitCache_ok _ _ _ _ hc⟩

/-- A flush moves the cache to leveldb without changing any read. -/
theorem flush_invisible (k : Key) (ldb cKeys cRem : KV) (hl : SortedKeys cmpB ldb)
    (hc : Lemmas.LayerOk cKeys cRem) :
    Snap.get ⟨applyToLdb ldb cKeys cRem, [], []⟩ k = Snap.get ⟨ldb, cKeys, cRem⟩ k :=
  Lemmas.flush_preserves_reads k ldb cKeys cRem hl hc

/-- `reader_snapshot_stable`: what a read-only transaction reads is a function of the snapshot value
taken at `begin` alone — neither its own (ignored) pending layer nor any later state of the cache
enters. Snapshots are values: `commitCache`/`applyToLdb` build new versions (persistent treaps,
leveldb snapshots) and never update the old ones; that the Go treap really is persistent is
`treap_refines_map` plus the correspondence runs that read old versions back after later updates. -/
theorem reader_snapshot_stable (s : Snap) (pKeys pRem : KV) (k : Key) :
    txGet false pKeys pRem s k = s.get k := by
  unfold txGet; simp

/-! ### (c) cursor -/

/-- `cursor_forward`: `First` followed by `Next`s emits the sorted merge of the pending entries with
the committed entries that are not shadowed (pending for removal or update). -/
theorem cursor_forward {K V : Type} (cmp : K → K → Ordering) (sh : K → Bool) (A B : List (K × V)) :
    fwdRun cmp sh A B = mergeSorted cmp (A.filter (fun x => !sh x.1)) B :=
  Lemmas.fwdRun_eq_merge cmp sh A B

/-- … and that merge is THE view of the transaction: strictly ascending in key order, containing
exactly the pending entries and the committed entries that are not shadowed — for sorted layers in
which every pending key is shadowed (as `skipPendingUpdates` treats them). -/
theorem cursor_forward_view {K V : Type} (cmp : K → K → Ordering) (h : OrdLaws cmp) (sh : K → Bool)
    (A B : List (K × V)) (hA : SortedKeys cmp A) (hB : SortedKeys cmp B)
    (hsh : ∀ y ∈ B, sh y.1 = true) :
    SortedKeys cmp (fwdRun cmp sh A B) ∧
      ∀ z, z ∈ fwdRun cmp sh A B ↔ (z ∈ A ∧ sh z.1 = false) ∨ z ∈ B := by
  rw [Lemmas.fwdRun_eq_merge]
  constructor
  · apply Lemmas.mergeSorted_sorted h _ _ (List.Pairwise.sublist List.filter_sublist hA) hB
    intro x hx y hy hc
    have hxy : x.1 = y.1 := (h.eq_iff _ _).mp hc
    have h1 : sh x.1 = false := by simpa using (List.mem_filter.mp hx).2
    have h2 := hsh y hy
    rw [← hxy, h1] at h2
    cases h2
  · intro z
    rw [Lemmas.mem_mergeSorted, List.mem_filter]
    simp

/-- `cursor_forward` for the algorithm as written (`chooseIterator` with `skipPendingUpdates` over
two lawful sub-iterators, positions being entries): `First` followed by `Next` until exhaustion
emits exactly `fwdRun`, hence the sorted view above. -/
theorem cursor_forward_algorithm {K V : Type} (cmp : K → K → Ordering) (h : OrdLaws cmp)
    (sh : K → Bool) (A B : List (K × V)) (hA : SortedKeys cmp A) (hB : SortedKeys cmp B)
    (n : Nat) (hn : A.length + B.length ≤ n) :
    collectFwd cmp sh A B n (mFirst cmp sh A B) = fwdRun cmp sh A B :=
  Lemmas.forward_run_eq h sh A B hA hB A B [] [] n rfl rfl hn

/-- `Seek k` followed by `Next`s emits the same view from the first key `≥ k` on. -/
theorem cursor_seek_forward_algorithm {K V : Type} (cmp : K → K → Ordering) (h : OrdLaws cmp)
    (sh : K → Bool) (A B : List (K × V)) (hA : SortedKeys cmp A) (hB : SortedKeys cmp B) (k : K)
    (n : Nat) (hn : A.length + B.length ≤ n) :
    collectFwd cmp sh A B n (mSeek cmp sh A B k) =
      fwdRun cmp sh (Lemmas.fromGE cmp k A) (Lemmas.fromGE cmp k B) :=
  Lemmas.seek_run_eq h sh A B hA hB k n hn

/-- `cursor_backward`: `Last` followed by `Prev`s emits the same merge of the reversed lists under
the reversed order. -/
theorem cursor_backward {K V : Type} (cmp : K → K → Ordering) (sh : K → Bool) (A B : List (K × V)) :
    bwdRun cmp sh A B =
      mergeSorted (fun x y => cmp y x) (A.reverse.filter (fun x => !sh x.1)) B.reverse :=
  Lemmas.fwdRun_eq_merge _ sh _ _

/-- `cursor_backward` for the algorithm as written: `Last` followed by `Prev` until exhaustion emits
exactly `bwdRun`. -/
theorem cursor_backward_algorithm {K V : Type} (cmp : K → K → Ordering) (h : OrdLaws cmp)
    (sh : K → Bool) (A B : List (K × V)) (hA : SortedKeys cmp A) (hB : SortedKeys cmp B)
    (n : Nat) (hn : A.length + B.length ≤ n) :
    collectBwd cmp sh A B n (mLast cmp sh A B) = bwdRun cmp sh A B := by
  have e : mLast cmp sh A B = Lemmas.stOfB cmp sh A A.reverse B.reverse := by
    simp only [mLast, Lemmas.stOfB, List.head?_reverse]
  rw [e]
  exact Lemmas.backward_run_eq h sh A B hA hB A.reverse B.reverse [] [] n (by simp) (by simp)
    (by simpa using hn)

/-- the two committed keys 1, 3 and the pending key 2 of finding F-C05-a -/
def witnessA : List (Nat × Nat) := [(1, 10), (3, 30)]
def witnessB : List (Nat × Nat) := [(2, 20)]
def witnessSh (k : Nat) : Bool := k == 2

/-- On monotone runs the general (position-based) algorithm agrees with the merge on the witness … -/
theorem witness_merged :
    mergeSorted cmpNat (witnessA.filter (fun x => !witnessSh x.1)) witnessB = [(1, 10), (2, 20), (3, 30)] := by
  simp [mergeSorted, mergeSorted.go, witnessA, witnessB, witnessSh, cmpNat]

example : collectFwd cmpNat witnessSh witnessA witnessB 5 (mFirst cmpNat witnessSh witnessA witnessB)
    = [(1, 10), (2, 20), (3, 30)] := by decide

/-- `cursor_mixed_full_fails` (finding F-C05-a, the algorithm BEFORE the repair: `mNext`/`mPrev` step
the current iterator only): for arbitrary operation sequences that cursor is NOT navigation in the
merged list: after `First, Next, Next` (at key 3) `Prev` yields key 1, the
predecessor in the merged list [1,2,3] is 2. -/
theorem cursor_mixed_full_fails :
    ¬ ∀ (A B : List (Nat × Nat)) (sh : Nat → Bool),
      (mPrev cmpNat sh A B (mNext cmpNat sh A B (mNext cmpNat sh A B (mFirst cmpNat sh A B)))).entry =
        (match (mNext cmpNat sh A B (mNext cmpNat sh A B (mFirst cmpNat sh A B))).entry with
         | some e => lastLT cmpNat e.1 (mergeSorted cmpNat (A.filter (fun x => !sh x.1)) B)
         | none => none) := by
  intro h
  have h1 := h witnessA witnessB witnessSh
  rw [witness_merged] at h1
  revert h1
  decide

/-- `cursor_mixed` (after the repair of F-C05-a, commit 36dfccad: a move against the remembered
direction re-seeks both iterators past the current key): for EVERY sequence of First / Last / Seek /
Next / Prev, in any order, the entry the cursor stands on is the one obtained by navigating in the
sorted merged view of the two layers (first, last, first ≥ k, successor, predecessor; an exhausted
cursor stays exhausted until it is repositioned). `fStep` is the algorithm as written:
`chooseIterator` with `skipPendingUpdates` over two lawful sub-iterators, `reseekPast` on a change
of direction. -/
theorem cursor_mixed {K V : Type} (cmp : K → K → Ordering) (h : OrdLaws cmp) (sh : K → Bool)
    (A B : List (K × V)) (hA : SortedKeys cmp A) (hB : SortedKeys cmp B)
    (hsh : ∀ y ∈ B, sh y.1 = true) (ops : List (MOp K)) :
    (ops.foldl (fStep cmp sh A B) curInit).m.entry =
      ops.foldl (specNav cmp (mergeSorted cmp (A.filter (fun x => !sh x.1)) B)) none := by
  have S : Lemmas.Setting cmp sh A B := ⟨h, hA, hB, hsh⟩
  have hd : ∀ x ∈ Lemmas.unsh sh A, ∀ y ∈ B, cmp x.1 y.1 ≠ .eq := fun x hx => S.absentY hx
  have hstep : ∀ (c : Option (K × V)) (op : MOp K),
      Lemmas.specU cmp (Lemmas.unsh sh A) B c op =
        specNav cmp (mergeSorted cmp (A.filter (fun x => !sh x.1)) B) c op := by
    intro c op
    cases op with
    | first => exact (Lemmas.head_merge _ _).symm
    | last => exact (Lemmas.getLast_merge h _ _ S.sortedX hB hd).symm
    | seek k => exact (Lemmas.firstGE_merge h k _ _).symm
    | next => cases c with
      | none => rfl
      | some e => exact (Lemmas.firstGT_merge h e.1 _ _).symm
    | prev => cases c with
      | none => rfl
      | some e => exact (Lemmas.lastLT_merge h e.1 _ _ S.sortedX hB hd).symm
  have hfold : ∀ (c : Option (K × V)), ops.foldl (Lemmas.specU cmp (Lemmas.unsh sh A) B) c =
      ops.foldl (specNav cmp (mergeSorted cmp (A.filter (fun x => !sh x.1)) B)) c := by
    induction ops with
    | nil => intro c; rfl
    | cons op ops ih => intro c; simp only [List.foldl_cons]; rw [hstep, ih]
  rw [← hfold]
  exact (Lemmas.run_inv S ops curInit none Lemmas.init_inv_cur).1

/-- `cursor_delete_then_move`: `Cursor.Delete` in the middle of ANY walk. Deleting the entry `e` the
cursor stands on turns the layers into `B' = B` without `e` and a shadow predicate that also covers
`e`'s key; the cursor keeps its iterators. The next `Next` lands on the successor and the next `Prev`
on the predecessor of `e`'s key in the NEW merged view, whatever the direction of the walk before. -/
theorem cursor_delete_then_move {K V : Type} (cmp : K → K → Ordering) (h : OrdLaws cmp) (sh : K → Bool)
    (A B : List (K × V)) (hA : SortedKeys cmp A) (hB : SortedKeys cmp B)
    (hsh : ∀ y ∈ B, sh y.1 = true) (ops : List (MOp K)) (e : K × V)
    (he : (ops.foldl (fStep cmp sh A B) curInit).m.entry = some e) :
    let sh' := Lemmas.shDel cmp sh e.1
    let B' := eraseKey cmp e.1 B
    let M' := mergeSorted cmp (A.filter (fun x => !sh' x.1)) B'
    (fNext cmp sh' A B' (ops.foldl (fStep cmp sh A B) curInit)).m.entry = firstGT cmp e.1 M' ∧
    (fPrev cmp sh' A B' (ops.foldl (fStep cmp sh A B) curInit)).m.entry = lastLT cmp e.1 M' := by
  intro sh' B' M'
  have S : Lemmas.Setting cmp sh A B := ⟨h, hA, hB, hsh⟩
  have S' := Lemmas.setting_after_delete S e.1
  have hinv := Lemmas.run_inv S ops curInit none Lemmas.init_inv_cur
  have hc : ops.foldl (Lemmas.specU cmp (Lemmas.unsh sh A) B) none = some e := by rw [← hinv.1]; exact he
  rw [hc] at hinv
  obtain ⟨h1, h2⟩ := Lemmas.delete_then_move S _ e hinv
  have hd : ∀ x ∈ Lemmas.unsh sh' A, ∀ y ∈ B', cmp x.1 y.1 ≠ .eq := fun x hx => S'.absentY hx
  constructor
  · rw [h1.1]; exact (Lemmas.firstGT_merge h e.1 _ _).symm
  · rw [h2.1]; exact (Lemmas.lastLT_merge h e.1 _ _ S'.sortedX S'.sortedB hd).symm

/-- the repaired algorithm on the F-C05-a witness: First, Next, Next, Prev now stands on key 2 -/
example : ([MOp.first, .next, .next, .prev].foldl (fStep cmpNat witnessSh witnessA witnessB) curInit).m.entry
    = some (2, 20) := by decide

/-- What the cursors enumerate is what `Get` returns. `layerView keys rem below` is the view a
(repaired) merge cursor produces over the view `below` (by `cursor_mixed`, `cursor_forward_view`):
sorted merge of `keys` with the entries of `below` not shadowed by `keys`/`rem`. Two levels — the
transaction's pending layer over the cache layer over leveldb — give a strictly sorted view whose
lookup, for EVERY key, equals the transaction's `Get` (`txGet`); one level gives a reader's `Get`.
Hypotheses: sorted layers, and a key is never both pending for update and for removal in one layer
(`putKey`/`deleteKey` and `commitTx` maintain that). -/
theorem cursor_view_matches_get (k : Key) (ldb cKeys cRem pKeys pRem : KV)
    (hl : SortedKeys cmpB ldb) (hc : SortedKeys cmpB cKeys) (hp : SortedKeys cmpB pKeys)
    (hdc : ∀ k, (lookup cmpB k cRem).isSome = true → lookup cmpB k cKeys = none)
    (hdp : ∀ k, (lookup cmpB k pRem).isSome = true → lookup cmpB k pKeys = none) :
    SortedKeys cmpB (Lemmas.layerView pKeys pRem (Lemmas.layerView cKeys cRem ldb)) ∧
    lookup cmpB k (Lemmas.layerView pKeys pRem (Lemmas.layerView cKeys cRem ldb)) =
      txGet true pKeys pRem ⟨ldb, cKeys, cRem⟩ k ∧
    lookup cmpB k (Lemmas.layerView cKeys cRem ldb) = Snap.get ⟨ldb, cKeys, cRem⟩ k := by
  have hs1 := Lemmas.layerView_sorted cKeys cRem ldb hc hl
  refine ⟨Lemmas.layerView_sorted _ _ _ hp hs1, ?_, ?_⟩
  · rw [Lemmas.lookup_layerView k pKeys pRem _ hp hs1 hdp, Lemmas.lookup_layerView k cKeys cRem ldb hc hl hdc]
    unfold txGet Snap.get
    cases lookup cmpB k pRem <;> cases lookup cmpB k pKeys <;> cases lookup cmpB k cRem <;>
      cases lookup cmpB k cKeys <;> simp
  · rw [Lemmas.lookup_layerView k cKeys cRem ldb hc hl hdc]
    unfold Snap.get
    cases lookup cmpB k cRem <;> cases lookup cmpB k cKeys <;> simp

/-! ### (d) nested buckets as key prefixes -/

/-- `nested_bucket_map`: the entries of a bucket are stored under `<4-byte id><key>` and its nested
buckets under `bidx<4-byte id><name>`. For ids of equal length (4 bytes in the code):
(1) the stored order of a bucket's entries is the byte order of the user keys (so a cursor over the
prefix range iterates the bucket in key order), likewise for nested bucket names;
(2) the encoding is injective: distinct (bucket, key) pairs never collide;
(3) an encoded key lies in the prefix range of its own bucket and of no other bucket.
Together with `tx_get_after_put/delete` every bucket, at every nesting depth, behaves as an
ordered map of its own. -/
theorem nested_bucket_map (id id' k1 k2 : Key) (hlen : id.length = id'.length) :
    cmpB (bucketizedKey id k1) (bucketizedKey id k2) = cmpB k1 k2 ∧
    cmpB (bucketIndexKey id k1) (bucketIndexKey id k2) = cmpB k1 k2 ∧
    (bucketizedKey id k1 = bucketizedKey id' k2 → id = id' ∧ k1 = k2) ∧
    (bucketIndexKey id k1 = bucketIndexKey id' k2 → id = id' ∧ k1 = k2) ∧
    hasPrefix id (bucketizedKey id k1) = true ∧
    (id ≠ id' → hasPrefix id' (bucketizedKey id k1) = false) := by
  refine ⟨Lemmas.cmpB_append_left id k1 k2, ?_, ?_, ?_, ?_, ?_⟩
  · unfold bucketIndexKey; rw [List.append_assoc, List.append_assoc, Lemmas.cmpB_append_left, Lemmas.cmpB_append_left]
  · intro h; exact List.append_inj h hlen
  · intro h
    unfold bucketIndexKey at h
    rw [List.append_assoc, List.append_assoc] at h
    exact List.append_inj (List.append_cancel_left h) hlen
  · unfold hasPrefix bucketizedKey; rw [Lemmas.take_append_length]; simp
  · intro hne
    unfold hasPrefix bucketizedKey
    rw [← hlen, Lemmas.take_append_length]
    simp [hne]

/-! ### (e) block log -/

/-- `block_bytes_faithful`: a block written by `writeBlock` anywhere in a file is read back
byte-identical by `readBlock`, for every block, network and surrounding file content. -/
theorem block_bytes_faithful (net : Nat) (pre b post : Bytes) :
    readRecord crc32c net (pre ++ record crc32c net b ++ post) pre.length (b.length + 12) = .ok b :=
  Lemmas.readRecord_record crc32c Lemmas.crc32c_lt net pre b post

/-- `block_log_history_faithful`: append any list of blocks to an empty log with ANY file size limit
(`writeBlock` with its roll-over rule, files as byte lists): afterwards EVERY block of the history is
read back byte-identical through the location that `writeBlock` returned for it — later appends and
roll-overs never disturb an earlier record — and the write cursor is again the end of valid data. -/
theorem block_log_history_faithful (net maxFile : Nat) (bs : List Bytes) :
    let r := Lemmas.logRun crc32c net maxFile ⟨[], 0, 0⟩ bs
    LogOk r.1 ∧ ∀ p ∈ r.2, readRecord crc32c net (r.1.file p.1.1) p.1.2.1 p.1.2.2 = .ok p.2 := by
  have h0 : LogOk ⟨[], 0, 0⟩ := ⟨rfl, fun _ _ => rfl⟩
  have := Lemmas.logRun_readable crc32c Lemmas.crc32c_lt net maxFile bs ⟨[], 0, 0⟩ [] h0
    (fun p hp => by cases hp)
  simp only [List.append_nil] at this
  exact ⟨this.1, fun p hp => (this.2 p hp).2⟩

/-- `reconcile_truncate_restores`: cutting the block files back to a write cursor `(f, o)` (what
`handleRollback` does after a failed commit and what `reconcileDB` does with surplus data after a
crash) yields a well-formed log whose cursor is the end of valid data, and every record that ends at
or before the cursor — i.e. every block the metadata of that moment refers to — still reads back
exactly as before. With `prefix_durable` (metadata is a prefix whose block data was synced) and
`block_log_history_faithful` this is the byte-faithfulness of everything visible after a crash. -/
theorem reconcile_truncate_restores (net : Nat) (st : LogSt) (f o : Nat)
    (ho : o ≤ (st.file f).length) :
    LogOk (logTruncate st f o) ∧
    ∀ n off len, (n < f ∨ (n = f ∧ off + len ≤ o)) → off + len ≤ (st.file n).length →
      readRecord crc32c net ((logTruncate st f o).file n) off len =
        readRecord crc32c net (st.file n) off len :=
  Lemmas.logTruncate_ok crc32c net st f o ho

/-- regions are sub-slices of the stored block -/
theorem block_region_subslice (net : Nat) (pre b post : Bytes) (off n : Nat) (h : off + n ≤ b.length) :
    readRegion (pre ++ record crc32c net b ++ post) pre.length off n = some ((b.drop off).take n) :=
  Lemmas.readRegion_record crc32c net pre b post off n h

/-- and the Spec's region function is that sub-slice whenever the request is in range -/
theorem spec_region_in_range (b : Bytes) (off n : Nat) (h : off + n ≤ b.length) (h32 : b.length < 2^32) :
    specRegion b off n = some ((b.drop off).take n) := by
  unfold specRegion
  have e : (off + n) % 2^32 = off + n := Nat.mod_eq_of_lt (by omega)
  rw [e]
  have : ¬ (off + n < off ∨ off + n > b.length) := by omega
  simp [this]

/-- checksum mismatch ⇒ corruption error, for any file content -/
theorem block_checksum_mismatch (net : Nat) (file : Bytes) (off len : Nat)
    (hl : ¬ ((file.drop off).take len).length < len)
    (hm : BV.Hex.beToNat (((file.drop off).take len).drop (len - 4)) ≠
          crc32c (((file.drop off).take len).take (len - 4))) :
    readRecord crc32c net file off len = .corruption := by
  unfold readRecord
  simp only [hl, if_false, hm, ne_eq, not_false_eq_true, if_true]

/-- a record of another network is refused -/
theorem block_wrong_network (net net' : Nat) (pre b post : Bytes) (h : net % 2^32 ≠ net' % 2^32) :
    readRecord crc32c net' (pre ++ record crc32c net b ++ post) pre.length (b.length + 12) = .wrongNet := by
  have hlen := Lemmas.record_length crc32c net b
  have hdata : ((pre ++ record crc32c net b ++ post).drop pre.length).take (b.length + 12)
      = record crc32c net b := by
    rw [List.append_assoc, List.drop_left' rfl, List.take_left' hlen]
  unfold readRecord
  simp only [hdata]
  have hhdr : (le32 net ++ le32 b.length ++ b).length = b.length + 12 - 4 := by
    simp [Lemmas.le32_length]; omega
  have htake : (record crc32c net b).take (b.length + 12 - 4) = le32 net ++ le32 b.length ++ b := by
    unfold record; rw [List.take_left' hhdr]
  have hdrop : (record crc32c net b).drop (b.length + 12 - 4) = be32 (crc32c (le32 net ++ le32 b.length ++ b)) := by
    unfold record; rw [List.drop_left' hhdr]
  have htake4 : (record crc32c net b).take 4 = le32 net := by
    unfold record; rw [List.append_assoc, List.append_assoc, List.take_left' (Lemmas.le32_length net)]
  rw [htake, hdrop, htake4, Lemmas.beToNat_be32, Lemmas.leToNat_le32, hlen,
    Nat.mod_eq_of_lt (Lemmas.crc32c_lt _)]
  simp [h]

/-- the write-cursor row and the block-location row round-trip (uint32 fields) -/
theorem write_row_roundtrip (f o : Nat) :
    deserializeWriteRow crc32c (serializeWriteRow crc32c f o) = some (f % 2^32, o % 2^32) :=
  Lemmas.writeRow_roundtrip crc32c Lemmas.crc32c_lt f o

theorem block_loc_roundtrip (f o l : Nat) :
    deserializeBlockLoc (serializeBlockLoc f o l) = (f % 2^32, o % 2^32, l % 2^32) :=
  Lemmas.blockLoc_roundtrip f o l

/-- `reconcileDB` decides by the lexicographic comparison of (file, offset): equal ⇒ nothing to do,
block data ahead of the metadata ⇒ truncate back to the metadata's cursor, metadata ahead ⇒ refuse. -/
theorem reconcile_spec (df dof mf mo : Nat) :
    (reconcileAction df dof mf mo = .clean ↔ (df = mf ∧ dof = mo)) ∧
    (reconcileAction df dof mf mo = .truncateTo mf mo ↔ (df > mf ∨ (df = mf ∧ dof > mo))) ∧
    (reconcileAction df dof mf mo = .refuse ↔ (df < mf ∨ (df = mf ∧ dof < mo))) :=
  Lemmas.reconcile_cases df dof mf mo

/-- `prefix_durable`: run any history of commits (each taking the cache or the flush path) and
explicit flushes, and let a crash strike between ANY two I/O steps. Then the metadata on disk is the
result of applying a prefix of the commits (the first `nDisk`), in order, to the initial state, and
the block data of at least those commits has been synced before (`nDisk ≤ nSynced`), so reopening
finds block data at or beyond the metadata's write cursor — `reconcile_spec` then truncates the
surplus and never has to refuse. Assumes a leveldb transaction commit is atomic and durable. -/
theorem prefix_durable {S C : Type} (apply : S → C → S) (s0 : S) (evs : List (DEvent C))
    (d : DState S C) (hc : CrashAt apply (init s0) evs d) :
    d.nDisk ≤ d.nSynced ∧ d.nDisk ≤ (commitsOf evs).length ∧
      crashImage d = ((commitsOf evs).take d.nDisk).foldl apply s0 := by
  have := Lemmas.crash_safe apply s0 (init s0) evs d (Lemmas.init_inv apply s0) hc
  simpa [Lemmas.CrashSafe, init, crashImage] using this

/-- The sync is an explicit micro-step of the model and `prefix_durable` depends on it: with the
order of seeded change C05-d (a flush-path commit on an empty cache skips `syncBlocks` before the
transaction's rows are written to leveldb) the metadata contains a commit whose block data was never
synced, i.e. the invariant `nDisk ≤ nSynced` that `prefix_durable` establishes is violated. -/
theorem sync_before_metadata_is_necessary {S C : Type} (apply : S → C → S) (s0 : S) (c : C) :
    let d := runMicros apply (init s0) [Micro.writeBlocks, Micro.flushMeta, Micro.directCommit c]
    ¬ d.nDisk ≤ d.nSynced := by
  simp [runMicros, microStep, init]

example : CrashAt (fun (s : Nat) (c : Nat) => s + c) (init 0) [DEvent.commit 5 false, DEvent.flush]
    (runMicros (fun s c => s + c) (init 0) ((stepsOf (DEvent.commit 5 false)).take 1)) :=
  CrashAt.inEvent _ _ _ 1

/-! ### persisted formats regenerated from the Go tree, pinned to the model

Only values that end up on disk are pinned (key names, bucket ids, row layouts, key encodings, CRC).
Tuning constants (handle limit, cache size, flush interval, file size limit, memory estimates) are
neither pinned nor observed. -/

theorem pin_blockLocSize :
    Generated.C05.blockLocSize = ((serializeBlockLoc 0 0 0).length : Int) := by decide
theorem pin_bucketIds :
    Generated.C05.metadataBucketID = (BV.Hex.beToNat metadataBucketID : Int) ∧
    Generated.C05.blockIdxBucketID = (BV.Hex.beToNat blockIdxBucketID : Int) := by decide
def toInts (bs : Bytes) : List Int := bs.map (fun b => (b.toNat : Int))

theorem pin_names :
    Generated.C05.bucketIndexPrefix = toInts bucketIndexPrefix ∧
    Generated.C05.curBucketIDKeyName = toInts curBucketIDKeyName ∧
    Generated.C05.blockIdxBucketName = toInts blockIdxBucketName ∧
    Generated.C05.writeLocKeyName = toInts writeLocKeyName := by decide
set_option maxRecDepth 20000 in
/-- the write-cursor row (including its CRC-32C) and the location row as the Go code serializes them -/
theorem pin_writeRow :
    toInts (serializeWriteRow crc32c 0 0) = Generated.C05.writeRowZero ∧
    toInts (serializeWriteRow crc32c 3 82) = Generated.C05.writeRowSample := by decide
theorem pin_blockLoc :
    toInts (serializeBlockLoc 1 258 (65536 + 7)) = Generated.C05.blockLocSample := by decide
theorem pin_bucketKeys :
    toInts (bucketizedKey [0, 0, 1, 2] [0xab]) = Generated.C05.bucketizedKeySample ∧
    toInts (bucketIndexKey [0, 0, 1, 2] [0xab]) = Generated.C05.bucketIndexKeySample := by decide

end BV.C05
