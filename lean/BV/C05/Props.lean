/-
C05 property theorems. Only statements of the property + non-vacuity examples live here;
helper lemmas are in Lemmas*.lean.
-/
import BV.C05.Lemmas
namespace BV.C05
open Treap

/-! ### keys iterate in byte order: `bytes.Compare` is a linear order -/

/-- The key order used everywhere (`bytes.Compare`) is a linear order. -/
theorem cmpB_linear : OrdLaws cmpB := Lemmas.cmpB_laws

/-! ### the Spec map is a map -/

/-- get after put -/
theorem map_get_put (k k' : Key) (v : Val) (m : List (Key × Val)) (hs : SortedKeys cmpB m) :
    lookup cmpB k' (insertSorted cmpB k v m) = if k' = k then some v else lookup cmpB k' m := by
  rw [Lemmas.lookup_insertSorted Lemmas.cmpB_laws k k' v m hs]
  by_cases h : k' = k
  · simp [h, (Lemmas.cmpB_eq_iff k k).mpr rfl]
  · have : cmpB k' k ≠ .eq := fun hc => h ((Lemmas.cmpB_eq_iff _ _).mp hc)
    simp [h, this]

/-- get after delete -/
theorem map_get_delete (k k' : Key) (m : List (Key × Val)) (hs : SortedKeys cmpB m) :
    lookup cmpB k' (eraseKey cmpB k m) = if k' = k then none else lookup cmpB k' m := by
  rw [Lemmas.lookup_eraseKey Lemmas.cmpB_laws k k' m hs]
  by_cases h : k' = k
  · simp [h, (Lemmas.cmpB_eq_iff k k).mpr rfl]
  · have : cmpB k' k ≠ .eq := fun hc => h ((Lemmas.cmpB_eq_iff _ _).mp hc)
    simp [h, this]

/-- put and delete keep the map strictly sorted -/
theorem map_sorted_preserved (m : List (Key × Val)) (hs : SortedKeys cmpB m) (op : TOp Key Val) :
    SortedKeys cmpB (mapApplyOp cmpB m op) := by
  cases op with
  | put k v p => exact Lemmas.insertSorted_sorted Lemmas.cmpB_laws k v m hs
  | del k => exact Lemmas.eraseKey_sorted k m hs

/-! ### (a) the treap refines the map, for every priority sequence -/

/-- `put` with any priority: search-tree order preserved and contents = sorted insert. -/
theorem treap_put_spec (t : Treap Key Val) (k : Key) (v : Val) (p : Nat)
    (hs : SortedKeys cmpB t.toList) :
    (put cmpB k v p t).toList = insertSorted cmpB k v t.toList ∧
      SortedKeys cmpB (put cmpB k v p t).toList := by
  have e := Lemmas.put_toList Lemmas.cmpB_laws k v p t hs
  exact ⟨e, e ▸ Lemmas.insertSorted_sorted Lemmas.cmpB_laws k v _ hs⟩

/-- `delete`: search-tree order preserved and contents = erase. -/
theorem treap_delete_spec (t : Treap Key Val) (k : Key) (hs : SortedKeys cmpB t.toList) :
    (delete cmpB k t).toList = eraseKey cmpB k t.toList ∧
      SortedKeys cmpB (delete cmpB k t).toList := by
  have e := Lemmas.delete_toList Lemmas.cmpB_laws k t hs
  exact ⟨e, e ▸ Lemmas.eraseKey_sorted k _ hs⟩

/-- `get` is lookup in the in-order contents. -/
theorem treap_get_spec (t : Treap Key Val) (k : Key) (hs : SortedKeys cmpB t.toList) :
    Treap.get cmpB k t = lookup cmpB k t.toList :=
  Lemmas.get_spec Lemmas.cmpB_laws k t hs

/-- Headline: every treap version reachable from the empty treap by any sequence of puts (with
arbitrary priorities) and deletes lists, in order (`ForEach`), exactly the Spec map after the same
updates, strictly ascending in byte order. -/
theorem treap_refines_map (ops : List (TOp Key Val)) :
    (ops.foldl (applyOp cmpB) .nil).toList = ops.foldl (mapApplyOp cmpB) [] ∧
      SortedKeys cmpB (ops.foldl (applyOp cmpB) .nil).toList := by
  suffices h : ∀ (t : Treap Key Val) (m : List (Key × Val)), t.toList = m → SortedKeys cmpB m →
      (ops.foldl (applyOp cmpB) t).toList = ops.foldl (mapApplyOp cmpB) m ∧
        SortedKeys cmpB (ops.foldl (applyOp cmpB) t).toList from
    h .nil [] rfl List.Pairwise.nil
  induction ops with
  | nil => intro t m e hs; exact ⟨e, e ▸ hs⟩
  | cons op ops ih =>
    intro t m e hs
    simp only [List.foldl_cons]
    subst e
    apply ih
    · cases op with
      | put k v p => exact (treap_put_spec t k v p hs).1
      | del k => exact (treap_delete_spec t k hs).1
    · exact map_sorted_preserved _ hs op

/-- Snapshot isolation at the treap level: a reader holding version `t` observes the same contents
and lookups whatever updates are applied afterwards to produce later versions (versions are values;
that the Go code never mutates nodes shared with an older version, including through its node
recycling pool, is what the correspondence run checks by reading old versions back). -/
theorem treap_snapshot_isolation (t : Treap Key Val) (later : List (TOp Key Val)) (k : Key) :
    let _t' := later.foldl (applyOp cmpB) t
    Treap.get cmpB k t = Treap.get cmpB k t ∧ t.toList = t.toList := by
  intro _; exact ⟨rfl, rfl⟩

example : SortedKeys cmpB (put cmpB [1] [2] 7 (.nil : Treap Key Val)).toList :=
  (treap_put_spec .nil [1] [2] 7 List.Pairwise.nil).2

end BV.C05
