/-
C05 helper lemmas, part 8: backward-only runs of the position-based merge algorithm emit `bwdRun`
(the mirror image of Lemmas7: prefixes instead of suffixes, written on the reversed prefixes).
-/
import BV.C05.Lemmas7
namespace BV.C05.Lemmas
open BV.C05

section
variable {K V : Type} {cmp : K → K → Ordering}

/-- `Prev` of a lawful iterator standing on `x` inside the sorted list `pre ++ x :: rest` -/
theorem itPrev_prefix (h : OrdLaws cmp) (pre : List (K × V)) (x : K × V) (rest : List (K × V))
    (hs : SortedKeys cmp (pre ++ x :: rest)) :
    itPrev cmp (pre ++ x :: rest) (some x) = pre.getLast? := by
  unfold SortedKeys at hs
  rw [List.pairwise_append] at hs
  obtain ⟨_, _, h3⟩ := hs
  simp only [itPrev]
  rw [lastLT_append_le x.1 pre x rest (by rw [cmp_refl h]; simp)]
  have hall : ∀ p ∈ pre, cmp x.1 p.1 = .gt :=
    fun p hp => gt_of_lt h (h3 p hp x (List.mem_cons_self ..))
  have := lastLT_append_gt x.1 pre [] hall
  rw [List.append_nil] at this
  rw [this]; simp [lastLT, orSel]

/-- `skipPendingUpdates` backwards from the last entry of the prefix `Ar.reverse` -/
theorem skip_prefix (h : OrdLaws cmp) (sh : K → Bool) (A : List (K × V)) (hs : SortedKeys cmp A) :
    ∀ (Ar post : List (K × V)) (n : Nat), A = Ar.reverse ++ post → Ar.length ≤ n →
      skipLoop sh (itPrev cmp A) n Ar.head? = (dropShadow sh Ar).head? := by
  intro Ar
  induction Ar with
  | nil =>
    intro post n _ _
    cases n <;> simp [skipLoop, dropShadow]
  | cons x rest ih =>
    intro post n hA hn
    cases n with
    | zero => simp at hn
    | succ n =>
      simp only [List.head?_cons, skipLoop, dropShadow]
      by_cases hx : sh x.1 = true
      · simp only [hx, if_true]
        have hA2 : A = rest.reverse ++ x :: post := by rw [hA]; simp
        have hprev : itPrev cmp A (some x) = rest.head? := by
          rw [hA2, itPrev_prefix h rest.reverse x post (hA2 ▸ hs), List.getLast?_reverse]
        rw [hprev]
        exact ih (x :: post) n hA2 (by simpa using hn)
      · simp only [hx, Bool.false_eq_true, if_false, List.head?_cons]

/-- the state `chooseIterator(backwards)` produces from the ends of two prefixes (given reversed) -/
def stOfB (cmp : K → K → Ordering) (sh : K → Bool) (A : List (K × V)) (Ar Br : List (K × V)) : MergeSt K V :=
  choose cmp sh A false Ar.head? Br.head?

theorem stOfB_shadowed (h : OrdLaws cmp) (sh : K → Bool) (A : List (K × V)) (hs : SortedKeys cmp A)
    (post : List (K × V)) (a : K × V) (ar Br : List (K × V)) (hA : A = (a :: ar).reverse ++ post)
    (hsh : sh a.1 = true) :
    stOfB cmp sh A (a :: ar) Br = stOfB cmp sh A ar Br := by
  unfold stOfB choose
  have hlen : (a :: ar).length ≤ A.length := by rw [hA]; simp
  have hlen' : ar.length ≤ A.length := by simp at hlen; omega
  simp only [Bool.false_eq_true, if_false]
  rw [skip_prefix h sh A hs (a :: ar) post A.length hA hlen,
    skip_prefix h sh A hs ar (a :: post) A.length (by rw [hA]; simp) hlen']
  simp [dropShadow, hsh]

theorem backward_run_eq (h : OrdLaws cmp) (sh : K → Bool) (A B : List (K × V))
    (hA : SortedKeys cmp A) (hB : SortedKeys cmp B) :
    ∀ (Ar Br postA postB : List (K × V)) (n : Nat), A = Ar.reverse ++ postA → B = Br.reverse ++ postB →
      Ar.length + Br.length ≤ n →
      collectBwd cmp sh A B n (stOfB cmp sh A Ar Br) = fwdRun (fun x y => cmp y x) sh Ar Br := by
  intro Ar
  induction Ar with
  | nil =>
    intro Br
    induction Br with
    | nil =>
      intro postA postB n _ _ _
      cases n <;> simp [collectBwd, stOfB, choose, skipLoop, MergeSt.entry, fwdRun]
      all_goals (cases A <;> simp [skipLoop])
    | cons b br ihb =>
      intro postA postB n hA' hB' hn
      cases n with
      | zero => simp at hn
      | succ n =>
        have hskip : skipLoop sh (itPrev cmp A) A.length (none : Option (K × V)) = none := by
          cases A <;> simp [skipLoop]
        have hst : stOfB cmp sh A [] (b :: br) = ⟨none, some b, some false⟩ := by
          simp [stOfB, choose, hskip]
        have hB2 : B = br.reverse ++ b :: postB := by rw [hB']; simp
        have hnext : mPrev cmp sh A B ⟨none, some b, some false⟩ = stOfB cmp sh A [] br := by
          simp only [mPrev, stOfB, List.head?_nil]
          rw [hB2, itPrev_prefix h br.reverse b postB (hB2 ▸ hB), List.getLast?_reverse]
        simp only [fwdRun]
        rw [hst]
        simp only [collectBwd, MergeSt.entry]
        rw [hnext, ihb postA (b :: postB) n hA' hB2 (by simp at hn ⊢; omega)]
        simp [fwdRun]
  | cons a ar iha =>
    intro Br postA postB n hA' hB' hn
    have hA2 : A = ar.reverse ++ a :: postA := by rw [hA']; simp
    by_cases hsh : sh a.1 = true
    · rw [stOfB_shadowed h sh A hA postA a ar Br hA' hsh]
      simp only [fwdRun, hsh, if_true]
      exact iha Br (a :: postA) postB n hA2 hB' (by simp at hn ⊢; omega)
    · have hsh' : sh a.1 = false := by simpa using hsh
      have hApos : 0 < A.length := by rw [hA2, List.length_append, List.length_cons]; omega
      have hskip : skipLoop sh (itPrev cmp A) A.length (some a) = some a := by
        cases hl : A.length with
        | zero => omega
        | succ k => simp [skipLoop, hsh']
      have hprevA : itPrev cmp A (some a) = ar.head? := by
        rw [hA2, itPrev_prefix h ar.reverse a postA (hA2 ▸ hA), List.getLast?_reverse]
      simp only [fwdRun, hsh', Bool.false_eq_true, if_false]
      induction Br generalizing postB n with
      | nil =>
        cases n with
        | zero => simp at hn
        | succ n =>
          have hst : stOfB cmp sh A (a :: ar) [] = ⟨some a, none, some true⟩ := by
            simp [stOfB, choose, hskip]
          have hnext : mPrev cmp sh A B ⟨some a, none, some true⟩ = stOfB cmp sh A ar [] := by
            simp only [mPrev, stOfB, List.head?_nil, hprevA]
          rw [hst]
          simp only [collectBwd, MergeSt.entry, fwdRun.go]
          rw [hnext, iha [] (a :: postA) postB n hA2 hB' (by simp at hn ⊢; omega)]
      | cons b br ihb =>
        cases n with
        | zero => simp at hn
        | succ n =>
          have hB2 : B = br.reverse ++ b :: postB := by rw [hB']; simp
          simp only [fwdRun.go]
          by_cases hc : cmp b.1 a.1 = .gt
          · have hlt : cmp a.1 b.1 = .lt := lt_of_gt h hc
            have hst : stOfB cmp sh A (a :: ar) (b :: br) = ⟨some a, some b, some false⟩ := by
              simp [stOfB, choose, hskip, hlt]
            have hnext : mPrev cmp sh A B ⟨some a, some b, some false⟩ = stOfB cmp sh A (a :: ar) br := by
              simp only [mPrev, stOfB, List.head?_cons]
              rw [hB2, itPrev_prefix h br.reverse b postB (hB2 ▸ hB), List.getLast?_reverse]
            rw [hst]
            simp only [collectBwd, MergeSt.entry, hc, if_true]
            rw [hnext, ihb (b :: postB) n hB2 (by simp at hn ⊢; omega)]
          · have hnlt : cmp a.1 b.1 ≠ .lt := fun hl => hc (gt_of_lt h hl)
            have hst : stOfB cmp sh A (a :: ar) (b :: br) = ⟨some a, some b, some true⟩ := by
              simp only [stOfB, choose, List.head?_cons, Bool.false_eq_true, if_false, hskip]
              cases hcab : cmp a.1 b.1 <;> simp_all
            have hnext : mPrev cmp sh A B ⟨some a, some b, some true⟩ = stOfB cmp sh A ar (b :: br) := by
              simp only [mPrev, stOfB, List.head?_cons, hprevA]
            rw [hst]
            simp only [collectBwd, MergeSt.entry, hc, if_false]
            rw [hnext, iha (b :: br) (a :: postA) postB n hA2 hB' (by simp at hn ⊢; omega)]

end
end BV.C05.Lemmas
