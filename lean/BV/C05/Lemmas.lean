/-
C05 helper lemmas, part 1: byte order laws, sorted association lists, treap put/delete/get.
-/
import BV.C05.Model
namespace BV.C05.Lemmas
open BV.C05 BV.C05.Treap

/-! ### `cmpB` is a linear order -/

theorem cmpB_eq_iff : ∀ a b : Key, cmpB a b = .eq ↔ a = b := by
  intro a
  induction a with
  | nil => intro b; cases b <;> simp [cmpB]
  | cons x xs ih =>
    intro b
    cases b with
    | nil => simp [cmpB]
    | cons y ys =>
      simp only [cmpB]
      by_cases h1 : x.toNat < y.toNat
      · simp only [h1, if_true]
        constructor
        · intro h; cases h
        · intro h; injection h with h2 _; subst h2; omega
      · by_cases h2 : y.toNat < x.toNat
        · simp only [h1, h2, if_true, if_false]
          constructor
          · intro h; cases h
          · intro h; injection h with h3 _; subst h3; omega
        · simp only [h1, h2, if_false]
          have hxy : x = y := UInt8.toNat_inj.mp (by omega)
          subst hxy
          rw [ih ys]
          constructor
          · intro h; rw [h]
          · intro h; injection h

theorem cmpB_lt_gt : ∀ a b : Key, cmpB a b = .lt ↔ cmpB b a = .gt := by
  intro a
  induction a with
  | nil => intro b; cases b <;> simp [cmpB]
  | cons x xs ih =>
    intro b
    cases b with
    | nil => simp [cmpB]
    | cons y ys =>
      simp only [cmpB]
      by_cases h1 : x.toNat < y.toNat
      · have h2 : ¬ y.toNat < x.toNat := by omega
        simp [h1, h2]
      · by_cases h2 : y.toNat < x.toNat
        · simp [h1, h2]
        · simp only [h1, h2, if_false]; exact ih ys

theorem cmpB_lt_trans : ∀ a b c : Key, cmpB a b = .lt → cmpB b c = .lt → cmpB a c = .lt := by
  intro a
  induction a with
  | nil =>
    intro b c h1 h2
    cases b with
    | nil => cases c <;> simp_all [cmpB]
    | cons y ys => cases c <;> simp_all [cmpB]
  | cons x xs ih =>
    intro b c h1 h2
    cases b with
    | nil => simp [cmpB] at h1
    | cons y ys =>
      cases c with
      | nil => simp [cmpB] at h2
      | cons z zs =>
        simp only [cmpB] at h1 h2 ⊢
        by_cases a1 : x.toNat < y.toNat
        · by_cases b1 : y.toNat < z.toNat
          · have : x.toNat < z.toNat := by omega
            simp [this]
          · by_cases b2 : z.toNat < y.toNat
            · simp [b1, b2] at h2
            · have : x.toNat < z.toNat := by omega
              simp [this]
        · by_cases a2 : y.toNat < x.toNat
          · simp [a1, a2] at h1
          · simp only [a1, a2, if_false] at h1
            by_cases b1 : y.toNat < z.toNat
            · have : x.toNat < z.toNat := by omega
              simp [this]
            · by_cases b2 : z.toNat < y.toNat
              · simp [b1, b2] at h2
              · simp only [b1, b2, if_false] at h2
                have c1 : ¬ x.toNat < z.toNat := by omega
                have c2 : ¬ z.toNat < x.toNat := by omega
                simp only [c1, c2, if_false]
                exact ih ys zs h1 h2

theorem cmpB_laws : OrdLaws cmpB := ⟨cmpB_eq_iff, cmpB_lt_gt, cmpB_lt_trans⟩

/-! ### consequences of the order laws -/

section Ord
variable {K V : Type} {cmp : K → K → Ordering}

theorem cmp_refl (h : OrdLaws cmp) (a : K) : cmp a a = .eq := (h.eq_iff a a).mpr rfl

theorem gt_of_lt (h : OrdLaws cmp) {a b : K} (hab : cmp a b = .lt) : cmp b a = .gt :=
  (h.lt_gt a b).mp hab

theorem lt_of_gt (h : OrdLaws cmp) {a b : K} (hab : cmp a b = .gt) : cmp b a = .lt :=
  (h.lt_gt b a).mpr hab

theorem gt_trans (h : OrdLaws cmp) {a b c : K} (h1 : cmp a b = .gt) (h2 : cmp b c = .gt) :
    cmp a c = .gt :=
  gt_of_lt h (h.lt_trans c b a (lt_of_gt h h2) (lt_of_gt h h1))

/-! ### sorted association lists -/

theorem insertSorted_append_lt (k : K) (v : V) (xs : List (K × V)) (y : K × V) (ys : List (K × V))
    (hy : cmp k y.1 = .lt) :
    insertSorted cmp k v (xs ++ y :: ys) = insertSorted cmp k v xs ++ y :: ys := by
  induction xs with
  | nil => obtain ⟨yk, yv⟩ := y; simp only [List.nil_append, insertSorted]; simp only [] at hy; rw [hy]; rfl
  | cons x xs ih =>
    obtain ⟨xk, xv⟩ := x
    simp only [List.cons_append, insertSorted]
    cases hc : cmp k xk <;> simp only [List.cons_append]
    rw [ih]

theorem insertSorted_append_gt (k : K) (v : V) (xs ys : List (K × V))
    (hx : ∀ x ∈ xs, cmp k x.1 = .gt) :
    insertSorted cmp k v (xs ++ ys) = xs ++ insertSorted cmp k v ys := by
  induction xs with
  | nil => rfl
  | cons x xs ih =>
    obtain ⟨xk, xv⟩ := x
    have h1 : cmp k xk = .gt := hx (xk, xv) (List.mem_cons_self ..)
    simp only [List.cons_append, insertSorted, h1]
    rw [ih (fun x hm => hx x (List.mem_cons_of_mem _ hm))]

theorem eraseKey_append_lt (k : K) (xs : List (K × V)) (y : K × V) (ys : List (K × V))
    (hy : cmp k y.1 = .lt) :
    eraseKey cmp k (xs ++ y :: ys) = eraseKey cmp k xs ++ y :: ys := by
  induction xs with
  | nil => obtain ⟨yk, yv⟩ := y; simp only [List.nil_append, eraseKey]; simp only [] at hy; rw [hy]
  | cons x xs ih =>
    obtain ⟨xk, xv⟩ := x
    simp only [List.cons_append, eraseKey]
    cases hc : cmp k xk <;> simp only [List.cons_append]
    rw [ih]

theorem eraseKey_append_gt (k : K) (xs ys : List (K × V))
    (hx : ∀ x ∈ xs, cmp k x.1 = .gt) :
    eraseKey cmp k (xs ++ ys) = xs ++ eraseKey cmp k ys := by
  induction xs with
  | nil => rfl
  | cons x xs ih =>
    obtain ⟨xk, xv⟩ := x
    have h1 : cmp k xk = .gt := hx (xk, xv) (List.mem_cons_self ..)
    simp only [List.cons_append, eraseKey, h1]
    rw [ih (fun x hm => hx x (List.mem_cons_of_mem _ hm))]

theorem lookup_append_lt (k : K) (xs : List (K × V)) (y : K × V) (ys : List (K × V))
    (hy : cmp k y.1 = .lt) :
    lookup cmp k (xs ++ y :: ys) = lookup cmp k xs := by
  induction xs with
  | nil => obtain ⟨yk, yv⟩ := y; simp only [List.nil_append, lookup]; simp only [] at hy; rw [hy]
  | cons x xs ih =>
    obtain ⟨xk, xv⟩ := x
    simp only [List.cons_append, lookup]
    cases hc : cmp k xk <;> simp only []
    rw [ih]

theorem lookup_append_gt (k : K) (xs ys : List (K × V))
    (hx : ∀ x ∈ xs, cmp k x.1 = .gt) :
    lookup cmp k (xs ++ ys) = lookup cmp k ys := by
  induction xs with
  | nil => rfl
  | cons x xs ih =>
    obtain ⟨xk, xv⟩ := x
    have h1 : cmp k xk = .gt := hx (xk, xv) (List.mem_cons_self ..)
    simp only [List.cons_append, lookup, h1]
    rw [ih (fun x hm => hx x (List.mem_cons_of_mem _ hm))]

theorem mem_insertSorted (h : OrdLaws cmp) (k : K) (v : V) (xs : List (K × V)) :
    ∀ y ∈ insertSorted cmp k v xs, y.1 = k ∨ ∃ z ∈ xs, z.1 = y.1 := by
  induction xs with
  | nil => intro y hy; simp only [insertSorted, List.mem_singleton] at hy; left; rw [hy]
  | cons x xs ih =>
    obtain ⟨xk, xv⟩ := x
    intro y hy
    simp only [insertSorted] at hy
    cases hc : cmp k xk with
    | lt =>
      rw [hc] at hy; simp only [] at hy
      rcases List.mem_cons.mp hy with h1 | h1
      · left; rw [h1]
      · right; exact ⟨y, h1, rfl⟩
    | eq =>
      rw [hc] at hy; simp only [] at hy
      have hk : k = xk := (h.eq_iff _ _).mp hc
      rcases List.mem_cons.mp hy with h1 | h1
      · left; rw [h1, hk]
      · right; exact ⟨y, List.mem_cons_of_mem _ h1, rfl⟩
    | gt =>
      rw [hc] at hy; simp only [] at hy
      rcases List.mem_cons.mp hy with h1 | h1
      · right; exact ⟨(xk, xv), List.mem_cons_self .., by rw [h1]⟩
      · rcases ih y h1 with h2 | ⟨z, hz, hz2⟩
        · left; exact h2
        · right; exact ⟨z, List.mem_cons_of_mem _ hz, hz2⟩

theorem insertSorted_sorted (h : OrdLaws cmp) (k : K) (v : V) (xs : List (K × V))
    (hs : SortedKeys cmp xs) : SortedKeys cmp (insertSorted cmp k v xs) := by
  induction xs with
  | nil => simp [insertSorted, SortedKeys]
  | cons x xs ih =>
    obtain ⟨xk, xv⟩ := x
    unfold SortedKeys at hs ⊢
    rw [List.pairwise_cons] at hs
    obtain ⟨hx, hs'⟩ := hs
    simp only [insertSorted]
    cases hc : cmp k xk with
    | lt =>
      simp only []
      rw [List.pairwise_cons]
      refine ⟨?_, List.pairwise_cons.mpr ⟨hx, hs'⟩⟩
      intro y hy
      rcases List.mem_cons.mp hy with h1 | h1
      · rw [h1]; exact hc
      · exact h.lt_trans _ _ _ hc (hx y h1)
    | eq =>
      simp only []
      rw [List.pairwise_cons]
      exact ⟨hx, hs'⟩
    | gt =>
      simp only []
      rw [List.pairwise_cons]
      refine ⟨?_, ih hs'⟩
      intro y hy
      rcases mem_insertSorted h k v xs y hy with h1 | ⟨z, hz, hz2⟩
      · simp only []; rw [h1]; exact lt_of_gt h hc
      · have := hx z hz; simp only [] at this ⊢; rw [← hz2]; exact this

theorem eraseKey_sublist (k : K) (xs : List (K × V)) : (eraseKey cmp k xs).Sublist xs := by
  induction xs with
  | nil => exact List.Sublist.refl _
  | cons x xs ih =>
    obtain ⟨xk, xv⟩ := x
    simp only [eraseKey]
    cases hc : cmp k xk <;> simp only []
    · exact List.Sublist.refl _
    · exact List.sublist_cons_self _ _
    · exact List.Sublist.cons_cons _ ih

theorem eraseKey_sorted (k : K) (xs : List (K × V)) (hs : SortedKeys cmp xs) :
    SortedKeys cmp (eraseKey cmp k xs) :=
  List.Pairwise.sublist (eraseKey_sublist k xs) hs

/-- lookup of a key smaller than every key of the list fails -/
theorem lookup_all_lt (k : K) (xs : List (K × V)) (hx : ∀ x ∈ xs, cmp k x.1 = .lt) :
    lookup cmp k xs = none := by
  cases xs with
  | nil => rfl
  | cons x xs =>
    obtain ⟨xk, xv⟩ := x
    have := hx (xk, xv) (List.mem_cons_self ..)
    simp only [] at this
    simp only [lookup, this]

/-- map law: get after put -/
theorem lookup_insertSorted (h : OrdLaws cmp) (k k' : K) (v : V) (xs : List (K × V))
    (hs : SortedKeys cmp xs) :
    lookup cmp k' (insertSorted cmp k v xs) = if cmp k' k = .eq then some v else lookup cmp k' xs := by
  induction xs with
  | nil =>
    simp only [insertSorted, lookup]
    cases hc : cmp k' k <;> simp
  | cons x xs ih =>
    obtain ⟨xk, xv⟩ := x
    unfold SortedKeys at hs
    rw [List.pairwise_cons] at hs
    obtain ⟨hx, hs'⟩ := hs
    simp only [insertSorted]
    cases hc : cmp k xk with
    | lt =>
      simp only [lookup]
      cases hc' : cmp k' k with
      | lt =>
        have : cmp k' xk = .lt := h.lt_trans _ _ _ hc' hc
        simp [this]
      | eq => simp
      | gt => simp
    | eq =>
      have hk : k = xk := (h.eq_iff _ _).mp hc
      subst hk
      simp only [lookup]
      cases hc' : cmp k' k <;> simp
    | gt =>
      simp only [lookup]
      cases hc' : cmp k' xk with
      | lt =>
        have h1 : cmp k' k = .lt := h.lt_trans _ _ _ hc' (lt_of_gt h hc)
        simp [h1]
      | eq =>
        have hk : k' = xk := (h.eq_iff _ _).mp hc'
        subst hk
        have h1 : cmp k' k = .lt := lt_of_gt h hc
        simp [h1]
      | gt =>
        simp only []
        exact ih hs'

/-- map law: get after delete -/
theorem lookup_eraseKey (h : OrdLaws cmp) (k k' : K) (xs : List (K × V))
    (hs : SortedKeys cmp xs) :
    lookup cmp k' (eraseKey cmp k xs) = if cmp k' k = .eq then none else lookup cmp k' xs := by
  induction xs with
  | nil => simp [eraseKey, lookup]
  | cons x xs ih =>
    obtain ⟨xk, xv⟩ := x
    unfold SortedKeys at hs
    rw [List.pairwise_cons] at hs
    obtain ⟨hx, hs'⟩ := hs
    simp only [eraseKey]
    cases hc : cmp k xk with
    | lt =>
      simp only [lookup]
      cases hc' : cmp k' k with
      | lt => simp
      | gt => simp
      | eq =>
        have hk : k' = k := (h.eq_iff _ _).mp hc'
        subst hk
        simp [hc]
    | eq =>
      have hk : k = xk := (h.eq_iff _ _).mp hc
      subst hk
      simp only [lookup]
      cases hc' : cmp k' k with
      | lt =>
        simp only []
        have : ∀ x ∈ xs, cmp k' x.1 = .lt := fun x hm => h.lt_trans _ _ _ hc' (hx x hm)
        simp [lookup_all_lt k' xs this]
      | eq =>
        have hk : k' = k := (h.eq_iff _ _).mp hc'
        subst hk
        simp [lookup_all_lt k' xs hx]
      | gt => simp
    | gt =>
      simp only [lookup]
      cases hc' : cmp k' xk with
      | lt =>
        have h1 : cmp k' k = .lt := h.lt_trans _ _ _ hc' (lt_of_gt h hc)
        simp [h1]
      | eq =>
        have hk : k' = xk := (h.eq_iff _ _).mp hc'
        subst hk
        have h1 : cmp k' k = .lt := lt_of_gt h hc
        simp [h1]
      | gt =>
        simp only []
        exact ih hs'

/-! ### the treap -/

theorem sorted_node {l r : Treap K V} {k : K} {v : V} {p : Nat}
    (hs : SortedKeys cmp (toList (node l k v p r))) :
    SortedKeys cmp (toList l) ∧ SortedKeys cmp (toList r) ∧
      (∀ x ∈ toList l, cmp x.1 k = .lt) ∧ (∀ x ∈ toList r, cmp k x.1 = .lt) := by
  unfold SortedKeys at hs ⊢
  simp only [toList] at hs
  rw [List.pairwise_append] at hs
  obtain ⟨h1, h2, h3⟩ := hs
  rw [List.pairwise_cons] at h2
  obtain ⟨h4, h5⟩ := h2
  refine ⟨h1, h5, ?_, h4⟩
  intro x hx
  exact h3 x hx (k, v) (List.mem_cons_self ..)

theorem toList_putAux_lt (k : K) (v : V) (p : Nat) (l r : Treap K V) (k' : K) (v' : V) (p' : Nat)
    (hc : cmp k k' = .lt) :
    toList (putAux cmp k v p (node l k' v' p' r)).1 =
      toList (putAux cmp k v p l).1 ++ (k', v') :: toList r := by
  simp only [putAux, hc]
  cases hq : putAux cmp k v p l with
  | mk l' f =>
    cases l' with
    | nil => cases f <;> simp [toList]
    | node a kk vv pp b =>
      cases f with
      | false => simp [toList]
      | true =>
        simp only []
        by_cases hp : pp < p' <;> simp [hp, toList, List.append_assoc]

theorem toList_putAux_gt (k : K) (v : V) (p : Nat) (l r : Treap K V) (k' : K) (v' : V) (p' : Nat)
    (hc : cmp k k' = .gt) :
    toList (putAux cmp k v p (node l k' v' p' r)).1 =
      toList l ++ (k', v') :: toList (putAux cmp k v p r).1 := by
  simp only [putAux, hc]
  cases hq : putAux cmp k v p r with
  | mk r' f =>
    cases r' with
    | nil => cases f <;> simp [toList]
    | node a kk vv pp b =>
      cases f with
      | false => simp [toList]
      | true =>
        simp only []
        by_cases hp : pp < p' <;> simp [hp, toList, List.append_assoc]

theorem put_toList (h : OrdLaws cmp) (k : K) (v : V) (p : Nat) (t : Treap K V)
    (hs : SortedKeys cmp (toList t)) :
    toList (put cmp k v p t) = insertSorted cmp k v (toList t) := by
  unfold put
  induction t with
  | nil => simp [putAux, toList, insertSorted]
  | node l k' v' p' r ihl ihr =>
    obtain ⟨hsl, hsr, hl, hr⟩ := sorted_node hs
    cases hc : cmp k k' with
    | lt =>
      rw [toList_putAux_lt k v p l r k' v' p' hc, ihl hsl]
      simp only [toList]
      rw [insertSorted_append_lt k v (toList l) (k', v') (toList r) hc]
    | gt =>
      rw [toList_putAux_gt k v p l r k' v' p' hc, ihr hsr]
      simp only [toList]
      have hall : ∀ x ∈ toList l ++ [(k', v')], cmp k x.1 = .gt := by
        intro x hx
        rcases List.mem_append.mp hx with h1 | h1
        · exact gt_of_lt h (h.lt_trans _ _ _ (hl x h1) (lt_of_gt h hc))
        · rw [List.mem_singleton] at h1; rw [h1]; exact hc
      have e : toList l ++ (k', v') :: toList r = (toList l ++ [(k', v')]) ++ toList r := by simp
      rw [e, insertSorted_append_gt k v _ _ hall]
      simp
    | eq =>
      have hk : k = k' := (h.eq_iff _ _).mp hc
      subst hk
      simp only [putAux, hc, toList]
      have hall : ∀ x ∈ toList l, cmp k x.1 = .gt := fun x hx => gt_of_lt h (hl x hx)
      rw [insertSorted_append_gt k v _ _ hall]
      simp [insertSorted, hc]

theorem toList_merge (l r : Treap K V) : toList (merge l r) = toList l ++ toList r := by
  induction l generalizing r with
  | nil => simp [merge, toList]
  | node ll lk lv lp lr _ ihr =>
    simp only [merge]
    induction r with
    | nil => simp [merge.go, toList]
    | node rl rk rv rp rr ihrl _ =>
      simp only [merge.go]
      by_cases hp : lp ≥ rp
      · simp only [hp, if_true, toList, ihr]
        simp [List.append_assoc]
      · simp only [hp, if_false, toList, ihrl]
        simp [List.append_assoc]

theorem delete_toList (h : OrdLaws cmp) (k : K) (t : Treap K V)
    (hs : SortedKeys cmp (toList t)) :
    toList (delete cmp k t) = eraseKey cmp k (toList t) := by
  induction t with
  | nil => simp [delete, toList, eraseKey]
  | node l k' v' p' r ihl ihr =>
    obtain ⟨hsl, hsr, hl, hr⟩ := sorted_node hs
    simp only [delete]
    cases hc : cmp k k' with
    | lt =>
      simp only [toList]
      rw [ihl hsl, eraseKey_append_lt k (toList l) (k', v') (toList r) hc]
    | gt =>
      simp only [toList]
      rw [ihr hsr]
      have hall : ∀ x ∈ toList l ++ [(k', v')], cmp k x.1 = .gt := by
        intro x hx
        rcases List.mem_append.mp hx with h1 | h1
        · exact gt_of_lt h (h.lt_trans _ _ _ (hl x h1) (lt_of_gt h hc))
        · rw [List.mem_singleton] at h1; rw [h1]; exact hc
      have e : toList l ++ (k', v') :: toList r = (toList l ++ [(k', v')]) ++ toList r := by simp
      rw [e, eraseKey_append_gt k _ _ hall]
      simp
    | eq =>
      have hk : k = k' := (h.eq_iff _ _).mp hc
      subst hk
      simp only [toList, toList_merge]
      have hall : ∀ x ∈ toList l, cmp k x.1 = .gt := fun x hx => gt_of_lt h (hl x hx)
      rw [eraseKey_append_gt k _ _ hall]
      simp [eraseKey, hc]

theorem get_spec (h : OrdLaws cmp) (k : K) (t : Treap K V)
    (hs : SortedKeys cmp (toList t)) :
    Treap.get cmp k t = lookup cmp k (toList t) := by
  induction t with
  | nil => simp [Treap.get, toList, lookup]
  | node l k' v' p' r ihl ihr =>
    obtain ⟨hsl, hsr, hl, hr⟩ := sorted_node hs
    simp only [Treap.get]
    cases hc : cmp k k' with
    | lt =>
      simp only [toList]
      rw [ihl hsl, lookup_append_lt k (toList l) (k', v') (toList r) hc]
    | gt =>
      simp only [toList]
      rw [ihr hsr]
      have hall : ∀ x ∈ toList l ++ [(k', v')], cmp k x.1 = .gt := by
        intro x hx
        rcases List.mem_append.mp hx with h1 | h1
        · exact gt_of_lt h (h.lt_trans _ _ _ (hl x h1) (lt_of_gt h hc))
        · rw [List.mem_singleton] at h1; rw [h1]; exact hc
      have e : toList l ++ (k', v') :: toList r = (toList l ++ [(k', v')]) ++ toList r := by simp
      rw [e, lookup_append_gt k _ _ hall]
    | eq =>
      simp only [toList]
      have hk : k = k' := (h.eq_iff _ _).mp hc
      subst hk
      have hall : ∀ x ∈ toList l, cmp k x.1 = .gt := fun x hx => gt_of_lt h (hl x hx)
      rw [lookup_append_gt k _ _ hall]
      simp [lookup, hc]

end Ord

end BV.C05.Lemmas
