/-
C05 Model, part (f): the commit-sequence model of durability. core-only.

Micro-steps in the order the Go code issues them (`writePendingAndCommit`, `commitTx`, `flush`):
a commit first appends its block data to the block files (volatile until synced), then either joins
the cache (volatile) or, when the cache is over its limit, is preceded by a flush and written to
leveldb directly; a flush syncs the block file and only then writes the cache to leveldb in one
leveldb transaction. A crash can hit between any two micro-steps and loses everything volatile.
Assumption made explicit by this model: a leveldb transaction commit is atomic and durable.
-/
import BV.C05.Spec
namespace BV.C05

/-- micro-steps; `C` is the type of a transaction's effect on the metadata -/
inductive Micro (C : Type) where
  | writeBlocks          -- block data of the next commit written (not synced)
  | cacheCommit (c : C)  -- `commitTx`, no-flush path: the commit is visible, volatile
  | syncBlocks           -- `syncBlocks`
  | flushMeta            -- the cached commits reach leveldb (one leveldb transaction)
  | directCommit (c : C) -- `commitTx`, flush path: written to leveldb directly

structure DState (S C : Type) where
  disk : S                -- leveldb contents
  cache : List C          -- committed, not yet flushed (oldest first)
  nDisk : Nat             -- commits contained in `disk`
  nWritten : Nat          -- commits whose block data has been written
  nSynced : Nat           -- commits whose block data is known to be on stable storage
  history : List C        -- all commits that became visible, oldest first

variable {S C : Type}

def microStep (apply : S → C → S) (d : DState S C) : Micro C → DState S C
  | .writeBlocks => { d with nWritten := d.nWritten + 1 }
  | .cacheCommit c => { d with cache := d.cache ++ [c], history := d.history ++ [c] }
  | .syncBlocks => { d with nSynced := d.nWritten }
  | .flushMeta => { d with disk := d.cache.foldl apply d.disk, cache := [], nDisk := d.nDisk + d.cache.length }
  | .directCommit c => { d with disk := apply d.disk c, nDisk := d.nDisk + 1, history := d.history ++ [c] }

/-- one transaction commit as the code performs it -/
def commitSteps (c : C) (needsFlush : Bool) : List (Micro C) :=
  if needsFlush then [.writeBlocks, .syncBlocks, .flushMeta, .directCommit c]
  else [.writeBlocks, .cacheCommit c]

/-- an explicit flush (`flush`, also run by `Close`) -/
def flushSteps : List (Micro C) := [.syncBlocks, .flushMeta]

/-- the events of a history: commits (with the flush decision taken by the cache) and flushes -/
inductive DEvent (C : Type) where
  | commit (c : C) (needsFlush : Bool)
  | flush

def microsOf : List (DEvent C) → List (Micro C)
  | [] => []
  | .commit c f :: r => commitSteps c f ++ microsOf r
  | .flush :: r => flushSteps ++ microsOf r

def init (s0 : S) : DState S C := ⟨s0, [], 0, 0, 0, []⟩

def stepsOf : DEvent C → List (Micro C)
  | .commit c f => commitSteps c f
  | .flush => flushSteps

def commitsOf : List (DEvent C) → List C
  | [] => []
  | .commit c _ :: r => c :: commitsOf r
  | .flush :: r => commitsOf r

def runMicros (apply : S → C → S) (d : DState S C) (ms : List (Micro C)) : DState S C :=
  ms.foldl (microStep apply) d

/-- `CrashAt d evs d'`: running the events `evs` from `d`, a crash can strike in state `d'`
(between any two micro-steps, or after the last one). -/
inductive CrashAt (apply : S → C → S) : DState S C → List (DEvent C) → DState S C → Prop
  | inEvent (d : DState S C) (ev : DEvent C) (r : List (DEvent C)) (k : Nat) :
      CrashAt apply d (ev :: r) (runMicros apply d ((stepsOf ev).take k))
  | later (d : DState S C) (ev : DEvent C) (r : List (DEvent C)) (d' : DState S C) :
      CrashAt apply (runMicros apply d (stepsOf ev)) r d' → CrashAt apply d (ev :: r) d'
  | atEnd (d : DState S C) : CrashAt apply d [] d

/-- what a reopen after a crash finds in leveldb -/
def crashImage (d : DState S C) : S := d.disk

/-- invariant between events -/
def BInv (apply : S → C → S) (s0 : S) (d : DState S C) : Prop :=
  d.disk = (d.history.take d.nDisk).foldl apply s0 ∧
  d.cache = d.history.drop d.nDisk ∧
  d.nDisk ≤ d.history.length ∧
  d.nDisk ≤ d.nSynced ∧ d.nSynced ≤ d.nWritten ∧ d.nWritten = d.history.length

end BV.C05
