/-
C05 Spec: the property stated directly (core-only).

* keys are byte strings ordered by `bytes.Compare` (`cmpB`);
* a store is a finite ordered map, written as a strictly sorted association list
  (`insertSorted`, `eraseKey`, `lookup`, successor / predecessor navigation for cursors);
* a transaction works on a private copy of the committed map, commit replaces the committed map
  by that copy, rollback drops it (`Spec.Db`);
* the block store is a map `hash ↦ bytes`, fetch returns exactly the stored bytes, a region is the
  sub-slice.
-/
namespace BV.C05

abbrev Key := List UInt8
abbrev Val := List UInt8

/-- `bytes.Compare`: lexicographic order on unsigned bytes, a proper prefix is smaller. -/
def cmpB : Key → Key → Ordering
  | [], [] => .eq
  | [], _ :: _ => .lt
  | _ :: _, [] => .gt
  | a :: as, b :: bs =>
    if a.toNat < b.toNat then .lt else if b.toNat < a.toNat then .gt else cmpB as bs

/-- The laws of a linear order presented by a three-way comparison. -/
structure OrdLaws {K : Type} (cmp : K → K → Ordering) : Prop where
  eq_iff : ∀ a b, cmp a b = .eq ↔ a = b
  lt_gt : ∀ a b, cmp a b = .lt ↔ cmp b a = .gt
  lt_trans : ∀ a b c, cmp a b = .lt → cmp b c = .lt → cmp a c = .lt

section Map
variable {K V : Type} (cmp : K → K → Ordering)

/-- strictly ascending keys -/
def SortedKeys (xs : List (K × V)) : Prop :=
  xs.Pairwise (fun a b => cmp a.1 b.1 = .lt)

/-- insert-or-replace into a sorted association list -/
def insertSorted (k : K) (v : V) : List (K × V) → List (K × V)
  | [] => [(k, v)]
  | (k', v') :: xs =>
    match cmp k k' with
    | .lt => (k, v) :: (k', v') :: xs
    | .eq => (k', v) :: xs
    | .gt => (k', v') :: insertSorted k v xs

/-- remove a key from a sorted association list -/
def eraseKey (k : K) : List (K × V) → List (K × V)
  | [] => []
  | (k', v') :: xs =>
    match cmp k k' with
    | .lt => (k', v') :: xs
    | .eq => xs
    | .gt => (k', v') :: eraseKey k xs

/-- lookup in a sorted association list -/
def lookup (k : K) : List (K × V) → Option V
  | [] => none
  | (k', v') :: xs =>
    match cmp k k' with
    | .lt => none
    | .eq => some v'
    | .gt => lookup k xs

/-- first entry with key ≥ k (`Seek`) -/
def firstGE (k : K) : List (K × V) → Option (K × V)
  | [] => none
  | x :: xs => if cmp k x.1 = .gt then firstGE k xs else some x

/-- first entry with key > k (`Next` from k) -/
def firstGT (k : K) : List (K × V) → Option (K × V)
  | [] => none
  | x :: xs => if cmp k x.1 = .lt then some x else firstGT k xs

/-- last entry with key < k (`Prev` from k) -/
def lastLT (k : K) : List (K × V) → Option (K × V)
  | [] => none
  | x :: xs => if cmp k x.1 = .gt then (match lastLT k xs with | some y => some y | none => some x) else none

/-- overlay of a layer of puts and removes over a base map: the state after applying them -/
def applyLayer (puts : List (K × V)) (removes : List K) (base : List (K × V)) : List (K × V) :=
  removes.foldl (fun m k => eraseKey cmp k m) (puts.foldl (fun m kv => insertSorted cmp kv.1 kv.2 m) base)

end Map

/-! ### Transactional store (Spec level) -/

/-- Spec of the metadata store: the committed map. A transaction is a private copy. -/
structure SpecTx where
  writable : Bool
  view : List (Key × Val)

/-- commit of a writable transaction replaces the committed state; everything else leaves it. -/
def specCommit (committed : List (Key × Val)) (tx : SpecTx) : List (Key × Val) :=
  if tx.writable then tx.view else committed

def specRollback (committed : List (Key × Val)) (_ : SpecTx) : List (Key × Val) := committed

/-! ### Block store (Spec level) -/

/-- region `[off, off+len)` of a block; `none` when out of range (uint32 wrap included) -/
def specRegion (b : List UInt8) (off len : Nat) : Option (List UInt8) :=
  if (off + len) % 2^32 < off ∨ (off + len) % 2^32 > b.length then none
  else some ((b.drop off).take len)

end BV.C05
