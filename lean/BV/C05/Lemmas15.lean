/-
C05 helper lemmas, part 15: what a cursor enumerates over the three layers (pending over cache over
leveldb) is, key by key, what `Get` returns in the same transaction.
-/
import BV.C05.Lemmas14
namespace BV.C05.Lemmas
open BV.C05

section
variable {K V : Type} {cmp : K → K → Ordering}

theorem lookup_merge (h : OrdLaws cmp) (k : K) (X Y : List (K × V))
    (hX : SortedKeys cmp X) (hY : SortedKeys cmp Y)
    (hd : ∀ x ∈ X, ∀ y ∈ Y, cmp x.1 y.1 ≠ .eq) :
    lookup cmp k (mergeSorted cmp X Y) =
      (match lookup cmp k Y with | some v => some v | none => lookup cmp k X) := by
  induction X generalizing Y with
  | nil => simp only [mergeSorted, lookup]; cases lookup cmp k Y <;> rfl
  | cons a as ih =>
    unfold SortedKeys at hX
    rw [List.pairwise_cons] at hX
    induction Y with
    | nil => rw [mergeSorted_nil_right]; simp [lookup]
    | cons b bs ihb =>
      unfold SortedKeys at hY
      rw [List.pairwise_cons] at hY
      rw [mergeSorted_cons_cons]
      obtain ⟨ak, av⟩ := a
      obtain ⟨bk, bv⟩ := b
      by_cases hc : cmp ak bk = .gt
      · simp only [hc, if_true]
        rw [lookup, ihb hY.2 (fun x hx y hy => hd x hx y (List.mem_cons_of_mem _ hy))]
        cases hkb : cmp k bk with
        | lt =>
          have hka : cmp k ak = .lt := h.lt_trans _ _ _ hkb (lt_of_gt h hc)
          simp [lookup, hkb, hka]
        | eq => simp [lookup, hkb]
        | gt => simp [lookup, hkb]
      · simp only [hc, if_false]
        have hab : cmp ak bk = .lt := by
          have hne := hd (ak, av) (List.mem_cons_self ..) (bk, bv) (List.mem_cons_self ..)
          cases hcc : cmp ak bk with
          | lt => rfl
          | eq => exact absurd hcc hne
          | gt => exact absurd hcc hc
        rw [lookup, ih ((bk, bv) :: bs) hX.2 (List.pairwise_cons.mpr hY)
          (fun x hx y hy => hd x (List.mem_cons_of_mem _ hx) y hy)]
        cases hka : cmp k ak with
        | lt =>
          have hkb : cmp k bk = .lt := h.lt_trans _ _ _ hka hab
          simp [lookup, hka, hkb]
        | eq =>
          have hkb : cmp k bk = .lt := by rw [(h.eq_iff _ _).mp hka]; exact hab
          simp [lookup, hka, hkb]
        | gt => simp [lookup, hka]

theorem lookup_filter (h : OrdLaws cmp) (k : K) (sh : K → Bool) (A : List (K × V))
    (hA : SortedKeys cmp A) :
    lookup cmp k (A.filter (fun x => !sh x.1)) = if sh k = true then none else lookup cmp k A := by
  induction A with
  | nil => simp [lookup]
  | cons x xs ih =>
    unfold SortedKeys at hA
    rw [List.pairwise_cons] at hA
    obtain ⟨xk, xv⟩ := x
    by_cases hx : sh xk = true
    · have hf : ((xk, xv) :: xs).filter (fun x => !sh x.1) = xs.filter (fun x => !sh x.1) := by
        simp [List.filter, hx]
      rw [hf, ih hA.2]
      by_cases hk : sh k = true
      · simp [hk]
      · simp only [hk, if_false, lookup]
        cases hc : cmp k xk with
        | lt =>
          have : ∀ y ∈ xs, cmp k y.1 = .lt := fun y hy => h.lt_trans _ _ _ hc (hA.1 y hy)
          simp [lookup_all_lt k xs this]
        | eq => rw [(h.eq_iff _ _).mp hc] at hk; exact absurd hx hk
        | gt => rfl
    · have hx' : sh xk = false := by simpa using hx
      have hf : ((xk, xv) :: xs).filter (fun x => !sh x.1) = (xk, xv) :: xs.filter (fun x => !sh x.1) := by
        simp [List.filter, hx']
      rw [hf]
      simp only [lookup]
      cases hc : cmp k xk with
      | lt => simp
      | eq =>
        have : sh k = false := by rw [(h.eq_iff _ _).mp hc]; exact hx'
        simp [this]
      | gt => simp only []; exact ih hA.2

end

/-- `skipPendingUpdates` of a layer: the key is pending for removal or for update -/
def shadowOf (keys rem : KV) (k : Key) : Bool :=
  (lookup cmpB k rem).isSome || (lookup cmpB k keys).isSome

/-- what the cursor of a layer enumerates over the view `below` -/
def layerView (keys rem : KV) (below : KV) : KV :=
  mergeSorted cmpB (below.filter (fun x => !shadowOf keys rem x.1)) keys

theorem lookup_isSome_of_mem (keys : KV) (hk : SortedKeys cmpB keys) (y : Key × Val) (hy : y ∈ keys) :
    (lookup cmpB y.1 keys).isSome = true := by
  induction keys with
  | nil => cases hy
  | cons z zs ih =>
    unfold SortedKeys at hk
    rw [List.pairwise_cons] at hk
    obtain ⟨zk, zv⟩ := z
    simp only [lookup]
    rcases List.mem_cons.mp hy with h3 | h3
    · subst h3; simp [cmp_refl cmpB_laws]
    · have := gt_of_lt cmpB_laws (hk.1 y h3)
      simp only [this]
      exact ih hk.2 h3

theorem layerView_sorted (keys rem below : KV) (hk : SortedKeys cmpB keys)
    (hb : SortedKeys cmpB below) : SortedKeys cmpB (layerView keys rem below) := by
  unfold layerView
  apply mergeSorted_sorted cmpB_laws _ _ (List.Pairwise.sublist List.filter_sublist hb) hk
  intro x hx y hy hc
  have hxy : x.1 = y.1 := (cmpB_eq_iff _ _).mp hc
  have h1 : shadowOf keys rem x.1 = false := by simpa using (List.mem_filter.mp hx).2
  have h2 : (lookup cmpB y.1 keys).isSome = true := lookup_isSome_of_mem keys hk y hy
  unfold shadowOf at h1
  rw [hxy, h2] at h1
  simp at h1

theorem lookup_layerView (k : Key) (keys rem below : KV) (hk : SortedKeys cmpB keys)
    (hb : SortedKeys cmpB below)
    (hdis : ∀ k, (lookup cmpB k rem).isSome = true → lookup cmpB k keys = none) :
    lookup cmpB k (layerView keys rem below) =
      if (lookup cmpB k rem).isSome then none else
      match lookup cmpB k keys with
      | some v => some v
      | none => lookup cmpB k below := by
  have hsorted := layerView_sorted keys rem below hk hb
  unfold layerView at hsorted ⊢
  rw [lookup_merge cmpB_laws k _ _ (List.Pairwise.sublist List.filter_sublist hb) hk,
    lookup_filter cmpB_laws k _ below hb]
  · unfold shadowOf
    cases hr : lookup cmpB k rem with
    | some r =>
      have := hdis k (by rw [hr]; rfl)
      simp [this]
    | none =>
      cases hkk : lookup cmpB k keys <;> simp
  · intro x hx y hy hc
    have hxy : x.1 = y.1 := (cmpB_eq_iff _ _).mp hc
    have h1 : shadowOf keys rem x.1 = false := by simpa using (List.mem_filter.mp hx).2
    have h2 : (lookup cmpB y.1 keys).isSome = true := lookup_isSome_of_mem keys hk y hy
    unfold shadowOf at h1
    rw [hxy, h2] at h1
    simp at h1

end BV.C05.Lemmas
