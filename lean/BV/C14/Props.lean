/- C14 property theorems (being filled in). -/
import BV.C14.Model
import BV.Generated.C14
namespace BV.C14
open Spec

theorem pin_vbTopBits : Generated.C14.vbTopBits = (VB_TOP_BITS : Int) := by decide

end BV.C14
