/-
C14 property theorems: the deployment state reported by btcd's `thresholdState` (model) equals the
BIP9 / speedy-trial state machine evaluated at the window boundaries of the queried block's own
ancestor chain (Spec), for every header tree, deployment definition, query point and query order.
Only statements + non-vacuity examples + pins live here; helper lemmas are in Lemmas.lean.

Hypothesis used throughout (`Wf net n`): the confirmation window is at least 2 and the median time
past never decreases along the queried block's chain (implied by the timestamp rule every accepted
header obeys, see `timeRule_implies_mtpMono`).
-/
import BV.C14.Lemmas
import BV.C14.WarnLemmas
import BV.C14.MtpMono
import BV.C14.Char
import BV.C14.Bits
import BV.C14.Ident
import BV.C14.Shipped
import BV.Generated.C14
namespace BV.C14
open Spec Model Lemmas

/-! ### cache soundness and state = Spec -/

/-- CacheOk (every cached entry is the BIP9 state of its node) is preserved by every query,
    whatever node of whatever branch is asked. -/
theorem cache_sound (net : Net) (d : Dep) (c : Cache) (n : Node)
    (hwf : Wf net n) (hc : CacheOk net d c) : CacheOk net d (thresholdState net d c n).1 := by
  obtain ⟨c', h, hc'⟩ := thresholdState_ok net d c n hwf.1 hwf.2 hc
  rw [h]; exact hc'

/-- with a sound cache, `thresholdState` answers exactly the Spec state (never panics). -/
theorem state_eq_spec (net : Net) (d : Dep) (c : Cache) (n : Node)
    (hwf : Wf net n) (hc : CacheOk net d c) :
    (thresholdState net d c n).2 = some (state net d n) := by
  obtain ⟨c', h, _⟩ := thresholdState_ok net d c n hwf.1 hwf.2 hc
  rw [h]

/-- Every history of queries (deployment states and next-block versions, on any nodes of any
    branches, in any order) on a fresh chain instance is answered exactly as the Spec answers. -/
theorem history_eq_spec (net : Net) (deps : List Dep) (qs : List Query)
    (hq : ∀ q ∈ qs, Wf net q.node) :
    (runQueries net (fresh deps) qs).2 = qs.map (answer net deps) := by
  have := (runQueries_ok net qs (fresh deps) hq (allOk_fresh net deps)).1
  simpa [fresh, Function.comp_def] using this

/-- …and every cache of the instance still satisfies the invariant afterwards. -/
theorem cache_sound_history (net : Net) (deps : List Dep) (qs : List Query)
    (hq : ∀ q ∈ qs, Wf net q.node) : AllOk net (runQueries net (fresh deps) qs).1 :=
  (runQueries_ok net qs (fresh deps) hq (allOk_fresh net deps)).2.1

/-- The answer to a query does not depend on which other blocks or forks were queried earlier. -/
theorem query_order_independent (net : Net) (deps : List Dep) (qs₁ qs₂ : List Query) (q : Query)
    (h₁ : ∀ x ∈ qs₁, Wf net x.node) (h₂ : ∀ x ∈ qs₂, Wf net x.node) (hq : Wf net q.node) :
    (runQuery net (runQueries net (fresh deps) qs₁).1 q).2 =
      (runQuery net (runQueries net (fresh deps) qs₂).1 q).2 := by
  have a₁ := runQueries_ok net qs₁ (fresh deps) h₁ (allOk_fresh net deps)
  have a₂ := runQueries_ok net qs₂ (fresh deps) h₂ (allOk_fresh net deps)
  rw [(runQuery_ok net _ q hq a₁.2.1).1, (runQuery_ok net _ q hq a₂.2.1).1, a₁.2.2, a₂.2.2]

example : Wf ⟨2, 2⟩ [⟨2, 0x20000001, 1002⟩, ⟨1, 0x20000001, 1001⟩, ⟨0, 0x20000000, 1000⟩] :=
  ⟨by decide, by decide⟩

/-- the timestamp rule (`time > MTP(parent)`, enforced on every accepted header) implies the
    monotonicity hypothesis. -/
theorem timeRule_implies_mtpMono (n : Node) (h : timeRule n = true) : mtpMono n = true :=
  MtpMono.timeRule_mtpMono n h

/-- the clock the starters/enders consult (`BlockChain.PastMedianTime`, op `m@n`) is the upper
    median of the last ≤ 11 timestamps: at most ⌊k/2⌋ of them are smaller, at most ⌊(k-1)/2⌋ larger. -/
theorem mtp_is_median (n : Node) (hne : n ≠ []) :
    let ts := (n.take MEDIAN_TIME_SPAN).map (·.time)
    (ts.filter (· < mtp n)).length ≤ ts.length / 2 ∧
      (ts.filter (· > mtp n)).length ≤ (ts.length - 1) / 2 := by
  intro ts
  have hlen : 0 < ts.length := by
    cases n with
    | nil => exact absurd rfl hne
    | cons a b => simp [ts, MEDIAN_TIME_SPAN]
  exact MtpMono.med_is_median ts hlen

/-! ### both hypotheses are needed (the excluded points, recorded against the real code in
    corpus/C14/excluded.txt where the driver answers with the Model) -/

/-- window = 1 makes the parentless genesis block a window boundary; btcd's clock cannot compute its
    median time (the parent lookup fails, the error is dropped), so the start is seen one window late. -/
theorem window_one_is_excluded :
    ∃ (net : Net) (d : Dep) (n : Node), net.window = 1 ∧ mtpMono n = true ∧
      (thresholdState net d [] n).2 = some .defined ∧ state net d n = .started :=
  ⟨⟨1, 1⟩, ⟨0, some 1000, none, 0, 0, 0⟩, [⟨0, 0x20000000, 2000⟩], by decide⟩

/-- on a chain whose median time goes backwards (impossible for headers that passed the timestamp
    rule) the "not started yet" shortcut skips windows in which the deployment had started. -/
theorem mtp_monotone_is_needed :
    ∃ (net : Net) (d : Dep) (n : Node), 2 ≤ net.window ∧ mtpMono n = false ∧
      (thresholdState net d [] n).2 = some .defined ∧ state net d n = .started :=
  ⟨⟨2, 2⟩, ⟨0, some 100, none, 0, 0, 0⟩,
   [⟨5, 0x20000000, 10⟩, ⟨4, 0x20000000, 10⟩, ⟨3, 0x20000000, 10⟩, ⟨2, 0x20000000, 10⟩,
    ⟨1, 0x20000000, 200⟩, ⟨0, 0x20000000, 200⟩], by decide⟩

/-! ### the state machine -/

def allowedEdge : St → St → Bool
  | .defined, .defined | .defined, .started | .defined, .failed
  | .started, .started | .started, .lockedIn | .started, .failed
  | .lockedIn, .lockedIn | .lockedIn, .active
  | .active, .active | .failed, .failed => true
  | _, _ => false

/-- one window step only ever follows an edge of the BIP9 diagram. -/
theorem step_follows_bip9_edges (net : Net) (d : Dep) (st : St) (b : Node) :
    allowedEdge st (step net d st b) = true := by
  cases st <;> simp only [step]
  · by_cases h1 : (!speedy d && ended d b) = true <;> by_cases h2 : started d b = true <;>
      simp [h1, h2, allowedEdge]
  · by_cases h1 : (!speedy d && ended d b) = true <;> by_cases h2 : (speedy d && ended d b) = true <;>
      by_cases h3 : threshold net d ≤ votes net d b <;> simp [h1, h2, h3, allowedEdge]
  · by_cases h1 : eligible d b = true <;> simp [h1, allowedEdge]
  · rfl
  · rfl

/-- Started + enough votes in the window that just ended (and, for a legacy deployment, no timeout
    yet) ⇒ LockedIn; for speedy-trial deployments the timeout does not matter here. -/
theorem lockin_on_threshold (net : Net) (d : Dep) (b : Node)
    (hv : threshold net d ≤ votes net d b) (ht : speedy d = true ∨ ended d b = false) :
    step net d .started b = .lockedIn := by
  have h1 : (!speedy d && ended d b) = false := by
    rcases ht with h | h <;> simp [h]
  simp [step, h1, hv]

/-- a legacy deployment that has not locked in fails at the first boundary whose median time
    reached the timeout — before the start test (Defined) and before the vote count (Started). -/
theorem legacy_fails_on_timeout (net : Net) (d : Dep) (b : Node) (st : St)
    (hl : speedy d = false) (he : ended d b = true) (hs : st = .defined ∨ st = .started) :
    step net d st b = .failed := by
  rcases hs with rfl | rfl <;> simp [step, hl, he]

/-- speedy trial: Defined never fails; Started fails exactly when the timeout is reached in a window
    that missed the threshold. -/
theorem speedy_failure (net : Net) (d : Dep) (b : Node) (hsp : speedy d = true) :
    step net d .defined b ≠ .failed ∧
    (step net d .started b = .failed ↔ (ended d b = true ∧ votes net d b < threshold net d)) := by
  constructor
  · simp only [step, hsp, Bool.not_true, Bool.false_and, Bool.false_eq_true, if_false]
    by_cases h : started d b = true <;> simp [h]
  · simp only [step, hsp, Bool.not_true, Bool.false_and, Bool.false_eq_true, if_false, Bool.true_and]
    by_cases hv : threshold net d ≤ votes net d b
    · simp [hv]
    · by_cases he : ended d b = true
      · simp [hv, he]; omega
      · simp [hv, he]

/-- without a minimum activation height LockedIn lasts exactly one window. -/
theorem lockedIn_lasts_one_window (net : Net) (d : Dep) (b : Node) (h0 : d.minHeight = 0) :
    step net d .lockedIn b = .active := by
  simp [step, eligible, h0]

/-- The Spec never looks at a block's identity (hash, nonce, merkle root): relabelling the blocks of
    a chain changes no state and no proposed version. -/
theorem state_ignores_block_identity (net : Net) (d : Dep) (f : Hdr → Nat) (n : Node) :
    state net d (Ident.relabel f n) = state net d n := Ident.state_relabel net d f n

/-- Active is never left: on every descendant (any branch growing from `n`) the state is Active. -/
theorem active_terminal (net : Net) (d : Dep) (p n : Node) (h : state net d n = .active) :
    state net d (p ++ n) = .active := by
  unfold state at *
  by_cases hf : forced d n = true
  · simp [forced_descendant d p n hf]
  · by_cases hf' : forced d (p ++ n) = true
    · simp [hf']
    · simp only [hf, hf', if_false, Bool.false_eq_true] at *
      obtain ⟨j, hj, hk⟩ := bip9_descendant net d p n
      rw [hj]; exact winState_active_stable net d _ _ (by rw [hk]; exact h) j

/-- Failed is never left below the always-active height. PARTIAL with respect to the clause "Failed
    is never left": `AlwaysActiveHeight` (btcd's testnet override, part of the deployment
    definition) by design reports Active from that height on whatever the BIP9 state was, so the
    unrestricted clause is false (`failed_terminal_full_fails`); what is missing is exactly the
    blocks at/after a configured always-active height. -/
theorem failed_terminal_partial (net : Net) (d : Dep) (p n : Node) (h : state net d n = .failed)
    (hnf : forced d (p ++ n) = false) : state net d (p ++ n) = .failed := by
  unfold state at *
  by_cases hf : forced d n = true
  · simp [hf] at h
  · simp only [hf, hnf, if_false, Bool.false_eq_true] at *
    obtain ⟨j, hj, hk⟩ := bip9_descendant net d p n
    rw [hj]; exact winState_failed_stable net d _ _ (by rw [hk]; exact h) j

/-- without an always-active height (and below 2^32-1 blocks) nothing is ever forced, so for such
    deployments Failed is terminal outright. -/
theorem not_forced (d : Dep) (n : Node) (h0 : d.alwaysActive = 0) (hl : n.length < 4294967295) :
    forced d n = false := by
  simp [forced, effAlwaysActive, h0]; omega

theorem failed_terminal_no_override (net : Net) (d : Dep) (p n : Node) (h0 : d.alwaysActive = 0)
    (hl : (p ++ n).length < 4294967295) (h : state net d n = .failed) :
    state net d (p ++ n) = .failed :=
  failed_terminal_partial net d p n h (not_forced d _ h0 hl)

/-- the override exists: a deployment that FAILED on a chain is reported Active from the
    always-active height on. -/
theorem failed_terminal_full_fails :
    ¬ ∀ (net : Net) (d : Dep) (p n : Node), state net d n = .failed → state net d (p ++ n) = .failed := by
  intro h
  have := h ⟨2, 2⟩ ⟨0, some 10, some 20, 0, 0, 5⟩ [⟨4, 0, 40⟩]
    [⟨3, 0, 30⟩, ⟨2, 0, 30⟩, ⟨1, 0, 30⟩, ⟨0, 0, 30⟩] (by decide)
  revert this; decide

/-- two branches forking off `n` agree on the state of every window that lies within `n`; only
    windows containing blocks after the fork point can differ. -/
theorem forks_agree_on_shared_windows (net : Net) (d : Dep) (p₁ p₂ n : Node) (k : Nat)
    (hk : k * net.window ≤ n.length) :
    winState net d (p₁ ++ n) k = winState net d (p₂ ++ n) k := by
  rw [winState_append net d p₁ n k hk, winState_append net d p₂ n k hk]

/-! ### what a reported state certifies about the chain's own history -/

/-- Started ⇒ some boundary block of this chain had median time ≥ start. -/
theorem started_certifies (net : Net) (d : Dep) (n : Node) (h : bip9State net d n = .started) :
    ∃ j, 1 ≤ j ∧ j ≤ n.length / net.window ∧ started d (Char.bnd net n j) = true :=
  Char.started_certifies net d n _ h

/-- Failed ⇒ some boundary block of this chain had median time ≥ timeout. -/
theorem failed_certifies (net : Net) (d : Dep) (n : Node) (h : bip9State net d n = .failed) :
    ∃ j, 1 ≤ j ∧ j ≤ n.length / net.window ∧ ended d (Char.bnd net n j) = true :=
  Char.failed_certifies net d n _ h

/-- LockedIn ⇒ a window of this chain that began Started holds at least `threshold` signalling
    blocks (top bits 001 and the deployment bit). -/
theorem lockedIn_certifies (net : Net) (d : Dep) (n : Node) (h : bip9State net d n = .lockedIn) :
    ∃ j, 1 ≤ j ∧ j ≤ n.length / net.window ∧ winState net d n (j - 1) = .started ∧
      threshold net d ≤ votes net d (Char.bnd net n j) :=
  Char.lockedIn_certifies net d n _ h

/-- Active (not forced) ⇒ an earlier window of this very chain reached the vote threshold, and a
    later boundary satisfied the minimum activation height. No branch can be reported Active on the
    strength of votes cast on another branch. -/
theorem active_certifies (net : Net) (d : Dep) (n : Node) (h : bip9State net d n = .active) :
    ∃ i j, 1 ≤ i ∧ i < j ∧ j ≤ n.length / net.window ∧
      threshold net d ≤ votes net d (Char.bnd net n i) ∧ eligible d (Char.bnd net n j) = true := by
  obtain ⟨j, h1, h2, h3, h4⟩ := Char.active_certifies net d n _ h
  obtain ⟨i, g1, g2, _, g4⟩ := Char.lockedIn_certifies net d n _ h3
  exact ⟨i, j, g1, by omega, h2, g4, h4⟩

/-- A warning ("unknown rules activated") is only ever raised for a bit that collected at least the
    network threshold of unknown-signalling blocks in one earlier window of this very chain. -/
theorem warning_active_certifies (net : Net) (deps : List Dep) (bit : Nat) (n : Node)
    (h : Warn.state net deps bit n = .active) :
    ∃ j, 1 ≤ j ∧ j < n.length / net.window ∧
      net.threshold ≤ Warn.votes net deps bit net.window (Char.bnd net n j) :=
  Char.warn_active_certifies net deps bit n _ h

/-! ### next block version -/

/-- `calcNextBlockVersion` (through the caches) computes the Spec's version. -/
theorem nextVersion_eq_spec (net : Net) (cs : ChainSt) (n : Node) (hwf : Wf net n)
    (h : AllOk net cs) :
    (calcNextBlockVersion net cs n VB_TOP_BITS).2 = some (nextVersion net (cs.map (·.1)) n) :=
  (calcNext_ok net n hwf cs VB_TOP_BITS h).1

/-- The proposed version sets exactly: bit 29 (of the 001 top-bits pattern) and the bit of every
    deployment whose state is Started or LockedIn (bit numbers ≥ 32 shift out and set nothing). -/
theorem nextVersion_bits (net : Net) (deps : List Dep) (n : Node) (i : Nat) :
    (nextVersion net deps n).testBit i =
      (decide (i = 29) ||
       deps.any (fun d => (state net d n == .started || state net d n == .lockedIn) &&
                          (decide (d.bit < 32) && decide (d.bit = i)))) := by
  rw [nextVersion_foldl, testBit_foldl]
  have : VB_TOP_BITS = 2 ^ 29 := by decide
  rw [this, Nat.testBit_two_pow]
  congr 1
  · simp [eq_comm]
  · congr 1; funext d; rw [testBit_mask]; rfl

/-- A header counts as a vote for `d` exactly when bits 31..29 of its version are 001, the
    deployment's bit number is a real uint32 bit (< 32) and that bit is set. -/
theorem signals_bits (d : Dep) (h : Hdr) :
    signals d h = (h.version.testBit 29 && !h.version.testBit 30 && !h.version.testBit 31 &&
      (decide (d.bit < 32) && h.version.testBit d.bit)) := Bits.signals_bits d h

/-- The unknown-rules checker never counts a bit that the known deployments expect: a block that
    "signals an unknown rule" on `bit` has no deployment on that bit in state Started/LockedIn for
    it, and `bit` is not the top-bits bit 29. -/
theorem expected_bit_never_unknown (net : Net) (deps : List Dep) (bit : Nat) (h : Hdr) (par : Node)
    (hs : Warn.signals net deps bit (h :: par) = true) :
    bit < 32 ∧ bit ≠ 29 ∧
      ∀ d ∈ deps, d.bit = bit → signalling (state net d par) = false := by
  simp only [Warn.signals, Bool.and_eq_true] at hs
  obtain ⟨⟨_, hset⟩, hexp⟩ := hs
  rw [Bits.and_mask_ne_zero] at hset
  rw [Bits.and_mask_eq_zero] at hexp
  simp only [Bool.and_eq_true, decide_eq_true_eq] at hset
  have hb := hset.1
  simp only [hb, decide_true, Bool.true_and, Bool.not_eq_true'] at hexp
  rw [nextVersion_bits] at hexp
  simp only [Bool.or_eq_false_iff, decide_eq_false_iff_not, List.any_eq_false] at hexp
  refine ⟨hb, hexp.1, ?_⟩
  intro d hd hdb
  have := hexp.2 d hd
  simp only [hdb, hb, decide_true, Bool.and_true] at this
  unfold signalling
  simpa using this

/-! ### activation starts with the first block of a window -/

/-- All blocks of one confirmation window on one branch get the same BIP9 state: `n.drop t` for
    `t ≤ n.length % W` are exactly the predecessors of the blocks of `n`'s successor's window,
    down to the last block of the previous window (whose successor is the window's first block).
    So a rule gated on `state = Active` (validate.go consults `deploymentState(parent)`) switches
    on exactly at the first block of the window, never in the middle. -/
theorem active_from_first_block_of_window (net : Net) (d : Dep) (n : Node) (t : Nat)
    (hW : 0 < net.window) (ht : t ≤ n.length % net.window) :
    bip9State net d (n.drop t) = bip9State net d n := same_window net d n t hW ht

/-- …and the first block of that window is where it changes: its state is one `step` from the
    state of the blocks of the previous window. -/
theorem window_state_is_one_step (net : Net) (d : Dep) (b : Node) (hW : 0 < net.window)
    (hb : Boundary net.window b) :
    bip9State net d b = step net d (bip9State net d (b.drop net.window)) b :=
  bip9_step net d b hW hb

/-- min activation height: LockedIn turns Active exactly when the next block's height reached it. -/
theorem lockedIn_step (net : Net) (d : Dep) (b : Node) :
    step net d .lockedIn b = (if d.minHeight = 0 ∨ d.minHeight ≤ b.length then .active else .lockedIn) := by
  simp only [step, eligible]
  by_cases h0 : d.minHeight = 0 <;> by_cases h1 : d.minHeight ≤ b.length <;> simp [h0, h1]

/-! ### the unknown-rules warning path and the whole chain instance -/

/-- `thresholdState` with the unknown-rules bit checker (its `Condition` calls
    `calcNextBlockVersion(parent)` through the deployment caches) answers the warning Spec and keeps
    its own cache and the deployment caches sound. -/
theorem warning_state_eq_spec (net : Net) (deps : List Dep) (bit : Nat) (c : Cache) (cs : ChainSt)
    (n : Node) (hwf : Wf net n) (hc : WarnLemmas.CacheOkW net deps bit c)
    (hi : WarnLemmas.Inv net deps cs) :
    ∃ c' cs', Warn.thresholdState net bit c cs n = (c', cs', some (Warn.state net deps bit n)) ∧
      WarnLemmas.CacheOkW net deps bit c' ∧ WarnLemmas.Inv net deps cs' :=
  WarnLemmas.thresholdState_ok net deps bit c cs n hwf.1 hwf.2 hc hi

/-- Every history of queries on one fresh chain instance (all caches shared as in `BlockChain`):
    deployment states, next-block versions, warning states, `warnUnknownRuleActivations` and
    `initThresholdCaches` runs — is answered exactly as the Spec answers. The Spec's answers depend on
    the history only through the sticky `unknownRulesWarned` flag (`Warn.specRun`). -/
theorem instance_history_eq_spec (net : Net) (deps : List Dep) (qs : List Warn.Q)
    (hq : ∀ q ∈ qs, Wf net q.node) :
    (Warn.runQs net (Warn.freshInst deps) qs).2 = Warn.specRun net deps false qs :=
  (WarnLemmas.runQs_ok net deps qs _ hq (WarnLemmas.instOk_fresh net deps)).1

/-- queries whose answer is a state or a version (everything except the sticky warned flag). -/
def isStateQuery : Warn.Q → Bool
  | .dep _ => true
  | .warn _ _ => true
  | _ => false

/-- …hence no state or version answer depends on what was asked (or initialised, or warned about)
    before, warning states included. -/
theorem instance_query_order_independent (net : Net) (deps : List Dep) (qs₁ qs₂ : List Warn.Q)
    (q : Warn.Q) (h₁ : ∀ x ∈ qs₁, Wf net x.node) (h₂ : ∀ x ∈ qs₂, Wf net x.node) (hq : Wf net q.node)
    (hs : isStateQuery q = true) :
    (Warn.runQ net (Warn.runQs net (Warn.freshInst deps) qs₁).1 q).2 =
      (Warn.runQ net (Warn.runQs net (Warn.freshInst deps) qs₂).1 q).2 := by
  have a₁ := WarnLemmas.runQs_ok net deps qs₁ _ h₁ (WarnLemmas.instOk_fresh net deps)
  have a₂ := WarnLemmas.runQs_ok net deps qs₂ _ h₂ (WarnLemmas.instOk_fresh net deps)
  rw [(WarnLemmas.runQ_ok net deps _ q hq a₁.2).1, (WarnLemmas.runQ_ok net deps _ q hq a₂.2).1]
  cases q with
  | dep _ => rfl
  | warn _ _ => rfl
  | warnAll _ => simp [isStateQuery] at hs
  | init _ _ => simp [isStateQuery] at hs

/-- `warnUnknownRuleActivations(n)` sets `unknownRulesWarned` exactly when it was set before or some
    bit 0..28 is in the warning state Active for block `n` (LockedIn only logs). -/
theorem warn_flag_eq_spec (net : Net) (deps : List Dep) (i : Warn.Inst) (n : Node) (hwf : Wf net n)
    (h : WarnLemmas.InstOk net deps i) :
    (Warn.warnAll net i n).2 = .flag (i.warned || Warn.anyActive net deps n.tail) ∧
    WarnLemmas.InstOk net deps (Warn.warnAll net i n).1 :=
  ⟨(WarnLemmas.warnAll_ok net deps i n hwf h).1, (WarnLemmas.warnAll_ok net deps i n hwf h).2.2⟩

/-- `initThresholdCaches` with best tip `n` never fails, leaves every cache sound, and warns iff the
    chain is current and some unknown bit is Active for the tip. -/
theorem init_caches_eq_spec (net : Net) (deps : List Dep) (i : Warn.Inst) (n : Node) (cur : Bool)
    (hwf : Wf net n) (h : WarnLemmas.InstOk net deps i) :
    (Warn.initCaches net i n cur).2 =
      .flag (i.warned || (cur && Warn.anyActive net deps n.tail)) ∧
    WarnLemmas.InstOk net deps (Warn.initCaches net i n cur).1 := by
  have := WarnLemmas.initCaches_ok net deps i n cur hwf h
  refine ⟨?_, this.2.2⟩
  rw [this.1]
  cases cur <;> simp [Warn.specStep]

/-- The top-level statement with the rule btcd actually enforces on headers: on a network whose
    window is at least 2, every history of queries about blocks whose chains obey the timestamp rule
    is answered exactly as the Spec answers. -/
theorem instance_history_eq_spec_of_timeRule (net : Net) (deps : List Dep) (qs : List Warn.Q)
    (hW : 2 ≤ net.window) (hq : ∀ q ∈ qs, timeRule q.node = true) :
    (Warn.runQs net (Warn.freshInst deps) qs).2 = Warn.specRun net deps false qs :=
  instance_history_eq_spec net deps qs (fun q h => ⟨hW, timeRule_implies_mtpMono _ (hq q h)⟩)

example : timeRule [⟨2, 0x20000001, 1002⟩, ⟨1, 0x20000001, 1001⟩, ⟨0, 0x20000000, 1000⟩] = true := by decide

/-! ### pins: constants and shipped tables regenerated from /repo -/
open Generated.C14 in
theorem pin_consts :
    vbTopBits = (VB_TOP_BITS : Int) ∧ vbTopMask = (VB_TOP_MASK : Int) ∧ vbNumBits = (VB_NUM_BITS : Int) ∧
    medianTimeBlocks = (MEDIAN_TIME_SPAN : Int) := by
  decide

open Generated.C14 in
theorem pin_networks :
    [(main_window, main_threshold), (test3_window, test3_threshold), (test4_window, test4_threshold),
     (sig_window, sig_threshold), (reg_window, reg_threshold), (sim_window, sim_threshold)] =
    Shipped.all.map (fun nd => ((nd.1.window : Int), (nd.1.threshold : Int))) := by decide

open Generated.C14 in
theorem pin_deployments :
    [[main_testDummy, main_testDummyMinActivation, main_csv, main_segwit, main_taproot, main_testDummyAlwaysActive],
     [test3_testDummy, test3_testDummyMinActivation, test3_csv, test3_segwit, test3_taproot, test3_testDummyAlwaysActive],
     [test4_testDummy, test4_testDummyMinActivation, test4_csv, test4_segwit, test4_taproot, test4_testDummyAlwaysActive],
     [sig_testDummy, sig_testDummyMinActivation, sig_csv, sig_segwit, sig_taproot, sig_testDummyAlwaysActive],
     [reg_testDummy, reg_testDummyMinActivation, reg_csv, reg_segwit, reg_taproot, reg_testDummyAlwaysActive],
     [sim_testDummy, sim_testDummyMinActivation, sim_csv, sim_segwit, sim_taproot, sim_testDummyAlwaysActive]] =
    Shipped.all.map (fun nd => nd.2.map Shipped.encode) := by decide

/-- every shipped network satisfies the window hypothesis of the theorems. -/
theorem shipped_window_ok : ∀ nd ∈ Shipped.all, 2 ≤ nd.1.window := by decide

/-- every shipped deployment has start ≤ timeout, except mainnet's DeploymentTestDummy whose start
    time carries a stray digit (11991456010 instead of Core's 1199145601): that deployment is
    FAILED from its first window boundary past 2008-12-31 on (reported DEFINED before the fix). -/
theorem shipped_start_before_timeout :
    ∀ nd ∈ Shipped.all, ∀ d ∈ nd.2, Shipped.startBeforeTimeout d = true ∨
      (nd.1 = Shipped.mainNet ∧ d = Shipped.timed 28 11991456010 1230767999 0 0) := by decide

end BV.C14
