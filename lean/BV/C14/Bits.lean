/- C14: the bit-mask tests of versionbits.go in terms of single bits. -/
import BV.C14.Spec
namespace BV.C14.Bits
open Spec

theorem and_two_pow_eq_zero (x i : Nat) : (x &&& 2 ^ i = 0) ↔ x.testBit i = false := by
  constructor
  · intro h
    have := congrArg (fun y => Nat.testBit y i) h
    simpa [Nat.testBit_and, Nat.testBit_two_pow] using this
  · intro h
    apply Nat.eq_of_testBit_eq
    intro j
    rw [Nat.testBit_and, Nat.testBit_two_pow, Nat.zero_testBit]
    by_cases hj : i = j
    · subst hj; simp [h]
    · simp [hj]

/-- `version & (1 << bit) != 0` for a Go uint32 shift. -/
theorem and_mask_ne_zero (x bit : Nat) :
    (x &&& mask bit != 0) = (decide (bit < 32) && x.testBit bit) := by
  unfold mask
  by_cases hb : bit < 32
  · simp only [hb, if_true, decide_true, Bool.true_and]
    cases ht : x.testBit bit
    · have := (and_two_pow_eq_zero x bit).2 ht
      simp [this]
    · have : ¬ (x &&& 2 ^ bit = 0) := fun h => by
        have := (and_two_pow_eq_zero x bit).1 h; rw [ht] at this; cases this
      simp [this]
  · simp [hb]

theorem and_mask_eq_zero (x bit : Nat) :
    (x &&& mask bit == 0) = !(decide (bit < 32) && x.testBit bit) := by
  have := and_mask_ne_zero x bit
  rw [← this]
  cases h : (x &&& mask bit == 0) <;> simp [bne, h]

theorem topMask_eq : VB_TOP_MASK = 2 ^ 29 ||| 2 ^ 30 ||| 2 ^ 31 := by decide
theorem topBits_eq : VB_TOP_BITS = 2 ^ 29 := by decide

/-- `version & vbTopMask == vbTopBits` ⇔ bits 31..29 are 001. -/
theorem top_bits_test (v : Nat) :
    (v &&& VB_TOP_MASK == VB_TOP_BITS) = (v.testBit 29 && !v.testBit 30 && !v.testBit 31) := by
  have hb : ∀ j, (v &&& VB_TOP_MASK).testBit j =
      (v.testBit j && (decide (29 = j) || decide (30 = j) || decide (31 = j))) := by
    intro j
    rw [Nat.testBit_and, topMask_eq, Nat.testBit_or, Nat.testBit_or, Nat.testBit_two_pow,
      Nat.testBit_two_pow, Nat.testBit_two_pow]
  by_cases h : v &&& VB_TOP_MASK = VB_TOP_BITS
  · have h29 := hb 29
    have h30 := hb 30
    have h31 := hb 31
    rw [h, topBits_eq, Nat.testBit_two_pow] at h29 h30 h31
    simp at h29 h30 h31
    simp [h, h29, h30, h31]
  · have : (v &&& VB_TOP_MASK == VB_TOP_BITS) = false := by simpa using h
    rw [this]
    apply Eq.symm
    apply Bool.eq_false_iff.2
    intro hc
    apply h
    simp only [Bool.and_eq_true, Bool.not_eq_true'] at hc
    apply Nat.eq_of_testBit_eq
    intro j
    rw [hb j, topBits_eq, Nat.testBit_two_pow]
    by_cases h29 : 29 = j
    · subst h29; simp [hc.1.1]
    · by_cases h30 : 30 = j
      · subst h30; simp [hc.1.2]
      · by_cases h31 : 31 = j
        · subst h31; simp [hc.2]
        · simp [h29, h30, h31]

/-- a header signals for `d` ⇔ top bits 001, the bit number is a real uint32 bit and that bit is set. -/
theorem signals_bits (d : Dep) (h : Hdr) :
    signals d h = (h.version.testBit 29 && !h.version.testBit 30 && !h.version.testBit 31 &&
      (decide (d.bit < 32) && h.version.testBit d.bit)) := by
  unfold signals
  rw [top_bits_test, and_mask_ne_zero]

end BV.C14.Bits
