/- C14: what each BIP9 state certifies about the chain's own history (Spec-level). -/
import BV.C14.Spec
import BV.C14.Warn
namespace BV.C14.Char
open Spec

/-- the boundary block that closes window `j-1` on `n`'s chain. -/
abbrev bnd (net : Net) (n : Node) (j : Nat) : Node := anc n (j * net.window)

theorem step_started_inv (net : Net) (d : Dep) (st : St) (b : Node) (h : step net d st b = .started) :
    (st = .defined ∧ started d b = true) ∨ st = .started := by
  cases st <;> simp only [step] at h
  · left; refine ⟨rfl, ?_⟩
    by_cases h1 : (!speedy d && ended d b) = true <;> by_cases h2 : started d b = true <;>
      simp [h1, h2] at h ⊢
  · right; rfl
  · by_cases h1 : eligible d b = true <;> simp [h1] at h
  · cases h
  · cases h

theorem step_lockedIn_inv (net : Net) (d : Dep) (st : St) (b : Node) (h : step net d st b = .lockedIn) :
    (st = .started ∧ threshold net d ≤ votes net d b) ∨ st = .lockedIn := by
  cases st <;> simp only [step] at h
  · by_cases h1 : (!speedy d && ended d b) = true <;> by_cases h2 : started d b = true <;>
      simp [h1, h2] at h
  · left; refine ⟨rfl, ?_⟩
    by_cases h1 : (!speedy d && ended d b) = true <;> by_cases h2 : (speedy d && ended d b) = true <;>
      by_cases h3 : threshold net d ≤ votes net d b <;> simp [h1, h2, h3] at h ⊢
  · right; rfl
  · cases h
  · cases h

theorem step_active_inv (net : Net) (d : Dep) (st : St) (b : Node) (h : step net d st b = .active) :
    (st = .lockedIn ∧ eligible d b = true) ∨ st = .active := by
  cases st <;> simp only [step] at h
  · by_cases h1 : (!speedy d && ended d b) = true <;> by_cases h2 : started d b = true <;>
      simp [h1, h2] at h
  · by_cases h1 : (!speedy d && ended d b) = true <;> by_cases h2 : (speedy d && ended d b) = true <;>
      by_cases h3 : threshold net d ≤ votes net d b <;> simp [h1, h2, h3] at h
  · left; refine ⟨rfl, ?_⟩
    by_cases h1 : eligible d b = true <;> simp [h1] at h ⊢
  · right; rfl
  · cases h

theorem step_failed_inv (net : Net) (d : Dep) (st : St) (b : Node) (h : step net d st b = .failed) :
    ((st = .defined ∨ st = .started) ∧ ended d b = true) ∨ st = .failed := by
  cases st <;> simp only [step] at h
  · left; refine ⟨Or.inl rfl, ?_⟩
    by_cases h1 : (!speedy d && ended d b) = true
    · simp only [Bool.and_eq_true] at h1; exact h1.2
    · by_cases h2 : started d b = true <;> simp [h1, h2] at h
  · left; refine ⟨Or.inr rfl, ?_⟩
    by_cases h1 : (!speedy d && ended d b) = true
    · simp only [Bool.and_eq_true] at h1; exact h1.2
    · by_cases h2 : (speedy d && ended d b) = true
      · simp only [Bool.and_eq_true] at h2; exact h2.2
      · by_cases h3 : threshold net d ≤ votes net d b <;> simp [h1, h2, h3] at h
  · by_cases h1 : eligible d b = true <;> simp [h1] at h
  · cases h
  · right; rfl

/-- STARTED certifies: some earlier boundary block of this chain had median time ≥ start. -/
theorem started_certifies (net : Net) (d : Dep) (n : Node) :
    ∀ k, winState net d n k = .started → ∃ j, 1 ≤ j ∧ j ≤ k ∧ started d (bnd net n j) = true
  | 0, h => by simp [winState] at h
  | k + 1, h => by
    simp only [winState] at h
    rcases step_started_inv net d _ _ h with ⟨_, hs⟩ | hp
    · exact ⟨k + 1, by omega, by omega, hs⟩
    · obtain ⟨j, h1, h2, h3⟩ := started_certifies net d n k hp
      exact ⟨j, h1, by omega, h3⟩

/-- LOCKED_IN certifies: some window of this chain, STARTED at its beginning, collected at least
    `threshold` signalling blocks. -/
theorem lockedIn_certifies (net : Net) (d : Dep) (n : Node) :
    ∀ k, winState net d n k = .lockedIn →
      ∃ j, 1 ≤ j ∧ j ≤ k ∧ winState net d n (j - 1) = .started ∧
        threshold net d ≤ votes net d (bnd net n j)
  | 0, h => by simp [winState] at h
  | k + 1, h => by
    simp only [winState] at h
    rcases step_lockedIn_inv net d _ _ h with ⟨hp, hv⟩ | hp
    · exact ⟨k + 1, by omega, by omega, by simpa using hp, hv⟩
    · obtain ⟨j, h1, h2, h3⟩ := lockedIn_certifies net d n k hp
      exact ⟨j, h1, by omega, h3⟩

/-- ACTIVE certifies: an earlier window was LOCKED_IN and a later boundary was eligible
    (min activation height reached). -/
theorem active_certifies (net : Net) (d : Dep) (n : Node) :
    ∀ k, winState net d n k = .active →
      ∃ j, 1 ≤ j ∧ j ≤ k ∧ winState net d n (j - 1) = .lockedIn ∧ eligible d (bnd net n j) = true
  | 0, h => by simp [winState] at h
  | k + 1, h => by
    simp only [winState] at h
    rcases step_active_inv net d _ _ h with ⟨hp, hv⟩ | hp
    · exact ⟨k + 1, by omega, by omega, by simpa using hp, hv⟩
    · obtain ⟨j, h1, h2, h3⟩ := active_certifies net d n k hp
      exact ⟨j, h1, by omega, h3⟩

/-- FAILED certifies: some boundary block of this chain had median time ≥ timeout. -/
theorem failed_certifies (net : Net) (d : Dep) (n : Node) :
    ∀ k, winState net d n k = .failed → ∃ j, 1 ≤ j ∧ j ≤ k ∧ ended d (bnd net n j) = true
  | 0, h => by simp [winState] at h
  | k + 1, h => by
    simp only [winState] at h
    rcases step_failed_inv net d _ _ h with ⟨_, hs⟩ | hp
    · exact ⟨k + 1, by omega, by omega, hs⟩
    · obtain ⟨j, h1, h2, h3⟩ := failed_certifies net d n k hp
      exact ⟨j, h1, by omega, h3⟩

/-! the unknown-rules warning machine -/

theorem warn_lockedIn_certifies (net : Net) (deps : List Dep) (bit : Nat) (n : Node) :
    ∀ k, Warn.winState net deps bit n k = .lockedIn →
      ∃ j, 1 ≤ j ∧ j ≤ k ∧ net.threshold ≤ Warn.votes net deps bit net.window (bnd net n j)
  | 0, h => by simp [Warn.winState] at h
  | k + 1, h => by
    simp only [Warn.winState] at h
    cases hp : Warn.winState net deps bit n k <;> rw [hp] at h <;> simp only [Warn.step] at h
    · cases h
    · by_cases hv : net.threshold ≤ Warn.votes net deps bit net.window (anc n ((k + 1) * net.window))
      · exact ⟨k + 1, by omega, by omega, hv⟩
      · simp [hv] at h
    · obtain ⟨j, h1, h2, h3⟩ := warn_lockedIn_certifies net deps bit n k hp
      exact ⟨j, h1, by omega, h3⟩
    · cases h
    · cases h

theorem warn_active_certifies (net : Net) (deps : List Dep) (bit : Nat) (n : Node) :
    ∀ k, Warn.winState net deps bit n k = .active →
      ∃ j, 1 ≤ j ∧ j < k ∧ net.threshold ≤ Warn.votes net deps bit net.window (bnd net n j)
  | 0, h => by simp [Warn.winState] at h
  | k + 1, h => by
    simp only [Warn.winState] at h
    cases hp : Warn.winState net deps bit n k <;> rw [hp] at h <;> simp only [Warn.step] at h
    · cases h
    · by_cases hv : net.threshold ≤ Warn.votes net deps bit net.window (anc n ((k + 1) * net.window)) <;>
        simp [hv] at h
    · obtain ⟨j, h1, h2, h3⟩ := warn_lockedIn_certifies net deps bit n k hp
      exact ⟨j, h1, by omega, h3⟩
    · obtain ⟨j, h1, h2, h3⟩ := warn_active_certifies net deps bit n k hp
      exact ⟨j, h1, by omega, h3⟩
    · cases h

end BV.C14.Char
