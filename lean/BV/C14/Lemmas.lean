/- C14 helper lemmas. -/
import BV.C14.Model
namespace BV.C14.Lemmas
open Spec Model

/-! ### checker = spec predicates on nodes with a parent -/

theorem hasStarted_eq (d : Dep) (b : Node) (h : 2 ≤ b.length) : hasStarted d b = started d b := by
  match b, h with
  | x :: y :: r, _ =>
    unfold hasStarted started
    cases d.start <;> simp [ge_iff_le]

theorem hasEnded_eq (d : Dep) (b : Node) (h : 2 ≤ b.length) : hasEnded d b = ended d b := by
  match b, h with
  | x :: y :: r, _ =>
    unfold hasEnded ended
    cases d.timeout <;> simp [ge_iff_le]

theorem isSpeedy_eq (d : Dep) : isSpeedy d = speedy d := rfl
theorem threshold_eq (net : Net) (d : Dep) : ruleChangeActivationThreshold net d = threshold net d := rfl
theorem condition_eq (d : Dep) (h : Hdr) : condition d h = signals d h := rfl

theorem eligible_eq (d : Dep) (b : Node) : eligibleToActivate d b = eligible d b := by
  unfold eligibleToActivate eligible
  by_cases h : d.minHeight = 0 <;> simp [h, ge_iff_le]

theorem forceActive_eq (d : Dep) (n : Node) : forceActive d n = forced d n := by
  cases n with
  | nil => simp [forceActive, forced]
  | cons h t => simp [forceActive, forced, effAlwaysActive, ge_iff_le]

theorem countVotes_eq (d : Dep) : ∀ (w : Nat) (b : Node), w ≤ b.length →
    countVotes d w b = some ((b.take w).filter (signals d)).length
  | 0, b, _ => by simp [countVotes]
  | w + 1, [], h => by simp at h
  | w + 1, x :: r, h => by
    have ih := countVotes_eq d w r (by simpa using h)
    simp only [countVotes, ih, List.take_succ_cons, List.filter_cons, condition_eq]
    by_cases hs : signals d x = true <;> simp [hs]

theorem transition_eq (net : Net) (d : Dep) (st : St) (b : Node)
    (h2 : 2 ≤ b.length) (hw : net.window ≤ b.length) :
    transition net d st b = some (step net d st b) := by
  unfold transition step
  rw [hasStarted_eq d b h2, hasEnded_eq d b h2, countVotes_eq d _ b hw, eligible_eq]
  simp only [isSpeedy_eq, threshold_eq, votes]
  cases st <;> simp only []
  · by_cases h1 : (!speedy d && ended d b) = true <;> by_cases h3 : started d b = true <;> simp [h1, h3]
  · by_cases h1 : (!speedy d && ended d b) = true <;> by_cases h3 : (speedy d && ended d b) = true <;>
      by_cases hc : threshold net d ≤ (List.filter (signals d) (List.take net.window b)).length <;>
      simp [h1, h3, hc, ge_iff_le]
  · cases eligible d b <;> simp

/-! ### window states depend only on the node's own boundary ancestors -/

theorem anc_self (n : Node) : anc n n.length = n := by simp [anc]

theorem anc_drop (n : Node) (t len : Nat) (h : len ≤ (n.drop t).length) :
    anc (n.drop t) len = anc n len := by
  simp only [anc, List.drop_drop, List.length_drop] at *
  by_cases ht : t ≤ n.length
  · congr 1; omega
  · have h0 : len = 0 := by omega
    subst h0
    rw [List.drop_eq_nil_of_le (by omega), List.drop_eq_nil_of_le (by omega)]

theorem anc_append (p n : Node) (len : Nat) (h : len ≤ n.length) :
    anc (p ++ n) len = anc n len := by
  have : (p ++ n).drop p.length = n := by simp
  rw [← anc_drop (p ++ n) p.length len (by rw [this]; exact h), this]

theorem winState_congr (net : Net) (d : Dep) (n m : Node) :
    ∀ k, (∀ j, 1 ≤ j → j ≤ k → anc n (j * net.window) = anc m (j * net.window)) →
      winState net d n k = winState net d m k
  | 0, _ => rfl
  | k + 1, h => by
    simp only [winState]
    rw [winState_congr net d n m k (fun j h1 h2 => h j h1 (by omega)), h (k + 1) (by omega) (by omega)]

theorem winState_drop (net : Net) (d : Dep) (n : Node) (t k : Nat)
    (h : k * net.window ≤ (n.drop t).length) :
    winState net d (n.drop t) k = winState net d n k := by
  apply winState_congr
  intro j _ hj
  apply anc_drop
  have : j * net.window ≤ k * net.window := Nat.mul_le_mul_right _ hj
  omega

theorem winState_append (net : Net) (d : Dep) (p n : Node) (k : Nat)
    (h : k * net.window ≤ n.length) :
    winState net d (p ++ n) k = winState net d n k := by
  apply winState_congr
  intro j _ hj
  apply anc_append
  have : j * net.window ≤ k * net.window := Nat.mul_le_mul_right _ hj
  omega

/-- `b` is the last block of a window: its path length is a positive multiple of the window. -/
def Boundary (W : Nat) (b : Node) : Prop := ∃ k, b.length = (k + 1) * W

theorem bip9_nil (net : Net) (d : Dep) : bip9State net d [] = .defined := by
  simp [bip9State, winState]

theorem bip9_short (net : Net) (d : Dep) (n : Node) (h : n.length < net.window) :
    bip9State net d n = .defined := by
  simp [bip9State, Nat.div_eq_of_lt h, winState]

/-- all blocks of one window (on one branch) share the state of the window's predecessor boundary. -/
theorem bip9_boundary (net : Net) (d : Dep) (n : Node) (hW : 0 < net.window) :
    bip9State net d n = bip9State net d (n.drop (n.length % net.window)) := by
  unfold bip9State
  have hl : (n.drop (n.length % net.window)).length = net.window * (n.length / net.window) := by
    have := Nat.div_add_mod n.length net.window
    simp only [List.length_drop]; omega
  rw [hl, Nat.mul_div_cancel_left _ hW]
  rw [winState_drop]
  rw [hl, Nat.mul_comm]; exact Nat.le_refl _

/-- the BIP9 recurrence at a window boundary. -/
theorem bip9_step (net : Net) (d : Dep) (b : Node) (hW : 0 < net.window)
    (hb : Boundary net.window b) :
    bip9State net d b = step net d (bip9State net d (b.drop net.window)) b := by
  obtain ⟨k, hk⟩ := hb
  unfold bip9State
  have h1 : b.length / net.window = k + 1 := by rw [hk]; exact Nat.mul_div_cancel _ hW
  have hl : (b.drop net.window).length = k * net.window := by
    simp only [List.length_drop, hk, Nat.succ_mul]; omega
  have h2 : (b.drop net.window).length / net.window = k := by rw [hl]; exact Nat.mul_div_cancel _ hW
  rw [h1, h2]
  simp only [winState]
  rw [← hk, anc_self, winState_drop net d b net.window k (by rw [hl]; exact Nat.le_refl _)]

/-! ### monotone median time and the "not started" shortcut -/

theorem mtpMono_tail (h : Hdr) (t : Node) (hm : mtpMono (h :: t) = true) : mtpMono t = true := by
  cases t with
  | nil => rfl
  | cons g r => simp only [mtpMono, Bool.and_eq_true] at hm; exact hm.2

theorem mtpMono_drop : ∀ (t : Nat) (n : Node), mtpMono n = true → mtpMono (n.drop t) = true
  | 0, n, h => by simpa using h
  | t + 1, [], _ => by simp [mtpMono]
  | t + 1, x :: r, h => by
    simp only [List.drop_succ_cons]
    exact mtpMono_drop t r (mtpMono_tail x r h)

theorem mtp_drop_le : ∀ (t : Nat) (n : Node), mtpMono n = true → n.drop t ≠ [] →
    mtp (n.drop t) ≤ mtp n
  | 0, n, _, _ => by simp
  | t + 1, [], _, hne => by simp at hne
  | t + 1, [x], _, hne => by simp at hne
  | t + 1, x :: g :: r, h, hne => by
    simp only [List.drop_succ_cons] at hne ⊢
    have ih := mtp_drop_le t (g :: r) (mtpMono_tail x _ h) hne
    simp only [mtpMono, Bool.and_eq_true, decide_eq_true_eq] at h
    exact Int.le_trans ih h.1

theorem anc_ne_nil (n : Node) (len : Nat) (h0 : 0 < len) (h : len ≤ n.length) : anc n len ≠ [] := by
  intro hc
  have : (anc n len).length = len := by simp [anc]; omega
  rw [hc] at this; simp at this; omega

theorem not_started_mono (d : Dep) (n : Node) (len : Nat) (hm : mtpMono n = true)
    (h0 : 0 < len) (h : len ≤ n.length) (hs : started d n = false) : started d (anc n len) = false := by
  unfold started at *
  cases hst : d.start with
  | none => simp [hst] at hs
  | some s =>
    simp only [hst, decide_eq_false_iff_not, Int.not_le] at hs ⊢
    have := mtp_drop_le (n.length - len) n hm (anc_ne_nil n len h0 h)
    unfold anc; omega

theorem not_ended_mono (d : Dep) (n : Node) (len : Nat) (hm : mtpMono n = true)
    (h0 : 0 < len) (h : len ≤ n.length) (hs : ended d n = false) : ended d (anc n len) = false := by
  unfold ended at *
  cases hst : d.timeout with
  | none => rfl
  | some s =>
    simp only [hst, decide_eq_false_iff_not, Int.not_le] at hs ⊢
    have := mtp_drop_le (n.length - len) n hm (anc_ne_nil n len h0 h)
    unfold anc; omega

/-- never started on any earlier boundary ⇒ every window state is DEFINED or FAILED. -/
theorem winState_unstarted (net : Net) (d : Dep) (n : Node) :
    ∀ k, (∀ j, 1 ≤ j → j ≤ k → started d (anc n (j * net.window)) = false) →
      winState net d n k = .defined ∨ winState net d n k = .failed
  | 0, _ => Or.inl rfl
  | k + 1, h => by
    have ih := winState_unstarted net d n k (fun j h1 h2 => h j h1 (by omega))
    have hk := h (k + 1) (by omega) (by omega)
    simp only [winState]
    rcases ih with ih | ih <;> rw [ih] <;> simp only [step, hk]
    · cases (!speedy d && ended d (anc n ((k + 1) * net.window))) <;> simp
    · simp

theorem winState_unstarted_unended (net : Net) (d : Dep) (n : Node) :
    ∀ k, (∀ j, 1 ≤ j → j ≤ k → started d (anc n (j * net.window)) = false) →
      (∀ j, 1 ≤ j → j ≤ k → (!speedy d && ended d (anc n (j * net.window))) = false) →
      winState net d n k = .defined
  | 0, _, _ => rfl
  | k + 1, h, he => by
    have ih := winState_unstarted_unended net d n k (fun j h1 h2 => h j h1 (by omega))
      (fun j h1 h2 => he j h1 (by omega))
    simp only [winState, ih, step, h (k + 1) (by omega) (by omega), he (k + 1) (by omega) (by omega)]
    simp

/-- the shortcut of the walk back is sound: on a boundary whose median time is before the start
    time the BIP9 state is FAILED if a legacy deployment has timed out, DEFINED otherwise. -/
theorem shortcut_sound (net : Net) (d : Dep) (b : Node) (hW : 0 < net.window)
    (hb : Boundary net.window b) (hm : mtpMono b = true) (hs : started d b = false) :
    bip9State net d b = if !speedy d && ended d b then St.failed else St.defined := by
  obtain ⟨k, hk⟩ := hb
  have hdiv : b.length / net.window = k + 1 := by rw [hk]; exact Nat.mul_div_cancel _ hW
  have hjle : ∀ j, j ≤ k + 1 → j * net.window ≤ b.length := fun j hj => by
    rw [hk]; exact Nat.mul_le_mul_right _ hj
  have hjpos : ∀ j, 1 ≤ j → 0 < j * net.window := fun j hj => Nat.mul_pos (by omega) hW
  have hns : ∀ j, 1 ≤ j → j ≤ k + 1 → started d (anc b (j * net.window)) = false :=
    fun j h1 h2 => not_started_mono d b _ hm (hjpos j h1) (hjle j h2) hs
  unfold bip9State
  rw [hdiv]
  by_cases he : (!speedy d && ended d b) = true
  · simp only [he, if_true]
    have ih := winState_unstarted net d b k (fun j h1 h2 => hns j h1 (by omega))
    simp only [winState, ← hk, anc_self]
    rcases ih with ih | ih <;> rw [ih] <;> simp [step, he]
  · simp only [he]
    apply winState_unstarted_unended net d b (k + 1) hns
    intro j h1 h2
    simp only [Bool.and_eq_true, Bool.not_eq_true', not_and, Bool.not_eq_true] at he
    cases hsp : speedy d with
    | true => simp
    | false =>
      have := not_ended_mono d b _ hm (hjpos j h1) (hjle j h2) (he hsp)
      simp [this]

/-! ### the cache invariant and the two walks -/

/-- every cached entry is the BIP9 state of the node it is stored under. -/
def CacheOk (net : Net) (d : Dep) (c : Cache) : Prop :=
  ∀ n st, c.get n = some st → st = bip9State net d n

theorem cacheOk_nil (net : Net) (d : Dep) : CacheOk net d [] := by
  intro n st h; simp [Cache.get] at h

theorem cacheOk_put (net : Net) (d : Dep) (c : Cache) (b : Node) (s : St)
    (hc : CacheOk net d c) (hs : s = bip9State net d b) : CacheOk net d (c.put b s) := by
  intro n st h
  simp only [Cache.put, Cache.get] at h
  by_cases hbn : b = n
  · simp only [hbn, if_true, Option.some.injEq] at h; rw [← h, hs, hbn]
  · simp only [hbn, if_false] at h; exact hc n st h

/-- `needed` (oldest first) continues the boundary chain that ends in `m`. -/
def Linked (W : Nat) : Node → List Node → Prop
  | _, [] => True
  | m, x :: xs => Boundary W x ∧ x.drop W = m ∧ Linked W x xs

def lastOr : Node → List Node → Node
  | m, [] => m
  | _, x :: xs => lastOr x xs

theorem boundary_len (W : Nat) (b : Node) (hW : 2 ≤ W) (hb : Boundary W b) :
    2 ≤ b.length ∧ W ≤ b.length := by
  obtain ⟨k, hk⟩ := hb
  rw [hk, Nat.succ_mul]; omega

theorem walkForward_ok (net : Net) (d : Dep) (hW : 2 ≤ net.window) :
    ∀ (needed : List Node) (c : Cache) (st : St) (m : Node),
      CacheOk net d c → st = bip9State net d m → Linked net.window m needed →
      ∃ c', walkForward net d c st needed = (c', some (bip9State net d (lastOr m needed))) ∧
        CacheOk net d c'
  | [], c, st, m, hc, hst, _ => ⟨c, by simp [walkForward, lastOr, hst], hc⟩
  | x :: xs, c, st, m, hc, hst, hl => by
    obtain ⟨hb, hdrop, hl'⟩ := hl
    have ⟨h2, hw⟩ := boundary_len _ x hW hb
    have hx : step net d st x = bip9State net d x := by
      rw [bip9_step net d x (by omega) hb, hdrop, hst]
    simp only [walkForward, transition_eq net d st x h2 hw, lastOr]
    exact walkForward_ok net d hW xs _ _ x (cacheOk_put net d c x _ hc hx) hx hl'

theorem walkBack_ok (net : Net) (d : Dep) (hW : 2 ≤ net.window) :
    ∀ (fuel : Nat) (c : Cache) (b : Node) (needed : List Node),
      mtpMono b = true → (b = [] ∨ Boundary net.window b) → b.length ≤ fuel →
      CacheOk net d c → Linked net.window b needed →
      ∃ c' st needed' m, walkBack net d fuel c b needed = (c', st, needed') ∧ CacheOk net d c' ∧
        st = bip9State net d m ∧ Linked net.window m needed' ∧ lastOr m needed' = lastOr b needed
  | 0, c, b, needed, _, _, hf, hc, hl => by
    have : b = [] := List.eq_nil_of_length_eq_zero (by omega)
    subst this
    exact ⟨c, .defined, needed, [], by simp [walkBack], hc, (bip9_nil net d).symm, hl, rfl⟩
  | fuel + 1, c, [], needed, _, _, _, hc, hl =>
    ⟨c, .defined, needed, [], by simp [walkBack], hc, (bip9_nil net d).symm, hl, rfl⟩
  | fuel + 1, c, h :: t, needed, hm, hb, hf, hc, hl => by
    have hb : Boundary net.window (h :: t) := by
      rcases hb with hb | hb
      · cases hb
      · exact hb
    have ⟨h2, hw⟩ := boundary_len _ _ hW hb
    simp only [walkBack]
    cases hg : c.get (h :: t) with
    | some st => exact ⟨c, st, needed, h :: t, rfl, hc, hc _ _ hg, hl, rfl⟩
    | none =>
      simp only []
      by_cases hs : hasStarted d (h :: t) = true
      · simp only [hs, Bool.not_true, Bool.false_eq_true, if_false]
        obtain ⟨k, hk⟩ := hb
        have hlen : ((h :: t).drop net.window).length = k * net.window := by
          simp only [List.length_drop, hk, Nat.succ_mul]; omega
        apply walkBack_ok net d hW fuel c _ _ (mtpMono_drop _ _ hm)
        · cases k with
          | zero => left; apply List.eq_nil_of_length_eq_zero; simpa using hlen
          | succ k' => right; exact ⟨k', hlen⟩
        · simp only [List.length_drop]; simp only [List.length_cons] at hf hw ⊢; omega
        · exact hc
        · exact ⟨⟨k, hk⟩, rfl, hl⟩
      · simp only [hs, Bool.not_false, if_true]
        rw [hasStarted_eq d _ h2] at hs
        have hsc := shortcut_sound net d (h :: t) (by omega) hb hm (by simpa using hs)
        rw [isSpeedy_eq, hasEnded_eq d _ h2]
        exact ⟨_, _, needed, h :: t, rfl, cacheOk_put net d c _ _ hc hsc.symm, hsc.symm, hl, rfl⟩

theorem state_nil (net : Net) (d : Dep) : state net d [] = .defined := by
  simp [state, forced, bip9_nil]

/-- one `thresholdState` call on a cache that satisfies the invariant answers with the Spec
    and leaves a cache that satisfies the invariant. -/
theorem thresholdState_ok (net : Net) (d : Dep) (c : Cache) (n : Node)
    (hW : 2 ≤ net.window) (hm : mtpMono n = true) (hc : CacheOk net d c) :
    ∃ c', thresholdState net d c n = (c', some (state net d n)) ∧ CacheOk net d c' := by
  unfold thresholdState state
  rw [forceActive_eq]
  by_cases hf : forced d n = true
  · simp only [hf, if_true]; exact ⟨c, rfl, hc⟩
  · simp only [hf, if_false, Bool.false_eq_true]
    by_cases he : n.isEmpty = true
    · simp only [he, if_true]
      have : n = [] := by simpa using he
      subst this
      exact ⟨c, by rw [bip9_nil], hc⟩
    · simp only [he, if_false, Bool.false_eq_true]
      have hw0 : ¬ net.window = 0 := by omega
      simp only [hw0, if_false]
      by_cases hlt : n.length < net.window
      · simp only [hlt, if_true]; exact ⟨c, by rw [bip9_short net d n hlt], hc⟩
      · simp only [hlt, if_false]
        have hbl : (n.drop (n.length % net.window)).length = net.window * (n.length / net.window) := by
          have := Nat.div_add_mod n.length net.window
          simp only [List.length_drop]; omega
        have hq : 1 ≤ n.length / net.window := by
          apply (Nat.le_div_iff_mul_le (by omega)).2; omega
        have hbnd : Boundary net.window (n.drop (n.length % net.window)) := by
          refine ⟨n.length / net.window - 1, ?_⟩
          rw [hbl, Nat.sub_add_cancel hq, Nat.mul_comm]
        obtain ⟨c1, st0, needed, m, hwb, hc1, hst0, hlk, hlast⟩ :=
          walkBack_ok net d hW _ c _ [] (mtpMono_drop _ _ hm) (Or.inr hbnd) (Nat.le_refl _) hc trivial
        obtain ⟨c2, hwf, hc2⟩ := walkForward_ok net d hW needed c1 st0 m hc1 hst0 hlk
        refine ⟨c2, ?_, hc2⟩
        simp only [hwb, hwf, hlast, lastOr]
        rw [← bip9_boundary net d n (by omega)]

/-! ### a chain instance under any sequence of queries -/

def AllOk (net : Net) (cs : ChainSt) : Prop := ∀ dc ∈ cs, CacheOk net dc.1 dc.2

/-- histories the theorems speak about. -/
def Wf (net : Net) (n : Node) : Prop := 2 ≤ net.window ∧ mtpMono n = true

theorem allOk_fresh (net : Net) (deps : List Dep) : AllOk net (fresh deps) := by
  intro dc h
  simp only [fresh, List.mem_map] at h
  obtain ⟨d, _, rfl⟩ := h
  exact cacheOk_nil net d

theorem stateAt_ok (net : Net) (n : Node) (hwf : Wf net n) :
    ∀ (cs : ChainSt) (id : Nat), AllOk net cs →
      (stateAt net cs id n).2 = answer net (cs.map (·.1)) (.state id n) ∧
      AllOk net (stateAt net cs id n).1 ∧ (stateAt net cs id n).1.map (·.1) = cs.map (·.1)
  | [], id, _ => by simp [stateAt, answer, AllOk]
  | (d, c) :: rest, 0, h => by
    obtain ⟨c', hts, hc'⟩ := thresholdState_ok net d c n hwf.1 hwf.2 (h (d, c) (by simp))
    simp only [stateAt, hts, ansOf, answer, List.map_cons, List.getElem?_cons_zero, true_and, and_true]
    intro dc hdc
    rcases List.mem_cons.1 hdc with rfl | hm
    · exact hc'
    · exact h dc (List.mem_cons_of_mem _ hm)
  | dc :: rest, id + 1, h => by
    have ih := stateAt_ok net n hwf rest id (fun x hx => h x (List.mem_cons_of_mem _ hx))
    simp only [stateAt, answer, List.map_cons, List.getElem?_cons_succ] at ih ⊢
    refine ⟨ih.1, ?_, by rw [ih.2.2]⟩
    intro x hx
    rcases List.mem_cons.1 hx with rfl | hm
    · exact h _ (by simp)
    · exact ih.2.1 x hm

def verStep (net : Net) (n : Node) (v : Nat) (d : Dep) : Nat :=
  if signalling (state net d n) then v ||| mask d.bit else v

theorem calcNext_ok (net : Net) (n : Node) (hwf : Wf net n) :
    ∀ (cs : ChainSt) (v : Nat), AllOk net cs →
      (calcNextBlockVersion net cs n v).2 = some ((cs.map (·.1)).foldl (verStep net n) v) ∧
      AllOk net (calcNextBlockVersion net cs n v).1 ∧
      (calcNextBlockVersion net cs n v).1.map (·.1) = cs.map (·.1)
  | [], v, _ => by simp [calcNextBlockVersion, AllOk]
  | (d, c) :: rest, v, h => by
    obtain ⟨c', hts, hc'⟩ := thresholdState_ok net d c n hwf.1 hwf.2 (h (d, c) (by simp))
    have hv : (if state net d n = St.started ∨ state net d n = St.lockedIn then v ||| mask d.bit else v)
        = verStep net n v d := by
      unfold verStep signalling
      cases state net d n <;> simp
    have ih := calcNext_ok net n hwf rest (verStep net n v d)
      (fun x hx => h x (List.mem_cons_of_mem _ hx))
    simp only [calcNextBlockVersion, hts, hv, List.map_cons, List.foldl_cons]
    refine ⟨ih.1, ?_, by rw [ih.2.2]⟩
    intro x hx
    rcases List.mem_cons.1 hx with rfl | hm
    · exact hc'
    · exact ih.2.1 x hm

theorem nextVersion_foldl (net : Net) (deps : List Dep) (n : Node) :
    nextVersion net deps n = deps.foldl (verStep net n) VB_TOP_BITS := rfl

theorem runQuery_ok (net : Net) (cs : ChainSt) (q : Query) (hwf : Wf net q.node) (h : AllOk net cs) :
    (runQuery net cs q).2 = answer net (cs.map (·.1)) q ∧
    AllOk net (runQuery net cs q).1 ∧ (runQuery net cs q).1.map (·.1) = cs.map (·.1) := by
  cases q with
  | state id n => exact stateAt_ok net n hwf cs id h
  | version n =>
    have := calcNext_ok net n hwf cs VB_TOP_BITS h
    simp only [runQuery]
    revert this
    cases calcNextBlockVersion net cs n VB_TOP_BITS with
    | mk cs' r =>
      intro this
      simp only at this
      rw [this.1]
      exact ⟨by simp [answer, nextVersion_foldl], this.2.1, this.2.2⟩

theorem runQueries_ok (net : Net) :
    ∀ (qs : List Query) (cs : ChainSt), (∀ q ∈ qs, Wf net q.node) → AllOk net cs →
      (runQueries net cs qs).2 = qs.map (answer net (cs.map (·.1))) ∧
      AllOk net (runQueries net cs qs).1 ∧ (runQueries net cs qs).1.map (·.1) = cs.map (·.1)
  | [], cs, _, h => by simp [runQueries, h]
  | q :: qs, cs, hq, h => by
    have h1 := runQuery_ok net cs q (hq q (by simp)) h
    have ih := runQueries_ok net qs (runQuery net cs q).1
      (fun x hx => hq x (List.mem_cons_of_mem _ hx)) h1.2.1
    simp only [runQueries, List.map_cons]
    rw [h1.2.2] at ih
    exact ⟨by rw [ih.1, h1.1], ih.2.1, ih.2.2⟩

/-! ### version bits -/

theorem testBit_mask (b i : Nat) : (mask b).testBit i = (decide (b < 32) && decide (b = i)) := by
  unfold mask
  by_cases h : b < 32
  · simp [h, Nat.testBit_two_pow]
  · simp [h]

theorem testBit_foldl (net : Net) (n : Node) (i : Nat) :
    ∀ (deps : List Dep) (v : Nat),
      (deps.foldl (verStep net n) v).testBit i =
        (v.testBit i || deps.any (fun d => signalling (state net d n) && (mask d.bit).testBit i))
  | [], v => by simp
  | d :: ds, v => by
    rw [List.foldl_cons, testBit_foldl net n i ds, List.any_cons]
    unfold verStep
    cases signalling (state net d n) <;> simp [Nat.testBit_or, Bool.or_assoc]

/-! ### terminal states, windows -/

theorem winState_active_stable (net : Net) (d : Dep) (n : Node) (k : Nat)
    (h : winState net d n k = .active) : ∀ j, winState net d n (k + j) = .active
  | 0 => h
  | j + 1 => by
    have := winState_active_stable net d n k h j
    rw [← Nat.add_assoc]; simp only [winState, this, step]

theorem winState_failed_stable (net : Net) (d : Dep) (n : Node) (k : Nat)
    (h : winState net d n k = .failed) : ∀ j, winState net d n (k + j) = .failed
  | 0 => h
  | j + 1 => by
    have := winState_failed_stable net d n k h j
    rw [← Nat.add_assoc]; simp only [winState, this, step]

theorem bip9_descendant (net : Net) (d : Dep) (p n : Node) :
    ∃ j, bip9State net d (p ++ n) = winState net d (p ++ n) (n.length / net.window + j) ∧
      winState net d (p ++ n) (n.length / net.window) = bip9State net d n := by
  have hle : n.length / net.window ≤ (p ++ n).length / net.window :=
    Nat.div_le_div_right (by simp)
  refine ⟨(p ++ n).length / net.window - n.length / net.window, ?_, ?_⟩
  · unfold bip9State; congr 1; omega
  · unfold bip9State
    exact winState_append net d p n _ (by rw [Nat.mul_comm]; exact Nat.mul_div_le _ _)

theorem forced_descendant (d : Dep) (p n : Node) (h : forced d n = true) : forced d (p ++ n) = true := by
  simp only [forced, Bool.and_eq_true, Bool.not_eq_true', decide_eq_true_eq, List.isEmpty_eq_false_iff,
    List.length_append] at *
  refine ⟨?_, by omega⟩
  intro hc
  have := List.append_eq_nil_iff.1 hc
  exact h.1 this.2

theorem same_window (net : Net) (d : Dep) (n : Node) (t : Nat) (hW : 0 < net.window)
    (ht : t ≤ n.length % net.window) : bip9State net d (n.drop t) = bip9State net d n := by
  rw [bip9_boundary net d n hW, bip9_boundary net d (n.drop t) hW, List.drop_drop]
  have hmod : (n.length - t) % net.window = n.length % net.window - t := by
    have h1 := Nat.div_add_mod n.length net.window
    have h2 : n.length - t = net.window * (n.length / net.window) + (n.length % net.window - t) := by omega
    rw [h2, Nat.mul_add_mod]
    exact Nat.mod_eq_of_lt (by have := Nat.mod_lt n.length hW; omega)
  simp only [List.length_drop, hmod]
  congr 2; omega

end BV.C14.Lemmas
