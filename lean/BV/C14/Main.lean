import BV.Common.Loop
import BV.C14.Driver
/-! `drv_c14`: one case per input line `C14 <op> <args…>`, one canonical result line back.
Imports only core-only modules so that it links as a native executable. -/
def main : IO Unit := BV.Loop.run "C14" BV.C14.Driver.handle
