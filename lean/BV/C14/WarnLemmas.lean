/- C14: the unknown-rules warning path (Warn.lean) equals its Spec. -/
import BV.C14.Lemmas
import BV.C14.Warn
namespace BV.C14.WarnLemmas
open Spec Model Lemmas

theorem winState_congr (net : Net) (deps : List Dep) (bit : Nat) (n m : Node) :
    ∀ k, (∀ j, 1 ≤ j → j ≤ k → anc n (j * net.window) = anc m (j * net.window)) →
      Warn.winState net deps bit n k = Warn.winState net deps bit m k
  | 0, _ => rfl
  | k + 1, h => by
    simp only [Warn.winState]
    rw [winState_congr net deps bit n m k (fun j h1 h2 => h j h1 (by omega)),
      h (k + 1) (by omega) (by omega)]

theorem winState_drop (net : Net) (deps : List Dep) (bit : Nat) (n : Node) (t k : Nat)
    (h : k * net.window ≤ (n.drop t).length) :
    Warn.winState net deps bit (n.drop t) k = Warn.winState net deps bit n k := by
  apply winState_congr
  intro j _ hj
  apply anc_drop
  have : j * net.window ≤ k * net.window := Nat.mul_le_mul_right _ hj
  omega

theorem state_nil (net : Net) (deps : List Dep) (bit : Nat) : Warn.state net deps bit [] = .defined := by
  simp [Warn.state, Warn.winState]

theorem state_short (net : Net) (deps : List Dep) (bit : Nat) (n : Node) (h : n.length < net.window) :
    Warn.state net deps bit n = .defined := by
  simp [Warn.state, Nat.div_eq_of_lt h, Warn.winState]

theorem state_boundary (net : Net) (deps : List Dep) (bit : Nat) (n : Node) (hW : 0 < net.window) :
    Warn.state net deps bit n = Warn.state net deps bit (n.drop (n.length % net.window)) := by
  unfold Warn.state
  have hl : (n.drop (n.length % net.window)).length = net.window * (n.length / net.window) := by
    have := Nat.div_add_mod n.length net.window
    simp only [List.length_drop]; omega
  rw [hl, Nat.mul_div_cancel_left _ hW]
  rw [winState_drop]
  rw [hl, Nat.mul_comm]; exact Nat.le_refl _

theorem state_step (net : Net) (deps : List Dep) (bit : Nat) (b : Node) (hW : 0 < net.window)
    (hb : Boundary net.window b) :
    Warn.state net deps bit b =
      Warn.step net deps bit (Warn.state net deps bit (b.drop net.window)) b := by
  obtain ⟨k, hk⟩ := hb
  unfold Warn.state
  have h1 : b.length / net.window = k + 1 := by rw [hk]; exact Nat.mul_div_cancel _ hW
  have hl : (b.drop net.window).length = k * net.window := by
    simp only [List.length_drop, hk, Nat.succ_mul]; omega
  have h2 : (b.drop net.window).length / net.window = k := by rw [hl]; exact Nat.mul_div_cancel _ hW
  rw [h1, h2]
  simp only [Warn.winState]
  rw [← hk, anc_self, winState_drop net deps bit b net.window k (by rw [hl]; exact Nat.le_refl _)]

/-- the deployment caches are sound and belong to the deployment table `deps`. -/
def Inv (net : Net) (deps : List Dep) (cs : ChainSt) : Prop := AllOk net cs ∧ cs.map (·.1) = deps

theorem condition_ok (net : Net) (bit : Nat) (deps : List Dep) (cs : ChainSt) (h : Hdr) (par : Node)
    (hW : 2 ≤ net.window) (hm : mtpMono (h :: par) = true) (hi : Inv net deps cs) :
    ∃ cs', Warn.condition net bit cs (h :: par) = (cs', some (Warn.signals net deps bit (h :: par))) ∧
      Inv net deps cs' := by
  unfold Warn.condition Warn.signals
  by_cases h1 : (h.version &&& VB_TOP_MASK != VB_TOP_BITS) = true
  · refine ⟨cs, ?_, hi⟩
    have : (h.version &&& VB_TOP_MASK == VB_TOP_BITS) = false := by simpa using h1
    simp [h1, this]
  · have h1' : (h.version &&& VB_TOP_MASK == VB_TOP_BITS) = true := by simpa using h1
    simp only [h1, if_false, Bool.false_eq_true, h1', Bool.true_and]
    by_cases h2 : (h.version &&& mask bit == 0) = true
    · refine ⟨cs, ?_, hi⟩
      have : (h.version &&& mask bit != 0) = false := by simpa using h2
      simp [h2, this]
    · have h2' : (h.version &&& mask bit != 0) = true := by simpa using h2
      simp only [h2, if_false, Bool.false_eq_true, h2', Bool.true_and]
      have hc := calcNext_ok net par ⟨hW, mtpMono_tail h par hm⟩ cs VB_TOP_BITS hi.1
      revert hc
      cases calcNextBlockVersion net cs par VB_TOP_BITS with
      | mk cs' r =>
        intro hc
        simp only at hc
        rw [hc.1]
        refine ⟨cs', ?_, hc.2.1, by rw [hc.2.2]; exact hi.2⟩
        simp only [nextVersion_foldl, hi.2]

theorem count_ok (net : Net) (bit : Nat) (deps : List Dep) (hW : 2 ≤ net.window) :
    ∀ (i : Nat) (cs : ChainSt) (n : Node), i ≤ n.length → mtpMono n = true → Inv net deps cs →
      ∃ cs', Warn.countVotes net bit i cs n = (cs', some (Warn.votes net deps bit i n)) ∧
        Inv net deps cs'
  | 0, cs, _, _, _, hi => ⟨cs, by simp [Warn.countVotes, Warn.votes], hi⟩
  | i + 1, cs, [], hl, _, _ => by simp at hl
  | i + 1, cs, h :: t, hl, hm, hi => by
    obtain ⟨cs1, hc1, hi1⟩ := condition_ok net bit deps cs h t hW hm hi
    obtain ⟨cs2, hc2, hi2⟩ := count_ok net bit deps hW i cs1 t (by simpa using hl)
      (mtpMono_tail h t hm) hi1
    refine ⟨cs2, ?_, hi2⟩
    simp only [Warn.countVotes, hc1, hc2, Warn.votes]
    cases Warn.signals net deps bit (h :: t) <;> simp [Nat.add_comm]

theorem transition_ok (net : Net) (bit : Nat) (deps : List Dep) (hW : 2 ≤ net.window)
    (cs : ChainSt) (st : St) (b : Node) (hl : net.window ≤ b.length) (hm : mtpMono b = true)
    (hi : Inv net deps cs) :
    ∃ cs', Warn.transition net bit cs st b = (cs', some (Warn.step net deps bit st b)) ∧
      Inv net deps cs' := by
  cases st
  · exact ⟨cs, rfl, hi⟩
  · obtain ⟨cs', hc, hi'⟩ := count_ok net bit deps hW net.window cs b hl hm hi
    refine ⟨cs', ?_, hi'⟩
    simp only [Warn.transition, hc, Warn.step, ge_iff_le]
  · exact ⟨cs, rfl, hi⟩
  · exact ⟨cs, rfl, hi⟩
  · exact ⟨cs, rfl, hi⟩

def CacheOkW (net : Net) (deps : List Dep) (bit : Nat) (c : Cache) : Prop :=
  ∀ n st, c.get n = some st → st = Warn.state net deps bit n

theorem cacheOkW_put (net : Net) (deps : List Dep) (bit : Nat) (c : Cache) (b : Node) (s : St)
    (hc : CacheOkW net deps bit c) (hs : s = Warn.state net deps bit b) :
    CacheOkW net deps bit (c.put b s) := by
  intro n st h
  simp only [Cache.put, Cache.get] at h
  by_cases hbn : b = n
  · simp only [hbn, if_true, Option.some.injEq] at h; rw [← h, hs, hbn]
  · simp only [hbn, if_false] at h; exact hc n st h

def AllMono (l : List Node) : Prop := ∀ x ∈ l, mtpMono x = true

theorem walkBack_ok (net : Net) (deps : List Dep) (bit : Nat) (hW : 2 ≤ net.window) :
    ∀ (fuel : Nat) (c : Cache) (b : Node) (needed : List Node),
      mtpMono b = true → (b = [] ∨ Boundary net.window b) → b.length ≤ fuel →
      CacheOkW net deps bit c → Linked net.window b needed → AllMono needed →
      ∃ st needed' m, Warn.walkBack net fuel c b needed = (st, needed') ∧
        st = Warn.state net deps bit m ∧ Linked net.window m needed' ∧ AllMono needed' ∧
        lastOr m needed' = lastOr b needed
  | 0, c, b, needed, _, _, hf, _, hl, ha => by
    have : b = [] := List.eq_nil_of_length_eq_zero (by omega)
    subst this
    exact ⟨.defined, needed, [], by simp [Warn.walkBack], (state_nil net deps bit).symm, hl, ha, rfl⟩
  | fuel + 1, c, [], needed, _, _, _, _, hl, ha =>
    ⟨.defined, needed, [], by simp [Warn.walkBack], (state_nil net deps bit).symm, hl, ha, rfl⟩
  | fuel + 1, c, h :: t, needed, hm, hb, hf, hc, hl, ha => by
    have hb : Boundary net.window (h :: t) := by
      rcases hb with hb | hb
      · cases hb
      · exact hb
    have ⟨_, hw⟩ := boundary_len _ _ hW hb
    simp only [Warn.walkBack]
    cases hg : c.get (h :: t) with
    | some st => exact ⟨st, needed, h :: t, rfl, hc _ _ hg, hl, ha, rfl⟩
    | none =>
      simp only []
      obtain ⟨k, hk⟩ := hb
      have hlen : ((h :: t).drop net.window).length = k * net.window := by
        simp only [List.length_drop, hk, Nat.succ_mul]; omega
      apply walkBack_ok net deps bit hW fuel c _ _ (mtpMono_drop _ _ hm)
      · cases k with
        | zero => left; apply List.eq_nil_of_length_eq_zero; simpa using hlen
        | succ k' => right; exact ⟨k', hlen⟩
      · simp only [List.length_drop]; simp only [List.length_cons] at hf hw ⊢; omega
      · exact hc
      · exact ⟨⟨k, hk⟩, rfl, hl⟩
      · intro x hx
        rcases List.mem_cons.1 hx with rfl | hx
        · exact hm
        · exact ha x hx

theorem walkForward_ok (net : Net) (deps : List Dep) (bit : Nat) (hW : 2 ≤ net.window) :
    ∀ (needed : List Node) (c : Cache) (cs : ChainSt) (st : St) (m : Node),
      CacheOkW net deps bit c → Inv net deps cs → st = Warn.state net deps bit m →
      Linked net.window m needed → AllMono needed →
      ∃ c' cs', Warn.walkForward net bit c cs st needed =
          (c', cs', some (Warn.state net deps bit (lastOr m needed))) ∧
        CacheOkW net deps bit c' ∧ Inv net deps cs'
  | [], c, cs, st, m, hc, hi, hst, _, _ => ⟨c, cs, by simp [Warn.walkForward, lastOr, hst], hc, hi⟩
  | x :: xs, c, cs, st, m, hc, hi, hst, hl, ha => by
    obtain ⟨hb, hdrop, hl'⟩ := hl
    have ⟨_, hw⟩ := boundary_len _ x hW hb
    obtain ⟨cs', ht, hi'⟩ := transition_ok net bit deps hW cs st x hw (ha x (by simp)) hi
    have hx : Warn.step net deps bit st x = Warn.state net deps bit x := by
      rw [state_step net deps bit x (by omega) hb, hdrop, hst]
    simp only [Warn.walkForward, ht, lastOr]
    exact walkForward_ok net deps bit hW xs _ cs' _ x (cacheOkW_put net deps bit c x _ hc hx) hi' hx hl'
      (fun y hy => ha y (List.mem_cons_of_mem _ hy))

/-- one warning-state query: answers the Spec, keeps the warning cache and the deployment caches
    sound. -/
theorem thresholdState_ok (net : Net) (deps : List Dep) (bit : Nat) (c : Cache) (cs : ChainSt)
    (n : Node) (hW : 2 ≤ net.window) (hm : mtpMono n = true)
    (hc : CacheOkW net deps bit c) (hi : Inv net deps cs) :
    ∃ c' cs', Warn.thresholdState net bit c cs n = (c', cs', some (Warn.state net deps bit n)) ∧
      CacheOkW net deps bit c' ∧ Inv net deps cs' := by
  unfold Warn.thresholdState
  by_cases he : n.isEmpty = true
  · simp only [he, if_true]
    have : n = [] := by simpa using he
    subst this
    exact ⟨c, cs, by rw [state_nil], hc, hi⟩
  · simp only [he, if_false, Bool.false_eq_true]
    have hw0 : ¬ net.window = 0 := by omega
    simp only [hw0, if_false]
    by_cases hlt : n.length < net.window
    · simp only [hlt, if_true]; exact ⟨c, cs, by rw [state_short net deps bit n hlt], hc, hi⟩
    · simp only [hlt, if_false]
      have hbl : (n.drop (n.length % net.window)).length = net.window * (n.length / net.window) := by
        have := Nat.div_add_mod n.length net.window
        simp only [List.length_drop]; omega
      have hq : 1 ≤ n.length / net.window := by
        apply (Nat.le_div_iff_mul_le (by omega)).2; omega
      have hbnd : Boundary net.window (n.drop (n.length % net.window)) := by
        refine ⟨n.length / net.window - 1, ?_⟩
        rw [hbl, Nat.sub_add_cancel hq, Nat.mul_comm]
      obtain ⟨st0, needed, m, hwb, hst0, hlk, hmono, hlast⟩ :=
        walkBack_ok net deps bit hW _ c _ [] (mtpMono_drop _ _ hm) (Or.inr hbnd) (Nat.le_refl _) hc
          trivial (by intro x hx; simp at hx)
      obtain ⟨c2, cs2, hwf, hc2, hi2⟩ :=
        walkForward_ok net deps bit hW needed c cs st0 m hc hi hst0 hlk hmono
      refine ⟨c2, cs2, ?_, hc2, hi2⟩
      simp only [hwb, hwf, hlast, lastOr]
      rw [← state_boundary net deps bit n (by omega)]

def InstOk (net : Net) (deps : List Dep) (i : Warn.Inst) : Prop :=
  Inv net deps i.cs ∧ ∀ bit, CacheOkW net deps bit (i.wcs bit)

theorem instOk_fresh (net : Net) (deps : List Dep) : InstOk net deps (Warn.freshInst deps) := by
  refine ⟨⟨allOk_fresh net deps, by simp [Warn.freshInst, fresh, Function.comp_def]⟩, ?_⟩
  intro bit n st h
  simp [Warn.freshInst, Cache.get] at h

theorem instOk_setW (net : Net) (deps : List Dep) (i : Warn.Inst) (bit : Nat) (c' : Cache)
    (cs' : ChainSt) (h : InstOk net deps i) (hc : CacheOkW net deps bit c') (hi : Inv net deps cs') :
    InstOk net deps (Warn.setW i bit c' cs') := by
  refine ⟨hi, ?_⟩
  intro b
  simp only [Warn.setW]
  by_cases hb : b = bit
  · simp only [hb, if_true]; exact hc
  · simp only [hb, if_false]; exact h.2 b

theorem warnLoop_ok (net : Net) (deps : List Dep) (np : Node) (hW : 2 ≤ net.window)
    (hm : mtpMono np = true) :
    ∀ (bits : List Nat) (i : Warn.Inst), InstOk net deps i →
      ∃ i', Warn.warnLoop net np bits i =
          (i', some (bits.any (fun bit => Warn.state net deps bit np == .active))) ∧
        InstOk net deps i' ∧ i'.warned = i.warned
  | [], i, h => ⟨i, by simp [Warn.warnLoop], h, rfl⟩
  | bit :: bits, i, h => by
    obtain ⟨c', cs', hts, hc', hi'⟩ :=
      thresholdState_ok net deps bit (i.wcs bit) i.cs np hW hm (h.2 bit) h.1
    obtain ⟨i2, hl, hok, hw⟩ := warnLoop_ok net deps np hW hm bits (Warn.setW i bit c' cs')
      (instOk_setW net deps i bit c' cs' h hc' hi')
    refine ⟨i2, ?_, hok, by rw [hw]; rfl⟩
    simp only [Warn.warnLoop, hts, hl, List.any_cons, Bool.or_comm]

theorem mtpMono_tail' (n : Node) (h : mtpMono n = true) : mtpMono n.tail = true := by
  cases n with
  | nil => rfl
  | cons x t => exact mtpMono_tail x t h

theorem warnAll_ok (net : Net) (deps : List Dep) (i : Warn.Inst) (n : Node) (hwf : Wf net n)
    (h : InstOk net deps i) :
    (Warn.warnAll net i n).2 = .flag (i.warned || Warn.anyActive net deps n.tail) ∧
    (Warn.warnAll net i n).1.warned = (i.warned || Warn.anyActive net deps n.tail) ∧
    InstOk net deps (Warn.warnAll net i n).1 := by
  obtain ⟨i', hl, hok, hw⟩ := warnLoop_ok net deps n.tail hwf.1 (mtpMono_tail' n hwf.2) Warn.warnBits i h
  simp only [Warn.warnAll, hl, hw, Warn.anyActive, true_and]
  exact ⟨hok.1, hok.2⟩

theorem initCaches_ok (net : Net) (deps : List Dep) (i : Warn.Inst) (n : Node) (cur : Bool)
    (hwf : Wf net n) (h : InstOk net deps i) :
    (Warn.initCaches net i n cur).2 = (Warn.specStep net deps i.warned (.init n cur)).2 ∧
    (Warn.initCaches net i n cur).1.warned = (Warn.specStep net deps i.warned (.init n cur)).1 ∧
    InstOk net deps (Warn.initCaches net i n cur).1 := by
  have hmt := mtpMono_tail' n hwf.2
  obtain ⟨i1, hl, hok, hw⟩ := warnLoop_ok net deps n.tail hwf.1 hmt Warn.warnBits i h
  have hc := calcNext_ok net n.tail ⟨hwf.1, hmt⟩ i1.cs VB_TOP_BITS hok.1.1
  simp only [Warn.initCaches, hl]
  revert hc
  cases calcNextBlockVersion net i1.cs n.tail VB_TOP_BITS with
  | mk cs2 r =>
    intro hc
    simp only at hc
    rw [hc.1]
    have hok2 : InstOk net deps { i1 with cs := cs2 } :=
      ⟨⟨hc.2.1, by rw [hc.2.2]; exact hok.1.2⟩, hok.2⟩
    cases cur with
    | true =>
      have := warnAll_ok net deps { i1 with cs := cs2 } n hwf hok2
      simp only [if_true, Warn.specStep]
      rw [← hw]
      exact this
    | false =>
      simp only [Warn.specStep, hw, Bool.false_eq_true, if_false]
      exact ⟨trivial, trivial, hok2⟩

theorem runQ_ok (net : Net) (deps : List Dep) (i : Warn.Inst) (q : Warn.Q) (hwf : Wf net q.node)
    (h : InstOk net deps i) :
    (Warn.runQ net i q).2 = (Warn.specStep net deps i.warned q).2 ∧
    (Warn.runQ net i q).1.warned = (Warn.specStep net deps i.warned q).1 ∧
    InstOk net deps (Warn.runQ net i q).1 := by
  cases q with
  | dep q =>
    have := runQuery_ok net i.cs q hwf h.1.1
    simp only [Warn.runQ, Warn.specStep]
    refine ⟨by rw [this.1, h.1.2], trivial, ⟨this.2.1, by rw [this.2.2]; exact h.1.2⟩, h.2⟩
  | warn bit n =>
    obtain ⟨c', cs', hts, hc', hi'⟩ :=
      thresholdState_ok net deps bit (i.wcs bit) i.cs n hwf.1 hwf.2 (h.2 bit) h.1
    simp only [Warn.runQ, hts, Warn.specStep, ansOf, true_and]
    exact ⟨rfl, instOk_setW net deps i bit c' cs' h hc' hi'⟩
  | warnAll n =>
    have := warnAll_ok net deps i n hwf h
    simp only [Warn.runQ, Warn.specStep]
    exact this
  | init n cur => exact initCaches_ok net deps i n cur hwf h

theorem runQs_ok (net : Net) (deps : List Dep) :
    ∀ (qs : List Warn.Q) (i : Warn.Inst), (∀ q ∈ qs, Wf net q.node) → InstOk net deps i →
      (Warn.runQs net i qs).2 = Warn.specRun net deps i.warned qs ∧
      InstOk net deps (Warn.runQs net i qs).1
  | [], i, _, h => by simp [Warn.runQs, Warn.specRun, h]
  | q :: qs, i, hq, h => by
    have h1 := runQ_ok net deps i q (hq q (by simp)) h
    have ih := runQs_ok net deps qs (Warn.runQ net i q).1
      (fun x hx => hq x (List.mem_cons_of_mem _ hx)) h1.2.2
    simp only [Warn.runQs, Warn.specRun]
    rw [h1.2.1] at ih
    exact ⟨by rw [ih.1, h1.1], ih.2⟩

end BV.C14.WarnLemmas
