/- C14: the Spec never looks at a block's identity (hash / nonce / merkle root), only at versions
   and timestamps along its ancestor path. -/
import BV.C14.Spec
namespace BV.C14.Ident
open Spec

/-- relabel every block of a path. -/
def relabel (f : Hdr → Nat) (n : Node) : Node := n.map (fun h => { h with id := f h })

theorem length_relabel (f : Hdr → Nat) (n : Node) : (relabel f n).length = n.length := by
  simp [relabel]

theorem drop_relabel (f : Hdr → Nat) (n : Node) (k : Nat) :
    (relabel f n).drop k = relabel f (n.drop k) := by
  simp [relabel, List.map_drop]

theorem anc_relabel (f : Hdr → Nat) (n : Node) (len : Nat) :
    anc (relabel f n) len = relabel f (anc n len) := by
  simp [anc, length_relabel, drop_relabel]

theorem mtp_relabel (f : Hdr → Nat) (n : Node) : mtp (relabel f n) = mtp n := by
  simp [mtp, relabel, ← List.map_take, List.map_map, Function.comp_def]

theorem votes_relabel (net : Net) (d : Dep) (f : Hdr → Nat) (n : Node) :
    votes net d (relabel f n) = votes net d n := by
  simp only [votes, relabel, ← List.map_take, List.filter_map, List.length_map]
  rfl

theorem started_relabel (d : Dep) (f : Hdr → Nat) (b : Node) : started d (relabel f b) = started d b := by
  unfold started; rw [mtp_relabel]

theorem ended_relabel (d : Dep) (f : Hdr → Nat) (b : Node) : ended d (relabel f b) = ended d b := by
  unfold ended; rw [mtp_relabel]

theorem eligible_relabel (d : Dep) (f : Hdr → Nat) (b : Node) :
    eligible d (relabel f b) = eligible d b := by
  unfold eligible; rw [length_relabel]

theorem step_relabel (net : Net) (d : Dep) (f : Hdr → Nat) (st : St) (b : Node) :
    step net d st (relabel f b) = step net d st b := by
  simp only [step, started_relabel, ended_relabel, eligible_relabel, votes_relabel]

theorem winState_relabel (net : Net) (d : Dep) (f : Hdr → Nat) (n : Node) :
    ∀ k, winState net d (relabel f n) k = winState net d n k
  | 0 => rfl
  | k + 1 => by
    simp only [winState, anc_relabel, step_relabel, winState_relabel net d f n k]

theorem state_relabel (net : Net) (d : Dep) (f : Hdr → Nat) (n : Node) :
    state net d (relabel f n) = state net d n := by
  simp only [state, bip9State, forced, length_relabel, winState_relabel]
  cases n <;> simp [relabel]

end BV.C14.Ident
