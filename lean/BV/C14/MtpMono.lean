/- C14: the timestamp rule (time > MTP of the parent) implies that the median time past never
   decreases along a chain. The median characterisation follows C09's proof. -/
import BV.C14.Spec
namespace BV.C14.MtpMono
open Spec

theorem insertSorted_perm (x : Int) (l : List Int) : (insertSorted x l).Perm (x :: l) := by
  induction l with
  | nil => exact List.Perm.refl _
  | cons y ys ih =>
    unfold insertSorted
    split
    · exact List.Perm.refl _
    · exact (List.Perm.cons y ih).trans (List.Perm.swap x y ys)

theorem sortInts_perm (l : List Int) : (sortInts l).Perm l := by
  induction l with
  | nil => exact List.Perm.refl _
  | cons x xs ih =>
    show (insertSorted x (sortInts xs)).Perm (x :: xs)
    exact (insertSorted_perm x _).trans (List.Perm.cons x ih)

theorem insertSorted_sorted (x : Int) (l : List Int) (h : l.Pairwise (· ≤ ·)) :
    (insertSorted x l).Pairwise (· ≤ ·) := by
  induction l with
  | nil => simp [insertSorted]
  | cons y ys ih =>
    unfold insertSorted
    have hy := List.pairwise_cons.mp h
    split
    · rename_i hxy
      refine List.pairwise_cons.mpr ⟨?_, h⟩
      intro a ha
      rcases List.mem_cons.mp ha with rfl | ha
      · exact hxy
      · exact Int.le_trans hxy (hy.1 a ha)
    · rename_i hxy
      refine List.pairwise_cons.mpr ⟨?_, ih hy.2⟩
      intro a ha
      have := (insertSorted_perm x ys).mem_iff.mp ha
      rcases List.mem_cons.mp this with rfl | ha
      · omega
      · exact hy.1 a ha

theorem sortInts_sorted (l : List Int) : (sortInts l).Pairwise (· ≤ ·) := by
  induction l with
  | nil => simp [sortInts]
  | cons x xs ih => exact insertSorted_sorted x _ ih

theorem median_split (a b : List Int) (m : Int) (hp : (a ++ m :: b).Pairwise (· ≤ ·)) :
    ((a ++ m :: b).filter (· < m)).length ≤ a.length ∧
    ((a ++ m :: b).filter (· > m)).length ≤ b.length := by
  have hp' := List.pairwise_append.mp hp
  have htail := List.pairwise_cons.mp hp'.2.1
  constructor
  · rw [List.filter_append]
    have : (m :: b).filter (· < m) = [] := by
      rw [List.filter_eq_nil_iff]
      intro x hx
      rcases List.mem_cons.mp hx with rfl | hx
      · simp
      · have := htail.1 x hx; simp; omega
    rw [this, List.append_nil]
    exact List.length_filter_le _ _
  · rw [List.filter_append]
    have h1 : a.filter (· > m) = [] := by
      rw [List.filter_eq_nil_iff]
      intro x hx
      have := hp'.2.2 x hx m (List.mem_cons_self)
      simp; omega
    rw [h1, List.nil_append, List.filter_cons]
    simp only [gt_iff_lt, Int.lt_irrefl, decide_false, Bool.false_eq_true, if_false]
    exact List.length_filter_le _ _

theorem median_of_sorted (s : List Int) (hs : s.Pairwise (· ≤ ·)) (k : Nat) (hk : k < s.length)
    (m : Int) (hm : m = s[k]) :
    (s.filter (· < m)).length ≤ k ∧ (s.filter (· > m)).length ≤ s.length - (k + 1) := by
  have hsplit : s = s.take k ++ m :: s.drop (k+1) := by
    rw [hm, List.getElem_cons_drop]; exact (List.take_append_drop k s).symm
  have hp : (s.take k ++ m :: s.drop (k+1)).Pairwise (· ≤ ·) := by rw [← hsplit]; exact hs
  have := median_split _ _ _ hp
  rw [← hsplit] at this
  rw [List.length_take, List.length_drop] at this
  omega

/-- the median of a non-empty timestamp list, as `mtp` computes it. -/
def med (ts : List Int) : Int := (sortInts ts).getD (ts.length / 2) 0

theorem med_is_median (ts : List Int) (hlen : 0 < ts.length) :
    (ts.filter (· < med ts)).length ≤ ts.length / 2 ∧
    (ts.filter (· > med ts)).length ≤ (ts.length - 1) / 2 := by
  have hperm := sortInts_perm ts
  have hsl : (sortInts ts).length = ts.length := hperm.length_eq
  have hk : ts.length / 2 < (sortInts ts).length := by omega
  have hm : med ts = (sortInts ts)[ts.length / 2] := by
    show (sortInts ts).getD (ts.length / 2) 0 = _
    rw [List.getD_eq_getElem?_getD, List.getElem?_eq_getElem hk]; rfl
  have hmed := median_of_sorted (sortInts ts) (sortInts_sorted ts) (ts.length / 2) hk _ hm
  refine ⟨?_, ?_⟩
  · rw [← (hperm.filter _).length_eq]; exact hmed.1
  · rw [← (hperm.filter _).length_eq]
    have := hmed.2; omega

/-! counting -/
theorem count_split (m : Int) (l : List Int) :
    (l.filter (· < m)).length + (l.filter (fun x => decide (m ≤ x))).length = l.length := by
  induction l with
  | nil => rfl
  | cons x xs ih =>
    simp only [List.filter_cons]
    by_cases h : x < m
    · have h' : ¬ m ≤ x := by omega
      simp only [h, h', decide_true, decide_false, if_true, List.length_cons]
      simp only [Bool.false_eq_true, if_false]; omega
    · have h' : m ≤ x := by omega
      simp only [h, h', decide_true, decide_false, if_true, List.length_cons]
      simp only [Bool.false_eq_true, if_false]; omega

theorem count_mono (p q : Int → Bool) (l : List Int) (h : ∀ x, p x = true → q x = true) :
    (l.filter p).length ≤ (l.filter q).length := by
  induction l with
  | nil => simp
  | cons x xs ih =>
    simp only [List.filter_cons]
    cases hp : p x
    · cases hq : q x
      · simpa using ih
      · simp only [Bool.false_eq_true, if_false, if_true, List.length_cons]; omega
    · simp only [h x hp, if_true, List.length_cons]; omega

theorem count_take (p : Int → Bool) (l : List Int) (k : Nat) :
    (l.filter p).length ≤ ((l.take k).filter p).length + (l.length - k) := by
  have h := List.take_append_drop k l
  have : (l.filter p).length = ((l.take k).filter p).length + ((l.drop k).filter p).length := by
    conv => lhs; rw [← h, List.filter_append, List.length_append]
  rw [this]
  have := List.length_filter_le p (l.drop k)
  rw [List.length_drop] at this
  omega

/-- pushing a timestamp above the current median onto the ≤ 11-window never lowers the median. -/
theorem med_push (t : Int) (ts : List Int) (h0 : 0 < ts.length) (h11 : ts.length ≤ 11)
    (ht : med ts < t) : med ts ≤ med (t :: ts.take 10) := by
  apply Int.not_lt.1
  intro hlt
  have hold := (med_is_median ts h0).1
  have hsplit := count_split (med ts) ts
  have hnew := (med_is_median (t :: ts.take 10) (by simp)).2
  -- elements ≥ old median are > new median
  have hmono := count_mono (fun x => decide (med ts ≤ x)) (· > med (t :: ts.take 10)) (t :: ts.take 10)
    (by intro x hx; simp only [decide_eq_true_eq, gt_iff_lt] at hx ⊢; omega)
  have htk := count_take (fun x => decide (med ts ≤ x)) ts 10
  have hcons : ((t :: ts.take 10).filter (fun x => decide (med ts ≤ x))).length =
      ((ts.take 10).filter (fun x => decide (med ts ≤ x))).length + 1 := by
    have : med ts ≤ t := by omega
    simp [this]
  have hl : (t :: ts.take 10).length = min 10 ts.length + 1 := by simp
  rw [hl] at hnew
  omega

theorem mtp_eq_med (n : Node) : mtp n = med ((n.take 11).map (·.time)) := rfl

theorem mtp_step (h g : Hdr) (rest : Node) (ht : mtp (g :: rest) < h.time) :
    mtp (g :: rest) ≤ mtp (h :: g :: rest) := by
  rw [mtp_eq_med, mtp_eq_med] at *
  have e : ((h :: g :: rest).take 11).map (·.time) =
      h.time :: (((g :: rest).take 11).map (·.time)).take 10 := by
    rw [← List.map_take, List.take_take]
    simp
  rw [e]
  apply med_push
  · simp
  · simp; omega
  · exact ht

theorem timeRule_mtpMono : ∀ (n : Node), timeRule n = true → mtpMono n = true
  | [], _ => rfl
  | [_], _ => rfl
  | h :: g :: rest, hr => by
    simp only [timeRule, Bool.and_eq_true, decide_eq_true_eq] at hr
    simp only [mtpMono, Bool.and_eq_true, decide_eq_true_eq]
    exact ⟨mtp_step h g rest hr.1, timeRule_mtpMono (g :: rest) hr.2⟩

end BV.C14.MtpMono
