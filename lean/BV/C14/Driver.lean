/- C14 line-protocol driver (core-only). See harness/p14/p14.go for the line format. -/
import BV.Common.Hex
import BV.C14.Model
import BV.C14.Warn
namespace BV.C14.Driver
open BV.Hex

/-- "-" is the zero `time.Time`; so is its Unix value -62135596800 (the representation corner:
    `time.Unix(-62135596800, 0).IsZero()` holds). -/
def optInt? (s : String) : Option (Option Int) :=
  if s == "-" then some none
  else match s.toInt? with
    | some v => if v == -62135596800 then some none else some (some v)
    | none => none

def parseDep? (s : String) : Option Dep :=
  match s.splitOn ":" with
  | [b, st, en, mh, ct, aa] => do
    let b ← b.toNat?
    let st ← optInt? st
    let en ← optInt? en
    let mh ← mh.toNat?
    let ct ← ct.toNat?
    let aa ← aa.toNat?
    pure ⟨b, st, en, mh, ct, aa⟩
  | _ => none

/-- nodes as ancestor paths; node i may only refer to an earlier parent. -/
def parseNodes? (toks : List String) : Option (Array Node) :=
  toks.foldlM (init := (#[] : Array Node)) fun acc s =>
    match s.splitOn ":" with
    | [p, v, t] => do
      let p ← p.toInt?
      let v ← hexToNat? v
      let t ← t.toInt?
      let i := acc.size
      if p < 0 then
        if i == 0 then pure (acc.push [⟨i, v, t⟩]) else none
      else
        if p.toNat < i then pure (acc.push (⟨i, v, t⟩ :: acc[p.toNat]!)) else none
    | _ => none

inductive Q
  | state (id : Nat) (n : Int)      -- s / d
  | active (id : Nat) (n : Int)
  | version (n : Int)
  | cache (id : Nat)
  | warn (bit : Nat) (n : Int)
  | gate (id : Nat) (n : Int)
  | hdr (id : Nat) (n : Int)
  | burst (id : Nat) (n : Int)
  | burstFresh (id : Nat) (n : Int)
  | mtp (n : Int)
  | clock (id : Nat) (n : Int)
  | gateExp (id : Nat) (n : Int) (mempool : Bool)
  | init (cur : Nat) (n : Int)
  | warnAll (n : Int)

def parseQuery? (s : String) : Option Q :=
  let kind := s.take 1 |>.toString
  let rest := s.drop 1 |>.toString
  match rest.splitOn "@" with
  | [a, n] => do
    let n ← n.toInt?
    if kind == "v" || kind == "V" then (if a == "" then some (.version n) else none)
    else if kind == "m" then (if a == "" then some (.mtp n) else none)
    else if kind == "W" then (if a == "" then some (.warnAll n) else none)
    else do
      let a ← a.toNat?
      if kind == "s" || kind == "d" then some (.state a n)
      else if kind == "a" then some (.active a n)
      else if kind == "w" then some (.warn a n)
      else if kind == "h" then some (.clock a n)
      else if kind == "H" then some (.hdr a n)
      else if kind == "P" then some (.burst a n)
      else if kind == "F" then some (.burstFresh a n)
      else if kind == "g" then some (.gate a n)
      else if kind == "G" then some (.gateExp a n false)
      else if kind == "M" then some (.gateExp a n true)
      else if kind == "I" then some (.init a n)
      else none
  | [a] => do
    let a ← a.toNat?
    if kind == "c" then some (.cache a) else none
  | _ => none

/-- histories on which the theorems speak: window ≥ 2 and MTP monotone on the queried chain. -/
def wf (net : Net) (n : Node) : Bool := decide (2 ≤ net.window) && Spec.mtpMono n

structure Ctx where
  net : Net
  nodes : Array Node
  inst : Warn.Inst

def nodeAt (cx : Ctx) (n : Int) : Option Node :=
  if n < 0 then some [] else cx.nodes[n.toNat]?

def ansStr (active : Bool) : Spec.Answer → String
  | .st s => if active then (if s == .active then "1" else "0") else toString (Spec.St.code s)
  | .ver v => natToHex v
  | .unknownId => "err"
  | .panic => "panic"
  | .flag _ => "ok"   -- the unknownRulesWarned field is internal: only "ran without error" is compared

/-- One query: `Warn.runQ` (the model of the whole chain instance) runs and threads the caches. On
    well-formed histories the answer printed is the Spec's (`Warn.specAnswer`; they agree by
    `history_eq_spec`, a disagreement would print `DIVERGE`); elsewhere the Model's answer is
    printed (ties the model to the code outside the theorems' hypotheses). -/
def ask (cx : Ctx) (q : Warn.Q) (active : Bool) : Ctx × String :=
  let (inst', a) := Warn.runQ cx.net cx.inst q
  let cx' := { cx with inst := inst' }
  if wf cx.net q.node then
    let sa := (Warn.specStep cx.net (cx.inst.cs.map (·.1)) cx.inst.warned q).2
    (cx', if sa == a then ansStr active sa else "DIVERGE:" ++ ansStr active sa ++ "/" ++ ansStr active a)
  else (cx', ansStr active a)

def runQuery (cx : Ctx) (q : Q) : Ctx × String :=
  match q with
  | .state id n =>
    match nodeAt cx n with
    | some nd => ask cx (.dep (.state id nd)) false
    | none => (cx, "bad-op")
  | .active id n =>
    match nodeAt cx n with
    | some nd => ask cx (.dep (.state id nd)) true
    | none => (cx, "bad-op")
  | .version n =>
    match nodeAt cx n with
    | some nd => ask cx (.dep (.version nd)) false
    | none => (cx, "bad-op")
  | .gate id n =>
    -- is BIP68 enforced when block n is validated? validate.go/chain.go consult
    -- deploymentState(n.parent, DeploymentCSV) == Active; the harness passes the id of DeploymentCSV.
    if n < 0 then (cx, "bad-op") else
    match nodeAt cx n with
    | some nd => ask cx (.dep (.state id nd.tail)) true
    | none => (cx, "bad-op")
  | .gateExp id n mempool =>
    -- exported CalcSequenceLock with best tip n: mempool semantics are always on; block validation
    -- semantics consult deploymentState(tip.parent, CSV)
    if n < 0 then (cx, "bad-op") else
    match nodeAt cx n with
    | some nd => if mempool then (cx, "1") else ask cx (.dep (.state id nd.tail)) true
    | none => (cx, "bad-op")
  | .mtp n =>
    -- BlockChain.PastMedianTime(header of n): needs the parent in the index
    if n < 0 then (cx, "bad-op") else
    match nodeAt cx n with
    | some [_] => (cx, "err")
    | some nd => (cx, toString (Spec.mtp nd))
    | none => (cx, "bad-op")
  | .burstFresh id n =>
    -- 12 concurrent calls on a fresh instance (k mod 3: state / active / version); this instance's
    -- caches are not touched
    match nodeAt cx n with
    | some nd =>
      let fx : Ctx := { cx with inst := Warn.freshInst (cx.inst.cs.map (·.1)) }
      let (f1, s) := ask fx (.dep (.state id nd)) false
      let (f2, a) := ask f1 (.dep (.state id nd)) true
      let (_, v) := ask f2 (.dep (.version nd)) false
      let toks := (List.range 12).map fun k => if k % 3 == 0 then s else if k % 3 == 1 then a else v
      (cx, if toks.contains "panic" then "panic" else "/".intercalate toks)
    | none => (cx, "bad-op")
  | .burst id n =>
    -- 2× ThresholdState, 2× IsDeploymentActive, 2× CalcNextBlockVersion, concurrently on one tip:
    -- whatever the interleaving, each answers as if asked alone
    match nodeAt cx n with
    | some nd =>
      let (cx1, s1) := ask cx (.dep (.state id nd)) false
      let (cx2, s2) := ask cx1 (.dep (.state id nd)) false
      let (cx3, a1) := ask cx2 (.dep (.state id nd)) true
      let (cx4, a2) := ask cx3 (.dep (.state id nd)) true
      let (cx5, v1) := ask cx4 (.dep (.version nd)) false
      let (cx6, v2) := ask cx5 (.dep (.version nd)) false
      let toks := [s1, s2, a1, a2, v1, v2]
      (cx6, if toks.contains "panic" then "panic" else "/".intercalate toks)
    | none => (cx, "bad-op")
  | .hdr id n =>
    -- PastMedianTime, HasStarted, HasEnded, PastMedianTime on ONE header object
    if n < 0 then (cx, "bad-op") else
    match nodeAt cx n, cx.inst.cs[id]? with
    | some nd, some (d, _) =>
      let noParent := nd.length == 1
      let m := if noParent then "err" else toString (Spec.mtp nd)
      let a := if d.start.isNone then "1" else if noParent then "e"
               else if Model.hasStarted d nd then "1" else "0"
      let b := if d.timeout.isNone then "0" else if noParent then "e"
               else if Model.hasEnded d nd then "1" else "0"
      (cx, m ++ "/" ++ a ++ b)
    | _, _ => (cx, "bad-op")
  | .clock id n =>
    if n < 0 then (cx, "bad-op") else
    match nodeAt cx n, cx.inst.cs[id]? with
    | some nd, some (d, _) =>
      let noParent := nd.length == 1
      let a := if d.start.isNone then "1" else if noParent then "e"
               else if Model.hasStarted d nd then "1" else "0"
      let b := if d.timeout.isNone then "0" else if noParent then "e"
               else if Model.hasEnded d nd then "1" else "0"
      (cx, a ++ b)
    | _, _ => (cx, "bad-op")
  | .init cur n =>
    if n < 0 then (cx, "bad-op") else
    match nodeAt cx n with
    | some nd => ask cx (.init nd (cur == 1)) false
    | none => (cx, "bad-op")
  | .warnAll n =>
    if n < 0 then (cx, "bad-op") else
    match nodeAt cx n with
    | some nd => ask cx (.warnAll nd) false
    | none => (cx, "bad-op")
  | .warn bit n =>
    match nodeAt cx n with
    | some nd => ask cx (.warn bit nd) false
    | none => (cx, "bad-op")
  | .cache id =>
    -- `cache_sound`: every entry of the model's cache is the BIP9 state of its node; the same is
    -- demanded of the real cache (checked on the Go side against a fresh instance).
    match cx.inst.cs[id]? with
    | some (d, c) =>
      (cx, if c.all (fun e => e.2 == Spec.bip9State cx.net d e.1) then "ok" else "DIVERGE")
    | none => (cx, "bad-op")

def runAll (cx : Ctx) : List Q → List String → List String
  | [], acc => acc.reverse
  | q :: qs, acc =>
    let (cx', s) := runQuery cx q
    runAll cx' qs (s :: acc)

def stateName (n : Nat) : String :=
  match n with
  | 0 => "ThresholdDefined" | 1 => "ThresholdStarted" | 2 => "ThresholdLockedIn"
  | 3 => "ThresholdActive" | 4 => "ThresholdFailed"
  | n => "Unknown_ThresholdState_(" ++ toString n ++ ")"

def handleQ (w t deps nodes queries : String) : String :=
  match w.toNat?, t.toNat?, (deps.splitOn ";").mapM parseDep?,
        parseNodes? (nodes.splitOn ","), (queries.splitOn ",").mapM parseQuery? with
  | some w, some t, some ds, some ns, some qs =>
    let cx : Ctx := { net := ⟨w, t⟩, nodes := ns, inst := Warn.freshInst ds }
    let outs := runAll cx qs []
    if outs.contains "bad-op" then "bad-op"
    else if outs.contains "panic" then "panic"   -- a Go panic aborts the whole line
    else ",".intercalate outs
  | _, _, _, _, _ => "bad-op"

def handleSubs (subs : String) : String :=
  "|".intercalate ((subs.splitOn "|").map fun sub =>
    match sub.splitOn "/" with
    | [w, t, deps, nodes, queries] => handleQ w t deps nodes queries
    | _ => "bad-op")

def handle : List String → String
  | ["q", w, t, deps, nodes, queries] => handleQ w t deps nodes queries
  -- independent instances: concurrently (par) or one after the other (seq) on the Go side; each
  -- answers as it would alone
  | ["seq", subs] => handleSubs subs
  | ["seqp", subs] => handleSubs subs
  | ["par", subs] => handleSubs subs
  | ["str", n] =>
    match n with
    | "defined" => stateName 0 | "started" => stateName 1 | "lockedin" => stateName 2
    | "active" => stateName 3 | "failed" => stateName 4 | "255" => stateName 255
    | _ => "bad-op"
  | ["eaa", a] =>
    match a.toNat? with
    | some a => toString (Spec.effAlwaysActive ⟨0, none, none, 0, 0, a % 4294967296⟩)
    | none => "bad-op"
  | ["clk", st, en, _] =>
    -- never synchronised with a clock: ErrNoBlockClock comes before the zero-time shortcut
    match optInt? st, optInt? en with
    | some _, some _ => "noclock,noclock," ++ st ++ "," ++ en
    | _, _ => "bad-op"
  | _ => "bad-op"

end BV.C14.Driver
