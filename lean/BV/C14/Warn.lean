/-
C14 — the unknown-rules warning path: `bitConditionChecker` run through the same
`thresholdState` with the per-bit `warningCaches` (versionbits.go / thresholdstate.go).
Spec: the BIP9 machine without start/timeout (always started, never ends, never fails) whose
"vote" of a block is: version-bits block with the bit set although the version expected after its
parent (from the known deployments) does not carry that bit. Core-only.
-/
import BV.C14.Model
namespace BV.C14.Warn
open Spec (mask VB_TOP_BITS VB_TOP_MASK anc)

/-! ### Spec -/

/-- the block at the head of `n` signals an unknown rule on `bit`. -/
def signals (net : Net) (deps : List Dep) (bit : Nat) : Node → Bool
  | [] => false
  | h :: par =>
    (h.version &&& VB_TOP_MASK == VB_TOP_BITS) && (h.version &&& mask bit != 0) &&
      (Spec.nextVersion net deps par &&& mask bit == 0)

/-- signalling blocks among the last `i` blocks ending in the head of the path. -/
def votes (net : Net) (deps : List Dep) (bit : Nat) : Nat → Node → Nat
  | 0, _ => 0
  | _ + 1, [] => 0
  | i + 1, h :: t => (if signals net deps bit (h :: t) then 1 else 0) + votes net deps bit i t

def step (net : Net) (deps : List Dep) (bit : Nat) (st : St) (b : Node) : St :=
  match st with
  | .defined => .started
  | .started => if net.threshold ≤ votes net deps bit net.window b then .lockedIn else .started
  | .lockedIn => .active
  | .active => .active
  | .failed => .failed

def winState (net : Net) (deps : List Dep) (bit : Nat) (n : Node) : Nat → St
  | 0 => .defined
  | k + 1 => step net deps bit (winState net deps bit n k) (anc n ((k + 1) * net.window))

/-- warning state for the block after `n`. -/
def state (net : Net) (deps : List Dep) (bit : Nat) (n : Node) : St :=
  winState net deps bit n (n.length / net.window)

/-! ### Model -/
open Model (Cache ChainSt calcNextBlockVersion)

/-- `bitConditionChecker.Condition(node)`; `calcNextBlockVersion(node.parent)` goes through (and
    updates) the deployment caches. `none` = Go panic (nil node). -/
def condition (net : Net) (bit : Nat) (cs : ChainSt) : Node → ChainSt × Option Bool
  | [] => (cs, none)
  | h :: par =>
    if h.version &&& VB_TOP_MASK != VB_TOP_BITS then (cs, some false)
    else if h.version &&& mask bit == 0 then (cs, some false)
    else
      match calcNextBlockVersion net cs par VB_TOP_BITS with
      | (cs', none) => (cs', none)
      | (cs', some v) => (cs', some (v &&& mask bit == 0))

/-- the vote-count loop of `thresholdStateTransition` with this checker. -/
def countVotes (net : Net) (bit : Nat) : Nat → ChainSt → Node → ChainSt × Option Nat
  | 0, cs, _ => (cs, some 0)
  | _ + 1, cs, [] => (cs, none)
  | i + 1, cs, h :: t =>
    match condition net bit cs (h :: t) with
    | (cs', none) => (cs', none)
    | (cs', some b) =>
      match countVotes net bit i cs' t with
      | (cs'', none) => (cs'', none)
      | (cs'', some c) => (cs'', some (if b then c + 1 else c))

/-- `thresholdStateTransition` with HasStarted = true, HasEnded = false, IsSpeedy = false,
    EligibleToActivate = true. -/
def transition (net : Net) (bit : Nat) (cs : ChainSt) (st : St) (b : Node) : ChainSt × Option St :=
  match st with
  | .defined => (cs, some .started)
  | .started =>
    match countVotes net bit net.window cs b with
    | (cs', none) => (cs', none)
    | (cs', some count) => (cs', some (if count ≥ net.threshold then .lockedIn else .started))
  | .lockedIn => (cs, some .active)
  | .active => (cs, some .active)
  | .failed => (cs, some .failed)

/-- walk back: HasStarted is always true, so only nil or a cached node stops it. -/
def walkBack (net : Net) : Nat → Cache → Node → List Node → St × List Node
  | 0, _, _, needed => (.defined, needed)
  | _ + 1, _, [], needed => (.defined, needed)
  | fuel + 1, c, h :: t, needed =>
    match c.get (h :: t) with
    | some st => (st, needed)
    | none => walkBack net fuel c ((h :: t).drop net.window) ((h :: t) :: needed)

def walkForward (net : Net) (bit : Nat) : Cache → ChainSt → St → List Node → Cache × ChainSt × Option St
  | c, cs, st, [] => (c, cs, some st)
  | c, cs, st, b :: rest =>
    match transition net bit cs st b with
    | (cs', none) => (c, cs', none)
    | (cs', some st') => walkForward net bit (c.put b st') cs' st' rest

/-- `thresholdState(prevNode, bitConditionChecker{bit}, &warningCaches[bit])`. -/
def thresholdState (net : Net) (bit : Nat) (c : Cache) (cs : ChainSt) (n : Node) :
    Cache × ChainSt × Option St :=
  if n.isEmpty then (c, cs, some .defined)
  else if net.window = 0 then (c, cs, none)
  else if n.length < net.window then (c, cs, some .defined)
  else
    let b := n.drop (n.length % net.window)
    match walkBack net b.length c b [] with
    | (st0, needed) => walkForward net bit c cs st0 needed

/-! ### a whole chain instance: deployment caches + one warning cache per bit + the warned flag -/
structure Inst where
  cs : ChainSt
  wcs : Nat → Cache
  warned : Bool := false

def freshInst (deps : List Dep) : Inst := ⟨Model.fresh deps, fun _ => [], false⟩

/-- the bits `initThresholdCaches` / `warnUnknownRuleActivations` loop over: 0 .. vbNumBits-1. -/
def warnBits : List Nat := List.range Spec.VB_NUM_BITS

inductive Q
  | dep (q : Spec.Query)
  | warn (bit : Nat) (n : Node)
  | warnAll (n : Node)                    -- warnUnknownRuleActivations(n)
  | init (n : Node) (current : Bool)      -- initThresholdCaches with best tip n

def Q.node : Q → Node
  | .dep q => q.node
  | .warn _ n => n
  | .warnAll n => n
  | .init n _ => n

def setW (i : Inst) (bit : Nat) (c' : Cache) (cs' : ChainSt) : Inst :=
  { i with cs := cs', wcs := fun b => if b = bit then c' else i.wcs b }

/-- one pass over the warning bits at `np` (the node BEFORE the block of interest); the result is
    whether some bit is Active. -/
def warnLoop (net : Net) (np : Node) : List Nat → Inst → Inst × Option Bool
  | [], i => (i, some false)
  | bit :: bits, i =>
    match thresholdState net bit (i.wcs bit) i.cs np with
    | (c', cs', none) => (setW i bit c' cs', none)
    | (c', cs', some st) =>
      match warnLoop net np bits (setW i bit c' cs') with
      | (i', none) => (i', none)
      | (i', some b) => (i', some (b || st == .active))

/-- `warnUnknownRuleActivations(n)`: states for the block `n` itself (from `n.parent`); the first
    Active bit sets `unknownRulesWarned` (LockedIn only logs). -/
def warnAll (net : Net) (i : Inst) (n : Node) : Inst × Spec.Answer :=
  match warnLoop net n.tail warnBits i with
  | (i', none) => (i', .panic)
  | (i', some b) => ({ i' with warned := i'.warned || b }, .flag (i'.warned || b))

/-- `initThresholdCaches` with best tip `n`: every warning bit, then every deployment, at
    `n.parent`; if the chain is current, `warnUnknownRuleActivations(n)`. -/
def initCaches (net : Net) (i : Inst) (n : Node) (current : Bool) : Inst × Spec.Answer :=
  match warnLoop net n.tail warnBits i with
  | (i1, none) => (i1, .panic)
  | (i1, some _) =>
    match calcNextBlockVersion net i1.cs n.tail VB_TOP_BITS with
    | (cs2, none) => ({ i1 with cs := cs2 }, .panic)
    | (cs2, some _) =>
      if current then warnAll net { i1 with cs := cs2 } n
      else ({ i1 with cs := cs2 }, .flag i1.warned)

def runQ (net : Net) (i : Inst) : Q → Inst × Spec.Answer
  | .dep q =>
    match Model.runQuery net i.cs q with
    | (cs', a) => ({ i with cs := cs' }, a)
  | .warn bit n =>
    match thresholdState net bit (i.wcs bit) i.cs n with
    | (c', cs', r) => (setW i bit c' cs', Model.ansOf r)
  | .warnAll n => warnAll net i n
  | .init n cur => initCaches net i n cur

def runQs (net : Net) : Inst → List Q → Inst × List Spec.Answer
  | i, [] => (i, [])
  | i, q :: qs =>
    match runQ net i q with
    | (i', a) =>
      match runQs net i' qs with
      | (i'', as) => (i'', a :: as)

/-! the Spec side: answers depend on the history only through the sticky `warned` flag. -/
def anyActive (net : Net) (deps : List Dep) (np : Node) : Bool :=
  warnBits.any (fun bit => state net deps bit np == .active)

def specStep (net : Net) (deps : List Dep) (w : Bool) : Q → Bool × Spec.Answer
  | .dep q => (w, Spec.answer net deps q)
  | .warn bit n => (w, .st (state net deps bit n))
  | .warnAll n => (w || anyActive net deps n.tail, .flag (w || anyActive net deps n.tail))
  | .init n cur =>
    if cur then (w || anyActive net deps n.tail, .flag (w || anyActive net deps n.tail))
    else (w, .flag w)

def specRun (net : Net) (deps : List Dep) : Bool → List Q → List Spec.Answer
  | _, [] => []
  | w, q :: qs => (specStep net deps w q).2 :: specRun net deps (specStep net deps w q).1 qs

end BV.C14.Warn
