/-
C14 — the unknown-rules warning path: `bitConditionChecker` run through the same
`thresholdState` with the per-bit `warningCaches` (versionbits.go / thresholdstate.go).
Spec: the BIP9 machine without start/timeout (always started, never ends, never fails) whose
"vote" of a block is: version-bits block with the bit set although the version expected after its
parent (from the known deployments) does not carry that bit. Core-only.
-/
import BV.C14.Model
namespace BV.C14.Warn
open Spec (mask VB_TOP_BITS VB_TOP_MASK anc)

/-! ### Spec -/

/-- the block at the head of `n` signals an unknown rule on `bit`. -/
def signals (net : Net) (deps : List Dep) (bit : Nat) : Node → Bool
  | [] => false
  | h :: par =>
    (h.version &&& VB_TOP_MASK == VB_TOP_BITS) && (h.version &&& mask bit != 0) &&
      (Spec.nextVersion net deps par &&& mask bit == 0)

/-- signalling blocks among the last `i` blocks ending in the head of the path. -/
def votes (net : Net) (deps : List Dep) (bit : Nat) : Nat → Node → Nat
  | 0, _ => 0
  | _ + 1, [] => 0
  | i + 1, h :: t => (if signals net deps bit (h :: t) then 1 else 0) + votes net deps bit i t

def step (net : Net) (deps : List Dep) (bit : Nat) (st : St) (b : Node) : St :=
  match st with
  | .defined => .started
  | .started => if net.threshold ≤ votes net deps bit net.window b then .lockedIn else .started
  | .lockedIn => .active
  | .active => .active
  | .failed => .failed

def winState (net : Net) (deps : List Dep) (bit : Nat) (n : Node) : Nat → St
  | 0 => .defined
  | k + 1 => step net deps bit (winState net deps bit n k) (anc n ((k + 1) * net.window))

/-- warning state for the block after `n`. -/
def state (net : Net) (deps : List Dep) (bit : Nat) (n : Node) : St :=
  winState net deps bit n (n.length / net.window)

/-! ### Model -/
open Model (Cache ChainSt calcNextBlockVersion)

/-- `bitConditionChecker.Condition(node)`; `calcNextBlockVersion(node.parent)` goes through (and
    updates) the deployment caches. `none` = Go panic (nil node). -/
def condition (net : Net) (bit : Nat) (cs : ChainSt) : Node → ChainSt × Option Bool
  | [] => (cs, none)
  | h :: par =>
    if h.version &&& VB_TOP_MASK != VB_TOP_BITS then (cs, some false)
    else if h.version &&& mask bit == 0 then (cs, some false)
    else
      match calcNextBlockVersion net cs par VB_TOP_BITS with
      | (cs', none) => (cs', none)
      | (cs', some v) => (cs', some (v &&& mask bit == 0))

/-- the vote-count loop of `thresholdStateTransition` with this checker. -/
def countVotes (net : Net) (bit : Nat) : Nat → ChainSt → Node → ChainSt × Option Nat
  | 0, cs, _ => (cs, some 0)
  | _ + 1, cs, [] => (cs, none)
  | i + 1, cs, h :: t =>
    match condition net bit cs (h :: t) with
    | (cs', none) => (cs', none)
    | (cs', some b) =>
      match countVotes net bit i cs' t with
      | (cs'', none) => (cs'', none)
      | (cs'', some c) => (cs'', some (if b then c + 1 else c))

/-- `thresholdStateTransition` with HasStarted = true, HasEnded = false, IsSpeedy = false,
    EligibleToActivate = true. -/
def transition (net : Net) (bit : Nat) (cs : ChainSt) (st : St) (b : Node) : ChainSt × Option St :=
  match st with
  | .defined => (cs, some .started)
  | .started =>
    match countVotes net bit net.window cs b with
    | (cs', none) => (cs', none)
    | (cs', some count) => (cs', some (if count ≥ net.threshold then .lockedIn else .started))
  | .lockedIn => (cs, some .active)
  | .active => (cs, some .active)
  | .failed => (cs, some .failed)

/-- walk back: HasStarted is always true, so only nil or a cached node stops it. -/
def walkBack (net : Net) : Nat → Cache → Node → List Node → St × List Node
  | 0, _, _, needed => (.defined, needed)
  | _ + 1, _, [], needed => (.defined, needed)
  | fuel + 1, c, h :: t, needed =>
    match c.get (h :: t) with
    | some st => (st, needed)
    | none => walkBack net fuel c ((h :: t).drop net.window) ((h :: t) :: needed)

def walkForward (net : Net) (bit : Nat) : Cache → ChainSt → St → List Node → Cache × ChainSt × Option St
  | c, cs, st, [] => (c, cs, some st)
  | c, cs, st, b :: rest =>
    match transition net bit cs st b with
    | (cs', none) => (c, cs', none)
    | (cs', some st') => walkForward net bit (c.put b st') cs' st' rest

/-- `thresholdState(prevNode, bitConditionChecker{bit}, &warningCaches[bit])`. -/
def thresholdState (net : Net) (bit : Nat) (c : Cache) (cs : ChainSt) (n : Node) :
    Cache × ChainSt × Option St :=
  if n.isEmpty then (c, cs, some .defined)
  else if net.window = 0 then (c, cs, none)
  else if n.length < net.window then (c, cs, some .defined)
  else
    let b := n.drop (n.length % net.window)
    match walkBack net b.length c b [] with
    | (st0, needed) => walkForward net bit c cs st0 needed

/-! ### a whole chain instance: deployment caches + one warning cache per bit -/
structure Inst where
  cs : ChainSt
  wcs : Nat → Cache

def freshInst (deps : List Dep) : Inst := ⟨Model.fresh deps, fun _ => []⟩

inductive Q
  | dep (q : Spec.Query)
  | warn (bit : Nat) (n : Node)

def Q.node : Q → Node
  | .dep q => q.node
  | .warn _ n => n

def runQ (net : Net) (i : Inst) : Q → Inst × Spec.Answer
  | .dep q =>
    match Model.runQuery net i.cs q with
    | (cs', a) => (⟨cs', i.wcs⟩, a)
  | .warn bit n =>
    match thresholdState net bit (i.wcs bit) i.cs n with
    | (c', cs', r) => (⟨cs', fun b => if b = bit then c' else i.wcs b⟩, Model.ansOf r)

def runQs (net : Net) : Inst → List Q → Inst × List Spec.Answer
  | i, [] => (i, [])
  | i, q :: qs =>
    match runQ net i q with
    | (i', a) =>
      match runQs net i' qs with
      | (i'', as) => (i'', a :: as)

def specAnswer (net : Net) (deps : List Dep) : Q → Spec.Answer
  | .dep q => Spec.answer net deps q
  | .warn bit n => .st (state net deps bit n)

end BV.C14.Warn
