/- C14 — the deployment tables of the six shipped networks, as the Spec's own constants
   (pinned against the values regenerated from /repo in Props). Core-only. -/
import BV.C14.Spec
namespace BV.C14.Shipped

/-- the order the harness emits a deployment in:
    [bit, hasStart, start, hasEnd, end, minHeight, customThreshold, alwaysActiveHeight]. -/
def encode (d : Dep) : List Int :=
  [d.bit, if d.start.isSome then 1 else 0, d.start.getD 0, if d.timeout.isSome then 1 else 0,
   d.timeout.getD 0, d.minHeight, d.customThreshold, d.alwaysActive]

def always (bit : Nat) (minH cthr aah : Nat) : Dep := ⟨bit, none, none, minH, cthr, aah⟩
def timed (bit : Nat) (s e : Int) (minH cthr : Nat) : Dep := ⟨bit, some s, some e, minH, cthr, 0⟩

/- deployment ids: 0 TestDummy, 1 TestDummyMinActivation, 2 CSV, 3 Segwit, 4 Taproot,
   5 TestDummyAlwaysActive -/
def mainNet : Net := ⟨2016, 1916⟩
def mainDeps : List Dep :=
  [ timed 28 11991456010 1230767999 0 0,   -- start time as shipped (Core: 1199145601)
    always 22 100000 1815 0,
    timed 0 1462060800 1493596800 0 0,
    timed 1 1479168000 1510704000 0 0,
    timed 2 1619222400 1628640000 709632 1815,
    always 30 0 0 1 ]

def test3Net : Net := ⟨2016, 1512⟩
def test3Deps : List Dep :=
  [ timed 28 1199145601 1230767999 0 0,
    always 22 100000 1815 0,
    timed 0 1456790400 1493596800 0 0,
    timed 1 1462060800 1493596800 0 0,
    timed 2 1619222400 1628640000 0 1512,
    always 30 0 0 1 ]

def test4Net : Net := ⟨2016, 1512⟩
def test4Deps : List Dep :=
  [ timed 28 1199145601 1230767999 0 0,
    always 22 100000 1815 0,
    always 31 0 0 1,
    always 29 0 0 1,
    always 2 0 0 1,
    always 30 0 0 1 ]

def sigNet : Net := ⟨2016, 1916⟩
def sigDeps : List Dep :=
  [ timed 28 1199145601 1230767999 0 0,
    always 22 100000 1815 0,
    always 29 0 0 0,
    always 29 0 0 0,
    always 29 0 0 0,
    always 30 0 0 1 ]

def regNet : Net := ⟨144, 108⟩
def regDeps : List Dep :=
  [ always 28 0 0 0,
    always 22 600 72 0,
    always 0 0 0 1,
    always 1 0 0 1,
    always 2 0 108 1,
    always 30 0 0 1 ]

def simNet : Net := ⟨100, 75⟩
def simDeps : List Dep :=
  [ always 28 0 0 0,
    always 22 600 50 0,
    always 0 0 0 0,
    always 1 0 0 0,
    always 2 0 75 0,
    always 29 0 0 1 ]

def all : List (Net × List Dep) :=
  [(mainNet, mainDeps), (test3Net, test3Deps), (test4Net, test4Deps), (sigNet, sigDeps),
   (regNet, regDeps), (simNet, simDeps)]

/-- the timeout does not precede the start time (when both are set). -/
def startBeforeTimeout (d : Dep) : Bool :=
  match d.start, d.timeout with
  | some s, some e => decide (s ≤ e)
  | _, _ => true

end BV.C14.Shipped
