/-
C14 — soft-fork deployment state: the BIP9 state machine (with the BIP341 "speedy trial"
variant, minimum activation height, custom threshold and always-active height) evaluated at the
window boundaries of a block's own ancestor chain. Core-only.

A block-tree node is represented by its ancestor path, tip first (`[]` = "no block yet").
The block AFTER node `n` has height `n.length`.
-/
namespace BV.C14

/-- The header fields the version-bits rules read. `id` stands for everything else that makes
    block hashes distinct (nonce, merkle root); no rule reads it. -/
structure Hdr where
  id : Nat
  version : Nat      -- the int32 version viewed as uint32
  time : Int
  deriving DecidableEq, Repr

abbrev Node := List Hdr

inductive St
  | defined | started | lockedIn | active | failed
  deriving DecidableEq, Repr

/-- `chaincfg.ConsensusDeployment`. `start = none`: always started (zero time);
    `timeout = none`: never ends (zero time). -/
structure Dep where
  bit : Nat
  start : Option Int
  timeout : Option Int
  minHeight : Nat
  customThreshold : Nat
  alwaysActive : Nat
  deriving DecidableEq, Repr

/-- network-level parameters: `MinerConfirmationWindow`, `RuleChangeActivationThreshold`. -/
structure Net where
  window : Nat
  threshold : Nat
  deriving DecidableEq, Repr

namespace Spec

def VB_TOP_BITS : Nat := 0x20000000
def VB_TOP_MASK : Nat := 0xe0000000
def VB_NUM_BITS : Nat := 29
def MEDIAN_TIME_SPAN : Nat := 11

def St.code : St → Nat
  | .defined => 0 | .started => 1 | .lockedIn => 2 | .active => 3 | .failed => 4

/-! ### median time past (upper median of the last ≤ 11 timestamps, as C09 proves) -/
def insertSorted (x : Int) : List Int → List Int
  | [] => [x]
  | y :: ys => if x ≤ y then x :: y :: ys else y :: insertSorted x ys
def sortInts (l : List Int) : List Int := l.foldr insertSorted []

def mtp (n : Node) : Int :=
  let ts := (n.take MEDIAN_TIME_SPAN).map (·.time)
  (sortInts ts).getD (ts.length / 2) 0

/-! ### deployment predicates -/
def started (d : Dep) (b : Node) : Bool :=
  match d.start with
  | none => true
  | some s => decide (s ≤ mtp b)

def ended (d : Dep) (b : Node) : Bool :=
  match d.timeout with
  | none => false
  | some e => decide (e ≤ mtp b)

/-- speedy-trial mode: btcd derives it from "has a min activation height or a custom threshold". -/
def speedy (d : Dep) : Bool := d.minHeight != 0 || d.customThreshold != 0

def threshold (net : Net) (d : Dep) : Nat :=
  if d.customThreshold != 0 then d.customThreshold else net.threshold

/-- `uint32(1) << bit` (a Go shift by ≥ 32 gives 0). -/
def mask (bit : Nat) : Nat := if bit < 32 then 2 ^ bit else 0

/-- a header signals for `d`: top three bits are 001 and the deployment bit is set. -/
def signals (d : Dep) (h : Hdr) : Bool :=
  (h.version &&& VB_TOP_MASK == VB_TOP_BITS) && (h.version &&& mask d.bit != 0)

/-- votes in the window whose last block is `b`. -/
def votes (net : Net) (d : Dep) (b : Node) : Nat :=
  ((b.take net.window).filter (signals d)).length

/-- min activation height: the NEXT block's height (`b.length`) must have reached it. -/
def eligible (d : Dep) (b : Node) : Bool := d.minHeight == 0 || decide (d.minHeight ≤ b.length)

/-- One window-boundary transition; `b` is the last block of the window that just ended.
    Legacy BIP9: timeout is checked before start (DEFINED) and before the vote count (STARTED).
    Speedy trial: no DEFINED → FAILED; in STARTED the vote count wins over the timeout. -/
def step (net : Net) (d : Dep) (st : St) (b : Node) : St :=
  match st with
  | .defined =>
    if !speedy d && ended d b then .failed
    else if started d b then .started else .defined
  | .started =>
    if !speedy d && ended d b then .failed
    else if threshold net d ≤ votes net d b then .lockedIn
    else if speedy d && ended d b then .failed
    else .started
  | .lockedIn => if eligible d b then .active else .lockedIn
  | .active => .active
  | .failed => .failed

/-- the ancestor-or-self of `n` whose path has length `len`. -/
def anc (n : Node) (len : Nat) : Node := n.drop (n.length - len)

/-- state of window `k` on `n`'s own chain: window 0 is DEFINED; window `k+1` is one `step`
    from window `k`, looking at the last block of window `k` (path length `(k+1)·W`). -/
def winState (net : Net) (d : Dep) (n : Node) : Nat → St
  | 0 => .defined
  | k + 1 => step net d (winState net d n k) (anc n ((k + 1) * net.window))

/-- BIP9 state for the block after `n`: the state of the window that block falls into. -/
def bip9State (net : Net) (d : Dep) (n : Node) : St :=
  winState net d n (n.length / net.window)

/-- `EffectiveAlwaysActiveHeight`: 0 means "never" (MaxUint32). -/
def effAlwaysActive (d : Dep) : Nat := if d.alwaysActive == 0 then 4294967295 else d.alwaysActive

def forced (d : Dep) (n : Node) : Bool := !n.isEmpty && decide (effAlwaysActive d ≤ n.length)

/-- The deployment state for the block after `n`. -/
def state (net : Net) (d : Dep) (n : Node) : St :=
  if forced d n then .active else bip9State net d n

def signalling (s : St) : Bool := s == .started || s == .lockedIn

/-- version proposed for the block after `n`. -/
def nextVersion (net : Net) (deps : List Dep) (n : Node) : Nat :=
  deps.foldl (fun v d => if signalling (state net d n) then v ||| mask d.bit else v) VB_TOP_BITS

/-! ### queries and their observable answers -/
/-- `state id n`: `deploymentState(n, id)` (also behind `ThresholdState`/`IsDeploymentActive` with
    tip `n`); `version n`: `calcNextBlockVersion(n)`. -/
inductive Query
  | state (id : Nat) (n : Node)
  | version (n : Node)

def Query.node : Query → Node
  | .state _ n => n
  | .version n => n

inductive Answer
  | st (s : St)
  | ver (v : Nat)
  | unknownId
  | panic
  | flag (warned : Bool)      -- BlockChain.unknownRulesWarned after the call
  deriving DecidableEq, Repr

/-- what the Spec answers, given the deployment table. -/
def answer (net : Net) (deps : List Dep) : Query → Answer
  | .state id n =>
    match deps[id]? with
    | some d => .st (state net d n)
    | none => .unknownId
  | .version n => .ver (nextVersion net deps n)

/-! ### well-formed histories -/
/-- median time past never decreases along the chain (implied by the timestamp rule). -/
def mtpMono : Node → Bool
  | [] => true
  | [_] => true
  | h :: g :: rest => decide (mtp (g :: rest) ≤ mtp (h :: g :: rest)) && mtpMono (g :: rest)

/-- the timestamp rule every accepted header obeys: time > MTP of its parent. -/
def timeRule : Node → Bool
  | [] => true
  | [_] => true
  | h :: g :: rest => decide (mtp (g :: rest) < h.time) && timeRule (g :: rest)

end Spec
end BV.C14
