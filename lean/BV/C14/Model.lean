/-
C14 — executable mirror of btcd's blockchain/thresholdstate.go + versionbits.go:
`thresholdState` (cache keyed by block hash, walk back to the nearest cached / not-started
window boundary, walk forward through `thresholdStateTransition`), `deploymentChecker`,
`calcNextBlockVersion`. Core-only.

A `*blockNode` is its ancestor path (tip first, `[]` = nil). The cache key is the path itself:
block hashes are assumed collision-free, and a hash commits to the whole ancestor path.
`none` as a result stands for a Go run-time panic.
-/
import BV.C14.Spec
namespace BV.C14
namespace Model
open Spec (mtp mask VB_TOP_BITS VB_TOP_MASK)

/-! ### deploymentChecker -/

/-- `deploymentChecker.HasStarted`: zero start time ⇒ true; else the chain's clock recomputes the
    node's median time from its header — which needs the parent in the block index, so for the
    parentless node the clock errors and the error is dropped (⇒ false). -/
def hasStarted (d : Dep) (b : Node) : Bool :=
  match d.start with
  | none => true
  | some s =>
    match b with
    | [_] => false
    | _ => decide (mtp b ≥ s)

def hasEnded (d : Dep) (b : Node) : Bool :=
  match d.timeout with
  | none => false
  | some e =>
    match b with
    | [_] => false
    | _ => decide (mtp b ≥ e)

def isSpeedy (d : Dep) : Bool := d.minHeight != 0 || d.customThreshold != 0

def ruleChangeActivationThreshold (net : Net) (d : Dep) : Nat :=
  if d.customThreshold != 0 then d.customThreshold else net.threshold

def eligibleToActivate (d : Dep) (b : Node) : Bool :=
  if d.minHeight == 0 then true else decide (b.length ≥ d.minHeight)

def condition (d : Dep) (h : Hdr) : Bool :=
  (h.version &&& VB_TOP_MASK == VB_TOP_BITS) && (h.version &&& mask d.bit != 0)

def forceActive (d : Dep) (n : Node) : Bool :=
  match n with
  | [] => false
  | _ =>
    let eff := if d.alwaysActive == 0 then 4294967295 else d.alwaysActive
    decide (n.length ≥ eff)

/-- the vote-count loop: `confirmationWindow` iterations of `Condition(countNode)`,
    `countNode = countNode.parent`; a nil `countNode` is a nil dereference. -/
def countVotes (d : Dep) : Nat → Node → Option Nat
  | 0, _ => some 0
  | _ + 1, [] => none
  | i + 1, h :: rest =>
    match countVotes d i rest with
    | none => none
    | some c => some (if condition d h then c + 1 else c)

/-- `thresholdStateTransition`. -/
def transition (net : Net) (d : Dep) (st : St) (b : Node) : Option St :=
  match st with
  | .defined =>
    if !isSpeedy d && hasEnded d b then some .failed
    else if hasStarted d b then some .started
    else some .defined
  | .started =>
    if !isSpeedy d && hasEnded d b then some .failed
    else
      match countVotes d net.window b with
      | none => none
      | some count =>
        if count ≥ ruleChangeActivationThreshold net d then some .lockedIn
        else if isSpeedy d && hasEnded d b then some .failed
        else some .started
  | .lockedIn => if !eligibleToActivate d b then some .lockedIn else some .active
  | .active => some .active
  | .failed => some .failed

/-! ### the cache -/
abbrev Cache := List (Node × St)

def Cache.get : Cache → Node → Option St
  | [], _ => none
  | (k, v) :: r, n => if k = n then some v else Cache.get r n

def Cache.put (c : Cache) (n : Node) (s : St) : Cache := (n, s) :: c

/-- the walk back over window boundaries: stop at nil, at a cached node, or at a node that has not
    started (cache the shortcut state and stop); otherwise remember the node and step one window
    back. Returns the cache, the state to start from and the nodes to compute, oldest first.
    `fuel ≥ b.length` always suffices. -/
def walkBack (net : Net) (d : Dep) : Nat → Cache → Node → List Node → Cache × St × List Node
  | 0, c, _, needed => (c, .defined, needed)
  | _ + 1, c, [], needed => (c, .defined, needed)
  | fuel + 1, c, h :: t, needed =>
    match c.get (h :: t) with
    | some st => (c, st, needed)
    | none =>
      if !hasStarted d (h :: t) then
        let st := if !isSpeedy d && hasEnded d (h :: t) then St.failed else St.defined
        (c.put (h :: t) st, st, needed)
      else walkBack net d fuel c ((h :: t).drop net.window) ((h :: t) :: needed)

/-- the walk forward: apply the transition per remembered boundary, caching each result. -/
def walkForward (net : Net) (d : Dep) : Cache → St → List Node → Cache × Option St
  | c, st, [] => (c, some st)
  | c, st, b :: rest =>
    match transition net d st b with
    | none => (c, none)
    | some st' => walkForward net d (c.put b st') st' rest

/-- `BlockChain.thresholdState` for a `deploymentChecker`. -/
def thresholdState (net : Net) (d : Dep) (c : Cache) (n : Node) : Cache × Option St :=
  if forceActive d n then (c, some .active)
  else if n.isEmpty then (c, some .defined)
  else if net.window = 0 then (c, none)              -- integer modulo by zero
  else if n.length < net.window then (c, some .defined)
  else
    let b := n.drop (n.length % net.window)
    let (c1, st0, needed) := walkBack net d b.length c b []
    walkForward net d c1 st0 needed

/-- `calcNextBlockVersion`: every deployment (with its own cache), in order. -/
def calcNextBlockVersion (net : Net) : List (Dep × Cache) → Node → Nat → List (Dep × Cache) × Option Nat
  | [], _, v => ([], some v)
  | (d, c) :: rest, n, v =>
    match thresholdState net d c n with
    | (c', none) => ((d, c') :: rest, none)
    | (c', some st) =>
      let v' := if st = .started ∨ st = .lockedIn then v ||| mask d.bit else v
      let (rest', r) := calcNextBlockVersion net rest n v'
      ((d, c') :: rest', r)

/-! ### a chain instance: one cache per deployment, queried in any order -/
abbrev ChainSt := List (Dep × Cache)

def ansOf : Option St → Spec.Answer
  | some s => .st s
  | none => .panic

/-- `deploymentState(n, id)` on the instance: picks deployment `id` and ITS cache. -/
def stateAt (net : Net) : ChainSt → Nat → Node → ChainSt × Spec.Answer
  | [], _, _ => ([], .unknownId)
  | (d, c) :: rest, 0, n =>
    match thresholdState net d c n with
    | (c', r) => ((d, c') :: rest, ansOf r)
  | dc :: rest, id + 1, n =>
    match stateAt net rest id n with
    | (rest', a) => (dc :: rest', a)

def runQuery (net : Net) (cs : ChainSt) : Spec.Query → ChainSt × Spec.Answer
  | .state id n => stateAt net cs id n
  | .version n =>
    match calcNextBlockVersion net cs n VB_TOP_BITS with
    | (cs', some v) => (cs', .ver v)
    | (cs', none) => (cs', .panic)

/-- a whole history of queries on one instance; answers in order. -/
def runQueries (net : Net) : ChainSt → List Spec.Query → ChainSt × List Spec.Answer
  | cs, [] => (cs, [])
  | cs, q :: qs =>
    match runQuery net cs q with
    | (cs', a) =>
      match runQueries net cs' qs with
      | (cs'', as) => (cs'', a :: as)

/-- a fresh instance: empty caches. -/
def fresh (deps : List Dep) : ChainSt := deps.map (fun d => (d, []))

end Model
end BV.C14
