/-
C17 Spec — the naive definitions: a block tree is a parent function on node ids
(`P n = none` for a root, `P n = some p` with `p < n` otherwise); every query is stated as a
plain walk of parent links.  Core-only.
-/
namespace BV.C17.Spec

/-- block status flag bits (pinned against the code's values in Props) -/
def STATUS_DATA_STORED : Nat := 1
def STATUS_VALID : Nat := 2
def STATUS_VALIDATE_FAILED : Nat := 4
def STATUS_INVALID_ANCESTOR : Nat := 8
def STATUS_HEADER_STORED : Nat := 16
/-- wire limits: headers per `headers` message, hashes per locator -/
def MAX_HEADERS_PER_MSG : Nat := 2000
def MAX_LOCATORS_PER_MSG : Nat := 500

/-- the tree given by a parent list: node 0 is the root, node `i+1` has parent `ps[i]` -/
def parentOf (ps : List Nat) (n : Nat) : Option Nat := if n = 0 then none else ps[n - 1]?

/-- the parent walk `[n, parent n, parent (parent n), …]` (at most `fuel` links) -/
def chainUp (P : Nat → Option Nat) : Nat → Nat → List Nat
  | 0, n => [n]
  | f+1, n => match P n with
    | none => [n]
    | some p => n :: chainUp P f p

/-- ancestors of `n`, tip first, root last (`n` links suffice because parents have smaller ids) -/
def pathUp (P : Nat → Option Nat) (n : Nat) : List Nat := chainUp P n n

/-- the same walk root first: element `h` is the ancestor of `n` at height `h` -/
def pathDown (P : Nat → Option Nat) (n : Nat) : List Nat := (pathUp P n).reverse

/-- height = number of parent links to the root -/
def depth (P : Nat → Option Nat) (n : Nat) : Nat := (pathUp P n).length - 1

/-- ancestor of `n` at absolute height `h` (`none` when negative or above `n`) -/
def ancestorAt (P : Nat → Option Nat) (n : Nat) (h : Int) : Option Nat :=
  if h < 0 then none else (pathDown P n)[h.toNat]?

/-- `a` is a strict ancestor of `n` -/
def isStrictAncestor (P : Nat → Option Nat) (n a : Nat) : Bool :=
  a ≠ n && (pathUp P n).contains a

/-- lowest common ancestor by the naive walk: first element of `n`'s walk that lies on `t`'s walk -/
def lca (P : Nat → Option Nat) (t n : Nat) : Option Nat :=
  (pathUp P n).find? (fun a => (pathUp P t).contains a)

/-- heights listed by a block locator started at height `h`: 12 single steps, then the step doubles;
    always ends at 0.  `cnt` = entries already emitted, `fuel ≥ h+1`. -/
def locatorHeightsAux : Nat → Nat → Nat → Nat → List Nat
  | 0, h, _, _ => [h]
  | f+1, h, step, cnt =>
    if h = 0 then [0] else
    h :: locatorHeightsAux f (h - step) (if cnt + 1 > 10 then step * 2 else step) (cnt + 1)

def locatorHeights (h : Nat) : List Nat := locatorHeightsAux (h + 1) h 1 0

/-- elements up to and including the first one satisfying `p` -/
def takeThrough (p : Nat → Bool) : List Nat → List Nat
  | [] => []
  | x :: xs => if p x then [x] else x :: takeThrough p xs

/-- the blocks of the active chain `chain` (root first) that follow the first locator entry found
    on it; the blocks after the root when no entry is on it -/
def afterStart (chain : List Nat) (locator : List Nat) : List Nat :=
  match locator.find? (fun x => chain.contains x) with
  | some s => (chain.dropWhile (· != s)).drop 1
  | none => chain.drop 1

/-- locator-driven inventory on the active chain `chain` (root first): `known` = ids present in
    the index.  Empty locator: just the stop block when known.  Otherwise the blocks that follow the
    first locator entry found on the active chain (the blocks after the root when none is), up to
    and including the stop block when it is among them, at most `max`. -/
def locate (chain : List Nat) (known : Nat → Bool) (locator : List Nat) (stop : Nat) (max : Nat) : List Nat :=
  if locator = [] then (if known stop then [stop] else [])
  else
    (takeThrough (· == stop) (afterStart chain locator)).take max

end BV.C17.Spec
