/-
C17 Model, part 2 — headers-first tracking (light version):
  blockchain/accept.go   maybeAcceptBlockHeader (best-header selection), maybeAcceptBlock
  blockchain/process.go  ProcessBlockHeader, ProcessBlock (duplicates, orphans, processOrphans)
  blockchain/chain.go    connectBestChain (extend tip / side chain / reorganize to more work)
over a fixed block tree (`P` = parent function as in Spec, root 0 = genesis), cumulative work
`W`, and a set of blocks `bad` whose contents fail connect-time validation (their headers are
fine).  The block side covers every delivery-only history: duplicates, orphans, extend-tip, side
chain, re-organisation including branches with invalid or known-invalid blocks (C02's `ChainCore`
models the same code with the header entries inside one index; the driver runs both models and
flags any disagreement).  Not modelled: the one-hour orphan expiry.
Core-only.
-/
import BV.C17.Spec
namespace BV.C17.HF
open BV.C17

inductive Res
  | main | side | orphan
  | dup | prevUnknown | invalidAncestor | knownInvalid | badBlock
  deriving Repr, DecidableEq

def Res.isErr : Res → Bool
  | .main | .side | .orphan => false
  | _ => true

/-- what block deliveries change -/
structure BState where
  data : List Nat := [0]        -- nodes whose block is stored (statusDataStored), in the index
  failed : List Nat := []       -- statusValidateFailed
  invAnc : List Nat := []       -- statusInvalidAncestor (set by failed re-organisations only)
  tip : Nat := 0                -- best chain tip
  orphans : List Nat := []      -- orphan pool, arrival order
  oldest : Option Nat := none   -- cached `oldestOrphan` pointer (can be stale: not reset on removal)
  deriving Repr, DecidableEq

/-- what header deliveries change -/
structure HState where
  hdrIdx : List Nat := []       -- nodes put into the index by a header delivery
  accepted : List Nat := []     -- ghost: headers accepted by ProcessBlockHeader, in order
  best : Nat := 0               -- bestHeader tip
  deriving Repr, DecidableEq

structure Env where
  P : Nat → Option Nat
  W : Nat → Nat
  bad : Nat → Bool
  /-- orphan pool bound (`maxOrphanBlocks`, an internal tuning constant: a parameter of the model) -/
  maxOrphans : Nat := 100

def Env.parent (e : Env) (n : Nat) : Nat := (e.P n).getD 0

def BState.knownInvalid (b : BState) (n : Nat) : Bool := b.failed.contains n || b.invAnc.contains n

def inIndex (b : BState) (h : HState) (n : Nat) : Bool := b.data.contains n || h.hdrIdx.contains n

/-- `maybeAcceptBlockHeader` for a header that passes the sanity and context checks -/
def stepHeader (e : Env) (b : BState) (h : HState) (n : Nat) : HState × Res :=
  let p := e.parent n
  if !inIndex b h p then (h, .prevUnknown)
  else if b.knownInvalid p then (h, .invalidAncestor)
  else
    let known := inIndex b h n
    if known && b.failed.contains n then (h, .knownInvalid)
    else if known && b.invAnc.contains n then (h, .invalidAncestor)
    else if known && (Spec.pathUp e.P h.best).contains n then (h, .main)
    else
      let h' : HState := { h with hdrIdx := if known then h.hdrIdx else h.hdrIdx ++ [n],
                                  accepted := h.accepted ++ [n] }
      if p = h.best then ({ h' with best := n }, .main)
      else if e.W n ≤ e.W h.best then (h', .side)
      else ({ h' with best := n }, .main)

/-- `IsValidHeader` -/
def isValidHeader (e : Env) (b : BState) (h : HState) (n : Nat) : Bool :=
  inIndex b h n && (Spec.pathUp e.P h.best).contains n && !b.knownInvalid n

/-- nodes of `n`'s parent walk that are not on the best chain, `n` first (what
    `getReorganizeNodes` walks) -/
def attachList (e : Env) (b : BState) (n : Nat) : List Nat :=
  (Spec.pathUp e.P n).takeWhile (fun a => !(Spec.pathUp e.P b.tip).contains a)

/-- `maybeAcceptBlock` + `connectBestChain` (+ `getReorganizeNodes`, `reorganizeChain` /
    `verifyReorganizationValidity` at the index level) -/
def accept (e : Env) (b : BState) (n : Nat) : BState × Res :=
  let p := e.parent n
  if b.knownInvalid p then (b, .invalidAncestor)
  else
    let b := { b with data := b.data ++ [n] }
    if p = b.tip then
      if e.bad n then ({ b with failed := n :: b.failed }, .badBlock)
      else ({ b with tip := n }, .main)
    else if e.W n ≤ e.W b.tip then (b, .side)
    else
      let attach := attachList e b n
      -- getReorganizeNodes: the walk from `n` towards the fork stops at a known-invalid node;
      -- the nodes above it are marked invalidAncestor and both lists come back empty, on which
      -- reorganizeChain succeeds without moving the tip (and the block is reported as main chain)
      let good := attach.takeWhile (fun a => !b.knownInvalid a)
      if good.length < attach.length then ({ b with invAnc := good ++ b.invAnc }, .main)
      else
        -- verification, fork child first: the first block that fails is marked failed, the rest of
        -- the list invalidAncestor; nothing else changes
        let order := attach.reverse
        match order.find? e.bad with
        | none => ({ b with tip := n }, .main)
        | some x =>
          let rest := (order.dropWhile (fun a => a != x)).drop 1
          ({ b with failed := x :: b.failed, invAnc := rest ++ b.invAnc }, .badBlock)

/-- `processOrphans`: breadth first, arrival order; a rejected orphan does not stop the others, the
    first rule error is reported -/
def flush (e : Env) : Nat → BState → List Nat → Option Res → BState × Option Res
  | 0, b, _, err => (b, err)
  | _+1, b, [], err => (b, err)
  | f+1, b, q :: rest, err =>
    let kids := b.orphans.filter (fun k => e.parent k == q)
    let r := kids.foldl (fun (acc : BState × List Nat × Option Res) k =>
      let b1 := { acc.1 with orphans := acc.1.orphans.erase k }
      let (b2, res) := accept e b1 k
      if res.isErr then (b2, acc.2.1, match acc.2.2 with | none => some res | some x => some x)
      else (b2, acc.2.1 ++ [k], acc.2.2)) (b, [], err)
    flush e f r.1 (rest ++ r.2.1) r.2.2

/-- `addOrphanBlock` without the one-hour expiry: the cached oldest pointer is refreshed from the
    pool only when it is nil (a non-nil pointer is never newer than any pool member, but may name an
    orphan that has left the pool); when the pool is full the orphan it names is removed — nothing
    is removed when it is stale — and the pointer is cleared -/
def addOrphan (e : Env) (b : BState) (n : Nat) : BState :=
  let cand : Option Nat := match b.oldest with
    | some o => some o
    | none => b.orphans.head?
  let b1 : BState :=
    if b.orphans.length + 1 > e.maxOrphans then
      match cand with
      | some o => { b with orphans := b.orphans.erase o, oldest := none }
      | none => b
    else { b with oldest := cand }
  { b1 with orphans := b1.orphans ++ [n] }

/-- `ProcessBlock` for a block that passes `checkBlockSanity` (one-hour orphan expiry not modelled) -/
def stepBlock (e : Env) (b : BState) (n : Nat) : BState × Res :=
  if b.data.contains n || b.orphans.contains n then (b, .dup)
  else if !b.data.contains (e.parent n) then (addOrphan e b n, .orphan)
  else
    let (b1, r) := accept e b n
    if r.isErr then (b1, r)
    else
      let (b2, err) := flush e (b1.orphans.length + 2) b1 [n] none
      (b2, match err with | some x => x | none => r)

/-- `BestChainHeaderForkHeight`: the fork point between the best chain and the best header chain -/
def forkNode (e : Env) (s : BState) (h : HState) : Option Nat := Spec.lca e.P s.tip h.best

/-- `ChainTips`: index nodes off the best chain without a child in the index, plus the best tip;
    status 1 active, 2 invalid, 3 valid-fork (block stored), 0 unknown (header only);
    third component = distance to the fork with the best chain -/
def chainTips (e : Env) (depth : Nat → Nat) (nodes : List Nat) (b : BState) (h : HState) :
    List (Nat × Nat × Nat) :=
  let onBest (x : Nat) : Bool := (Spec.pathUp e.P b.tip).contains x
  let idxNodes := nodes.filter (fun x => inIndex b h x)
  let inactive := idxNodes.filter (fun x => !onBest x && !(idxNodes.any (fun c => e.P c == some x)))
  (inactive ++ [b.tip]).map (fun x =>
    let status := if onBest x then 1 else if b.knownInvalid x then 2
                  else if b.data.contains x then 3 else 0
    let fork := match Spec.lca e.P b.tip x with | some f => depth f | none => 0
    (x, status, depth x - fork))

/-- `GetOrphanRoot`: follow parents while they are in the orphan pool -/
def orphanRoot (e : Env) (b : BState) : Nat → Nat → Nat
  | 0, n => n
  | f+1, n =>
    if b.orphans.contains n then
      let p := e.parent n
      if b.orphans.contains p then orphanRoot e b f p else n
    else n

/-- `HaveBlock`: stored or in the orphan pool -/
def haveBlock (b : BState) (n : Nat) : Bool := b.data.contains n || b.orphans.contains n

/-- `HeaderHeightByHash` succeeds iff the node is in the index and on the best-header chain -/
def headerKnownOnBest (e : Env) (b : BState) (h : HState) (n : Nat) : Bool :=
  inIndex b h n && (Spec.pathUp e.P h.best).contains n

/-- a restart (close, `blockchain.New` on the same database): header-only index entries and the
    orphan pool are not persisted, the best header is reset to the best chain tip -/
def restartB (b : BState) : BState := { b with orphans := [], oldest := none }
def restartH (b : BState) : HState := { hdrIdx := [], accepted := [], best := b.tip }

inductive Op
  | header (n : Nat)
  | block (n : Nat)
  deriving Repr, DecidableEq

def Op.isBlock : Op → Bool
  | .block _ => true
  | .header _ => false

structure State where
  b : BState := {}
  h : HState := {}
  deriving Repr

def step (e : Env) (s : State) : Op → State × Res
  | .header n => let (h', r) := stepHeader e s.b s.h n; ({ s with h := h' }, r)
  | .block n => let (b', r) := stepBlock e s.b n; ({ s with b := b' }, r)

def run (e : Env) (s : State) (ops : List Op) : State :=
  ops.foldl (fun s op => (step e s op).1) s

end BV.C17.HF
