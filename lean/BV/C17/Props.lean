/-
C17 property theorems. Only statements of the property + non-vacuity examples live here;
helper lemmas are in Lemmas*.lean.
-/
import BV.C17.Lemmas
import BV.Generated.C17
namespace BV.C17
open Spec

/-- the skip height is strictly below the node's height: the measure that makes `Ancestor` terminate -/
theorem getAncestorHeight_lt (h : Nat) (hp : 0 < h) : getAncestorHeight h < h :=
  Lemmas.getAncestorHeight_lt h hp

end BV.C17
