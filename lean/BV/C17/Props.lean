/-
C17 property theorems. Only statements of the property + non-vacuity examples live here;
helper lemmas are in Lemmas*.lean.

Setting: a block tree is given by a parent list `ps` (`Spec.parentOf ps`: node 0 is the root, node
`i+1` has parent `ps[i] ≤ i`; `Lemmas.ValidFrom 1 ps` states exactly that, and every finite rooted
tree has such a numbering — creation order).  `build ps` is the block index the code builds for
that tree (`newBlockNode` per node, skip pointers computed by `Ancestor` on the parent).  The naive
answers are the `Spec.*` walks over `Spec.parentOf ps`.
-/
import BV.C17.LemmasRange
import BV.C17.LemmasHF
import BV.C17.LemmasBits
import BV.C17.LemmasClosed
import BV.C17.LemmasConsec
import BV.C17.LemmasTip
import BV.Generated.C17
namespace BV.C17
open Spec Lemmas

/-! ### skip-list ancestor -/

/-- the skip height is strictly below the node's height: the measure that makes `Ancestor`
    terminate (its loop is run with fuel `height+1`, which the next theorem shows is never exhausted) -/
theorem getAncestorHeight_lt (h : Nat) (hp : 0 < h) : getAncestorHeight h < h :=
  Lemmas.getAncestorHeight_lt h hp

/-- `invertLowestOne` (`n & (n-1)`) clears the lowest set bit — so the skip height
    `getAncestorHeight` is the height with its two lowest set bits cleared -/
theorem invertLowestOne_clears_lowest_bit (m k : Nat) :
    invertLowestOne ((2 * m + 1) * 2 ^ k) = (2 * m) * 2 ^ k ∧ invertLowestOne 0 = 0 :=
  ⟨Lemmas.invertLowestOne_spec m k, rfl⟩

example : getAncestorHeight 0b1011000 = 0b1000000 := by decide

/-- node heights computed by `newBlockNode` are the naive depths -/
theorem height_eq_depth (ps : List Nat) (hv : ValidFrom 1 ps) (n : Nat) (hn : n ≤ ps.length) :
    (build ps).height n = depth (parentOf ps) n := by
  obtain ⟨wf, hs⟩ := wf_build ps hv
  rw [← parent_build, depth_eq wf n (by omega)]

/-- `Ancestor(h)` through the skip pointers = the naive parent walk, for every tree, node and
    height argument (negative and beyond-height give nil) -/
theorem ancestor_eq_walk (ps : List Nat) (hv : ValidFrom 1 ps) (n : Nat) (hn : n ≤ ps.length) (h : Int) :
    ancestor (build ps) n h = ancestorAt (parentOf ps) n h := by
  obtain ⟨wf, hs⟩ := wf_build ps hv
  rw [← parent_build]; exact ancestor_eq_spec wf n (by omega) h

/-- out-of-range heights -/
theorem ancestor_out_of_range (ps : List Nat) (n : Nat) (h : Int)
    (hr : h < 0 ∨ h > (build ps).height n) : ancestor (build ps) n h = none := by
  simp [ancestor, hr]

/-- the stored skip pointer of every non-root node is its ancestor at `getAncestorHeight height` -/
theorem skip_pointer_eq (ps : List Nat) (hv : ValidFrom 1 ps) (n : Nat) (hn : n ≤ ps.length)
    (nd : Node) (hnd : (build ps)[n]? = some nd) (hroot : nd.parent ≠ none) :
    nd.ancestor = ancestorAt (parentOf ps) n (getAncestorHeight nd.height) := by
  obtain ⟨wf, hs⟩ := wf_build ps hv
  have hlt := Lemmas.getAncestorHeight_lt nd.height (by
    cases hp : nd.parent with
    | none => exact absurd hp hroot
    | some p => have := (wf.par n nd p hnd hp).2; omega)
  rw [wf.skip n nd hnd hroot, ← parent_build, ← ancestor_eq_spec wf n (by omega),
    Lemmas.ancestor_eq_walk wf n (by omega), height_of hnd]
  have : ¬ (((getAncestorHeight nd.height : Nat) : Int) < 0 ∨
      ((getAncestorHeight nd.height : Nat) : Int) > nd.height) := by omega
  simp only [this, if_false, Int.toNat_natCast]

/-- `RelativeAncestor(d)` = naive ancestor at `depth − d` -/
theorem relativeAncestor_eq (ps : List Nat) (hv : ValidFrom 1 ps) (n : Nat) (hn : n ≤ ps.length) (d : Int) :
    relativeAncestor (build ps) n d = ancestorAt (parentOf ps) n ((depth (parentOf ps) n : Int) - d) := by
  unfold relativeAncestor
  rw [ancestor_eq_walk ps hv n hn, height_eq_depth ps hv n hn]

/-- `IsAncestor(other)` = `other` is a strict ancestor in the naive walk (false for nil) -/
theorem isAncestor_eq (ps : List Nat) (hv : ValidFrom 1 ps) (n o : Nat) (hn : n ≤ ps.length) :
    isAncestor (build ps) n (some o) = isStrictAncestor (parentOf ps) n o ∧
    isAncestor (build ps) n none = false := by
  obtain ⟨wf, hs⟩ := wf_build ps hv
  refine ⟨?_, rfl⟩
  rw [← parent_build]; exact isAncestor_eq_spec wf n o (by omega)

example : ValidFrom 1 [0, 1, 1, 3, 0] := by decide

/-! ### chain view -/

/-- the slice a `chainView` holds after any sequence of `setTip` calls: empty after `setTip(nil)`
    (or no call), otherwise exactly the root-to-tip parent walk of the last tip -/
theorem setTip_eq_path (ps : List Nat) (hv : ValidFrom 1 ps) (tips : List (Option Nat))
    (ht : ∀ t ∈ tips, ∀ n, t = some n → n ≤ ps.length) :
    tips.foldl (setTip (build ps)) [] =
      match tips.getLast? with
      | some (some t) => (pathDown (parentOf ps) t).map some
      | _ => [] := by
  obtain ⟨wf, hs⟩ := wf_build ps hv
  rw [← parent_build]
  have gen : ∀ (tips : List (Option Nat)) (v : View), Coherent (build ps) v →
      (∀ t ∈ tips, ∀ n, t = some n → n ≤ ps.length) →
      tips.foldl (setTip (build ps)) v =
        match tips.getLast? with
        | some (some t) => (pathDown (build ps).parent t).map some
        | some none => []
        | none => v := by
    intro tips
    induction tips with
    | nil => intro v _ _; rfl
    | cons t rest ih =>
      intro v hc hr
      simp only [List.foldl_cons]
      have hc' : Coherent (build ps) (setTip (build ps) v t) := by
        cases t with
        | none => exact coherent_nil _
        | some n =>
          have hn := hr (some n) (by simp) n rfl
          rw [setTip_coherent wf v hc n (by omega)]
          exact coherent_pathView wf n (by omega)
      rw [ih _ hc' (fun t' ht' => hr t' (by simp [ht']))]
      cases hl : rest.getLast? with
      | some x => simp only [List.getLast?_cons, hl, Option.getD_some]; cases x <;> rfl
      | none =>
        have : rest = [] := by simpa using hl
        subst this
        cases t with
        | none => rfl
        | some n =>
          have hn := hr (some n) (by simp) n rfl
          simp only [List.getLast?_singleton]
          exact setTip_coherent wf v hc n (by omega)
  have := gen tips [] (coherent_nil _) ht
  rw [this]
  cases tips.getLast? with
  | none => rfl
  | some x => cases x <;> rfl

/-- on the view of tip `t`: `nodeByHeight`, `contains` (main-chain membership), `next`, tip,
    genesis and height are the naive answers -/
theorem view_queries_eq (ps : List Nat) (hv : ValidFrom 1 ps) (t : Nat) (ht : t ≤ ps.length) :
    let idx := build ps
    let P := parentOf ps
    let v : View := (pathDown P t).map some
    (∀ h : Int, v.nodeByHeight h = ancestorAt P t h) ∧
    (∀ n, v.contains idx n = (pathUp P t).contains n) ∧
    (∀ n, v.next idx (some n) =
      if (pathUp P t).contains n then ancestorAt P t ((idx.height n : Int) + 1) else none) ∧
    v.next idx none = none ∧
    v.tip = some t ∧ v.genesis = ancestorAt P t 0 ∧ v.height = depth P t := by
  obtain ⟨wf, hs⟩ := wf_build ps hv
  have hts : t < (build ps).size := by omega
  simp only []
  rw [← parent_build]
  refine ⟨fun h => nodeByHeight_pathView wf t hts h, fun n => contains_pathView wf t n hts,
    fun n => next_pathView wf t n hts, rfl, tip_pathView wf t hts, genesis_pathView wf t hts, ?_⟩
  have := pathView_length wf t hts
  unfold pathView at this
  unfold View.height
  rw [this, depth_eq wf t hts]; omega

/-- `chainView.Equals` on two path views answers whether the tips are the same node -/
theorem view_equals_iff (ps : List Nat) (hv : ValidFrom 1 ps) (t u : Nat)
    (ht : t ≤ ps.length) (hu : u ≤ ps.length) :
    View.equals ((pathDown (parentOf ps) t).map some) ((pathDown (parentOf ps) u).map some) = true ↔ t = u := by
  obtain ⟨wf, hs⟩ := wf_build ps hv
  rw [← parent_build]
  have h1 := tip_pathView wf t (by omega : t < (build ps).size)
  have h2 := tip_pathView wf u (by omega : u < (build ps).size)
  unfold pathView at h1 h2
  unfold View.equals
  rw [h1, h2]
  constructor
  · intro h
    simp only [Bool.and_eq_true, beq_iff_eq] at h
    exact Option.some.inj h.2
  · intro h; subst h; simp

/-- `findFork(n)` on the view of tip `t` = the first node of `n`'s parent walk that lies on `t`'s
    parent walk (the lowest common ancestor); nil for nil -/
theorem findFork_eq_lca (ps : List Nat) (hv : ValidFrom 1 ps) (t n : Nat)
    (ht : t ≤ ps.length) (hn : n ≤ ps.length) :
    findFork (build ps) ((pathDown (parentOf ps) t).map some) (some n) = lca (parentOf ps) t n ∧
    findFork (build ps) ((pathDown (parentOf ps) t).map some) none = none := by
  obtain ⟨wf, hs⟩ := wf_build ps hv
  refine ⟨?_, rfl⟩
  rw [← parent_build]
  exact Lemmas.findFork_eq_lca wf t n (by omega) (by omega)

/-- what the Spec's `lca` returns is a node of both parent walks, and no earlier node of `n`'s
    walk lies on `t`'s walk -/
theorem lca_is_first_common (P : Nat → Option Nat) (t n f : Nat) (h : lca P t n = some f) :
    f ∈ pathUp P n ∧ f ∈ pathUp P t ∧
    ∃ pre post, pathUp P n = pre ++ f :: post ∧ ∀ a ∈ pre, a ∉ pathUp P t := by
  unfold lca at h
  have h1 := List.mem_of_find?_eq_some h
  have h2 := List.find?_some h
  simp only [List.contains_iff_mem] at h2
  obtain ⟨_, pre, post, hsplit, hpre⟩ := List.find?_eq_some_iff_append.mp h
  refine ⟨h1, h2, pre, post, hsplit, ?_⟩
  intro a ha
  have := hpre a ha
  simpa using this

/-! ### block locator -/

/-- `blockLocator(n)` on the view of any tip `t` lists, for main-chain and side-chain nodes alike,
    the ancestors of `n` at the heights `locatorHeights (depth n)` -/
theorem locator_eq_spec (ps : List Nat) (hv : ValidFrom 1 ps) (t n : Nat)
    (ht : t ≤ ps.length) (hn : n ≤ ps.length) :
    let P := parentOf ps
    let v : View := (pathDown P t).map some
    (blockLocator (build ps) v (some n)).map some =
      (locatorHeights (depth P n)).map (fun (k : Nat) => ancestorAt P n (k : Int)) ∧
    blockLocator (build ps) v none = blockLocator (build ps) v (some t) ∧
    blockLocator (build ps) [] none = [] := by
  obtain ⟨wf, hs⟩ := wf_build ps hv
  simp only []
  rw [← parent_build, depth_eq wf n (by omega)]
  refine ⟨blockLocator_spec wf _ (coherent_pathView wf t (by omega)) n (by omega), ?_, rfl⟩
  have := tip_pathView wf t (by omega : t < (build ps).size)
  unfold pathView at this
  unfold blockLocator
  rw [this]

/-- the heights of a locator started at height `h`: starts at `h`, the first 12 entries step down
    by one, heights strictly decrease, and the last entry is height 0 (the root) -/
theorem locator_heights (h : Nat) :
    (locatorHeights h)[0]? = some h ∧
    (∀ i, i ≤ 11 → i ≤ h → (locatorHeights h)[i]? = some (h - i)) ∧
    (locatorHeights h).Pairwise (· > ·) ∧
    (locatorHeights h).getLast? = some 0 ∧
    (∀ k ∈ locatorHeights h, k ≤ h) :=
  ⟨locatorHeightsAux_head h h 1 0,
   fun i hi hih => locatorHeightsAux_singles i (h+1) h 0 hih (by omega) (Nat.le_refl _),
   locatorHeightsAux_desc _ _ _ _ (Nat.le_refl _),
   locatorHeightsAux_last _ _ _ _ (Nat.le_refl _) (Nat.le_refl _),
   fun k hk => locatorHeightsAux_le _ _ _ _ k hk⟩

example : locatorHeights 100 = [100, 99, 98, 97, 96, 95, 94, 93, 92, 91, 90, 89, 87, 83, 75, 59, 27, 0] := by
  decide

/-- the locator never outgrows the capacity computed up front (`height+1` up to 12,
    `12 + ⌊log2 (height − 10)⌋` above); for int32 heights that is at most 42 entries, far below
    the 500 hashes a `getblocks`/`getheaders` message may carry -/
theorem locator_length_le (h : Nat) :
    (locatorHeights h).length ≤ locatorMaxEntries h ∧
    (h < 2^31 → (locatorHeights h).length ≤ 42 ∧ 42 ≤ MAX_LOCATORS_PER_MSG) := by
  refine ⟨locatorHeights_length_le h, fun hh => ⟨Nat.le_trans (locatorHeights_length_le h) ?_, by decide⟩⟩
  unfold locatorMaxEntries
  by_cases h12 : h ≤ 12
  · simp only [h12, if_true]; omega
  · simp only [h12, if_false]
    have : (h - 10).log2 < 31 := (Nat.log2_lt (by omega)).mpr (by omega)
    omega

/-! ### locator-driven inventory -/

/-- `locateBlocks` / `locateHeaders` (via `locateInventory`) on the view of tip `t` never
    dereference nil and return exactly `Spec.locate`: the blocks following the first locator entry
    that is on the active chain (after the root when none is: unknown, side-chain and unordered
    entries are skipped), consecutive, through the stop block or `max` entries; with an empty
    locator, the stop block alone when it is known (on any branch) -/
theorem locateInventory_eq_spec (ps : List Nat) (hv : ValidFrom 1 ps) (t : Nat) (ht : t ≤ ps.length)
    (locator : List Nat) (stop max : Nat) :
    let P := parentOf ps
    locateBlocks (build ps) ((pathDown P t).map some) locator stop max =
      some (locate (pathDown P t) (fun n => decide (n ≤ ps.length)) locator stop max) := by
  obtain ⟨wf, hs⟩ := wf_build ps hv
  simp only []
  rw [← parent_build]
  have := locateBlocks_eq_spec wf t (by omega) locator stop max
  unfold pathView at this
  rw [this]
  congr 2
  funext n
  simp [Index.known, hs]; omega

/-- the Spec's answer for a non-empty locator is a run of consecutive active-chain blocks (an infix of
    the chain) of at most `max` entries, whatever the locator holds -/
theorem locate_consecutive (chain : List Nat) (known : Nat → Bool) (loc : List Nat) (stop max : Nat)
    (hne : loc ≠ []) :
    locate chain known loc stop max <:+: chain ∧ (locate chain known loc stop max).length ≤ max :=
  Lemmas.locate_consecutive chain known loc stop max hne

/-- the cut at the stop hash: a block satisfying the stop test can only be the last one taken -/
theorem stop_only_last (stop : Nat) (l : List Nat) (x : Nat)
    (h : x ∈ (takeThrough (· == stop) l).dropLast) : x ≠ stop := by
  have := Lemmas.takeThrough_stop_last (· == stop) l x h
  simpa using this

/-! ### height-range queries -/

/-- `HeightRange(s, e)` on the view of tip `t`: an error for a negative start or `e < s`, otherwise
    exactly the active-chain blocks with `s ≤ height < e` (never a nil dereference) -/
theorem heightRange_eq (ps : List Nat) (hv : ValidFrom 1 ps) (t : Nat) (ht : t ≤ ps.length) (s e : Int) :
    let P := parentOf ps
    heightRange (build ps) ((pathDown P t).map some) s e =
      if s < 0 ∨ e < s then .err else .ids (((pathDown P t).take e.toNat).drop s.toNat) := by
  obtain ⟨wf, hs⟩ := wf_build ps hv
  simp only []
  rw [← parent_build]
  exact Lemmas.heightRange_eq wf t (by omega) s e

/-- `HeightToHashRange(s, end, max)` for a known end block: an error when the end block is not
    marked valid, `s` is outside `[0, height end]` or more than `max` results are needed; otherwise
    the ancestors of `end` from height `s` up to `end` itself, lowest first -/
theorem heightToHashRange_eq (ps : List Nat) (hv : ValidFrom 1 ps) (valid : Nat → Bool)
    (s : Int) (e : Nat) (max : Int) (he : e ≤ ps.length) :
    let P := parentOf ps
    heightToHashRange (build ps) valid s e max =
      if valid e = false ∨ s < 0 ∨ s > depth P e ∨ (depth P e : Int) - s + 1 > max then .err
      else .ids ((pathDown P e).drop s.toNat) := by
  obtain ⟨wf, hs⟩ := wf_build ps hv
  simp only []
  rw [← parent_build, depth_eq wf e (by omega)]
  exact Lemmas.heightToHashRange_eq wf valid s e max (by omega)

/-- `IntervalBlockHashes(end, interval)` for a valid known end block and a positive interval, on
    the view of any tip: the ancestors of `end` at heights `interval, 2·interval, …` -/
theorem intervalBlockHashes_eq (ps : List Nat) (hv : ValidFrom 1 ps) (valid : Nat → Bool)
    (t e iv : Nat) (ht : t ≤ ps.length) (he : e ≤ ps.length) (hval : valid e = true) (hiv : 0 < iv) :
    let P := parentOf ps
    ∃ l, intervalBlockHashes (build ps) ((pathDown P t).map some) valid e (iv : Int) = .ids l ∧
      l.map some = (List.range (depth P e / iv)).map
        (fun j => ancestorAt P e (((j + 1) * iv : Nat) : Int)) := by
  obtain ⟨wf, hs⟩ := wf_build ps hv
  simp only []
  rw [← parent_build, depth_eq wf e (by omega)]
  exact Lemmas.intervalBlockHashes_eq wf _ (coherent_pathView wf t (by omega)) valid e iv (by omega) hval hiv

/-- main-chain membership and height lookups by hash / by height -/
theorem mainChain_lookups_eq (ps : List Nat) (hv : ValidFrom 1 ps) (t : Nat) (ht : t ≤ ps.length) (n : Nat) :
    let P := parentOf ps
    let v : View := (pathDown P t).map some
    mainChainHasBlock (build ps) v n = (decide (n ≤ ps.length) && (pathUp P t).contains n) ∧
    blockHeightByHash (build ps) v n =
      (if decide (n ≤ ps.length) && (pathUp P t).contains n then some (depth P n) else none) := by
  obtain ⟨wf, hs⟩ := wf_build ps hv
  simp only []
  rw [← parent_build]
  have hc := contains_pathView wf t n (by omega : t < (build ps).size)
  unfold pathView at hc
  have hk : Index.known (build ps) n = decide (n ≤ ps.length) := by
    simp [Index.known, hs]; omega
  unfold mainChainHasBlock blockHeightByHash
  rw [hc, hk]
  refine ⟨rfl, ?_⟩
  by_cases hn : n ≤ ps.length
  · rw [depth_eq wf n (by omega)]
  · simp [hn]

/-! ### headers-first tracking (light model, see Headers.lean) -/

/-- after every interleaving of header and block deliveries (of non-root nodes) the best header
    is the root or a header accepted by `ProcessBlockHeader`, and no accepted header has more
    cumulative work.  Hypothesis: work strictly increases from parent to child for the delivered
    nodes (every block has positive work — C09 `workSum_strict_mono`). -/
theorem bestHeader_is_most_work_accepted (e : HF.Env) (ops : List HF.Op)
    (hW : ∀ op ∈ ops, e.W (e.parent op.node) < e.W op.node) :
    let s := HF.run e {} ops
    (s.h.best = 0 ∨ s.h.best ∈ s.h.accepted) ∧ ∀ m ∈ s.h.accepted, e.W m ≤ e.W s.h.best :=
  HF.run_bestOk e ops {} hW (HF.bestOk_init e)

/-- the best header moves only to a header with strictly more work: among equal-work chains the
    first one seen stays -/
theorem bestHeader_first_seen_wins (e : HF.Env) (b : HF.BState) (h : HF.HState) (n : Nat)
    (hW : e.W (e.parent n) < e.W n) (hne : (HF.stepHeader e b h n).1.best ≠ h.best) :
    (HF.stepHeader e b h n).1.best = n ∧ e.W h.best < e.W n :=
  HF.stepHeader_best_moves_up e b h n hW hne

/-- the hypothesis holds for the chain 0 ← 1 ← 2 with work = height + 1, and the theorem's
    conclusion is about a non-trivial state there -/
example :
    let e : HF.Env := { P := parentOf [0, 1, 0], W := fun n => [1, 2, 3, 2].getD n 0, bad := fun _ => false }
    (∀ op ∈ [HF.Op.header 1, .header 3, .header 2], e.W (e.parent op.node) < e.W op.node) ∧
    (HF.run e {} [.header 1, .header 3, .header 2]).h.best = 2 := by
  decide

/-- a header extending a block that is known invalid (failed validation, or has an invalid
    ancestor) is refused with `ErrInvalidAncestorBlock`, and a refused header changes nothing -/
theorem headers_extending_invalid_refused (e : HF.Env) (b : HF.BState) (h : HF.HState) (n : Nat)
    (hin : HF.inIndex b h (e.parent n) = true) (hinv : b.knownInvalid (e.parent n) = true) :
    HF.stepHeader e b h n = (h, .invalidAncestor) ∧
    ∀ k, (HF.stepHeader e b h k).2.isErr = true → (HF.stepHeader e b h k).1 = h :=
  ⟨HF.stepHeader_invalid_parent e b h n hin hinv, fun k => HF.stepHeader_err_unchanged e b h k⟩

example :
    let e : HF.Env := { P := parentOf [0, 1], W := fun n => n + 1, bad := fun n => n == 1 }
    let b : HF.BState := { data := [0, 1], failed := [1] }
    HF.inIndex b {} (e.parent 2) = true ∧ b.knownInvalid (e.parent 2) = true ∧
    (HF.stepHeader e b {} 2).2 = .invalidAncestor := by decide

/-- delivering headers (before, between or after the blocks) leads to the same block-side state —
    stored blocks, validation marks, orphan pool and final best-chain tip — as delivering the
    blocks alone in the same order, for every delivery history (valid and invalid blocks anywhere,
    orphans, re-organisations including branches with invalid blocks).
    The block side of `Headers.lean` never reads the header-only index entries, as in the code
    (`blockExists`/`HaveBlock` look at the data flag); the driver additionally runs C02's
    `ChainCore` (one index holding header entries too) on every generated history and flags any
    disagreement.  Not modelled: the one-hour orphan expiry (wall clock). -/
theorem headers_then_blocks_same_tip (e : HF.Env) (ops : List HF.Op) :
    (HF.run e {} ops).b = (HF.run e {} (ops.filter HF.Op.isBlock)).b :=
  HF.run_blocks_only e ops {}

/-- a header enters the index only when its parent is already there and not known invalid
    ("headers must be processed in order") -/
theorem header_accept_requires_known_parent (e : HF.Env) (b : HF.BState) (h : HF.HState) (n : Nat)
    (hok : (HF.stepHeader e b h n).2.isErr = false) :
    HF.inIndex b h (e.parent n) = true ∧ b.knownInvalid (e.parent n) = false ∧
    HF.inIndex b (HF.stepHeader e b h n).1 n = true := by
  unfold HF.stepHeader at hok ⊢
  simp only [] at hok ⊢
  by_cases h1 : HF.inIndex b h (e.parent n) = true
  · by_cases h2 : b.knownInvalid (e.parent n) = true
    · simp [h1, h2, HF.Res.isErr] at hok
    · have h2' : b.knownInvalid (e.parent n) = false := by simpa using h2
      refine ⟨h1, h2', ?_⟩
      simp only [h1, h2', Bool.not_true, Bool.false_eq_true, if_false] at hok ⊢
      repeat' split
      all_goals first
        | (simp_all [HF.Res.isErr]; done)
        | (simp_all [HF.inIndex, HF.Res.isErr])
  · simp [h1, HF.Res.isErr] at hok

/-- orphan pool (bound `e.maxOrphans`, 100 in btcd; a parameter, not pinned): below the bound nothing is
    evicted; the pool never holds more than bound + 1 orphans
    (one above the nominal bound: when the cached oldest pointer is stale nothing is evicted once).
    `PoolOk` is the invariant (it holds initially and `addOrphan` keeps it; removing orphans keeps
    it trivially). -/
theorem orphan_pool_bound (e : HF.Env) (b : HF.BState) (n : Nat) (hpos : 0 < e.maxOrphans) :
    (b.orphans.length < e.maxOrphans → (HF.addOrphan e b n).orphans = b.orphans ++ [n]) ∧
    (HF.PoolOk e b → HF.PoolOk e (HF.addOrphan e b n)) ∧ HF.PoolOk e {} := by
  unfold HF.PoolOk HF.addOrphan
  simp only []
  refine ⟨?_, ?_, by simp⟩
  · intro h
    have : ¬ b.orphans.length + 1 > e.maxOrphans := by omega
    simp [this]
  · rintro ⟨h1, h2⟩
    by_cases hf : b.orphans.length + 1 > e.maxOrphans
    · simp only [hf, if_true]
      cases ho : b.oldest with
      | some o =>
        have hl := h2 (by simp [ho])
        simp only [List.length_append, List.length_cons, List.length_nil]
        have := List.length_erase_le (a := o) (l := b.orphans)
        exact ⟨by omega, by simp⟩
      | none =>
        simp only []
        cases hh : b.orphans.head? with
        | none =>
          have : b.orphans = [] := by simpa using hh
          rw [this] at hf; simp at hf; omega
        | some o =>
          have hmem : o ∈ b.orphans := List.mem_of_mem_head? hh
          simp only [List.length_append, List.length_cons, List.length_nil]
          rw [List.length_erase_of_mem hmem]
          exact ⟨by omega, by simp⟩
    · simp only [hf, if_false, List.length_append, List.length_cons, List.length_nil]
      exact ⟨by omega, fun _ => by omega⟩

/-- after every interleaving of header and block deliveries the index is closed under `parent`:
    every stored block sits on a stored parent (so every stored block has its whole ancestry stored)
    and every header-only entry sits on an indexed parent -/
theorem index_closed_under_parent (e : HF.Env) (h0 : e.parent 0 = 0) (ops : List HF.Op) :
    let s := HF.run e {} ops
    (∀ n ∈ s.b.data, e.parent n ∈ s.b.data) ∧
    (∀ n ∈ s.h.hdrIdx, HF.inIndex s.b s.h (e.parent n) = true) :=
  HF.run_indexClosed e ops {} (HF.indexClosed_init e h0)

example : ({ P := parentOf [0, 1], W := fun n => n, bad := fun _ => false } : HF.Env).parent 0 = 0 := by
  decide

/-- after every interleaving the best tip is a stored block and so is every ancestor of it: the
    whole active chain has its block data (no header-only or orphan entry is ever on it) -/
theorem active_chain_stored (e : HF.Env) (h0 : e.parent 0 = 0) (ops : List HF.Op) (k : Nat) :
    HF.up e k (HF.run e {} ops).b.tip ∈ (HF.run e {} ops).b.data := by
  have ht : (HF.run e {} ops).b.tip ∈ (HF.run e {} ops).b.data :=
    HF.run_tipStored e ops {} (by simp [HF.TipStored])
  have hc := (HF.run_indexClosed e ops {} (HF.indexClosed_init e h0)).1
  induction k with
  | zero => exact ht
  | succ k ih => exact hc _ ih

/-- a failed re-organisation (a block of the branch fails validation, or the branch holds a
    known-invalid block) never moves the best tip -/
theorem failed_reorg_keeps_tip (e : HF.Env) (b : HF.BState) (n : Nat)
    (h : (HF.accept e b n).1.tip ≠ b.tip) :
    (HF.accept e b n).1.tip = n ∧ (HF.accept e b n).2 = .main := by
  unfold HF.accept at h ⊢
  simp only [] at h ⊢
  repeat' split
  all_goals first | exact absurd rfl h | exact ⟨rfl, rfl⟩ | simp_all

/-! ### pinning of regenerated facts (T2) -/

theorem pin_status_bits :
    Generated.C17.statusDataStored = (STATUS_DATA_STORED : Int) ∧
    Generated.C17.statusValid = (STATUS_VALID : Int) ∧
    Generated.C17.statusValidateFailed = (STATUS_VALIDATE_FAILED : Int) ∧
    Generated.C17.statusInvalidAncestor = (STATUS_INVALID_ANCESTOR : Int) ∧
    Generated.C17.statusHeaderStored = (STATUS_HEADER_STORED : Int) := by decide

theorem pin_wire_limits :
    Generated.C17.maxBlockHeadersPerMsg = (MAX_HEADERS_PER_MSG : Int) ∧
    Generated.C17.maxBlockLocatorsPerMsg = (MAX_LOCATORS_PER_MSG : Int) := by decide

end BV.C17
