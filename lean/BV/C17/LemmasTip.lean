/- C17 helper lemmas: the best tip of the headers-first model is a stored block. Core-only. -/
import BV.C17.LemmasClosed
namespace BV.C17.HF

/-- `k` parent links up from `n` -/
def up (e : Env) : Nat → Nat → Nat
  | 0, n => n
  | k+1, n => e.parent (up e k n)

/-- the best tip is a stored block -/
def TipStored (b : BState) : Prop := b.tip ∈ b.data

theorem accept_tipStored (e : Env) (b : BState) (n : Nat) (h : TipStored b) :
    TipStored (accept e b n).1 := by
  unfold TipStored at h ⊢
  unfold accept
  simp only []
  repeat' split
  all_goals first | exact h | simp [h] | simp

theorem flushStep_tipStored (e : Env) : ∀ (kids : List Nat) (acc : BState × List Nat × Option Res),
    TipStored acc.1 → TipStored (kids.foldl (flushStep e) acc).1
  | [], _, h => h
  | k :: ks, acc, h => by
    simp only [List.foldl_cons]
    apply flushStep_tipStored e ks
    have hstep1 : (flushStep e acc k).1 =
        (accept e { acc.1 with orphans := acc.1.orphans.erase k } k).1 := by
      unfold flushStep; simp only []; split <;> rfl
    rw [hstep1]
    exact accept_tipStored e _ k h

theorem flush_tipStored (e : Env) : ∀ (f : Nat) (b : BState) (queue : List Nat) (err : Option Res),
    TipStored b → TipStored (flush e f b queue err).1
  | 0, _, _, _, h => h
  | _+1, _, [], _, h => h
  | f+1, b, q :: rest, err, h => by
    rw [flush_unfold]
    simp only []
    exact flush_tipStored e f _ _ _ (flushStep_tipStored e _ (b, [], err) h)

theorem stepBlock_tipStored (e : Env) (b : BState) (n : Nat) (h : TipStored b) :
    TipStored (stepBlock e b n).1 := by
  unfold stepBlock
  split
  · exact h
  split
  · unfold TipStored at h ⊢
    rw [addOrphan_data]
    have : (addOrphan e b n).tip = b.tip := by
      unfold addOrphan; simp only []; repeat' split
      all_goals rfl
    rw [this]; exact h
  · simp only []
    split
    · exact accept_tipStored e b n h
    · exact flush_tipStored e _ _ _ _ (accept_tipStored e b n h)

theorem run_tipStored (e : Env) : ∀ (ops : List Op) (s : State), TipStored s.b → TipStored (run e s ops).b
  | [], _, h => h
  | op :: rest, s, h => by
    simp only [run, List.foldl_cons]
    apply run_tipStored e rest
    cases op with
    | header n => simp only [step]; exact h
    | block n => simp only [step]; exact stepBlock_tipStored e s.b n h

end BV.C17.HF
