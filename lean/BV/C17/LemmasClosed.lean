/- C17 helper lemmas: the index of the headers-first model is closed under parent. Core-only. -/
import BV.C17.LemmasHF
namespace BV.C17.HF

/-- every stored block's parent is stored (blocks are only accepted below a stored parent) -/
def DataClosed (e : Env) (b : BState) : Prop := ∀ n ∈ b.data, e.parent n ∈ b.data

theorem accept_data (e : Env) (b : BState) (n : Nat) :
    (accept e b n).1.data = b.data ∨ (accept e b n).1.data = b.data ++ [n] := by
  unfold accept
  simp only []
  repeat' split
  all_goals first | (left; rfl) | (right; rfl)

theorem accept_ok_mem (e : Env) (b : BState) (n : Nat) (h : (accept e b n).2.isErr = false) :
    n ∈ (accept e b n).1.data := by
  unfold accept at h ⊢
  simp only [] at h ⊢
  repeat' split
  all_goals first | (simp_all [Res.isErr]; done) | simp

theorem accept_closed (e : Env) (b : BState) (n : Nat) (hc : DataClosed e b)
    (hp : e.parent n ∈ b.data) : DataClosed e (accept e b n).1 := by
  rcases accept_data e b n with h | h
  · intro m hm; rw [h] at hm ⊢; exact hc m hm
  · intro m hm
    rw [h] at hm ⊢
    simp only [List.mem_append, List.mem_singleton] at hm ⊢
    rcases hm with hm | hm
    · exact Or.inl (hc m hm)
    · subst hm; exact Or.inl hp

theorem accept_data_mono (e : Env) (b : BState) (n m : Nat) (hm : m ∈ b.data) :
    m ∈ (accept e b n).1.data := by
  rcases accept_data e b n with h | h <;> rw [h] <;> simp [hm]

end BV.C17.HF

namespace BV.C17.HF

/-- one orphan of the `processOrphans` loop (the body of the fold in `flush`) -/
def flushStep (e : Env) (acc : BState × List Nat × Option Res) (k : Nat) : BState × List Nat × Option Res :=
  let b1 := { acc.1 with orphans := acc.1.orphans.erase k }
  let (b2, res) := accept e b1 k
  if res.isErr then (b2, acc.2.1, match acc.2.2 with | none => some res | some x => some x)
  else (b2, acc.2.1 ++ [k], acc.2.2)

theorem flush_unfold (e : Env) (f : Nat) (b : BState) (q : Nat) (rest : List Nat) (err : Option Res) :
    flush e (f+1) b (q :: rest) err =
      let r := (b.orphans.filter (fun k => e.parent k == q)).foldl (flushStep e) (b, [], err)
      flush e f r.1 (rest ++ r.2.1) r.2.2 := rfl

theorem flushStep_inv (e : Env) (q : Nat) : ∀ (kids : List Nat) (acc : BState × List Nat × Option Res),
    (∀ k ∈ kids, e.parent k = q) → q ∈ acc.1.data → DataClosed e acc.1 →
    (∀ x ∈ acc.2.1, x ∈ acc.1.data) →
    DataClosed e (kids.foldl (flushStep e) acc).1 ∧
    (∀ x ∈ (kids.foldl (flushStep e) acc).2.1, x ∈ (kids.foldl (flushStep e) acc).1.data) ∧
    (∀ m ∈ acc.1.data, m ∈ (kids.foldl (flushStep e) acc).1.data)
  | [], acc, _, _, hc, hq => ⟨hc, hq, fun m hm => hm⟩
  | k :: ks, acc, hk, hqd, hc, hq => by
    simp only [List.foldl_cons]
    have hpk : e.parent k = q := hk k (by simp)
    -- the state handed to `accept` differs from `acc.1` in the orphan pool only
    let b1 : BState := { acc.1 with orphans := acc.1.orphans.erase k }
    have hc1 : DataClosed e b1 := hc
    have hp1 : e.parent k ∈ b1.data := by rw [hpk]; exact hqd
    have hcl := accept_closed e b1 k hc1 hp1
    have hmono : ∀ m ∈ acc.1.data, m ∈ (accept e b1 k).1.data := fun m hm => accept_data_mono e b1 k m hm
    have hstep1 : (flushStep e acc k).1 = (accept e b1 k).1 := by
      unfold flushStep; simp only []; split <;> rfl
    have hstep2 : ∀ x ∈ (flushStep e acc k).2.1, x ∈ (flushStep e acc k).1.data := by
      intro x hx
      rw [hstep1]
      unfold flushStep at hx
      simp only [] at hx
      by_cases herr : (accept e b1 k).2.isErr = true
      · have : x ∈ acc.2.1 := by simpa [b1, herr] using hx
        exact hmono x (hq x this)
      · have herr' : (accept e b1 k).2.isErr = false := by simpa using herr
        have : x ∈ acc.2.1 ++ [k] := by simpa [b1, herr'] using hx
        simp only [List.mem_append, List.mem_singleton] at this
        rcases this with h | h
        · exact hmono x (hq x h)
        · subst h; exact accept_ok_mem e b1 x herr'
    have ih := flushStep_inv e q ks (flushStep e acc k) (fun k' hk' => hk k' (by simp [hk']))
      (by rw [hstep1]; exact hmono q hqd) (by rw [hstep1]; exact hcl) hstep2
    refine ⟨ih.1, ih.2.1, fun m hm => ih.2.2 m (by rw [hstep1]; exact hmono m hm)⟩

theorem flush_closed (e : Env) : ∀ (f : Nat) (b : BState) (queue : List Nat) (err : Option Res),
    DataClosed e b → (∀ q ∈ queue, q ∈ b.data) → DataClosed e (flush e f b queue err).1
  | 0, b, _, _, hc, _ => hc
  | _+1, b, [], _, hc, _ => hc
  | f+1, b, q :: rest, err, hc, hq => by
    rw [flush_unfold]
    simp only []
    have hk : ∀ k ∈ b.orphans.filter (fun k => e.parent k == q), e.parent k = q := by
      intro k hk; simpa using (List.mem_filter.mp hk).2
    obtain ⟨h1, h2, h3⟩ := flushStep_inv e q _ (b, [], err) hk (hq q (by simp)) hc (by simp)
    apply flush_closed e f _ _ _ h1
    intro x hx
    simp only [List.mem_append] at hx
    rcases hx with hx | hx
    · exact h3 x (hq x (by simp [hx]))
    · exact h2 x hx

theorem addOrphan_data (e : Env) (b : BState) (n : Nat) : (addOrphan e b n).data = b.data := by
  unfold addOrphan
  simp only []
  repeat' split
  all_goals rfl

theorem stepBlock_closed (e : Env) (b : BState) (n : Nat) (hc : DataClosed e b) :
    DataClosed e (stepBlock e b n).1 := by
  unfold stepBlock
  split
  · exact hc
  split
  · intro m hm
    simp only [addOrphan_data] at hm ⊢
    exact hc m hm
  next h1 h2 =>
    have hp : e.parent n ∈ b.data := by simpa using h2
    have hcl := accept_closed e b n hc hp
    simp only []
    split
    · exact hcl
    · next herr =>
      apply flush_closed e _ _ _ _ hcl
      intro q hq
      simp only [List.mem_singleton] at hq
      subst hq
      exact accept_ok_mem e b q (by simpa using herr)

end BV.C17.HF

namespace BV.C17.HF

theorem flush_closed_mono (e : Env) : ∀ (f : Nat) (b : BState) (queue : List Nat) (err : Option Res),
    DataClosed e b → (∀ q ∈ queue, q ∈ b.data) → ∀ m ∈ b.data, m ∈ (flush e f b queue err).1.data
  | 0, b, _, _, _, _, m, hm => hm
  | _+1, b, [], _, _, _, m, hm => hm
  | f+1, b, q :: rest, err, hc, hq, m, hm => by
    rw [flush_unfold]
    simp only []
    have hk : ∀ k ∈ b.orphans.filter (fun k => e.parent k == q), e.parent k = q := by
      intro k hk; simpa using (List.mem_filter.mp hk).2
    obtain ⟨h1, h2, h3⟩ := flushStep_inv e q _ (b, [], err) hk (hq q (by simp)) hc (by simp)
    apply flush_closed_mono e f _ _ _ h1 _ m (h3 m hm)
    intro x hx
    simp only [List.mem_append] at hx
    rcases hx with hx | hx
    · exact h3 x (hq x (by simp [hx]))
    · exact h2 x hx

theorem stepBlock_data_mono (e : Env) (b : BState) (n : Nat) (hc : DataClosed e b) :
    ∀ m ∈ b.data, m ∈ (stepBlock e b n).1.data := by
  intro m hm
  unfold stepBlock
  split
  · exact hm
  split
  · simp only [addOrphan_data]; exact hm
  next h1 h2 =>
    have hp : e.parent n ∈ b.data := by simpa using h2
    have hcl := accept_closed e b n hc hp
    simp only []
    split
    · exact accept_data_mono e b n m hm
    · next herr =>
      apply flush_closed_mono e _ _ _ _ hcl _ m (accept_data_mono e b n m hm)
      intro q hq
      simp only [List.mem_singleton] at hq
      subst hq
      exact accept_ok_mem e b q (by simpa using herr)

/-- the index is closed under `parent`: every header or block in it sits below an indexed parent -/
def IndexClosed (e : Env) (s : State) : Prop :=
  DataClosed e s.b ∧ ∀ n ∈ s.h.hdrIdx, inIndex s.b s.h (e.parent n) = true

theorem step_indexClosed (e : Env) (s : State) (op : Op) (hc : IndexClosed e s) :
    IndexClosed e (step e s op).1 := by
  obtain ⟨hd, hh⟩ := hc
  cases op with
  | block n =>
    simp only [step]
    refine ⟨stepBlock_closed e s.b n hd, ?_⟩
    intro m hm
    have := hh m hm
    unfold inIndex at this ⊢
    simp only [Bool.or_eq_true, List.contains_iff_mem] at this ⊢
    rcases this with h | h
    · exact Or.inl (stepBlock_data_mono e s.b n hd _ h)
    · exact Or.inr h
  | header n =>
    simp only [step]
    refine ⟨hd, ?_⟩
    unfold stepHeader
    simp only []
    split
    · exact hh
    split
    · exact hh
    next hin _ =>
    have hpin : inIndex s.b s.h (e.parent n) = true := by simpa using hin
    split
    · exact hh
    split
    · exact hh
    split
    · exact hh
    -- the header is accepted: hdrIdx may gain n, whose parent is indexed; inIndex is monotone
    have key : ∀ (h' : HState), (∀ x ∈ s.h.hdrIdx, x ∈ h'.hdrIdx) →
        (∀ x ∈ h'.hdrIdx, x ∈ s.h.hdrIdx ∨ x = n) →
        ∀ m ∈ h'.hdrIdx, inIndex s.b h' (e.parent m) = true := by
      intro h' hsub hsup m hm
      have hbase : inIndex s.b s.h (e.parent m) = true := by
        rcases hsup m hm with h | h
        · exact hh m h
        · subst h; exact hpin
      unfold inIndex at hbase ⊢
      simp only [Bool.or_eq_true, List.contains_iff_mem] at hbase ⊢
      rcases hbase with h | h
      · exact Or.inl h
      · exact Or.inr (hsub _ h)
    repeat' split
    all_goals
      apply key
      · intro x hx; first | exact hx | simp [hx]
      · intro x hx
        first
          | exact Or.inl hx
          | (simp only [List.mem_append, List.mem_singleton] at hx; exact hx)

theorem run_indexClosed (e : Env) : ∀ (ops : List Op) (s : State), IndexClosed e s →
    IndexClosed e (run e s ops)
  | [], _, h => h
  | op :: rest, s, h => by
    simp only [run, List.foldl_cons]
    exact run_indexClosed e rest _ (step_indexClosed e s op h)

theorem indexClosed_init (e : Env) (h0 : e.parent 0 = 0) : IndexClosed e {} := by
  refine ⟨?_, by intro n hn; simp at hn⟩
  intro n hn
  have : n = 0 := by simpa using hn
  subst this; rw [h0]; exact hn

end BV.C17.HF
