/- C17 helper lemmas: the chain view. Core-only. -/
import BV.C17.LemmasSpec
namespace BV.C17.Lemmas
open BV.C17

/-- the view that holds exactly the path from the root to `t` -/
def pathView (idx : Index) (t : Nat) : View := (Spec.pathDown idx.parent t).map some

theorem pathDown_length {idx : Index} (wf : WF idx) (t : Nat) (ht : t < idx.size) :
    (Spec.pathDown idx.parent t).length = idx.height t + 1 := by
  unfold Spec.pathDown; rw [List.length_reverse, pathUp_length wf t ht]

theorem pathView_length {idx : Index} (wf : WF idx) (t : Nat) (ht : t < idx.size) :
    (pathView idx t).length = idx.height t + 1 := by
  unfold pathView; rw [List.length_map, pathDown_length wf t ht]

theorem nodeByHeight_pathView {idx : Index} (wf : WF idx) (t : Nat) (ht : t < idx.size) (h : Int) :
    (pathView idx t).nodeByHeight h = Spec.ancestorAt idx.parent t h := by
  unfold View.nodeByHeight Spec.ancestorAt
  rw [pathView_length wf t ht]
  by_cases h0 : h < 0
  · simp [h0]
  · by_cases h1 : h ≥ ((idx.height t + 1 : Nat) : Int)
    · have : (h < 0 ∨ h ≥ ((idx.height t + 1 : Nat) : Int)) := Or.inr h1
      rw [if_pos this, if_neg h0]
      symm; apply List.getElem?_eq_none
      rw [pathDown_length wf t ht]; omega
    · have : ¬ (h < 0 ∨ h ≥ ((idx.height t + 1 : Nat) : Int)) := by omega
      rw [if_neg this, if_neg h0]
      unfold pathView
      rw [List.getElem?_map]
      cases (Spec.pathDown idx.parent t)[h.toNat]? <;> rfl

/-- position `h` of the path view, as a walk -/
theorem nodeByHeight_walk {idx : Index} (wf : WF idx) (t : Nat) (ht : t < idx.size) (h : Nat) :
    (pathView idx t).nodeByHeight h =
      if h ≤ idx.height t then walk idx (idx.height t - h) t else none := by
  rw [nodeByHeight_pathView wf t ht, Spec.ancestorAt]
  have : ¬ ((h : Int) < 0) := by omega
  simp only [this, if_false, Int.toNat_natCast]
  exact pathDown_getElem? wf t h ht

/-- `contains` = membership in the naive walk from the tip -/
theorem contains_pathView {idx : Index} (wf : WF idx) (t n : Nat) (ht : t < idx.size) :
    (pathView idx t).contains idx n = (Spec.pathUp idx.parent t).contains n := by
  unfold View.contains
  rw [nodeByHeight_walk wf t ht, Bool.eq_iff_iff]
  simp only [List.contains_iff_mem, beq_iff_eq]
  rw [mem_pathUp wf t n ht]
  by_cases hh : idx.height n ≤ idx.height t
  · simp only [hh, if_true]
    constructor
    · intro h; exact ⟨_, by omega, h⟩
    · rintro ⟨k, hk, hw⟩
      obtain ⟨m, hm, _, hmh, _⟩ := walk_spec wf k t ht hk
      rw [hm] at hw; injection hw with hw; subst hw
      have : idx.height t - idx.height m = k := by omega
      rw [this]; exact hm
  · simp only [hh, if_false]
    constructor
    · intro h; cases h
    · rintro ⟨k, hk, hw⟩
      obtain ⟨m, hm, _, hmh, _⟩ := walk_spec wf k t ht hk
      rw [hm] at hw; injection hw with hw; subst hw; omega

theorem tip_pathView {idx : Index} (wf : WF idx) (t : Nat) (ht : t < idx.size) :
    (pathView idx t).tip = some t := by
  have hl := pathView_length wf t ht
  have := nodeByHeight_walk wf t ht (idx.height t)
  simp only [Nat.le_refl, if_true, Nat.sub_self, walk_zero] at this
  unfold View.nodeByHeight at this
  rw [hl] at this
  have hc : ¬ (((idx.height t : Nat) : Int) < 0 ∨ ((idx.height t : Nat) : Int) ≥ ((idx.height t + 1 : Nat) : Int)) := by omega
  simp only [hc, if_false, Int.toNat_natCast] at this
  unfold View.tip
  rw [List.getLast?_eq_getElem?, hl]
  simpa using this

theorem genesis_pathView {idx : Index} (wf : WF idx) (t : Nat) (ht : t < idx.size) :
    (pathView idx t).genesis = Spec.ancestorAt idx.parent t 0 := by
  rw [← nodeByHeight_pathView wf t ht]
  unfold View.genesis View.nodeByHeight
  rw [pathView_length wf t ht]
  have hc : ¬ ((0 : Int) < 0 ∨ (0 : Int) ≥ ((idx.height t + 1 : Nat) : Int)) := by omega
  simp only [hc, if_false]
  rw [List.head?_eq_getElem?]; rfl

/-- `next` on a path view -/
theorem next_pathView {idx : Index} (wf : WF idx) (t n : Nat) (ht : t < idx.size) :
    (pathView idx t).next idx (some n) =
      if (Spec.pathUp idx.parent t).contains n
      then Spec.ancestorAt idx.parent t ((idx.height n : Int) + 1) else none := by
  unfold View.next
  simp only []
  rw [contains_pathView wf t n ht, nodeByHeight_pathView wf t ht]

/-! ### findFork -/

theorem findForkLoop_eq_find (idx : Index) (v : View) : ∀ (f m : Nat),
    findForkLoop idx v (f+1) (some m) =
      (Spec.chainUp idx.parent f m).find? (fun a => v.contains idx a)
  | 0, m => by
    simp only [findForkLoop, Spec.chainUp, List.find?_cons, List.find?_nil]
    cases v.contains idx m <;> simp [findForkLoop]
  | f+1, m => by
    rw [findForkLoop, Spec.chainUp]
    cases hp : idx.parent m with
    | none =>
      simp only [List.find?_cons, List.find?_nil]
      cases v.contains idx m <;> simp [findForkLoop]
    | some p =>
      simp only [List.find?_cons]
      cases v.contains idx m
      · simp only [Bool.false_eq_true, if_false]; exact findForkLoop_eq_find idx v f p
      · simp

theorem chainUp_fuel {idx : Index} (wf : WF idx) (f n : Nat) (hn : n < idx.size)
    (hf : idx.height n ≤ f) : Spec.chainUp idx.parent f n = Spec.pathUp idx.parent n := by
  apply List.ext_getElem?
  intro k
  rw [chainUp_getElem? wf f n k hn hf, pathUp_getElem? wf n k hn]

theorem pathUp_drop {idx : Index} (wf : WF idx) (n k m : Nat) (hn : n < idx.size)
    (hk : k ≤ idx.height n) (hm : walk idx k n = some m) :
    (Spec.pathUp idx.parent n).drop k = Spec.pathUp idx.parent m := by
  obtain ⟨m', hm', hms, hmh, _⟩ := walk_spec wf k n hn hk
  rw [hm] at hm'; injection hm' with hm'; subst hm'
  apply List.ext_getElem?
  intro i
  rw [List.getElem?_drop, pathUp_getElem? wf n _ hn, pathUp_getElem? wf m _ hms]
  have : (k + i ≤ idx.height n) ↔ (i ≤ idx.height m) := by omega
  simp only [this]
  by_cases hi : i ≤ idx.height m
  · simp only [hi, if_true]; exact walk_add idx k i n m hm
  · simp [hi]

/-- `findFork` = the first node of `n`'s parent walk that lies on the tip's parent walk -/
theorem findFork_eq_lca {idx : Index} (wf : WF idx) (t n : Nat) (ht : t < idx.size) (hn : n < idx.size) :
    findFork idx (pathView idx t) (some n) = Spec.lca idx.parent t n := by
  unfold findFork Spec.lca
  simp only []
  have hvh : (pathView idx t).height = idx.height t := by
    unfold View.height; rw [pathView_length wf t ht]; omega
  have hcongr : ∀ l : List Nat, l.find? (fun a => (pathView idx t).contains idx a) =
      l.find? (fun a => (Spec.pathUp idx.parent t).contains a) := by
    intro l; congr 1; funext a; exact contains_pathView wf t a ht
  rw [hvh]
  by_cases hgt : (idx.height n : Int) > idx.height t
  · simp only [hgt, if_true]
    rw [ancestor_eq_walk wf n hn]
    have hc : ¬ (((idx.height t : Nat) : Int) < 0 ∨ ((idx.height t : Nat) : Int) > idx.height n) := by omega
    simp only [hc, if_false, Int.toNat_natCast]
    obtain ⟨m, hm, hms, hmh, _⟩ := walk_spec wf (idx.height n - idx.height t) n hn (by omega)
    rw [hm]
    simp only []
    rw [findForkLoop_eq_find, chainUp_fuel wf _ m hms (Nat.le_refl _), hcongr]
    rw [← pathUp_drop wf n _ m hn (by omega) hm]
    conv => rhs; rw [← List.take_append_drop (idx.height n - idx.height t) (Spec.pathUp idx.parent n)]
    rw [List.find?_append]
    have : (List.take (idx.height n - idx.height t) (Spec.pathUp idx.parent n)).find?
        (fun a => (Spec.pathUp idx.parent t).contains a) = none := by
      rw [List.find?_eq_none]
      intro a ha
      simp only [List.contains_iff_mem, Bool.not_eq_true, decide_eq_false_iff_not]
      intro hat
      obtain ⟨i, hi⟩ := List.mem_iff_getElem?.mp ha
      rw [List.getElem?_take] at hi
      by_cases hik : i < idx.height n - idx.height t
      · simp only [hik, if_true] at hi
        rw [pathUp_getElem? wf n i hn] at hi
        have hile : i ≤ idx.height n := by omega
        simp only [hile, if_true] at hi
        obtain ⟨a', ha', _, hah, _⟩ := walk_spec wf i n hn hile
        rw [ha'] at hi; injection hi with hi; subst hi
        obtain ⟨k, hk, hw⟩ := (mem_pathUp wf t a' ht).mp hat
        obtain ⟨b, hb, _, hbh, _⟩ := walk_spec wf k t ht hk
        rw [hb] at hw; injection hw with hw; subst hw
        omega
      · simp [hik] at hi
    rw [this]; simp
  · simp only [hgt, if_false]
    rw [findForkLoop_eq_find, chainUp_fuel wf _ n hn (Nat.le_refl _), hcongr]

end BV.C17.Lemmas
