/- C17 helper lemmas: `setTip` re-establishes the path view. Core-only. -/
import BV.C17.LemmasView
namespace BV.C17.Lemmas
open BV.C17

theorem pathView_getElem? {idx : Index} (wf : WF idx) (t j : Nat) (ht : t < idx.size) :
    (pathView idx t)[j]? = if j ≤ idx.height t then some (walk idx (idx.height t - j) t) else none := by
  unfold pathView
  rw [List.getElem?_map, pathDown_getElem? wf t j ht]
  by_cases h : j ≤ idx.height t
  · obtain ⟨m, hm, _⟩ := walk_spec wf (idx.height t - j) t ht (by omega)
    simp [h, hm]
  · simp [h]

/-- every node stored in the slice sits at its own height and everything below it is its parent walk -/
def Coherent (idx : Index) (v : View) : Prop :=
  ∀ (h m : Nat), v[h]? = some (some m) →
    m < idx.size ∧ idx.height m = h ∧ ∀ j, j ≤ h → v[j]? = some (walk idx (h - j) m)

theorem coherent_pathView {idx : Index} (wf : WF idx) (t : Nat) (ht : t < idx.size) :
    Coherent idx (pathView idx t) := by
  intro h m hm
  rw [pathView_getElem? wf t h ht] at hm
  by_cases hh : h ≤ idx.height t
  · simp only [hh, if_true] at hm
    injection hm with hm
    obtain ⟨m', hm', hms, hmh, _⟩ := walk_spec wf (idx.height t - h) t ht (by omega)
    rw [hm'] at hm; injection hm with hm; subst hm
    refine ⟨hms, by omega, ?_⟩
    intro j hj
    rw [pathView_getElem? wf t j ht]
    have : j ≤ idx.height t := by omega
    simp only [this, if_true]
    have := walk_add idx (idx.height t - h) (h - j) t m' hm'
    rw [← this]; congr 2; omega
  · simp [hh] at hm

theorem coherent_nil (idx : Index) : Coherent idx [] := by
  intro h m hm; simp at hm

/-- truncating and padding with nils keeps coherence -/
theorem coherent_resize {idx : Index} {v : View} (hc : Coherent idx v) (needed : Nat) :
    Coherent idx (v.take needed ++ List.replicate (needed - v.length) none) := by
  have key : ∀ j x, (v.take needed ++ List.replicate (needed - v.length) none)[j]? = some (some x) →
      j < needed ∧ v[j]? = some (some x) := by
    intro j x hx
    rw [List.getElem?_append] at hx
    by_cases hj : j < (v.take needed).length
    · simp only [hj, if_true] at hx
      rw [List.getElem?_take] at hx
      rw [List.length_take] at hj
      have : j < needed := by omega
      simp only [this, if_true] at hx
      exact ⟨this, hx⟩
    · simp only [hj, if_false] at hx
      rw [List.getElem?_replicate] at hx
      by_cases h2 : j - (v.take needed).length < needed - v.length
      · simp [h2] at hx
      · simp [h2] at hx
  intro h m hm
  obtain ⟨hlt, hv⟩ := key h m hm
  obtain ⟨a, b, c⟩ := hc h m hv
  refine ⟨a, b, ?_⟩
  intro j hj
  rw [List.getElem?_append]
  have hjl : j < v.length := by
    have := c j hj
    by_cases hjl : j < v.length
    · exact hjl
    · rw [List.getElem?_eq_none (by omega)] at this; cases this
  have : j < (v.take needed).length := by rw [List.length_take]; omega
  simp only [this, if_true]
  rw [List.getElem?_take]
  have : j < needed := by omega
  simp only [this, if_true]
  exact c j hj

theorem setTipLoop_none (idx : Index) (f : Nat) (w : View) : setTipLoop idx f none w = w := by
  cases f <;> rfl

/-- the loop of `setTip`, started at an ancestor `m` of the new tip `t` with everything above
    `m` already written, produces the path view of `t` -/
theorem setTipLoop_spec {idx : Index} (wf : WF idx) (t : Nat) (ht : t < idx.size)
    (v0 : View) (hc : Coherent idx v0) :
    ∀ (f m : Nat) (w : View), m < idx.size → idx.height m + 1 ≤ f →
      idx.height m ≤ idx.height t →
      walk idx (idx.height t - idx.height m) t = some m →
      w.length = idx.height t + 1 →
      (∀ j, idx.height m < j → w[j]? = (pathView idx t)[j]?) →
      (∀ j, j ≤ idx.height m → w[j]? = v0[j]?) →
      setTipLoop idx f (some m) w = pathView idx t
  | 0, _, _, _, hf, _, _, _, _, _ => by omega
  | f+1, m, w, hm, hf, hmt, hwalk, hlen, habove, hbelow => by
    obtain ⟨nd, hnd⟩ := lookup_lt hm
    have hh := height_of hnd
    have hpar := parent_of hnd
    unfold setTipLoop
    simp only []
    have hpv : ∀ j, j ≤ idx.height m →
        (pathView idx t)[j]? = some (walk idx (idx.height m - j) m) := by
      intro j hj
      rw [pathView_getElem? wf t j ht]
      have : j ≤ idx.height t := by omega
      simp only [this, if_true]
      have := walk_add idx (idx.height t - idx.height m) (idx.height m - j) t m hwalk
      rw [← this]; congr 2; omega
    by_cases hstop : w[idx.height m]? = some (some m)
    · rw [if_pos hstop]
      apply List.ext_getElem?
      intro j
      by_cases hj : j ≤ idx.height m
      · rw [hbelow j hj, hpv j hj]
        rw [hbelow _ (Nat.le_refl _)] at hstop
        exact (hc _ m hstop).2.2 j hj
      · exact habove j (by omega)
    · rw [if_neg hstop]
      have hset : ∀ j, (w.set (idx.height m) (some m))[j]? =
          if j = idx.height m then some (some m) else w[j]? := by
        intro j
        rw [List.getElem?_set]
        by_cases hj : idx.height m = j
        · subst hj
          have : idx.height m < w.length := by omega
          simp [this]
        · have : ¬ j = idx.height m := fun h => hj h.symm
          simp [hj, this]
      have hmself : (pathView idx t)[idx.height m]? = some (some m) := by
        rw [hpv _ (Nat.le_refl _)]; simp [walk]
      cases hp : nd.parent with
      | none =>
        have h0 := wf.root m nd hnd hp
        rw [hpar, hp, setTipLoop_none]
        apply List.ext_getElem?
        intro j
        rw [hset]
        by_cases hj : j = idx.height m
        · simp only [hj, if_true]; exact hmself.symm
        · simp only [hj, if_false]; exact habove j (by omega)
      | some p =>
        obtain ⟨hpn, hph⟩ := wf.par m nd p hnd hp
        rw [hpar, hp]
        apply setTipLoop_spec wf t ht v0 hc f p _ (by omega) (by omega) (by omega)
        · have := walk_add idx (idx.height t - idx.height m) 1 t m hwalk
          have h1 : walk idx 1 m = some p := by simp [walk, hpar, hp]
          rw [h1] at this
          rw [← this]; congr 1; omega
        · rw [List.length_set]; exact hlen
        · intro j hj
          rw [hset]
          by_cases hjm : j = idx.height m
          · simp only [hjm, if_true]; exact hmself.symm
          · simp only [hjm, if_false]; exact habove j (by omega)
        · intro j hj
          rw [hset]
          have : ¬ j = idx.height m := by omega
          simp only [this, if_false]
          exact hbelow j (by omega)

/-- `setTip` on a coherent slice yields exactly the root-to-tip path of the new tip -/
theorem setTip_coherent {idx : Index} (wf : WF idx) (v : View) (hc : Coherent idx v)
    (t : Nat) (ht : t < idx.size) : setTip idx v (some t) = pathView idx t := by
  unfold setTip
  simp only []
  apply setTipLoop_spec wf t ht _ (coherent_resize hc (idx.height t + 1)) _ t _ ht
    (Nat.le_refl _) (Nat.le_refl _)
  · simp [walk]
  · rw [List.length_append, List.length_take, List.length_replicate]; omega
  · intro j hj
    rw [pathView_getElem? wf t j ht]
    have : ¬ j ≤ idx.height t := by omega
    simp only [this, if_false]
    apply List.getElem?_eq_none
    rw [List.length_append, List.length_take, List.length_replicate]; omega
  · intro j _; rfl

theorem setTip_pathView {idx : Index} (wf : WF idx) (t0 t : Nat) (ht0 : t0 < idx.size)
    (ht : t < idx.size) : setTip idx (pathView idx t0) (some t) = pathView idx t :=
  setTip_coherent wf _ (coherent_pathView wf t0 ht0) t ht

theorem setTip_nil {idx : Index} (wf : WF idx) (t : Nat) (ht : t < idx.size) :
    setTip idx [] (some t) = pathView idx t :=
  setTip_coherent wf _ (coherent_nil idx) t ht

end BV.C17.Lemmas
