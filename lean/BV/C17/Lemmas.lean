/- C17 helper lemmas: skip-list ancestor = naive parent walk. Core-only. -/
import BV.C17.Model
namespace BV.C17.Lemmas
open BV.C17

theorem invertLowestOne_le (n : Nat) : invertLowestOne n ≤ n - 1 := by
  unfold invertLowestOne; exact Nat.and_le_right

theorem getAncestorHeight_lt (h : Nat) (hp : 0 < h) : getAncestorHeight h < h := by
  unfold getAncestorHeight
  have h1 := invertLowestOne_le h
  have h2 := invertLowestOne_le (invertLowestOne h)
  omega

/-- `k` parent links up from `n` -/
def walk (idx : Index) : Nat → Nat → Option Nat
  | 0, n => some n
  | k+1, n => match idx.parent n with
    | none => none
    | some p => walk idx k p

theorem walk_zero (idx : Index) (n : Nat) : walk idx 0 n = some n := rfl
theorem walk_succ (idx : Index) (k n : Nat) : walk idx (k+1) n =
    match idx.parent n with
    | none => none
    | some p => walk idx k p := rfl

/-- well-formed index: parents have smaller ids and height one less; roots have height 0;
    the stored skip pointer of a non-root is its naive ancestor at `getAncestorHeight height`. -/
structure WF (idx : Index) : Prop where
  root : ∀ (n : Nat) (nd : Node), idx[n]? = some nd → nd.parent = none → nd.height = 0
  par : ∀ (n : Nat) (nd : Node) (p : Nat), idx[n]? = some nd → nd.parent = some p → p < n ∧ idx.height p + 1 = nd.height
  skip : ∀ (n : Nat) (nd : Node), idx[n]? = some nd → nd.parent ≠ none →
    nd.ancestor = walk idx (nd.height - getAncestorHeight nd.height) n

theorem height_of {idx : Index} {n : Nat} {nd : Node} (h : idx[n]? = some nd) :
    idx.height n = nd.height := by simp [Index.height, h]

theorem parent_of {idx : Index} {n : Nat} {nd : Node} (h : idx[n]? = some nd) :
    idx.parent n = nd.parent := by simp [Index.parent, h]

theorem lookup_lt {idx : Index} {n : Nat} (h : n < idx.size) : ∃ nd, idx[n]? = some nd :=
  ⟨idx[n], by simp [h]⟩

theorem lt_of_lookup {idx : Index} {n : Nat} {nd : Node} (h : idx[n]? = some nd) : n < idx.size := by
  by_cases hn : n < idx.size
  · exact hn
  · simp [Array.getElem?_eq_none (Nat.le_of_not_lt hn)] at h

theorem walk_add (idx : Index) : ∀ (k j n m : Nat), walk idx k n = some m →
    walk idx (k + j) n = walk idx j m
  | 0, j, n, m, h => by simp [walk] at h; subst h; simp
  | k+1, j, n, m, h => by
    have : k + 1 + j = (k + j) + 1 := by omega
    rw [this, walk_succ]
    rw [walk_succ] at h
    cases hp : idx.parent n with
    | none => simp [hp] at h
    | some p => simp only [hp] at h ⊢; exact walk_add idx k j p m h

/-- under WF a walk of at most `height n` links succeeds and lands at the expected height -/
theorem walk_spec {idx : Index} (wf : WF idx) : ∀ (k n : Nat), n < idx.size → k ≤ idx.height n →
    ∃ m, walk idx k n = some m ∧ m < idx.size ∧ idx.height m = idx.height n - k ∧ m ≤ n
  | 0, n, hn, _ => ⟨n, rfl, hn, by omega, Nat.le_refl _⟩
  | k+1, n, hn, hk => by
    obtain ⟨nd, hnd⟩ := lookup_lt hn
    have hh := height_of hnd
    cases hp : nd.parent with
    | none => have := wf.root n nd hnd hp; omega
    | some p =>
      obtain ⟨hpn, hph⟩ := wf.par n nd p hnd hp
      obtain ⟨m, hm, hms, hmh, hmn⟩ := walk_spec wf k p (by omega) (by omega)
      refine ⟨m, ?_, hms, by omega, by omega⟩
      unfold walk; rw [parent_of hnd, hp]; exact hm

theorem height_le_id {idx : Index} (wf : WF idx) (n : Nat) (hn : n < idx.size) : idx.height n ≤ n := by
  induction n using Nat.strongRecOn with
  | _ n ih =>
    obtain ⟨nd, hnd⟩ := lookup_lt hn
    have hh := height_of hnd
    cases hp : nd.parent with
    | none => have := wf.root n nd hnd hp; omega
    | some p =>
      obtain ⟨hpn, hph⟩ := wf.par n nd p hnd hp
      have := ih p hpn (by omega); omega

/-- the loop of `Ancestor` computes the naive walk; any fuel ≥ height difference + 1 suffices -/
theorem ancLoop_eq_walk {idx : Index} (wf : WF idx) : ∀ (f n t : Nat), n < idx.size →
    t ≤ idx.height n → idx.height n - t + 1 ≤ f →
    ancLoop idx f n t = walk idx (idx.height n - t) n
  | 0, _, _, _, _, hf => by omega
  | f+1, n, t, hn, ht, hf => by
    obtain ⟨nd, hnd⟩ := lookup_lt hn
    have hh := height_of hnd
    have hpar := parent_of hnd
    unfold ancLoop
    simp only [hnd]
    by_cases heq : nd.height = t
    · simp [heq, hh, walk]
    · simp only [heq, if_false]
      have hgt : t < nd.height := by omega
      have hgah := getAncestorHeight_lt nd.height (by omega)
      -- the parent step, shared by three branches
      have parentStep : ∀ p, nd.parent = some p →
          ancLoop idx f p t = walk idx (idx.height n - t) n := by
        intro p hp
        obtain ⟨hpn, hph⟩ := wf.par n nd p hnd hp
        rw [ancLoop_eq_walk wf f p t (by omega) (by omega) (by omega)]
        have : idx.height n - t = (idx.height p - t) + 1 := by omega
        rw [this]
        conv => rhs; unfold walk
        rw [hpar, hp]
      cases hp : nd.parent with
      | none => have := wf.root n nd hnd hp; omega
      | some p =>
        cases ha : nd.ancestor with
        | none => simp only []; exact parentStep p hp
        | some a =>
          simp only []
          by_cases hge : getAncestorHeight nd.height ≥ t
          · simp only [hge, if_true]
            have hsk := wf.skip n nd hnd (by simp [hp])
            rw [ha] at hsk
            obtain ⟨m, hm, hms, hmh, _⟩ := walk_spec wf (nd.height - getAncestorHeight nd.height) n hn (by omega)
            rw [hm] at hsk
            have ham : a = m := by injection hsk
            subst ham
            rw [ancLoop_eq_walk wf f a t hms (by omega) (by omega)]
            have := walk_add idx (nd.height - getAncestorHeight nd.height) (idx.height a - t) n a hm
            rw [← this]
            congr 1; omega
          · simp only [hge, if_false]; exact parentStep p hp

/-- `Ancestor(height)` = `none` outside `[0, height n]`, the naive walk inside -/
theorem ancestor_eq_walk {idx : Index} (wf : WF idx) (n : Nat) (hn : n < idx.size) (h : Int) :
    ancestor idx n h =
      if h < 0 ∨ h > idx.height n then none else walk idx (idx.height n - h.toNat) n := by
  unfold ancestor
  by_cases hc : h < 0 ∨ h > idx.height n
  · simp [hc]
  · simp only [hc, if_false]
    exact ancLoop_eq_walk wf _ n h.toNat hn (by omega) (by omega)

/-! ### building an index keeps it well-formed -/

theorem wf_genesis : WF genesisIndex := by
  refine ⟨?_, ?_, ?_⟩
  · intro n nd h _
    have : n = 0 := by
      have := lt_of_lookup h; simp [genesisIndex] at this; exact this
    subst this; simp [genesisIndex] at h; subst h; rfl
  · intro n nd p h hp
    have : n = 0 := by
      have := lt_of_lookup h; simp [genesisIndex] at this; exact this
    subst this; simp [genesisIndex] at h; subst h; simp at hp
  · intro n nd h hp
    have : n = 0 := by
      have := lt_of_lookup h; simp [genesisIndex] at this; exact this
    subst this; simp [genesisIndex] at h; subst h; simp at hp

theorem height_push (idx : Index) (x : Node) (n : Nat) (hn : n < idx.size) :
    Index.height (idx.push x) n = idx.height n := by
  rw [Index.height, Index.height, Array.getElem?_push_lt hn, Array.getElem?_eq_getElem hn]

theorem parent_push (idx : Index) (x : Node) (n : Nat) (hn : n < idx.size) :
    Index.parent (idx.push x) n = idx.parent n := by
  rw [Index.parent, Index.parent, Array.getElem?_push_lt hn, Array.getElem?_eq_getElem hn]

theorem walk_push {idx : Index} (wf : WF idx) (x : Node) : ∀ (k n : Nat), n < idx.size →
    walk (idx.push x) k n = walk idx k n
  | 0, _, _ => rfl
  | k+1, n, hn => by
    unfold walk
    rw [parent_push idx x n hn]
    obtain ⟨nd, hnd⟩ := lookup_lt hn
    rw [parent_of hnd]
    cases hp : nd.parent with
    | none => rfl
    | some p =>
      have := (wf.par n nd p hnd hp).1
      exact walk_push wf x k p (by omega)

theorem wf_addNode {idx : Index} (wf : WF idx) (p : Nat) (hp : p < idx.size) : WF (addNode idx p) := by
  have hgah := getAncestorHeight_lt (idx.height p + 1) (by omega)
  -- the new node's skip pointer
  have hanc : ancestor idx p (getAncestorHeight (idx.height p + 1) : Nat) =
      walk idx (idx.height p - getAncestorHeight (idx.height p + 1)) p := by
    rw [ancestor_eq_walk wf p hp]
    have : ¬ (((getAncestorHeight (idx.height p + 1) : Nat) : Int) < 0 ∨
        ((getAncestorHeight (idx.height p + 1) : Nat) : Int) > idx.height p) := by omega
    simp only [this, if_false, Int.toNat_natCast]
  unfold addNode
  simp only []
  generalize hx : (Node.mk (some p) (ancestor idx p (getAncestorHeight (idx.height p + 1)))
      (idx.height p + 1)) = x
  have hxp : x.parent = some p := by subst hx; rfl
  have hxa : x.ancestor = ancestor idx p (getAncestorHeight (idx.height p + 1)) := by subst hx; rfl
  have hxh : x.height = idx.height p + 1 := by subst hx; rfl
  clear hx
  have lk : ∀ (n : Nat) (nd : Node), (idx.push x)[n]? = some nd →
      (n < idx.size ∧ idx[n]? = some nd) ∨ (n = idx.size ∧ nd = x) := by
    intro n nd h
    rw [Array.getElem?_push] at h
    by_cases hn : n = idx.size
    · right; simp [hn] at h; exact ⟨hn, h.symm⟩
    · left; simp only [hn, if_false] at h; exact ⟨lt_of_lookup h, h⟩
  refine ⟨?_, ?_, ?_⟩
  · intro n nd h hpn
    rcases lk n nd h with ⟨_, h'⟩ | ⟨_, h'⟩
    · exact wf.root n nd h' hpn
    · subst h'; rw [hxp] at hpn; cases hpn
  · intro n nd q h hq
    rcases lk n nd h with ⟨hn, h'⟩ | ⟨hn, h'⟩
    · obtain ⟨a, b⟩ := wf.par n nd q h' hq
      exact ⟨a, by rw [height_push idx x q (by omega)]; exact b⟩
    · subst h'; rw [hxp] at hq; injection hq with hq; subst hq
      exact ⟨by omega, by rw [height_push idx _ p hp, hxh]⟩
  · intro n nd h hpn
    rcases lk n nd h with ⟨hn, h'⟩ | ⟨hn, h'⟩
    · rw [walk_push wf x _ n hn]; exact wf.skip n nd h' hpn
    · subst h'; subst hn
      rw [hxa, hanc, hxh]
      have : idx.height p + 1 - getAncestorHeight (idx.height p + 1) =
          (idx.height p - getAncestorHeight (idx.height p + 1)) + 1 := by omega
      rw [this, walk_succ]
      have : Index.parent (idx.push nd) idx.size = some p := by
        simp [Index.parent, hxp]
      rw [this]
      simp only []
      rw [walk_push wf _ _ p hp]

/-- parent lists: node `i+1` names a parent among nodes `0..i` (`base` nodes exist already) -/
def ValidFrom (base : Nat) : List Nat → Prop
  | [] => True
  | p :: ps => p < base ∧ ValidFrom (base + 1) ps

instance : ∀ base ps, Decidable (ValidFrom base ps)
  | _, [] => isTrue trivial
  | base, p :: ps =>
    have := instDecidableValidFrom (base + 1) ps
    if h : p < base then
      if h2 : ValidFrom (base + 1) ps then isTrue ⟨h, h2⟩ else isFalse (fun c => h2 c.2)
    else isFalse (fun c => h c.1)

theorem size_addNode (idx : Index) (p : Nat) : (addNode idx p).size = idx.size + 1 := by
  simp [addNode]

theorem wf_foldl : ∀ (ps : List Nat) (idx : Index), WF idx → ValidFrom idx.size ps →
    WF (ps.foldl addNode idx) ∧ (ps.foldl addNode idx).size = idx.size + ps.length
  | [], idx, wf, _ => ⟨wf, by simp⟩
  | p :: ps, idx, wf, hv => by
    simp only [List.foldl_cons]
    have := wf_foldl ps (addNode idx p) (wf_addNode wf p hv.1) (by rw [size_addNode]; exact hv.2)
    refine ⟨this.1, ?_⟩
    rw [this.2, size_addNode]; simp; omega

theorem wf_build (ps : List Nat) (hv : ValidFrom 1 ps) :
    WF (build ps) ∧ (build ps).size = ps.length + 1 := by
  have := wf_foldl ps genesisIndex wf_genesis (by simpa [genesisIndex] using hv)
  refine ⟨this.1, ?_⟩
  rw [build, this.2]; simp [genesisIndex]; omega

end BV.C17.Lemmas
