/- C17 helper lemmas. -/
import BV.C17.Model
namespace BV.C17.Lemmas
open BV.C17

theorem invertLowestOne_le (n : Nat) : invertLowestOne n ≤ n - 1 := by
  unfold invertLowestOne; exact Nat.and_le_right

theorem getAncestorHeight_lt (h : Nat) (hp : 0 < h) : getAncestorHeight h < h := by
  unfold getAncestorHeight
  have h1 := invertLowestOne_le h
  have h2 := invertLowestOne_le (invertLowestOne h)
  omega

end BV.C17.Lemmas
