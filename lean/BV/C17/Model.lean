/-
C17 Model — executable mirror of
  blockchain/blockindex.go  (invertLowestOne, getAncestorHeight, buildAncestor, Ancestor,
                             RelativeAncestor, IsAncestor)
  blockchain/chainview.go   (setTip, nodeByHeight, contains, next, findFork, blockLocator)
  blockchain/chain.go       (locateInventory, locateBlocks/locateHeaders, HeightRange,
                             HeightToHashRange, IntervalBlockHashes, MainChainHasBlock,
                             BlockHeightByHash, BlockHashByHeight, BlockLocatorFromHash)
Block nodes are ids (positions in the index); a `*blockNode` is an `Option Nat` (`none` = nil);
looking a hash up in the index succeeds iff the id is below the index size (distinct nodes have
distinct hashes).  Go loops are written with explicit fuel; Lemmas prove that the fuel given is
never exhausted.  Core-only.
-/
import BV.C17.Spec
namespace BV.C17

/-- `invertLowestOne`: n & (n-1)  (heights are non-negative int32; `0 & -1 = 0`) -/
def invertLowestOne (n : Nat) : Nat := n &&& (n - 1)

/-- `getAncestorHeight` -/
def getAncestorHeight (h : Nat) : Nat := invertLowestOne (invertLowestOne h)

/-- the pointer part of a `blockNode` -/
structure Node where
  parent : Option Nat
  ancestor : Option Nat
  height : Nat
  deriving Repr, DecidableEq, Inhabited

abbrev Index := Array Node

def Index.height (idx : Index) (n : Nat) : Nat :=
  match idx[n]? with | some nd => nd.height | none => 0

def Index.parent (idx : Index) (n : Nat) : Option Nat :=
  match idx[n]? with | some nd => nd.parent | none => none

/-- the loop of `Ancestor`; `none` = nil -/
def ancLoop (idx : Index) : Nat → Nat → Nat → Option Nat
  | 0, _, _ => none
  | f+1, n, t =>
    match idx[n]? with
    | none => none
    | some nd =>
      if nd.height = t then some n else
      match nd.ancestor with
      | some a =>
        if getAncestorHeight nd.height ≥ t then ancLoop idx f a t
        else match nd.parent with
          | none => none
          | some p => ancLoop idx f p t
      | none => match nd.parent with
          | none => none
          | some p => ancLoop idx f p t

/-- `(*blockNode).Ancestor(height)` -/
def ancestor (idx : Index) (n : Nat) (h : Int) : Option Nat :=
  if h < 0 ∨ h > idx.height n then none
  else ancLoop idx (idx.height n + 1) n h.toNat

/-- `RelativeAncestor(distance)` -/
def relativeAncestor (idx : Index) (n : Nat) (d : Int) : Option Nat :=
  ancestor idx n ((idx.height n : Int) - d)

/-- `IsAncestor(other)`; `Equals` compares hash and header fields, i.e. identity of ids -/
def isAncestor (idx : Index) (n : Nat) (other : Option Nat) : Bool :=
  match other with
  | none => false
  | some o =>
    match ancestor idx n (idx.height o) with
    | none => false
    | some a => if idx.height n = idx.height a then false else a == o

/-- `newBlockNode(header, parent)` followed by adding it to the index -/
def addNode (idx : Index) (p : Nat) : Index :=
  let h := idx.height p + 1
  idx.push { parent := some p, ancestor := ancestor idx p (getAncestorHeight h), height := h }

def genesisIndex : Index := #[{ parent := none, ancestor := none, height := 0 }]

/-- the index built from the parent list `ps`: node `i+1` has parent `ps[i]` -/
def build (ps : List Nat) : Index := ps.foldl addNode genesisIndex

/-! ### chainView -/

/-- `chainView.nodes` -/
abbrev View := List (Option Nat)

def View.nodeByHeight (v : View) (h : Int) : Option Nat :=
  if h < 0 ∨ h ≥ v.length then none else (v[h.toNat]?).join

def View.tip (v : View) : Option Nat := v.getLast?.join
def View.genesis (v : View) : Option Nat := v.head?.join
def View.height (v : View) : Int := (v.length : Int) - 1

def View.contains (idx : Index) (v : View) (n : Nat) : Bool :=
  v.nodeByHeight (idx.height n) == some n

def View.next (idx : Index) (v : View) (n : Option Nat) : Option Nat :=
  match n with
  | none => none
  | some n => if v.contains idx n then v.nodeByHeight ((idx.height n : Int) + 1) else none

/-- `chainView.Equals`: same length and same tip -/
def View.equals (v w : View) : Bool := v.length == w.length && v.tip == w.tip

/-- the loop of `setTip` -/
def setTipLoop (idx : Index) : Nat → Option Nat → View → View
  | 0, _, v => v
  | _+1, none, v => v
  | f+1, some n, v =>
    let h := idx.height n
    if v[h]? = some (some n) then v
    else setTipLoop idx f (idx.parent n) (v.set h (some n))

/-- `setTip`: both branches (re-allocate / re-slice) leave the old prefix followed by nils -/
def setTip (idx : Index) (v : View) (n : Option Nat) : View :=
  match n with
  | none => []
  | some n =>
    let needed := idx.height n + 1
    let v' := v.take needed ++ List.replicate (needed - v.length) none
    setTipLoop idx needed (some n) v'

/-- the loop of `findFork` -/
def findForkLoop (idx : Index) (v : View) : Nat → Option Nat → Option Nat
  | 0, _ => none
  | _+1, none => none
  | f+1, some n => if v.contains idx n then some n else findForkLoop idx v f (idx.parent n)

def findFork (idx : Index) (v : View) (n : Option Nat) : Option Nat :=
  match n with
  | none => none
  | some n =>
    let n' : Option Nat :=
      if (idx.height n : Int) > v.height then ancestor idx n v.height else some n
    match n' with
    | none => none
    | some m => findForkLoop idx v (idx.height m + 1) (some m)

/-- the loop of `blockLocator`; `acc` is the locator so far -/
def locatorLoop (idx : Index) (v : View) : Nat → Nat → Nat → List Nat → List Nat
  | 0, _, _, acc => acc
  | f+1, n, step, acc =>
    let acc := acc ++ [n]
    let hn := idx.height n
    if hn = 0 then acc else
    let h := hn - step                      -- `if height < 0 { height = 0 }`
    let nxt := if v.contains idx n then (v[h]?).join else ancestor idx n h
    let step := if acc.length > 10 then step * 2 else step
    match nxt with
    | none => acc
    | some m => locatorLoop idx v f m step acc

/-- `blockLocator(node)`; nil node means the tip -/
def blockLocator (idx : Index) (v : View) (n : Option Nat) : List Nat :=
  match (match n with | none => v.tip | some n => some n) with
  | none => []
  | some n => locatorLoop idx v (idx.height n + 1) n 1 []

/-- `maxEntries` computed by `blockLocator` for the capacity of the slice -/
def locatorMaxEntries (h : Nat) : Nat :=
  if h ≤ 12 then h + 1 else 12 + Nat.log2 (h - 10)

/-! ### locator-driven inventory -/

def Index.known (idx : Index) (n : Nat) : Bool := n < idx.size

/-- the most recent locator entry on the main chain, else the view's genesis -/
def locateStart (idx : Index) (v : View) (locator : List Nat) : Option Nat :=
  match locator.find? (fun x => idx.known x && v.contains idx x) with
  | some s => some s
  | none => v.genesis

/-- number of entries from `s` (the node after the start): to the tip, or to the stop node when
    it is on the main chain at or above `s`; capped at `max` -/
def locateTotal (idx : Index) (v : View) (s stop max : Nat) : Nat :=
  let tipH : Nat := match v.tip with | some t => idx.height t | none => 0
  let total : Nat :=
    if idx.known stop ∧ v.contains idx stop = true ∧ idx.height stop ≥ idx.height s
    then (idx.height stop - idx.height s) + 1 else (tipH - idx.height s) + 1
  if total > max then max else total

/-- `locateInventory` : start node and count -/
def locateInventory (idx : Index) (v : View) (locator : List Nat) (stop : Nat) (max : Nat) :
    Option Nat × Nat :=
  if locator.isEmpty then
    (if idx.known stop then (some stop, 1) else (none, 0))
  else
    match v.next idx (locateStart idx v locator) with
    | none => (none, 0)
    | some s => (some s, locateTotal idx v s stop max)

/-- the copy loop of `locateBlocks` / `locateHeaders`; `none` = nil dereference -/
def collect (idx : Index) (v : View) : Nat → Option Nat → Option (List Nat)
  | 0, _ => some []
  | _+1, none => none
  | k+1, some n => (collect idx v k (v.next idx (some n))).map (n :: ·)

/-- `locateBlocks` / `locateHeaders` -/
def locateBlocks (idx : Index) (v : View) (locator : List Nat) (stop : Nat) (max : Nat) :
    Option (List Nat) :=
  let r := locateInventory idx v locator stop max
  if r.2 = 0 then some [] else collect idx v r.2 r.1

/-! ### height-range queries -/

inductive Res
  | err
  | panic
  | ids (l : List Nat)
  deriving Repr, DecidableEq

/-- nodes of the view at heights `s, s+1, …` (`k` of them); `none` = nil dereference -/
def viewSlice (v : View) : Nat → Nat → Option (List Nat)
  | 0, _ => some []
  | k+1, s => match v.nodeByHeight s with
    | none => none
    | some n => (viewSlice v k (s+1)).map (n :: ·)

/-- `HeightRange(startHeight, endHeight)` -/
def heightRange (idx : Index) (v : View) (s e : Int) : Res :=
  if s < 0 then .err else
  if e < s then .err else
  if s = e then .ids [] else
  match v.tip with
  | none => .panic
  | some t =>
    let latest : Int := idx.height t
    if s > latest then .ids [] else
    let e := if e > latest + 1 then latest + 1 else e
    match viewSlice v (e - s).toNat s.toNat with
    | none => .panic
    | some l => .ids l

/-- the backwards walk of `HeightToHashRange`: `k` nodes ending at `n`, lowest first -/
def walkBack (idx : Index) : Nat → Option Nat → List Nat → Option (List Nat)
  | 0, _, acc => some acc
  | _+1, none, _ => none
  | k+1, some n, acc => walkBack idx k (idx.parent n) (n :: acc)

/-- `HeightToHashRange(startHeight, endHash, maxResults)`; `valid` = `KnownValid` of a node -/
def heightToHashRange (idx : Index) (valid : Nat → Bool) (s : Int) (e : Nat) (max : Int) : Res :=
  if ¬ idx.known e then .err else
  if ¬ valid e then .err else
  let eh : Int := idx.height e
  if s < 0 then .err else
  if s > eh then .err else
  let len := eh - s + 1
  if len > max then .err else
  match walkBack idx len.toNat (some e) [] with
  | none => .panic
  | some l => .ids l

/-- the loop of `IntervalBlockHashes`, index counting down to 1 -/
def intervalLoop (idx : Index) (v : View) (interval : Nat) : Nat → Nat → List Nat → Option (List Nat)
  | 0, _, acc => some acc
  | i+1, n, acc =>
    let h : Nat := (i + 1) * interval
    let nxt := if v.contains idx n then v.nodeByHeight h else ancestor idx n h
    match nxt with
    | none => none
    | some m => intervalLoop idx v interval i m (m :: acc)

/-- `IntervalBlockHashes(endHash, interval)` -/
def intervalBlockHashes (idx : Index) (v : View) (valid : Nat → Bool) (e : Nat) (interval : Int) : Res :=
  if ¬ idx.known e then .err else
  if ¬ valid e then .err else
  if interval = 0 then .panic else
  let q := Int.tdiv (idx.height e) interval
  if q < 0 then .panic else
  if interval < 0 then .ids [] else
  match intervalLoop idx v interval.toNat q.toNat e [] with
  | none => .panic
  | some l => .ids l

/-- `MainChainHasBlock` -/
def mainChainHasBlock (idx : Index) (v : View) (n : Nat) : Bool := idx.known n && v.contains idx n

/-- `BlockHeightByHash` (`none` = error) -/
def blockHeightByHash (idx : Index) (v : View) (n : Nat) : Option Nat :=
  if idx.known n && v.contains idx n then some (idx.height n) else none

/-- `BlockLocatorFromHash`: unknown hash means the tip's locator -/
def blockLocatorFromHash (idx : Index) (v : View) (n : Nat) : List Nat :=
  blockLocator idx v (if idx.known n then some n else none)

end BV.C17
