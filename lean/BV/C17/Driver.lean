/- C17 line-protocol driver (core-only). -/
import BV.C17.Model
import BV.C17.Headers
import BV.C02.Model
namespace BV.C17.Driver

def pid (o : Option Nat) : String := match o with | none => "-" | some n => toString n
def b01 (b : Bool) : String := if b then "1" else "0"

def ids (l : List Nat) : String :=
  if l.isEmpty then "-" else ".".intercalate (l.map toString)

def res : Res → String
  | .err => "err"
  | .panic => "panic"
  | .ids l => ids l

/-- "p:len,p:len" → parent list; `none` when malformed or a parent does not exist yet -/
def parseSegs (s : String) : Option (List Nat) :=
  if s == "-" then some [] else
  let rec go (segs : List String) (acc : Array Nat) : Option (Array Nat) :=
    match segs with
    | [] => some acc
    | seg :: rest =>
      match seg.splitOn ":" with
      | [p, l] =>
        match p.toNat?, l.toNat? with
        | some p, some l =>
          if p > acc.size ∨ l < 1 then none else
          let acc := (List.range l).foldl (fun (a : Array Nat) j => a.push (if j = 0 then p else a.size)) acc
          go rest acc
        | _, _ => none
      | _ => none
  (go (s.splitOn ",") #[]).map (·.toList)

def insertNat (x : Nat) : List Nat → List Nat
  | [] => [x]
  | y :: ys => if x ≤ y then x :: y :: ys else y :: insertNat x ys

def parseOid (s : String) : Option (Option Nat) :=
  if s == "-" then some none else s.toNat?.map some

/-- locator token: `-` nil, `e` empty but non-nil, elements are ids, `z` = the all-zero hash (never
    in the index: an id beyond every tree) -/
def parseLoc (s : String) : Option (List Nat) :=
  if s == "-" ∨ s == "e" then some []
  else (s.splitOn ".").mapM (fun x => if x == "z" then some 4000000000 else x.toNat?)

def viewDigest (v : View) : String :=
  if v.isEmpty then "0/-/0" else
  let (cks, _) := v.foldl (fun (acc : Nat × Nat) o =>
    let (c, h) := acc
    let x := match o with | none => 1 | some n => n + 2
    ((c + (h + 1) * x) % 1000000007, h + 1)) (0, 0)
  s!"{v.length}/{pid v.tip}/{cks}"

structure St where
  idx : Index
  view : View := []
  status : List (Nat × Nat) := []
  /-- the parent function when the tree is small enough to also evaluate the (slow, list-based)
      Spec definitions next to the Model: a disagreement is answered as `spec-differs:…` -/
  spec : Option (Nat → Option Nat) := none
  /-- the last tip given to `setTip` -/
  tipId : Option Nat := none

/-- answer `out`, flagged when the Spec evaluation (if enabled) disagrees -/
def chk (ok : Bool) (out : String) : String := if ok then out else "spec-differs:" ++ out

/-- status byte of a node (the shim creates nodes as valid | dataStored | headerStored) -/
def St.statusOf (s : St) (n : Nat) : Nat :=
  match s.status.find? (·.1 == n) with
  | some (_, st) => st
  | none => Spec.STATUS_VALID + Spec.STATUS_DATA_STORED + Spec.STATUS_HEADER_STORED

def St.valid (s : St) (n : Nat) : Bool := s.statusOf n / Spec.STATUS_VALID % 2 == 1

/-- `InactiveTips` / `ChainTips` on the whole index (every node of the tree): nodes off the view
    that are not the parent of another node off the view -/
def inactiveTips (s : St) : List Nat :=
  let nodes := List.range s.idx.size
  let off := nodes.filter (fun n => !s.view.contains s.idx n)
  off.filter (fun n => !(off.any (fun c => s.idx.parent c == some n)))

def chainTipsT (s : St) : Option String :=
  match s.view.tip with
  | none => none
  | some t =>
    let one (n : Nat) : String :=
      let st := s.statusOf n
      let status := if s.view.contains s.idx n then 1
        else if (st / Spec.STATUS_VALIDATE_FAILED % 2 == 1) || (st / Spec.STATUS_INVALID_ANCESTOR % 2 == 1) then 2
        else if st % 2 == 1 then 3 else 0
      let fork := match findFork s.idx s.view (some n) with | some f => s.idx.height f | none => 0
      s!"{n}.{status}.{s.idx.height n - fork}"
    let all := (inactiveTips s ++ [t]).foldr (fun x acc => insertNat x acc) []
    some (",".intercalate (all.map one))

/-- one query token; `none` = malformed -/
def op (s : St) (tok : String) : Option (St × String) :=
  let idx := s.idx
  let v := s.view
  let inIdx (n : Nat) : Option Nat := if n < idx.size then some n else none
  match tok.splitOn ":" with
  | ["tip", n] => do
    let n ← parseOid n
    let v' := setTip idx v n
    let ok := match s.spec, n with
      | some P, some t => v' == (Spec.pathDown P t).map some
      | _, _ => true
    pure ({ s with view := v', tipId := n }, chk ok (viewDigest v'))
  | ["view"] => some (s, if v.isEmpty then "-" else ".".intercalate (v.map pid))
  | ["anc", n, h] => do
    let n ← n.toNat? >>= inIdx
    let h ← h.toInt?
    let r := ancestor idx n h
    let ok := match s.spec with | some P => r == Spec.ancestorAt P n h | none => true
    pure (s, chk ok (pid r))
  | ["skip", n] => do
    let n ← n.toNat? >>= inIdx
    pure (s, pid ((idx[n]?.map (·.ancestor)).join))
  | ["rel", n, d] => do
    let n ← n.toNat? >>= inIdx
    let d ← d.toInt?
    pure (s, pid (relativeAncestor idx n d))
  | ["isa", n, o] => do
    let n ← n.toNat? >>= inIdx
    let o ← parseOid o
    let r := isAncestor idx n o
    let ok := match s.spec, o with
      | some P, some o => r == Spec.isStrictAncestor P n o
      | _, _ => true
    pure (s, chk ok (b01 r))
  | ["has", n] => do
    let n ← n.toNat? >>= inIdx
    let r := v.contains idx n
    let ok := match s.spec, s.tipId with
      | some P, some t => r == (Spec.pathUp P t).contains n
      | _, _ => true
    pure (s, chk ok (b01 r))
  | ["nxt", n] => do
    let n ← parseOid n
    pure (s, pid (v.next idx n))
  | ["fork", n] => do
    let n ← parseOid n
    let r := findFork idx v n
    let ok := match s.spec, s.tipId, n with
      | some P, some t, some n => if n < idx.size then r == Spec.lca P t n else true
      | _, _, _ => true
    pure (s, chk ok (pid r))
  | ["at", h] => do
    let h ← h.toInt?
    pure (s, pid (v.nodeByHeight h))
  | ["ht"] => some (s, s!"{v.height}/{pid v.tip}/{pid v.genesis}")
  | ["loc", n] =>
    if n == "-" then some (s, ids (blockLocator idx v none)) else do
    let n ← n.toNat?
    let r := blockLocatorFromHash idx v n
    let ok := match s.spec with
      | some P => if n < idx.size then
          r.map some == (Spec.locatorHeights (Spec.depth P n)).map (fun (k : Nat) => Spec.ancestorAt P n (k : Int))
        else true
      | none => true
    pure (s, chk ok (ids r))
  | [kind, loc, stop, mx] =>
    if kind == "reuse" then do
      let loc ← parseLoc loc
      let stop ← stop.toNat?
      let mx ← mx.toNat?
      match locateBlocks idx v loc stop mx with
      | none => pure (s, "panic")
      | some l => pure (s, ids l ++ "/" ++ ids l)
    else if kind == "inv" ∨ kind == "hdr" then do
      let loc ← parseLoc loc
      let stop ← stop.toNat?
      let mx ← mx.toNat?
      match locateBlocks idx v loc stop mx with
      | none => pure (s, "panic")
      | some l =>
        let ok := match s.spec, s.tipId with
          | some P, some t => l == Spec.locate (Spec.pathDown P t) idx.known loc stop mx
          | _, _ => true
        pure (s, chk ok (ids l))
    else if kind == "linv" then do
      let loc ← parseLoc loc
      let stop ← stop.toNat?
      let mx ← mx.toNat?
      let (n, total) := locateInventory idx v loc stop mx
      pure (s, s!"{pid n}/{total}")
    else if kind == "h2h" then do
      let st ← loc.toInt?
      let e ← stop.toNat?
      let mx ← mx.toInt?
      pure (s, res (heightToHashRange idx s.valid st e mx))
    else if kind == "stf" then do
      let n ← loc.toNat? >>= inIdx
      let a ← stop.toNat?
      let b ← mx.toNat?
      let st := ((s.statusOf n ||| a) % 256) &&& (255 - (b % 256))
      pure ({ s with status := (n, st) :: s.status }, toString st)
    else none
  | ["lh", loc, stop] => do
    let loc ← parseLoc loc
    let stop ← stop.toNat?
    match locateBlocks idx v loc stop Spec.MAX_HEADERS_PER_MSG with
    | none => pure (s, "panic")
    | some l => pure (s, ids l)
  | ["eq", o] => do
    let o ← parseOid o
    let v2 := setTip idx [] o
    let r := b01 (v.equals v2)
    pure (s, r ++ r)
  | ["itips"] =>
    -- InactiveTips dereferences the parent of every off-view node: the root off the view panics
    if v.isEmpty then some (s, "panic") else some (s, ids (inactiveTips s))
  | ["tips"] => some (s, match chainTipsT s with | some x => x | none => "panic")
  | ["nd", n] => do
    let n ← n.toNat? >>= inIdx
    pure (s, s!"{pid (idx.parent n)}/{idx.height n}/1")
  | ["hdrof", n] => do
    let n ← n.toNat?
    if n < idx.size then pure (s, match idx.parent n with | some p => toString p | none => "z")
    else pure (s, "err")
  | ["rng", a, b] => do
    let a ← a.toInt?
    let b ← b.toInt?
    pure (s, res (heightRange idx v a b))
  | ["ivl", e, iv] => do
    let e ← e.toNat?
    let iv ← iv.toInt?
    pure (s, res (intervalBlockHashes idx v s.valid e iv))
  | ["mch", n] => do
    let n ← n.toNat?
    pure (s, b01 (mainChainHasBlock idx v n))
  | ["hbh", n] => do
    let n ← n.toNat?
    pure (s, match blockHeightByHash idx v n with | some h => toString h | none => "err")
  | ["bhh", h] => do
    let h ← h.toInt?
    pure (s, match v.nodeByHeight h with | some n => toString n | none => "err")
  | ["st", n, st] => do
    let n ← n.toNat? >>= inIdx
    let st ← st.toNat?
    pure ({ s with status := (n, st) :: s.status }, "ok")
  | _ => none

def runOps (s : St) (toks : List String) : String :=
  let rec go (s : St) (toks : List String) (acc : List String) : Option (List String) :=
    match toks with
    | [] => some acc.reverse
    | t :: rest => match op s t with
      | none => none
      | some (s', out) => go s' rest (out :: acc)
  match go s toks [] with
  | none => "bad-op"
  | some outs => if outs.contains "panic" then "panic" else "|".intercalate outs

def hfRes : HF.Res → String
  | .main => "main" | .side => "side" | .orphan => "orphan"
  | .dup => "err:dup" | .prevUnknown => "err:prevunknown" | .invalidAncestor => "err:invalidancestor"
  | .knownInvalid => "err:knowninvalid" | .badBlock => "err:badblock"

/-- a delivery (`h<id>`, `b<id>`) or a restart (`r<k>`) -/
def parseDelivery (n : Nat) (s : String) : Option (Option HF.Op) :=
  let k := (s.drop 1).toString.toNat?
  match k with
  | none => none
  | some k =>
    if s.startsWith "r" then some none
    else if k < 1 ∨ k > n then none
    else if s.startsWith "h" then some (some (.header k))
    else if s.startsWith "b" then some (some (.block k))
    else none

def insertById (x : Nat × Nat × Nat) : List (Nat × Nat × Nat) → List (Nat × Nat × Nat)
  | [] => [x]
  | y :: ys => if x.1 ≤ y.1 then x :: y :: ys else y :: insertById x ys

/-- C02's ChainCore on the same history (work 1 per block, connect verdict = not bad): result class
    and best tip after every step -/
def c02Trace (P : Nat → Option Nat) (bad : List Nat) (ops : List HF.Op) : List (String × Nat) :=
  let blk (n : Nat) : BV.C02.BlockAbs :=
    { hash := n, parent := (P n).getD 0, work := 1, sane := true, hdrOk := true, ctxOk := true,
      connOk := !bad.contains n }
  let rec go (s : BV.C02.State) (ops : List HF.Op) (acc : List (String × Nat)) : List (String × Nat) :=
    match ops with
    | [] => acc.reverse
    | op :: rest =>
      let (s', r) := BV.C02.step s (match op with
        | .header n => BV.C02.Op.header (blk n)
        | .block n => BV.C02.Op.block (blk n))
      let rs := match r with
        | .main => "main" | .side => "side" | .orphan => "orphan" | .dup => "dup"
        | .rej => "rej" | .ok => "ok" | .fail => "fail"
      go s' rest ((rs, s'.tip) :: acc)
  go BV.C02.init ops []

/-- our result class as C02 reports it -/
def asC02 (op : HF.Op) (r : HF.Res) : String :=
  match op, r with
  | .block _, .main => "main" | .block _, .side => "side" | .block _, .orphan => "orphan"
  | .block _, .dup => "dup" | .block _, _ => "rej"
  | .header _, .main => "main" | .header _, .side => "side" | .header _, _ => "rej"

def runHF (ps : List Nat) (bad : List Nat) (maxOrph : Nat) (ops : List (Option HF.Op)) : String :=
  let P := Spec.parentOf ps
  let nodes := List.range (ps.length + 1)
  let depths : Array Nat := nodes.foldl
    (fun (a : Array Nat) n => a.push (match P n with | none => 0 | some p => a.getD p 0 + 1)) #[]
  let depth := fun n => depths.getD n 0
  let e : HF.Env := { P := P, W := fun n => depth n + 1, bad := fun n => bad.contains n, maxOrphans := maxOrph }
  let obs (s : HF.State) : String :=
    let fork := match HF.forkNode e s.b s.h with | some f => depth f | none => 0
    let tips := (HF.chainTips e depth nodes s.b s.h).foldr insertById []
    let tipsS := ",".intercalate (tips.map (fun t => s!"{t.1}.{t.2.1}.{t.2.2}"))
    s!"{s.h.best}@{depth s.h.best}/{s.b.tip}@{depth s.b.tip}/f{fork}/{tipsS}"
  let rec go (s : HF.State) (ops : List (Option HF.Op)) (acc : List String) (trace : List (HF.Op × HF.Res × Nat)) :
      HF.State × List String × List (HF.Op × HF.Res × Nat) :=
    match ops with
    | [] => (s, acc.reverse, trace.reverse)
    | none :: rest =>
      let s' : HF.State := { b := HF.restartB s.b, h := HF.restartH s.b }
      go s' rest (s!"restart/{obs s'}" :: acc) trace
    | some op :: rest =>
      let (s', r) := HF.step e s op
      let n := match op with | .header n => n | .block n => n
      let v := b01 (HF.isValidHeader e s'.b s'.h n)
      let hv := b01 (HF.haveBlock s'.b n) ++ b01 (s'.b.orphans.contains n)
      let root := HF.orphanRoot e s'.b (ps.length + 1) n
      let hh := if HF.headerKnownOnBest e s'.b s'.h n then toString (depth n) else "-"
      go s' rest (s!"{hfRes r}/{v}/{hv}/{root}/{hh}/{obs s'}" :: acc) ((op, r, s'.b.tip) :: trace)
  let (sf, outs, trace) := go {} ops [] []
  -- final observations: the best-header chain by height, its locator, and the tip reached by
  -- delivering the blocks alone (equal to the interleaved run's tip by `headers_then_blocks…`)
  let maxH := depths.foldl Nat.max 0
  let hdrs := (List.range (maxH + 2)).map (fun (h : Nat) => pid (Spec.ancestorAt P sf.h.best (h : Int)))
  let hloc := (Spec.locatorHeights (depth sf.h.best)).map
    (fun (k : Nat) => pid (Spec.ancestorAt P sf.h.best (k : Int)))
  let plain := ops.filterMap id
  let bo := (HF.run e {} (plain.filter HF.Op.isBlock)).b.tip
  -- C02's ChainCore must tell the same story (histories without a restart)
  let c02ok := if plain.length ≠ ops.length || maxOrph != 100 then true else
    -- (a header accepted by C02's machine reads `ok` in versions that do not model the best header)
    ((c02Trace P bad plain).zip trace).all (fun (c, t) =>
      c.2 == t.2.2 && (c.1 == asC02 t.1 t.2.1 || (c.1 == "ok" && !t.2.1.isErr)))
  let byH := (List.range (maxH + 2)).map (fun (h : Nat) => pid (Spec.ancestorAt P sf.b.tip (h : Int)))
  let byHash := nodes.map (fun n => if (Spec.pathUp P sf.b.tip).contains n then toString (depth n) else "-")
  "|".intercalate (outs ++ [s!"byheight={".".intercalate byH}", s!"byhash={".".intercalate byHash}",
    s!"hdrs={".".intercalate hdrs}", s!"hloc={".".intercalate hloc}",
    s!"blocksonly={bo}@{depth bo}"] ++ (if c02ok then [] else ["c02-differs"]))

def splitOn2 (toks : List String) : List (List String) :=
  let (cur, acc) := toks.foldl (fun (st : List String × List (List String)) t =>
    if t == ";;" then ([], st.1.reverse :: st.2) else (t :: st.1, st.2)) ([], [])
  (cur.reverse :: acc).reverse

def handle1 : List String → String
  | ["gah", h] => match h.toNat? with
    | some h => s!"{invertLowestOne h}/{getAncestorHeight h}"
    | none => "bad-op"
  | ["log2", n] => match n.toNat? with
    | some n => toString (Nat.log2 n)
    | none => "bad-op"
  | "t" :: segs :: toks =>
    match parseSegs segs with
    | none => "bad-op"
    | some ps => runOps { idx := build ps,
                          spec := if ps.length ≤ 150 then some (Spec.parentOf ps) else none } toks
  | "hf" :: segs :: bad :: ds =>
    match parseSegs segs, parseLoc bad with
    | some ps, some bad =>
      -- optional `mo=<n>`: the orphan pool bound read from the tree by the harness (default 100)
      let (mo, ds) := match ds with
        | d :: rest => if d.startsWith "mo=" then ((d.drop 3).toString.toNat?.getD 100, rest) else (100, ds)
        | [] => (100, ds)
      match ds.mapM (parseDelivery ps.length) with
      | some ops => runHF ps bad mo ops
      | none => "bad-op"
    | _, _ => "bad-op"
  | _ => "bad-op"

/-- `par a ;; b ;; …`: independent instances; every instance answers as it does alone -/
def handle : List String → String
  | "par" :: rest => " ;; ".intercalate ((splitOn2 rest).map handle1)
  | toks => handle1 toks

end BV.C17.Driver
