/- C17 helper lemmas: block locator. Core-only. -/
import BV.C17.LemmasSetTip
namespace BV.C17.Lemmas
open BV.C17

/-- one locator step: through the view when the node is on it, through `Ancestor` otherwise —
    both are the naive ancestor -/
theorem locator_next {idx : Index} (wf : WF idx) (v : View) (hc : Coherent idx v)
    (n h : Nat) (hn : n < idx.size) (hh : h ≤ idx.height n) :
    (if v.contains idx n then (v[h]?).join else ancestor idx n (h : Int)) =
      walk idx (idx.height n - h) n := by
  by_cases hcn : v.contains idx n = true
  · rw [if_pos hcn]
    unfold View.contains View.nodeByHeight at hcn
    by_cases hr : ((idx.height n : Nat) : Int) < 0 ∨ ((idx.height n : Nat) : Int) ≥ v.length
    · rw [if_pos hr] at hcn; simp at hcn
    · rw [if_neg hr] at hcn
      simp only [Int.toNat_natCast, beq_iff_eq] at hcn
      have hv : v[idx.height n]? = some (some n) := by
        cases hx : v[idx.height n]? with
        | none => rw [hx] at hcn; cases hcn
        | some o =>
          rw [hx] at hcn
          cases o with
          | none => cases hcn
          | some x => simp at hcn; rw [hcn]
      rw [(hc _ n hv).2.2 h hh]; rfl
  · rw [if_neg hcn, ancestor_eq_walk wf n hn]
    have : ¬ (((h : Nat) : Int) < 0 ∨ ((h : Nat) : Int) > idx.height n) := by omega
    simp only [this, if_false, Int.toNat_natCast]

theorem locatorLoop_spec {idx : Index} (wf : WF idx) (v : View) (hc : Coherent idx v)
    (s : Nat) (hs : s < idx.size) :
    ∀ (f n step : Nat) (acc : List Nat), n < idx.size → 1 ≤ step → idx.height n + 1 ≤ f →
      idx.height n ≤ idx.height s → walk idx (idx.height s - idx.height n) s = some n →
      (locatorLoop idx v f n step acc).map some =
        acc.map some ++ (Spec.locatorHeightsAux f (idx.height n) step acc.length).map
          (fun k => walk idx (idx.height s - k) s)
  | 0, _, _, _, _, _, hf, _, _ => by omega
  | f+1, n, step, acc, hn, hstep, hf, hns, hw => by
    unfold locatorLoop Spec.locatorHeightsAux
    simp only []
    by_cases h0 : idx.height n = 0
    · simp only [h0, if_true, List.map_append, List.map_cons, List.map_nil]
      rw [h0] at hw; rw [hw]
    · simp only [h0, if_false]
      rw [locator_next wf v hc n _ hn (by omega)]
      obtain ⟨m, hm, hms, hmh, _⟩ := walk_spec wf (idx.height n - (idx.height n - step)) n hn (by omega)
      rw [hm]
      simp only []
      have hwm : walk idx (idx.height s - idx.height m) s = some m := by
        have := walk_add idx _ (idx.height n - (idx.height n - step)) s n hw
        rw [hm] at this; rw [← this]; congr 1; omega
      rw [locatorLoop_spec wf v hc s hs f m _ _ hms
        (by split <;> omega) (by omega) (by omega) hwm]
      simp only [List.map_append, List.map_cons, List.map_nil, List.length_append,
        List.length_cons, List.length_nil, List.append_assoc, List.singleton_append]
      rw [hw]
      have : idx.height m = idx.height n - step := by omega
      rw [this]

theorem locatorHeightsAux_le : ∀ (f h step cnt k : Nat),
    k ∈ Spec.locatorHeightsAux f h step cnt → k ≤ h
  | 0, h, _, _, k, hk => by simp [Spec.locatorHeightsAux] at hk; omega
  | f+1, h, step, cnt, k, hk => by
    unfold Spec.locatorHeightsAux at hk
    by_cases h0 : h = 0
    · simp [h0] at hk; omega
    · simp only [h0, if_false, List.mem_cons] at hk
      rcases hk with hk | hk
      · omega
      · have := locatorHeightsAux_le f _ _ _ k hk; omega

/-- `blockLocator(n)`: the nodes at the Spec's locator heights on `n`'s own parent walk,
    whether or not `n` is on the view -/
theorem blockLocator_spec {idx : Index} (wf : WF idx) (v : View) (hc : Coherent idx v)
    (n : Nat) (hn : n < idx.size) :
    (blockLocator idx v (some n)).map some =
      (Spec.locatorHeights (idx.height n)).map (fun (k : Nat) => Spec.ancestorAt idx.parent n (k : Int)) := by
  unfold blockLocator Spec.locatorHeights
  simp only []
  rw [locatorLoop_spec wf v hc n hn _ n 1 [] hn (Nat.le_refl _) (Nat.le_refl _) (Nat.le_refl _)
    (by simp [walk])]
  simp only [List.map_nil, List.nil_append, List.length_nil]
  apply List.map_congr_left
  intro k hk
  have hkl := locatorHeightsAux_le _ _ _ _ k hk
  rw [← ancestor_eq_spec wf n hn, ancestor_eq_walk wf n hn]
  have : ¬ (((k : Nat) : Int) < 0 ∨ ((k : Nat) : Int) > idx.height n) := by omega
  simp only [this, if_false, Int.toNat_natCast]

end BV.C17.Lemmas

namespace BV.C17.Lemmas
open BV.C17

/-! ### Spec-level facts about the locator heights -/

theorem locatorHeightsAux_head (f h step cnt : Nat) :
    (Spec.locatorHeightsAux (f+1) h step cnt)[0]? = some h := by
  unfold Spec.locatorHeightsAux
  by_cases h0 : h = 0 <;> simp [h0]

/-- the first 12 entries descend one block at a time -/
theorem locatorHeightsAux_singles : ∀ (i f h cnt : Nat), i ≤ h → i + cnt ≤ 11 → h + 1 ≤ f →
    (Spec.locatorHeightsAux f h 1 cnt)[i]? = some (h - i)
  | 0, f, h, cnt, _, _, hf => by
    obtain ⟨f', rfl⟩ : ∃ f', f = f' + 1 := ⟨f - 1, by omega⟩
    exact locatorHeightsAux_head f' h 1 cnt
  | i+1, f, h, cnt, hi, hc, hf => by
    obtain ⟨f', rfl⟩ : ∃ f', f = f' + 1 := ⟨f - 1, by omega⟩
    unfold Spec.locatorHeightsAux
    have h0 : h ≠ 0 := by omega
    simp only [h0, if_false, List.getElem?_cons_succ]
    by_cases hcnt : cnt + 1 > 10
    · have hi0 : i = 0 := by omega
      subst hi0
      simp only [hcnt, if_true]
      obtain ⟨f'', rfl⟩ : ∃ f'', f' = f'' + 1 := ⟨f' - 1, by omega⟩
      rw [locatorHeightsAux_head]
    · simp only [hcnt, if_false]
      rw [locatorHeightsAux_singles i f' (h - 1) (cnt + 1) (by omega) (by omega) (by omega)]
      congr 1; omega

/-- the locator always ends at height 0 (the root) -/
theorem locatorHeightsAux_last : ∀ (f h step cnt : Nat), 1 ≤ step → h + 1 ≤ f →
    (Spec.locatorHeightsAux f h step cnt).getLast? = some 0
  | 0, _, _, _, _, hf => by omega
  | f+1, h, step, cnt, hs, hf => by
    unfold Spec.locatorHeightsAux
    by_cases h0 : h = 0
    · simp [h0]
    · simp only [h0, if_false]
      have ih := locatorHeightsAux_last f (h - step) (if cnt + 1 > 10 then step * 2 else step) (cnt + 1)
        (by split <;> omega) (by omega)
      rw [List.getLast?_cons, ih]; rfl

/-- heights strictly decrease along the locator -/
theorem locatorHeightsAux_desc : ∀ (f h step cnt : Nat), 1 ≤ step →
    (Spec.locatorHeightsAux f h step cnt).Pairwise (· > ·)
  | 0, _, _, _, _ => by simp [Spec.locatorHeightsAux]
  | f+1, h, step, cnt, hs => by
    unfold Spec.locatorHeightsAux
    by_cases h0 : h = 0
    · simp [h0]
    · simp only [h0, if_false, List.pairwise_cons]
      refine ⟨?_, locatorHeightsAux_desc f _ _ _ (by split <;> omega)⟩
      intro k hk
      have := locatorHeightsAux_le _ _ _ _ k hk
      omega

end BV.C17.Lemmas
