/- C17 helper lemmas: block locator. Core-only. -/
import BV.C17.LemmasSetTip
namespace BV.C17.Lemmas
open BV.C17

/-- one locator step: through the view when the node is on it, through `Ancestor` otherwise —
    both are the naive ancestor -/
theorem locator_next {idx : Index} (wf : WF idx) (v : View) (hc : Coherent idx v)
    (n h : Nat) (hn : n < idx.size) (hh : h ≤ idx.height n) :
    (if v.contains idx n then (v[h]?).join else ancestor idx n (h : Int)) =
      walk idx (idx.height n - h) n := by
  by_cases hcn : v.contains idx n = true
  · rw [if_pos hcn]
    unfold View.contains View.nodeByHeight at hcn
    by_cases hr : ((idx.height n : Nat) : Int) < 0 ∨ ((idx.height n : Nat) : Int) ≥ v.length
    · rw [if_pos hr] at hcn; simp at hcn
    · rw [if_neg hr] at hcn
      simp only [Int.toNat_natCast, beq_iff_eq] at hcn
      have hv : v[idx.height n]? = some (some n) := by
        cases hx : v[idx.height n]? with
        | none => rw [hx] at hcn; cases hcn
        | some o =>
          rw [hx] at hcn
          cases o with
          | none => cases hcn
          | some x => simp at hcn; rw [hcn]
      rw [(hc _ n hv).2.2 h hh]; rfl
  · rw [if_neg hcn, ancestor_eq_walk wf n hn]
    have : ¬ (((h : Nat) : Int) < 0 ∨ ((h : Nat) : Int) > idx.height n) := by omega
    simp only [this, if_false, Int.toNat_natCast]

theorem locatorLoop_spec {idx : Index} (wf : WF idx) (v : View) (hc : Coherent idx v)
    (s : Nat) (hs : s < idx.size) :
    ∀ (f n step : Nat) (acc : List Nat), n < idx.size → 1 ≤ step → idx.height n + 1 ≤ f →
      idx.height n ≤ idx.height s → walk idx (idx.height s - idx.height n) s = some n →
      (locatorLoop idx v f n step acc).map some =
        acc.map some ++ (Spec.locatorHeightsAux f (idx.height n) step acc.length).map
          (fun k => walk idx (idx.height s - k) s)
  | 0, _, _, _, _, _, hf, _, _ => by omega
  | f+1, n, step, acc, hn, hstep, hf, hns, hw => by
    unfold locatorLoop Spec.locatorHeightsAux
    simp only []
    by_cases h0 : idx.height n = 0
    · simp only [h0, if_true, List.map_append, List.map_cons, List.map_nil]
      rw [h0] at hw; rw [hw]
    · simp only [h0, if_false]
      rw [locator_next wf v hc n _ hn (by omega)]
      obtain ⟨m, hm, hms, hmh, _⟩ := walk_spec wf (idx.height n - (idx.height n - step)) n hn (by omega)
      rw [hm]
      simp only []
      have hwm : walk idx (idx.height s - idx.height m) s = some m := by
        have := walk_add idx _ (idx.height n - (idx.height n - step)) s n hw
        rw [hm] at this; rw [← this]; congr 1; omega
      rw [locatorLoop_spec wf v hc s hs f m _ _ hms
        (by split <;> omega) (by omega) (by omega) hwm]
      simp only [List.map_append, List.map_cons, List.map_nil, List.length_append,
        List.length_cons, List.length_nil, List.append_assoc, List.singleton_append]
      rw [hw]
      have : idx.height m = idx.height n - step := by omega
      rw [this]

theorem locatorHeightsAux_le : ∀ (f h step cnt k : Nat),
    k ∈ Spec.locatorHeightsAux f h step cnt → k ≤ h
  | 0, h, _, _, k, hk => by simp [Spec.locatorHeightsAux] at hk; omega
  | f+1, h, step, cnt, k, hk => by
    unfold Spec.locatorHeightsAux at hk
    by_cases h0 : h = 0
    · simp [h0] at hk; omega
    · simp only [h0, if_false, List.mem_cons] at hk
      rcases hk with hk | hk
      · omega
      · have := locatorHeightsAux_le f _ _ _ k hk; omega

/-- `blockLocator(n)`: the nodes at the Spec's locator heights on `n`'s own parent walk,
    whether or not `n` is on the view -/
theorem blockLocator_spec {idx : Index} (wf : WF idx) (v : View) (hc : Coherent idx v)
    (n : Nat) (hn : n < idx.size) :
    (blockLocator idx v (some n)).map some =
      (Spec.locatorHeights (idx.height n)).map (fun (k : Nat) => Spec.ancestorAt idx.parent n (k : Int)) := by
  unfold blockLocator Spec.locatorHeights
  simp only []
  rw [locatorLoop_spec wf v hc n hn _ n 1 [] hn (Nat.le_refl _) (Nat.le_refl _) (Nat.le_refl _)
    (by simp [walk])]
  simp only [List.map_nil, List.nil_append, List.length_nil]
  apply List.map_congr_left
  intro k hk
  have hkl := locatorHeightsAux_le _ _ _ _ k hk
  rw [← ancestor_eq_spec wf n hn, ancestor_eq_walk wf n hn]
  have : ¬ (((k : Nat) : Int) < 0 ∨ ((k : Nat) : Int) > idx.height n) := by omega
  simp only [this, if_false, Int.toNat_natCast]

end BV.C17.Lemmas

namespace BV.C17.Lemmas
open BV.C17

/-! ### Spec-level facts about the locator heights -/

theorem locatorHeightsAux_head (f h step cnt : Nat) :
    (Spec.locatorHeightsAux (f+1) h step cnt)[0]? = some h := by
  unfold Spec.locatorHeightsAux
  by_cases h0 : h = 0 <;> simp [h0]

/-- the first 12 entries descend one block at a time -/
theorem locatorHeightsAux_singles : ∀ (i f h cnt : Nat), i ≤ h → i + cnt ≤ 11 → h + 1 ≤ f →
    (Spec.locatorHeightsAux f h 1 cnt)[i]? = some (h - i)
  | 0, f, h, cnt, _, _, hf => by
    obtain ⟨f', rfl⟩ : ∃ f', f = f' + 1 := ⟨f - 1, by omega⟩
    exact locatorHeightsAux_head f' h 1 cnt
  | i+1, f, h, cnt, hi, hc, hf => by
    obtain ⟨f', rfl⟩ : ∃ f', f = f' + 1 := ⟨f - 1, by omega⟩
    unfold Spec.locatorHeightsAux
    have h0 : h ≠ 0 := by omega
    simp only [h0, if_false, List.getElem?_cons_succ]
    by_cases hcnt : cnt + 1 > 10
    · have hi0 : i = 0 := by omega
      subst hi0
      simp only [hcnt, if_true]
      obtain ⟨f'', rfl⟩ : ∃ f'', f' = f'' + 1 := ⟨f' - 1, by omega⟩
      rw [locatorHeightsAux_head]
    · simp only [hcnt, if_false]
      rw [locatorHeightsAux_singles i f' (h - 1) (cnt + 1) (by omega) (by omega) (by omega)]
      congr 1; omega

/-- the locator always ends at height 0 (the root) -/
theorem locatorHeightsAux_last : ∀ (f h step cnt : Nat), 1 ≤ step → h + 1 ≤ f →
    (Spec.locatorHeightsAux f h step cnt).getLast? = some 0
  | 0, _, _, _, _, hf => by omega
  | f+1, h, step, cnt, hs, hf => by
    unfold Spec.locatorHeightsAux
    by_cases h0 : h = 0
    · simp [h0]
    · simp only [h0, if_false]
      have ih := locatorHeightsAux_last f (h - step) (if cnt + 1 > 10 then step * 2 else step) (cnt + 1)
        (by split <;> omega) (by omega)
      rw [List.getLast?_cons, ih]; rfl

/-- heights strictly decrease along the locator -/
theorem locatorHeightsAux_desc : ∀ (f h step cnt : Nat), 1 ≤ step →
    (Spec.locatorHeightsAux f h step cnt).Pairwise (· > ·)
  | 0, _, _, _, _ => by simp [Spec.locatorHeightsAux]
  | f+1, h, step, cnt, hs => by
    unfold Spec.locatorHeightsAux
    by_cases h0 : h = 0
    · simp [h0]
    · simp only [h0, if_false, List.pairwise_cons]
      refine ⟨?_, locatorHeightsAux_desc f _ _ _ (by split <;> omega)⟩
      intro k hk
      have := locatorHeightsAux_le _ _ _ _ k hk
      omega

end BV.C17.Lemmas

namespace BV.C17.Lemmas
open BV.C17

/-! ### length bound of the locator -/

theorem log2_half (x : Nat) (hx : 2 ≤ x) : Nat.log2 x = Nat.log2 (x / 2) + 1 := by
  rw [Nat.log2_def x]; simp [hx]

/-- doubling phase: at most `2 + log2 ⌈h/s⌉` entries remain -/
theorem locatorLen_doubling : ∀ (f h s cnt : Nat), 10 ≤ cnt → 1 ≤ s → h + 1 ≤ f →
    (Spec.locatorHeightsAux f h s cnt).length ≤ 2 + Nat.log2 ((h + s - 1) / s)
  | 0, _, _, _, _, _, hf => by omega
  | f+1, h, s, cnt, hc, hs, hf => by
    unfold Spec.locatorHeightsAux
    by_cases h0 : h = 0
    · simp [h0]; omega
    · simp only [h0, if_false, List.length_cons]
      have hcnt : cnt + 1 > 10 := by omega
      simp only [hcnt, if_true]
      by_cases hle : h ≤ s
      · have : h - s = 0 := by omega
        rw [this]
        cases f with
        | zero => omega
        | succ f => simp [Spec.locatorHeightsAux]
      · have ih := locatorLen_doubling f (h - s) (s * 2) (cnt + 1) (by omega) (by omega) (by omega)
        have e1 : (h - s + s * 2 - 1) / (s * 2) = (h + s - 1) / s / 2 := by
          rw [Nat.div_div_eq_div_mul]; congr 1; omega
        rw [e1] at ih
        have hx : 2 ≤ (h + s - 1) / s := by
          rw [Nat.le_div_iff_mul_le (by omega)]; omega
        rw [log2_half _ hx]; omega

/-- single-step phase (`r = 11 - cnt` single steps left) followed by the doubling phase -/
theorem locatorLen_singles : ∀ (r f h cnt : Nat), 1 ≤ r → r + cnt = 11 → h + 1 ≤ f →
    (Spec.locatorHeightsAux f h 1 cnt).length ≤
      if h ≤ r then h + 1 else r + 2 + Nat.log2 ((h - r + 1) / 2)
  | 0, _, _, _, hr, _, _ => by omega
  | r+1, f, h, cnt, _, hrc, hf => by
    obtain ⟨f', rfl⟩ : ∃ f', f = f' + 1 := ⟨f - 1, by omega⟩
    unfold Spec.locatorHeightsAux
    by_cases h0 : h = 0
    · simp [h0]
    · simp only [h0, if_false, List.length_cons]
      by_cases hr0 : r = 0
      · -- last single step: cnt = 10, the step doubles after this entry
        subst hr0
        have hcnt : cnt + 1 > 10 := by omega
        simp only [hcnt, if_true]
        simp only [Nat.one_mul]
        have ih := locatorLen_doubling f' (h - 1) 2 (cnt + 1) (by omega) (by omega) (by omega)
        by_cases h1 : h ≤ 0 + 1
        · have : h - 1 = 0 := by omega
          rw [this] at ih ⊢
          simp only [h1, if_true]
          cases f' with
          | zero => omega
          | succ f'' => simp [Spec.locatorHeightsAux]; omega
        · simp only [h1, if_false]
          have : (h - 1 + 2 - 1) / 2 = (h - (0 + 1) + 1) / 2 := by
            have : h - 1 + 2 - 1 = h - (0 + 1) + 1 := by omega
            rw [this]
          rw [this] at ih; omega
      · have hcnt : ¬ cnt + 1 > 10 := by omega
        simp only [hcnt, if_false]
        have ih := locatorLen_singles r f' (h - 1) (cnt + 1) (by omega) (by omega) (by omega)
        by_cases h1 : h ≤ r + 1
        · have : h - 1 ≤ r := by omega
          simp only [h1, this, if_true] at ih ⊢; omega
        · have : ¬ h - 1 ≤ r := by omega
          simp only [h1, this, if_false] at ih ⊢
          have e : h - 1 - r + 1 = h - (r + 1) + 1 := by omega
          rw [e] at ih; omega

/-- the locator never has more entries than the capacity `blockLocator` computes up front:
    `height + 1` up to height 12, `12 + ⌊log2 (height − 10)⌋` above -/
theorem locatorHeights_length_le (h : Nat) :
    (Spec.locatorHeights h).length ≤ locatorMaxEntries h := by
  unfold Spec.locatorHeights locatorMaxEntries
  have := locatorLen_singles 11 (h + 1) h 0 (by omega) (by omega) (Nat.le_refl _)
  by_cases h11 : h ≤ 11
  · have h12 : h ≤ 12 := by omega
    simp only [h11, if_true] at this; simp only [h12, if_true]; exact this
  · simp only [h11, if_false] at this
    by_cases h12 : h ≤ 12
    · have : h = 12 := by omega
      subst this
      simp only [Nat.le_refl, if_true]
      exact Nat.le_trans this (by decide)
    · simp only [h12, if_false]
      have e : (h - 11 + 1) / 2 = (h - 10) / 2 := by congr 1; omega
      rw [e] at this
      rw [log2_half (h - 10) (by omega)]; omega

end BV.C17.Lemmas
