/- C17 helper lemmas: link between the index model and the naive Spec walks. Core-only. -/
import BV.C17.Lemmas
namespace BV.C17.Lemmas
open BV.C17

theorem parent_foldl : ∀ (ps : List Nat) (idx : Index) (n : Nat),
    Index.parent (ps.foldl addNode idx) n =
      if n < idx.size then idx.parent n else ps[n - idx.size]?
  | [], idx, n => by
    by_cases hn : n < idx.size
    · simp [hn]
    · simp [hn, Index.parent, Array.getElem?_eq_none (Nat.le_of_not_lt hn)]
  | p :: ps, idx, n => by
    simp only [List.foldl_cons]
    rw [parent_foldl ps (addNode idx p) n, size_addNode]
    by_cases h1 : n < idx.size
    · have : n < idx.size + 1 := by omega
      simp only [this, h1, if_true]
      exact parent_push idx _ n h1
    · by_cases h2 : n = idx.size
      · subst h2
        simp [addNode, Index.parent]
      · have : ¬ n < idx.size + 1 := by omega
        simp only [this, h1, if_false]
        have : n - idx.size = (n - (idx.size + 1)) + 1 := by omega
        rw [this, List.getElem?_cons_succ]

theorem parent_build (ps : List Nat) : Index.parent (build ps) = Spec.parentOf ps := by
  funext n
  rw [build, parent_foldl]
  unfold Spec.parentOf
  by_cases hn : n = 0
  · subst hn; simp [genesisIndex, Index.parent]
  · have : ¬ n < genesisIndex.size := by simp [genesisIndex]; omega
    simp [this, hn, genesisIndex]

/-- the naive walk list agrees with `walk` position by position -/
theorem chainUp_getElem? {idx : Index} (wf : WF idx) : ∀ (f n k : Nat), n < idx.size →
    idx.height n ≤ f →
    (Spec.chainUp idx.parent f n)[k]? = if k ≤ idx.height n then walk idx k n else none
  | 0, n, k, _, hf => by
    have h0 : idx.height n = 0 := by omega
    cases k with
    | zero => simp [Spec.chainUp, walk]
    | succ k => simp [Spec.chainUp, h0]
  | f+1, n, k, hn, hf => by
    obtain ⟨nd, hnd⟩ := lookup_lt hn
    have hh := height_of hnd
    have hpar := parent_of hnd
    unfold Spec.chainUp
    cases hp : nd.parent with
    | none =>
      have h0 := wf.root n nd hnd hp
      rw [hpar, hp]
      cases k with
      | zero => simp [walk]
      | succ k => simp [hh, h0]
    | some p =>
      obtain ⟨hpn, hph⟩ := wf.par n nd p hnd hp
      rw [hpar, hp]
      cases k with
      | zero => simp [walk]
      | succ k =>
        simp only [List.getElem?_cons_succ]
        rw [chainUp_getElem? wf f p k (by omega) (by omega), walk_succ, hpar, hp]
        have : (k ≤ idx.height p) ↔ (k + 1 ≤ idx.height n) := by omega
        simp only [this]

theorem chainUp_length {idx : Index} (wf : WF idx) : ∀ (f n : Nat), n < idx.size →
    idx.height n ≤ f → (Spec.chainUp idx.parent f n).length = idx.height n + 1
  | 0, n, _, hf => by simp [Spec.chainUp]; omega
  | f+1, n, hn, hf => by
    obtain ⟨nd, hnd⟩ := lookup_lt hn
    have hh := height_of hnd
    have hpar := parent_of hnd
    unfold Spec.chainUp
    cases hp : nd.parent with
    | none =>
      have h0 := wf.root n nd hnd hp
      rw [hpar, hp]; simp; omega
    | some p =>
      obtain ⟨hpn, hph⟩ := wf.par n nd p hnd hp
      rw [hpar, hp]
      simp only [List.length_cons]
      rw [chainUp_length wf f p (by omega) (by omega)]; omega

theorem pathUp_getElem? {idx : Index} (wf : WF idx) (n k : Nat) (hn : n < idx.size) :
    (Spec.pathUp idx.parent n)[k]? = if k ≤ idx.height n then walk idx k n else none :=
  chainUp_getElem? wf n n k hn (height_le_id wf n hn)

theorem pathUp_length {idx : Index} (wf : WF idx) (n : Nat) (hn : n < idx.size) :
    (Spec.pathUp idx.parent n).length = idx.height n + 1 :=
  chainUp_length wf n n hn (height_le_id wf n hn)

theorem depth_eq {idx : Index} (wf : WF idx) (n : Nat) (hn : n < idx.size) :
    Spec.depth idx.parent n = idx.height n := by
  unfold Spec.depth; rw [pathUp_length wf n hn]; omega

theorem pathDown_getElem? {idx : Index} (wf : WF idx) (n h : Nat) (hn : n < idx.size) :
    (Spec.pathDown idx.parent n)[h]? =
      if h ≤ idx.height n then walk idx (idx.height n - h) n else none := by
  unfold Spec.pathDown
  have hl := pathUp_length wf n hn
  by_cases hh : h ≤ idx.height n
  · rw [List.getElem?_reverse (by omega), pathUp_getElem? wf n _ hn, hl]
    have : idx.height n + 1 - 1 - h = idx.height n - h := by omega
    rw [this]
    simp [hh]
  · simp only [hh, if_false]
    apply List.getElem?_eq_none
    simp; omega

/-- `Ancestor` agrees with the Spec's naive lookup on a well-formed index -/
theorem ancestor_eq_spec {idx : Index} (wf : WF idx) (n : Nat) (hn : n < idx.size) (h : Int) :
    ancestor idx n h = Spec.ancestorAt idx.parent n h := by
  rw [ancestor_eq_walk wf n hn, Spec.ancestorAt]
  by_cases h0 : h < 0
  · simp [h0]
  · simp only [h0, if_false, false_or]
    rw [pathDown_getElem? wf n _ hn]
    by_cases h1 : h > idx.height n
    · have : ¬ h.toNat ≤ idx.height n := by omega
      simp [h1, this]
    · have : h.toNat ≤ idx.height n := by omega
      simp [h1, this]

end BV.C17.Lemmas

namespace BV.C17.Lemmas
open BV.C17

theorem mem_pathUp {idx : Index} (wf : WF idx) (n a : Nat) (hn : n < idx.size) :
    a ∈ Spec.pathUp idx.parent n ↔ ∃ k, k ≤ idx.height n ∧ walk idx k n = some a := by
  rw [List.mem_iff_getElem?]
  constructor
  · rintro ⟨k, hk⟩
    rw [pathUp_getElem? wf n k hn] at hk
    by_cases hkh : k ≤ idx.height n
    · simp only [hkh, if_true] at hk; exact ⟨k, hkh, hk⟩
    · simp [hkh] at hk
  · rintro ⟨k, hkh, hk⟩
    exact ⟨k, by rw [pathUp_getElem? wf n k hn]; simp [hkh, hk]⟩

theorem isAncestor_eq_spec {idx : Index} (wf : WF idx) (n o : Nat) (hn : n < idx.size) :
    isAncestor idx n (some o) = Spec.isStrictAncestor idx.parent n o := by
  unfold isAncestor Spec.isStrictAncestor
  simp only []
  rw [ancestor_eq_walk wf n hn]
  rw [Bool.eq_iff_iff]
  simp only [Bool.and_eq_true, List.contains_iff_mem, decide_eq_true_eq, bne_iff_ne, ne_eq]
  rw [mem_pathUp wf n o hn]
  by_cases hgt : idx.height o > idx.height n
  · have : ((idx.height o : Nat) : Int) < 0 ∨ ((idx.height o : Nat) : Int) > idx.height n := by omega
    simp only [this, if_true]
    constructor
    · intro h; cases h
    · rintro ⟨_, k, hk, hw⟩
      obtain ⟨m, hm, _, hmh, _⟩ := walk_spec wf k n hn hk
      rw [hm] at hw; injection hw with hw; subst hw; omega
  · have : ¬ (((idx.height o : Nat) : Int) < 0 ∨ ((idx.height o : Nat) : Int) > idx.height n) := by omega
    simp only [this, if_false, Int.toNat_natCast]
    obtain ⟨a, ha, _, hah, _⟩ := walk_spec wf (idx.height n - idx.height o) n hn (by omega)
    rw [ha]
    simp only []
    by_cases heq : idx.height n = idx.height a
    · rw [if_pos heq]
      constructor
      · intro h; cases h
      · rintro ⟨hne, k, hk, hw⟩
        obtain ⟨m, hm, _, hmh, _⟩ := walk_spec wf k n hn hk
        rw [hm] at hw; injection hw with hw; subst hw
        have : k = 0 := by omega
        subst this
        simp [walk] at hm; exact absurd hm.symm hne
    · rw [if_neg heq]; simp only [beq_iff_eq]
      constructor
      · intro h; subst h
        refine ⟨?_, idx.height n - idx.height a, by omega, ha⟩
        intro h; subst h; exact heq rfl
      · rintro ⟨_, k, hk, hw⟩
        obtain ⟨m, hm, _, hmh, _⟩ := walk_spec wf k n hn hk
        rw [hm] at hw; injection hw with hw; subst hw
        have : k = idx.height n - idx.height m := by omega
        rw [← this, hm] at ha
        injection ha with ha; exact ha.symm

end BV.C17.Lemmas
