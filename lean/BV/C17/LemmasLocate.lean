/- C17 helper lemmas: locator-driven inventory. Core-only. -/
import BV.C17.LemmasLocator
namespace BV.C17.Lemmas
open BV.C17

/-! ### list helpers -/

theorem dropWhile_eq_drop {α : Type} (p : α → Bool) : ∀ (l : List α) (k : Nat) (x : α),
    l[k]? = some x → p x = false → (∀ j y, j < k → l[j]? = some y → p y = true) →
    l.dropWhile p = l.drop k
  | [], k, x, h, _, _ => by simp at h
  | a :: l, 0, x, h, hx, _ => by
    simp at h; subst h; simp [List.dropWhile, hx]
  | a :: l, k+1, x, h, hx, hb => by
    have ha : p a = true := hb 0 a (by omega) (by simp)
    simp only [List.dropWhile, ha, List.drop_succ_cons]
    exact dropWhile_eq_drop p l k x (by simpa using h) hx
      (fun j y hj hy => hb (j+1) y (by omega) (by simpa using hy))

theorem takeThrough_hit (p : Nat → Bool) : ∀ (l : List Nat) (k : Nat) (x : Nat),
    l[k]? = some x → p x = true → (∀ j y, j < k → l[j]? = some y → p y = false) →
    Spec.takeThrough p l = l.take (k+1)
  | [], k, x, h, _, _ => by simp at h
  | a :: l, 0, x, h, hx, _ => by
    simp at h; subst h; simp [Spec.takeThrough, hx]
  | a :: l, k+1, x, h, hx, hb => by
    have ha : p a = false := hb 0 a (by omega) (by simp)
    simp only [Spec.takeThrough, ha, List.take_succ_cons]
    simp only [Bool.false_eq_true, if_false]
    congr 1
    exact takeThrough_hit p l k x (by simpa using h) hx
      (fun j y hj hy => hb (j+1) y (by omega) (by simpa using hy))

theorem takeThrough_miss (p : Nat → Bool) : ∀ (l : List Nat), (∀ y ∈ l, p y = false) →
    Spec.takeThrough p l = l
  | [], _ => rfl
  | a :: l, h => by
    have ha : p a = false := h a (by simp)
    simp only [Spec.takeThrough, ha, Bool.false_eq_true, if_false]
    congr 1
    exact takeThrough_miss p l (fun y hy => h y (by simp [hy]))

theorem drop_cons_of_getElem? {α : Type} : ∀ (l : List α) (i : Nat) (x : α), l[i]? = some x →
    l.drop i = x :: l.drop (i+1)
  | [], i, x, h => by simp at h
  | a :: l, 0, x, h => by simp at h; subst h; simp
  | a :: l, i+1, x, h => by
    simp only [List.drop_succ_cons]
    exact drop_cons_of_getElem? l i x (by simpa using h)

/-! ### the active chain as a list -/

section chain
variable {idx : Index} (wf : WF idx) (t : Nat) (ht : t < idx.size)
include wf ht

theorem chain_idx (j x : Nat) (h : (Spec.pathDown idx.parent t)[j]? = some x) :
    x < idx.size ∧ idx.height x = j ∧ j ≤ idx.height t := by
  rw [pathDown_getElem? wf t j ht] at h
  by_cases hj : j ≤ idx.height t
  · simp only [hj, if_true] at h
    obtain ⟨m, hm, hms, hmh, _⟩ := walk_spec wf (idx.height t - j) t ht (by omega)
    rw [hm] at h; injection h with h; subst h
    exact ⟨hms, by omega, hj⟩
  · simp [hj] at h

/-- `contains` on the path view ⇔ the node sits at its height in the chain list -/
theorem contains_iff_chain (x : Nat) :
    (pathView idx t).contains idx x = true ↔
      (Spec.pathDown idx.parent t)[idx.height x]? = some x := by
  unfold View.contains
  rw [nodeByHeight_pathView wf t ht, Spec.ancestorAt]
  have : ¬ ((idx.height x : Int) < 0) := by omega
  simp only [this, if_false, Int.toNat_natCast, beq_iff_eq]

theorem chain_contains (x : Nat) :
    (Spec.pathDown idx.parent t).contains x = (pathView idx t).contains idx x := by
  rw [contains_pathView wf t x ht]
  unfold Spec.pathDown
  rw [Bool.eq_iff_iff]
  simp only [List.contains_iff_mem, List.mem_reverse]

theorem next_chain (x : Nat) (hx : (Spec.pathDown idx.parent t)[idx.height x]? = some x) :
    (pathView idx t).next idx (some x) = (Spec.pathDown idx.parent t)[idx.height x + 1]? := by
  unfold View.next
  simp only []
  rw [(contains_iff_chain wf t ht x).mpr hx, if_pos rfl, nodeByHeight_pathView wf t ht, Spec.ancestorAt]
  have : ¬ ((idx.height x : Int) + 1 < 0) := by omega
  rw [if_neg this]
  congr 1

theorem collect_chain : ∀ (k x : Nat), (Spec.pathDown idx.parent t)[idx.height x]? = some x →
    idx.height x + k ≤ idx.height t + 1 →
    collect idx (pathView idx t) k (some x) =
      some (((Spec.pathDown idx.parent t).drop (idx.height x)).take k)
  | 0, _, _, _ => by simp [collect]
  | k+1, x, hx, hk => by
    unfold collect
    rw [next_chain wf t ht x hx, drop_cons_of_getElem? _ _ x hx, List.take_succ_cons]
    cases k with
    | zero =>
      have : ∀ o, collect idx (pathView idx t) 0 o = some [] := by
        intro o; cases o <;> rfl
      rw [this]; rfl
    | succ k =>
      have hl := pathDown_length wf t ht
      have hlt : idx.height x + 1 < (Spec.pathDown idx.parent t).length := by omega
      have hy : (Spec.pathDown idx.parent t)[idx.height x + 1]? =
          some ((Spec.pathDown idx.parent t)[idx.height x + 1]) := List.getElem?_eq_getElem hlt
      generalize (Spec.pathDown idx.parent t)[idx.height x + 1] = y at hy
      obtain ⟨_, hyh, _⟩ := chain_idx wf t ht _ y hy
      rw [hy]
      have hy' : (Spec.pathDown idx.parent t)[idx.height y]? = some y := by rw [hyh]; exact hy
      rw [collect_chain (k+1) y hy' (by omega), hyh]
      rfl

end chain

theorem locateStart_spec {idx : Index} (wf : WF idx) (t : Nat) (ht : t < idx.size) (loc : List Nat) :
    ∃ s0, (Spec.pathDown idx.parent t)[idx.height s0]? = some s0 ∧
      locateStart idx (pathView idx t) loc = some s0 ∧
      Spec.afterStart (Spec.pathDown idx.parent t) loc =
        (Spec.pathDown idx.parent t).drop (idx.height s0 + 1) := by
  have hl := pathDown_length wf t ht
  have hpred : (fun x => idx.known x && (pathView idx t).contains idx x) =
      (fun x => (Spec.pathDown idx.parent t).contains x) := by
    funext x
    rw [chain_contains wf t ht x]
    by_cases hc : (pathView idx t).contains idx x = true
    · have := (contains_iff_chain wf t ht x).mp hc
      have := (chain_idx wf t ht _ x this).1
      simp [hc, Index.known, this]
    · simp [hc]
  unfold locateStart Spec.afterStart
  rw [hpred]
  cases hf : loc.find? (fun x => (Spec.pathDown idx.parent t).contains x) with
  | some s =>
    have hs := List.find?_some hf
    rw [chain_contains wf t ht s] at hs
    have hcs := (contains_iff_chain wf t ht s).mp hs
    refine ⟨s, hcs, rfl, ?_⟩
    simp only []
    rw [dropWhile_eq_drop (· != s) _ (idx.height s) s hcs (by simp), List.drop_drop]
    intro j y hj hy
    have := (chain_idx wf t ht j y hy).2.1
    simp only [bne_iff_ne, ne_eq]
    intro h; subst h; omega
  | none =>
    simp only []
    have h0 : (Spec.pathDown idx.parent t)[0]? = some ((Spec.pathDown idx.parent t)[0]'(by omega)) :=
      List.getElem?_eq_getElem (by omega)
    generalize (Spec.pathDown idx.parent t)[0]'(by omega) = g at h0
    have hg := (chain_idx wf t ht 0 g h0).2.1
    refine ⟨g, by rw [hg]; exact h0, ?_, by rw [hg]⟩
    rw [genesis_pathView wf t ht, Spec.ancestorAt]
    simpa using h0

theorem locateTotal_spec {idx : Index} (wf : WF idx) (t : Nat) (ht : t < idx.size)
    (s1 stop max : Nat) (hs1 : (Spec.pathDown idx.parent t)[idx.height s1]? = some s1)
    (h1 : 1 ≤ idx.height s1) :
    locateTotal idx (pathView idx t) s1 stop max + idx.height s1 ≤ idx.height t + 1 ∧
    (Spec.takeThrough (· == stop) ((Spec.pathDown idx.parent t).drop (idx.height s1))).take max =
      ((Spec.pathDown idx.parent t).drop (idx.height s1)).take
        (locateTotal idx (pathView idx t) s1 stop max) := by
  have hl := pathDown_length wf t ht
  obtain ⟨hs1s, _, hs1le⟩ := chain_idx wf t ht _ s1 hs1
  have hafter_len : ((Spec.pathDown idx.parent t).drop (idx.height s1)).length =
      idx.height t + 1 - idx.height s1 := by rw [List.length_drop]; omega
  unfold locateTotal
  simp only [tip_pathView wf t ht]
  by_cases hstop : idx.known stop ∧ (pathView idx t).contains idx stop = true ∧
      idx.height stop ≥ idx.height s1
  · rw [if_pos hstop]
    obtain ⟨_, hc, hge⟩ := hstop
    have hcs := (contains_iff_chain wf t ht stop).mp hc
    obtain ⟨hss, _, hsle⟩ := chain_idx wf t ht _ stop hcs
    have htt : Spec.takeThrough (· == stop) ((Spec.pathDown idx.parent t).drop (idx.height s1)) =
        ((Spec.pathDown idx.parent t).drop (idx.height s1)).take (idx.height stop - idx.height s1 + 1) := by
      rw [takeThrough_hit (· == stop) _ (idx.height stop - idx.height s1) stop
        (by rw [List.getElem?_drop]; rw [← hcs]; congr 1; omega) (by simp)]
      intro j y hj hy
      rw [List.getElem?_drop] at hy
      have := (chain_idx wf t ht _ y hy).2.1
      simp only [beq_eq_false_iff_ne, ne_eq]
      intro h; subst h; omega
    rw [htt, List.take_take]
    by_cases hgt : idx.height stop - idx.height s1 + 1 > max
    · rw [if_pos hgt]
      exact ⟨by omega, by congr 1; omega⟩
    · rw [if_neg hgt]
      exact ⟨by omega, by congr 1; omega⟩
  · rw [if_neg hstop]
    have htt : Spec.takeThrough (· == stop) ((Spec.pathDown idx.parent t).drop (idx.height s1)) =
        ((Spec.pathDown idx.parent t).drop (idx.height s1)).take (idx.height t - idx.height s1 + 1) := by
      rw [takeThrough_miss, List.take_of_length_le (by omega)]
      intro y hy
      obtain ⟨j, hj⟩ := List.mem_iff_getElem?.mp hy
      rw [List.getElem?_drop] at hj
      obtain ⟨hys, hyh, _⟩ := chain_idx wf t ht _ y hj
      simp only [beq_eq_false_iff_ne, ne_eq]
      intro h; subst h
      apply hstop
      exact ⟨by simp [Index.known, hys],
        (contains_iff_chain wf t ht y).mpr (by rw [hyh]; exact hj), by omega⟩
    rw [htt, List.take_take]
    by_cases hgt : idx.height t - idx.height s1 + 1 > max
    · rw [if_pos hgt]
      exact ⟨by omega, by congr 1; omega⟩
    · rw [if_neg hgt]
      exact ⟨by omega, by congr 1; omega⟩

/-- `locateBlocks` / `locateHeaders` on the view of tip `t` = the Spec's naive answer -/
theorem locateBlocks_eq_spec {idx : Index} (wf : WF idx) (t : Nat) (ht : t < idx.size)
    (loc : List Nat) (stop max : Nat) :
    locateBlocks idx (pathView idx t) loc stop max =
      some (Spec.locate (Spec.pathDown idx.parent t) idx.known loc stop max) := by
  have hl := pathDown_length wf t ht
  unfold locateBlocks locateInventory Spec.locate
  cases loc with
  | nil =>
    simp only [List.isEmpty_nil, if_true]
    by_cases hk : idx.known stop = true
    · simp [hk, collect]
    · simp [hk]
  | cons l0 ls =>
    simp only [List.isEmpty_cons, Bool.false_eq_true, if_false, reduceCtorEq]
    obtain ⟨s0, hs0, hst, haft⟩ := locateStart_spec wf t ht (l0 :: ls)
    rw [hst, haft, next_chain wf t ht s0 hs0]
    cases hn : (Spec.pathDown idx.parent t)[idx.height s0 + 1]? with
    | none =>
      have : (Spec.pathDown idx.parent t).length ≤ idx.height s0 + 1 := by
        rw [List.getElem?_eq_none_iff] at hn; exact hn
      simp [List.drop_eq_nil_of_le this, Spec.takeThrough]
    | some s1 =>
      obtain ⟨hs1s, hs1h, hs1le⟩ := chain_idx wf t ht _ s1 hn
      have hs1 : (Spec.pathDown idx.parent t)[idx.height s1]? = some s1 := by rw [hs1h]; exact hn
      obtain ⟨hle, hspec⟩ := locateTotal_spec wf t ht s1 stop max hs1 (by omega)
      simp only []
      rw [← hs1h, hspec]
      by_cases h0 : locateTotal idx (pathView idx t) s1 stop max = 0
      · simp [h0]
      · rw [if_neg h0]
        exact collect_chain wf t ht _ s1 hs1 (by omega)

end BV.C17.Lemmas
