/- C17 helper lemmas: HeightRange / HeightToHashRange / IntervalBlockHashes. Core-only. -/
import BV.C17.LemmasLocate
namespace BV.C17.Lemmas
open BV.C17

theorem viewSlice_chain {idx : Index} (wf : WF idx) (t : Nat) (ht : t < idx.size) :
    ∀ (k s : Nat), s + k ≤ idx.height t + 1 →
    viewSlice (pathView idx t) k s = some (((Spec.pathDown idx.parent t).drop s).take k)
  | 0, _, _ => by simp [viewSlice]
  | k+1, s, h => by
    unfold viewSlice
    rw [nodeByHeight_pathView wf t ht, Spec.ancestorAt]
    have : ¬ ((s : Int) < 0) := by omega
    rw [if_neg this, Int.toNat_natCast]
    have hl := pathDown_length wf t ht
    have hx : (Spec.pathDown idx.parent t)[s]? = some ((Spec.pathDown idx.parent t)[s]'(by omega)) :=
      List.getElem?_eq_getElem (by omega)
    generalize (Spec.pathDown idx.parent t)[s]'(by omega) = x at hx
    rw [hx]
    simp only []
    rw [viewSlice_chain wf t ht k (s+1) (by omega), drop_cons_of_getElem? _ s x hx]
    rfl

/-- `HeightRange(s, e)` on the view of tip `t`: the chain blocks with `s ≤ height < e` -/
theorem heightRange_eq {idx : Index} (wf : WF idx) (t : Nat) (ht : t < idx.size) (s e : Int) :
    heightRange idx (pathView idx t) s e =
      if s < 0 ∨ e < s then .err
      else .ids (((Spec.pathDown idx.parent t).take e.toNat).drop s.toNat) := by
  have hl := pathDown_length wf t ht
  unfold heightRange
  by_cases h1 : s < 0
  · simp [h1]
  by_cases h2 : e < s
  · simp [h1, h2]
  have hc : ¬ (s < 0 ∨ e < s) := by omega
  rw [if_neg h1, if_neg h2, if_neg hc]
  by_cases h3 : s = e
  · rw [if_pos h3]; subst h3
    rw [List.drop_take]; simp
  rw [if_neg h3, tip_pathView wf t ht]
  simp only []
  by_cases h4 : s > (idx.height t : Int)
  · rw [if_pos h4, List.drop_take]
    have : (Spec.pathDown idx.parent t).drop s.toNat = [] := List.drop_eq_nil_of_le (by omega)
    rw [this]; simp
  rw [if_neg h4]
  have hk : (((if e > (idx.height t : Int) + 1 then (idx.height t : Int) + 1 else e) - s).toNat) =
      min e.toNat (idx.height t + 1) - s.toNat := by
    split <;> omega
  rw [hk, viewSlice_chain wf t ht _ _ (by omega)]
  simp only []
  congr 1
  rw [List.drop_take]
  by_cases h5 : e.toNat ≤ idx.height t + 1
  · have : min e.toNat (idx.height t + 1) = e.toNat := by omega
    rw [this]
  · have : min e.toNat (idx.height t + 1) = idx.height t + 1 := by omega
    rw [this]
    have hdl : ((Spec.pathDown idx.parent t).drop s.toNat).length = idx.height t + 1 - s.toNat := by
      rw [List.length_drop]; omega
    rw [List.take_of_length_le (by omega), List.take_of_length_le (by omega)]

theorem pathUp_cons {idx : Index} (wf : WF idx) (n p : Nat) (hn : n < idx.size)
    (hp : idx.parent n = some p) :
    Spec.pathUp idx.parent n = n :: Spec.pathUp idx.parent p := by
  obtain ⟨nd, hnd⟩ := lookup_lt hn
  rw [parent_of hnd] at hp
  obtain ⟨hpn, hph⟩ := wf.par n nd p hnd hp
  have hpar : idx.parent n = some p := by rw [parent_of hnd]; exact hp
  obtain ⟨f, rfl⟩ : ∃ f, n = f + 1 := ⟨n - 1, by omega⟩
  unfold Spec.pathUp
  rw [Spec.chainUp, hpar]
  simp only []
  rw [chainUp_fuel wf f p (by omega) (by have := height_le_id wf p (by omega); omega)]
  rfl

theorem walkBack_spec {idx : Index} (wf : WF idx) : ∀ (k n : Nat) (acc : List Nat), n < idx.size →
    k ≤ idx.height n + 1 →
    walkBack idx k (some n) acc = some (((Spec.pathUp idx.parent n).take k).reverse ++ acc)
  | 0, _, _, _, _ => by simp [walkBack]
  | k+1, n, acc, hn, hk => by
    unfold walkBack
    cases k with
    | zero =>
      have : ∀ o, walkBack idx 0 o (n :: acc) = some (n :: acc) := by intro o; cases o <;> rfl
      rw [this]
      have hl := pathUp_length wf n hn
      have h0 := pathUp_getElem? wf n 0 hn
      simp only [Nat.zero_le, if_true, walk_zero] at h0
      cases hpu : Spec.pathUp idx.parent n with
      | nil => rw [hpu] at hl; simp at hl
      | cons a as => rw [hpu] at h0; simp at h0; subst h0; simp
    | succ k =>
      obtain ⟨nd, hnd⟩ := lookup_lt hn
      have hh := height_of hnd
      cases hp : nd.parent with
      | none => have := wf.root n nd hnd hp; omega
      | some p =>
        obtain ⟨hpn, hph⟩ := wf.par n nd p hnd hp
        have hpar : idx.parent n = some p := by rw [parent_of hnd]; exact hp
        rw [hpar, walkBack_spec wf (k+1) p (n :: acc) (by omega) (by omega),
          pathUp_cons wf n p hn hpar]
        simp [List.take_succ_cons]

/-- `HeightToHashRange(s, end, max)`: the ancestors of `end` (inclusive) from height `s` upwards -/
theorem heightToHashRange_eq {idx : Index} (wf : WF idx) (valid : Nat → Bool) (s : Int) (e : Nat)
    (max : Int) (he : e < idx.size) :
    heightToHashRange idx valid s e max =
      if valid e = false ∨ s < 0 ∨ s > idx.height e ∨ (idx.height e : Int) - s + 1 > max then .err
      else .ids ((Spec.pathDown idx.parent e).drop s.toNat) := by
  unfold heightToHashRange
  have hk : idx.known e = true := by simp [Index.known, he]
  simp only [hk, not_true_eq_false, if_false]
  by_cases h1 : valid e = true
  · simp only [h1, not_true_eq_false, if_false, Bool.true_eq_false, false_or]
    by_cases h2 : s < 0
    · simp [h2]
    by_cases h3 : s > (idx.height e : Int)
    · simp [h2, h3]
    by_cases h4 : (idx.height e : Int) - s + 1 > max
    · simp [h2, h3, h4]
    have hc : ¬ (s < 0 ∨ s > (idx.height e : Int) ∨ (idx.height e : Int) - s + 1 > max) := by omega
    rw [if_neg h2, if_neg h3, if_neg h4, if_neg hc]
    rw [walkBack_spec wf _ e [] he (by omega)]
    simp only [List.append_nil]
    congr 1
    unfold Spec.pathDown
    rw [List.reverse_take, pathUp_length wf e he]
    congr 1
    omega
  · have : valid e = false := by cases hv : valid e <;> simp_all
    simp [this]

end BV.C17.Lemmas

namespace BV.C17.Lemmas
open BV.C17

/-- one step of `IntervalBlockHashes`: through the view when on it, `Ancestor` otherwise -/
theorem interval_next {idx : Index} (wf : WF idx) (v : View) (hc : Coherent idx v)
    (n h : Nat) (hn : n < idx.size) (hh : h ≤ idx.height n) :
    (if v.contains idx n then v.nodeByHeight (h : Int) else ancestor idx n (h : Int)) =
      walk idx (idx.height n - h) n := by
  rw [← locator_next wf v hc n h hn hh]
  by_cases hcn : v.contains idx n = true
  · rw [if_pos hcn, if_pos hcn]
    have hcn' := hcn
    unfold View.contains View.nodeByHeight at hcn'
    by_cases hr : ((idx.height n : Nat) : Int) < 0 ∨ ((idx.height n : Nat) : Int) ≥ v.length
    · rw [if_pos hr] at hcn'; simp at hcn'
    · unfold View.nodeByHeight
      have : ¬ (((h : Nat) : Int) < 0 ∨ ((h : Nat) : Int) ≥ v.length) := by omega
      rw [if_neg this, Int.toNat_natCast]
  · rw [if_neg hcn, if_neg hcn]

theorem intervalLoop_spec {idx : Index} (wf : WF idx) (v : View) (hc : Coherent idx v)
    (e : Nat) (he : e < idx.size) (iv : Nat) :
    ∀ (i n : Nat) (acc : List Nat), n < idx.size → i * iv ≤ idx.height n →
      idx.height n ≤ idx.height e → walk idx (idx.height e - idx.height n) e = some n →
      ∃ l, intervalLoop idx v iv i n acc = some (l ++ acc) ∧
        l.map some = (List.range i).map (fun j => walk idx (idx.height e - (j + 1) * iv) e)
  | 0, _, acc, _, _, _, _ => ⟨[], by simp [intervalLoop], by simp⟩
  | i+1, n, acc, hn, hi, hne, hw => by
    unfold intervalLoop
    simp only []
    rw [interval_next wf v hc n _ hn hi]
    obtain ⟨m, hm, hms, hmh, _⟩ := walk_spec wf (idx.height n - (i + 1) * iv) n hn (by omega)
    rw [hm]
    simp only []
    have hle : i * iv ≤ (i + 1) * iv := Nat.mul_le_mul_right iv (by omega)
    have hwm : walk idx (idx.height e - idx.height m) e = some m := by
      have := walk_add idx _ (idx.height n - (i + 1) * iv) e n hw
      rw [hm] at this; rw [← this]; congr 1; omega
    obtain ⟨l, hl, hlm⟩ := intervalLoop_spec wf v hc e he iv i m (m :: acc) hms (by omega) (by omega) hwm
    refine ⟨l ++ [m], by rw [hl]; simp, ?_⟩
    rw [List.range_succ, List.map_append, List.map_append, hlm]
    simp only [List.map_cons, List.map_nil]
    congr 2
    rw [← hwm]; congr 1; omega

/-- `IntervalBlockHashes(end, interval)` for a positive interval on a valid known end block:
    the ancestors of `end` at heights `interval, 2·interval, …`, whatever the view's tip -/
theorem intervalBlockHashes_eq {idx : Index} (wf : WF idx) (v : View) (hc : Coherent idx v)
    (valid : Nat → Bool) (e iv : Nat) (he : e < idx.size) (hv : valid e = true) (hiv : 0 < iv) :
    ∃ l, intervalBlockHashes idx v valid e (iv : Int) = .ids l ∧
      l.map some = (List.range (idx.height e / iv)).map
        (fun j => Spec.ancestorAt idx.parent e (((j + 1) * iv : Nat) : Int)) := by
  unfold intervalBlockHashes
  have hk : idx.known e = true := by simp [Index.known, he]
  have h0 : ¬ ((iv : Int) = 0) := by omega
  have hq : Int.tdiv (idx.height e : Int) (iv : Int) = ((idx.height e / iv : Nat) : Int) := by
    rw [Int.natCast_tdiv_eq_ediv]; rfl
  simp only [hk, hv, not_true_eq_false, if_false, h0, hq]
  have h1 : ¬ (((idx.height e / iv : Nat) : Int) < 0) := Int.not_lt.mpr (Int.natCast_nonneg _)
  have h2 : ¬ ((iv : Int) < 0) := by omega
  rw [if_neg h1, if_neg h2]
  simp only [Int.toNat_natCast]
  have hmul : idx.height e / iv * iv ≤ idx.height e := Nat.div_mul_le_self _ _
  obtain ⟨l, hl, hlm⟩ := intervalLoop_spec wf v hc e he iv (idx.height e / iv) e [] he hmul
    (Nat.le_refl _) (by simp [walk])
  refine ⟨l, by rw [hl]; simp, ?_⟩
  rw [hlm]
  apply List.map_congr_left
  intro j hj
  have hjlt : j < idx.height e / iv := by simpa using hj
  have hle : (j + 1) * iv ≤ idx.height e :=
    Nat.le_trans (Nat.mul_le_mul_right iv (by omega)) hmul
  rw [← ancestor_eq_spec wf e he, ancestor_eq_walk wf e he]
  have : ¬ ((((j + 1) * iv : Nat) : Int) < 0 ∨ (((j + 1) * iv : Nat) : Int) > idx.height e) := by omega
  rw [if_neg this, Int.toNat_natCast]

end BV.C17.Lemmas
