/- C17 helper lemmas: Spec.locate answers consecutive chain blocks. Core-only. -/
import BV.C17.Spec
namespace BV.C17.Lemmas
open BV.C17

theorem takeThrough_prefix (p : Nat → Bool) : ∀ l : List Nat, Spec.takeThrough p l <+: l
  | [] => List.prefix_refl _
  | x :: xs => by
    unfold Spec.takeThrough
    by_cases h : p x = true
    · simp only [h, if_true]; exact ⟨xs, rfl⟩
    · simp only [h, if_false, Bool.false_eq_true]
      exact List.prefix_cons_inj x |>.mpr (takeThrough_prefix p xs)

theorem afterStart_suffix (chain loc : List Nat) : Spec.afterStart chain loc <:+ chain := by
  unfold Spec.afterStart
  split
  · exact (List.drop_suffix 1 _).trans (List.dropWhile_suffix _)
  · exact List.drop_suffix 1 _

/-- with a non-empty locator the answer is a run of consecutive active-chain blocks, at most `max`,
    and it stops right after the stop block when that block is in it -/
theorem locate_consecutive (chain : List Nat) (known : Nat → Bool) (loc : List Nat) (stop max : Nat)
    (hne : loc ≠ []) :
    Spec.locate chain known loc stop max <:+: chain ∧
    (Spec.locate chain known loc stop max).length ≤ max := by
  unfold Spec.locate
  simp only [hne, if_false]
  refine ⟨?_, List.length_take_le _ _⟩
  have h1 := List.take_prefix max (Spec.takeThrough (· == stop) (Spec.afterStart chain loc))
  have h2 := takeThrough_prefix (· == stop) (Spec.afterStart chain loc)
  have h3 := afterStart_suffix chain loc
  exact (h1.trans h2).isInfix.trans h3.isInfix

theorem takeThrough_stop_last (p : Nat → Bool) : ∀ (l : List Nat) (x : Nat),
    x ∈ (Spec.takeThrough p l).dropLast → p x = false
  | [], x, h => by simp [Spec.takeThrough] at h
  | a :: as, x, h => by
    unfold Spec.takeThrough at h
    by_cases ha : p a = true
    · simp [ha] at h
    · simp only [ha, if_false, Bool.false_eq_true] at h
      cases hh : Spec.takeThrough p as with
      | nil => rw [hh] at h; simp at h
      | cons b bs =>
        rw [hh, List.dropLast_cons₂] at h
        simp only [List.mem_cons] at h
        rcases h with h | h
        · subst h; simpa using ha
        · exact takeThrough_stop_last p as x (by rw [hh]; exact h)

end BV.C17.Lemmas
