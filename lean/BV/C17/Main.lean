import BV.Common.Loop
import BV.C17.Driver
/-! `drv_c17`: one case per input line `C17 <op> <args…>`, one canonical result line back.
Imports only core-only modules so that it links as a native executable. -/
def main : IO Unit := BV.Loop.run "C17" BV.C17.Driver.handle
