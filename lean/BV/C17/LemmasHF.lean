/- C17 helper lemmas: headers-first tracking. Core-only. -/
import BV.C17.Headers
namespace BV.C17.HF

/-- orphan pool invariant: at most one above the nominal bound, and a non-nil cached oldest
    pointer only while the pool is within the bound -/
def PoolOk (e : Env) (b : BState) : Prop :=
  b.orphans.length ≤ e.maxOrphans + 1 ∧ (b.oldest.isSome = true → b.orphans.length ≤ e.maxOrphans)

/-- best-header invariant: the best header is the root or an accepted header, and no accepted
    header has more work -/
def BestOk (e : Env) (h : HState) : Prop :=
  (h.best = 0 ∨ h.best ∈ h.accepted) ∧ ∀ m ∈ h.accepted, e.W m ≤ e.W h.best

theorem bestOk_init (e : Env) : BestOk e {} := by
  refine ⟨Or.inl rfl, ?_⟩
  intro m hm; simp at hm

theorem stepHeader_bestOk (e : Env) (b : BState) (h : HState) (n : Nat)
    (hW : e.W (e.parent n) < e.W n) (ok : BestOk e h) :
    BestOk e (stepHeader e b h n).1 := by
  unfold stepHeader
  simp only []
  split
  · exact ok
  split
  · exact ok
  split
  · exact ok
  split
  · exact ok
  split
  · exact ok
  obtain ⟨hb, hall⟩ := ok
  split
  · next hp =>
    refine ⟨Or.inr (by simp), ?_⟩
    intro m hm
    simp only [List.mem_append, List.mem_singleton] at hm
    rcases hm with hm | hm
    · have := hall m hm
      have := hW
      rw [hp] at this
      simp only []; omega
    · subst hm; exact Nat.le_refl _
  split
  · next hle =>
    refine ⟨?_, ?_⟩
    · rcases hb with hb | hb
      · exact Or.inl hb
      · exact Or.inr (by simp [hb])
    · intro m hm
      simp only [List.mem_append, List.mem_singleton] at hm
      rcases hm with hm | hm
      · exact hall m hm
      · subst hm; exact hle
  · next hgt =>
    refine ⟨Or.inr (by simp), ?_⟩
    intro m hm
    simp only [List.mem_append, List.mem_singleton] at hm
    rcases hm with hm | hm
    · have := hall m hm; simp only []; omega
    · subst hm; exact Nat.le_refl _

def Op.node : Op → Nat
  | .header n => n
  | .block n => n

theorem run_bestOk (e : Env) :
    ∀ (ops : List Op) (s : State), (∀ op ∈ ops, e.W (e.parent op.node) < e.W op.node) →
      BestOk e s.h → BestOk e (run e s ops).h := by
  intro ops
  induction ops with
  | nil => intro s _ ok; exact ok
  | cons op rest ih =>
    intro s hW ok
    unfold run
    simp only [List.foldl_cons]
    apply ih _ (fun o ho => hW o (by simp [ho]))
    have hop := hW op (by simp)
    cases op with
    | header n => simp only [step]; exact stepHeader_bestOk e s.b s.h n hop ok
    | block n => simp only [step]; exact ok

/-- a header whose parent is in the index and known invalid is refused and changes nothing -/
theorem stepHeader_invalid_parent (e : Env) (b : BState) (h : HState) (n : Nat)
    (hin : inIndex b h (e.parent n) = true) (hinv : b.knownInvalid (e.parent n) = true) :
    stepHeader e b h n = (h, .invalidAncestor) := by
  unfold stepHeader
  simp [hin, hinv]

/-- a refused header (any error) leaves the header state untouched -/
theorem stepHeader_err_unchanged (e : Env) (b : BState) (h : HState) (n : Nat)
    (herr : (stepHeader e b h n).2.isErr = true) : (stepHeader e b h n).1 = h := by
  unfold stepHeader at herr ⊢
  simp only [] at herr ⊢
  repeat' split
  all_goals first | rfl | (simp_all [Res.isErr])

/-- block deliveries never read or write the header side: the block state after any interleaving
    equals the block state after the block deliveries alone -/
theorem run_blocks_only (e : Env) : ∀ (ops : List Op) (s : State),
    (run e s ops).b = (run e s (ops.filter Op.isBlock)).b := by
  intro ops
  induction ops with
  | nil => intro s; rfl
  | cons op rest ih =>
    intro s
    cases op with
    | header n =>
      have hf : (Op.header n :: rest).filter Op.isBlock = rest.filter Op.isBlock := by
        simp [List.filter, Op.isBlock]
      rw [hf]
      have h1 : run e s (Op.header n :: rest) = run e (step e s (.header n)).1 rest := by
        simp [run]
      rw [h1, ih]
      -- the header step leaves `b` alone; the remaining block run depends on `b` only
      have gen : ∀ (ops : List Op) (s1 s2 : State), s1.b = s2.b → (∀ o ∈ ops, o.isBlock = true) →
          (run e s1 ops).b = (run e s2 ops).b := by
        intro ops
        induction ops with
        | nil => intro s1 s2 hb _; exact hb
        | cons o os ih2 =>
          intro s1 s2 hb hall
          have ho := hall o (by simp)
          cases o with
          | header k => simp [Op.isBlock] at ho
          | block k =>
            simp only [run, List.foldl_cons]
            apply ih2
            · simp only [step, hb]
            · intro o' ho'; exact hall o' (by simp [ho'])
      apply gen
      · simp [step]
      · intro o ho; exact (List.mem_filter.mp ho).2
    | block n =>
      have hf : (Op.block n :: rest).filter Op.isBlock = Op.block n :: rest.filter Op.isBlock := by
        simp [List.filter, Op.isBlock]
      rw [hf]
      simp only [run, List.foldl_cons]
      exact ih _

end BV.C17.HF

namespace BV.C17.HF

/-- the best header only ever moves to a header with strictly more work (ties keep the first seen) -/
theorem stepHeader_best_moves_up (e : Env) (b : BState) (h : HState) (n : Nat)
    (hW : e.W (e.parent n) < e.W n) (hne : (stepHeader e b h n).1.best ≠ h.best) :
    (stepHeader e b h n).1.best = n ∧ e.W h.best < e.W n := by
  unfold stepHeader at hne ⊢
  simp only [] at hne ⊢
  split at hne <;> try (exact absurd rfl hne)
  split at hne <;> try (exact absurd rfl hne)
  split at hne <;> try (exact absurd rfl hne)
  split at hne <;> try (exact absurd rfl hne)
  split at hne <;> try (exact absurd rfl hne)
  rename_i h1 h2 h3 h4 h5
  simp only [h1, h2, h3, h4, h5, if_false, Bool.false_eq_true]
  split
  · next hp => rw [hp] at hW; exact ⟨rfl, hW⟩
  · split
    · next hp hle => simp only [hp, hle, if_true, if_false] at hne; exact absurd rfl hne
    · next hp hgt => exact ⟨rfl, by omega⟩

end BV.C17.HF
