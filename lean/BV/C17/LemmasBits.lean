/- C17 helper lemma: the bit trick behind the skip heights. Core-only. -/
import BV.C17.Model
namespace BV.C17.Lemmas
open BV.C17

/-- `n & (n-1)` clears the lowest set bit: an odd multiple `(2m+1)·2^k` becomes `2m·2^k` -/
theorem invertLowestOne_spec (m k : Nat) :
    invertLowestOne ((2 * m + 1) * 2 ^ k) = (2 * m) * 2 ^ k := by
  unfold invertLowestOne
  have hpos : 0 < 2 ^ k := Nat.pow_pos (by decide)
  have hn : (2 * m + 1) * 2 ^ k = 2 ^ k * (2 * m + 1) + 0 := by rw [Nat.mul_comm]; rfl
  have hn1 : (2 * m + 1) * 2 ^ k - 1 = 2 ^ k * (2 * m) + (2 ^ k - 1) := by
    rw [Nat.add_mul, Nat.one_mul, Nat.mul_comm]; omega
  have hr : (2 * m) * 2 ^ k = 2 ^ k * (2 * m) + 0 := by rw [Nat.mul_comm]; rfl
  apply Nat.eq_of_testBit_eq
  intro i
  rw [Nat.testBit_and, hn1, hn, hr,
    Nat.testBit_two_pow_mul_add _ hpos, Nat.testBit_two_pow_mul_add _ (by omega : 2 ^ k - 1 < 2 ^ k),
    Nat.testBit_two_pow_mul_add _ hpos]
  by_cases hi : i < k
  · simp [hi]
  · simp only [hi, if_false]
    cases hj : i - k with
    | zero => simp [Nat.testBit_zero]
    | succ j =>
      rw [Nat.testBit_succ, Nat.testBit_succ]
      have : (2 * m + 1) / 2 = 2 * m / 2 := by omega
      rw [this, Bool.and_self]

end BV.C17.Lemmas
