/- C03 helper lemmas: the UtxoViewpoint path of a disconnect simulates the Spec-level undo,
and `detachOne` / `detachMany` preserve the chain invariant. -/
import BV.C03.Undo
namespace BV.C03.Lemmas
open BV.C03 BV.C03.Spec

/-- Simulation between the view being rewound and the Spec-level undo state `w`:
touched outpoints (`T`) hold a modified entry whose value is `w`; untouched ones are as in
the starting view `v0` and `w` still equals the fold `u'` of the chain being rewound. -/
def Sim (v0 : View) (u' : UtxoSet) (T : OutPoint → Prop) (v : View) (w : UtxoSet) : Prop :=
  ∀ o, (T o → ∃ ce, v.get o = some (some ce) ∧ ce.modified = true ∧ ce.val = w o) ∧
       (¬ T o → v.get o = v0.get o ∧ w o = u' o)

/-- In the starting view a spent entry is always marked modified. -/
def SpMod (v : View) : Prop := ∀ o ce, v.get o = some (some ce) → ce.spent = true → ce.modified = true

theorem sim_congr {v0 : View} {u' : UtxoSet} {T T' : OutPoint → Prop} {v : View} {w : UtxoSet}
    (h : ∀ p, T p ↔ T' p) (hs : Sim v0 u' T v w) : Sim v0 u' T' v w := by
  intro o
  exact ⟨fun ht => (hs o).1 ((h o).mpr ht), fun hn => (hs o).2 (fun ht => hn ((h o).mp ht))⟩

theorem sim_init (v0 : View) (u' : UtxoSet) : Sim v0 u' (fun _ => False) v0 u' :=
  fun _ => ⟨fun h => h.elim, fun _ => ⟨rfl, rfl⟩⟩

theorem spend_val (ce : CEntry) (h : ce.spent = true → ce.modified = true) :
    ce.spend.modified = true ∧ ce.spend.val = none := by
  unfold CEntry.spend
  cases hs : ce.spent
  · simp [CEntry.val]
  · simp [CEntry.val, hs, h hs]

theorem sim_unOut {v0 : View} {u' : UtxoSet} {T : OutPoint → Prop} {v : View} {w : UtxoSet}
    (hv0 : SpMod v0) (hs : Sim v0 u' T v w) (o : OutPoint) (e : Entry) :
    Sim v0 u' (fun p => p = o ∨ T p) (viewUnOut v o e) (spend w o) := by
  intro p
  by_cases hp : p = o
  · subst hp
    refine ⟨fun _ => ?_, fun hn => (hn (Or.inl rfl)).elim⟩
    unfold viewUnOut
    cases hg : v.get p with
    | none => exact ⟨_, get_setSlot_same _ _ _, rfl, by simp [CEntry.val, spend]⟩
    | some r =>
      cases r with
      | none => exact ⟨_, get_setSlot_same _ _ _, rfl, by simp [CEntry.val, spend]⟩
      | some ce =>
        have hsm : ce.spent = true → ce.modified = true := by
          by_cases ht : T p
          · obtain ⟨ce', hce', hm, _⟩ := (hs p).1 ht
            rw [hg] at hce'; simp at hce'; subst hce'; exact fun _ => hm
          · have := ((hs p).2 ht).1; rw [hg] at this; exact hv0 p ce this.symm
        have := spend_val ce hsm
        exact ⟨_, get_setSlot_same _ _ _, this.1, by simp [this.2, spend]⟩
  · have hvo : (viewUnOut v o e).get p = v.get p := by
      unfold viewUnOut
      split <;> exact get_setSlot_ne _ _ _ _ hp
    refine ⟨fun ht => ?_, fun hn => ?_⟩
    · rcases ht with ht | ht
      · exact (hp ht).elim
      · obtain ⟨ce, h1, h2, h3⟩ := (hs p).1 ht
        exact ⟨ce, by rw [hvo]; exact h1, h2, by simp [spend, hp, h3]⟩
    · have hnt : ¬ T p := fun ht => hn (Or.inr ht)
      have := (hs p).2 hnt
      exact ⟨by rw [hvo]; exact this.1, by simp [spend, hp, this.2]⟩

theorem sim_restore {v0 : View} {u' : UtxoSet} {T : OutPoint → Prop} {v : View} {w : UtxoSet}
    (hs : Sim v0 u' T v w) (o : OutPoint) (e : Entry) :
    Sim v0 u' (fun p => p = o ∨ T p) (viewRestore v o e) (add w o e) := by
  intro p
  by_cases hp : p = o
  · subst hp
    refine ⟨fun _ => ?_, fun hn => (hn (Or.inl rfl)).elim⟩
    exact ⟨_, get_setSlot_same _ _ _, rfl, by simp [CEntry.val, add]⟩
  · have hvo : (viewRestore v o e).get p = v.get p := get_setSlot_ne _ _ _ _ hp
    refine ⟨fun ht => ?_, fun hn => ?_⟩
    · rcases ht with ht | ht
      · exact (hp ht).elim
      · obtain ⟨ce, h1, h2, h3⟩ := (hs p).1 ht
        exact ⟨ce, by rw [hvo]; exact h1, h2, by simp [add, hp, h3]⟩
    · have hnt : ¬ T p := fun ht => hn (Or.inr ht)
      have := (hs p).2 hnt
      exact ⟨by rw [hvo]; exact this.1, by simp [add, hp, this.2]⟩

theorem sim_unOuts {v0 : View} {u' : UtxoSet} (hv0 : SpMod v0) (id ht : Nat) (cb : Bool) (outs : List Out) :
    ∀ (i : Nat) (T : OutPoint → Prop) (v : View) (w : UtxoSet), Sim v0 u' T v w →
      Sim v0 u' (fun p => p ∈ spOuts id i outs ∨ T p) (viewUnOuts id ht cb i outs v) (unOuts id i outs w) := by
  induction outs with
  | nil =>
    intro i T v w hs
    exact sim_congr (fun p => by simp [spOuts]) hs
  | cons o os ih =>
    intro i T v w hs
    simp only [viewUnOuts, unOuts, spOuts]
    by_cases hu : unspendable o.script = true
    · rw [if_pos hu, if_pos hu, if_pos hu]
      exact sim_congr (fun p => by simp) (ih (i + 1) T v w hs)
    · rw [if_neg hu, if_neg hu, if_neg hu]
      have h1 := sim_unOut hv0 hs (id, i) ⟨o.amount, o.script, ht, cb⟩
      have h2 := ih (i + 1) _ _ _ h1
      exact sim_congr (fun p => by simp only [List.mem_append, List.mem_singleton]; grind) h2

theorem sim_restoreIns {v0 : View} {u' : UtxoSet} (ins : List OutPoint) :
    ∀ (j : List Entry) (T : OutPoint → Prop) (v : View) (w : UtxoSet) (w1 : UtxoSet) (j1 : List Entry),
      Sim v0 u' T v w → restoreIns ins j w = some (w1, j1) →
      ∃ v1, viewRestoreIns ins j v = some (v1, j1) ∧ Sim v0 u' (fun p => p ∈ ins ∨ T p) v1 w1 := by
  induction ins with
  | nil =>
    intro j T v w w1 j1 hs hr
    simp only [restoreIns, Option.some.injEq, Prod.mk.injEq] at hr
    obtain ⟨rfl, rfl⟩ := hr
    exact ⟨v, rfl, sim_congr (fun p => by simp) hs⟩
  | cons o os ih =>
    intro j T v w w1 j1 hs hr
    cases j with
    | nil => simp [restoreIns] at hr
    | cons e j =>
      simp only [restoreIns] at hr
      obtain ⟨v1, hv1, hs1⟩ := ih j _ _ _ w1 j1 (sim_restore hs o e) hr
      exact ⟨v1, hv1, sim_congr (fun p => by simp only [List.mem_cons]; grind) hs1⟩

/-- Outpoints a transaction touches when it is rewound. -/
def touchedTx (t : Tx) (cb : Bool) : List OutPoint := spOuts t.id 0 t.outs ++ (if cb then [] else t.ins)

theorem sim_unTx {v0 : View} {u' : UtxoSet} (hv0 : SpMod v0) (ht : Nat) (cb : Bool) (t : Tx)
    (j : List Entry) (T : OutPoint → Prop) (v : View) (w w1 : UtxoSet) (j1 : List Entry)
    (hs : Sim v0 u' T v w) (hr : unTx cb t j w = some (w1, j1)) :
    ∃ v1, viewUnTx ht cb t j v = some (v1, j1) ∧ Sim v0 u' (fun p => p ∈ touchedTx t cb ∨ T p) v1 w1 := by
  unfold unTx at hr
  unfold viewUnTx touchedTx
  have h1 := sim_unOuts hv0 t.id ht cb t.outs 0 T v w hs
  cases cb with
  | true =>
    simp only [if_true, Option.some.injEq, Prod.mk.injEq] at hr ⊢
    obtain ⟨rfl, rfl⟩ := hr
    exact ⟨_, ⟨rfl, rfl⟩, sim_congr (fun p => by simp) h1⟩
  | false =>
    simp only [Bool.false_eq_true, if_false] at hr ⊢
    obtain ⟨v1, hv1, hs1⟩ := sim_restoreIns t.ins.reverse j _ _ _ w1 j1 h1 hr
    exact ⟨v1, hv1, sim_congr (fun p => by simp only [List.mem_append, List.mem_reverse]; grind) hs1⟩

theorem sim_unTxs {v0 : View} {u' : UtxoSet} (hv0 : SpMod v0) (ht : Nat) (txs : List Tx) :
    ∀ (j : List Entry) (T : OutPoint → Prop) (v : View) (w w1 : UtxoSet) (j1 : List Entry),
      Sim v0 u' T v w → unTxs txs j w = some (w1, j1) →
      ∃ v1, viewUnTxs ht txs j v = some (v1, j1) ∧
        Sim v0 u' (fun p => (∃ t ∈ txs, p ∈ touchedTx t false) ∨ T p) v1 w1 := by
  induction txs with
  | nil =>
    intro j T v w w1 j1 hs hr
    simp only [unTxs, Option.some.injEq, Prod.mk.injEq] at hr
    obtain ⟨rfl, rfl⟩ := hr
    exact ⟨v, rfl, sim_congr (fun p => by simp) hs⟩
  | cons t ts ih =>
    intro j T v w w1 j1 hs hr
    simp only [unTxs] at hr
    cases h1 : unTx false t j w with
    | none => rw [h1] at hr; simp at hr
    | some r =>
      obtain ⟨w2, j2⟩ := r
      rw [h1] at hr
      simp only [] at hr
      obtain ⟨v2, hv2, hs2⟩ := sim_unTx hv0 ht false t j T v w w2 j2 hs h1
      obtain ⟨v3, hv3, hs3⟩ := ih j2 _ v2 w2 w1 j1 hs2 hr
      refine ⟨v3, by simp only [viewUnTxs, hv2, hv3], sim_congr (fun p => ?_) hs3⟩
      simp only [List.mem_cons, exists_eq_or_imp]
      grind

/-- Everything a block touches when it is rewound. -/
def touchedBlock (b : Block) (p : OutPoint) : Prop :=
  p ∈ touchedTx b.cb true ∨ ∃ t ∈ b.txs, p ∈ touchedTx t false

/-- `disconnectTransactions` simulates `undoBlock`. -/
theorem sim_disconnect {v0 : View} {u' u : UtxoSet} (hv0 : SpMod v0) (ht : Nat) (b : Block)
    (stxos : List Entry) (hlen : stxos.length = countIns b) (hu : undoBlock b stxos u' = some u) :
    ∃ v1, disconnectTransactions ht b stxos v0 = some v1 ∧ Sim v0 u' (touchedBlock b) v1 u := by
  unfold undoBlock at hu
  unfold disconnectTransactions
  rw [if_neg (by simpa using hlen)]
  cases h1 : unTxs b.txs.reverse stxos.reverse u' with
  | none => rw [h1] at hu; simp at hu
  | some r =>
    obtain ⟨w1, j1⟩ := r
    rw [h1] at hu
    simp only [Option.some.injEq] at hu
    obtain ⟨v1, hv1, hs1⟩ := sim_unTxs hv0 ht b.txs.reverse stxos.reverse _ v0 u' w1 j1 (sim_init v0 u') h1
    rw [hv1]
    simp only []
    have h2 := sim_unOuts hv0 b.cb.id ht true b.cb.outs 0 _ v1 w1 hs1
    rw [hu] at h2
    refine ⟨_, rfl, sim_congr (fun p => ?_) h2⟩
    simp only [touchedBlock, touchedTx, if_true, List.append_nil, List.mem_reverse, or_false]

end BV.C03.Lemmas
