/- C03 helper lemmas: `detachOne` / `detachMany` (the view path of a reorganisation) preserve
the chain invariant and rewind the fold by exactly the detached blocks. -/
import BV.C03.ViewLemmas
namespace BV.C03.Lemmas
open BV.C03 BV.C03.Spec

/-- Every entry of the view agrees with `u`, and a spent entry is marked modified. -/
def VAgree (v : View) (u : UtxoSet) : Prop :=
  ∀ o ce, v.get o = some (some ce) → ce.val = u o ∧ (ce.spent = true → ce.modified = true)

/-- As `VAgree`, except that outpoints in `S` may hold an unspent entry of any content (what
`findInputsToFetch` adds for in-block spends). -/
def VJunk (S : OutPoint → Prop) (v : View) (u : UtxoSet) : Prop :=
  ∀ o ce, v.get o = some (some ce) →
    (ce.val = u o ∧ (ce.spent = true → ce.modified = true)) ∨ (S o ∧ ce.spent = false)

theorem vagree_empty (u : UtxoSet) : VAgree emptyView u := by
  intro o ce h; simp [emptyView] at h

theorem vjunk_of_vagree {S : OutPoint → Prop} {v : View} {u : UtxoSet} (h : VAgree v u) : VJunk S v u :=
  fun o ce hg => Or.inl (h o ce hg)

theorem vjunk_addTxOuts {S : OutPoint → Prop} {u : UtxoSet} (id ht : Nat) (cb : Bool) (outs : List Out) :
    ∀ (i : Nat) (v : View), VJunk S v u → (∀ p, p ∈ spOuts id i outs → S p) →
      VJunk S (viewAddTxOuts id ht cb i outs v) u := by
  induction outs with
  | nil => intro i v h _; exact h
  | cons o os ih =>
    intro i v h hS
    simp only [viewAddTxOuts]
    apply ih
    · unfold viewAddTxOut
      by_cases hu : unspendable o.script = true
      · rw [if_pos hu]; exact h
      · rw [if_neg hu]
        intro p ce hg
        by_cases hp : p = (id, i)
        · subst hp
          rw [get_setSlot_same] at hg
          simp at hg; subst hg
          refine Or.inr ⟨hS _ ?_, rfl⟩
          simp [spOuts, hu]
        · rw [get_setSlot_ne _ _ _ _ hp] at hg; exact h p ce hg
    · intro p hp
      apply hS
      simp only [spOuts, List.mem_append]; exact Or.inr hp

theorem findTx_mem {id : Nat} {l : List (Tx × Bool)} {r : Tx × Bool} (h : findTx id l = some r) : r ∈ l := by
  induction l with
  | nil => simp [findTx] at h
  | cons x xs ih =>
    simp only [findTx] at h
    split at h
    · simp at h; subst h; simp
    · exact List.mem_cons_of_mem _ (ih h)

theorem vjunk_findInput {S : OutPoint → Prop} {u : UtxoSet} (ht : Nat) (earlier : List (Tx × Bool))
    (hE : ∀ r ∈ earlier, ∀ p, p ∈ spOuts r.1.id 0 r.1.outs → S p)
    (acc : View × List OutPoint) (o : OutPoint) (h : VJunk S acc.1 u) :
    VJunk S (findInput ht earlier acc o).1 u := by
  unfold findInput
  cases hf : findTx o.1 earlier with
  | some r =>
    obtain ⟨t, cb⟩ := r
    simp only []
    exact vjunk_addTxOuts t.id ht cb t.outs 0 acc.1 h (hE _ (findTx_mem hf))
  | none =>
    simp only []
    cases acc.1.get o <;> exact h

theorem vjunk_findInput_fold {S : OutPoint → Prop} {u : UtxoSet} (ht : Nat) (earlier : List (Tx × Bool))
    (hE : ∀ r ∈ earlier, ∀ p, p ∈ spOuts r.1.id 0 r.1.outs → S p) (ins : List OutPoint) :
    ∀ (acc : View × List OutPoint), VJunk S acc.1 u → VJunk S (ins.foldl (findInput ht earlier) acc).1 u := by
  induction ins with
  | nil => intro acc h; exact h
  | cons o os ih => intro acc h; exact ih _ (vjunk_findInput ht earlier hE acc o h)

theorem vjunk_findInputs {S : OutPoint → Prop} {u : UtxoSet} (ht : Nat) (txs : List Tx)
    (hT : ∀ t ∈ txs, ∀ p, p ∈ spOuts t.id 0 t.outs → S p) :
    ∀ (earlier : List (Tx × Bool)) (acc : View × List OutPoint),
      (∀ r ∈ earlier, ∀ p, p ∈ spOuts r.1.id 0 r.1.outs → S p) → VJunk S acc.1 u →
      VJunk S (findInputs ht earlier txs acc).1 u := by
  induction txs with
  | nil => intro earlier acc _ h; exact h
  | cons t ts ih =>
    intro earlier acc hE h
    simp only [findInputs]
    apply ih (fun t' ht' => hT t' (List.mem_cons_of_mem _ ht'))
    · intro r hr
      simp only [List.mem_append, List.mem_singleton] at hr
      rcases hr with hr | hr
      · exact hE r hr
      · subst hr; exact hT t (List.mem_cons_self ..)
    · exact vjunk_findInput_fold ht earlier hE t.ins acc h

theorem viewFetch_spec {S : OutPoint → Prop} (db : Db) (os : List OutPoint) :
    ∀ (c : Cache) (v : View), CInv c db → VJunk S v (abs c db) →
      CInv (viewFetch c db os v).1 db ∧ abs (viewFetch c db os v).1 db = abs c db ∧
      VJunk S (viewFetch c db os v).2 (abs c db) := by
  induction os with
  | nil => intro c v h hv; exact ⟨h, rfl, hv⟩
  | cons o os ih =>
    intro c v h hv
    simp only [viewFetch]
    obtain ⟨hc1, habs, hget, hval⟩ := fetch_spec c db o h
    have habs' : abs (fetch c db o).1 db = abs c db := funext habs
    have hv1 : VJunk S (setSlot v o (some (fetch c db o).2)) (abs (fetch c db o).1 db) := by
      rw [habs']
      intro p ce hg
      by_cases hp : p = o
      · subst hp
        rw [get_setSlot_same] at hg
        simp only [Option.some.injEq] at hg
        rw [hg] at hval hget
        refine Or.inl ⟨hval, fun hs => ?_⟩
        cases hm : ce.modified
        · have := (hc1.clean p ce hget hm).2; rw [hs] at this; simp at this
        · rfl
      · rw [get_setSlot_ne _ _ _ _ hp] at hg; exact hv p ce hg
    have := ih (fetch c db o).1 _ hc1 hv1
    rw [habs'] at this
    exact this

theorem spOuts_touched_cb (b : Block) (p : OutPoint) (h : p ∈ spOuts b.cb.id 0 b.cb.outs) : touchedBlock b p :=
  Or.inl (by simp [touchedTx, h])

theorem spOuts_touched_tx (b : Block) (t : Tx) (ht : t ∈ b.txs) (p : OutPoint)
    (h : p ∈ spOuts t.id 0 t.outs) : touchedBlock b p :=
  Or.inr ⟨t, ht, by simp [touchedTx, h]⟩

/-- One detach: the invariant holds for the chain without its tip, and the committed view
agrees with the new fold. -/
theorem detachOne_inv (s : State) (v : View) (b : Block) (rest : List Block) (h : Inv s)
    (hch : s.chainRev = b :: rest) (hv : VAgree v (utxoRev s.chainRev)) :
    ∃ s' v', detachOne s v = some (s', v') ∧ Inv s' ∧ s'.chainRev = rest ∧ VAgree v' (utxoRev rest) ∧
      s'.totalTxns = s.totalTxns - (1 + b.txs.length) := by
  have hj := h.journal; have hval := h.valid; have hnd := h.nodup; have habs := h.abs_eq
  rw [hch] at hj hval hnd habs hv
  obtain ⟨hjb, hjrest⟩ := hj
  obtain ⟨hvb, hvrest⟩ := hval
  have hu' : utxoRev (b :: rest) = applyBlock (utxoRev rest) (rest.length + 1) b := rfl
  unfold detachOne
  rw [hch]
  dsimp only
  rw [hjb]
  dsimp only
  -- inputs loaded into the view
  have hfi : VJunk (touchedBlock b) (findInputs (rest.length + 1) [(b.cb, true)] b.txs (v, [])).1 (abs s.cache s.db) := by
    rw [habs]
    apply vjunk_findInputs (rest.length + 1) b.txs (fun t htm p hp => spOuts_touched_tx b t htm p hp)
    · intro r hr p hp
      simp only [List.mem_singleton] at hr; subst hr
      exact spOuts_touched_cb b p hp
    · exact vjunk_of_vagree hv
  obtain ⟨hc1, habs1, hv2⟩ := viewFetch_spec (S := touchedBlock b) s.db
    (findInputs (rest.length + 1) [(b.cb, true)] b.txs (v, [])).2 s.cache _ h.cinv hfi
  generalize viewFetch s.cache s.db (findInputs (rest.length + 1) [(b.cb, true)] b.txs (v, [])).2
    (findInputs (rest.length + 1) [(b.cb, true)] b.txs (v, [])).1 = cv at hc1 habs1 hv2 ⊢
  rw [habs] at habs1 hv2
  have hsp : SpMod cv.2 := by
    intro o ce hg hs
    rcases hv2 o ce hg with h1 | h1
    · exact h1.2 hs
    · rw [h1.2] at hs; simp at hs
  have hundo : undoBlock b (journalOf (utxoRev rest) (rest.length + 1) b) (utxoRev (b :: rest)) = some (utxoRev rest) := by
    rw [hu']; exact undoBlock_applyBlock (utxoRev rest) (rest.length + 1) b hvb
  obtain ⟨v1, hd, hsim⟩ := sim_disconnect hsp (rest.length + 1) b (journalOf (utxoRev rest) (rest.length + 1) b) (journalOf_length (utxoRev rest) (rest.length + 1) b hvb) hundo
  simp only [hd]
  -- the bucket after the flush and the view write
  have hdb : putView v1 (writeCache cv.1 s.db) = (utxoRev rest) := by
    rw [writeCache_eq_abs _ _ hc1, habs1]
    funext o
    unfold putView
    by_cases hT : touchedBlock b o
    · obtain ⟨ce, hg, hm, hvl⟩ := (hsim o).1 hT
      simp [hg, slotPut, hm, hvl]
    · obtain ⟨hg, hw⟩ := (hsim o).2 hT
      rw [hg, ← hw]
      cases hc : cv.2.get o with
      | none => rfl
      | some r =>
        cases r with
        | none => rfl
        | some ce =>
          rcases hv2 o ce hc with h1 | h1
          · simp only [slotPut]; split <;> simp [h1.1, hw]
          · exact (hT h1.1).elim
  refine ⟨_, _, rfl, ⟨cinv_empty _, ?_, ?_, hvrest, ?_, ⟨[], rest, rfl, rfl, hdb⟩,
    fun x hx => h.nonzero x (by rw [hch]; exact List.mem_cons_of_mem _ hx)⟩, rfl, ?_, rfl⟩
  · show abs emptyCache (putView v1 (writeCache cv.1 s.db)) = utxoRev rest
    rw [abs_empty, hdb]
  · have hid : b.id ∉ rest.map (·.id) := (List.nodup_cons.mp hnd).1
    exact journalOk_set _ _ _ _ hid hjrest
  · exact (List.nodup_cons.mp hnd).2
  · intro o ce' hg
    unfold commitView at hg
    simp only [] at hg
    cases hc : v1.get o with
    | none => rw [hc] at hg; simp at hg
    | some r =>
      cases r with
      | none => rw [hc] at hg; simp at hg
      | some ce =>
        rw [hc] at hg
        simp only [] at hg
        split at hg
        · simp at hg
        · rename_i hns
          simp only [Option.some.injEq] at hg
          subst hg
          have hnot : ¬ (ce.modified = true ∧ ce.spent = true) := by simpa using hns
          have hval' : ce.val = (utxoRev rest) o ∧ ce.spent = false := by
            by_cases hT : touchedBlock b o
            · obtain ⟨ce2, hg2, hm, hvl⟩ := (hsim o).1 hT
              rw [hc] at hg2; simp at hg2; subst hg2
              refine ⟨hvl, ?_⟩
              cases hs : ce.spent
              · rfl
              · exact (hnot ⟨hm, hs⟩).elim
            · obtain ⟨hg2, hw⟩ := (hsim o).2 hT
              rw [hc] at hg2
              rcases hv2 o ce hg2.symm with h1 | h1
              · refine ⟨by rw [h1.1, hw], ?_⟩
                cases hs : ce.spent
                · rfl
                · exact (hnot ⟨h1.2 hs, hs⟩).elim
              · exact (hT h1.1).elim
          refine ⟨?_, fun hs => ?_⟩
          · simpa [CEntry.val] using hval'.1
          · simp only [] at hs; rw [hval'.2] at hs; simp at hs

theorem detachMany_inv (n : Nat) : ∀ (s : State) (v : View), Inv s → n ≤ s.chainRev.length →
    VAgree v (utxoRev s.chainRev) → TT s →
    ∃ s' v', detachMany n s v = some (s', v') ∧ Inv s' ∧ s'.chainRev = s.chainRev.drop n ∧
      VAgree v' (utxoRev s'.chainRev) ∧ TT s' := by
  induction n with
  | zero => intro s v h _ hv ht; exact ⟨s, v, rfl, h, by simp, hv, ht⟩
  | succ n ih =>
    intro s v h hn hv ht
    cases hch : s.chainRev with
    | nil => rw [hch] at hn; simp at hn
    | cons b rest =>
      obtain ⟨s1, v1, h1, hi1, hc1, hv1, htt1⟩ := detachOne_inv s v b rest h hch hv
      have hn1 : n ≤ s1.chainRev.length := by rw [hc1]; rw [hch] at hn; simpa using hn
      have ht1 : TT s1 := by
        unfold TT at ht ⊢
        rw [hch, totalTxns_cons] at ht
        rw [htt1, hc1, ht]; omega
      rw [← hc1] at hv1
      obtain ⟨s2, v2, h2, hi2, hc2, hv2, ht2⟩ := ih s1 v1 hi1 hn1 hv1 ht1
      refine ⟨s2, v2, by simp only [detachMany, h1, h2], hi2, ?_, hv2, ht2⟩
      rw [hc2, hc1]; rfl

end BV.C03.Lemmas
