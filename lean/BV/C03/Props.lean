/-
C03 property theorems: the UTXO set the node reports, the spend journal and the persisted
bucket equal the fold of the active chain, for every well-formed history and every flush
placement. Only statements + non-vacuity examples live here; proofs are in
Lemmas/Chain/Undo/ViewLemmas/Detach/Run.lean.

Vocabulary: `Spec.utxoOf chain` is the fold (chain = blocks above genesis, genesis side first);
`abs cache db` is what `FetchUtxoEntry` callers see (cache entry, nil marker, or database row);
`Lemmas.HistOk c ops` says the history `ops` is well formed from chain `c`: it connects only
blocks valid on the current fold (inputs exist; no created outpoint is currently unspent - the
BIP30 rule) with an id not already active, and detaches no more than the chain holds. Flushes
(`Op.flush mode full due`, `full`/`due` = the memory-threshold and timer comparisons, arbitrary)
and fetches may occur anywhere; every connect also carries an arbitrary `full` bit for the
FlushIfNeeded that ends `connectBlock`.
-/
import BV.C03.Run
import BV.C03.ValidLemmas
import BV.Generated.C03
namespace BV.C03
open Spec Lemmas

/-! ### the invariant -/

/-- The initial state (empty cache, empty bucket, genesis only) satisfies the invariant
`abs = fold(activeChain)` ∧ fresh ⇒ no row ∧ nil marker ⇒ no row ∧ unmodified ⇒ row = entry
∧ journal exact for every active block. -/
theorem inv_init : Inv init := Lemmas.inv_init

/-- Every operation of a well-formed history succeeds (no AssertError), preserves the
invariant and moves the active chain as expected: connect (with or without the validation
fetches, BIP30 scan or not), multi-block detach through one shared UtxoViewpoint, flush in any
mode with any threshold/timer outcome, fetch. -/
theorem step_preserves (s : State) (op : Op) (h : Inv s) (hok : OpOk s.chainRev op) (ht : TT s) :
    ∃ s', step s op = some s' ∧ Inv s' ∧ s'.chainRev = chainStep s.chainRev op ∧ TT s' :=
  step_inv s op h hok ht

/-- `reported_eq_fold`: after ANY well-formed history from genesis the run succeeds and, for
ALL outpoints, what the node reports (through the cache, a nil marker or the database, and
as the result of an actual `FetchUtxoEntry`) is the fold of the active chain; the active chain
is the one the history describes. -/
theorem reported_eq_fold (ops : List Op) (hok : HistOk [] ops) :
    ∃ s, run init ops = some s ∧ s.chainRev = ops.foldl chainStep [] ∧
      (∀ o, abs s.cache s.db o = utxoOf s.chainRev.reverse o) ∧
      (∀ o, rval (fetch s.cache s.db o).2 = utxoOf s.chainRev.reverse o) ∧
      s.totalTxns = totalTxns s.chainRev.reverse := by
  obtain ⟨s, hr, hi, hc, htt⟩ := run_inv ops init Lemmas.inv_init hok tt_init
  refine ⟨s, hr, hc, fun o => ?_, fun o => ?_, htt⟩
  · rw [utxoOf_reverse, hi.abs_eq]
  · rw [utxoOf_reverse]; exact fetch_result s o hi

/-- The same from any state satisfying the invariant (e.g. mid-history). -/
theorem reported_eq_fold_from (s : State) (ops : List Op) (h : Inv s) (hok : HistOk s.chainRev ops)
    (ht : TT s) :
    ∃ s', run s ops = some s' ∧ Inv s' ∧ s'.chainRev = ops.foldl chainStep s.chainRev ∧
      (∀ o, abs s'.cache s'.db o = utxoOf s'.chainRev.reverse o) ∧ TT s' := by
  obtain ⟨s', hr, hi, hc, htt⟩ := run_inv ops s h hok ht
  exact ⟨s', hr, hi, hc, fun o => by rw [utxoOf_reverse, hi.abs_eq], htt⟩

/-! ### disconnect restores the state before the connect -/

/-- Spec level: undoing a valid block with its own journal gives back exactly the set it was
applied to. -/
theorem undo_apply_id (u : UtxoSet) (h : Nat) (b : Block) (hv : validBlock u h b) :
    undoBlock b (journalOf u h b) (applyBlock u h b) = some u :=
  undoBlock_applyBlock u h b hv

/-- `disconnect_connect_id`: connecting a valid block and then disconnecting it (through the
view path, with the flush to the parent marker) succeeds and restores precisely the reported
set and the active chain; the bucket then holds that set by itself and the cache is empty. -/
theorem disconnect_connect_id (s : State) (b : Block) (validate bip30 full : Bool) (h : Inv s)
    (hv : validBlock (utxoRev s.chainRev) (s.chainRev.length + 1) b)
    (hid : b.id ∉ s.chainRev.map (·.id)) (hnz : b.id ≠ 0) (ht : TT s) :
    ∃ s1 s2, connect s b validate bip30 full = some s1 ∧ step s1 (.detach 1) = some s2 ∧
      s2.chainRev = s.chainRev ∧ abs s2.cache s2.db = abs s.cache s.db ∧ Inv s2 ∧
      s2.totalTxns = s.totalTxns := by
  obtain ⟨s1, h1, hi1, hc1, htt1⟩ := connect_inv s b validate bip30 full h hv hid hnz
  have ht1 : TT s1 := by unfold TT at ht ⊢; rw [htt1, hc1, totalTxns_cons, ht]
  obtain ⟨s2, h2, hi2, hc2, ht2⟩ := step_inv s1 (.detach 1) hi1 (by simp [OpOk, hc1]) ht1
  have hch : s2.chainRev = s.chainRev := by rw [hc2, hc1]; rfl
  refine ⟨s1, s2, h1, h2, hch, ?_, hi2, ?_⟩
  · rw [hi2.abs_eq, h.abs_eq, hch]
  · unfold TT at ht ht2; rw [ht2, hch, ht]

/-- Detaching `n ≤ length` blocks with one shared view rewinds the fold by exactly those blocks. -/
theorem detach_rewinds (s : State) (n : Nat) (h : Inv s) (hn : n ≤ s.chainRev.length) (ht : TT s) :
    ∃ s', step s (.detach n) = some s' ∧ Inv s' ∧ s'.chainRev = s.chainRev.drop n ∧
      (∀ o, abs s'.cache s'.db o = utxoOf (s.chainRev.drop n).reverse o) ∧ TT s' := by
  obtain ⟨s', h1, hi, hc, htt⟩ := step_inv s (.detach n) h hn ht
  exact ⟨s', h1, hi, hc, fun o => by rw [utxoOf_reverse, hi.abs_eq, hc]; rfl, htt⟩

/-! ### flushes -/

/-- `flush_preserves`: a flush in any mode, whether or not the threshold/timer lets it happen,
changes nothing an observer can see, and keeps the invariant. -/
theorem flush_preserves (s : State) (mode : Mode) (full due : Bool) (h : Inv s) :
    Inv (flush s mode full due) ∧ (flush s mode full due).chainRev = s.chainRev ∧
    abs (flush s mode full due).cache (flush s mode full due).db = abs s.cache s.db := by
  have := flushAt_inv s (tipId s.chainRev) mode full due h rfl
  refine ⟨this.1, this.2.1, ?_⟩
  have h2 := this.1.abs_eq
  unfold flush
  rw [h2, this.2.1, h.abs_eq]

/-- `persisted_eq_view_after_flush`: after a required flush the persisted bucket alone equals
the in-memory view before the flush (= the fold), the cache is empty and the persisted
consistency marker names the tip. -/
theorem persisted_eq_view_after_flush (s : State) (full due : Bool) (h : Inv s) :
    (flush s .required full due).db = abs s.cache s.db ∧
    (flush s .required full due).db = utxoOf s.chainRev.reverse ∧
    (flush s .required full due).cache = emptyCache ∧
    (flush s .required full due).marker = tipId s.chainRev := by
  have := flushAt_required s (tipId s.chainRev) full due h
  refine ⟨?_, ?_, this.2.1, this.2.2⟩
  · unfold flush; rw [this.1, h.abs_eq]
  · unfold flush; rw [this.1, utxoOf_reverse]

/-- What a flush writes is the abstraction map itself, for any cache satisfying the cache
invariant (whatever the chain). -/
theorem writeCache_eq_view (c : Cache) (db : Db) (h : CInv c db) : writeCache c db = abs c db :=
  writeCache_eq_abs c db h

/-! ### what is persisted, at every moment; unclean shutdown and start-up replay -/

/-- `persisted_eq_fold_at_marker`: in EVERY state satisfying the invariant - not only right
after a flush - the persisted bucket is exactly the fold of the active chain up to the block
named by the persisted consistency marker, and that block is on the active chain. This covers
the flushes performed by `connectBlock`, `disconnectBlock`, `FlushUtxoCache` and by the replay
loop of `InitConsistentState`. -/
theorem persisted_eq_fold_at_marker (s : State) (h : Inv s) :
    ∃ above below, s.chainRev = above ++ below ∧ tipId below = s.marker ∧
      s.db = utxoOf below.reverse := by
  obtain ⟨above, below, h1, h2, h3⟩ := h.persist
  exact ⟨above, below, h1, h2, by rw [utxoOf_reverse]; exact h3⟩

/-- `crash_restart_recovers`: drop the whole in-memory state at any quiescent point (unclean
shutdown); a start-up that completes - with ANY cache size, i.e. any flush/no-flush outcome
after every replayed block - never asserts, keeps the active chain and the journal, reports
exactly the fold again and re-establishes the full invariant. Needs only the persistent part
of the invariant. -/
theorem crash_restart_recovers (s : State) (fulls : List Bool) (h : PInv s) :
    ∃ s', restart s fulls = some s' ∧ Inv s' ∧ s'.chainRev = s.chainRev ∧ s'.journal = s.journal ∧
      ∀ o, abs s'.cache s'.db o = utxoOf s.chainRev.reverse o := by
  obtain ⟨s', h1, hi, hc, hj, _⟩ := restart_inv s fulls h
  exact ⟨s', h1, hi, hc, hj, fun o => by rw [utxoOf_reverse, ← hc, hi.abs_eq]⟩

/-- `restart_interrupted_keeps_persisted`: a start-up that is interrupted (or dies) after any
number `n` of replayed blocks, with any flush outcomes, leaves a persistent state that again
satisfies the persistent invariant (bucket = fold at the NEW marker, journal exact), so any
number of interrupted start-ups followed by a completed one recovers (`step_preserves` for
`Op.restart aborts fulls`). -/
theorem restart_interrupted_keeps_persisted (s : State) (n : Nat) (fulls : List Bool) (h : PInv s) :
    ∃ s', restartAborted s n fulls = some s' ∧ PInv s' ∧ s'.chainRev = s.chainRev ∧
      s'.totalTxns = s.totalTxns :=
  restartAborted_pinv s n fulls h

/-- A block that is refused - at the tip, or at any position of the attach list of a
reorganisation (the verification phase runs before anything is disconnected) - only causes
reads of the cache: whatever outpoints it makes the node load, the run succeeds, the active
chain and everything reported stay as they were, and the invariant holds. -/
theorem refused_block_changes_nothing (s : State) (os : List OutPoint) (h : Inv s) (ht : TT s) :
    ∃ s', run s (os.map Op.fetch) = some s' ∧ Inv s' ∧ s'.chainRev = s.chainRev ∧
      (∀ o, abs s'.cache s'.db o = abs s.cache s.db o) ∧ s'.totalTxns = s.totalTxns := by
  obtain ⟨hok, hch⟩ := histOk_fetches os s.chainRev
  obtain ⟨s', hr, hi, hc, htt⟩ := run_inv _ s h hok ht
  rw [hch] at hc
  refine ⟨s', hr, hi, hc, fun o => by rw [hi.abs_eq, h.abs_eq, hc], ?_⟩
  unfold TT at ht htt; rw [htt, ht, hc]

/-- Well-formed histories are prefix closed (and suffix closed from the chain reached). -/
theorem histOk_prefix (c : List Block) (a b : List Op) (h : HistOk c (a ++ b)) : HistOk c a :=
  ((histOk_append a b c).mp h).1

/-- `crash_inside_reorg_recovers`: the process may die inside a reorganisation, after any number
`j ≤ n` of committed block disconnections, or after all `n` of them and any number `i` of
committed attachments (each is one database transaction): the start-up that follows (any
number of interrupted attempts, any cache size) never asserts and reports exactly the fold of
the intermediate chain, with the full invariant. -/
theorem crash_inside_reorg_recovers (s : State) (n j i : Nat) (att : List (Block × Bool))
    (aborts : List (Nat × List Bool)) (fulls : List Bool) (h : Inv s) (ht : TT s)
    (hok : HistOk s.chainRev (.detach n :: att.map (fun p => Op.attach p.1 p.2))) (hj : j ≤ n) :
    (∃ s', run s [.detach j, .restart aborts fulls] = some s' ∧ Inv s' ∧
      s'.chainRev = s.chainRev.drop j ∧ ∀ o, abs s'.cache s'.db o = utxoOf (s.chainRev.drop j).reverse o) ∧
    (∃ s', run s (.detach n :: (att.take i).map (fun p => Op.attach p.1 p.2) ++ [.restart aborts fulls]) = some s' ∧
      Inv s' ∧ ∀ o, abs s'.cache s'.db o = utxoOf s'.chainRev.reverse o) := by
  constructor
  · have hok1 : HistOk s.chainRev [.detach j, .restart aborts fulls] :=
      ⟨Nat.le_trans hj hok.1, trivial, trivial⟩
    obtain ⟨s', hr, hi, hc, _⟩ := run_inv _ s h hok1 ht
    refine ⟨s', hr, hi, hc, fun o => ?_⟩
    rw [utxoOf_reverse, hi.abs_eq, hc]; rfl
  · have hpre : HistOk s.chainRev (.detach n :: (att.take i).map (fun p => Op.attach p.1 p.2)) := by
      have : att.map (fun p => Op.attach p.1 p.2) =
          (att.take i).map (fun p => Op.attach p.1 p.2) ++ (att.drop i).map (fun p => Op.attach p.1 p.2) := by
        rw [← List.map_append, List.take_append_drop]
      rw [this, ← List.cons_append] at hok
      exact histOk_prefix _ _ _ hok
    have hall : HistOk s.chainRev (.detach n :: (att.take i).map (fun p => Op.attach p.1 p.2) ++ [.restart aborts fulls]) := by
      rw [histOk_append]
      exact ⟨hpre, trivial, trivial⟩
    obtain ⟨s', hr, hi, _, _⟩ := run_inv _ s h hall ht
    exact ⟨s', hr, hi, fun o => by rw [utxoOf_reverse, hi.abs_eq]⟩

/-- The persistent part of the invariant follows from the invariant. -/
theorem inv_persistent (s : State) (h : Inv s) : PInv s := h.pinv

/-! ### the spend journal -/

/-- `journal_exact`: in every state satisfying the invariant (hence after every well-formed
history) the journal bucket holds, for every active block, exactly the entries that block
spent, in spend order, as defined by the Spec on the chain below it. -/
theorem journal_exact (s : State) (h : Inv s) (pre : List Block) (b : Block) (post : List Block)
    (hc : s.chainRev.reverse = pre ++ b :: post) :
    s.journal b.id = some (journalOf (utxoOf pre) (pre.length + 1) b) := by
  have hrev : s.chainRev = post.reverse ++ b :: pre.reverse := by
    have := congrArg List.reverse hc
    simpa using this
  have hj := h.journal
  rw [hrev] at hj
  have := journalOk_mid _ _ _ _ hj
  rw [this, ← utxoOf_reverse]
  simp

/-- A connect stores exactly the Spec journal of the new block. -/
theorem journal_of_connect (s : State) (b : Block) (validate bip30 full : Bool) (h : Inv s)
    (hv : validBlock (utxoRev s.chainRev) (s.chainRev.length + 1) b)
    (hid : b.id ∉ s.chainRev.map (·.id)) (hnz : b.id ≠ 0) :
    ∃ s', connect s b validate bip30 full = some s' ∧
      s'.journal b.id = some (journalOf (utxoOf s.chainRev.reverse) (s.chainRev.length + 1) b) := by
  obtain ⟨s', h1, hi, hc, _⟩ := connect_inv s b validate bip30 full h hv hid hnz
  refine ⟨s', h1, ?_⟩
  have hj := hi.journal
  rw [hc] at hj
  rw [hj.1, utxoOf_reverse]

/-- Total transaction count of a chain grows by the block's transaction count (the Model's
`totalTxns` field - `BestState.TotalTxns` - equals `Spec.totalTxns` of the active chain after every
well-formed history: last conjunct of `reported_eq_fold`; `TT s` in `step_preserves`). -/
theorem totalTxns_connect (chain : List Block) (b : Block) :
    totalTxns (chain ++ [b]) = totalTxns chain + (1 + b.txs.length) := by
  simp [totalTxns]; omega

/-! ### the histories the correspondence runs are well formed -/

/-- The executable block check of the line-protocol driver (`blockOk`, BV/C03/Valid.lean:
no duplicate input, distinct txids in the block, BIP30 scan, every input exists when spent
and is mature) implies `Spec.validBlock` when the BIP30 scan is on. Hence on BIP34-inactive
params every block the driver (and btcd) accepts satisfies the hypothesis of the theorems
above; with the scan skipped (BIP34 active) the no-overwrite half is the explicit hypothesis. -/
theorem accepted_block_valid (maturity : Nat) (u : UtxoSet) (h : Nat) (b : Block)
    (hok : blockOk true maturity u h b = true) : validBlock u h b :=
  blockOk_valid maturity u h b hok

/-! ### cache primitives (what the chain-level theorems rest on) -/

/-- `fetch` keeps the invariant and the view, caches its answer, and answers with the view. -/
theorem fetch_correct (c : Cache) (db : Db) (o : OutPoint) (h : CInv c db) :
    CInv (fetch c db o).1 db ∧ (∀ p, abs (fetch c db o).1 db p = abs c db p) ∧
    (fetch c db o).1.get o = some (fetch c db o).2 ∧ rval (fetch c db o).2 = abs c db o :=
  fetch_spec c db o h

/-- Any number of reads, in any order and multiplicity (this is all that concurrent
`FetchUtxoEntry` / `FetchUtxoView` callers and rejected blocks do to the cache), keeps the
invariant and changes nothing that is reported. -/
theorem reads_preserve (c : Cache) (db : Db) (os : List OutPoint) (h : CInv c db) :
    CInv (fetchMany c db os) db ∧ ∀ p, abs (fetchMany c db os) db p = abs c db p :=
  fetchMany_spec db os c h

/-- `FetchUtxoView`: after loading outpoints `os` into a fresh view through the cache, every
requested outpoint is a key of the view whose cloned slot shows exactly the reported value
(nil or spent = absent), the cache invariant holds and the reported set is unchanged. -/
theorem fetchUtxoView_correct (c : Cache) (db : Db) (os : List OutPoint) (h : CInv c db) :
    CInv (viewFetch c db os emptyView).1 db ∧
    abs (viewFetch c db os emptyView).1 db = abs c db ∧
    ∀ o ∈ os, ∃ slot, (viewFetch c db os emptyView).2.get o = some slot ∧ rval slot = abs c db o := by
  have h1 := viewFetch_spec (S := fun _ => False) db os c emptyView h (vjunk_of_vagree (vagree_empty _))
  exact ⟨h1.1, h1.2.1, fun o ho => ((viewFetch_get db os c emptyView h o).1 ho)⟩

/-- The fixed `addTxOut`. The extra hypothesis the proof needs is exactly the "no cache entry
at all" case: then the database must not hold the outpoint (which BIP30 - the outpoint is not
currently unspent - provides, see `addTxOut_correct_bip30`). With any cache entry present (nil,
fresh, spent-unflushed, even a clean unspent one) no hypothesis is needed. -/
theorem addTxOut_correct (c : Cache) (db : Db) (id i : Nat) (out : Out) (cb : Bool) (ht : Nat)
    (h : CInv c db) (hnew : c.get (id, i) = none → db (id, i) = none) :
    CInv (addTxOut c (id, i) out cb ht) db ∧
    ∀ p, abs (addTxOut c (id, i) out cb ht) db p = addOut id ht cb i out (abs c db) p :=
  addTxOut_spec c db id i out cb ht h hnew

theorem addTxOut_correct_bip30 (c : Cache) (db : Db) (id i : Nat) (out : Out) (cb : Bool) (ht : Nat)
    (h : CInv c db) (hnew : abs c db (id, i) = none) :
    CInv (addTxOut c (id, i) out cb ht) db ∧
    ∀ p, abs (addTxOut c (id, i) out cb ht) db p = addOut id ht cb i out (abs c db) p :=
  addTxOut_spec c db id i out cb ht h (fun hc => abs_none_db hnew hc)

/-- `addTxIn` on an existing output: succeeds, returns the spent entry as stxo, keeps the
invariant, and the view loses exactly that outpoint. -/
theorem addTxIn_correct (c : Cache) (db : Db) (o : OutPoint) (e : Entry) (h : CInv c db)
    (hex : abs c db o = some e) :
    ∃ c', addTxIn c db o = some (c', e) ∧ CInv c' db ∧ ∀ p, abs c' db p = spend (abs c db) o p :=
  addTxIn_spec c db o e h hex

/-! ### F-C03-a: the rule before the fix breaks the invariant -/

/-- With the pre-fix rule (always fresh), re-creating the outpoint over a cached
spent-but-unflushed entry and spending it again leaves the stale database row visible:
the state satisfies the cache invariant and BIP30 (the outpoint is absent), yet after
`addTxOutOld; addTxIn` the node reports the old entry (height 1) although the Spec says the
outpoint is spent. The fixed rule reports it spent. -/
theorem fc03a_old_rule_breaks :
    CInv fc03aCache fc03aDb ∧ abs fc03aCache fc03aDb (1, 0) = none ∧
    (match addTxIn (addTxOutOld fc03aCache (1, 0) ⟨50, [0x51]⟩ true 3) fc03aDb (1, 0) with
      | some (c', _) => abs c' fc03aDb (1, 0)
      | none => none) = some fc03aEntry ∧
    (match addTxIn (addTxOut fc03aCache (1, 0) ⟨50, [0x51]⟩ true 3) fc03aDb (1, 0) with
      | some (c', _) => abs c' fc03aDb (1, 0)
      | none => some fc03aEntry) = none := by
  refine ⟨?_, by decide, by decide, by decide⟩
  apply cinv_setSlot (cinv_empty _)
  · intro ce hce hf; simp at hce; subst hce; simp at hf
  · intro hn; simp at hn
  · intro ce hce hm; simp at hce; subst hce; simp at hm

/-- The same on a whole well-formed history through the chain-level model: with the pre-fix
rule the history (create, flush, spend, re-create by a duplicate coinbase, spend) ends with the
node reporting outpoint (1,0) unspent at height 1 although the fold says it is spent; with
the fixed rule the model reports the fold (this is `reported_eq_fold`). The real code showed
exactly this before commit 3cdcfc6d (corpus/C03/f_c03_a.txt). -/
theorem fc03a_old_rule_breaks_history :
    HistOk [] fcHist ∧ utxoOf [fcB1, fcB2, fcB3, fcB4] (1, 0) = none ∧
    fcRunOld.map (fun s => abs s.cache s.db (1, 0)) = some (some ⟨50, [0x51], 1, true⟩) ∧
    (run init fcHist).map (fun s => abs s.cache s.db (1, 0)) = some none := by
  refine ⟨by decide, by decide, by decide, by decide⟩

/-! ### non-vacuity -/

/-- A well-formed history exists: connect, flush, connect a spend, detach both, re-attach. -/
example : HistOk [] [.connect exB1 true false, .flush .required false false,
    .connect exB2 true true, .fetch (1, 0), .restart [(1, [true])] [false, true], .detach 2,
    .attach exB1 false] := by
  decide

/-! ### pins of regenerated constants -/

theorem pin_script_limits : Generated.C03.maxScriptSize = (maxScriptSize : Int) ∧
    Generated.C03.opReturn = (opReturn.toNat : Int) ∧ Generated.C03.opData75 = (opData75 : Int) ∧
    Generated.C03.opPushData1 = (opPushData1 : Int) ∧ Generated.C03.opPushData2 = (opPushData2 : Int) ∧
    Generated.C03.opPushData4 = (opPushData4 : Int) := by decide

/- No pin for the in-memory flag bits (`tfModified`, `tfFresh`, `tfSpent`, `tfCoinBase`: never persisted or
sent - the serialised entry encodes the coinbase bit in its own header code) nor for the `FlushMode`
enum values: they are internal, a renumbering is harmless. -/

end BV.C03
