/- C03 property theorems. -/
import BV.C03.Lemmas
namespace BV.C03
open Spec

end BV.C03
