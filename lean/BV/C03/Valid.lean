/- C03: the executable validity check the line-protocol driver applies to a delivered block
(what `CheckBlockSanity` / `checkConnectBlock` reject in generated histories). Core-only.
`Lemmas.blockOk_valid` proves that, with the BIP30 scan on, an accepted block is
`Spec.validBlock`, so the theorems' hypotheses hold for exactly the histories the driver runs. -/
import BV.C03.Model
namespace BV.C03
open Spec

/-- A transaction lists the same input twice (`CheckTransactionSanity`). -/
def hasDupIns (b : Block) : Bool := b.txs.any (fun t => t.ins.eraseDups.length != t.ins.length)

/-- No two transactions of the block share a txid (`CheckBlockSanity`). -/
def idsDistinct (b : Block) : Bool := decide ((b.cb.id :: b.txs.map (·.id)).Nodup)

def insOk (h maturity : Nat) : UtxoSet → List OutPoint → Bool
  | _, [] => true
  | u, o :: os =>
    match u o with
    | none => false
    | some e => (!e.coinbase || e.height + maturity ≤ h) && insOk h maturity (spend u o) os

def txsOk (h maturity : Nat) : UtxoSet → List Tx → Bool
  | _, [] => true
  | u, t :: ts => !t.ins.isEmpty && !t.outs.isEmpty && insOk h maturity u t.ins && txsOk h maturity (applyTx h false u t) ts

def bip30Ok (bip30 : Bool) (u : UtxoSet) (b : Block) : Bool :=
  !bip30 || (createdOutpoints b).all (fun o => (u o).isNone)

def blockOk (bip30 : Bool) (maturity : Nat) (u : UtxoSet) (h : Nat) (b : Block) : Bool :=
  !hasDupIns b && idsDistinct b && bip30Ok bip30 u b && txsOk h maturity (applyTx h true u b.cb) b.txs

end BV.C03
