/-
C03 Model: btcd's write-back utxo cache (blockchain/utxocache.go), the UtxoViewpoint path
used by block disconnects (utxoviewpoint.go), the persisted utxo bucket and spend journal
(chainio.go) and the per-block structure of connectBlock / disconnectBlock /
reorganizeChain (chain.go). Executable, core-only.

Go maps are modelled as total functions `OutPoint → Option …` (`none` = key absent); every
map iteration in the Go code treats keys independently, so iteration order is immaterial.
`addTxOut` is the algorithm AFTER the F-C03-a fix (fresh only if the cache does not hold a
non-fresh entry for the outpoint); `addTxOutOld` is the algorithm before it.
-/
import BV.C03.Spec
namespace BV.C03
open Spec

/-- `UtxoEntry` with its packed flags (`tfCoinBase` lives in `e.coinbase`). -/
structure CEntry where
  e : Entry
  spent : Bool
  modified : Bool
  fresh : Bool
deriving DecidableEq, Repr

/-- One map slot: `none` = key absent, `some none` = explicit nil ("known absent"). -/
abbrev Slot := Option (Option CEntry)
/-- A Go map from outpoints to entry pointers. (A structure rather than a bare function so that
the compiled driver builds each updated map once instead of re-running the update per lookup.) -/
structure SlotMap where
  get : OutPoint → Slot
abbrev Cache := SlotMap
abbrev View := SlotMap
abbrev Db := OutPoint → Option Entry

def setSlot (c : SlotMap) (o : OutPoint) (s : Slot) : SlotMap :=
  ⟨fun p => if p = o then s else c.get p⟩

def emptyCache : Cache := ⟨fun _ => none⟩

/-- What `deserializeUtxoEntry` produces: no spent/modified/fresh flag. -/
def loaded (e : Entry) : CEntry := ⟨e, false, false, false⟩

/-- `UtxoEntry.Spend`. -/
def CEntry.spend (ce : CEntry) : CEntry :=
  if ce.spent then ce else { ce with spent := true, modified := true }

/-- The value an observer sees in an entry. -/
def CEntry.val (ce : CEntry) : Option Entry := if ce.spent then none else some ce.e

/-! ### utxoCache primitives -/

/-- `fetchEntries` for one outpoint: a miss loads from the database and caches the result,
a nil result included. -/
def fetch (c : Cache) (db : Db) (o : OutPoint) : Cache × Option CEntry :=
  match c.get o with
  | some r => (c, r)
  | none =>
    let r := (db o).map loaded
    (setSlot c o (some r), r)

def fetchMany (c : Cache) (db : Db) : List OutPoint → Cache
  | [] => c
  | o :: os => fetchMany (fetch c db o).1 db os

/-- `utxoCache.addTxOut` (fixed). -/
def addTxOut (c : Cache) (o : OutPoint) (out : Out) (cb : Bool) (h : Nat) : Cache :=
  if unspendable out.script then c else
  let fresh := match c.get o with
    | some (some old) => old.fresh
    | _ => true
  setSlot c o (some (some ⟨⟨out.amount, out.script, h, cb⟩, false, true, fresh⟩))

/-- `utxoCache.addTxOut` before the F-C03-a fix: always fresh. -/
def addTxOutOld (c : Cache) (o : OutPoint) (out : Out) (cb : Bool) (h : Nat) : Cache :=
  if unspendable out.script then c else
  setSlot c o (some (some ⟨⟨out.amount, out.script, h, cb⟩, false, true, true⟩))

/-- `utxoCache.addTxIn`: `none` is the AssertError "missing input". -/
def addTxIn (c : Cache) (db : Db) (o : OutPoint) : Option (Cache × Entry) :=
  match fetch c db o with
  | (_, none) => none
  | (c1, some ce) =>
    let ce' := ce.spend
    if ce'.fresh then some (setSlot c1 o none, ce.e)
    else some (setSlot c1 o (some (some ce')), ce.e)

def addTxIns (db : Db) : List OutPoint → Cache → Option (Cache × List Entry)
  | [], c => some (c, [])
  | o :: os, c =>
    match addTxIn c db o with
    | none => none
    | some (c1, e) =>
      match addTxIns db os c1 with
      | none => none
      | some (c2, es) => some (c2, e :: es)

def addTxOuts (id h : Nat) (cb : Bool) : Nat → List Out → Cache → Cache
  | _, [], c => c
  | i, o :: os, c => addTxOuts id h cb (i + 1) os (addTxOut c (id, i) o cb h)

/-- `utxoCache.connectTransaction`. -/
def connectTx (db : Db) (h : Nat) (cb : Bool) (c : Cache) (tx : Tx) : Option (Cache × List Entry) :=
  if cb then some (addTxOuts tx.id h cb 0 tx.outs c, [])
  else match addTxIns db tx.ins c with
    | none => none
    | some (c1, es) => some (addTxOuts tx.id h cb 0 tx.outs c1, es)

def connectTxs (db : Db) (h : Nat) : List Tx → Cache → Option (Cache × List Entry)
  | [], c => some (c, [])
  | t :: ts, c =>
    match connectTx db h false c t with
    | none => none
    | some (c1, es) =>
      match connectTxs db h ts c1 with
      | none => none
      | some (c2, es2) => some (c2, es ++ es2)

/-- `utxoCache.connectTransactions`. -/
def connectTransactions (db : Db) (h : Nat) (c : Cache) (b : Block) : Option (Cache × List Entry) :=
  match connectTx db h true c b.cb with
  | none => none
  | some (c1, _) => connectTxs db h b.txs c1

/-- `utxoCache.writeCache` for one slot, given the database row `d` of the same outpoint: nil and
spent entries delete the row, unmodified entries leave it, the rest are written. -/
def slotWrite (s : Slot) (d : Option Entry) : Option Entry :=
  match s with
  | none => d
  | some none => none
  | some (some ce) => if ce.spent then none else if ce.modified then some ce.e else d

/-- `utxoCache.writeCache`: the new content of the utxo bucket. -/
def writeCache (c : Cache) (db : Db) : Db := fun o => slotWrite (c.get o) (db o)

/-- What a `FetchUtxoEntry` caller sees for one slot, given the database row. -/
def slotAbs (s : Slot) (d : Option Entry) : Option Entry :=
  match s with
  | none => d
  | some none => none
  | some (some ce) => ce.val

/-- What `FetchUtxoEntry` callers see: the abstraction map of (cache, db). -/
def abs (c : Cache) (db : Db) : UtxoSet := fun o => slotAbs (c.get o) (db o)

/-! ### chain-level state -/

inductive Mode | required | periodic | ifNeeded
deriving DecidableEq, Repr

structure State where
  cache : Cache
  db : Db
  /-- spend journal bucket, keyed by block id (stands for the block hash) -/
  journal : Nat → Option (List Entry)
  /-- active chain above genesis, tip first -/
  chainRev : List Block
  /-- `utxoCache.lastFlushHash` (block id, genesis = 0) -/
  lastFlush : Nat
  /-- persisted utxo state consistency marker -/
  marker : Nat
  /-- `BestState.TotalTxns` (persisted with the best chain state) -/
  totalTxns : Nat

def init : State := ⟨emptyCache, fun _ => none, fun _ => none, [], 0, 0, 1⟩

def tipId : List Block → Nat
  | [] => 0
  | b :: _ => b.id

/-- `utxoCache.flush` decision. `full` stands for `totalMemoryUsage() ≥ maxTotalMemoryUsage`,
`due` for "more than the periodic interval since the last flush". -/
def flushNow (mode : Mode) (full due : Bool) (tip lastFlush : Nat) : Bool :=
  match mode with
  | .required => true
  | .ifNeeded => (tip != lastFlush) && full
  | .periodic => due || full

/-- `utxoCache.flush` with best state `tip`. -/
def flushAt (s : State) (tip : Nat) (mode : Mode) (full due : Bool) : State :=
  if flushNow mode full due tip s.lastFlush then
    { s with cache := emptyCache, db := writeCache s.cache s.db, lastFlush := tip, marker := tip }
  else s

/-- `BlockChain.FlushUtxoCache`. -/
def flush (s : State) (mode : Mode) (full due : Bool) : State := flushAt s (tipId s.chainRev) mode full due

def setJournal (j : Nat → Option (List Entry)) (id : Nat) (v : Option (List Entry)) :
    Nat → Option (List Entry) := fun k => if k = id then v else j k

/-- Outpoints of all outputs of a transaction (spendable or not). -/
def txOutpoints (t : Tx) : List OutPoint := (List.range t.outs.length).map (fun i => (t.id, i))

/-- What `checkBIP0030` fetches. -/
def createdOutpoints (b : Block) : List OutPoint :=
  txOutpoints b.cb ++ (b.txs.map txOutpoints).flatten

/-- Inputs that `findInputsToFetch` requests for an empty view: those whose origin is not an
earlier transaction of the same block. -/
def neededInputs (earlier : List Nat) : List Tx → List OutPoint
  | [] => []
  | t :: ts => t.ins.filter (fun o => !earlier.contains o.1) ++ neededInputs (earlier ++ [t.id]) ts

/-- Cache fetches caused by `checkConnectBlock` on a fresh view. -/
def validationFetches (bip30 : Bool) (b : Block) : List OutPoint :=
  (if bip30 then createdOutpoints b else []) ++ neededInputs [b.cb.id] b.txs

/-- Extending the main chain: optional validation fetches, `connectTransactions` on the cache,
then `connectBlock` (journal put, tip update, `flush(FlushIfNeeded)`). `none` = AssertError. -/
def connect (s : State) (b : Block) (validate bip30 full : Bool) : Option State :=
  let c0 := if validate then fetchMany s.cache s.db (validationFetches bip30 b) else s.cache
  match connectTransactions s.db (s.chainRev.length + 1) c0 b with
  | none => none
  | some (c1, stxos) =>
    let s1 : State := { s with cache := c1, journal := setJournal s.journal b.id (some stxos),
                               chainRev := b :: s.chainRev, totalTxns := s.totalTxns + (1 + b.txs.length) }
    some (flushAt s1 b.id .ifNeeded full false)

/-! ### the view path of a disconnect -/

def emptyView : View := ⟨fun _ => none⟩

/-- `UtxoViewpoint.addTxOut`. -/
def viewAddTxOut (v : View) (o : OutPoint) (out : Out) (cb : Bool) (h : Nat) : View :=
  if unspendable out.script then v else
  setSlot v o (some (some ⟨⟨out.amount, out.script, h, cb⟩, false, true, true⟩))

def viewAddTxOuts (id h : Nat) (cb : Bool) : Nat → List Out → View → View
  | _, [], v => v
  | i, o :: os, v => viewAddTxOuts id h cb (i + 1) os (viewAddTxOut v (id, i) o cb h)

def findTx (id : Nat) : List (Tx × Bool) → Option (Tx × Bool)
  | [] => none
  | t :: ts => if t.1.id = id then some t else findTx id ts

/-- One input in `findInputsToFetch`: in-flight origin ⇒ add the origin's outputs to the view;
already a key of the view ⇒ nothing; else request it. -/
def findInput (h : Nat) (earlier : List (Tx × Bool)) (acc : View × List OutPoint) (o : OutPoint) :
    View × List OutPoint :=
  match findTx o.1 earlier with
  | some (t, cb) => (viewAddTxOuts t.id h cb 0 t.outs acc.1, acc.2)
  | none => match acc.1.get o with
    | some _ => acc
    | none => (acc.1, acc.2 ++ [o])

def findInputs (h : Nat) : List (Tx × Bool) → List Tx → View × List OutPoint → View × List OutPoint
  | _, [], acc => acc
  | earlier, t :: ts, acc => findInputs h (earlier ++ [(t, false)]) ts (t.ins.foldl (findInput h earlier) acc)

/-- `fetchUtxosFromCache`: fetch through the cache and put clones into the view. -/
def viewFetch (c : Cache) (db : Db) : List OutPoint → View → Cache × View
  | [], v => (c, v)
  | o :: os, v =>
    let r := fetch c db o
    viewFetch r.1 db os (setSlot v o (some r.2))

/-- Body of the outputs loop of `disconnectTransactions`. -/
def viewUnOut (v : View) (o : OutPoint) (e : Entry) : View :=
  match v.get o with
  | some (some ce) => setSlot v o (some (some ce.spend))
  | _ => setSlot v o (some (some ⟨e, true, true, false⟩))

def viewUnOuts (id h : Nat) (cb : Bool) : Nat → List Out → View → View
  | _, [], v => v
  | i, o :: os, v =>
    viewUnOuts id h cb (i + 1) os
      (if unspendable o.script then v else viewUnOut v (id, i) ⟨o.amount, o.script, h, cb⟩)

/-- Body of the inputs loop of `disconnectTransactions`: restore from the stxo. -/
def viewRestore (v : View) (o : OutPoint) (stxo : Entry) : View :=
  setSlot v o (some (some ⟨stxo, false, true, false⟩))

/-- Inputs in reverse order, consuming the reversed journal from its head. -/
def viewRestoreIns : List OutPoint → List Entry → View → Option (View × List Entry)
  | [], j, v => some (v, j)
  | _ :: _, [], _ => none
  | o :: os, e :: j, v => viewRestoreIns os j (viewRestore v o e)

/-- One transaction of `disconnectTransactions`. -/
def viewUnTx (h : Nat) (cb : Bool) (t : Tx) (jrev : List Entry) (v : View) : Option (View × List Entry) :=
  let v1 := viewUnOuts t.id h cb 0 t.outs v
  if cb then some (v1, jrev) else viewRestoreIns t.ins.reverse jrev v1

/-- Non-coinbase transactions, last first. -/
def viewUnTxs (h : Nat) : List Tx → List Entry → View → Option (View × List Entry)
  | [], j, v => some (v, j)
  | t :: ts, j, v =>
    match viewUnTx h false t j v with
    | none => none
    | some (v1, j1) => viewUnTxs h ts j1 v1

def countIns (b : Block) : Nat := (b.txs.map (fun t => t.ins.length)).sum

/-- `UtxoViewpoint.disconnectTransactions`; `none` = AssertError (bad journal). Heights are
≥ 1, so the legacy (height 0) stxo branch never runs. -/
def disconnectTransactions (h : Nat) (b : Block) (stxos : List Entry) (v : View) : Option View :=
  if stxos.length ≠ countIns b then none else
  match viewUnTxs h b.txs.reverse stxos.reverse v with
  | none => none
  | some (v1, _) => some (viewUnOuts b.cb.id h true 0 b.cb.outs v1)

/-- `dbPutUtxoView` for one slot. -/
def slotPut (s : Slot) (d : Option Entry) : Option Entry :=
  match s with
  | some (some ce) => if ce.modified then ce.val else d
  | _ => d

/-- `dbPutUtxoView`. -/
def putView (v : View) (db : Db) : Db := fun o => slotPut (v.get o) (db o)

/-- `UtxoViewpoint.commit` (the flag is toggled with XOR, as in the code). -/
def commitView (v : View) : View := ⟨fun o =>
  match v.get o with
  | some (some ce) =>
    if ce.modified && ce.spent then none else some (some { ce with modified := !ce.modified })
  | _ => none⟩

/-- One iteration of the detach loop of `reorganizeChain`: load inputs into the view through
the cache, `disconnectTransactions`, then `disconnectBlock` (flush(FlushRequired) to the
parent, `dbPutUtxoView`, journal removal, `view.commit`). -/
def detachOne (s : State) (v : View) : Option (State × View) :=
  match s.chainRev with
  | [] => none
  | b :: rest =>
    match s.journal b.id with
    | none => none
    | some stxos =>
      let h := rest.length + 1
      let fi := findInputs h [(b.cb, true)] b.txs (v, [])
      let cv := viewFetch s.cache s.db fi.2 fi.1
      match disconnectTransactions h b stxos cv.2 with
      | none => none
      | some v1 =>
        let db1 := writeCache cv.1 s.db
        some ({ cache := emptyCache, db := putView v1 db1, journal := setJournal s.journal b.id none,
                chainRev := rest, lastFlush := tipId rest, marker := tipId rest,
                totalTxns := s.totalTxns - (1 + b.txs.length) },
              commitView v1)

/-- `n` detaches sharing one view. -/
def detachMany : Nat → State → View → Option (State × View)
  | 0, s, v => some (s, v)
  | n + 1, s, v =>
    match detachOne s v with
    | none => none
    | some (s1, v1) => detachMany n s1 v1

/-! ### unclean shutdown and `InitConsistentState` -/

/-- Blocks above the persisted consistency marker (tip first) and the chain at the marker. -/
def splitAtMarker (chainRev : List Block) (marker : Nat) : List Block × List Block :=
  (chainRev.takeWhile (fun b => b.id != marker), chainRev.dropWhile (fun b => b.id != marker))

/-- One iteration of the replay loop of `InitConsistentState`: `connectTransactions` on the
cache (no stxos, no journal write), then `flush(FlushIfNeeded)` with the state of the block
just replayed. -/
def replayOne (s : State) (b : Block) (full : Bool) : Option State :=
  match connectTransactions s.db (s.chainRev.length + 1) s.cache b with
  | none => none
  | some (c1, _) =>
    some (flushAt { s with cache := c1, chainRev := b :: s.chainRev } b.id .ifNeeded full false)

/-- Replay blocks (oldest first); `fulls` gives the memory-threshold outcome per block. -/
def replay : State → List Block → List Bool → Option State
  | s, [], _ => some s
  | s, b :: bs, fs =>
    match replayOne s b (fs.headD false) with
    | none => none
    | some s1 => replay s1 bs fs.tail

/-- What a new process finds after an unclean shutdown: the cache is gone, the bucket is at
the marker; returns the state at the marker and the blocks to replay (oldest first). -/
def crashed (s : State) : State × List Block :=
  let sp := splitAtMarker s.chainRev s.marker
  ({ s with cache := emptyCache, chainRev := sp.2, lastFlush := s.marker }, sp.1.reverse)

/-- `InitConsistentState` after an unclean shutdown, running to completion. -/
def restart (s : State) (fulls : List Bool) : Option State :=
  replay (crashed s).1 (crashed s).2 fulls

/-- `InitConsistentState` interrupted after `n` replayed blocks (or the process dying there):
only the persistent fields matter afterwards; the best chain is unchanged. -/
def restartAborted (s : State) (n : Nat) (fulls : List Bool) : Option State :=
  match replay (crashed s).1 ((crashed s).2.take n) fulls with
  | none => none
  | some s1 => some { s1 with cache := emptyCache, chainRev := s.chainRev }

def restartsAborted : State → List (Nat × List Bool) → Option State
  | s, [] => some s
  | s, a :: as =>
    match restartAborted s a.1 a.2 with
    | none => none
    | some s1 => restartsAborted s1 as

inductive Op
  /-- unclean shutdown, any number of interrupted start-ups (each after `n` replayed blocks),
  then a start-up that completes; every replayed block carries its threshold outcome -/
  | restart (aborts : List (Nat × List Bool)) (fulls : List Bool)
  /-- main-chain extension with validation fetches -/
  | connect (b : Block) (bip30 full : Bool)
  /-- attach during a reorganisation (no validation fetches on this path) -/
  | attach (b : Block) (full : Bool)
  /-- detach `n` blocks with one shared view -/
  | detach (n : Nat)
  | flush (mode : Mode) (full due : Bool)
  /-- `FetchUtxoEntry` -/
  | fetch (o : OutPoint)

/-- One step; `none` = the code returns an AssertError / corrupt-journal error. -/
def step (s : State) : Op → Option State
  | .restart aborts fulls =>
    match restartsAborted s aborts with
    | none => none
    | some s1 => restart s1 fulls
  | .connect b bip30 full => connect s b true bip30 full
  | .attach b full => connect s b false false full
  | .detach n => (detachMany n s emptyView).map (·.1)
  | .flush mode full due => some (flush s mode full due)
  | .fetch o => some { s with cache := (fetch s.cache s.db o).1 }

def run : State → List Op → Option State
  | s, [] => some s
  | s, op :: ops => match step s op with
    | none => none
    | some s1 => run s1 ops

end BV.C03
