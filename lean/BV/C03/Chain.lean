/- C03 helper lemmas: the chain-level invariant and its preservation by connect / flush / fetch. -/
import BV.C03.Lemmas
namespace BV.C03.Lemmas
open BV.C03 BV.C03.Spec

/-- The Spec fold written for a tip-first chain. -/
def utxoRev : List Block → UtxoSet
  | [] => empty
  | b :: rest => applyBlock (utxoRev rest) (rest.length + 1) b

theorem utxoFrom_append (u : UtxoSet) (h : Nat) (bs : List Block) (b : Block) :
    utxoFrom u h (bs ++ [b]) = applyBlock (utxoFrom u h bs) (h + bs.length) b := by
  induction bs generalizing u h with
  | nil => rfl
  | cons x xs ih =>
    simp only [List.cons_append, utxoFrom, List.length_cons]
    rw [ih]
    congr 1
    omega

theorem utxoOf_reverse (rev : List Block) : utxoOf rev.reverse = utxoRev rev := by
  induction rev with
  | nil => rfl
  | cons b rest ih =>
    unfold utxoOf at ih ⊢
    rw [List.reverse_cons, utxoFrom_append, ih, List.length_reverse]
    simp only [utxoRev]
    congr 1
    omega

/-- Every block of the (tip-first) chain was valid on top of its predecessors. -/
def ChainValid : List Block → Prop
  | [] => True
  | b :: rest => validBlock (utxoRev rest) (rest.length + 1) b ∧ ChainValid rest

/-- The journal bucket holds, for every active block, exactly what the block spent. -/
def JournalOk (j : Nat → Option (List Entry)) : List Block → Prop
  | [] => True
  | b :: rest => j b.id = some (journalOf (utxoRev rest) (rest.length + 1) b) ∧ JournalOk j rest

/-- The persisted bucket is the fold of the active chain up to the persisted consistency
marker (which names an active block, or genesis = 0). -/
def MarkerOk (db : Db) (marker : Nat) (chainRev : List Block) : Prop :=
  ∃ above below, chainRev = above ++ below ∧ tipId below = marker ∧ db = utxoRev below

/-- What survives an unclean shutdown: the persistent part of the invariant. -/
structure PInv (s : State) : Prop where
  persist : MarkerOk s.db s.marker s.chainRev
  journal : JournalOk s.journal s.chainRev
  valid : ChainValid s.chainRev
  nodup : (s.chainRev.map (·.id)).Nodup
  nonzero : ∀ b ∈ s.chainRev, b.id ≠ 0

/-- The inductive invariant of the chain-level state machine. -/
structure Inv (s : State) : Prop where
  cinv : CInv s.cache s.db
  abs_eq : abs s.cache s.db = utxoRev s.chainRev
  journal : JournalOk s.journal s.chainRev
  valid : ChainValid s.chainRev
  nodup : (s.chainRev.map (·.id)).Nodup
  persist : MarkerOk s.db s.marker s.chainRev
  nonzero : ∀ b ∈ s.chainRev, b.id ≠ 0

theorem Inv.pinv {s : State} (h : Inv s) : PInv s := ⟨h.persist, h.journal, h.valid, h.nodup, h.nonzero⟩

/-- `BestState.TotalTxns` is the transaction count of the active chain (genesis included). -/
def TT (s : State) : Prop := s.totalTxns = totalTxns s.chainRev.reverse

theorem totalTxns_cons (b : Block) (c : List Block) :
    totalTxns (b :: c).reverse = totalTxns c.reverse + (1 + b.txs.length) := by
  simp [totalTxns]; omega

theorem tt_init : TT init := rfl

theorem inv_init : Inv init :=
  ⟨cinv_empty _, rfl, trivial, trivial, List.nodup_nil, ⟨[], [], rfl, rfl, rfl⟩, fun _ h => by simp [init] at h⟩

theorem journalOk_set (j : Nat → Option (List Entry)) (id : Nat) (v : Option (List Entry))
    (chain : List Block) (hid : id ∉ chain.map (·.id)) (h : JournalOk j chain) :
    JournalOk (setJournal j id v) chain := by
  induction chain with
  | nil => trivial
  | cons b rest ih =>
    simp only [List.map_cons, List.mem_cons, not_or] at hid
    refine ⟨?_, ih hid.2 h.2⟩
    have : b.id ≠ id := fun e => hid.1 e.symm
    simp [setJournal, this, h.1]

/-! ### flush -/

theorem flushAt_inv (s : State) (tip : Nat) (mode : Mode) (full due : Bool) (h : Inv s)
    (htip : tip = tipId s.chainRev) :
    Inv (flushAt s tip mode full due) ∧ (flushAt s tip mode full due).chainRev = s.chainRev ∧
    (flushAt s tip mode full due).journal = s.journal := by
  unfold flushAt
  split
  · have hdb : writeCache s.cache s.db = utxoRev s.chainRev := by
      rw [writeCache_eq_abs _ _ h.cinv]; exact h.abs_eq
    refine ⟨⟨cinv_empty _, ?_, h.journal, h.valid, h.nodup, ⟨[], s.chainRev, rfl, htip.symm, hdb⟩, h.nonzero⟩, rfl, rfl⟩
    show abs emptyCache (writeCache s.cache s.db) = _
    rw [abs_empty, hdb]
  · exact ⟨h, by trivial, by trivial⟩

theorem flushAt_totalTxns (s : State) (tip : Nat) (mode : Mode) (full due : Bool) :
    (flushAt s tip mode full due).totalTxns = s.totalTxns := by
  unfold flushAt; split <;> rfl

/-- After a flush that happens, the bucket alone is the fold, the cache is empty and the
consistency marker names the tip. -/
theorem flushAt_required (s : State) (tip : Nat) (full due : Bool) (h : Inv s) :
    (flushAt s tip .required full due).db = utxoRev s.chainRev ∧
    (flushAt s tip .required full due).cache = emptyCache ∧
    (flushAt s tip .required full due).marker = tip := by
  unfold flushAt
  simp only [flushNow, if_true]
  refine ⟨?_, by trivial, by trivial⟩
  show writeCache s.cache s.db = _
  rw [writeCache_eq_abs _ _ h.cinv]; exact h.abs_eq

/-! ### fetch -/

theorem fetch_inv (s : State) (o : OutPoint) (h : Inv s) :
    Inv { s with cache := (fetch s.cache s.db o).1 } := by
  have hf := fetch_spec s.cache s.db o h.cinv
  exact ⟨hf.1, (funext hf.2.1).trans h.abs_eq, h.journal, h.valid, h.nodup, h.persist, h.nonzero⟩

/-- `FetchUtxoEntry` returns the fold's value (nil or spent = absent). -/
theorem fetch_result (s : State) (o : OutPoint) (h : Inv s) :
    rval (fetch s.cache s.db o).2 = utxoRev s.chainRev o := by
  rw [(fetch_spec s.cache s.db o h.cinv).2.2.2, h.abs_eq]

/-! ### connect -/

theorem connect_inv (s : State) (b : Block) (validate bip30 full : Bool) (h : Inv s)
    (hv : validBlock (utxoRev s.chainRev) (s.chainRev.length + 1) b)
    (hid : b.id ∉ s.chainRev.map (·.id)) (hnz : b.id ≠ 0) :
    ∃ s', connect s b validate bip30 full = some s' ∧ Inv s' ∧ s'.chainRev = b :: s.chainRev ∧
      s'.totalTxns = s.totalTxns + (1 + b.txs.length) := by
  unfold connect
  -- validation fetches keep everything
  have hc0 : CInv (if validate = true then fetchMany s.cache s.db (validationFetches bip30 b) else s.cache) s.db ∧
      abs (if validate = true then fetchMany s.cache s.db (validationFetches bip30 b) else s.cache) s.db
        = utxoRev s.chainRev := by
    split
    · have := fetchMany_spec s.db (validationFetches bip30 b) s.cache h.cinv
      exact ⟨this.1, (funext this.2).trans h.abs_eq⟩
    · exact ⟨h.cinv, h.abs_eq⟩
  generalize (if validate = true then fetchMany s.cache s.db (validationFetches bip30 b) else s.cache) = c0 at hc0
  obtain ⟨hc0i, hc0a⟩ := hc0
  rw [← hc0a] at hv
  obtain ⟨c1, hct, hc1, habs1⟩ := connectTransactions_spec s.db (s.chainRev.length + 1) c0 b hc0i hv
  simp only [hct]
  let s1 : State := { s with cache := c1, journal := setJournal s.journal b.id (some (journalOf (abs c0 s.db) (s.chainRev.length + 1) b)),
                             chainRev := b :: s.chainRev, totalTxns := s.totalTxns + (1 + b.txs.length) }
  have hs1 : Inv s1 := by
    obtain ⟨above, below, hsplit, hmk, hdb⟩ := h.persist
    refine ⟨hc1, ?_, ⟨?_, ?_⟩, ⟨?_, h.valid⟩, ?_, ⟨b :: above, below, ?_, hmk, hdb⟩, ?_⟩
    · show abs c1 s.db = applyBlock (utxoRev s.chainRev) (s.chainRev.length + 1) b
      rw [habs1, hc0a]
    · show setJournal s.journal b.id _ b.id = _
      simp [setJournal, hc0a]
    · exact journalOk_set _ _ _ _ hid h.journal
    · rw [← hc0a]; exact hv
    · show (b.id :: s.chainRev.map (·.id)).Nodup
      exact List.nodup_cons.mpr ⟨hid, h.nodup⟩
    · show b :: s.chainRev = b :: above ++ below
      rw [hsplit]; rfl
    · intro x hx
      have : x = b ∨ x ∈ s.chainRev := List.mem_cons.mp hx
      rcases this with rfl | hx
      · exact hnz
      · exact h.nonzero x hx
  have hfl := flushAt_inv s1 b.id .ifNeeded full false hs1 rfl
  exact ⟨_, rfl, hfl.1, hfl.2.1, flushAt_totalTxns _ _ _ _ _⟩

end BV.C03.Lemmas
