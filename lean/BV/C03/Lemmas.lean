/- C03 helper lemmas. -/
import BV.C03.Model
namespace BV.C03.Lemmas
open BV.C03 BV.C03.Spec

end BV.C03.Lemmas
