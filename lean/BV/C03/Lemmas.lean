/- C03 helper lemmas: the cache invariant and its preservation by the cache primitives. -/
import BV.C03.Model
namespace BV.C03.Lemmas
open BV.C03 BV.C03.Spec

/-! ### basic facts -/

theorem get_setSlot (c : SlotMap) (o : OutPoint) (s : Slot) (p : OutPoint) :
    (setSlot c o s).get p = if p = o then s else c.get p := rfl

theorem get_setSlot_same (c : SlotMap) (o : OutPoint) (s : Slot) : (setSlot c o s).get o = s := by
  simp [get_setSlot]

theorem get_setSlot_ne (c : SlotMap) (o : OutPoint) (s : Slot) (p : OutPoint) (h : p ≠ o) :
    (setSlot c o s).get p = c.get p := by
  simp [get_setSlot, h]

theorem abs_setSlot (c : Cache) (db : Db) (o : OutPoint) (s : Slot) (p : OutPoint) :
    abs (setSlot c o s) db p = if p = o then slotAbs s (db o) else abs c db p := by
  unfold abs
  by_cases h : p = o
  · subst h; simp [get_setSlot]
  · simp [get_setSlot, h]

/-- The cache invariant relative to the database:
fresh entries and nil markers have no database row; unmodified entries equal their row
(and are unspent: `Spend` always sets modified). -/
structure CInv (c : Cache) (db : Db) : Prop where
  fresh : ∀ o ce, c.get o = some (some ce) → ce.fresh = true → db o = none
  nil : ∀ o, c.get o = some none → db o = none
  clean : ∀ o ce, c.get o = some (some ce) → ce.modified = false → db o = some ce.e ∧ ce.spent = false

theorem cinv_empty (db : Db) : CInv emptyCache db :=
  ⟨fun _ _ h => by simp [emptyCache] at h, fun _ h => by simp [emptyCache] at h,
   fun _ _ h => by simp [emptyCache] at h⟩

/-- Setting one slot keeps the invariant when the new slot satisfies it. -/
theorem cinv_setSlot {c : Cache} {db : Db} (h : CInv c db) (o : OutPoint) (s : Slot)
    (hf : ∀ ce, s = some (some ce) → ce.fresh = true → db o = none)
    (hn : s = some none → db o = none)
    (hc : ∀ ce, s = some (some ce) → ce.modified = false → db o = some ce.e ∧ ce.spent = false) :
    CInv (setSlot c o s) db := by
  refine ⟨?_, ?_, ?_⟩
  · intro p ce hp hfr
    by_cases hpo : p = o
    · subst hpo; rw [get_setSlot_same] at hp; exact hf ce hp hfr
    · rw [get_setSlot_ne _ _ _ _ hpo] at hp; exact h.fresh p ce hp hfr
  · intro p hp
    by_cases hpo : p = o
    · subst hpo; rw [get_setSlot_same] at hp; exact hn hp
    · rw [get_setSlot_ne _ _ _ _ hpo] at hp; exact h.nil p hp
  · intro p ce hp hm
    by_cases hpo : p = o
    · subst hpo; rw [get_setSlot_same] at hp; exact hc ce hp hm
    · rw [get_setSlot_ne _ _ _ _ hpo] at hp; exact h.clean p ce hp hm

/-! ### fetch -/

/-- Value seen in a fetch result. -/
def rval : Option CEntry → Option Entry
  | none => none
  | some ce => ce.val

theorem fetch_spec (c : Cache) (db : Db) (o : OutPoint) (h : CInv c db) :
    CInv (fetch c db o).1 db ∧ (∀ p, abs (fetch c db o).1 db p = abs c db p) ∧
    (fetch c db o).1.get o = some (fetch c db o).2 ∧ rval (fetch c db o).2 = abs c db o := by
  unfold fetch
  cases hc : c.get o with
  | some r =>
    refine ⟨h, fun _ => rfl, hc, ?_⟩
    simp only [abs, hc]
    cases r <;> rfl
  | none =>
    simp only []
    cases hd : db o with
    | none =>
      refine ⟨?_, ?_, ?_, ?_⟩
      · apply cinv_setSlot h
        · intro ce hce; simp at hce
        · intro _; exact hd
        · intro ce hce; simp at hce
      · intro p; rw [abs_setSlot]
        by_cases hp : p = o
        · subst hp; simp [abs, hc, hd, slotAbs]
        · simp [hp]
      · simp [get_setSlot]
      · simp [rval, abs, hc, hd, slotAbs]
    | some e =>
      refine ⟨?_, ?_, ?_, ?_⟩
      · apply cinv_setSlot h
        · intro ce hce hf
          simp [loaded] at hce; subst hce; simp at hf
        · intro hn; simp at hn
        · intro ce hce _
          simp [loaded] at hce; subst hce; simp [hd]
      · intro p; rw [abs_setSlot]
        by_cases hp : p = o
        · subst hp; simp [abs, hc, hd, slotAbs, loaded, CEntry.val]
        · simp [hp]
      · simp [get_setSlot]
      · simp [rval, abs, hc, hd, slotAbs, loaded, CEntry.val]

theorem fetchMany_spec (db : Db) (os : List OutPoint) :
    ∀ (c : Cache), CInv c db → CInv (fetchMany c db os) db ∧ ∀ p, abs (fetchMany c db os) db p = abs c db p := by
  induction os with
  | nil => intro c h; exact ⟨h, fun _ => rfl⟩
  | cons o os ih =>
    intro c h
    have h1 := fetch_spec c db o h
    have h2 := ih (fetch c db o).1 h1.1
    exact ⟨h2.1, fun p => (h2.2 p).trans (h1.2.1 p)⟩

/-! ### addTxOut (fixed rule) -/

theorem addTxOut_spec (c : Cache) (db : Db) (id i : Nat) (out : Out) (cb : Bool) (ht : Nat)
    (h : CInv c db) (hnew : c.get (id, i) = none → db (id, i) = none) :
    CInv (addTxOut c (id, i) out cb ht) db ∧
    ∀ p, abs (addTxOut c (id, i) out cb ht) db p = addOut id ht cb i out (abs c db) p := by
  unfold addTxOut addOut
  by_cases hu : unspendable out.script = true
  · rw [if_pos hu, if_pos hu]; exact ⟨h, fun _ => rfl⟩
  · rw [if_neg hu, if_neg hu]
    refine ⟨?_, ?_⟩
    · apply cinv_setSlot h
      · intro ce hce hf
        simp at hce; subst hce
        simp only [] at hf
        cases hc : c.get (id, i) with
        | none => exact hnew hc
        | some r =>
          cases r with
          | none => exact h.nil _ hc
          | some old =>
            rw [hc] at hf; simp only [] at hf
            exact h.fresh _ old hc hf
      · intro hn; simp at hn
      · intro ce hce hm
        simp at hce; subst hce; simp at hm
    · intro p
      rw [abs_setSlot]
      by_cases hp : p = (id, i)
      · subst hp; simp [slotAbs, CEntry.val, add]
      · simp [hp, add]

/-! ### addTxIn -/

theorem addTxIn_spec (c : Cache) (db : Db) (o : OutPoint) (e : Entry) (h : CInv c db)
    (hex : abs c db o = some e) :
    ∃ c', addTxIn c db o = some (c', e) ∧ CInv c' db ∧ ∀ p, abs c' db p = spend (abs c db) o p := by
  have hf := fetch_spec c db o h
  unfold addTxIn
  cases hr : fetch c db o with
  | mk c1 r =>
    rw [hr] at hf
    simp only [] at hf
    obtain ⟨hc1, habs, hget, hval⟩ := hf
    cases r with
    | none => rw [hex] at hval; simp [rval] at hval
    | some ce =>
      simp only []
      rw [hex] at hval
      simp only [rval, CEntry.val] at hval
      have hsp : ce.spent = false := by
        cases hs : ce.spent
        · rfl
        · rw [hs] at hval; simp at hval
      have hee : ce.e = e := by rw [hsp] at hval; simpa using hval
      have hspend : ce.spend = { ce with spent := true, modified := true } := by
        simp [CEntry.spend, hsp]
      by_cases hfr : ce.fresh = true
      · have : ce.spend.fresh = true := by rw [hspend]; exact hfr
        simp only [this, if_true]
        refine ⟨setSlot c1 o none, by rw [hee], ?_, ?_⟩
        · apply cinv_setSlot hc1
          · intro ce' hce'; simp at hce'
          · intro hn; simp at hn
          · intro ce' hce'; simp at hce'
        · intro p
          rw [abs_setSlot]
          by_cases hp : p = o
          · subst hp
            simp [slotAbs, spend, hc1.fresh _ ce hget hfr]
          · simp [hp, spend, habs p]
      · have : ce.spend.fresh = false := by rw [hspend]; simpa using hfr
        simp only [this]
        refine ⟨setSlot c1 o (some (some ce.spend)), by simp [hee], ?_, ?_⟩
        · apply cinv_setSlot hc1
          · intro ce' hce' hf'
            simp at hce'; subst hce'; rw [this] at hf'; simp at hf'
          · intro hn; simp at hn
          · intro ce' hce' hm
            simp at hce'; subst hce'; rw [hspend] at hm; simp at hm
        · intro p
          rw [abs_setSlot]
          by_cases hp : p = o
          · subst hp
            simp [slotAbs, spend, hspend, CEntry.val]
          · simp [hp, spend, habs p]


/-! ### lists of inputs / outputs, transactions, blocks -/

theorem abs_none_db {c : Cache} {db : Db} {o : OutPoint} (h : abs c db o = none) (hc : c.get o = none) :
    db o = none := by
  simpa [abs, hc, slotAbs] using h

theorem addOut_other (id h : Nat) (cb : Bool) (i : Nat) (o : Out) (u : UtxoSet) (p : OutPoint)
    (hp : p ≠ (id, i)) : addOut id h cb i o u p = u p := by
  unfold addOut
  split
  · rfl
  · simp [add, hp]

theorem addTxOuts_spec (db : Db) (id ht : Nat) (cb : Bool) (outs : List Out) :
    ∀ (i : Nat) (c : Cache), CInv c db →
      (∀ k, i ≤ k → k < i + outs.length → abs c db (id, k) = none) →
      CInv (addTxOuts id ht cb i outs c) db ∧
      abs (addTxOuts id ht cb i outs c) db = addOuts id ht cb i outs (abs c db) := by
  induction outs with
  | nil => intro i c h _; exact ⟨h, rfl⟩
  | cons o os ih =>
    intro i c h hnew
    have h1 := addTxOut_spec c db id i o cb ht h
      (fun hc => abs_none_db (hnew i (Nat.le_refl _) (by simp)) hc)
    have habs : abs (addTxOut c (id, i) o cb ht) db = addOut id ht cb i o (abs c db) := funext h1.2
    have h2 := ih (i + 1) (addTxOut c (id, i) o cb ht) h1.1 (by
      intro k hk1 hk2
      rw [habs, addOut_other]
      · exact hnew k (by omega) (by simp; omega)
      · intro heq; injection heq with _ h2; omega)
    refine ⟨h2.1, ?_⟩
    show abs (addTxOuts id ht cb (i + 1) os (addTxOut c (id, i) o cb ht)) db = _
    rw [h2.2, habs]; rfl

theorem addTxIns_spec (db : Db) (ins : List OutPoint) :
    ∀ (c : Cache), CInv c db → validIns (abs c db) ins →
      ∃ c', addTxIns db ins c = some (c', journalIns (abs c db) ins) ∧ CInv c' db ∧
        abs c' db = spendAll (abs c db) ins := by
  induction ins with
  | nil => intro c h _; exact ⟨c, rfl, h, rfl⟩
  | cons o os ih =>
    intro c h hv
    obtain ⟨hsome, hrest⟩ := hv
    cases hex : abs c db o with
    | none => rw [hex] at hsome; simp at hsome
    | some e =>
      obtain ⟨c1, hin, hc1, habs1⟩ := addTxIn_spec c db o e h hex
      have habs1' : abs c1 db = spend (abs c db) o := funext habs1
      rw [← habs1'] at hrest
      obtain ⟨c2, hins, hc2, habs2⟩ := ih c1 hc1 hrest
      refine ⟨c2, ?_, hc2, ?_⟩
      · simp only [addTxIns, hin, hins, journalIns, hex, habs1']
        rfl
      · rw [habs2, habs1']; rfl

theorem connectTx_spec (db : Db) (ht : Nat) (cb : Bool) (c : Cache) (tx : Tx) (h : CInv c db)
    (hv : validTx cb (abs c db) tx) :
    ∃ c', connectTx db ht cb c tx = some (c', if cb then [] else journalIns (abs c db) tx.ins) ∧
      CInv c' db ∧ abs c' db = applyTx ht cb (abs c db) tx := by
  obtain ⟨hins, hnew⟩ := hv
  unfold connectTx applyTx
  cases cb with
  | true =>
    simp only [if_true] at hnew ⊢
    have := addTxOuts_spec db tx.id ht true tx.outs 0 c h (by
      intro k _ hk; exact hnew k (by simpa using hk))
    exact ⟨_, rfl, this.1, this.2⟩
  | false =>
    simp only [Bool.false_eq_true, if_false, false_or] at hnew hins ⊢
    obtain ⟨c1, hi, hc1, habs1⟩ := addTxIns_spec db tx.ins c h hins
    rw [hi]
    simp only []
    rw [← habs1] at hnew
    have := addTxOuts_spec db tx.id ht false tx.outs 0 c1 hc1 (by
      intro k _ hk; exact hnew k (by simpa using hk))
    refine ⟨_, rfl, this.1, ?_⟩
    rw [this.2, habs1]

theorem connectTxs_spec (db : Db) (ht : Nat) (txs : List Tx) :
    ∀ (c : Cache), CInv c db → validTxs ht (abs c db) txs →
      ∃ c', connectTxs db ht txs c = some (c', journalTxs ht (abs c db) txs) ∧ CInv c' db ∧
        abs c' db = applyTxs ht (abs c db) txs := by
  induction txs with
  | nil => intro c h _; exact ⟨c, rfl, h, rfl⟩
  | cons t ts ih =>
    intro c h hv
    obtain ⟨hvt, hvts⟩ := hv
    obtain ⟨c1, h1, hc1, habs1⟩ := connectTx_spec db ht false c t h hvt
    rw [← habs1] at hvts
    obtain ⟨c2, h2, hc2, habs2⟩ := ih c1 hc1 hvts
    refine ⟨c2, ?_, hc2, ?_⟩
    · simp only [connectTxs, h1, h2, journalTxs, habs1]
      simp
    · rw [habs2, habs1]; rfl

theorem connectTransactions_spec (db : Db) (ht : Nat) (c : Cache) (b : Block) (h : CInv c db)
    (hv : validBlock (abs c db) ht b) :
    ∃ c', connectTransactions db ht c b = some (c', journalOf (abs c db) ht b) ∧ CInv c' db ∧
      abs c' db = applyBlock (abs c db) ht b := by
  obtain ⟨hcb, htxs⟩ := hv
  obtain ⟨c1, h1, hc1, habs1⟩ := connectTx_spec db ht true c b.cb h hcb
  rw [← habs1] at htxs
  obtain ⟨c2, h2, hc2, habs2⟩ := connectTxs_spec db ht b.txs c1 hc1 htxs
  refine ⟨c2, ?_, hc2, ?_⟩
  · simp only [connectTransactions, h1, h2, journalOf, habs1]
  · rw [habs2, habs1]; rfl

/-! ### writeCache -/

theorem writeCache_eq_abs (c : Cache) (db : Db) (h : CInv c db) : writeCache c db = abs c db := by
  funext o
  unfold writeCache abs
  cases hc : c.get o with
  | none => rfl
  | some r =>
    cases r with
    | none => rfl
    | some ce =>
      simp only [slotWrite, slotAbs, CEntry.val]
      cases hs : ce.spent
      · cases hm : ce.modified
        · simp [(h.clean o ce hc hm).1]
        · simp
      · simp

theorem abs_empty (db : Db) : abs emptyCache db = db := rfl

end BV.C03.Lemmas
