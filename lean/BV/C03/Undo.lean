/- C03 helper lemmas: undoing a block at Spec level (the mirror image of
`disconnectTransactions`), and `undo ∘ apply = id` for valid blocks. -/
import BV.C03.Chain
namespace BV.C03.Lemmas
open BV.C03 BV.C03.Spec

/-- Outpoints of the spendable outputs of a transaction, from index `i`. -/
def spOuts (id : Nat) : Nat → List Out → List OutPoint
  | _, [] => []
  | i, o :: os => (if unspendable o.script then [] else [(id, i)]) ++ spOuts id (i + 1) os

def unOuts (id : Nat) : Nat → List Out → UtxoSet → UtxoSet
  | _, [], w => w
  | i, o :: os, w => unOuts id (i + 1) os (if unspendable o.script then w else spend w (id, i))

def restoreIns : List OutPoint → List Entry → UtxoSet → Option (UtxoSet × List Entry)
  | [], j, w => some (w, j)
  | _ :: _, [], _ => none
  | o :: os, e :: j, w => restoreIns os j (add w o e)

def unTx (cb : Bool) (t : Tx) (jrev : List Entry) (w : UtxoSet) : Option (UtxoSet × List Entry) :=
  if cb then some (unOuts t.id 0 t.outs w, jrev) else restoreIns t.ins.reverse jrev (unOuts t.id 0 t.outs w)

def unTxs : List Tx → List Entry → UtxoSet → Option (UtxoSet × List Entry)
  | [], j, w => some (w, j)
  | t :: ts, j, w =>
    match unTx false t j w with
    | none => none
    | some (w1, j1) => unTxs ts j1 w1

/-- Spec-level undo of block `b` with its journal. -/
def undoBlock (b : Block) (stxos : List Entry) (w : UtxoSet) : Option UtxoSet :=
  match unTxs b.txs.reverse stxos.reverse w with
  | none => none
  | some (w1, _) => some (unOuts b.cb.id 0 b.cb.outs w1)

/-! ### pointwise characterisations -/

theorem mem_spOuts_fst {id : Nat} {outs : List Out} : ∀ {i : Nat} {p : OutPoint},
    p ∈ spOuts id i outs → p.1 = id ∧ i ≤ p.2 ∧ p.2 < i + outs.length := by
  induction outs with
  | nil => intro i p h; simp [spOuts] at h
  | cons o os ih =>
    intro i p h
    simp only [spOuts, List.mem_append] at h
    rcases h with h | h
    · split at h
      · simp at h
      · simp at h; subst h; simp
    · have := ih h
      simp only [List.length_cons]
      omega

theorem unOuts_apply (id : Nat) (outs : List Out) : ∀ (i : Nat) (w : UtxoSet) (p : OutPoint),
    unOuts id i outs w p = if p ∈ spOuts id i outs then none else w p := by
  induction outs with
  | nil => intro i w p; simp [unOuts, spOuts]
  | cons o os ih =>
    intro i w p
    simp only [unOuts, spOuts, List.mem_append]
    rw [ih]
    by_cases hu : unspendable o.script = true
    · simp [hu]
    · rw [if_neg hu, if_neg hu]
      by_cases h2 : p ∈ spOuts id (i + 1) os
      · simp [h2]
      · simp only [h2, if_false, or_false, List.mem_singleton]
        simp [spend]

theorem addOuts_notin (id ht : Nat) (cb : Bool) (outs : List Out) : ∀ (i : Nat) (x : UtxoSet) (p : OutPoint),
    p ∉ spOuts id i outs → addOuts id ht cb i outs x p = x p := by
  induction outs with
  | nil => intro i x p _; rfl
  | cons o os ih =>
    intro i x p hp
    simp only [spOuts, List.mem_append, not_or] at hp
    simp only [addOuts]
    rw [ih _ _ _ hp.2]
    unfold addOut
    by_cases hu : unspendable o.script = true
    · simp [hu]
    · rw [if_neg hu] at hp ⊢
      simp only [List.mem_singleton] at hp
      simp [add, hp.1]

/-- Removing the outputs a transaction just added gives back the set it was added to. -/
theorem unOuts_addOuts (id ht : Nat) (cb : Bool) (outs : List Out) (x : UtxoSet)
    (hnew : newOuts id outs.length x) : unOuts id 0 outs (addOuts id ht cb 0 outs x) = x := by
  funext p
  rw [unOuts_apply]
  by_cases hp : p ∈ spOuts id 0 outs
  · simp only [hp, if_true]
    have := mem_spOuts_fst hp
    have hpe : p = (id, p.2) := by rw [← this.1]
    rw [hpe]
    exact (hnew p.2 (by omega)).symm
  · simp only [hp, if_false]
    exact addOuts_notin _ _ _ _ _ _ _ hp

/-! ### restoring inputs -/

theorem restoreIns_append (xs ys : List OutPoint) : ∀ (j : List Entry) (w : UtxoSet),
    restoreIns (xs ++ ys) j w =
      match restoreIns xs j w with
      | none => none
      | some (w1, j1) => restoreIns ys j1 w1 := by
  induction xs with
  | nil => intro j w; rfl
  | cons x xs ih =>
    intro j w
    cases j with
    | nil => rfl
    | cons e j => simp only [List.cons_append, restoreIns]; exact ih j _

theorem add_spend_self (u : UtxoSet) (o : OutPoint) (e : Entry) (h : u o = some e) :
    add (spend u o) o e = u := by
  funext p
  by_cases hp : p = o
  · subst hp; simp [add, h]
  · simp [add, spend, hp]

theorem restoreIns_journal (ins : List OutPoint) : ∀ (u : UtxoSet) (jrest : List Entry),
    validIns u ins →
    restoreIns ins.reverse ((journalIns u ins).reverse ++ jrest) (spendAll u ins) = some (u, jrest) := by
  induction ins with
  | nil => intro u jrest _; rfl
  | cons o os ih =>
    intro u jrest hv
    obtain ⟨hsome, hrest⟩ := hv
    cases hex : u o with
    | none => rw [hex] at hsome; simp at hsome
    | some e =>
      simp only [List.reverse_cons, journalIns, hex, Option.toList, List.singleton_append,
        List.append_assoc]
      rw [restoreIns_append]
      have := ih (spend u o) ([e] ++ jrest) hrest
      show (match restoreIns os.reverse ((journalIns (spend u o) os).reverse ++ ([e] ++ jrest))
              (spendAll (spend u o) os) with
            | none => none
            | some (w1, j1) => restoreIns [o] j1 w1) = some (u, jrest)
      rw [this]
      simp only [List.singleton_append, restoreIns]
      rw [add_spend_self u o e hex]

theorem journalIns_length (ins : List OutPoint) : ∀ (u : UtxoSet), validIns u ins →
    (journalIns u ins).length = ins.length := by
  induction ins with
  | nil => intro u _; rfl
  | cons o os ih =>
    intro u hv
    obtain ⟨hsome, hrest⟩ := hv
    cases hex : u o with
    | none => rw [hex] at hsome; simp at hsome
    | some e => simp [journalIns, hex, ih _ hrest]

/-! ### transactions and blocks -/

theorem unTx_applyTx (ht : Nat) (t : Tx) (u : UtxoSet) (jrest : List Entry) (hv : validTx false u t) :
    unTx false t ((journalIns u t.ins).reverse ++ jrest) (applyTx ht false u t) = some (u, jrest) := by
  obtain ⟨hins, hnew⟩ := hv
  simp only [Bool.false_eq_true, if_false, false_or] at hins hnew
  unfold unTx applyTx
  simp only [Bool.false_eq_true, if_false]
  rw [unOuts_addOuts _ _ _ _ _ hnew]
  exact restoreIns_journal _ _ _ hins

theorem unTxs_append (xs ys : List Tx) : ∀ (j : List Entry) (w : UtxoSet),
    unTxs (xs ++ ys) j w =
      match unTxs xs j w with
      | none => none
      | some (w1, j1) => unTxs ys j1 w1 := by
  induction xs with
  | nil => intro j w; rfl
  | cons x xs ih =>
    intro j w
    simp only [List.cons_append, unTxs]
    cases unTx false x j w with
    | none => rfl
    | some r => exact ih _ _

theorem unTxs_applyTxs (ht : Nat) (txs : List Tx) : ∀ (u : UtxoSet) (jrest : List Entry),
    validTxs ht u txs →
    unTxs txs.reverse ((journalTxs ht u txs).reverse ++ jrest) (applyTxs ht u txs) = some (u, jrest) := by
  induction txs with
  | nil => intro u jrest _; rfl
  | cons t ts ih =>
    intro u jrest hv
    obtain ⟨hvt, hvts⟩ := hv
    simp only [List.reverse_cons, journalTxs, List.reverse_append, List.append_assoc]
    rw [unTxs_append]
    have := ih (applyTx ht false u t) ((journalIns u t.ins).reverse ++ jrest) hvts
    show (match unTxs ts.reverse ((journalTxs ht (applyTx ht false u t) ts).reverse ++
              ((journalIns u t.ins).reverse ++ jrest)) (applyTxs ht (applyTx ht false u t) ts) with
          | none => none
          | some (w1, j1) => unTxs [t] j1 w1) = some (u, jrest)
    rw [this]
    simp only [unTxs]
    rw [unTx_applyTx ht t u jrest hvt]

/-- Disconnecting a valid block with its own journal restores precisely the set before it. -/
theorem undoBlock_applyBlock (u : UtxoSet) (ht : Nat) (b : Block) (hv : validBlock u ht b) :
    undoBlock b (journalOf u ht b) (applyBlock u ht b) = some u := by
  obtain ⟨hcb, htxs⟩ := hv
  unfold undoBlock journalOf applyBlock
  have := unTxs_applyTxs ht b.txs (applyTx ht true u b.cb) [] htxs
  simp only [List.append_nil] at this
  rw [this]
  simp only []
  obtain ⟨_, hnew⟩ := hcb
  simp only [if_true] at hnew
  unfold applyTx
  simp only [if_true]
  rw [unOuts_addOuts _ _ _ _ _ hnew]

theorem journalTxs_length (ht : Nat) (txs : List Tx) : ∀ (u : UtxoSet), validTxs ht u txs →
    (journalTxs ht u txs).length = (txs.map (fun t => t.ins.length)).sum := by
  induction txs with
  | nil => intro u _; rfl
  | cons t ts ih =>
    intro u hv
    obtain ⟨hvt, hvts⟩ := hv
    have h1 := journalIns_length t.ins u (by simpa [validTx] using hvt.1)
    simp [journalTxs, h1, ih _ hvts]

theorem journalOf_length (u : UtxoSet) (ht : Nat) (b : Block) (hv : validBlock u ht b) :
    (journalOf u ht b).length = countIns b :=
  journalTxs_length ht b.txs _ hv.2

end BV.C03.Lemmas
