import BV.Common.Loop
import BV.C03.Driver
/-! `drv_c03`: one case per input line `C03 <op> <args…>`, one canonical result line back.
Imports only core-only modules so that it links as a native executable. -/
def main : IO Unit := BV.Loop.run "C03" BV.C03.Driver.handle
