/-
C03 Spec: the UTXO set and the per-block spend journal as a fold of the active chain.
Protocol-level definition, independent of btcd's cache. Core-only.

Blocks are abstract: a transaction is (txid, inputs, outputs); the first transaction of a
block is its coinbase (its inputs are ignored). The chain is the list of blocks above
genesis, genesis-side first; the block at list position i has height i+1. The genesis
coinbase is not part of the set.
-/
namespace BV.C03

abbrev OutPoint := Nat × Nat

structure Entry where
  amount : Int
  script : List UInt8
  height : Nat
  coinbase : Bool
deriving DecidableEq, Repr

structure Out where
  amount : Int
  script : List UInt8
deriving DecidableEq, Repr

structure Tx where
  id : Nat
  ins : List OutPoint
  outs : List Out
deriving DecidableEq, Repr

structure Block where
  id : Nat
  cb : Tx
  txs : List Tx
deriving DecidableEq, Repr

namespace Spec

/-- `txscript.MaxScriptSize`. -/
def maxScriptSize : Nat := 10000
/-- `txscript.OP_RETURN`. -/
def opReturn : UInt8 := 0x6a

/-- `txscript.OP_DATA_75`, `OP_PUSHDATA1`, `OP_PUSHDATA2`, `OP_PUSHDATA4`. -/
def opData75 : Nat := 75
def opPushData1 : Nat := 76
def opPushData2 : Nat := 77
def opPushData4 : Nat := 78

/-- The version-0 script tokenizer succeeds on the whole script: every push opcode has its
data (`0x01..0x4b` direct, `0x4c/0x4d/0x4e` with 1/2/4-byte little-endian length). -/
def scriptParses : Nat → List UInt8 → Bool
  | _, [] => true
  | 0, _ :: _ => false
  | fuel + 1, op :: rest =>
    let n := op.toNat
    if 1 ≤ n ∧ n ≤ opData75 then
      if n ≤ rest.length then scriptParses fuel (rest.drop n) else false
    else if n = opPushData1 then
      match rest with
      | l :: r => if l.toNat ≤ r.length then scriptParses fuel (r.drop l.toNat) else false
      | _ => false
    else if n = opPushData2 then
      match rest with
      | l0 :: l1 :: r =>
        let len := l0.toNat + 256 * l1.toNat
        if len ≤ r.length then scriptParses fuel (r.drop len) else false
      | _ => false
    else if n = opPushData4 then
      match rest with
      | l0 :: l1 :: l2 :: l3 :: r =>
        let len := l0.toNat + 256 * l1.toNat + 65536 * l2.toNat + 16777216 * l3.toNat
        if len < 2147483648 ∧ len ≤ r.length then scriptParses fuel (r.drop len) else false
      | _ => false
    else scriptParses fuel rest

/-- An output the node never stores (`txscript.IsUnspendable`): starts with OP_RETURN, is
larger than the maximum script size, or does not tokenize. -/
def unspendable (s : List UInt8) : Bool :=
  (s.head? == some opReturn) || decide (maxScriptSize < s.length) || !scriptParses s.length s

abbrev UtxoSet := OutPoint → Option Entry

def empty : UtxoSet := fun _ => none

def spend (u : UtxoSet) (o : OutPoint) : UtxoSet := fun p => if p = o then none else u p

def add (u : UtxoSet) (o : OutPoint) (e : Entry) : UtxoSet := fun p => if p = o then some e else u p

def spendAll (u : UtxoSet) (ins : List OutPoint) : UtxoSet := ins.foldl spend u

def addOut (id h : Nat) (cb : Bool) (i : Nat) (o : Out) (u : UtxoSet) : UtxoSet :=
  if unspendable o.script then u else add u (id, i) ⟨o.amount, o.script, h, cb⟩

def addOuts (id h : Nat) (cb : Bool) : Nat → List Out → UtxoSet → UtxoSet
  | _, [], u => u
  | i, o :: os, u => addOuts id h cb (i + 1) os (addOut id h cb i o u)

/-- Spend the inputs (not for a coinbase), then add the spendable outputs. -/
def applyTx (h : Nat) (cb : Bool) (u : UtxoSet) (tx : Tx) : UtxoSet :=
  addOuts tx.id h cb 0 tx.outs (if cb then u else spendAll u tx.ins)

def applyTxs (h : Nat) (u : UtxoSet) (txs : List Tx) : UtxoSet := txs.foldl (applyTx h false) u

def applyBlock (u : UtxoSet) (h : Nat) (b : Block) : UtxoSet :=
  applyTxs h (applyTx h true u b.cb) b.txs

def utxoFrom (u : UtxoSet) (h : Nat) : List Block → UtxoSet
  | [] => u
  | b :: bs => utxoFrom (applyBlock u h b) (h + 1) bs

/-- The UTXO set of a chain (blocks above genesis, in order). -/
def utxoOf (chain : List Block) : UtxoSet := utxoFrom empty 1 chain

/-- Entries spent by a list of inputs, in spend order. -/
def journalIns (u : UtxoSet) : List OutPoint → List Entry
  | [] => []
  | o :: os => (u o).toList ++ journalIns (spend u o) os

def journalTxs (h : Nat) (u : UtxoSet) : List Tx → List Entry
  | [] => []
  | t :: ts => journalIns u t.ins ++ journalTxs h (applyTx h false u t) ts

/-- The undo record of block `b` connected at height `h` on top of the set `u`. -/
def journalOf (u : UtxoSet) (h : Nat) (b : Block) : List Entry :=
  journalTxs h (applyTx h true u b.cb) b.txs

/-- `BestState.TotalTxns`: genesis has one transaction. -/
def totalTxns (chain : List Block) : Nat := 1 + (chain.map (fun b => 1 + b.txs.length)).sum

/-! ### valid blocks (what a well-formed history connects) -/

/-- Every input exists when it is spent. -/
def validIns (u : UtxoSet) : List OutPoint → Prop
  | [] => True
  | o :: os => (u o).isSome = true ∧ validIns (spend u o) os

/-- No created outpoint is present when it is created (BIP30; implied by BIP34 + collision
freeness of txids where btcd skips the BIP30 scan). -/
def newOuts (id : Nat) (n : Nat) (u : UtxoSet) : Prop := ∀ i, i < n → u (id, i) = none

def validTx (cb : Bool) (u : UtxoSet) (tx : Tx) : Prop :=
  (cb = true ∨ validIns u tx.ins) ∧ newOuts tx.id tx.outs.length (if cb then u else spendAll u tx.ins)

def validTxs (h : Nat) (u : UtxoSet) : List Tx → Prop
  | [] => True
  | t :: ts => validTx false u t ∧ validTxs h (applyTx h false u t) ts

def validBlock (u : UtxoSet) (h : Nat) (b : Block) : Prop :=
  validTx true u b.cb ∧ validTxs h (applyTx h true u b.cb) b.txs

end Spec
end BV.C03
