/- C03 helper lemmas: unclean shutdown + `InitConsistentState` replay (complete or interrupted)
re-establish the invariant from the persistent part of the state alone. -/
import BV.C03.Detach
namespace BV.C03.Lemmas
open BV.C03 BV.C03.Spec

theorem journalOk_suffix (j : Nat → Option (List Entry)) (xs ys : List Block)
    (h : JournalOk j (xs ++ ys)) : JournalOk j ys := by
  induction xs with
  | nil => exact h
  | cons x xs ih => exact ih h.2

theorem chainValid_suffix (xs ys : List Block) (h : ChainValid (xs ++ ys)) : ChainValid ys := by
  induction xs with
  | nil => exact h
  | cons x xs ih => exact ih h.2

theorem nodup_suffix (xs ys : List Block) (h : ((xs ++ ys).map (·.id)).Nodup) :
    (ys.map (·.id)).Nodup := by
  rw [List.map_append] at h
  exact (List.nodup_append.mp h).2.1

/-- The executable split at the marker finds the split the invariant speaks about. -/
theorem split_marker (above below : List Block) (marker : Nat) (hmk : tipId below = marker)
    (hnd : ((above ++ below).map (·.id)).Nodup) (hnz : ∀ b ∈ above ++ below, b.id ≠ 0) :
    splitAtMarker (above ++ below) marker = (above, below) := by
  induction above with
  | nil =>
    cases below with
    | nil => rfl
    | cons b r =>
      have hb : (b.id != marker) = false := by simp [tipId] at hmk; simp [hmk]
      simp [splitAtMarker, List.takeWhile, List.dropWhile, hb]
  | cons x xs ih =>
    have hx : (x.id != marker) = true := by
      cases below with
      | nil =>
        have : x.id ≠ 0 := hnz x (by simp)
        simp [tipId] at hmk; subst hmk; simpa using this
      | cons b r =>
        simp [tipId] at hmk; subst hmk
        simp only [List.cons_append, List.map_cons, List.map_append, List.nodup_cons, List.mem_append,
          List.mem_map, List.mem_cons] at hnd
        have : x.id ≠ b.id := fun e => hnd.1 (Or.inr (Or.inl e))
        simpa using this
    have hnd' : ((xs ++ below).map (·.id)).Nodup := by
      simp only [List.cons_append, List.map_cons, List.nodup_cons] at hnd; exact hnd.2
    have ih' := ih hnd' (fun b hb => hnz b (List.mem_cons_of_mem _ hb))
    simp only [splitAtMarker, Prod.mk.injEq] at ih' ⊢
    simp only [List.cons_append, List.takeWhile, List.dropWhile, hx]
    exact ⟨by rw [ih'.1], ih'.2⟩

theorem replayOne_inv (t : State) (b : Block) (full : Bool) (h : Inv t)
    (hv : validBlock (utxoRev t.chainRev) (t.chainRev.length + 1) b)
    (hj : t.journal b.id = some (journalOf (utxoRev t.chainRev) (t.chainRev.length + 1) b))
    (hid : b.id ∉ t.chainRev.map (·.id)) (hnz : b.id ≠ 0) :
    ∃ t', replayOne t b full = some t' ∧ Inv t' ∧ t'.chainRev = b :: t.chainRev ∧ t'.journal = t.journal ∧
      t'.totalTxns = t.totalTxns := by
  unfold replayOne
  rw [← h.abs_eq] at hv
  obtain ⟨c1, hct, hc1, habs1⟩ := connectTransactions_spec t.db (t.chainRev.length + 1) t.cache b h.cinv hv
  simp only [hct]
  obtain ⟨above, below, hsplit, hmk, hdb⟩ := h.persist
  have hs1 : Inv { t with cache := c1, chainRev := b :: t.chainRev } := by
    refine ⟨hc1, ?_, ⟨hj, h.journal⟩, ⟨?_, h.valid⟩, ?_, ⟨b :: above, below, ?_, hmk, hdb⟩, ?_⟩
    · show abs c1 t.db = applyBlock (utxoRev t.chainRev) (t.chainRev.length + 1) b
      rw [habs1, h.abs_eq]
    · rw [← h.abs_eq]; exact hv
    · show (b.id :: t.chainRev.map (·.id)).Nodup
      exact List.nodup_cons.mpr ⟨hid, h.nodup⟩
    · show b :: t.chainRev = b :: above ++ below
      rw [hsplit]; rfl
    · intro x hx
      rcases List.mem_cons.mp hx with rfl | hx
      · exact hnz
      · exact h.nonzero x hx
  have hfl := flushAt_inv _ b.id .ifNeeded full false hs1 rfl
  exact ⟨_, rfl, hfl.1, hfl.2.1, hfl.2.2, flushAt_totalTxns _ _ _ _ _⟩

theorem replay_inv (bs : List Block) : ∀ (t : State) (fulls : List Bool), Inv t →
    JournalOk t.journal (bs.reverse ++ t.chainRev) → ChainValid (bs.reverse ++ t.chainRev) →
    ((bs.reverse ++ t.chainRev).map (·.id)).Nodup → (∀ b ∈ bs.reverse ++ t.chainRev, b.id ≠ 0) →
    ∃ t', replay t bs fulls = some t' ∧ Inv t' ∧ t'.chainRev = bs.reverse ++ t.chainRev ∧
      t'.journal = t.journal ∧ t'.totalTxns = t.totalTxns := by
  induction bs with
  | nil => intro t fulls h _ _ _ _; exact ⟨t, rfl, h, rfl, rfl, rfl⟩
  | cons b bs ih =>
    intro t fulls h hj hv hnd hnz
    have heq : (b :: bs).reverse ++ t.chainRev = bs.reverse ++ (b :: t.chainRev) := by simp
    rw [heq] at hj hv hnd hnz
    have hjb := journalOk_suffix _ _ _ hj
    have hvb := chainValid_suffix _ _ hv
    have hndb := nodup_suffix _ _ hnd
    have hid : b.id ∉ t.chainRev.map (·.id) := (List.nodup_cons.mp hndb).1
    obtain ⟨t1, h1, hi1, hc1, hj1, htt1⟩ := replayOne_inv t b (fulls.headD false) h hvb.1 hjb.1 hid
      (hnz b (by simp))
    rw [← hc1, ← hj1] at hj
    rw [← hc1] at hv hnd hnz
    obtain ⟨t2, h2, hi2, hc2, hj2, htt2⟩ := ih t1 fulls.tail hi1 hj hv hnd hnz
    refine ⟨t2, by simp only [replay, h1, h2], hi2, ?_, by rw [hj2, hj1], by rw [htt2, htt1]⟩
    rw [hc2, hc1, heq]

/-- The state a new process starts from satisfies the invariant for the chain at the marker. -/
theorem crashed_inv (s : State) (h : PInv s) (above below : List Block)
    (hsplit : s.chainRev = above ++ below) (hmk : tipId below = s.marker) (hdb : s.db = utxoRev below) :
    crashed s = ({ s with cache := emptyCache, chainRev := below, lastFlush := s.marker }, above.reverse) ∧
    Inv { s with cache := emptyCache, chainRev := below, lastFlush := s.marker } := by
  have hnd := h.nodup; have hnz := h.nonzero; have hj := h.journal; have hv := h.valid
  rw [hsplit] at hnd hnz hj hv
  refine ⟨?_, ⟨cinv_empty _, ?_, journalOk_suffix _ _ _ hj, chainValid_suffix _ _ hv, nodup_suffix _ _ hnd,
    ⟨[], below, rfl, hmk, hdb⟩, fun b hb => hnz b (List.mem_append_right _ hb)⟩⟩
  · unfold crashed
    rw [hsplit, split_marker above below s.marker hmk hnd hnz]
  · show abs emptyCache s.db = utxoRev below
    rw [abs_empty, hdb]

/-- A start-up after an unclean shutdown that runs to completion (any cache size: any
threshold outcome after every replayed block) re-establishes the full invariant on the same
chain, from the persistent part of the invariant alone. -/
theorem restart_inv (s : State) (fulls : List Bool) (h : PInv s) :
    ∃ s', restart s fulls = some s' ∧ Inv s' ∧ s'.chainRev = s.chainRev ∧ s'.journal = s.journal ∧
      s'.totalTxns = s.totalTxns := by
  obtain ⟨above, below, hsplit, hmk, hdb⟩ := h.persist
  obtain ⟨hcr, hci⟩ := crashed_inv s h above below hsplit hmk hdb
  unfold restart
  rw [hcr]
  have hnd := h.nodup; have hnz := h.nonzero; have hj := h.journal; have hv := h.valid
  rw [hsplit] at hnd hnz hj hv
  obtain ⟨t', h1, hi, hc, hjj, htt⟩ := replay_inv above.reverse _ fulls hci
    (by simpa using hj) (by simpa using hv) (by simpa using hnd) (by simpa using hnz)
  refine ⟨t', h1, hi, ?_, hjj, htt⟩
  rw [hc, hsplit]; simp

/-- A start-up that is interrupted (or dies) after `n` replayed blocks keeps the persistent part
of the invariant: the bucket is the fold up to the NEW marker. -/
theorem restartAborted_pinv (s : State) (n : Nat) (fulls : List Bool) (h : PInv s) :
    ∃ s', restartAborted s n fulls = some s' ∧ PInv s' ∧ s'.chainRev = s.chainRev ∧
      s'.totalTxns = s.totalTxns := by
  obtain ⟨above, below, hsplit, hmk, hdb⟩ := h.persist
  obtain ⟨hcr, hci⟩ := crashed_inv s h above below hsplit hmk hdb
  unfold restartAborted
  rw [hcr]
  have hnd := h.nodup; have hnz := h.nonzero; have hj := h.journal; have hv := h.valid
  -- the chain is rest ++ (replayed ++ below)
  have habove : above = (above.reverse.drop n).reverse ++ (above.reverse.take n).reverse := by
    rw [← List.reverse_append, List.take_append_drop, List.reverse_reverse]
  have hfull : s.chainRev = (above.reverse.drop n).reverse ++ ((above.reverse.take n).reverse ++ below) := by
    rw [hsplit, ← List.append_assoc, ← habove]
  rw [hfull] at hnd hnz hj hv
  obtain ⟨t', h1, hi, hc, hjj, htt⟩ := replay_inv (above.reverse.take n) _ fulls hci
    (journalOk_suffix _ _ _ hj) (chainValid_suffix _ _ hv) (nodup_suffix _ _ hnd)
    (fun b hb => hnz b (List.mem_append_right _ hb))
  simp only [h1]
  obtain ⟨a', b', hs', hm', hd'⟩ := hi.persist
  refine ⟨_, rfl, ⟨⟨(above.reverse.drop n).reverse ++ a', b', ?_, hm', hd'⟩, ?_, h.valid, h.nodup, h.nonzero⟩, rfl, htt⟩
  · show s.chainRev = _
    rw [hfull, List.append_assoc, ← hs', hc]
  · show JournalOk t'.journal s.chainRev
    rw [hjj]; exact h.journal

theorem restartsAborted_pinv (aborts : List (Nat × List Bool)) : ∀ (s : State), PInv s →
    ∃ s', restartsAborted s aborts = some s' ∧ PInv s' ∧ s'.chainRev = s.chainRev ∧
      s'.totalTxns = s.totalTxns := by
  induction aborts with
  | nil => intro s h; exact ⟨s, rfl, h, rfl, rfl⟩
  | cons a as ih =>
    intro s h
    obtain ⟨s1, h1, hp1, hc1, ht1⟩ := restartAborted_pinv s a.1 a.2 h
    obtain ⟨s2, h2, hp2, hc2, ht2⟩ := ih s1 hp1
    exact ⟨s2, by simp only [restartsAborted, h1, h2], hp2, by rw [hc2, hc1], by rw [ht2, ht1]⟩

theorem restart_op_inv (s : State) (aborts : List (Nat × List Bool)) (fulls : List Bool) (h : Inv s) :
    ∃ s', step s (.restart aborts fulls) = some s' ∧ Inv s' ∧ s'.chainRev = s.chainRev ∧
      s'.totalTxns = s.totalTxns := by
  obtain ⟨s1, h1, hp1, hc1, ht1⟩ := restartsAborted_pinv aborts s h.pinv
  obtain ⟨s2, h2, hi2, hc2, _, ht2⟩ := restart_inv s1 fulls hp1
  exact ⟨s2, by simp only [step, h1, h2], hi2, by rw [hc2, hc1], by rw [ht2, ht1]⟩

end BV.C03.Lemmas
