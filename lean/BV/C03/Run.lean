/- C03 helper lemmas: well-formed histories and the invariant along whole runs. -/
import BV.C03.Restart
namespace BV.C03.Lemmas
open BV.C03 BV.C03.Spec

/-- The active chain (tip first) after one operation. -/
def chainStep (c : List Block) : Op → List Block
  | .restart _ _ => c
  | .connect b _ _ => b :: c
  | .attach b _ => b :: c
  | .detach n => c.drop n
  | .flush _ _ _ => c
  | .fetch _ => c

/-- What a well-formed history may do on the chain `c` (tip first): connect a block that is
valid on the current fold and whose id (hash) is not already active; detach at most the
whole chain; flush and fetch at any time with any parameters. -/
def OpOk (c : List Block) : Op → Prop
  | .connect b _ _ => validBlock (utxoRev c) (c.length + 1) b ∧ b.id ∉ c.map (·.id) ∧ b.id ≠ 0
  | .attach b _ => validBlock (utxoRev c) (c.length + 1) b ∧ b.id ∉ c.map (·.id) ∧ b.id ≠ 0
  | .restart _ _ => True
  | .detach n => n ≤ c.length
  | .flush _ _ _ => True
  | .fetch _ => True

def HistOk : List Block → List Op → Prop
  | _, [] => True
  | c, op :: ops => OpOk c op ∧ HistOk (chainStep c op) ops

/-- What `fetchUtxosFromCache` leaves in the view: every requested outpoint is a key whose
(cloned) slot shows the reported value; other keys are untouched. -/
theorem viewFetch_get (db : Db) (os : List OutPoint) : ∀ (c : Cache) (v : View), CInv c db → ∀ o,
    (o ∈ os → ∃ slot, (viewFetch c db os v).2.get o = some slot ∧ rval slot = abs c db o) ∧
    (o ∉ os → (viewFetch c db os v).2.get o = v.get o) := by
  induction os with
  | nil => intro c v _ o; exact ⟨fun h => by simp at h, fun _ => rfl⟩
  | cons x xs ih =>
    intro c v h o
    obtain ⟨hc1, habs, _, hval⟩ := fetch_spec c db x h
    have ih' := ih (fetch c db x).1 (setSlot v x (some (fetch c db x).2)) hc1 o
    simp only [viewFetch]
    by_cases hxs : o ∈ xs
    · refine ⟨fun _ => ?_, fun hn => (hn (List.mem_cons_of_mem _ hxs)).elim⟩
      obtain ⟨slot, h1, h2⟩ := ih'.1 hxs
      exact ⟨slot, h1, by rw [h2, habs o]⟩
    · rw [ih'.2 hxs]
      by_cases hox : o = x
      · subst hox
        refine ⟨fun _ => ⟨_, get_setSlot_same _ _ _, hval⟩, fun hn => (hn (by simp)).elim⟩
      · refine ⟨fun hm => ?_, fun _ => get_setSlot_ne _ _ _ _ hox⟩
        rcases List.mem_cons.mp hm with h1 | h1
        · exact (hox h1).elim
        · exact (hxs h1).elim

theorem step_inv (s : State) (op : Op) (h : Inv s) (hok : OpOk s.chainRev op) (ht : TT s) :
    ∃ s', step s op = some s' ∧ Inv s' ∧ s'.chainRev = chainStep s.chainRev op ∧ TT s' := by
  cases op with
  | restart aborts fulls =>
    obtain ⟨s', h1, hi, hc, htt⟩ := restart_op_inv s aborts fulls h
    exact ⟨s', h1, hi, hc, by unfold TT at ht ⊢; rw [htt, hc, ht]⟩
  | connect b bip30 full =>
    obtain ⟨s', h1, hi, hc, htt⟩ := connect_inv s b true bip30 full h hok.1 hok.2.1 hok.2.2
    exact ⟨s', h1, hi, hc, by unfold TT at ht ⊢; rw [htt, hc, totalTxns_cons, ht]⟩
  | attach b full =>
    obtain ⟨s', h1, hi, hc, htt⟩ := connect_inv s b false false full h hok.1 hok.2.1 hok.2.2
    exact ⟨s', h1, hi, hc, by unfold TT at ht ⊢; rw [htt, hc, totalTxns_cons, ht]⟩
  | detach n =>
    obtain ⟨s', v', hd, hi, hc, _, htt⟩ := detachMany_inv n s emptyView h hok (vagree_empty _) ht
    exact ⟨s', by simp [step, hd], hi, hc, htt⟩
  | flush mode full due =>
    have := flushAt_inv s (tipId s.chainRev) mode full due h rfl
    refine ⟨_, rfl, this.1, this.2.1, ?_⟩
    unfold TT at ht ⊢
    show (flushAt s (tipId s.chainRev) mode full due).totalTxns =
      totalTxns (flushAt s (tipId s.chainRev) mode full due).chainRev.reverse
    rw [flushAt_totalTxns, this.2.1, ht]
  | fetch o => exact ⟨_, rfl, fetch_inv s o h, rfl, ht⟩

theorem run_inv (ops : List Op) : ∀ (s : State), Inv s → HistOk s.chainRev ops → TT s →
    ∃ s', run s ops = some s' ∧ Inv s' ∧ s'.chainRev = ops.foldl chainStep s.chainRev ∧ TT s' := by
  induction ops with
  | nil => intro s h _ ht; exact ⟨s, rfl, h, rfl, ht⟩
  | cons op ops ih =>
    intro s h hok ht
    obtain ⟨s1, h1, hi1, hc1, ht1⟩ := step_inv s op h hok.1 ht
    have hok2 := hok.2
    rw [← hc1] at hok2
    obtain ⟨s2, h2, hi2, hc2, ht2⟩ := ih s1 hi1 hok2 ht1
    exact ⟨s2, by simp only [run, h1, h2], hi2, by rw [hc2, hc1]; rfl, ht2⟩

theorem histOk_append (a b : List Op) : ∀ (c : List Block),
    HistOk c (a ++ b) ↔ HistOk c a ∧ HistOk (a.foldl chainStep c) b := by
  induction a with
  | nil => intro c; simp [HistOk]
  | cons op ops ih =>
    intro c
    simp only [List.cons_append, HistOk, List.foldl_cons, ih, and_assoc]

theorem histOk_fetches (os : List OutPoint) : ∀ (c : List Block),
    HistOk c (os.map Op.fetch) ∧ (os.map Op.fetch).foldl chainStep c = c := by
  induction os with
  | nil => intro c; exact ⟨trivial, rfl⟩
  | cons o os ih => intro c; exact ⟨⟨trivial, (ih c).1⟩, (ih c).2⟩

theorem journalOk_mid (j : Nat → Option (List Entry)) (xs : List Block) (b : Block) (rest : List Block)
    (h : JournalOk j (xs ++ b :: rest)) :
    j b.id = some (journalOf (utxoRev rest) (rest.length + 1) b) := by
  induction xs with
  | nil => exact h.1
  | cons x xs ih => exact ih h.2


/-! ### the well-formedness hypotheses are decidable -/

def decValidIns : (u : UtxoSet) → (ins : List OutPoint) → Decidable (validIns u ins)
  | _, [] => isTrue trivial
  | u, o :: os =>
    match decValidIns (spend u o) os with
    | isTrue h => if h2 : (u o).isSome = true then isTrue ⟨h2, h⟩ else isFalse (fun hh => h2 hh.1)
    | isFalse h => isFalse (fun hh => h hh.2)

instance (u : UtxoSet) (ins : List OutPoint) : Decidable (validIns u ins) := decValidIns u ins

instance (id n : Nat) (u : UtxoSet) : Decidable (newOuts id n u) := by
  unfold newOuts; exact Nat.decidableBallLT n _

instance (cb : Bool) (u : UtxoSet) (tx : Tx) : Decidable (validTx cb u tx) := by
  unfold validTx; infer_instance

def decValidTxs (h : Nat) : (u : UtxoSet) → (txs : List Tx) → Decidable (validTxs h u txs)
  | _, [] => isTrue trivial
  | u, t :: ts =>
    match decValidTxs h (applyTx h false u t) ts with
    | isTrue h1 => if h2 : validTx false u t then isTrue ⟨h2, h1⟩ else isFalse (fun hh => h2 hh.1)
    | isFalse h1 => isFalse (fun hh => h1 hh.2)

instance (h : Nat) (u : UtxoSet) (txs : List Tx) : Decidable (validTxs h u txs) := decValidTxs h u txs

instance (u : UtxoSet) (h : Nat) (b : Block) : Decidable (validBlock u h b) := by
  unfold validBlock; infer_instance

instance (c : List Block) (op : Op) : Decidable (OpOk c op) := by
  cases op <;> unfold OpOk <;> infer_instance

def decHistOk : (c : List Block) → (ops : List Op) → Decidable (HistOk c ops)
  | _, [] => isTrue trivial
  | c, op :: ops =>
    match decHistOk (chainStep c op) ops with
    | isTrue h1 => if h2 : OpOk c op then isTrue ⟨h2, h1⟩ else isFalse (fun hh => h2 hh.1)
    | isFalse h1 => isFalse (fun hh => h1 hh.2)

instance (c : List Block) (ops : List Op) : Decidable (HistOk c ops) := decHistOk c ops


/-! ### concrete witnesses used by Props -/

def fc03aEntry : Entry := ⟨50, [0x51], 1, true⟩
def fc03aDb : Db := fun p => if p = (1, 0) then some fc03aEntry else none
/-- (1,0) was loaded from the database and spent, not yet flushed. -/
def fc03aCache : Cache := setSlot emptyCache (1, 0) (some (some ⟨fc03aEntry, true, true, false⟩))

/-- A block with a coinbase paying one spendable and one OP_RETURN output. -/
def exB1 : Block := ⟨1, ⟨1, [], [⟨50, [0x51]⟩, ⟨0, [0x6a]⟩]⟩, []⟩
/-- A block whose transaction spends the first block's coinbase. -/
def exB2 : Block := ⟨2, ⟨2, [], [⟨50, [0x51]⟩]⟩, [⟨3, [(1, 0)], [⟨49, [0x52]⟩]⟩]⟩


/-! ### the algorithm before the F-C03-a fix, for the counterexample history only -/

def addTxOutsOld (id h : Nat) (cb : Bool) : Nat → List Out → Cache → Cache
  | _, [], c => c
  | i, o :: os, c => addTxOutsOld id h cb (i + 1) os (addTxOutOld c (id, i) o cb h)

def connectTxOld (db : Db) (h : Nat) (cb : Bool) (c : Cache) (tx : Tx) : Option (Cache × List Entry) :=
  if cb then some (addTxOutsOld tx.id h cb 0 tx.outs c, [])
  else match addTxIns db tx.ins c with
    | none => none
    | some (c1, es) => some (addTxOutsOld tx.id h cb 0 tx.outs c1, es)

def connectTxsOld (db : Db) (h : Nat) : List Tx → Cache → Option (Cache × List Entry)
  | [], c => some (c, [])
  | t :: ts, c =>
    match connectTxOld db h false c t with
    | none => none
    | some (c1, es) =>
      match connectTxsOld db h ts c1 with
      | none => none
      | some (c2, es2) => some (c2, es ++ es2)

/-- `connect` with the pre-fix `addTxOut` (validation fetches with the BIP30 scan, no flush). -/
def connectOld (s : State) (b : Block) : Option State :=
  let c0 := fetchMany s.cache s.db (validationFetches true b)
  match connectTxOld s.db (s.chainRev.length + 1) true c0 b.cb with
  | none => none
  | some (c1, _) =>
    match connectTxsOld s.db (s.chainRev.length + 1) b.txs c1 with
    | none => none
    | some (c2, stxos) =>
      some { s with cache := c2, journal := setJournal s.journal b.id (some stxos), chainRev := b :: s.chainRev }

/-- The F-C03-a history: coinbase 1 created, flushed, spent, re-created (duplicate coinbase),
spent again; no flush after the first. -/
def fcB1 : Block := ⟨1, ⟨1, [], [⟨50, [0x51]⟩]⟩, []⟩
def fcB2 : Block := ⟨2, ⟨2, [], [⟨50, [0x51]⟩]⟩, [⟨3, [(1, 0)], [⟨49, [0x51]⟩]⟩]⟩
def fcB3 : Block := ⟨3, ⟨1, [], [⟨50, [0x51]⟩]⟩, []⟩
def fcB4 : Block := ⟨4, ⟨5, [], [⟨50, [0x51]⟩]⟩, [⟨4, [(1, 0)], [⟨48, [0x52]⟩]⟩]⟩

def fcHist : List Op :=
  [.connect fcB1 true false, .flush .required false false, .connect fcB2 true false,
   .connect fcB3 true false, .connect fcB4 true false]

def fcRunOld : Option State :=
  match connectOld init fcB1 with
  | none => none
  | some s1 =>
    match connectOld (flush s1 .required false false) fcB2 with
    | none => none
    | some s2 =>
      match connectOld s2 fcB3 with
      | none => none
      | some s3 => connectOld s3 fcB4

end BV.C03.Lemmas
