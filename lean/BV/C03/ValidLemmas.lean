/- C03 helper lemmas: the driver's executable block check implies `Spec.validBlock` when the
BIP30 scan is on. -/
import BV.C03.Valid
import BV.C03.Undo
namespace BV.C03.Lemmas
open BV.C03 BV.C03.Spec

theorem insOk_validIns (h maturity : Nat) (ins : List OutPoint) : ∀ (u : UtxoSet),
    insOk h maturity u ins = true → validIns u ins := by
  induction ins with
  | nil => intro u _; trivial
  | cons o os ih =>
    intro u hok
    simp only [insOk] at hok
    cases huo : u o with
    | none => rw [huo] at hok; simp at hok
    | some e =>
      rw [huo] at hok
      simp only [Bool.and_eq_true] at hok
      exact ⟨by rw [huo]; rfl, ih _ hok.2⟩

theorem spendAll_none (ins : List OutPoint) : ∀ (u : UtxoSet) (o : OutPoint), u o = none →
    spendAll u ins o = none := by
  induction ins with
  | nil => intro u o h; exact h
  | cons x xs ih =>
    intro u o h
    show spendAll (spend u x) xs o = none
    apply ih
    unfold spend; split <;> simp [h]

/-- A transaction leaves absent every outpoint of a different txid that was absent. -/
theorem applyTx_none (ht : Nat) (cb : Bool) (u : UtxoSet) (t : Tx) (o : OutPoint) (h : u o = none)
    (hid : o.1 ≠ t.id) : applyTx ht cb u t o = none := by
  unfold applyTx
  rw [addOuts_notin]
  · cases cb
    · simp only [Bool.false_eq_true, if_false]; exact spendAll_none _ _ _ h
    · simp only [if_true]; exact h
  · intro hm; exact hid (mem_spOuts_fst hm).1

/-- Absent outputs of the remaining transactions (`rem`), pairwise distinct txids, inputs ok:
the remaining transactions are valid one after the other. -/
theorem txsOk_validTxs (ht maturity : Nat) (txs : List Tx) : ∀ (u : UtxoSet),
    txsOk ht maturity u txs = true → (txs.map (·.id)).Nodup →
    (∀ t ∈ txs, ∀ i, i < t.outs.length → u (t.id, i) = none) → validTxs ht u txs := by
  induction txs with
  | nil => intro u _ _ _; trivial
  | cons t ts ih =>
    intro u hok hnd habs
    simp only [txsOk, Bool.and_eq_true] at hok
    simp only [List.map_cons, List.nodup_cons] at hnd
    refine ⟨⟨Or.inr (insOk_validIns _ _ _ _ hok.1.2), ?_⟩, ih _ hok.2 hnd.2 ?_⟩
    · intro i hi
      simp only [Bool.false_eq_true, if_false]
      exact spendAll_none _ _ _ (habs t (List.mem_cons_self ..) i hi)
    · intro t' ht' i hi
      apply applyTx_none _ _ _ _ _ (habs t' (List.mem_cons_of_mem _ ht') i hi)
      intro heq
      exact hnd.1 (List.mem_map.mpr ⟨t', ht', heq⟩)

theorem created_absent (u : UtxoSet) (b : Block)
    (h : (createdOutpoints b).all (fun o => (u o).isNone) = true) :
    (∀ i, i < b.cb.outs.length → u (b.cb.id, i) = none) ∧
    ∀ t ∈ b.txs, ∀ i, i < t.outs.length → u (t.id, i) = none := by
  simp only [createdOutpoints, List.all_eq_true, List.mem_append, List.mem_flatten, List.mem_map] at h
  have hmem : ∀ (t : Tx) i, i < t.outs.length → (t.id, i) ∈ txOutpoints t := by
    intro t i hi
    simp only [txOutpoints, List.mem_map, List.mem_range]
    exact ⟨i, hi, rfl⟩
  refine ⟨fun i hi => ?_, fun t ht i hi => ?_⟩
  · have := h (b.cb.id, i) (Or.inl (hmem b.cb i hi))
    simpa using this
  · have := h (t.id, i) (Or.inr ⟨txOutpoints t, ⟨t, ht, rfl⟩, hmem t i hi⟩)
    simpa using this

/-- With the BIP30 scan on, a block the driver accepts is valid in the sense of the Spec. -/
theorem blockOk_valid (maturity : Nat) (u : UtxoSet) (ht : Nat) (b : Block)
    (h : blockOk true maturity u ht b = true) : validBlock u ht b := by
  simp only [blockOk, bip30Ok, Bool.and_eq_true, Bool.not_true, Bool.false_or, idsDistinct,
    decide_eq_true_eq] at h
  obtain ⟨⟨⟨_, hnd⟩, hall⟩, htx⟩ := h
  obtain ⟨hcb, hts⟩ := created_absent u b hall
  simp only [List.nodup_cons] at hnd
  refine ⟨⟨Or.inl rfl, fun i hi => by simpa using hcb i hi⟩, ?_⟩
  apply txsOk_validTxs ht maturity b.txs _ htx hnd.2
  intro t htm i hi
  apply applyTx_none _ _ _ _ _ (hts t htm i hi)
  intro heq
  exact hnd.1 (List.mem_map.mpr ⟨t, htm, heq⟩)

end BV.C03.Lemmas
