/- C03 line-protocol driver (core-only).

`chain` lines: a block tree is delivered block by block (as `ProcessBlock` would see it), mixed
with flushes and observations. The driver tracks the active chain (most blocks wins, first
seen wins ties: every block has the same work), answers the property's observations
(`FetchUtxoEntry`, spend journal, persisted bucket after a required flush, total txns) from
the Spec fold of the active chain, and runs the Model next to it for the raw cache/bucket
dump op `D`.

`cache` lines step the cache primitives of the Model directly. -/
import BV.Common.Hex
import BV.C03.Valid
namespace BV.C03.Driver
open BV.Hex BV.C03 BV.C03.Spec

/-! ### parsing -/

def parseScript? (s : String) : Option (List UInt8) :=
  if s == "-" then some [] else hexToList? s

def parseOutPoint? (s : String) : Option OutPoint :=
  match s.splitOn "." with
  | [t, i] => do pure ((← t.toNat?), (← i.toNat?))
  | _ => none

def parseOut? (s : String) : Option Out :=
  match s.splitOn "." with
  | [a, sc] => do pure ⟨(← a.toInt?), (← parseScript? sc)⟩
  | _ => none

def parseList? {α} (f : String → Option α) (s : String) : Option (List α) :=
  if s == "-" then some [] else (s.splitOn ",").mapM f

def parseTx? (s : String) : Option Tx :=
  match s.splitOn ";" with
  | [id, ins, outs] => do pure ⟨(← id.toNat?), (← parseList? parseOutPoint? ins), (← parseList? parseOut? outs)⟩
  | _ => none

/-- `B<id>:<parent>:<tx>/<tx>…` without the leading `B`. -/
def parseBlock? (s : String) : Option (Block × Nat) :=
  match s.splitOn ":" with
  | [id, parent, txs] => do
    let id ← id.toNat?
    let parent ← parent.toNat?
    match (← (txs.splitOn "/").mapM parseTx?) with
    | cb :: rest => pure (⟨id, cb, rest⟩, parent)
    | [] => none
  | _ => none

structure Cfg where
  bip34 : Bool
  maturity : Nat
  cache : Nat

def parseCfg? (s : String) : Option Cfg :=
  match s.splitOn ":" with
  | [b, m, c] => do pure ⟨b == "1", (← m.toNat?), (← c.toNat?)⟩
  | _ => none

/-! ### printing -/

def scriptStr (s : List UInt8) : String := if s.isEmpty then "-" else listToHex s

def entryStr (e : Entry) : String :=
  s!"{e.amount}.{scriptStr e.script}.{e.height}.{if e.coinbase then 1 else 0}"

def opStr (o : OutPoint) : String := s!"{o.1}.{o.2}"

def centryStr (ce : CEntry) : String :=
  let fl := (if ce.spent then 1 else 0) + (if ce.modified then 2 else 0) + (if ce.fresh then 4 else 0)
  s!"{entryStr ce.e}.{fl}"

def join (sep : String) (xs : List String) : String := sep.intercalate xs

/-! ### sorted set of known outpoints -/

def opLt (a b : OutPoint) : Bool := a.1 < b.1 || (a.1 == b.1 && a.2 < b.2)

def insertOp (o : OutPoint) : List OutPoint → List OutPoint
  | [] => [o]
  | p :: ps => if o == p then p :: ps else if opLt o p then o :: p :: ps else p :: insertOp o ps

def blockOutpoints (b : Block) : List OutPoint :=
  createdOutpoints b ++ (b.txs.map (·.ins)).flatten

/-! ### chain lines -/

structure Node where
  blk : Block
  parent : Nat
  height : Nat

structure Sim where
  cfg : Cfg
  nodes : List Node := []
  chain : List Block := []          -- active chain, genesis side first
  known : List OutPoint := []
  model : Option State := none     -- the Model is no longer consulted for chain lines
  out : List String := []           -- reversed
  views : List String := []         -- reversed: what each saved FetchUtxoView said when taken
  bad : List Nat := []              -- blocks found invalid, and what was built on them
  alltx : List (Tx × Bool) := []    -- every delivered transaction (first definition), coinbase?
  allblk : List Block := []         -- every delivered block

def Sim.find (s : Sim) (id : Nat) : Option Node := s.nodes.find? (fun n => n.blk.id == id)

def Sim.tip (s : Sim) : Nat := match s.chain.getLast? with | some b => b.id | none => 0

/-- Path from genesis to block `id` (genesis side first). -/
def Sim.path (s : Sim) : Nat → Nat → List Block
  | 0, _ => []
  | fuel + 1, id =>
    if id == 0 then [] else
    match s.find id with
    | none => []
    | some n => s.path fuel n.parent ++ [n.blk]

def commonPrefix : List Block → List Block → Nat
  | a :: as, b :: bs => if a.id == b.id then commonPrefix as bs + 1 else 0
  | _, _ => 0

def Sim.full (s : Sim) : Bool := s.cfg.cache == 0

/-- Cache sizes whose flush decisions the Model can name: 0 = always full, 2 MiB = never. -/
def sizeKnown (n : Nat) : Bool := n == 0 || n == 2097152

/-- Threshold outcomes for a replay with cache size `n` (enough for any generated chain). -/
def fullsFor (n : Nat) : List Bool := List.replicate 4096 (n == 0)

def Sim.emit (s : Sim) (r : String) : Sim := { s with out := r :: s.out }

def Sim.modelStep (s : Sim) (op : Op) : Sim :=
  { s with model := match s.model with | none => none | some m => step m op }

/-- Validate and connect `bs` on top of `base` (Spec level); returns the accepted chain. -/
def extendOk (cfg : Cfg) : List Block → List Block → Option (List Block)
  | base, [] => some base
  | base, b :: bs =>
    if blockOk (!cfg.bip34) cfg.maturity (utxoOf base) (base.length + 1) b then extendOk cfg (base ++ [b]) bs
    else none

/-- Index of the first block of `bs` that is not valid on top of `base` extended by its
predecessors (what the verification phase of a reorganisation finds). -/
def firstBad (cfg : Cfg) : List Block → List Block → Nat → Option Nat
  | _, [], _ => none
  | base, b :: bs, i =>
    if blockOk (!cfg.bip34) cfg.maturity (utxoOf base) (base.length + 1) b then firstBad cfg (base ++ [b]) bs (i + 1)
    else some i

/-- What `ProcessBlock` decides for a delivered block. -/
inductive Plan
  | rej
  | side
  | move (nd : Nat) (attach : List Block) (keep : List Block)   -- detach `nd`, then attach on top of `keep`

/-- Registers the block and decides; blocks found invalid (and their descendants) are remembered:
anything built on them is rejected. -/
def Sim.plan (s : Sim) (b : Block) (parent : Nat) : Sim × Plan :=
  let ph := if parent == 0 then some 0 else (s.find parent).map (·.height)
  let s := { s with known := (blockOutpoints b).foldl (fun k o => insertOp o k) s.known,
                    alltx := s.alltx ++ ((b.cb, true) :: b.txs.map (fun t => (t, false))),
                    allblk := s.allblk ++ [b] }
  match ph with
  | none => (s, .rej)
  | some ph =>
    if s.bad.contains parent then ({ s with bad := b.id :: s.bad }, .rej) else
    -- context-free sanity failures are refused on any branch, before the block is indexed
    if hasDupIns b || !idsDistinct b || b.txs.any (fun t => t.ins.isEmpty || t.outs.isEmpty) then
      ({ s with bad := b.id :: s.bad }, .rej) else
    let s := { s with nodes := s.nodes ++ [(⟨b, parent, ph + 1⟩ : Node)] }
    if parent == s.tip then
      match extendOk s.cfg s.chain [b] with
      | none => ({ s with bad := b.id :: s.bad }, .rej)
      | some _ => (s, .move 0 [b] s.chain)
    else if ph + 1 ≤ s.chain.length then (s, .side)
    else
      let np := s.path (ph + 2) b.id
      let k := commonPrefix s.chain np
      match firstBad s.cfg (np.take k) (np.drop k) 0 with
      | some i => ({ s with bad := ((np.drop k).drop i).map (·.id) ++ s.bad }, .rej)
      | none => (s, .move (s.chain.length - k) (np.drop k) (np.take k))

def Sim.processBlock (s : Sim) (b : Block) (parent : Nat) : Sim :=
  match s.plan b parent with
  | (s, .rej) => s.emit s!"rej:{s.tip}"
  | (s, .side) => s.emit s!"acc:{s.tip}"
  | (s, .move _ attach keep) =>
    let s := { s with chain := keep ++ attach }
    s.emit s!"acc:{s.tip}"

/-- `ProcessBlock` with the process dying right after the `k`-th block (dis)connection of the
call was committed (k ≥ 1), followed by a start-up with cache size `n`. When the call commits
fewer than `k` steps nothing dies. -/
def Sim.processBlockCrash (s : Sim) (k n : Nat) (b : Block) (parent : Nat) : Sim :=
  match s.plan b parent with
  | (s, .rej) => s.emit s!"rej:{s.tip}"
  | (s, .side) => s.emit s!"acc:{s.tip}"
  | (s, .move nd attach keep) =>
    if k == 0 || k > nd + attach.length then
      let s := { s with chain := keep ++ attach }
      s.emit s!"acc:{s.tip}"
    else
      let ch := if k ≤ nd then s.chain.take (s.chain.length - k) else keep ++ attach.take (k - nd)
      let s := { s with chain := ch, cfg := { s.cfg with cache := n } }
      s.emit s!"crash:{s.tip}"

def utxoStr (u : UtxoSet) (known : List OutPoint) : String :=
  join "," (known.filterMap (fun o => (u o).map (fun e => s!"{opStr o}:{entryStr e}")))

def journalsStr : UtxoSet → Nat → List Block → List String
  | _, _, [] => []
  | u, h, b :: bs =>
    s!"{b.id}:{join "," ((journalOf u h b).map entryStr)}" :: journalsStr (applyBlock u h b) (h + 1) bs

def slotStr (o : OutPoint) : Slot → Option String
  | none => none
  | some none => some s!"{opStr o}:nil"
  | some (some ce) => some s!"{opStr o}:{centryStr ce}"

def dumpStr (m : State) (known : List OutPoint) : String :=
  let c := join "," (known.filterMap (fun o => slotStr o (m.cache.get o)))
  let d := join "," (known.filterMap (fun o => (m.db o).map (fun e => s!"{opStr o}:{entryStr e}")))
  s!"c={c};d={d};l={m.lastFlush};m={m.marker};t={m.totalTxns}"

def parseMode? (c : Char) : Option Mode :=
  if c == 'r' then some .required else if c == 'p' then some .periodic
  else if c == 'i' then some .ifNeeded else none

def Sim.op (s : Sim) (tok : String) : Option Sim :=
  match tok.toList with
  | 'B' :: rest => do
    let (b, parent) ← parseBlock? (String.ofList rest)
    pure (s.processBlock b parent)
  | 'K' :: rest =>
    match (String.ofList rest).splitOn ":" with
    | [k, n, id, parent, txs] => do
      let k ← k.toNat?
      let n ← n.toNat?
      let (b, parent) ← parseBlock? s!"{id}:{parent}:{txs}"
      pure (s.processBlockCrash k n b parent)
    | _ => none
  | ['F', m] => do
    let mode ← parseMode? m
    pure ((s.modelStep (.flush mode s.full false)).emit "ok")
  | ['P'] =>
    let s := s.modelStep (.flush .required s.full false)
    pure (s.emit s!"d={utxoStr (utxoOf s.chain) s.known};m={s.tip}")
  | 'X' :: rest => do
    -- unclean shutdown + start-up with cache size `n` that completes
    let n ← (String.ofList rest).toNat?
    let m := if sizeKnown n then s.model.bind (fun m => restart m (fullsFor n)) else none
    pure ({ s with model := m, cfg := { s.cfg with cache := n } }.emit "ok")
  | 'Y' :: rest => do
    -- unclean shutdown + start-up with the interrupt already requested: whether a replay was
    -- needed (and so interrupted) depends on the flush policy and is not observed
    let n ← (String.ofList rest).toNat?
    pure ({ s with cfg := { s.cfg with cache := n } }.emit "y")
  | 'J' :: rest => do
    -- FetchSpendJournal of any delivered block: exact for an active block; what is kept for an
    -- inactive one is not fixed by the property and not compared
    let id ← (String.ofList rest).toNat?
    let blk ← s.allblk.find? (fun b => b.id == id)
    let pre := s.chain.takeWhile (fun b => b.id != id)
    if s.chain.any (fun b => b.id == id) then
      pure (s.emit s!"j={join "," ((journalOf (utxoOf pre) (pre.length + 1) blk).map entryStr)}")
    else pure (s.emit "inactive")
  | 'V' :: rest => do
    -- FetchUtxoView of a known transaction: its outputs, then (unless coinbase) its inputs
    let id ← (String.ofList rest).toNat?
    match s.alltx.find? (fun p => p.1.id == id) with
    | none => none
    | some (t, cb) =>
      let ops := txOutpoints t ++ (if cb then [] else t.ins)
      let u := utxoOf s.chain
      let str := s!"{id}:{join "," (ops.map (fun o => match u o with | none => "none" | some e => entryStr e))}"
      let s := ops.foldl (fun s o => s.modelStep (.fetch o)) s
      pure ({ s with views := str :: s.views }.emit str)
  | ['W'] => pure (s.emit s!"w={join "/" s.views.reverse}")
  | ['C'] =>
    let u := utxoOf s.chain
    let s := s.known.foldl (fun s o => s.modelStep (.fetch o)) s
    pure (s.emit s!"u={utxoStr u s.known}")
  | ['R'] =>
    -- graceful restart = required flush; the reloaded cache is empty and names the tip
    pure ((s.modelStep (.flush .required s.full false)).emit "ok")
  | ['O'] =>
    let u := utxoOf s.chain
    let s := s.known.foldl (fun s o => s.modelStep (.fetch o)) s
    pure (s.emit s!"u={utxoStr u s.known};j={join "/" (journalsStr Spec.empty 1 s.chain)};n={totalTxns s.chain}")
  | 'Q' :: rest => do
    let o ← parseOutPoint? (String.ofList rest)
    let s := { s.modelStep (.fetch o) with known := insertOp o s.known }
    pure (s.emit (match utxoOf s.chain o with | none => "none" | some e => entryStr e))
  | ['D'] =>
    -- the abstraction of (cache, bucket) for every known outpoint, the cache's safety invariant
    -- (evaluated by the harness on the real state) and the total transaction count: the fold, true,
    -- and the Spec count, whatever the caching and flushing policy
    pure (s.emit s!"a={utxoStr (utxoOf s.chain) s.known};inv=1;t={totalTxns s.chain}")
  | _ => none

def runChain (cfg : Cfg) (toks : List String) : String :=
  match toks.foldlM (fun (s : Sim) t => s.op t) ({ cfg := cfg } : Sim) with
  | none => "bad-op"
  | some s => join "|" s.out.reverse

/-! ### cache lines -/

structure CSim where
  cache : Cache := emptyCache
  db : Db := fun _ => none
  lastFlush : Nat := 0
  known : List OutPoint := []
  out : List String := []

/-- Executable form of the cache invariant on the outpoints the line mentions. -/
def cinvOk (c : Cache) (db : Db) (known : List OutPoint) : Bool :=
  known.all (fun o => match c.get o with
    | none => true
    | some none => (db o).isNone
    | some (some ce) => (!ce.fresh || (db o).isNone) &&
        (ce.modified || (!ce.spent && db o == some ce.e)))

def CSim.dump (s : CSim) (res : String) : CSim :=
  let a := join "," (s.known.filterMap (fun o => (abs s.cache s.db o).map (fun e => s!"{opStr o}:{entryStr e}")))
  { s with out := s!"{res};a={a};inv={if cinvOk s.cache s.db s.known then 1 else 0}" :: s.out }

def parseBool? (s : String) : Option Bool :=
  if s == "1" then some true else if s == "0" then some false else none

def CSim.op (s : CSim) (tok : String) : Option CSim :=
  match tok.toList with
  | 'a' :: rest =>
    match (String.ofList rest).splitOn ":" with
    | [o, amt, sc, cb, h] => do
      let o ← parseOutPoint? o
      let out : Out := ⟨(← amt.toInt?), (← parseScript? sc)⟩
      let cb ← parseBool? cb
      let h ← h.toNat?
      let s := { s with known := insertOp o s.known, cache := addTxOut s.cache o out cb h }
      pure (s.dump "ok")
    | _ => none
  | 's' :: rest => do
    let o ← parseOutPoint? (String.ofList rest)
    let s := { s with known := insertOp o s.known }
    match addTxIn s.cache s.db o with
    | none => pure ({ s with cache := (fetch s.cache s.db o).1 }.dump "assert")
    | some (c, e) => pure ({ s with cache := c }.dump s!"ok:{entryStr e}")
  | 'f' :: rest => do
    let o ← parseOutPoint? (String.ofList rest)
    let s := { s with known := insertOp o s.known }
    let r := fetch s.cache s.db o
    let res := match r.2 with
      | none => "none"
      | some ce => match ce.val with | none => "none" | some e => entryStr e
    pure ({ s with cache := r.1 }.dump res)
  | 'w' :: m :: f :: d :: ':' :: best => do
    let mode ← parseMode? m
    let full ← parseBool? (String.singleton f)
    let due ← parseBool? (String.singleton d)
    let best ← (String.ofList best).toNat?
    if flushNow mode full due best s.lastFlush then
      pure ({ s with cache := emptyCache, db := writeCache s.cache s.db, lastFlush := best }.dump "ok")
    else pure (s.dump "ok")
  | _ => none

def runCache (toks : List String) : String :=
  match toks.foldlM (fun (s : CSim) t => s.op t) ({} : CSim) with
  | none => "bad-op"
  | some s => join "|" s.out.reverse

/-! ### view lines: the exported UtxoViewpoint / UtxoEntry API on a bare view -/

structure VSim where
  view : View := emptyView
  known : List OutPoint := []
  out : List String := []

def ventryStr (ce : CEntry) : String := s!"{entryStr ce.e}.{if ce.spent then 1 else 0}"

def VSim.dump (s : VSim) (res : String) : VSim :=
  let v := join "," (s.known.filterMap (fun o => match s.view.get o with
    | none => none
    | some none => some s!"{opStr o}:nil"
    | some (some ce) => some s!"{opStr o}:{ventryStr ce}"))
  { s with out := s!"{res};v={v}" :: s.out }

def VSim.know (s : VSim) (os : List OutPoint) : VSim := { s with known := os.foldl (fun k o => insertOp o k) s.known }

def VSim.op (s : VSim) (tok : String) : Option VSim :=
  match tok.toList with
  | 'T' :: rest =>
    match (String.ofList rest).splitOn ":" with
    | [cb, h, tx] => do
      let cb ← parseBool? cb
      let h ← h.toNat?
      let t ← parseTx? tx
      let s := s.know (txOutpoints t)
      pure ({ s with view := viewAddTxOuts t.id h cb 0 t.outs s.view }.dump "ok")
    | _ => none
  | 'o' :: rest =>
    match (String.ofList rest).splitOn ":" with
    | [cb, h, idx, tx] => do
      let cb ← parseBool? cb
      let h ← h.toNat?
      let idx ← idx.toNat?
      let t ← parseTx? tx
      let s := s.know (txOutpoints t)
      -- an out-of-range index is ignored
      match t.outs[idx]? with
      | some out => pure ({ s with view := viewAddTxOut s.view (t.id, idx) out cb h }.dump "ok")
      | none => pure (s.dump "ok")
    | _ => none
  | 'r' :: rest => do
    let o ← parseOutPoint? (String.ofList rest)
    let s := s.know [o]
    pure ({ s with view := setSlot s.view o none }.dump "ok")
  | 's' :: rest => do
    let o ← parseOutPoint? (String.ofList rest)
    let s := s.know [o]
    match s.view.get o with
    | some (some ce) => pure ({ s with view := setSlot s.view o (some (some ce.spend)) }.dump "ok")
    | _ => pure (s.dump "ok")
  | 'l' :: rest => do
    let o ← parseOutPoint? (String.ofList rest)
    let s := s.know [o]
    match s.view.get o with
    | some (some ce) => pure (s.dump (ventryStr ce))
    | _ => pure (s.dump "nil")
  | 'h' :: rest => do
    let n ← (String.ofList rest).toNat?
    pure (s.dump (toString n))
  | 'e' :: rest =>
    match (String.ofList rest).splitOn ":" with
    | [o, amt, sc, h, cb] => do
      let o ← parseOutPoint? o
      let e : Entry := ⟨(← amt.toInt?), (← parseScript? sc), (← h.toNat?), (← parseBool? cb)⟩
      let s := s.know [o]
      pure ({ s with view := setSlot s.view o (some (some ⟨e, false, false, false⟩)) }.dump "ok")
    | _ => none
  | _ => none

def runView (toks : List String) : String :=
  match toks.foldlM (fun (s : VSim) t => s.op t) ({} : VSim) with
  | none => "bad-op"
  | some s => join "|" s.out.reverse

def handle : List String → String
  | "chain" :: cfg :: toks =>
    match parseCfg? cfg with
    | some cfg => runChain cfg toks
    | none => "bad-op"
  | "multi" :: toks =>
    -- independent instances: sub-lines separated by "##", answered one by one
    let subs := toks.foldl (fun (acc : List (List String)) t =>
      if t == "##" then [] :: acc else match acc with
        | cur :: rest => (cur ++ [t]) :: rest
        | [] => [[t]]) [[]]
    join "##" (subs.reverse.map (fun sub => match sub with
      | cfg :: ops => match parseCfg? cfg with
        | some cfg => runChain cfg ops
        | none => "bad-op"
      | [] => "bad-op"))
  | "cache" :: toks => runCache toks
  | "view" :: toks => runView toks
  | _ => "bad-op"

end BV.C03.Driver
