/- C03 line-protocol driver (core-only). Stub until the property's model lands. -/
namespace BV.C03.Driver

def handle : List String → String
  | _ => "unimplemented"

end BV.C03.Driver
