/-
C20 partial merkle tree (BIP37 merkle block). Core-only.

Model: executable mirror of btcutil/bloom/merkleblock.go (calcTreeWidth, calcHash, traverseAndBuild,
the height loop and the LSB-first flag packing of NewMerkleBlock).
Spec: the Bitcoin merkle root (level-by-level pairing, odd node paired with itself) and BIP37 /
Bitcoin Core `CPartialMerkleTree::ExtractMatches` (btcd has no extractor).
The node hash `hh` (dSHA256(left ‖ right) in the driver) is a parameter.
uint32 arithmetic of the Go code (`1 << height`, `pos << height`, `pos*2+1`) does not wrap for
numTx < 2^31 (height ≤ 31, pos < width); the model uses Nat.
-/
namespace BV.C20.Pmt

/-- `calcTreeWidth`: number of nodes at `height` (0 = leaves) -/
def width (n h : Nat) : Nat := (n + 2 ^ h - 1) / 2 ^ h

/-- the height loop of NewMerkleBlock: least `h` (searching upwards from `h`) with `width n h ≤ 1` -/
def heightFrom (n : Nat) : Nat → Nat → Nat
  | 0, h => h
  | fuel+1, h => if width n h > 1 then heightFrom n fuel (h + 1) else h

def treeHeight (n : Nat) : Nat := heightFrom n 64 0

section
variable {α : Type} (hh : α → α → α) (dflt : α)

/-- `calcHash(height, pos)` -/
def calcHash (leaves : List α) : Nat → Nat → α
  | 0, pos => leaves.getD pos dflt
  | h+1, pos =>
    let left := calcHash leaves h (pos * 2)
    let right := if pos * 2 + 1 < width leaves.length h then calcHash leaves h (pos * 2 + 1) else left
    hh left right

/-- the leaf indices below node `(h, pos)`: `pos<<h ≤ i < (pos+1)<<h` and `i < n` (the loop of
    traverseAndBuild that computes `isParent`) -/
def span (n h pos : Nat) : List Nat := (List.range' (pos * 2 ^ h) (2 ^ h)).filter (· < n)

def isParent (matched : List Bool) (h pos : Nat) : Bool :=
  (span matched.length h pos).any (fun i => matched.getD i false)

/-- `traverseAndBuild(height, pos)`: the bits and hashes it appends, in order -/
def traverse (leaves : List α) (matched : List Bool) : Nat → Nat → List Bool × List α
  | 0, pos => ([isParent matched 0 pos], [calcHash hh dflt leaves 0 pos])
  | h+1, pos =>
    if isParent matched (h + 1) pos = false then ([false], [calcHash hh dflt leaves (h + 1) pos])
    else
      let l := traverse leaves matched h (pos * 2)
      if pos * 2 + 1 < width leaves.length h then
        let r := traverse leaves matched h (pos * 2 + 1)
        (true :: (l.1 ++ r.1), l.2 ++ r.2)
      else (true :: l.1, l.2)

/-- one flag byte from up to 8 bits, least significant first -/
def flagByte (bs : List Bool) : UInt8 :=
  UInt8.ofNat (bs.foldr (fun b acc => 2 * acc + b.toNat) 0)

/-- `Flags[i/8] |= bits[i] << (i%8)` -/
def packFlags : List Bool → List UInt8
  | b0 :: b1 :: b2 :: b3 :: b4 :: b5 :: b6 :: b7 :: rest =>
    flagByte [b0, b1, b2, b3, b4, b5, b6, b7] :: packFlags rest
  | [] => []
  | short => [flagByte short]

def unpackFlags (d : List UInt8) : List Bool :=
  d.flatMap (fun b => (List.range 8).map (fun i => b.toNat / 2 ^ i % 2 == 1))

structure MerkleBlock (α : Type) where
  numTx : Nat
  hashes : List α
  bits : List Bool
  matchedIdx : List Nat

/-- `NewMerkleBlock` given the per-transaction match results (`matched[i]` = MatchTxAndUpdate(tx i)) -/
def newMerkleBlock (leaves : List α) (matched : List Bool) : MerkleBlock α :=
  let t := traverse hh dflt leaves matched (treeHeight leaves.length) 0
  ⟨leaves.length, t.2, t.1, (List.range leaves.length).filter (fun i => matched.getD i false)⟩

/-! ### Spec -/

/-- one level up: pair neighbours, an odd last node with itself -/
def pairUp : List α → List α
  | [] => []
  | [x] => [hh x x]
  | x :: y :: rest => hh x y :: pairUp rest

/-- Bitcoin merkle root of a non-empty leaf list (`fuel` ≥ number of levels) -/
def rootFrom : Nat → List α → α
  | _, [] => dflt
  | _, [x] => x
  | 0, x :: _ => x
  | fuel+1, l => rootFrom fuel (pairUp hh l)

def merkleRoot (leaves : List α) : α := rootFrom hh dflt leaves.length leaves

/-- BIP37 `TraverseAndExtract` (without the CVE-2012-2459 left≠right rejection, see `extractStrict`):
    returns the node hash, the matched (index, txid) pairs, and the unconsumed bits and hashes -/
def extractNode (n : Nat) : Nat → Nat → List Bool → List α →
    Option (α × List (Nat × α) × List Bool × List α)
  | _, _, [], _ => none
  | 0, pos, b :: bits, hs =>
    match hs with
    | [] => none
    | x :: hs => some (x, if b then [(pos, x)] else [], bits, hs)
  | h+1, pos, b :: bits, hs =>
    if b = false then
      match hs with
      | [] => none
      | x :: hs => some (x, [], bits, hs)
    else
      match extractNode n h (pos * 2) bits hs with
      | none => none
      | some (l, m1, bits1, hs1) =>
        if pos * 2 + 1 < width n h then
          match extractNode n h (pos * 2 + 1) bits1 hs1 with
          | none => none
          | some (r, m2, bits2, hs2) => some (hh l r, m1 ++ m2, bits2, hs2)
        else some (hh l l, m1, bits1, hs1)

/-- BIP37 `ExtractMatches` on the flag BYTES: all hashes consumed, only byte padding left over -/
def extract (n : Nat) (flags : List UInt8) (hashes : List α) : Option (α × List (Nat × α)) :=
  if n = 0 then none
  else if hashes.length > n then none
  else if flags.length * 8 < hashes.length then none
  else
    match extractNode hh n (treeHeight n) 0 (unpackFlags flags) hashes with
    | none => none
    | some (root, m, restBits, restHashes) =>
      let used := flags.length * 8 - restBits.length
      if (used + 7) / 8 ≠ flags.length then none
      else if restHashes.length ≠ 0 then none
      else some (root, m)

/-- `TraverseAndExtract` with Bitcoin Core's CVE-2012-2459 guard: an inner node whose right child
    exists must not have equal left and right hashes -/
def extractNodeStrict [DecidableEq α] (n : Nat) : Nat → Nat → List Bool → List α →
    Option (α × List (Nat × α) × List Bool × List α)
  | _, _, [], _ => none
  | 0, pos, b :: bits, hs =>
    match hs with
    | [] => none
    | x :: hs => some (x, if b then [(pos, x)] else [], bits, hs)
  | h+1, pos, b :: bits, hs =>
    if b = false then
      match hs with
      | [] => none
      | x :: hs => some (x, [], bits, hs)
    else
      match extractNodeStrict n h (pos * 2) bits hs with
      | none => none
      | some (l, m1, bits1, hs1) =>
        if pos * 2 + 1 < width n h then
          match extractNodeStrict n h (pos * 2 + 1) bits1 hs1 with
          | none => none
          | some (r, m2, bits2, hs2) => if l = r then none else some (hh l r, m1 ++ m2, bits2, hs2)
        else some (hh l l, m1, bits1, hs1)

def extractStrict [DecidableEq α] (n : Nat) (flags : List UInt8) (hashes : List α) :
    Option (α × List (Nat × α)) :=
  if n = 0 then none
  else if hashes.length > n then none
  else if flags.length * 8 < hashes.length then none
  else
    match extractNodeStrict hh n (treeHeight n) 0 (unpackFlags flags) hashes with
    | none => none
    | some (root, m, restBits, restHashes) =>
      let used := flags.length * 8 - restBits.length
      if (used + 7) / 8 ≠ flags.length then none
      else if restHashes.length ≠ 0 then none
      else some (root, m)

/-- no inner node of the full tree has two equal children (holds for a collision-free hash over
    distinct transactions; it is what CVE-2012-2459's guard relies on) -/
def DistinctSiblings (leaves : List α) : Prop :=
  ∀ h pos, pos * 2 + 1 < width leaves.length h →
    calcHash hh dflt leaves h (pos * 2) ≠ calcHash hh dflt leaves h (pos * 2 + 1)

end
end BV.C20.Pmt
