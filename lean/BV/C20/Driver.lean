/- C20 line-protocol driver (core-only): dispatches to the GCS, bloom and partial-merkle-tree parts. -/
import BV.C20.DriverGcs
import BV.C20.DriverBloom
import BV.C20.DriverPmt
namespace BV.C20.Driver

def handle : List String → String
  | op :: rest =>
    if op.startsWith "bloom" then DriverBloom.handle (op :: rest)
    else if op.startsWith "pmt" then DriverPmt.handle (op :: rest)
    else DriverGcs.handle (op :: rest)
  | [] => "bad-op"

end BV.C20.Driver
