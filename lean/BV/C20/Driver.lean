/- C20 line-protocol driver (core-only): dispatches to the GCS, bloom and partial-merkle-tree parts. -/
import BV.C20.DriverGcs
import BV.C20.DriverBloom
import BV.C20.DriverPmt
namespace BV.C20.Driver

def handleOne : List String → String
  | op :: rest =>
    if op.startsWith "bloom" then DriverBloom.handle (op :: rest)
    else if op.startsWith "pmt" then DriverPmt.handle (op :: rest)
    else DriverGcs.handle (op :: rest)
  | [] => "bad-op"

/-- split a token list at the `;;` separators -/
def splitSubs : List String → List String → List (List String) → List (List String)
  | [], cur, acc => (cur.reverse :: acc).reverse
  | t :: ts, cur, acc => if t == ";;" then splitSubs ts [] (cur.reverse :: acc) else splitSubs ts (t :: cur) acc

/-- `par <sub-line> ;; <sub-line> …`: independent cases (run concurrently by the harness) -/
def handle : List String → String
  | "par" :: rest =>
    " ;; ".intercalate ((splitSubs rest [] []).map (fun sub =>
      match sub with
      | "C20" :: r => handleOne r
      | _ => "bad-op"))
  | l => handleOne l

end BV.C20.Driver
