/- C20 helper lemmas: byte packing, GCS build / match / batch matching / serialisation. -/
import BV.C20.LemmasGolomb
namespace BV.C20.Lemmas
open BV.C20 BV.C20.Spec

/-! ### byte packing -/

theorem byte8 (b0 b1 b2 b3 b4 b5 b6 b7 : Bool) :
    beBits 8 (UInt8.ofNat (natOfBits [b0, b1, b2, b3, b4, b5, b6, b7])).toNat
      = [b0, b1, b2, b3, b4, b5, b6, b7] := by
  cases b0 <;> cases b1 <;> cases b2 <;> cases b3 <;> cases b4 <;> cases b5 <;> cases b6 <;> cases b7 <;> rfl

theorem byte_full (b0 b1 b2 b3 b4 b5 b6 b7 : Bool) :
    beBits 8 (byteOfBits [b0, b1, b2, b3, b4, b5, b6, b7]).toNat = [b0, b1, b2, b3, b4, b5, b6, b7] := by
  unfold byteOfBits
  simp only [List.length_cons, List.length_nil, Nat.sub_self, List.replicate_zero, List.append_nil]
  exact byte8 ..

/-- what a reader sees of a written stream: the bits, then fewer than 8 zero padding bits -/
theorem unpack_pack : ∀ bs : List Bool,
    ∃ k, k < 8 ∧ unpackBits (packBits bs) = bs ++ List.replicate k false
  | [] => ⟨0, by decide, by simp [packBits, unpackBits]⟩
  | [b0] => ⟨7, by decide, by
      simp only [packBits, unpackBits, List.flatMap_cons, List.flatMap_nil, List.append_nil, byteOfBits]
      exact byte8 b0 false false false false false false false⟩
  | [b0, b1] => ⟨6, by decide, by
      simp only [packBits, unpackBits, List.flatMap_cons, List.flatMap_nil, List.append_nil, byteOfBits]
      exact byte8 b0 b1 false false false false false false⟩
  | [b0, b1, b2] => ⟨5, by decide, by
      simp only [packBits, unpackBits, List.flatMap_cons, List.flatMap_nil, List.append_nil, byteOfBits]
      exact byte8 b0 b1 b2 false false false false false⟩
  | [b0, b1, b2, b3] => ⟨4, by decide, by
      simp only [packBits, unpackBits, List.flatMap_cons, List.flatMap_nil, List.append_nil, byteOfBits]
      exact byte8 b0 b1 b2 b3 false false false false⟩
  | [b0, b1, b2, b3, b4] => ⟨3, by decide, by
      simp only [packBits, unpackBits, List.flatMap_cons, List.flatMap_nil, List.append_nil, byteOfBits]
      exact byte8 b0 b1 b2 b3 b4 false false false⟩
  | [b0, b1, b2, b3, b4, b5] => ⟨2, by decide, by
      simp only [packBits, unpackBits, List.flatMap_cons, List.flatMap_nil, List.append_nil, byteOfBits]
      exact byte8 b0 b1 b2 b3 b4 b5 false false⟩
  | [b0, b1, b2, b3, b4, b5, b6] => ⟨1, by decide, by
      simp only [packBits, unpackBits, List.flatMap_cons, List.flatMap_nil, List.append_nil, byteOfBits]
      exact byte8 b0 b1 b2 b3 b4 b5 b6 false⟩
  | b0 :: b1 :: b2 :: b3 :: b4 :: b5 :: b6 :: b7 :: rest => by
      obtain ⟨k, hk, h⟩ := unpack_pack rest
      refine ⟨k, hk, ?_⟩
      have hp : packBits (b0 :: b1 :: b2 :: b3 :: b4 :: b5 :: b6 :: b7 :: rest)
          = byteOfBits [b0, b1, b2, b3, b4, b5, b6, b7] :: packBits rest := by
        simp [packBits]
      rw [hp]
      unfold unpackBits at h ⊢
      rw [List.flatMap_cons, h, byte_full]
      simp

/-! ### Match over a written stream -/

theorem fastReduction_lt (v a b : Nat) : fastReduction v a b < 2 ^ 64 := by
  unfold fastReduction; exact Nat.mod_lt _ (by decide)

theorem reduce_lt (v nm : Nat) : reduce v nm < 2 ^ 64 := fastReduction_lt _ _ _

theorem add_sub_mod (value v : Nat) (h : value ≤ v) (hv : v < 2 ^ 64) :
    (value + (v - value)) % 2 ^ 64 = v := by
  have : value + (v - value) = v := by omega
  rw [this, Nat.mod_eq_of_lt hv]

theorem matchLoop_encode (P term : Nat) (vs : List Nat) (value : Nat) (pad : List Bool)
    (h : Asc value vs) (hb : ∀ x ∈ vs, x < 2 ^ 64) :
    matchLoop P term vs.length value (encodeValues P value vs ++ pad) = decide (term ∈ vs) := by
  induction vs generalizing value with
  | nil => simp [matchLoop]
  | cons v vs ih =>
    have hv : v < 2 ^ 64 := hb v (List.mem_cons_self)
    have hb' : ∀ x ∈ vs, x < 2 ^ 64 := fun x hx => hb x (List.mem_cons_of_mem _ hx)
    rw [encodeValues_cons P value v vs h.1 hv, List.append_assoc, List.length_cons, matchLoop,
      readFull_golombEncode P _ (by omega)]
    simp only [add_sub_mod value v h.1 hv]
    by_cases h1 : v = term
    · simp [h1]
    · by_cases h2 : v > term
      · have hn : term ∉ v :: vs := by
          intro hm
          rcases List.mem_cons.mp hm with e | hm
          · exact h1 e.symm
          · have := h.2.ge term hm; omega
        simp [h1, h2, hn]
      · rw [if_neg h1, if_neg h2, ih v h.2 hb']
        have : term ≠ v := fun e => h1 e.symm
        simp [this]

/-! ### ZipMatchAny -/

theorem zipAdvance_spec (v : Nat) (qs : List Nat) (hs : qs.Pairwise (fun a b => a ≤ b)) :
    match zipAdvance v qs with
    | none => ∀ q ∈ qs, q < v
    | some (true, _) => v ∈ qs
    | some (false, qs') => qs'.Pairwise (fun a b => a ≤ b) ∧ (∀ q ∈ qs', v < q) ∧
        (∀ q ∈ qs, q < v ∨ q ∈ qs') ∧ (∀ q ∈ qs', q ∈ qs) := by
  induction qs with
  | nil => simp [zipAdvance]
  | cons q qs ih =>
    rw [List.pairwise_cons] at hs
    unfold zipAdvance
    by_cases h1 : q = v
    · simp [h1]
    · by_cases h2 : q > v
      · simp only [if_neg h1, if_pos h2]
        refine ⟨List.pairwise_cons.mpr hs, ?_, ?_, ?_⟩
        · intro x hx
          rcases List.mem_cons.mp hx with rfl | hx
          · exact h2
          · have := hs.1 x hx; omega
        · intro x hx; right; exact hx
        · intro x hx; exact hx
      · simp only [if_neg h1, if_neg h2]
        have ih' := ih hs.2
        have hq : q < v := by omega
        split
        · rename_i heq; rw [heq] at ih'
          intro x hx
          rcases List.mem_cons.mp hx with rfl | hx
          · exact hq
          · exact ih' x hx
        · rename_i heq; rw [heq] at ih'
          exact List.mem_cons_of_mem _ ih'
        · rename_i qs' heq; rw [heq] at ih'
          refine ⟨ih'.1, ih'.2.1, ?_, ?_⟩
          · intro x hx
            rcases List.mem_cons.mp hx with rfl | hx
            · left; exact hq
            · exact ih'.2.2.1 x hx
          · intro x hx; exact List.mem_cons_of_mem _ (ih'.2.2.2 x hx)

theorem zipLoop_encode (P : Nat) (vs : List Nat) (value : Nat) (pad : List Bool) (qs : List Nat)
    (h : Asc value vs) (hb : ∀ x ∈ vs, x < 2 ^ 64) (hs : qs.Pairwise (fun a b => a ≤ b)) :
    zipLoop P vs.length value (encodeValues P value vs ++ pad) qs = decide (∃ q ∈ qs, q ∈ vs) := by
  induction vs generalizing value qs with
  | nil => simp [zipLoop]
  | cons v vs ih =>
    have hv : v < 2 ^ 64 := hb v (List.mem_cons_self)
    have hb' : ∀ x ∈ vs, x < 2 ^ 64 := fun x hx => hb x (List.mem_cons_of_mem _ hx)
    rw [encodeValues_cons P value v vs h.1 hv, List.append_assoc, List.length_cons, zipLoop,
      readFull_golombEncode P _ (by omega)]
    simp only [add_sub_mod value v h.1 hv]
    have sp := zipAdvance_spec v qs hs
    have hge := h.2.ge
    split
    · rename_i heq; rw [heq] at sp
      symm; rw [decide_eq_false_iff_not]
      rintro ⟨q, hq, hm⟩
      have := sp q hq
      rcases List.mem_cons.mp hm with e | hm
      · omega
      · have := hge q hm; omega
    · rename_i heq; rw [heq] at sp
      symm; rw [decide_eq_true_iff]
      exact ⟨v, sp, List.mem_cons_self⟩
    · rename_i qs' heq; rw [heq] at sp
      rw [ih v qs' h.2 hb' sp.1]
      apply decide_eq_decide.mpr
      constructor
      · rintro ⟨q, hq, hm⟩
        exact ⟨q, sp.2.2.2 q hq, List.mem_cons_of_mem _ hm⟩
      · rintro ⟨q, hq, hm⟩
        rcases sp.2.2.1 q hq with hlt | hq'
        · exfalso
          rcases List.mem_cons.mp hm with e | hm
          · omega
          · have := hge q hm; omega
        · refine ⟨q, hq', ?_⟩
          rcases List.mem_cons.mp hm with e | hm
          · have := sp.2.1 q hq'; omega
          · exact hm

/-! ### HashMatchAny: decoding to end of stream -/

theorem readBitsAux_zeros (P j : Nat) :
    readBitsAux P 0 (List.replicate j false) =
      if j < P then none else some (0, List.replicate (j - P) false) := by
  induction P generalizing j with
  | zero => simp [readBitsAux]
  | succ P ih =>
    cases j with
    | zero => simp [readBitsAux]
    | succ j =>
      rw [List.replicate_succ, readBitsAux]
      simp only [Bool.toNat_false, Nat.mul_zero, Nat.add_zero]
      rw [ih]
      by_cases hj : j < P
      · simp [hj]
      · simp [hj]

theorem readFull_zeros (P k : Nat) :
    readFull P (List.replicate k false) = none ∨
      ∃ k', readFull P (List.replicate k false) = some (0, List.replicate k' false) := by
  cases k with
  | zero => left; simp [readFull, readUnary, readUnaryAux]
  | succ k =>
    unfold readFull readUnary readBits
    rw [List.replicate_succ, readUnaryAux]
    simp only [readBitsAux_zeros]
    by_cases hj : k < P
    · left; simp [hj]
    · right; exact ⟨k - P, by simp [hj]⟩

theorem decodeAll_zeros (P fuel last k : Nat) (hl : last < 2 ^ 64) :
    ∀ x ∈ decodeAll P fuel last (List.replicate k false), x = last := by
  induction fuel generalizing k with
  | zero => simp [decodeAll]
  | succ fuel ih =>
    intro x hx
    unfold decodeAll at hx
    rcases readFull_zeros P k with h | ⟨k', h⟩
    · rw [h] at hx; cases hx
    · rw [h] at hx
      simp only [Nat.add_zero, Nat.mod_eq_of_lt hl] at hx
      rcases List.mem_cons.mp hx with e | hx
      · exact e
      · exact ih k' x hx

theorem decodeAll_encode (P : Nat) (vs : List Nat) (v last fuel k : Nat)
    (hf : vs.length + 1 ≤ fuel) (h : Asc last (v :: vs)) (hb : ∀ x ∈ v :: vs, x < 2 ^ 64) :
    ∀ x, x ∈ decodeAll P fuel last (encodeValues P last (v :: vs) ++ List.replicate k false)
      ↔ x ∈ v :: vs := by
  induction vs generalizing v last fuel with
  | nil =>
    have hv : v < 2 ^ 64 := hb v (List.mem_cons_self)
    obtain ⟨f, rfl⟩ : ∃ f, fuel = f + 1 := ⟨fuel - 1, by simp at hf; omega⟩
    intro x
    rw [encodeValues_cons P last v [] h.1 hv, List.append_assoc, decodeAll,
      readFull_golombEncode P _ (by omega)]
    simp only [add_sub_mod last v h.1 hv, encodeValues, List.nil_append]
    constructor
    · intro hx
      rcases List.mem_cons.mp hx with e | hx
      · rw [e]; exact List.mem_cons_self
      · rw [decodeAll_zeros P f v k hv x hx]; exact List.mem_cons_self
    · intro hx
      rcases List.mem_cons.mp hx with e | hx
      · rw [e]; exact List.mem_cons_self
      · cases hx
  | cons v2 vs ih =>
    have hv : v < 2 ^ 64 := hb v (List.mem_cons_self)
    obtain ⟨f, rfl⟩ : ∃ f, fuel = f + 1 := ⟨fuel - 1, by simp at hf; omega⟩
    intro x
    rw [encodeValues_cons P last v (v2 :: vs) h.1 hv, List.append_assoc, decodeAll,
      readFull_golombEncode P _ (by omega)]
    simp only [add_sub_mod last v h.1 hv]
    have ih' := ih v2 v f (by simp at hf ⊢; omega) h.2 (fun y hy => hb y (List.mem_cons_of_mem _ hy)) x
    rw [List.mem_cons, ih']
    simp

theorem encodeValues_length_ge (P last : Nat) (vs : List Nat) :
    vs.length ≤ (encodeValues P last vs).length := by
  induction vs generalizing last with
  | nil => simp [encodeValues]
  | cons v vs ih =>
    rw [encodeValues]
    simp only [List.length_append, List.length_cons, List.length_replicate]
    have := ih v
    generalize (beBits P _).length = d
    generalize _ / 2 ^ P = c
    omega

/-! ### built filters -/

/-- the sorted reduced hashes the builder writes -/
def vals (H : Bytes → Nat) (nm : Nat) (data : List Bytes) : List Nat :=
  sortValues (data.map (fun d => reduce (H d) nm))

theorem mem_vals (H : Bytes → Nat) (nm : Nat) (data : List Bytes) (x : Nat) :
    x ∈ vals H nm data ↔ x ∈ data.map (fun d => reduce (H d) nm) :=
  (List.mergeSort_perm _ _).mem_iff

theorem vals_length (H : Bytes → Nat) (nm : Nat) (data : List Bytes) :
    (vals H nm data).length = data.length := by
  unfold vals sortValues
  rw [(List.mergeSort_perm _ _).length_eq, List.length_map]

theorem sortValues_pairwise (l : List Nat) : (sortValues l).Pairwise (fun a b => a ≤ b) := by
  have := List.pairwise_mergeSort (le := fun (a b : Nat) => decide (a ≤ b))
    (by intro a b c h1 h2; simp only [decide_eq_true_eq] at *; omega)
    (by intro a b; simp only [Bool.or_eq_true, decide_eq_true_eq]; omega) l
  exact this.imp (by intro a b h; simpa using h)

theorem vals_lt (H : Bytes → Nat) (nm : Nat) (data : List Bytes) : ∀ x ∈ vals H nm data, x < 2 ^ 64 := by
  intro x hx
  rw [mem_vals, List.mem_map] at hx
  obtain ⟨d, _, rfl⟩ := hx
  exact reduce_lt _ _

theorem vals_asc (H : Bytes → Nat) (nm : Nat) (data : List Bytes) : Asc 0 (vals H nm data) :=
  asc_of_pairwise (sortValues_pairwise _) 0 (fun _ _ => Nat.zero_le _)

/-- everything the theorems need to know about a successfully built filter -/
theorem build_spec (H : Bytes → Nat) (P M : Nat) (data : List Bytes) (f : Filter)
    (hb : build H P M data = .ok f) :
    P ≤ 32 ∧ data.length < 2 ^ 32 ∧ f.n = data.length ∧ f.p = P ∧
    f.modulusNP = data.length * M % 2 ^ 64 ∧
    f.data = packBits (encodeValues P 0 (vals H (data.length * M % 2 ^ 64) data)) := by
  unfold build at hb
  by_cases h1 : data.length ≥ 2 ^ 32
  · rw [if_pos h1] at hb; cases hb
  · by_cases h2 : P > 32
    · rw [if_neg h1, if_pos h2] at hb; cases hb
    · rw [if_neg h1, if_neg h2] at hb
      simp only [] at hb
      by_cases h3 : data.length = 0
      · rw [if_pos h3] at hb
        have hd : data = [] := List.length_eq_zero_iff.mp h3
        injection hb with hb
        subst hb
        subst hd
        refine ⟨by omega, by decide, rfl, rfl, rfl, ?_⟩
        simp [vals, sortValues, encodeValues, packBits]
      · rw [if_neg h3] at hb
        injection hb with hb
        subst hb
        exact ⟨by omega, by omega, rfl, rfl, rfl, rfl⟩

theorem build_exists (H : Bytes → Nat) (P M : Nat) (data : List Bytes) (hP : P ≤ 32)
    (hn : data.length < 2 ^ 32) : ∃ f, build H P M data = .ok f := by
  unfold build
  rw [if_neg (by omega), if_neg (by omega)]
  by_cases h3 : data.length = 0
  · simp [h3]
  · simp [h3]

theorem built_bits (H : Bytes → Nat) (P M : Nat) (data : List Bytes) (f : Filter)
    (hb : build H P M data = .ok f) :
    ∃ k, k < 8 ∧ unpackBits f.data =
      encodeValues f.p 0 (vals H f.modulusNP data) ++ List.replicate k false := by
  obtain ⟨_, _, _, hp, hm, hd⟩ := build_spec H P M data f hb
  rw [hd, hp, hm]
  exact unpack_pack _

theorem matches_built (H : Bytes → Nat) (P M : Nat) (data : List Bytes) (f : Filter)
    (hb : build H P M data = .ok f) (q : Bytes) :
    f.matches H q = decide (reduce (H q) f.modulusNP ∈ data.map (fun d => reduce (H d) f.modulusNP)) := by
  obtain ⟨k, _, hbits⟩ := built_bits H P M data f hb
  obtain ⟨_, _, hn, _, _, _⟩ := build_spec H P M data f hb
  unfold Filter.matches
  rw [hbits, hn, ← vals_length H f.modulusNP data,
    matchLoop_encode _ _ _ _ _ (vals_asc _ _ _) (vals_lt _ _ _)]
  exact decide_eq_decide.mpr (mem_vals _ _ _ _)

theorem zip_built (H : Bytes → Nat) (P M : Nat) (data : List Bytes) (f : Filter)
    (hb : build H P M data = .ok f) (qs : List Bytes) :
    f.zipMatchAny H qs = qs.any (f.matches H) := by
  obtain ⟨k, _, hbits⟩ := built_bits H P M data f hb
  obtain ⟨_, _, hn, _, _, _⟩ := build_spec H P M data f hb
  unfold Filter.zipMatchAny
  by_cases he : qs.isEmpty
  · have : qs = [] := List.isEmpty_iff.mp he
    subst this; simp
  · rw [if_neg he]
    simp only []
    rw [hbits, hn, ← vals_length H f.modulusNP data,
      zipLoop_encode _ _ _ _ _ (vals_asc _ _ _) (vals_lt _ _ _) (sortValues_pairwise _)]
    rw [Bool.eq_iff_iff, decide_eq_true_iff, List.any_eq_true]
    constructor
    · rintro ⟨x, hx, hm⟩
      have hx' : x ∈ qs.map (fun d => reduce (H d) f.modulusNP) :=
        (List.mergeSort_perm _ _).mem_iff.mp hx
      obtain ⟨q, hq, rfl⟩ := List.mem_map.mp hx'
      refine ⟨q, hq, ?_⟩
      rw [matches_built H P M data f hb, decide_eq_true_iff]
      exact (mem_vals _ _ _ _).mp hm
    · rintro ⟨q, hq, hm⟩
      rw [matches_built H P M data f hb, decide_eq_true_iff] at hm
      refine ⟨reduce (H q) f.modulusNP, ?_, (mem_vals _ _ _ _).mpr hm⟩
      exact (List.mergeSort_perm _ _).mem_iff.mpr (List.mem_map.mpr ⟨q, hq, rfl⟩)

theorem hash_built (H : Bytes → Nat) (P M : Nat) (data : List Bytes) (f : Filter)
    (hb : build H P M data = .ok f) (qs : List Bytes) :
    f.hashMatchAny H qs = qs.any (f.matches H) := by
  obtain ⟨k, _, hbits⟩ := built_bits H P M data f hb
  obtain ⟨_, _, hn, _, _, _⟩ := build_spec H P M data f hb
  unfold Filter.hashMatchAny
  by_cases he : qs.isEmpty
  · have : qs = [] := List.isEmpty_iff.mp he
    subst this; simp
  · rw [if_neg he]
    simp only []
    have key : ∀ x, x ∈ decodeAll f.p ((unpackBits f.data).length + 1) 0 (unpackBits f.data)
        ↔ x ∈ vals H f.modulusNP data := by
      intro x
      rw [hbits]
      cases hv : vals H f.modulusNP data with
      | nil =>
        simp only [encodeValues, List.nil_append, List.not_mem_nil, iff_false]
        intro hx
        have := decodeAll_zeros f.p _ 0 k (by decide) x hx
        -- x = 0 would have to come from a non-empty `vals`; with `vals = []` the data is empty
        have hd : data = [] := by
          have := vals_length H f.modulusNP data
          rw [hv] at this
          exact List.length_eq_zero_iff.mp this.symm
        obtain ⟨_, _, _, _, _, hdata⟩ := build_spec H P M data f hb
        subst hd
        have hk : unpackBits f.data = [] := by
          rw [hdata]; simp [vals, sortValues, encodeValues, packBits, unpackBits]
        rw [hk] at hbits
        rw [hv] at hbits
        simp only [encodeValues, List.nil_append] at hbits
        have hk0 : k = 0 := by
          have := congrArg List.length hbits
          simpa using this.symm
        subst hk0
        simp [decodeAll, readFull, readUnary, readUnaryAux] at hx
      | cons v vs =>
        have hasc := vals_asc H f.modulusNP data
        have hlt := vals_lt H f.modulusNP data
        rw [hv] at hasc hlt
        apply decodeAll_encode f.p vs v 0 _ k _ hasc hlt
        have := encodeValues_length_ge f.p 0 (v :: vs)
        simp only [List.length_append, List.length_cons, List.length_replicate] at this ⊢
        omega
    rw [Bool.eq_iff_iff, List.any_eq_true, List.any_eq_true]
    constructor
    · rintro ⟨q, hq, hm⟩
      refine ⟨q, hq, ?_⟩
      rw [List.contains_iff_mem] at hm
      rw [matches_built H P M data f hb, decide_eq_true_iff]
      exact (mem_vals _ _ _ _).mp ((key _).mp hm)
    · rintro ⟨q, hq, hm⟩
      refine ⟨q, hq, ?_⟩
      rw [matches_built H P M data f hb, decide_eq_true_iff] at hm
      rw [List.contains_iff_mem]
      exact (key _).mpr ((mem_vals _ _ _ _).mpr hm)

end BV.C20.Lemmas
