/- C20 partial-merkle-tree ops of the line protocol (ops `pmt…`). Core-only. -/
import BV.Common.Hex
import BV.Common.Sha256
import BV.C20.Pmt
import BV.C20.PmtWire
namespace BV.C20.DriverPmt
open BV.Hex BV.C20.Pmt

abbrev Hash := List UInt8

def hh (l r : Hash) : Hash := BV.Sha256.hash2List (l ++ r)

def le (n k : Nat) : List UInt8 := natLE n k

def markMatch : List UInt8 := "C20-match-mark".toUTF8.toList
def markNo : List UInt8 := "C20-nomatch-mk".toUTF8.toList

/-- the synthetic transaction `i` of block `seed` (same layout as harness/p20/pmt.go) -/
def txBytes (seed i : Nat) (m : Bool) : List UInt8 :=
  le 2 4 ++ [1] ++ (List.replicate 8 (le seed 4)).flatten ++ le i 4 ++ [0] ++ le 0xffffffff 4 ++
  [1] ++ le i 8 ++ [15, 14] ++ (if m then markMatch else markNo) ++ le 0 4

def txid (seed i : Nat) (m : Bool) : Hash := BV.Sha256.hash2List (txBytes seed i m)

def parseBits? (s : String) : Option (List Bool) :=
  if s == "-" then some [] else
  s.toList.mapM (fun c => if c == '1' then some true else if c == '0' then some false else none)

def natsTok (l : List Nat) : String := if l.isEmpty then "-" else ",".intercalate (l.map toString)

def handle : List String → String
  | ["pmt", seed, bits] =>
    match seed.toNat?, parseBits? bits with
    | some seed, some matched =>
      let n := matched.length
      if n = 0 then "panic" else
      let leaves := (List.range n).map (fun i => txid seed i (matched.getD i false))
      let mb := newMerkleBlock hh [] leaves matched
      let flags := packFlags mb.bits
      let root := merkleRoot hh [] leaves
      let want := (mb.matchedIdx.map (fun i => (i, leaves.getD i [])))
      let x : Bool := match extract hh n flags mb.hashes with
        | some (r, m) => r == root && m == want
        | none => false
      -- the block header the harness gives the block: version 1, zero prev, merkle root, time = seed,
      -- bits 0x1d00ffff, nonce = n
      let hdr := le 1 4 ++ List.replicate 32 0 ++ root ++ le seed 4 ++ le 0x1d00ffff 4 ++ le n 4
      let wire := match PmtWire.encode 70016 ⟨hdr, mb.numTx, mb.hashes, flags⟩ with
        | .ok b => listToHex (BV.Sha256.hash2List b)
        | .error _ => "err"
      s!"idx={natsTok mb.matchedIdx} tx={mb.numTx} flags={listToHex flags} hashes={",".intercalate (mb.hashes.map listToHex)} root={listToHex root} x={if x then "1" else "0"} inp=1 wire={wire}"
    | _, _ => "bad-op"
  | ["pmtw", pver, d] =>
    match pver.toNat?, hexToList? d with
    | some pver, some d =>
      match PmtWire.decode pver d with
      | .error _ => "err"
      | .ok (m, rest) =>
        let re := match PmtWire.encode pver m with
          | .ok b => b ++ rest == d
          | .error _ => false
        s!"ok tx={m.transactions} nh={m.hashes.length} nf={m.flags.length} rest={rest.length} re={if re then "1" else "0"} h={listToHex (BV.Sha256.hashList (m.header ++ m.hashes.flatten ++ m.flags))}"
    | _, _ => "bad-op"
  | _ => "bad-op"

end BV.C20.DriverPmt
