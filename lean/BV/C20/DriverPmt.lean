/- C20 partial-merkle-tree ops of the line protocol (ops `pmt…`). Core-only. Stub until Pmt.lean lands. -/
namespace BV.C20.DriverPmt

def handle : List String → String
  | _ => "unimplemented"

end BV.C20.DriverPmt
