/-
C20: wire form of the merkleblock message (wire/msgmerkleblock.go BtcEncode / BtcDecode / AddTxHash).
Core-only. header(80) ‖ LE32 transactions ‖ CompactSize #hashes ‖ hashes(32 each) ‖ CompactSize #flag bytes ‖ flags
-/
import BV.C20.Model
namespace BV.C20.PmtWire
open BV.C20

def BIP0037_VERSION : Nat := 70001
def MAX_TX_PER_BLOCK : Nat := 400001        -- MaxBlockPayload / minTxPayload + 1
def MAX_FLAGS : Nat := 50000                -- maxTxPerBlock / 8

structure Msg where
  header : Bytes            -- 80 bytes
  transactions : Nat        -- uint32
  hashes : List Bytes       -- 32 bytes each
  flags : Bytes
  deriving DecidableEq, Repr

inductive WErr | pver | eof | nonCanonical | tooManyHashes | tooManyFlags
  deriving DecidableEq, Repr

/-- `BtcEncode` -/
def encode (pver : Nat) (m : Msg) : Except WErr Bytes :=
  if pver < BIP0037_VERSION then .error .pver
  else if m.hashes.length > MAX_TX_PER_BLOCK then .error .tooManyHashes
  else if m.flags.length > MAX_FLAGS then .error .tooManyFlags
  else .ok (m.header ++ leBytes 4 m.transactions ++ writeVarInt m.hashes.length ++ m.hashes.flatten
            ++ writeVarInt m.flags.length ++ m.flags)

def takeExact (n : Nat) (b : Bytes) : Except WErr (Bytes × Bytes) :=
  if b.length < n then .error .eof else .ok (b.take n, b.drop n)

def readHashes : Nat → Bytes → List Bytes → Except WErr (List Bytes × Bytes)
  | 0, b, acc => .ok (acc.reverse, b)
  | k+1, b, acc =>
    match takeExact 32 b with
    | .error e => .error e
    | .ok (h, rest) => readHashes k rest (h :: acc)

def varint (b : Bytes) : Except WErr (Nat × Bytes) :=
  match readVarInt b with
  | .ok r => .ok r
  | .error .nonCanonical => .error .nonCanonical
  | .error _ => .error .eof

/-- `BtcDecode`; returns the message and the unread rest -/
def decode (pver : Nat) (b : Bytes) : Except WErr (Msg × Bytes) :=
  if pver < BIP0037_VERSION then .error .pver else
  match takeExact 80 b with
  | .error e => .error e
  | .ok (hdr, b) =>
  match takeExact 4 b with
  | .error e => .error e
  | .ok (tx, b) =>
  match varint b with
  | .error e => .error e
  | .ok (count, b) =>
  if count > MAX_TX_PER_BLOCK then .error .tooManyHashes else
  match readHashes count b [] with
  | .error e => .error e
  | .ok (hashes, b) =>
  match varint b with
  | .error e => .error e
  | .ok (nf, b) =>
  if nf > MAX_FLAGS then .error .tooManyFlags else
  match takeExact nf b with
  | .error e => .error e
  | .ok (flags, b) => .ok (⟨hdr, leNat tx, hashes, flags⟩, b)

end BV.C20.PmtWire
