/- C20 GCS / BIP158 ops of the line protocol. Core-only. -/
import BV.Common.Hex
import BV.Common.Sha256
import BV.Common.SipHash
import BV.C20.Model
namespace BV.C20.DriverGcs
open BV.Hex BV.C20

/-- SipHash-2-4 under a 16-byte key, as a natural number -/
def sip (key : Bytes) (msg : Bytes) : Nat := (BV.SipHash.sum64Key key msg).toNat

def dsha (b : Bytes) : Bytes := BV.Sha256.hash2List b

/-- item syntax: hex bytes, `-` (empty), or `*<count>x<mult>+<add>` = LE64((i*mult+add) mod 2^64), i < count -/
def parseItem? (s : String) : Option (List Bytes) :=
  if s.startsWith "*" then
    match (s.drop 1).toString.splitOn "x" with
    | [c, rest] =>
      match rest.splitOn "+" with
      | [m, a] => do
        let c ← c.toNat?
        let m ← m.toNat?
        let a ← a.toNat?
        pure ((List.range c).map (fun i => leBytes 8 ((i * m + a) % 2 ^ 64)))
      | _ => none
    | _ => none
  else (hexToList? s).map (fun b => [b])

/-- `.` is the empty list; items are separated by `sep` -/
def parseItemsSep? (sep : String) (s : String) : Option (List Bytes) :=
  if s == "." then some [] else
  (s.splitOn sep).foldlM (fun acc t => (parseItem? t).map (fun l => acc ++ l)) []

def parseItems? (s : String) : Option (List Bytes) := parseItemsSep? "," s

def bit (b : Bool) : String := if b then "1" else "0"

def bitsStr (l : List Bool) : String :=
  if l.isEmpty then "-" else String.ofList (l.map (fun b => if b then '1' else '0'))

def errStr : Err → String
  | .nTooBig => "err:ntoobig"
  | .pTooBig => "err:ptoobig"
  | .eof => "err:decode"
  | .nonCanonical => "err:decode"

def natsStr (l : List Nat) : String :=
  if l.isEmpty then "-" else ",".intercalate (l.map toString)

/-- match vector and the three batch strategies of the model, cross-checked against the Spec
    membership when `items` (what the filter was built from) is known -/
def observe (H : Bytes → Nat) (f : Filter) (qs : List Bytes) (items : Option (List Bytes)) : String :=
  let m := qs.map (f.matches H)
  let specOk : Bool := match items with
    | none => true
    | some its =>
      let hv := Spec.hashedValues H f.modulusNP its
      (qs.map (fun q => hv.contains (Spec.mulhi (H q) f.modulusNP))) == m
  if !specOk then "model-spec-mismatch" else
  let z := f.zipMatchAny H qs
  let h := f.hashMatchAny H qs
  match items with
  | none =>
    -- deserialised stream (N may not cover the data): only "what the zip finds the hash finds too"
    s!"m={bitsStr m} zip={bit z} hz={bit (!z || h)}"
  | some _ => s!"m={bitsStr m} zip={bit z} hash={bit h} any={bit (f.matchAny H qs)}"

/-- read up to `max` Golomb-Rice values (no running sum), as `VerifReadAll` does -/
def readAll (p : Nat) : Nat → List Bool → List Nat
  | 0, _ => []
  | max+1, bits => match readFull p bits with
    | none => []
    | some (v, rest) => v :: readAll p max rest

/-! #### builder ops -/

def berrStr : BErr → String
  | .pTooBig => "err:ptoobig"
  | .pNotSet => "err:notset"
  | .mNotSet => "err:notset"
  | .nTooBig => "err:ntoobig"

def key16? (s : String) : Option Bytes :=
  match hexToList? s with
  | some k => if k.length = 16 then some k else none
  | none => none

def hash32? (s : String) : Option Bytes :=
  match hexToList? s with
  | some k => if k.length = 32 then some k else none
  | none => none

def randomB (b : Builder) : Builder := if b.err.isSome then b else { b with randomKey := true }

/-- constructors; a random key is marked unknown -/
def parseCtor? (s : String) : Option Builder :=
  match s.splitOn ":" with
  | ["zero"] => some {}
  | ["kpnm", k, p, _n, m] => do
    let k ← key16? k; let p ← p.toNat?; let m ← m.toNat?
    pure (Builder.withKeyPNM k p m)
  | ["kpm", k, p, m] => do
    let k ← key16? k; let p ← p.toNat?; let m ← m.toNat?
    pure (Builder.withKeyPNM k p m)
  | ["k", k] => do
    let k ← key16? k
    pure (Builder.withKeyPNM k Spec.BASIC_P Spec.BASIC_M)
  | ["hpnm", h, p, _n, m] => do
    let h ← hash32? h; let p ← p.toNat?; let m ← m.toNat?
    pure (Builder.withKeyPNM (deriveKey h) p m)
  | ["hpm", h, p, m] => do
    let h ← hash32? h; let p ← p.toNat?; let m ← m.toNat?
    pure (Builder.withKeyPNM (deriveKey h) p m)
  | ["h", h] => do
    let h ← hash32? h
    pure (Builder.withKeyPNM (deriveKey h) Spec.BASIC_P Spec.BASIC_M)
  | ["rpnm", p, _n, m] => do
    let p ← p.toNat?; let m ← m.toNat?
    let b := Builder.withKeyPNM (List.replicate 16 0) p m
    pure { b with randomKey := true }
  | ["rpm", p, m] => do
    let p ← p.toNat?; let m ← m.toNat?
    let b := Builder.withKeyPNM (List.replicate 16 0) p m
    pure { b with randomKey := true }
  | ["r"] =>
    let b := Builder.withKeyPNM (List.replicate 16 0) Spec.BASIC_P Spec.BASIC_M
    some { b with randomKey := true }
  | _ => none

/-- run builder ops; `none` = Go panic; observations are accumulated in reverse -/
def runBld : List String → Builder → List String → Option (List String)
  | [], _, acc => some acc.reverse
  | op :: ops, b, acc =>
    match op.splitOn ":" with
    | ["sk", k] => match key16? k with
      | some k => runBld ops (b.setKey k) acc
      | none => some ["bad-op"]
    | ["skh", h] => match hash32? h with
      | some h => runBld ops (b.setKey (deriveKey h)) acc
      | none => some ["bad-op"]
    | ["sp", p] => match p.toNat? with
      | some p => runBld ops (b.setP p) acc
      | none => some ["bad-op"]
    | ["sm", m] => match m.toNat? with
      | some m => runBld ops (b.setM m) acc
      | none => some ["bad-op"]
    | ["pre", _n] => runBld ops b.preallocate acc
    | ["e", d] => match hexToList? d with
      | some d => match b.addEntry d with
        | some b' => runBld ops b' acc
        | none => none
      | none => some ["bad-op"]
    | ["es", ds] => match parseItems? ds with
      | some ds => match b.addEntries ds with
        | some b' => runBld ops b' acc
        | none => none
      | none => some ["bad-op"]
    | ["w", ds] => match parseItems? ds with
      | some ds => match b.addEntries ds with
        | some b' => runBld ops b' acc
        | none => none
      | none => some ["bad-op"]
    | ["ah", h] => match hash32? h with
      | some h => match b.addEntry h with
        | some b' => runBld ops b' acc
        | none => none
      | none => some ["bad-op"]
    | ["esn"] => match b.addEntries [] with
      | some b' => runBld ops b' acc
      | none => none
    | ["wn"] => match b.addEntries [] with
      | some b' => runBld ops b' acc
      | none => none
    | ["en"] => match b.addEntry [] with
      | some b' => runBld ops b' acc
      | none => none
    | ["key"] =>
      let o := match b.getKey with
        | .error e => berrStr e
        | .ok k => if b.randomKey then "key=R" else s!"key={listToHex k}"
      runBld ops b (o :: acc)
    | ["build"] =>
      let o := match b.build sip with
        | .error e => berrStr e
        | .ok f => if b.randomKey then s!"build={f.n}/R1" else s!"build={f.n}/{listToHex f.nBytes}"
      runBld ops b (o :: acc)
    | _ => some ["bad-op"]

/-! #### committed-filter index -/

/-- header of block `i` of a `cfidx` line: version 1 ‖ prev ‖ LE32(seed)×8 ‖ LE32(seed) ‖ bits ‖ LE32(i) -/
def cfHeader (seed i : Nat) (prev : Bytes) : Bytes :=
  leBytes 4 1 ++ prev ++ (List.replicate 8 (leBytes 4 seed)).flatten ++ leBytes 4 seed ++
    leBytes 4 0x1d00ffff ++ leBytes 4 i

structure CfBlock where
  flag : String
  outs : List (List Bytes)
  prevs : List Bytes

def parseCfBlock? (s : String) : Option CfBlock :=
  match s.splitOn "/" with
  | [flag, outs, prevs] =>
    match (if outs == "!" then some [] else (outs.splitOn ";").mapM parseItems?), parseItems? prevs with
    | some outs, some prevs => if flag == "n" ∨ flag == "z" ∨ flag == "o" then some ⟨flag, outs, prevs⟩ else none
    | _, _ => none
  | _ => none

/-- connect the blocks in order; returns the index and the block hashes -/
def cfRun (seed : Nat) : List CfBlock → Nat → Bytes → CfIndex → List Bytes → CfIndex × List Bytes
  | [], _, _, idx, hs => (idx, hs.reverse)
  | b :: bs, i, last, idx, hs =>
    let prev := if b.flag == "z" then zeroHash else if b.flag == "o" then List.replicate 32 7 else last
    let bh := dsha (cfHeader seed i prev)
    let idx' := match idx.connect sip dsha bh prev b.outs b.prevs with
      | some x => x
      | none => idx
    cfRun seed bs (i + 1) bh idx' (bh :: hs)

def cfShow (idx : CfIndex) (h : Bytes) : String :=
  match idx.lookup h with
  | none => "f=- fh=- hd=-"
  | some e => s!"f={listToHex e.filter} fh={listToHex e.filterHash} hd={listToHex e.header}"

def handle : List String → String
  | ["cfidx", seed, blocks, disc] =>
    match seed.toNat?, (blocks.splitOn "|").mapM parseCfBlock?, disc.toNat? with
    | some seed, some bs, some disc =>
      let (idx, hs) := cfRun seed bs 0 zeroHash [] []
      let idx := (hs.reverse.take disc).foldl (fun acc h => acc.disconnect h) idx
      "|".intercalate ((hs ++ [List.replicate 32 9]).map (cfShow idx)) ++ " t1=err:type"
    | _, _, _ => "bad-op"
  | ["bld", ctor, ops] =>
    match parseCtor? ctor with
    | none => "bad-op"
    | some b =>
      match runBld (if ops == "." then [] else ops.splitOn ";") b [] with
      | none => "panic"
      | some obs => if obs.isEmpty then "-" else " ".intercalate obs
  | ["fr", v, nm] =>
    match v.toNat?, nm.toNat? with
    | some v, some nm =>
      if v ≥ 2 ^ 64 ∨ nm ≥ 2 ^ 64 then "bad-op" else toString (reduce v nm)
    | _, _ => "bad-op"
  | ["rd", p, d, max] =>
    match p.toNat?, hexToList? d, max.toNat? with
    | some p, some d, some max =>
      if p > 32 then "bad-op" else natsStr (readAll p max (unpackBits d))
    | _, _, _ => "bad-op"
  | ["gcs", p, m, key, items, qs] =>
    match p.toNat?, m.toNat?, hexToList? key, parseItems? items, parseItems? qs with
    | some p, some m, some key, some items, some qs =>
      if key.length ≠ 16 ∨ p > 255 ∨ m ≥ 2 ^ 64 then "bad-op" else
      let H := sip key
      match build H p m items with
      | .error e => errStr e
      | .ok f =>
        let rt : Bool := match fromNBytes p m f.nBytes with
          | .ok g => g == f
          | .error _ => false
        s!"n={f.n} nbytes={listToHex f.nBytes} pb={listToHexTok ((f.pBytes).take 1)} np={listToHex (f.npBytes.take 10)} rt={bit rt} ser=1 val=1 inp=1 {observe H f qs (some items)}"
    | _, _, _, _, _ => "bad-op"
  | ["from", p, m, key, n, d, qs] =>
    match p.toNat?, m.toNat?, hexToList? key, n.toNat?, hexToList? d, parseItems? qs with
    | some p, some m, some key, some n, some d, some qs =>
      if key.length ≠ 16 ∨ p > 255 ∨ m ≥ 2 ^ 64 ∨ n ≥ 2 ^ 32 then "bad-op" else
      match fromBytes n p m d with
      | .error e => errStr e
      | .ok f => observe (sip key) f qs none
    | _, _, _, _, _, _ => "bad-op"
  | ["fromn", p, m, key, d, qs] =>
    match p.toNat?, m.toNat?, hexToList? key, hexToList? d, parseItems? qs with
    | some p, some m, some key, some d, some qs =>
      if key.length ≠ 16 ∨ p > 255 ∨ m ≥ 2 ^ 64 then "bad-op" else
      match fromNBytes p m d with
      | .error e => errStr e
      | .ok f => s!"n={f.n} data={listToHexTok f.bytes} {observe (sip key) f qs none}"
    | _, _, _, _, _ => "bad-op"
  | ["basic", hdr, outs, prevs, prevHeader] =>
    match hexToList? hdr, hexToList? prevHeader, parseItems? prevs with
    | some hdr, some ph, some prevs =>
      if hdr.length ≠ 80 ∨ ph.length ≠ 32 then "bad-op" else
      match (if outs == "!" then some [] else (outs.splitOn ";").mapM parseItems?) with
      | none => "bad-op"
      | some outs =>
        let bh := dsha hdr
        match buildBasicFilter sip bh outs prevs with
        | .error e => errStr e
        | .ok f =>
          let H := sip (deriveKey bh)
          let all := (Spec.basicElements outs prevs).all (f.matches H)
          s!"n={f.n} nbytes={listToHex f.nBytes} hash={listToHex (filterHash dsha f)} header={listToHex (makeHeaderForFilter dsha f ph)} all={bit all} inp=1"
    | _, _, _ => "bad-op"
  | _ => "bad-op"

end BV.C20.DriverGcs
