import BV.Common.Loop
import BV.C20.Driver
/-! `drv_c20`: one case per input line `C20 <op> <args…>`, one canonical result line back.
Imports only core-only modules so that it links as a native executable. -/
def main : IO Unit := BV.Loop.run "C20" BV.C20.Driver.handle
