/-
C20 Model — executable mirror of
  btcutil/gcs/gcs.go           (fastReduction, BuildGCSFilter, FromBytes, FromNBytes, Bytes, NBytes, PBytes,
                                NPBytes, Match, MatchAny, ZipMatchAny, HashMatchAny, readFullUint64)
  github.com/kkdai/bstream     (WriteBit/WriteBits = append to an MSB-first bit list, zero padding of the
                                last byte; ReadBit/ReadBits = take from it, io.EOF when too short)
  btcutil/gcs/builder/builder.go (BuildBasicFilter, DeriveKey, GetFilterHash, MakeHeaderForFilter)
uint64 values are `Nat`s with `% 2^64` written where Go wraps. The keyed hash (SipHash-2-4) is the
parameter `H`. Core-only.
-/
import BV.C20.Spec
namespace BV.C20
open Spec

abbrev Bytes := List UInt8

/-! ### fastReduction -/

/-- `fastReduction(v, nHi, nLo)` with Go's uint64 wrap-around on every operation. -/
def fastReduction (v nHi nLo : Nat) : Nat :=
  let vhi := v / 2 ^ 32
  let vlo := v % 2 ^ 32
  let vnphi := (vhi * nHi) % 2 ^ 64
  let vnpmid := (vhi * nLo) % 2 ^ 64
  let npvmid := (nHi * vlo) % 2 ^ 64
  let vnplo := (vlo * nLo) % 2 ^ 64
  let carry := ((vnpmid % 2 ^ 32 + npvmid % 2 ^ 32 + vnplo / 2 ^ 32) % 2 ^ 64) / 2 ^ 32
  (vnphi + vnpmid / 2 ^ 32 + npvmid / 2 ^ 32 + carry) % 2 ^ 64

/-- the call pattern of every user: `fastReduction(v, modulusNP >> 32, uint64(uint32(modulusNP)))` -/
def reduce (v nm : Nat) : Nat := fastReduction v (nm / 2 ^ 32) (nm % 2 ^ 32)

/-! ### bit stream -/

def natOfBits (bs : List Bool) : Nat := bs.foldl (fun a b => 2 * a + b.toNat) 0

/-- one byte from up to 8 bits, MSB first, missing low bits zero -/
def byteOfBits (bs : List Bool) : UInt8 :=
  UInt8.ofNat (natOfBits (bs ++ List.replicate (8 - bs.length) false))

/-- `BStream.Bytes()` after writing `bs` bit by bit -/
def packBits : List Bool → Bytes
  | b0 :: b1 :: b2 :: b3 :: b4 :: b5 :: b6 :: b7 :: rest =>
    byteOfBits [b0, b1, b2, b3, b4, b5, b6, b7] :: packBits rest
  | [] => []
  | short => [byteOfBits short]

/-- the bits a reader sees -/
def unpackBits (d : Bytes) : List Bool := d.flatMap (fun b => beBits 8 b.toNat)

/-- count ones up to the first zero (`ReadBit` loop of readFullUint64); `none` = io.EOF -/
def readUnaryAux : Nat → List Bool → Option (Nat × List Bool)
  | _, [] => none
  | q, false :: r => some (q, r)
  | q, true :: r => readUnaryAux (q + 1) r

def readUnary (bs : List Bool) : Option (Nat × List Bool) := readUnaryAux 0 bs

/-- `ReadBits(p)`: `p` bits, most significant first, onto the accumulator; `none` = io.EOF -/
def readBitsAux : Nat → Nat → List Bool → Option (Nat × List Bool)
  | 0, acc, bs => some (acc, bs)
  | _+1, _, [] => none
  | p+1, acc, b :: bs => readBitsAux p (2 * acc + b.toNat) bs

def readBits (p : Nat) (bs : List Bool) : Option (Nat × List Bool) := readBitsAux p 0 bs

/-- `readFullUint64`: `(quotient << p) + remainder` in uint64 -/
def readFull (p : Nat) (bs : List Bool) : Option (Nat × List Bool) :=
  match readUnary bs with
  | none => none
  | some (q, r) =>
    match readBits p r with
    | none => none
    | some (rem, r') => some (((q * 2 ^ p) % 2 ^ 64 + rem) % 2 ^ 64, r')

/-- the write loop of BuildGCSFilter over the sorted values -/
def encodeValues (p : Nat) : Nat → List Nat → List Bool
  | _, [] => []
  | last, v :: vs =>
    let diff := (v + 2 ^ 64 - last) % 2 ^ 64
    let remainder := diff % 2 ^ p
    let value := ((diff + 2 ^ 64 - remainder) % 2 ^ 64) / 2 ^ p
    List.replicate value true ++ false :: beBits p remainder ++ encodeValues p v vs

/-! ### filter -/

structure Filter where
  n : Nat
  p : Nat
  modulusNP : Nat
  data : Bytes
  deriving DecidableEq, Repr

inductive Err | nTooBig | pTooBig | eof | nonCanonical
  deriving DecidableEq, Repr

def sortValues (l : List Nat) : List Nat := l.mergeSort (fun a b => decide (a ≤ b))

/-- `BuildGCSFilter(P, M, key, data)`; `H = siphash.Sum64(·, key)` -/
def build (H : Bytes → Nat) (P M : Nat) (data : List Bytes) : Except Err Filter :=
  if data.length ≥ 2 ^ 32 then .error .nTooBig
  else if P > 32 then .error .pTooBig
  else
    let n := data.length
    let nm := (n * M) % 2 ^ 64
    if n = 0 then .ok ⟨0, P, nm, []⟩
    else
      let values := sortValues (data.map (fun d => reduce (H d) nm))
      .ok ⟨n, P, nm, packBits (encodeValues P 0 values)⟩

/-- `FromBytes(N, P, M, d)` -/
def fromBytes (N P M : Nat) (d : Bytes) : Except Err Filter :=
  if P > 32 then .error .pTooBig else .ok ⟨N, P, (N * M) % 2 ^ 64, d⟩

def leNat : Bytes → Nat
  | [] => 0
  | b :: bs => b.toNat + 256 * leNat bs

def leBytes : Nat → Nat → Bytes
  | 0, _ => []
  | k+1, x => UInt8.ofNat (x % 256) :: leBytes k (x / 256)

/-- `wire.WriteVarInt` -/
def writeVarInt (x : Nat) : Bytes :=
  if x < 0xfd then [UInt8.ofNat x]
  else if x ≤ 0xffff then 0xfd :: leBytes 2 x
  else if x ≤ 0xffffffff then 0xfe :: leBytes 4 x
  else 0xff :: leBytes 8 x

/-- `wire.ReadVarInt` (rejects non-canonical encodings) -/
def readVarInt : Bytes → Except Err (Nat × Bytes)
  | [] => .error .eof
  | d :: rest =>
    if d = 0xff then
      if rest.length < 8 then .error .eof else
      let v := leNat (rest.take 8)
      if v < 0x100000000 then .error .nonCanonical else .ok (v, rest.drop 8)
    else if d = 0xfe then
      if rest.length < 4 then .error .eof else
      let v := leNat (rest.take 4)
      if v < 0x10000 then .error .nonCanonical else .ok (v, rest.drop 4)
    else if d = 0xfd then
      if rest.length < 2 then .error .eof else
      let v := leNat (rest.take 2)
      if v < 0xfd then .error .nonCanonical else .ok (v, rest.drop 2)
    else .ok (d.toNat, rest)

/-- `FromNBytes(P, M, d)` -/
def fromNBytes (P M : Nat) (d : Bytes) : Except Err Filter :=
  match readVarInt d with
  | .error e => .error e
  | .ok (N, rest) => if N ≥ 2 ^ 32 then .error .nTooBig else fromBytes N P M rest

def Filter.bytes (f : Filter) : Bytes := f.data
def Filter.nBytes (f : Filter) : Bytes := writeVarInt f.n ++ f.data
def Filter.pBytes (f : Filter) : Bytes := UInt8.ofNat f.p :: f.data
def Filter.npBytes (f : Filter) : Bytes := writeVarInt f.n ++ UInt8.ofNat f.p :: f.data

/-! ### matching -/

/-- the decode loop of `Match`: `n` values left, running `value`, looking for `term` -/
def matchLoop (p term : Nat) : Nat → Nat → List Bool → Bool
  | 0, _, _ => false
  | n+1, value, bits =>
    match readFull p bits with
    | none => false                                  -- io.EOF ⇒ (false, nil)
    | some (d, rest) =>
      let value' := (value + d) % 2 ^ 64
      if value' = term then true
      else if value' > term then false
      else matchLoop p term n value' rest

/-- `Filter.Match(key, data)` -/
def Filter.matches (H : Bytes → Nat) (f : Filter) (q : Bytes) : Bool :=
  matchLoop f.p (reduce (H q) f.modulusNP) f.n 0 (unpackBits f.data)

/-- inner `for` of ZipMatchAny: skip query values below `value`.
    `none` = queries exhausted (return false), `some (true, _)` = hit, `some (false, qs)` = continue out -/
def zipAdvance (value : Nat) : List Nat → Option (Bool × List Nat)
  | [] => none
  | q :: qs =>
    if q = value then some (true, q :: qs)
    else if q > value then some (false, q :: qs)
    else zipAdvance value qs

def zipLoop (p : Nat) : Nat → Nat → List Bool → List Nat → Bool
  | 0, _, _, _ => false
  | n+1, value, bits, qs =>
    match readFull p bits with
    | none => false
    | some (d, rest) =>
      let value' := (value + d) % 2 ^ 64
      match zipAdvance value' qs with
      | none => false
      | some (true, _) => true
      | some (false, qs') => zipLoop p n value' rest qs'

/-- `Filter.ZipMatchAny(key, data)` -/
def Filter.zipMatchAny (H : Bytes → Nat) (f : Filter) (qs : List Bytes) : Bool :=
  if qs.isEmpty then false else
  let values := sortValues (qs.map (fun d => reduce (H d) f.modulusNP))
  zipLoop f.p f.n 0 (unpackBits f.data) values

/-- the index-building loop of HashMatchAny: decode until the first error (io.EOF), collecting the
    running sums. `fuel` bounds the recursion (every value consumes at least one bit). -/
def decodeAll (p : Nat) : Nat → Nat → List Bool → List Nat
  | 0, _, _ => []
  | fuel+1, last, bits =>
    match readFull p bits with
    | none => []
    | some (d, rest) =>
      let last' := (last + d) % 2 ^ 64
      last' :: decodeAll p fuel last' rest

/-- `Filter.HashMatchAny(key, data)` — after the fix of F-C20-a the index is keyed by the full
    64-bit value (before: by `uint32(value)`). -/
def Filter.hashMatchAny (H : Bytes → Nat) (f : Filter) (qs : List Bytes) : Bool :=
  if qs.isEmpty then false else
  let bits := unpackBits f.data
  let values := decodeAll f.p (bits.length + 1) 0 bits
  qs.any (fun d => values.contains (reduce (H d) f.modulusNP))

/-- the unfixed index: keys truncated to 32 bits (kept to state what F-C20-a was) -/
def Filter.hashMatchAny32 (H : Bytes → Nat) (f : Filter) (qs : List Bytes) : Bool :=
  if qs.isEmpty then false else
  let bits := unpackBits f.data
  let values := (decodeAll f.p (bits.length + 1) 0 bits).map (· % 2 ^ 32)
  qs.any (fun d => values.contains (reduce (H d) f.modulusNP % 2 ^ 32))

/-- `Filter.MatchAny(key, data)`: `len(data) >= int(f.N()/2)` selects the hash strategy -/
def Filter.matchAny (H : Bytes → Nat) (f : Filter) (qs : List Bytes) : Bool :=
  if qs.length ≥ f.n / 2 then f.hashMatchAny H qs else f.zipMatchAny H qs

/-! ### builder: basic filter, filter hash, header -/

/-- insertion-ordered de-duplication (`GCSBuilder.data` is a set keyed by the entry) -/
def dedup : List Bytes → List Bytes
  | [] => []
  | x :: xs => x :: (dedup xs).filter (· != x)

/-- entries `BuildBasicFilter` adds, in call order -/
def basicEntries (outs : List (List Bytes)) (prevs : List Bytes) : List Bytes :=
  let o := outs.flatMap (fun tx => tx.filter (fun s =>
    if s.length = 0 then false else if s.headD 0 = OP_RETURN then false else true))
  let p := prevs.filter (fun s => if s.length = 0 then false else true)
  o ++ p

/-- `DeriveKey`: the first 16 bytes of the block hash -/
def deriveKey (blockHash : Bytes) : Bytes := blockHash.take KEY_SIZE

/-- `BuildBasicFilter(block, prevOutScripts)`; `Hk key` is SipHash under `key` -/
def buildBasicFilter (Hk : Bytes → Bytes → Nat) (blockHash : Bytes)
    (outs : List (List Bytes)) (prevs : List Bytes) : Except Err Filter :=
  build (Hk (deriveKey blockHash)) BASIC_P BASIC_M (dedup (basicEntries outs prevs))

/-- `GetFilterHash` -/
def filterHash (dsha : Bytes → Bytes) (f : Filter) : Bytes := dsha f.nBytes

/-- `MakeHeaderForFilter` -/
def makeHeaderForFilter (dsha : Bytes → Bytes) (f : Filter) (prev : Bytes) : Bytes :=
  dsha (filterHash dsha f ++ prev)

/-! ### GCSBuilder (btcutil/gcs/builder) -/

inductive BErr | pTooBig | pNotSet | mNotSet | nTooBig
  deriving DecidableEq, Repr

/-- `GCSBuilder`: `data = none` is the nil map of the zero value; entries are kept in first-insertion
    order (the Go map is unordered, the filter does not depend on the order). `randomKey` marks a key drawn
    by `RandomKey()` that the model does not know. -/
structure Builder where
  p : Nat := 0
  m : Nat := 0
  key : Bytes := List.replicate 16 0
  randomKey : Bool := false
  data : Option (List Bytes) := none
  err : Option BErr := none
  deriving Repr

namespace Builder

def setKey (b : Builder) (k : Bytes) : Builder :=
  if b.err.isSome then b else { b with key := k, randomKey := false }

def setP (b : Builder) (p : Nat) : Builder :=
  if b.err.isSome then b else if p > 32 then { b with err := some .pTooBig } else { b with p := p }

def setM (b : Builder) (m : Nat) : Builder :=
  if b.err.isSome then b else if m > 0xffffffff then { b with err := some .pTooBig } else { b with m := m }

def preallocate (b : Builder) : Builder :=
  if b.err.isSome then b else if b.data.isNone then { b with data := some [] } else b

/-- `AddEntry`; `none` = Go panic (assignment to an entry of the nil map of a zero-value builder) -/
def addEntry (b : Builder) (d : Bytes) : Option Builder :=
  if b.err.isSome then some b else
  match b.data with
  | none => none
  | some l => some { b with data := some (if l.contains d then l else l ++ [d]) }

def addEntries (b : Builder) : List Bytes → Option Builder
  | [] => some b
  | d :: ds => match b.addEntry d with
    | none => none
    | some b' => addEntries b' ds

/-- `WithKeyPNM(key, p, n, m)` = `GCSBuilder{}.SetKey(key).SetP(p).SetM(m).Preallocate(n)` -/
def withKeyPNM (key : Bytes) (p m : Nat) : Builder :=
  ((({} : Builder).setKey key).setP p).setM m |>.preallocate

/-- `Key()` -/
def getKey (b : Builder) : Except BErr Bytes :=
  match b.err with
  | some e => .error e
  | none => .ok b.key

/-- `Build()` with the keyed hash family `Hk` -/
def build (Hk : Bytes → Bytes → Nat) (b : Builder) : Except BErr Filter :=
  match b.err with
  | some e => .error e
  | none =>
    if b.p = 0 then .error .pNotSet
    else if b.m = 0 then .error .mNotSet
    else match BV.C20.build (Hk b.key) b.p b.m (b.data.getD []) with
      | .ok f => .ok f
      | .error .nTooBig => .error .nTooBig
      | .error _ => .error .pTooBig

end Builder

/-! ### committed-filter index (blockchain/indexers/cfindex.go: storeFilter, ConnectBlock, DisconnectBlock) -/

structure CfEntry where
  blockHash : Bytes
  filter : Bytes        -- NBytes
  filterHash : Bytes
  header : Bytes
  deriving DecidableEq, Repr

abbrev CfIndex := List CfEntry

def zeroHash : Bytes := List.replicate 32 0

def CfIndex.lookup (idx : CfIndex) (h : Bytes) : Option CfEntry := idx.find? (fun e => e.blockHash == h)

/-- `ConnectBlock` (= BuildBasicFilter + storeFilter) inside one database transaction; `none` = the
    transaction fails (previous filter header missing) and nothing is stored -/
def CfIndex.connect (Hk : Bytes → Bytes → Nat) (dsha : Bytes → Bytes) (idx : CfIndex)
    (blockHash prevBlock : Bytes) (outs : List (List Bytes)) (prevs : List Bytes) : Option CfIndex :=
  match buildBasicFilter Hk blockHash outs prevs with
  | .error _ => none
  | .ok f =>
    let prevHeader : Option Bytes :=
      if prevBlock == zeroHash then some zeroHash else (idx.lookup prevBlock).map (·.header)
    match prevHeader with
    | none => none
    | some ph =>
      let e : CfEntry := ⟨blockHash, f.nBytes, filterHash dsha f, makeHeaderForFilter dsha f ph⟩
      some (e :: idx.filter (fun x => x.blockHash != blockHash))

/-- `DisconnectBlock` -/
def CfIndex.disconnect (idx : CfIndex) (blockHash : Bytes) : CfIndex :=
  idx.filter (fun x => x.blockHash != blockHash)

/-- a block as `ConnectBlock` sees it -/
structure CfBlockIn where
  bh : Bytes
  prev : Bytes
  outs : List (List Bytes)
  prevs : List Bytes

/-- connect a list of blocks in order, each in its own transaction; `none` if one of them fails -/
def CfIndex.connectAll (Hk : Bytes → Bytes → Nat) (dsha : Bytes → Bytes) : CfIndex → List CfBlockIn → Option CfIndex
  | idx, [] => some idx
  | idx, b :: bs =>
    match idx.connect Hk dsha b.bh b.prev b.outs b.prevs with
    | none => none
    | some idx' => connectAll Hk dsha idx' bs

/-- the filter hash `ConnectBlock` stores for a block -/
def cfFilterHash (Hk : Bytes → Bytes → Nat) (dsha : Bytes → Bytes) (b : CfBlockIn) : Bytes :=
  match buildBasicFilter Hk b.bh b.outs b.prevs with
  | .ok f => filterHash dsha f
  | .error _ => []

/-- each block's PrevBlock is the hash of the block before it (`first` for the head of the list) -/
def cfLinked : Bytes → List CfBlockIn → Prop
  | _, [] => True
  | first, b :: bs => b.prev = first ∧ cfLinked b.bh bs

end BV.C20
