/-
C20 property theorems. Only statements of the property + non-vacuity examples live here;
helper lemmas are in Lemmas*.lean. `H` is the keyed hash (SipHash-2-4 under the filter key) as an
arbitrary function; `dsha` is double-SHA256 as an arbitrary function.
-/
import BV.C20.LemmasSer
import BV.C20.LemmasPmtRoot
import BV.C20.LemmasBloom
import BV.C20.LemmasApi
import BV.Generated.C20
namespace BV.C20
open Spec

/-! ### range reduction -/

/-- `fastReduction` on the split modulus is the high 64 bits of the 128-bit product `v * nm`
    (BIP158 `hash_to_range`), for all 64-bit `v`, `nm`. -/
theorem fastReduction_eq_mulhi (v nm : Nat) (hv : v < 2 ^ 64) (hn : nm < 2 ^ 64) :
    fastReduction v (nm / 2 ^ 32) (nm % 2 ^ 32) = mulhi v nm :=
  Lemmas.reduce_eq_mulhi v nm hv hn

/-! ### Golomb-Rice coder -/

/-- Decoding `ds.length` values from the Golomb-Rice code of any list of 64-bit values `ds`, for ANY
    parameter `P` (in particular 0..32), returns `ds` and leaves whatever followed (padding) untouched. -/
theorem golomb_roundtrip (P : Nat) (ds : List Nat) (hb : ∀ x ∈ ds, x < 2 ^ 64) (pad : List Bool) :
    Lemmas.readN P ds.length (golombEncodeAll P ds ++ pad) = some (ds, pad) :=
  Lemmas.readN_golombEncodeAll P ds hb pad

/-- The Golomb-Rice code is prefix-free on 64-bit values: equal streams start with equal values. -/
theorem golomb_prefix_free (P x y : Nat) (hx : x < 2 ^ 64) (hy : y < 2 ^ 64) (r r' : List Bool)
    (h : golombEncode P x ++ r = golombEncode P y ++ r') : x = y ∧ r = r' := by
  have a := Lemmas.readFull_golombEncode P x hx r
  rw [h, Lemmas.readFull_golombEncode P y hy r'] at a
  simp only [Option.some.injEq, Prod.mk.injEq] at a
  exact ⟨a.1.symm, a.2.symm⟩

/-- code length: quotient + 1 + P bits -/
theorem golomb_length (P x : Nat) : (golombEncode P x).length = x / 2 ^ P + 1 + P := by
  have hb : ∀ p y, (beBits p y).length = p := by
    intro p y; induction p with
    | zero => rfl
    | succ p ih => simp [beBits, ih]
  simp [golombEncode, hb]; omega

/-- The builder's write loop over an ascending list is BIP158's `golomb_encode` of the differences. -/
theorem encode_eq_spec (P : Nat) (vs : List Nat) (hs : vs.Pairwise (fun a b => a ≤ b))
    (hb : ∀ x ∈ vs, x < 2 ^ 64) :
    encodeValues P 0 vs = golombEncodeAll P (deltas 0 vs) :=
  Lemmas.encodeValues_eq P 0 vs (Lemmas.asc_of_pairwise hs 0 (fun _ _ => Nat.zero_le _)) hb

/-- A byte stream written bit by bit reads back as the same bits followed by fewer than 8 zero bits. -/
theorem bitstream_roundtrip (bs : List Bool) :
    ∃ k, k < 8 ∧ unpackBits (packBits bs) = bs ++ List.replicate k false :=
  Lemmas.unpack_pack bs

example : Lemmas.readN 19 2 (golombEncodeAll 19 [5, 2 ^ 40] ++ [false, false, false]) =
    some ([5, 2 ^ 40], [false, false, false]) :=
  golomb_roundtrip 19 [5, 2 ^ 40] (by decide) _

/-! ### GCS build / match -/

/-- Building succeeds for every P ≤ 32 and every multiset of fewer than 2^32 items. -/
theorem build_succeeds (H : Bytes → Nat) (P M : Nat) (data : List Bytes) (hP : P ≤ 32)
    (hn : data.length < 2 ^ 32) : ∃ f, build H P M data = .ok f :=
  Lemmas.build_exists H P M data hP hn

/-- No false negatives: a filter built from `data` (any multiset: empty, duplicates, any size; any
    `P ≤ 32`, any `M`, any key/hash) matches every element of `data`. -/
theorem gcs_no_false_negative (H : Bytes → Nat) (P M : Nat) (data : List Bytes) (f : Filter)
    (hb : build H P M data = .ok f) (d : Bytes) (hd : d ∈ data) : f.matches H d = true := by
  rw [Lemmas.matches_built H P M data f hb, decide_eq_true_iff]
  exact List.mem_map.mpr ⟨d, hd, rfl⟩

/-- `Match` is exactly BIP158 membership: the query's range-reduced hash is one of the set's. -/
theorem match_eq_spec (H : Bytes → Nat) (hH : ∀ d, H d < 2 ^ 64) (P M : Nat) (data : List Bytes)
    (f : Filter) (hb : build H P M data = .ok f) (q : Bytes) :
    f.matches H q = true ↔ member H f.modulusNP data q := by
  rw [Lemmas.matches_built H P M data f hb, decide_eq_true_iff]
  have hm : f.modulusNP < 2 ^ 64 := by
    rw [(Lemmas.build_spec H P M data f hb).2.2.2.2.1]; exact Nat.mod_lt _ (by decide)
  unfold member hashedValues
  rw [Lemmas.reduce_eq_mulhi _ _ (hH q) hm]
  have : (fun d => reduce (H d) f.modulusNP) = (fun d => mulhi (H d) f.modulusNP) := by
    funext d; exact Lemmas.reduce_eq_mulhi _ _ (hH d) hm
  rw [this]

/-- ZipMatchAny = element-wise Match, for every query list. -/
theorem zip_eq_elementwise (H : Bytes → Nat) (P M : Nat) (data : List Bytes) (f : Filter)
    (hb : build H P M data = .ok f) (qs : List Bytes) :
    f.zipMatchAny H qs = qs.any (f.matches H) := Lemmas.zip_built H P M data f hb qs

/-- HashMatchAny (64-bit keys, after the fix of F-C20-a) = element-wise Match, for every query list
    and every `N·M` (no `N·M ≤ 2^32` restriction). -/
theorem hash_eq_elementwise (H : Bytes → Nat) (P M : Nat) (data : List Bytes) (f : Filter)
    (hb : build H P M data = .ok f) (qs : List Bytes) :
    f.hashMatchAny H qs = qs.any (f.matches H) := Lemmas.hash_built H P M data f hb qs

/-- MatchAny (whichever strategy its heuristic picks) = element-wise Match. -/
theorem matchAny_eq_elementwise (H : Bytes → Nat) (P M : Nat) (data : List Bytes) (f : Filter)
    (hb : build H P M data = .ok f) (qs : List Bytes) :
    f.matchAny H qs = qs.any (f.matches H) := by
  unfold Filter.matchAny
  split
  · exact hash_eq_elementwise H P M data f hb qs
  · exact zip_eq_elementwise H P M data f hb qs

/-- What F-C20-a was: with the index keyed by `uint32(value)` (the code before the fix) batch and
    element-wise matching disagree on a filter with `N·M = 2^33`. -/
theorem hashMatchAny32_not_elementwise :
    build Lemmas.w_H 32 (2 ^ 33) [[0]] = .ok Lemmas.w_filter ∧
    Lemmas.w_filter.hashMatchAny32 Lemmas.w_H [[1]] = true ∧
    Lemmas.w_filter.matches Lemmas.w_H [1] = false ∧
    Lemmas.w_filter.hashMatchAny Lemmas.w_H [[1]] = false :=
  ⟨Lemmas.w_filter_built, by decide, by decide, by decide⟩

/-! ### serialisation -/

/-- The N-prefixed serialisation is `CompactSize(N) ‖ filter data`, the data being the packed
    Golomb-Rice code of the sorted reduced hashes (BIP158 byte format). -/
theorem nbytes_format (H : Bytes → Nat) (P M : Nat) (data : List Bytes) (f : Filter)
    (hb : build H P M data = .ok f) :
    f.nBytes = compactSize data.length ++
      packBits (encodeValues P 0 (Lemmas.vals H (data.length * M % 2 ^ 64) data)) := by
  obtain ⟨_, _, hn, _, _, hd⟩ := Lemmas.build_spec H P M data f hb
  unfold Filter.nBytes
  rw [hn, hd, Lemmas.writeVarInt_eq_compactSize]

/-- the other serialisations: `PBytes = P ‖ data`, `NPBytes = CompactSize(N) ‖ P ‖ data`, `Bytes = data` -/
theorem pbytes_npbytes_format (f : Filter) :
    f.bytes = f.data ∧ f.pBytes = UInt8.ofNat f.p :: f.data ∧
    f.npBytes = compactSize f.n ++ UInt8.ofNat f.p :: f.data := by
  refine ⟨rfl, rfl, ?_⟩
  unfold Filter.npBytes
  rw [Lemmas.writeVarInt_eq_compactSize]

/-- every value stored in a built filter lies in the BIP158 range `[0, F)`, `F = N·M mod 2^64 > 0` -/
theorem stored_values_in_range (H : Bytes → Nat) (hH : ∀ d, H d < 2 ^ 64) (nm : Nat) (hn : nm < 2 ^ 64)
    (h0 : 0 < nm) (data : List Bytes) : ∀ x ∈ Lemmas.vals H nm data, x < nm := by
  intro x hx
  rw [Lemmas.mem_vals, List.mem_map] at hx
  obtain ⟨d, _, rfl⟩ := hx
  rw [Lemmas.reduce_eq_mulhi _ _ (hH d) hn]
  rcases Lemmas.mulhi_lt (H d) nm (hH d) with h | h
  · exact h
  · omega

/-- `FromNBytes(P, M, NBytes(f)) = f` for every built filter. -/
theorem nbytes_roundtrip (H : Bytes → Nat) (P M : Nat) (data : List Bytes) (f : Filter)
    (hb : build H P M data = .ok f) : fromNBytes P M f.nBytes = .ok f :=
  Lemmas.nbytes_roundtrip H P M data f hb

/-- `FromBytes(N(f), P, M, Bytes(f)) = f` for every built filter. -/
theorem frombytes_roundtrip (H : Bytes → Nat) (P M : Nat) (data : List Bytes) (f : Filter)
    (hb : build H P M data = .ok f) : fromBytes f.n P M f.bytes = .ok f := by
  obtain ⟨hP, _, en, ep, em, _⟩ := Lemmas.build_spec H P M data f hb
  unfold fromBytes Filter.bytes
  rw [if_neg (by omega)]
  cases f
  simp only [] at en ep em ⊢
  subst en ep em
  rfl

/-- hence the deserialised filter matches every element it was built from -/
theorem roundtrip_no_false_negative (H : Bytes → Nat) (P M : Nat) (data : List Bytes) (f : Filter)
    (hb : build H P M data = .ok f) (d : Bytes) (hd : d ∈ data) :
    ∃ g, fromNBytes P M f.nBytes = .ok g ∧ g.matches H d = true :=
  ⟨f, nbytes_roundtrip H P M data f hb, gcs_no_false_negative H P M data f hb d hd⟩

example : ∃ f, build (fun _ => 7) 19 784931 [[1], [2], [1]] = .ok f :=
  build_succeeds _ 19 784931 _ (by decide) (by decide)

/-! ### BIP158 basic filter, BIP157 header chain -/

/-- The entries `BuildBasicFilter` feeds the builder are exactly BIP158's: every output script that is
    non-empty and does not start with OP_RETURN, every spent previous-output script that is non-empty. -/
theorem basic_filter_entries (outs : List (List Bytes)) (prevs : List Bytes) :
    basicEntries outs prevs = basicElements outs prevs := Lemmas.basicEntries_eq_spec outs prevs

/-- exactly which scripts are BIP158 elements of a block: an output script iff it is non-empty and its first
    byte is not OP_RETURN (0x6a); a spent previous-output script iff it is non-empty -/
theorem basic_elements_iff (outs : List (List Bytes)) (prevs : List Bytes) (s : Bytes) :
    s ∈ basicElements outs prevs ↔
      (s ∈ outs.flatten ∧ ∃ b t, s = b :: t ∧ b ≠ OP_RETURN) ∨ (s ∈ prevs ∧ s ≠ []) := by
  unfold basicElements
  rw [List.mem_append, List.mem_filter, List.mem_filter]
  constructor
  · rintro (⟨h1, h2⟩ | ⟨h1, h2⟩)
    · left
      refine ⟨h1, ?_⟩
      cases s with
      | nil => simp at h2
      | cons b t => exact ⟨b, t, rfl, by simpa using h2⟩
    · right
      refine ⟨h1, ?_⟩
      cases s with
      | nil => simp at h2
      | cons b t => simp
  · rintro (⟨h1, b, t, rfl, hb⟩ | ⟨h1, h2⟩)
    · left; exact ⟨h1, by simpa using hb⟩
    · right
      refine ⟨h1, ?_⟩
      cases s with
      | nil => exact absurd rfl h2
      | cons b t => simp

/-- The basic filter of a block (key = first 16 bytes of the block hash, P = 19, M = 784931) matches
    every BIP158 element of the block. -/
theorem basic_filter_contents (Hk : Bytes → Bytes → Nat) (blockHash : Bytes)
    (outs : List (List Bytes)) (prevs : List Bytes) (f : Filter)
    (hb : buildBasicFilter Hk blockHash outs prevs = .ok f) (s : Bytes)
    (hs : s ∈ basicElements outs prevs) :
    f.matches (Hk (blockHash.take 16)) s = true := by
  unfold buildBasicFilter at hb
  apply gcs_no_false_negative _ _ _ _ f hb s
  rw [Lemmas.mem_dedup, basic_filter_entries]
  exact hs

/-- and is built with the BIP158 parameters over the de-duplicated element set -/
theorem basic_filter_params (Hk : Bytes → Bytes → Nat) (blockHash : Bytes)
    (outs : List (List Bytes)) (prevs : List Bytes) (f : Filter)
    (hb : buildBasicFilter Hk blockHash outs prevs = .ok f) :
    f.p = 19 ∧ f.n = (dedup (basicElements outs prevs)).length ∧ (dedup (basicElements outs prevs)).Nodup ∧
    f.modulusNP = f.n * 784931 % 2 ^ 64 := by
  unfold buildBasicFilter at hb
  obtain ⟨_, _, hn, hp, hm, _⟩ := Lemmas.build_spec _ _ _ _ f hb
  rw [basic_filter_entries] at hn hm
  exact ⟨hp, hn, Lemmas.dedup_nodup _, by rw [hm, hn]; rfl⟩

/-- BIP157: filter hash = dSHA256(NBytes), header = dSHA256(filterHash ‖ prevHeader). -/
theorem filter_header_chain (dsha : Bytes → Bytes) (f : Filter) (prev : Bytes) :
    filterHash dsha f = dsha (compactSize f.n ++ f.data) ∧
    makeHeaderForFilter dsha f prev = filterHeader dsha (filterHash dsha f) prev := by
  refine ⟨?_, rfl⟩
  unfold filterHash Filter.nBytes
  rw [Lemmas.writeVarInt_eq_compactSize]

/-- a sequence of filters chains as BIP157's `headerChain` -/
theorem filter_header_chain_seq (dsha : Bytes → Bytes) (fs : List Filter) (prev : Bytes) :
    headerChain dsha prev (fs.map (filterHash dsha)) =
      (fs.foldl (fun (acc : List Bytes × Bytes) f =>
        let h := makeHeaderForFilter dsha f acc.2; (acc.1 ++ [h], h)) ([], prev)).1 := by
  suffices h : ∀ (pre : List Bytes), pre ++ headerChain dsha prev (fs.map (filterHash dsha)) =
      (fs.foldl (fun (acc : List Bytes × Bytes) f =>
        let h := makeHeaderForFilter dsha f acc.2; (acc.1 ++ [h], h)) (pre, prev)).1 by
    simpa using h []
  induction fs generalizing prev with
  | nil => intro pre; simp [headerChain]
  | cons f fs ih =>
    intro pre
    simp only [List.map_cons, headerChain, List.foldl_cons]
    rw [← ih]
    simp [makeHeaderForFilter, filterHeader]

/-! ### GCSBuilder API, committed-filter index -/

/-- `AddEntries` on a builder without error: the entry set grows by exactly the given items, stays
    duplicate-free, and P, M, key are untouched (`AddEntry`, `AddHash`, `AddWitness` are instances). -/
theorem builder_add_entries (b b' : Builder) (l ds : List Bytes) (he : b.err = none)
    (hd : b.data = some l) (h : b.addEntries ds = some b') :
    ∃ l', b'.data = some l' ∧ (∀ x, x ∈ l' ↔ x ∈ l ∨ x ∈ ds) ∧ (l.Nodup → l'.Nodup) ∧
      b'.err = none ∧ b'.p = b.p ∧ b'.m = b.m ∧ b'.key = b.key :=
  Lemmas.addEntries_spec ds b b' l he hd h

/-- `Build()` succeeds only with no sticky error, P and M set, and is `BuildGCSFilter(p, m, key, entries)`;
    hence the built filter matches every entry that was added. -/
theorem builder_no_false_negative (Hk : Bytes → Bytes → Nat) (b : Builder) (l : List Bytes) (f : Filter)
    (hd : b.data = some l) (hb : b.build Hk = .ok f) :
    b.err = none ∧ 0 < b.p ∧ 0 < b.m ∧ BV.C20.build (Hk b.key) b.p b.m l = .ok f ∧
    ∀ d ∈ l, f.matches (Hk b.key) d = true := by
  obtain ⟨h1, h2, h3, h4⟩ := Lemmas.builder_build_spec Hk b l f hd hb
  exact ⟨h1, h2, h3, h4, fun d hm => gcs_no_false_negative _ _ _ _ f h4 d hm⟩

/-- the sticky errors of the setters: `SetP(p > 32)` and `SetM(m > 2^32-1)` make every later `Build` fail -/
theorem builder_setter_limits (Hk : Bytes → Bytes → Nat) (b : Builder) (he : b.err = none) (p m : Nat) :
    (32 < p → (b.setP p).build Hk = .error .pTooBig) ∧ (p ≤ 32 → (b.setP p).p = p ∧ (b.setP p).err = none) ∧
    (0xffffffff < m → (b.setM m).build Hk = .error .pTooBig) ∧
    (m ≤ 0xffffffff → (b.setM m).m = m ∧ (b.setM m).err = none) := by
  refine ⟨?_, ?_, ?_, ?_⟩
  · intro h; simp [Builder.setP, he, h, Builder.build]
  · intro h; have : ¬ 32 < p := by omega
    simp [Builder.setP, he, this]
  · intro h; simp [Builder.setM, he, h, Builder.build]
  · intro h; have : ¬ 0xffffffff < m := by omega
    simp [Builder.setM, he, this]

/-- `ConnectBlock` (storeFilter): on success the block's entry is the BIP158 filter, its hash, and the
    BIP157 header chained on the previous block's stored header (32 zero bytes for a zero PrevBlock);
    every other block's entry is untouched. It fails iff the filter cannot be built or the previous header
    is missing. -/
theorem cfindex_connect (Hk : Bytes → Bytes → Nat) (dsha : Bytes → Bytes) (idx idx' : CfIndex)
    (bh prev : Bytes) (outs : List (List Bytes)) (prevs : List Bytes)
    (h : idx.connect Hk dsha bh prev outs prevs = some idx') :
    ∃ f ph, buildBasicFilter Hk bh outs prevs = .ok f ∧
      ((prev = zeroHash ∧ ph = zeroHash) ∨ (prev ≠ zeroHash ∧ ∃ e, idx.lookup prev = some e ∧ ph = e.header)) ∧
      idx'.lookup bh = some ⟨bh, f.nBytes, filterHash dsha f, filterHeader dsha (filterHash dsha f) ph⟩ ∧
      ∀ x, x ≠ bh → idx'.lookup x = idx.lookup x :=
  Lemmas.connect_spec Hk dsha idx idx' bh prev outs prevs h

/-- BIP157 through the index: connecting (from the empty index or on top of a stored block `first`) a list
    of blocks, each naming its predecessor as PrevBlock, with distinct non-zero hashes, leaves the header
    chain `headerChain dsha firstHeader (filter hashes)` in the header bucket. -/
theorem cfindex_header_chain (Hk : Bytes → Bytes → Nat) (dsha : Bytes → Bytes) (bs : List CfBlockIn)
    (idx idx' : CfIndex) (first firstHeader : Bytes)
    (hfirst : (first = zeroHash ∧ firstHeader = zeroHash) ∨
      (first ≠ zeroHash ∧ ∃ e, idx.lookup first = some e ∧ e.header = firstHeader))
    (hlink : cfLinked first bs) (hnd : (bs.map (·.bh)).Nodup) (hnz : ∀ b ∈ bs, b.bh ≠ zeroHash)
    (hnot : first ∉ bs.map (·.bh)) (h : CfIndex.connectAll Hk dsha idx bs = some idx') :
    bs.map (fun b => (idx'.lookup b.bh).map (·.header)) =
      (headerChain dsha firstHeader (bs.map (cfFilterHash Hk dsha))).map some :=
  Lemmas.connectAll_headers Hk dsha bs idx idx' first firstHeader hfirst hlink hnd hnz hnot h

/-- `DisconnectBlock` removes exactly that block's three entries. -/
theorem cfindex_disconnect (idx : CfIndex) (bh : Bytes) :
    (idx.disconnect bh).lookup bh = none ∧ ∀ x, x ≠ bh → (idx.disconnect bh).lookup x = idx.lookup x :=
  ⟨Lemmas.lookup_filter_self idx bh, fun x hx => Lemmas.lookup_filter_ne idx bh x hx⟩

/-! ### merkle block (partial merkle tree), node hash `hh` abstract -/

/-- The recursive `calcHash(height, 0)` of merkleblock.go is the Bitcoin merkle root (level-by-level
    pairing, an odd last node paired with itself) — the root in the block header. -/
theorem pmt_root_is_merkle_root {α : Type} (hh : α → α → α) (dflt : α) (leaves : List α)
    (hne : leaves ≠ []) (hn : leaves.length ≤ 2 ^ 64) :
    Pmt.calcHash hh dflt leaves (Pmt.treeHeight leaves.length) 0 = Pmt.merkleRoot hh dflt leaves :=
  Pmt.calcHash_root hh dflt leaves hne hn

/-- BIP37 extraction of the merkle block built by `NewMerkleBlock` (for ANY number of transactions
    n ≥ 1 — odd levels, n = 1, … — and ANY matched subset) succeeds and yields exactly the matched
    transactions (index and txid, in block order) under the block's merkle root. -/
theorem pmt_extract_build {α : Type} (hh : α → α → α) (dflt : α) (leaves : List α) (matched : List Bool)
    (hne : leaves ≠ []) (hlen : matched.length = leaves.length) (hn : leaves.length ≤ 2 ^ 64) :
    Pmt.extract hh leaves.length (Pmt.packFlags (Pmt.newMerkleBlock hh dflt leaves matched).bits)
        (Pmt.newMerkleBlock hh dflt leaves matched).hashes
      = some (Pmt.merkleRoot hh dflt leaves,
              ((List.range leaves.length).filter (fun i => matched.getD i false)).map
                (fun i => (i, leaves.getD i dflt))) := by
  rw [Pmt.extract_newMerkleBlock hh dflt leaves matched hne hlen,
    Pmt.matchedUnder_root dflt leaves matched hlen hn, Pmt.calcHash_root hh dflt leaves hne hn]

/-- The same with Bitcoin Core's CVE-2012-2459 guard in the extractor (reject an inner node whose two
    real children hash equal): it never fires on a built merkle block when no two sibling subtrees of
    the block have equal hashes (true for a collision-free hash over distinct transactions). -/
theorem pmt_extract_build_strict {α : Type} [DecidableEq α] (hh : α → α → α) (dflt : α)
    (leaves : List α) (matched : List Bool) (hne : leaves ≠ []) (hlen : matched.length = leaves.length)
    (hn : leaves.length ≤ 2 ^ 64) (hd : Pmt.DistinctSiblings hh dflt leaves) :
    Pmt.extractStrict hh leaves.length (Pmt.packFlags (Pmt.newMerkleBlock hh dflt leaves matched).bits)
        (Pmt.newMerkleBlock hh dflt leaves matched).hashes
      = some (Pmt.merkleRoot hh dflt leaves,
              ((List.range leaves.length).filter (fun i => matched.getD i false)).map
                (fun i => (i, leaves.getD i dflt))) := by
  rw [Pmt.extractStrict_newMerkleBlock hh dflt leaves matched hne hlen hd,
    Pmt.matchedUnder_root dflt leaves matched hlen hn, Pmt.calcHash_root hh dflt leaves hne hn]

example : Pmt.DistinctSiblings (fun (a b : Nat) => a + b) 0 [7] := by
  intro h pos hw
  have : Pmt.width 1 h = 1 := by
    unfold Pmt.width
    have hp : 0 < 2 ^ h := Nat.pow_pos (by decide)
    rw [show 1 + 2 ^ h - 1 = 2 ^ h by omega, Nat.div_self hp]
  simp only [List.length_cons, List.length_nil, Nat.zero_add, this] at hw
  omega

/-- The merkleblock message round-trips on the wire: `BtcDecode(BtcEncode(m) ‖ rest) = (m, rest)` for
    every protocol version ≥ 70001 and every message within the limits (400001 hashes, 50000 flag bytes). -/
theorem pmt_wire_roundtrip (pver : Nat) (m : PmtWire.Msg) (rest : Bytes)
    (hp : PmtWire.BIP0037_VERSION ≤ pver) (hh : m.header.length = 80) (ht : m.transactions < 2 ^ 32)
    (h32 : ∀ h ∈ m.hashes, h.length = 32) (hc : m.hashes.length ≤ PmtWire.MAX_TX_PER_BLOCK)
    (hf : m.flags.length ≤ PmtWire.MAX_FLAGS) :
    ∃ b, PmtWire.encode pver m = .ok b ∧ PmtWire.decode pver (b ++ rest) = .ok (m, rest) :=
  Lemmas.wire_roundtrip pver m rest hp hh ht h32 hc hf

/-- and is refused below protocol version 70001 and above the limits -/
theorem pmt_wire_limits (pver : Nat) (m : PmtWire.Msg) (b : Bytes) :
    (pver < PmtWire.BIP0037_VERSION → PmtWire.encode pver m = .error .pver ∧ PmtWire.decode pver b = .error .pver) ∧
    (PmtWire.BIP0037_VERSION ≤ pver → PmtWire.MAX_TX_PER_BLOCK < m.hashes.length →
      PmtWire.encode pver m = .error .tooManyHashes) := by
  refine ⟨fun h => ⟨by simp [PmtWire.encode, h], by simp [PmtWire.decode, h]⟩, fun h1 h2 => ?_⟩
  have : ¬ pver < PmtWire.BIP0037_VERSION := by omega
  simp [PmtWire.encode, this, h2]

/-- Soundness ("proves exactly"): ANY flag bytes and hash list — however produced — whose BIP37 extraction
    succeeds with the block's merkle root prove only real transactions of the block at their real positions,
    provided the node hash is collision-free (explicit hypothesis: `hh` injective). -/
theorem pmt_extract_sound {α : Type} (hh : α → α → α) (dflt : α)
    (inj : ∀ a b c d : α, hh a b = hh c d → a = c ∧ b = d) (leaves : List α)
    (hn : leaves.length ≤ 2 ^ 64) (flags : List UInt8) (hashes : List α) (m : List (Nat × α))
    (hex : Pmt.extract hh leaves.length flags hashes = some (Pmt.merkleRoot hh dflt leaves, m)) :
    ∀ p ∈ m, p.1 < leaves.length ∧ p.2 = leaves.getD p.1 dflt :=
  Pmt.extract_sound hh dflt inj leaves hn flags hashes m hex

example : ∀ a b c d : List Nat, (fun (x y : List Nat) => x.length :: (x ++ y)) a b =
    (fun (x y : List Nat) => x.length :: (x ++ y)) c d → a = c ∧ b = d := by
  intro a b c d h
  simp only [List.cons.injEq] at h
  obtain ⟨hl, happ⟩ := h
  exact List.append_inj happ hl

/-- the index list `NewMerkleBlock` returns is the same matched set -/
theorem pmt_matched_indices {α : Type} (hh : α → α → α) (dflt : α) (leaves : List α) (matched : List Bool) :
    (Pmt.newMerkleBlock hh dflt leaves matched).matchedIdx =
      (List.range leaves.length).filter (fun i => matched.getD i false) ∧
    (Pmt.newMerkleBlock hh dflt leaves matched).numTx = leaves.length := ⟨rfl, rfl⟩

/-- size limits of the message: at most one hash per transaction and per flag bit; the flag bytes
    are ⌈bits/8⌉ and unpack to the bits plus zero padding. -/
theorem pmt_sizes {α : Type} (hh : α → α → α) (dflt : α) (leaves : List α) (matched : List Bool)
    (hne : leaves ≠ []) :
    let mb := Pmt.newMerkleBlock hh dflt leaves matched
    mb.hashes.length ≤ leaves.length ∧ mb.hashes.length ≤ mb.bits.length ∧
    (Pmt.packFlags mb.bits).length = (mb.bits.length + 7) / 8 ∧
    ∃ k, k < 8 ∧ Pmt.unpackFlags (Pmt.packFlags mb.bits) = mb.bits ++ List.replicate k false := by
  have hn : 0 < leaves.length := List.length_pos_iff.mpr hne
  have hb := Pmt.traverse_hashes_bound hh dflt leaves matched (Pmt.treeHeight leaves.length) 0 (by omega)
  refine ⟨by simp only [Pmt.newMerkleBlock]; omega,
    Pmt.traverse_hashes_le_bits hh dflt leaves matched _ 0, Pmt.packFlags_length _, Pmt.unpack_packFlags _⟩

example : Pmt.extract (fun (a b : Nat) => a + 2 * b + 1) 3 [0x0b] [7, 8, 28] =
    some (Pmt.calcHash (fun (a b : Nat) => a + 2 * b + 1) 0 [7, 8, 9] 2 0, [(1, 8)]) := by decide

/-! ## bloom filters (BIP37)
`h : UInt32 → Bloom.Bytes → UInt32` is the murmur hash (seed, data): every theorem holds for EVERY such
function. Size hypotheses: `0 < L` (non-empty bit field) and `L * 8 < 2^32` (Go computes the divisor as
`uint32(len) << 3`; wire.MaxFilterLoadFilterSize = 36000). Nothing is assumed about the number of hash
functions (0, > 50 included), the tweak or the flags. -/

/-! ### a bloom filter matches everything inserted into it -/

/-- `Add(d)` then `Matches(d)`: true, for every non-empty field, hash-function count, tweak, flags. -/
theorem bloom_add_then_matches (h : UInt32 → Bloom.Bytes → UInt32) (f : Bloom.Filter) (d : Bloom.Bytes)
    (h0 : 0 < f.bits.length) (h1 : f.bits.length * 8 < 2 ^ 32) :
    (f.add h d).matches h d = true :=
  Bloom.Filter.add_then_matches_of_ok h f d (Bloom.Filter.panics_false_of_size f h0 h1) h0

/-- `Add` only sets bits: what matches keeps matching after any further `Add` (no hypothesis at all). -/
theorem bloom_add_monotone (h : UInt32 → Bloom.Bytes → UInt32) (f : Bloom.Filter) (d x : Bloom.Bytes)
    (hm : f.matches h d = true) : (f.add h x).matches h d = true :=
  Bloom.Filter.matches_mono h (Bloom.Filter.le_add h f x) d hm

/-- … and after any sequence of further `Add`s. -/
theorem bloom_matches_after_more_adds (h : UInt32 → Bloom.Bytes → UInt32) (f : Bloom.Filter) (d : Bloom.Bytes)
    (xs : List Bloom.Bytes) (hm : f.matches h d = true) : (xs.foldl (Bloom.Filter.add h) f).matches h d = true :=
  Bloom.Filter.matches_mono h (Bloom.Filter.le_foldl_add h xs f) d hm

/-- The property: after ANY insertion sequence `ds` into a filter with a non-empty bit field, every
    inserted element matches (no false negatives). -/
theorem bloom_matches_everything_inserted (h : UInt32 → Bloom.Bytes → UInt32) (f : Bloom.Filter)
    (ds : List Bloom.Bytes) (h0 : 0 < f.bits.length) (h1 : f.bits.length * 8 < 2 ^ 32) :
    ∀ d ∈ ds, (ds.foldl (Bloom.Filter.add h) f).matches h d = true :=
  Bloom.Filter.matches_after_adds_of_ok h ds f (Bloom.Filter.panics_false_of_size f h0 h1) h0

/-- `Add` leaves the size of the bit field, the hash-function count, the tweak and the flags alone. -/
theorem bloom_add_preserves_size (h : UInt32 → Bloom.Bytes → UInt32) (f : Bloom.Filter) (d : Bloom.Bytes) :
    (f.add h d).bits.length = f.bits.length ∧ (f.add h d).hashFuncs = f.hashFuncs ∧
    (f.add h d).tweak = f.tweak ∧ (f.add h d).flags = f.flags :=
  Bloom.Filter.add_preserves h f d

/-- `AddOutPoint` then `MatchesOutPoint` (32-byte hash ‖ LE32 index). -/
theorem bloom_outpoint_add_then_matches (h : UInt32 → Bloom.Bytes → UInt32) (f : Bloom.Filter)
    (hash : Bloom.Bytes) (index : UInt32) (h0 : 0 < f.bits.length) (h1 : f.bits.length * 8 < 2 ^ 32) :
    (f.addOutPoint h hash index).matchesOutPoint h hash index = true :=
  bloom_add_then_matches h f _ h0 h1

/-- A non-empty field with ZERO hash functions (what `NewFilter(100000000, _, 0.01, _)` yields) matches
    everything — in particular what was added (the behaviour after fix d309858b; before, nothing matched). -/
theorem bloom_zero_funcs_matches_all (h : UInt32 → Bloom.Bytes → UInt32) (f : Bloom.Filter) (d : Bloom.Bytes)
    (hk : f.hashFuncs = 0) (h0 : 0 < f.bits.length) : f.matches h d = true :=
  Bloom.Filter.zero_funcs_matches h f d hk h0

/-! ### empty / unloaded filters and Go panics (outer `none` of the `?` functions = panic) -/

/-- A loaded filter with an empty bit field (`LoadFilter` normalises its hash-function count to 0):
    `Matches` is false and `Add` is a no-op — the division by `len*8 = 0` is never reached. -/
theorem bloom_empty_never_matches (h : UInt32 → Bloom.Bytes → UInt32) (f : Bloom.Filter) (d : Bloom.Bytes)
    (he : f.bits.length = 0) :
    Bloom.matches? h (Bloom.load (some f)) d = some false ∧
    Bloom.add? h (Bloom.load (some f)) d = some (Bloom.load (some f)) :=
  ⟨Bloom.load_empty_matches h f d he, Bloom.load_empty_add h f d he⟩

/-- The unloaded (nil) filter matches nothing and ignores `Add`. -/
theorem bloom_unloaded (h : UInt32 → Bloom.Bytes → UInt32) (d : Bloom.Bytes) :
    Bloom.matches? h (Bloom.load none) d = some false ∧ Bloom.add? h (Bloom.load none) d = some none :=
  ⟨rfl, rfl⟩

/-- With a non-empty field below 2^29 bytes neither `Add` nor `Matches` panics, and `LoadFilter` keeps
    the message as it is. -/
theorem bloom_no_panic (h : UInt32 → Bloom.Bytes → UInt32) (f : Bloom.Filter) (d : Bloom.Bytes)
    (h0 : 0 < f.bits.length) (h1 : f.bits.length * 8 < 2 ^ 32) :
    Bloom.load (some f) = some f ∧ Bloom.add? h (some f) d = some (some (f.add h d)) ∧
    Bloom.matches? h (some f) d = some (f.matches h d) :=
  ⟨Bloom.load_of_nonempty f h0, Bloom.no_panic_of_size h f d h0 h1⟩

/-- No index-out-of-range: every bit offset `mm % (uint32(len) << 3)` lies inside the field, for every
    length (even one whose `len*8` wraps) as long as the divisor is non-zero. -/
theorem bloom_offset_in_range (x : UInt32) (bits : Bloom.Bytes) (hn : Bloom.nbits bits ≠ 0) :
    ((x % Bloom.nbits bits) >>> 3).toNat < bits.length :=
  Bloom.in_range x bits hn

/-! ### the model's addressing is BIP37's -/

/-- `Filter[idx>>3] & (1<<(idx&7))` is bit `idx % 8` (LSB first) of byte `idx / 8`. -/
theorem bloom_bit_numbering (bits : Bloom.Bytes) (idx : UInt32) :
    Bloom.testBit bits idx = Bloom.Spec.bitAt bits idx.toNat :=
  Bloom.testBit_eq_bitAt bits idx

/-- `hash(i, data) = murmur(i*0xFBA4C795 + tweak, data) mod (L*8)` when `L*8 < 2^32`. -/
theorem bloom_hash_is_bip37 (h : UInt32 → Bloom.Bytes → UInt32) (tweak : UInt32) (bits : Bloom.Bytes)
    (i : Nat) (d : Bloom.Bytes) (h1 : bits.length * 8 < 2 ^ 32) :
    (Bloom.hashIdx h tweak (Bloom.nbits bits) (UInt32.ofNat i) d).toNat
      = Bloom.Spec.bitIndex h tweak bits.length i d :=
  Bloom.hashIdx_eq_bitIndex h tweak bits i d h1

/-- Model = Spec for `Add`: afterwards bit `n` is set iff it was set before or it is one of the
    `hashFuncs` BIP37 offsets of `d` — `Add` sets exactly the protocol's bits, nothing else. -/
theorem bloom_add_is_bip37 (h : UInt32 → Bloom.Bytes → UInt32) (f : Bloom.Filter) (d : Bloom.Bytes) (n : Nat)
    (h1 : f.bits.length * 8 < 2 ^ 32) (hn : n < f.bits.length * 8) :
    Bloom.Spec.bitAt (f.add h d).bits n =
      (Bloom.Spec.bitAt f.bits n ||
        (List.range f.hashFuncs.toNat).any
          (fun i => decide (Bloom.Spec.bitIndex h f.tweak f.bits.length i d = n))) :=
  Bloom.add_spec h f d n h1 hn

/-- Model = Spec for `Matches`: a non-empty field all of whose `hashFuncs` BIP37 offsets of `d` are set. -/
theorem bloom_matches_is_bip37 (h : UInt32 → Bloom.Bytes → UInt32) (f : Bloom.Filter) (d : Bloom.Bytes)
    (h1 : f.bits.length * 8 < 2 ^ 32) :
    f.matches h d =
      ((List.range f.hashFuncs.toNat).all
          (fun i => Bloom.Spec.bitAt f.bits (Bloom.Spec.bitIndex h f.tweak f.bits.length i d))
        && decide (0 < f.bits.length)) :=
  Bloom.matches_spec h f d h1

/-! ### MatchTxAndUpdate -/

/-- A transaction is matched as soon as the filter matches one of its BIP37 data elements: its txid, a
    data push of an output script, a spent outpoint, a data push of a signature script. -/
theorem bloom_tx_matched_of_element (h : UInt32 → Bloom.Bytes → UInt32) (f : Bloom.Filter) (tx : Bloom.Tx)
    (x : Bloom.Bytes) (hx : x ∈ tx.elements) (hm : f.matches h x = true) :
    (f.matchTxAndUpdate h tx).1 = true :=
  Bloom.Filter.matchTx_of_element h f tx x hx hm

/-- … hence a transaction containing anything that was inserted (by any insertion sequence) is matched. -/
theorem bloom_tx_matched_if_inserted (h : UInt32 → Bloom.Bytes → UInt32) (f : Bloom.Filter) (tx : Bloom.Tx)
    (ds : List Bloom.Bytes) (x : Bloom.Bytes) (hd : x ∈ ds) (hx : x ∈ tx.elements)
    (h0 : 0 < f.bits.length) (h1 : f.bits.length * 8 < 2 ^ 32) :
    ((ds.foldl (Bloom.Filter.add h) f).matchTxAndUpdate h tx).1 = true :=
  bloom_tx_matched_of_element h _ tx x hx (bloom_matches_everything_inserted h f ds h0 h1 x hd)

/-- `MatchTxAndUpdate` only adds: shape and parameters are kept, whatever matched still matches. -/
theorem bloom_tx_update_monotone (h : UInt32 → Bloom.Bytes → UInt32) (f : Bloom.Filter) (tx : Bloom.Tx)
    (d : Bloom.Bytes) (hm : f.matches h d = true) :
    ((f.matchTxAndUpdate h tx).2.matches h d = true) ∧
    (f.matchTxAndUpdate h tx).2.bits.length = f.bits.length ∧
    (f.matchTxAndUpdate h tx).2.hashFuncs = f.hashFuncs ∧ (f.matchTxAndUpdate h tx).2.tweak = f.tweak ∧
    (f.matchTxAndUpdate h tx).2.flags = f.flags :=
  have l := Bloom.Filter.matchTx_le h f tx
  ⟨Bloom.Filter.matches_mono h l d hm, l.len, l.k, l.tweak, l.flags⟩

/-- BloomUpdateAll: the outpoint (txid, k) of every output one of whose data pushes matches the filter
    matches afterwards. -/
theorem bloom_update_all (h : UInt32 → Bloom.Bytes → UInt32) (f : Bloom.Filter) (tx : Bloom.Tx)
    (h0 : 0 < f.bits.length) (h1 : f.bits.length * 8 < 2 ^ 32) (hf : f.flags = Bloom.Spec.UPDATE_ALL)
    (k : Nat) (o : Bloom.TxOut) (hk : tx.outs[k]? = some o) (hm : Bloom.Filter.anyPush h f o.pushes = true) :
    (f.matchTxAndUpdate h tx).2.matchesOutPoint h tx.txid (UInt32.ofNat k) = true := by
  rw [Bloom.Filter.matchTx_snd]
  have := Bloom.Filter.outsLoop_updates h tx.txid tx.outs 0 (f.matches h tx.txid) f
    (Bloom.Filter.panics_false_of_size f h0 h1) h0 k o hk hm (by unfold Bloom.Filter.shouldAdd; simp [hf])
  simpa using this

/-- BloomUpdateP2PubkeyOnly: the same for outputs whose script is pay-to-pubkey or bare multisig … -/
theorem bloom_update_p2pubkey_only (h : UInt32 → Bloom.Bytes → UInt32) (f : Bloom.Filter) (tx : Bloom.Tx)
    (h0 : 0 < f.bits.length) (h1 : f.bits.length * 8 < 2 ^ 32) (hf : f.flags = Bloom.Spec.UPDATE_P2PUBKEY_ONLY)
    (k : Nat) (o : Bloom.TxOut) (hk : tx.outs[k]? = some o) (hm : Bloom.Filter.anyPush h f o.pushes = true)
    (hpk : o.isPk = true) :
    (f.matchTxAndUpdate h tx).2.matchesOutPoint h tx.txid (UInt32.ofNat k) = true := by
  rw [Bloom.Filter.matchTx_snd]
  have := Bloom.Filter.outsLoop_updates h tx.txid tx.outs 0 (f.matches h tx.txid) f
    (Bloom.Filter.panics_false_of_size f h0 h1) h0 k o hk hm
    (by unfold Bloom.Filter.shouldAdd; rw [hf, hpk]; decide)
  simpa using this

/-- … and only for those: without such an output the filter is left exactly as it was. -/
theorem bloom_update_p2pubkey_only_others (h : UInt32 → Bloom.Bytes → UInt32) (f : Bloom.Filter) (tx : Bloom.Tx)
    (hf : f.flags = Bloom.Spec.UPDATE_P2PUBKEY_ONLY) (hpk : ∀ o ∈ tx.outs, o.isPk = false) :
    (f.matchTxAndUpdate h tx).2 = f := by
  rw [Bloom.Filter.matchTx_snd]
  exact Bloom.Filter.outsLoop_unchanged h tx.txid tx.outs 0 _ f
    (fun o ho => by unfold Bloom.Filter.shouldAdd; rw [hf, hpk o ho]; decide)

/-- BloomUpdateNone (and every flag value other than 1 and 2): the filter is never changed. -/
theorem bloom_update_none (h : UInt32 → Bloom.Bytes → UInt32) (f : Bloom.Filter) (tx : Bloom.Tx)
    (hf1 : f.flags ≠ Bloom.Spec.UPDATE_ALL) (hf2 : f.flags ≠ Bloom.Spec.UPDATE_P2PUBKEY_ONLY) :
    (f.matchTxAndUpdate h tx).2 = f := by
  rw [Bloom.Filter.matchTx_snd]
  exact Bloom.Filter.outsLoop_unchanged h tx.txid tx.outs 0 _ f
    (fun o _ => by unfold Bloom.Filter.shouldAdd; simp [hf1, hf2])

/-! ### non-vacuity: the hypotheses are satisfiable (boundary sizes; a toy hash for the tx theorems) -/

/-- a 1-byte field with zero hash functions (the trigger of the fixed finding), 36000 bytes with 50 -/
example : ∃ f : Bloom.Filter, 0 < f.bits.length ∧ f.bits.length * 8 < 2 ^ 32 ∧ f.hashFuncs = 0 :=
  ⟨⟨[0], 0, 0, 0⟩, by decide⟩

example : ∃ f : Bloom.Filter, 0 < f.bits.length ∧ f.bits.length * 8 < 2 ^ 32 ∧ f.hashFuncs = 50 ∧
    f.bits.length = 36000 := by
  refine ⟨⟨List.replicate 36000 0, 50, 0xffffffff, 1⟩, ?_⟩
  simp only [List.length_replicate]
  decide

/-- a concrete instance: hash = sum of seed and first byte; UpdateAll inserts the matched outpoint -/
example :
    let h : UInt32 → Bloom.Bytes → UInt32 := fun s d => s + (d.headD 0).toUInt32
    let f : Bloom.Filter := ⟨[0, 0], 2, 5, Bloom.Spec.UPDATE_ALL⟩
    let tx : Bloom.Tx := ⟨[7], [⟨some [[9]], false⟩], []⟩
    (f.matchTxAndUpdate h tx).1 = false ∧ ((f.add h [9]).matchTxAndUpdate h tx).1 = true ∧
    ((f.add h [9]).matchTxAndUpdate h tx).2.matchesOutPoint h [7] 0 = true ∧ [9] ∈ tx.elements := by
  decide

/-! ### pinning of regenerated facts (T2) -/

theorem pin_bloom_limits :
    Generated.C20.maxFilterLoadFilterSize = (Bloom.Spec.MAX_FILTER_SIZE : Int) ∧
    Generated.C20.maxFilterLoadHashFuncs = (Bloom.Spec.MAX_HASH_FUNCS : Int) ∧
    Generated.C20.bloomUpdateNone = (Bloom.Spec.UPDATE_NONE.toNat : Int) ∧
    Generated.C20.bloomUpdateAll = (Bloom.Spec.UPDATE_ALL.toNat : Int) ∧
    Generated.C20.bloomUpdateP2PubkeyOnly = (Bloom.Spec.UPDATE_P2PUBKEY_ONLY.toNat : Int) ∧
    Generated.C20.outPointSize = 36 ∧
    (Bloom.Spec.outPointBytes (List.replicate 32 0) 0).length = 36 ∧
    Bloom.Spec.MAX_FILTER_SIZE * 8 < 2 ^ 32 := by decide


/-! ### pinning of regenerated facts (T2) -/

/-- protocol constants of the merkleblock message: command string, the protocol version that introduced
    it, and the 4 000 000-byte message bound. (The decoder's internal sanity caps on the two counts are NOT
    pinned: they are parameters of the model, see `pmt_wire_roundtrip`.) -/
theorem pin_merkleblock_wire :
    Generated.C20.merkleBlockCommand = "merkleblock" ∧ Generated.C20.merkleBlockMaxPayload = 4000000 ∧
    Generated.C20.bip0037Version = (PmtWire.BIP0037_VERSION : Int) := by decide

theorem pin_basic_params :
    Generated.C20.defaultP = (BASIC_P : Int) ∧ Generated.C20.defaultM = (BASIC_M : Int) ∧
    Generated.C20.keySize = (KEY_SIZE : Int) ∧ Generated.C20.opReturn = (OP_RETURN.toNat : Int) ∧
    Generated.C20.hashSize = 32 := by decide

end BV.C20
