/-
C20 property theorems. Only statements of the property + non-vacuity examples live here;
helper lemmas are in Lemmas*.lean.
-/
import BV.C20.LemmasGolomb
import BV.Generated.C20
namespace BV.C20
open Spec

/-! ### range reduction -/

/-- `fastReduction` on the split modulus is the high 64 bits of the 128-bit product `v * nm`
    (BIP158 `hash_to_range`), for all 64-bit `v`, `nm`. -/
theorem fastReduction_eq_mulhi (v nm : Nat) (hv : v < 2 ^ 64) (hn : nm < 2 ^ 64) :
    fastReduction v (nm / 2 ^ 32) (nm % 2 ^ 32) = mulhi v nm :=
  Lemmas.reduce_eq_mulhi v nm hv hn

/-! ### pinning of regenerated facts (T2) -/

theorem pin_basic_params :
    Generated.C20.defaultP = (BASIC_P : Int) ∧ Generated.C20.defaultM = (BASIC_M : Int) ∧
    Generated.C20.keySize = (KEY_SIZE : Int) ∧ Generated.C20.opReturn = (OP_RETURN.toNat : Int) ∧
    Generated.C20.varIntProtoVer = 0 ∧ Generated.C20.hashSize = 32 := by decide

end BV.C20
