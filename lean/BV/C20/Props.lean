/-
C20 property theorems. Only statements of the property + non-vacuity examples live here;
helper lemmas are in Lemmas*.lean. `H` is the keyed hash (SipHash-2-4 under the filter key) as an
arbitrary function; `dsha` is double-SHA256 as an arbitrary function.
-/
import BV.C20.LemmasSer
import BV.C20.LemmasPmtRoot
import BV.Generated.C20
namespace BV.C20
open Spec

/-! ### range reduction -/

/-- `fastReduction` on the split modulus is the high 64 bits of the 128-bit product `v * nm`
    (BIP158 `hash_to_range`), for all 64-bit `v`, `nm`. -/
theorem fastReduction_eq_mulhi (v nm : Nat) (hv : v < 2 ^ 64) (hn : nm < 2 ^ 64) :
    fastReduction v (nm / 2 ^ 32) (nm % 2 ^ 32) = mulhi v nm :=
  Lemmas.reduce_eq_mulhi v nm hv hn

/-! ### Golomb-Rice coder -/

/-- Decoding `ds.length` values from the Golomb-Rice code of any list of 64-bit values `ds`, for ANY
    parameter `P` (in particular 0..32), returns `ds` and leaves whatever followed (padding) untouched. -/
theorem golomb_roundtrip (P : Nat) (ds : List Nat) (hb : ∀ x ∈ ds, x < 2 ^ 64) (pad : List Bool) :
    Lemmas.readN P ds.length (golombEncodeAll P ds ++ pad) = some (ds, pad) :=
  Lemmas.readN_golombEncodeAll P ds hb pad

/-- The builder's write loop over an ascending list is BIP158's `golomb_encode` of the differences. -/
theorem encode_eq_spec (P : Nat) (vs : List Nat) (hs : vs.Pairwise (fun a b => a ≤ b))
    (hb : ∀ x ∈ vs, x < 2 ^ 64) :
    encodeValues P 0 vs = golombEncodeAll P (deltas 0 vs) :=
  Lemmas.encodeValues_eq P 0 vs (Lemmas.asc_of_pairwise hs 0 (fun _ _ => Nat.zero_le _)) hb

/-- A byte stream written bit by bit reads back as the same bits followed by fewer than 8 zero bits. -/
theorem bitstream_roundtrip (bs : List Bool) :
    ∃ k, k < 8 ∧ unpackBits (packBits bs) = bs ++ List.replicate k false :=
  Lemmas.unpack_pack bs

example : Lemmas.readN 19 2 (golombEncodeAll 19 [5, 2 ^ 40] ++ [false, false, false]) =
    some ([5, 2 ^ 40], [false, false, false]) :=
  golomb_roundtrip 19 [5, 2 ^ 40] (by decide) _

/-! ### GCS build / match -/

/-- Building succeeds for every P ≤ 32 and every multiset of fewer than 2^32 items. -/
theorem build_succeeds (H : Bytes → Nat) (P M : Nat) (data : List Bytes) (hP : P ≤ 32)
    (hn : data.length < 2 ^ 32) : ∃ f, build H P M data = .ok f :=
  Lemmas.build_exists H P M data hP hn

/-- No false negatives: a filter built from `data` (any multiset: empty, duplicates, any size; any
    `P ≤ 32`, any `M`, any key/hash) matches every element of `data`. -/
theorem gcs_no_false_negative (H : Bytes → Nat) (P M : Nat) (data : List Bytes) (f : Filter)
    (hb : build H P M data = .ok f) (d : Bytes) (hd : d ∈ data) : f.matches H d = true := by
  rw [Lemmas.matches_built H P M data f hb, decide_eq_true_iff]
  exact List.mem_map.mpr ⟨d, hd, rfl⟩

/-- `Match` is exactly BIP158 membership: the query's range-reduced hash is one of the set's. -/
theorem match_eq_spec (H : Bytes → Nat) (hH : ∀ d, H d < 2 ^ 64) (P M : Nat) (data : List Bytes)
    (f : Filter) (hb : build H P M data = .ok f) (q : Bytes) :
    f.matches H q = true ↔ member H f.modulusNP data q := by
  rw [Lemmas.matches_built H P M data f hb, decide_eq_true_iff]
  have hm : f.modulusNP < 2 ^ 64 := by
    rw [(Lemmas.build_spec H P M data f hb).2.2.2.2.1]; exact Nat.mod_lt _ (by decide)
  unfold member hashedValues
  rw [Lemmas.reduce_eq_mulhi _ _ (hH q) hm]
  have : (fun d => reduce (H d) f.modulusNP) = (fun d => mulhi (H d) f.modulusNP) := by
    funext d; exact Lemmas.reduce_eq_mulhi _ _ (hH d) hm
  rw [this]

/-- ZipMatchAny = element-wise Match, for every query list. -/
theorem zip_eq_elementwise (H : Bytes → Nat) (P M : Nat) (data : List Bytes) (f : Filter)
    (hb : build H P M data = .ok f) (qs : List Bytes) :
    f.zipMatchAny H qs = qs.any (f.matches H) := Lemmas.zip_built H P M data f hb qs

/-- HashMatchAny (64-bit keys, after the fix of F-C20-a) = element-wise Match, for every query list
    and every `N·M` (no `N·M ≤ 2^32` restriction). -/
theorem hash_eq_elementwise (H : Bytes → Nat) (P M : Nat) (data : List Bytes) (f : Filter)
    (hb : build H P M data = .ok f) (qs : List Bytes) :
    f.hashMatchAny H qs = qs.any (f.matches H) := Lemmas.hash_built H P M data f hb qs

/-- MatchAny (whichever strategy its heuristic picks) = element-wise Match. -/
theorem matchAny_eq_elementwise (H : Bytes → Nat) (P M : Nat) (data : List Bytes) (f : Filter)
    (hb : build H P M data = .ok f) (qs : List Bytes) :
    f.matchAny H qs = qs.any (f.matches H) := by
  unfold Filter.matchAny
  split
  · exact hash_eq_elementwise H P M data f hb qs
  · exact zip_eq_elementwise H P M data f hb qs

/-- What F-C20-a was: with the index keyed by `uint32(value)` (the code before the fix) batch and
    element-wise matching disagree on a filter with `N·M = 2^33`. -/
theorem hashMatchAny32_not_elementwise :
    build Lemmas.w_H 32 (2 ^ 33) [[0]] = .ok Lemmas.w_filter ∧
    Lemmas.w_filter.hashMatchAny32 Lemmas.w_H [[1]] = true ∧
    Lemmas.w_filter.matches Lemmas.w_H [1] = false ∧
    Lemmas.w_filter.hashMatchAny Lemmas.w_H [[1]] = false :=
  ⟨Lemmas.w_filter_built, by decide, by decide, by decide⟩

/-! ### serialisation -/

/-- The N-prefixed serialisation is `CompactSize(N) ‖ filter data`, the data being the packed
    Golomb-Rice code of the sorted reduced hashes (BIP158 byte format). -/
theorem nbytes_format (H : Bytes → Nat) (P M : Nat) (data : List Bytes) (f : Filter)
    (hb : build H P M data = .ok f) :
    f.nBytes = compactSize data.length ++
      packBits (encodeValues P 0 (Lemmas.vals H (data.length * M % 2 ^ 64) data)) := by
  obtain ⟨_, _, hn, _, _, hd⟩ := Lemmas.build_spec H P M data f hb
  unfold Filter.nBytes
  rw [hn, hd, Lemmas.writeVarInt_eq_compactSize]

/-- `FromNBytes(P, M, NBytes(f)) = f` for every built filter. -/
theorem nbytes_roundtrip (H : Bytes → Nat) (P M : Nat) (data : List Bytes) (f : Filter)
    (hb : build H P M data = .ok f) : fromNBytes P M f.nBytes = .ok f :=
  Lemmas.nbytes_roundtrip H P M data f hb

/-- hence the deserialised filter matches every element it was built from -/
theorem roundtrip_no_false_negative (H : Bytes → Nat) (P M : Nat) (data : List Bytes) (f : Filter)
    (hb : build H P M data = .ok f) (d : Bytes) (hd : d ∈ data) :
    ∃ g, fromNBytes P M f.nBytes = .ok g ∧ g.matches H d = true :=
  ⟨f, nbytes_roundtrip H P M data f hb, gcs_no_false_negative H P M data f hb d hd⟩

example : ∃ f, build (fun _ => 7) 19 784931 [[1], [2], [1]] = .ok f :=
  build_succeeds _ 19 784931 _ (by decide) (by decide)

/-! ### BIP158 basic filter, BIP157 header chain -/

/-- The entries `BuildBasicFilter` feeds the builder are exactly BIP158's: every output script that is
    non-empty and does not start with OP_RETURN, every spent previous-output script that is non-empty. -/
theorem basic_filter_entries (outs : List (List Bytes)) (prevs : List Bytes) :
    basicEntries outs prevs = basicElements outs prevs := Lemmas.basicEntries_eq_spec outs prevs

/-- The basic filter of a block (key = first 16 bytes of the block hash, P = 19, M = 784931) matches
    every BIP158 element of the block. -/
theorem basic_filter_contents (Hk : Bytes → Bytes → Nat) (blockHash : Bytes)
    (outs : List (List Bytes)) (prevs : List Bytes) (f : Filter)
    (hb : buildBasicFilter Hk blockHash outs prevs = .ok f) (s : Bytes)
    (hs : s ∈ basicElements outs prevs) :
    f.matches (Hk (blockHash.take 16)) s = true := by
  unfold buildBasicFilter at hb
  apply gcs_no_false_negative _ _ _ _ f hb s
  rw [Lemmas.mem_dedup, basic_filter_entries]
  exact hs

/-- and is built with the BIP158 parameters over the de-duplicated element set -/
theorem basic_filter_params (Hk : Bytes → Bytes → Nat) (blockHash : Bytes)
    (outs : List (List Bytes)) (prevs : List Bytes) (f : Filter)
    (hb : buildBasicFilter Hk blockHash outs prevs = .ok f) :
    f.p = 19 ∧ f.n = (dedup (basicElements outs prevs)).length ∧ (dedup (basicElements outs prevs)).Nodup ∧
    f.modulusNP = f.n * 784931 % 2 ^ 64 := by
  unfold buildBasicFilter at hb
  obtain ⟨_, _, hn, hp, hm, _⟩ := Lemmas.build_spec _ _ _ _ f hb
  rw [basic_filter_entries] at hn hm
  exact ⟨hp, hn, Lemmas.dedup_nodup _, by rw [hm, hn]; rfl⟩

/-- BIP157: filter hash = dSHA256(NBytes), header = dSHA256(filterHash ‖ prevHeader). -/
theorem filter_header_chain (dsha : Bytes → Bytes) (f : Filter) (prev : Bytes) :
    filterHash dsha f = dsha (compactSize f.n ++ f.data) ∧
    makeHeaderForFilter dsha f prev = filterHeader dsha (filterHash dsha f) prev := by
  refine ⟨?_, rfl⟩
  unfold filterHash Filter.nBytes
  rw [Lemmas.writeVarInt_eq_compactSize]

/-- a sequence of filters chains as BIP157's `headerChain` -/
theorem filter_header_chain_seq (dsha : Bytes → Bytes) (fs : List Filter) (prev : Bytes) :
    headerChain dsha prev (fs.map (filterHash dsha)) =
      (fs.foldl (fun (acc : List Bytes × Bytes) f =>
        let h := makeHeaderForFilter dsha f acc.2; (acc.1 ++ [h], h)) ([], prev)).1 := by
  suffices h : ∀ (pre : List Bytes), pre ++ headerChain dsha prev (fs.map (filterHash dsha)) =
      (fs.foldl (fun (acc : List Bytes × Bytes) f =>
        let h := makeHeaderForFilter dsha f acc.2; (acc.1 ++ [h], h)) (pre, prev)).1 by
    simpa using h []
  induction fs generalizing prev with
  | nil => intro pre; simp [headerChain]
  | cons f fs ih =>
    intro pre
    simp only [List.map_cons, headerChain, List.foldl_cons]
    rw [← ih]
    simp [makeHeaderForFilter, filterHeader]

/-! ### merkle block (partial merkle tree), node hash `hh` abstract -/

/-- The recursive `calcHash(height, 0)` of merkleblock.go is the Bitcoin merkle root (level-by-level
    pairing, an odd last node paired with itself) — the root in the block header. -/
theorem pmt_root_is_merkle_root {α : Type} (hh : α → α → α) (dflt : α) (leaves : List α)
    (hne : leaves ≠ []) (hn : leaves.length ≤ 2 ^ 64) :
    Pmt.calcHash hh dflt leaves (Pmt.treeHeight leaves.length) 0 = Pmt.merkleRoot hh dflt leaves :=
  Pmt.calcHash_root hh dflt leaves hne hn

/-- BIP37 extraction of the merkle block built by `NewMerkleBlock` (for ANY number of transactions
    n ≥ 1 — odd levels, n = 1, … — and ANY matched subset) succeeds and yields exactly the matched
    transactions (index and txid, in block order) under the block's merkle root. -/
theorem pmt_extract_build {α : Type} (hh : α → α → α) (dflt : α) (leaves : List α) (matched : List Bool)
    (hne : leaves ≠ []) (hlen : matched.length = leaves.length) (hn : leaves.length ≤ 2 ^ 64) :
    Pmt.extract hh leaves.length (Pmt.packFlags (Pmt.newMerkleBlock hh dflt leaves matched).bits)
        (Pmt.newMerkleBlock hh dflt leaves matched).hashes
      = some (Pmt.merkleRoot hh dflt leaves,
              ((List.range leaves.length).filter (fun i => matched.getD i false)).map
                (fun i => (i, leaves.getD i dflt))) := by
  rw [Pmt.extract_newMerkleBlock hh dflt leaves matched hne hlen,
    Pmt.matchedUnder_root dflt leaves matched hlen hn, Pmt.calcHash_root hh dflt leaves hne hn]

/-- The same with Bitcoin Core's CVE-2012-2459 guard in the extractor (reject an inner node whose two
    real children hash equal): it never fires on a built merkle block when no two sibling subtrees of
    the block have equal hashes (true for a collision-free hash over distinct transactions). -/
theorem pmt_extract_build_strict {α : Type} [DecidableEq α] (hh : α → α → α) (dflt : α)
    (leaves : List α) (matched : List Bool) (hne : leaves ≠ []) (hlen : matched.length = leaves.length)
    (hn : leaves.length ≤ 2 ^ 64) (hd : Pmt.DistinctSiblings hh dflt leaves) :
    Pmt.extractStrict hh leaves.length (Pmt.packFlags (Pmt.newMerkleBlock hh dflt leaves matched).bits)
        (Pmt.newMerkleBlock hh dflt leaves matched).hashes
      = some (Pmt.merkleRoot hh dflt leaves,
              ((List.range leaves.length).filter (fun i => matched.getD i false)).map
                (fun i => (i, leaves.getD i dflt))) := by
  rw [Pmt.extractStrict_newMerkleBlock hh dflt leaves matched hne hlen hd,
    Pmt.matchedUnder_root dflt leaves matched hlen hn, Pmt.calcHash_root hh dflt leaves hne hn]

example : Pmt.DistinctSiblings (fun (a b : Nat) => a + b) 0 [7] := by
  intro h pos hw
  have : Pmt.width 1 h = 1 := by
    unfold Pmt.width
    have hp : 0 < 2 ^ h := Nat.pow_pos (by decide)
    rw [show 1 + 2 ^ h - 1 = 2 ^ h by omega, Nat.div_self hp]
  simp only [List.length_cons, List.length_nil, Nat.zero_add, this] at hw
  omega

/-- the index list `NewMerkleBlock` returns is the same matched set -/
theorem pmt_matched_indices {α : Type} (hh : α → α → α) (dflt : α) (leaves : List α) (matched : List Bool) :
    (Pmt.newMerkleBlock hh dflt leaves matched).matchedIdx =
      (List.range leaves.length).filter (fun i => matched.getD i false) ∧
    (Pmt.newMerkleBlock hh dflt leaves matched).numTx = leaves.length := ⟨rfl, rfl⟩

/-- size limits of the message: at most one hash per transaction and per flag bit; the flag bytes
    are ⌈bits/8⌉ and unpack to the bits plus zero padding. -/
theorem pmt_sizes {α : Type} (hh : α → α → α) (dflt : α) (leaves : List α) (matched : List Bool)
    (hne : leaves ≠ []) :
    let mb := Pmt.newMerkleBlock hh dflt leaves matched
    mb.hashes.length ≤ leaves.length ∧ mb.hashes.length ≤ mb.bits.length ∧
    (Pmt.packFlags mb.bits).length = (mb.bits.length + 7) / 8 ∧
    ∃ k, k < 8 ∧ Pmt.unpackFlags (Pmt.packFlags mb.bits) = mb.bits ++ List.replicate k false := by
  have hn : 0 < leaves.length := List.length_pos_iff.mpr hne
  have hb := Pmt.traverse_hashes_bound hh dflt leaves matched (Pmt.treeHeight leaves.length) 0 (by omega)
  refine ⟨by simp only [Pmt.newMerkleBlock]; omega,
    Pmt.traverse_hashes_le_bits hh dflt leaves matched _ 0, Pmt.packFlags_length _, Pmt.unpack_packFlags _⟩

example : Pmt.extract (fun (a b : Nat) => a + 2 * b + 1) 3 [0x0b] [7, 8, 28] =
    some (Pmt.calcHash (fun (a b : Nat) => a + 2 * b + 1) 0 [7, 8, 9] 2 0, [(1, 8)]) := by decide

/-! ### pinning of regenerated facts (T2) -/

theorem pin_basic_params :
    Generated.C20.defaultP = (BASIC_P : Int) ∧ Generated.C20.defaultM = (BASIC_M : Int) ∧
    Generated.C20.keySize = (KEY_SIZE : Int) ∧ Generated.C20.opReturn = (OP_RETURN.toNat : Int) ∧
    Generated.C20.varIntProtoVer = 0 ∧ Generated.C20.hashSize = 32 := by decide

end BV.C20
