/- C20 helper lemmas: GCSBuilder, committed-filter index, merkleblock wire codec. -/
import BV.C20.LemmasSer
import BV.C20.PmtWire
namespace BV.C20.Lemmas
open BV.C20 BV.C20.Spec

/-! ### GCSBuilder -/

theorem addEntry_spec (b b' : Builder) (d : Bytes) (he : b.err = none) (h : b.addEntry d = some b') :
    ∃ l l', b.data = some l ∧ b'.data = some l' ∧ (∀ x, x ∈ l' ↔ x ∈ l ∨ x = d) ∧
      (l.Nodup → l'.Nodup) ∧ b'.err = none ∧ b'.p = b.p ∧ b'.m = b.m ∧ b'.key = b.key := by
  unfold Builder.addEntry at h
  simp only [he, Option.isSome_none, Bool.false_eq_true, if_false] at h
  cases hd : b.data with
  | none => rw [hd] at h; cases h
  | some l =>
    rw [hd] at h
    injection h with h
    subst h
    refine ⟨l, _, rfl, rfl, ?_, ?_, (by simp), rfl, rfl, rfl⟩
    · intro x
      by_cases hc : l.contains d
      · simp only [hc, if_true]
        have : d ∈ l := List.contains_iff_mem.mp hc
        constructor
        · intro hx; left; exact hx
        · rintro (hx | hx)
          · exact hx
          · rw [hx]; exact this
      · simp only [hc, Bool.false_eq_true, if_false, List.mem_append, List.mem_singleton]
    · intro hn
      by_cases hc : l.contains d
      · simp only [hc, if_true]; exact hn
      · simp only [hc, Bool.false_eq_true, if_false]
        have hnot : d ∉ l := fun hm => hc (List.contains_iff_mem.mpr hm)
        rw [List.nodup_append]
        refine ⟨hn, by simp, ?_⟩
        intro a ha b hb
        rw [List.mem_singleton] at hb
        subst hb
        intro e; subst e; exact hnot ha

theorem addEntries_spec (ds : List Bytes) : ∀ (b b' : Builder) (l : List Bytes), b.err = none →
    b.data = some l → b.addEntries ds = some b' →
    ∃ l', b'.data = some l' ∧ (∀ x, x ∈ l' ↔ x ∈ l ∨ x ∈ ds) ∧ (l.Nodup → l'.Nodup) ∧
      b'.err = none ∧ b'.p = b.p ∧ b'.m = b.m ∧ b'.key = b.key := by
  induction ds with
  | nil =>
    intro b b' l he hd h
    simp only [Builder.addEntries] at h
    injection h with h; subst h
    exact ⟨l, hd, by simp, id, he, rfl, rfl, rfl⟩
  | cons d ds ih =>
    intro b b' l he hd h
    simp only [Builder.addEntries] at h
    cases h1 : b.addEntry d with
    | none => rw [h1] at h; cases h
    | some b1 =>
      rw [h1] at h
      obtain ⟨l0, l1, hl0, hl1, hmem, hnd, he1, hp, hm, hk⟩ := addEntry_spec b b1 d he h1
      rw [hd] at hl0; injection hl0 with hl0; subst hl0
      obtain ⟨l', hl', hmem', hnd', he', hp', hm', hk'⟩ := ih b1 b' l1 he1 hl1 h
      refine ⟨l', hl', ?_, fun hn => hnd' (hnd hn), he', by rw [hp', hp], by rw [hm', hm], by rw [hk', hk]⟩
      intro x
      rw [hmem', hmem, List.mem_cons]
      constructor
      · rintro ((h | h) | h)
        · left; exact h
        · right; left; exact h
        · right; right; exact h
      · rintro (h | h | h)
        · left; left; exact h
        · left; right; exact h
        · right; exact h

theorem builder_build_spec (Hk : Bytes → Bytes → Nat) (b : Builder) (l : List Bytes) (f : Filter)
    (hd : b.data = some l) (hb : b.build Hk = .ok f) :
    b.err = none ∧ 0 < b.p ∧ 0 < b.m ∧ BV.C20.build (Hk b.key) b.p b.m l = .ok f := by
  unfold Builder.build at hb
  cases he : b.err with
  | some e => rw [he] at hb; cases hb
  | none =>
    rw [he] at hb
    simp only [] at hb
    by_cases hp : b.p = 0
    · rw [if_pos hp] at hb; cases hb
    · rw [if_neg hp] at hb
      by_cases hm : b.m = 0
      · rw [if_pos hm] at hb; cases hb
      · rw [if_neg hm, hd] at hb
        simp only [Option.getD_some] at hb
        refine ⟨rfl, by omega, by omega, ?_⟩
        cases hr : BV.C20.build (Hk b.key) b.p b.m l with
        | ok g => rw [hr] at hb; injection hb with hb; rw [hb]
        | error e => rw [hr] at hb; cases e <;> cases hb

/-! ### committed-filter index -/

theorem lookup_cons_self (e : CfEntry) (idx : CfIndex) : CfIndex.lookup (e :: idx) e.blockHash = some e := by
  simp [CfIndex.lookup, List.find?]

theorem lookup_filter_ne (idx : CfIndex) (bh h : Bytes) (hne : h ≠ bh) :
    CfIndex.lookup (idx.filter (fun x => x.blockHash != bh)) h = CfIndex.lookup idx h := by
  unfold CfIndex.lookup
  induction idx with
  | nil => rfl
  | cons a l ih =>
    by_cases ha : a.blockHash = bh
    · have : (a.blockHash != bh) = false := by simp [ha]
      rw [List.filter_cons, this]
      simp only [Bool.false_eq_true, if_false]
      rw [ih, List.find?_cons]
      have : (a.blockHash == h) = false := by
        rw [ha]; simp; exact fun e => hne e.symm
      rw [this]
    · have : (a.blockHash != bh) = true := by simp [ha]
      rw [List.filter_cons, this]
      simp only [if_true]
      rw [List.find?_cons, List.find?_cons, ih]

theorem lookup_filter_self (idx : CfIndex) (bh : Bytes) :
    CfIndex.lookup (idx.filter (fun x => x.blockHash != bh)) bh = none := by
  unfold CfIndex.lookup
  rw [List.find?_eq_none]
  intro x hx
  rw [List.mem_filter] at hx
  simpa using hx.2

theorem connect_spec (Hk : Bytes → Bytes → Nat) (dsha : Bytes → Bytes) (idx idx' : CfIndex)
    (bh prev : Bytes) (outs : List (List Bytes)) (prevs : List Bytes)
    (h : idx.connect Hk dsha bh prev outs prevs = some idx') :
    ∃ f ph, buildBasicFilter Hk bh outs prevs = .ok f ∧
      ((prev = zeroHash ∧ ph = zeroHash) ∨ (prev ≠ zeroHash ∧ ∃ e, idx.lookup prev = some e ∧ ph = e.header)) ∧
      idx'.lookup bh = some ⟨bh, f.nBytes, filterHash dsha f, filterHeader dsha (filterHash dsha f) ph⟩ ∧
      ∀ x, x ≠ bh → idx'.lookup x = idx.lookup x := by
  unfold CfIndex.connect at h
  cases hf : buildBasicFilter Hk bh outs prevs with
  | error e => rw [hf] at h; cases h
  | ok f =>
    rw [hf] at h
    simp only [] at h
    have key : ∀ (ph : Bytes) (x : Bytes), x ≠ bh →
        CfIndex.lookup (⟨bh, f.nBytes, filterHash dsha f, makeHeaderForFilter dsha f ph⟩ ::
          idx.filter (fun y => y.blockHash != bh)) x = idx.lookup x := by
      intro ph x hx
      rw [CfIndex.lookup, List.find?_cons]
      have : (bh == x) = false := by simp; exact fun e => hx e.symm
      simp only [this]
      exact lookup_filter_ne idx bh x hx
    by_cases hz : prev = zeroHash
    · have hz' : (prev == zeroHash) = true := by simp [hz]
      rw [hz'] at h
      simp only [if_true] at h
      injection h with h; subst h
      exact ⟨f, zeroHash, rfl, Or.inl ⟨hz, rfl⟩, lookup_cons_self _ _, key zeroHash⟩
    · have hz' : (prev == zeroHash) = false := by simp [hz]
      rw [hz'] at h
      simp only [Bool.false_eq_true, if_false] at h
      cases hl : idx.lookup prev with
      | none => rw [hl] at h; cases h
      | some e =>
        rw [hl] at h
        simp only [Option.map_some] at h
        injection h with h; subst h
        exact ⟨f, e.header, rfl, Or.inr ⟨hz, e, rfl, rfl⟩, lookup_cons_self _ _, key e.header⟩

theorem connectAll_other (Hk : Bytes → Bytes → Nat) (dsha : Bytes → Bytes) (bs : List CfBlockIn) :
    ∀ (idx idx' : CfIndex) (x : Bytes), x ∉ bs.map (·.bh) →
      CfIndex.connectAll Hk dsha idx bs = some idx' → idx'.lookup x = idx.lookup x := by
  induction bs with
  | nil => intro idx idx' x _ h; simp only [CfIndex.connectAll] at h; injection h with h; rw [h]
  | cons b bs ih =>
    intro idx idx' x hx h
    simp only [CfIndex.connectAll] at h
    cases hc : idx.connect Hk dsha b.bh b.prev b.outs b.prevs with
    | none => rw [hc] at h; cases h
    | some idx1 =>
      rw [hc] at h
      simp only [List.map_cons, List.mem_cons, not_or] at hx
      obtain ⟨_, _, _, _, _, hoth⟩ := connect_spec Hk dsha idx idx1 b.bh b.prev b.outs b.prevs hc
      rw [ih idx1 idx' x hx.2 h, hoth x hx.1]

/-- BIP157 over the index: after connecting a linked list of blocks with distinct hashes, the stored
    headers are the header chain of their filter hashes -/
theorem connectAll_headers (Hk : Bytes → Bytes → Nat) (dsha : Bytes → Bytes) (bs : List CfBlockIn) :
    ∀ (idx idx' : CfIndex) (first firstHeader : Bytes),
      ((first = zeroHash ∧ firstHeader = zeroHash) ∨
        (first ≠ zeroHash ∧ ∃ e, idx.lookup first = some e ∧ e.header = firstHeader)) →
      cfLinked first bs → (bs.map (·.bh)).Nodup → (∀ b ∈ bs, b.bh ≠ zeroHash) → first ∉ bs.map (·.bh) →
      CfIndex.connectAll Hk dsha idx bs = some idx' →
      bs.map (fun b => (idx'.lookup b.bh).map (·.header)) =
        (headerChain dsha firstHeader (bs.map (cfFilterHash Hk dsha))).map some := by
  induction bs with
  | nil => intro _ _ _ _ _ _ _ _ _ _; rfl
  | cons b bs ih =>
    intro idx idx' first firstHeader hfirst hlink hnd hnz hnot h
    simp only [CfIndex.connectAll] at h
    cases hc : idx.connect Hk dsha b.bh b.prev b.outs b.prevs with
    | none => rw [hc] at h; cases h
    | some idx1 =>
      rw [hc] at h
      obtain ⟨f, ph, hf, hph, hself, hoth⟩ := connect_spec Hk dsha idx idx1 b.bh b.prev b.outs b.prevs hc
      have hprev : b.prev = first := hlink.1
      have hph' : ph = firstHeader := by
        rcases hph with ⟨hz, hp⟩ | ⟨hz, e, he, hp⟩
        · rcases hfirst with ⟨_, hh⟩ | ⟨hne, _⟩
          · rw [hp, hh]
          · exact absurd (hprev ▸ hz) hne
        · rcases hfirst with ⟨hz', _⟩ | ⟨_, e', he', hh⟩
          · exact absurd (hprev ▸ hz') hz
          · rw [hprev, he'] at he; injection he with he; rw [hp, ← he, hh]
      rw [List.map_cons, List.nodup_cons] at hnd
      have hbz : b.bh ≠ zeroHash := hnz b List.mem_cons_self
      have hfh : cfFilterHash Hk dsha b = filterHash dsha f := by unfold cfFilterHash; rw [hf]
      have ih' := ih idx1 idx' b.bh (filterHeader dsha (filterHash dsha f) ph)
        (Or.inr ⟨hbz, _, hself, rfl⟩) hlink.2 hnd.2 (fun x hx => hnz x (List.mem_cons_of_mem _ hx)) hnd.1 h
      have hkeep := connectAll_other Hk dsha bs idx1 idx' b.bh hnd.1 h
      simp only [List.map_cons, headerChain]
      rw [hkeep, hself, hfh, ← hph', ih']
      rfl

/-! ### merkleblock wire codec -/

open PmtWire in
theorem takeExact_append (a r : Bytes) : takeExact a.length (a ++ r) = .ok (a, r) := by
  unfold takeExact
  rw [if_neg (by simp)]
  simp

theorem leBytes_length (k x : Nat) : (leBytes k x).length = k := by
  induction k generalizing x with
  | zero => rfl
  | succ k ih => simp [leBytes, ih]

open PmtWire in
theorem readHashes_flatten (hs : List Bytes) (h32 : ∀ h ∈ hs, h.length = 32) (r : Bytes) (acc : List Bytes) :
    readHashes hs.length (hs.flatten ++ r) acc = .ok (acc.reverse ++ hs, r) := by
  induction hs generalizing acc with
  | nil => simp [readHashes]
  | cons h hs ih =>
    have hl : h.length = 32 := h32 h List.mem_cons_self
    rw [List.length_cons, readHashes, List.flatten_cons, List.append_assoc]
    have := takeExact_append h (hs.flatten ++ r)
    rw [hl] at this
    rw [this]
    simp only []
    rw [ih (fun x hx => h32 x (List.mem_cons_of_mem _ hx))]
    simp

open PmtWire in
theorem varint_write (n : Nat) (hn : n < 2 ^ 64) (r : Bytes) : varint (writeVarInt n ++ r) = .ok (n, r) := by
  unfold varint
  rw [readVarInt_writeVarInt n hn r]

open PmtWire in
/-- `BtcDecode (BtcEncode m ‖ rest) = (m, rest)` -/
theorem wire_roundtrip (pver : Nat) (m : Msg) (rest : Bytes) (hp : BIP0037_VERSION ≤ pver)
    (hh : m.header.length = 80) (ht : m.transactions < 2 ^ 32) (h32 : ∀ h ∈ m.hashes, h.length = 32)
    (hc : m.hashes.length ≤ MAX_TX_PER_BLOCK) (hf : m.flags.length ≤ MAX_FLAGS) :
    ∃ b, encode pver m = .ok b ∧ decode pver (b ++ rest) = .ok (m, rest) := by
  unfold encode
  rw [if_neg (by omega), if_neg (by omega), if_neg (by omega)]
  refine ⟨_, rfl, ?_⟩
  unfold decode
  rw [if_neg (by omega)]
  simp only [List.append_assoc]
  have h1 := takeExact_append m.header
    (leBytes 4 m.transactions ++ (writeVarInt m.hashes.length ++ (m.hashes.flatten ++
      (writeVarInt m.flags.length ++ (m.flags ++ rest)))))
  rw [hh] at h1
  rw [h1]
  simp only []
  have h2 := takeExact_append (leBytes 4 m.transactions)
    (writeVarInt m.hashes.length ++ (m.hashes.flatten ++ (writeVarInt m.flags.length ++ (m.flags ++ rest))))
  rw [leBytes_length] at h2
  rw [h2]
  simp only []
  have hcl : m.hashes.length < 2 ^ 64 := by unfold MAX_TX_PER_BLOCK at hc; omega
  have hfl : m.flags.length < 2 ^ 64 := by unfold MAX_FLAGS at hf; omega
  rw [varint_write _ hcl]
  simp only []
  rw [if_neg (by omega), readHashes_flatten m.hashes h32]
  simp only [List.reverse_nil, List.nil_append]
  rw [varint_write _ hfl]
  simp only []
  rw [if_neg (by omega), takeExact_append]
  simp only []
  have ht4 : leNat (leBytes 4 m.transactions) = m.transactions := by
    have := (leNat_leBytes_append 4 m.transactions []).1
    rw [List.append_nil] at this
    have hl := leBytes_length 4 m.transactions
    rw [List.take_of_length_le (by omega)] at this
    rw [this]; exact Nat.mod_eq_of_lt (by omega)
  rw [ht4]

end BV.C20.Lemmas
