/- C20 helper lemmas: N-prefixed serialisation, basic filter contents, header chain, F-C20-a witness. -/
import BV.C20.LemmasGcs
namespace BV.C20.Lemmas
open BV.C20 BV.C20.Spec

/-! ### varint -/

theorem u8_toNat_ofNat (x : Nat) : (UInt8.ofNat x).toNat = x % 256 := by
  simp [UInt8.toNat_ofNat']

theorem leNat_leBytes_append (k x : Nat) (r : Bytes) :
    leNat ((leBytes k x ++ r).take k) = x % 256 ^ k ∧ (leBytes k x ++ r).drop k = r ∧
    k ≤ (leBytes k x ++ r).length := by
  induction k generalizing x with
  | zero => simp [leBytes, leNat, Nat.mod_one]
  | succ k ih =>
    obtain ⟨h1, h2, h3⟩ := ih (x / 256)
    refine ⟨?_, ?_, ?_⟩
    · simp only [leBytes, List.cons_append, List.take_succ_cons, leNat, h1, u8_toNat_ofNat]
      rw [Nat.pow_succ, Nat.mul_comm (256 ^ k) 256, Nat.mod_mul]
      omega
    · simpa [leBytes] using h2
    · simp only [leBytes, List.cons_append, List.length_cons]; omega

theorem readVarInt_writeVarInt (n : Nat) (hn : n < 2 ^ 64) (r : Bytes) :
    readVarInt (writeVarInt n ++ r) = .ok (n, r) := by
  unfold writeVarInt
  by_cases h1 : n < 0xfd
  · rw [if_pos h1]
    simp only [List.cons_append, List.nil_append, readVarInt]
    have hne : ∀ c : UInt8, 0xfd ≤ c.toNat → UInt8.ofNat n ≠ c := by
      intro c hc he
      have := congrArg UInt8.toNat he
      rw [u8_toNat_ofNat] at this
      omega
    rw [if_neg (hne 0xff (by decide)), if_neg (hne 0xfe (by decide)),
      if_neg (hne 0xfd (by decide)), u8_toNat_ofNat, Nat.mod_eq_of_lt (by omega)]
  · rw [if_neg h1]
    by_cases h2 : n ≤ 0xffff
    · rw [if_pos h2]
      obtain ⟨e1, e2, e3⟩ := leNat_leBytes_append 2 n r
      simp only [List.cons_append, readVarInt]
      have hl : ¬ (leBytes 2 n ++ r).length < 2 := by omega
      have hm : n % 65536 = n := by omega
      have hc : ¬ n < 253 := by omega
      have hl' : ¬ List.length (leBytes 2 n) + List.length r < 2 := by simpa using hl
      simp [e1, e2]
      rw [if_neg hl', hm, if_neg hc]
    · rw [if_neg h2]
      by_cases h3 : n ≤ 0xffffffff
      · rw [if_pos h3]
        obtain ⟨e1, e2, e3⟩ := leNat_leBytes_append 4 n r
        simp only [List.cons_append, readVarInt]
        have hl : ¬ (leBytes 4 n ++ r).length < 4 := by omega
        have hm : n % 4294967296 = n := by omega
        have hc : ¬ n < 65536 := by omega
        have hl' : ¬ List.length (leBytes 4 n) + List.length r < 4 := by simpa using hl
        simp [e1, e2]
        rw [if_neg hl', hm, if_neg hc]
      · rw [if_neg h3]
        obtain ⟨e1, e2, e3⟩ := leNat_leBytes_append 8 n r
        simp only [List.cons_append, readVarInt]
        have hl : ¬ (leBytes 8 n ++ r).length < 8 := by omega
        have hm : n % 18446744073709551616 = n := by omega
        have hc : ¬ n < 4294967296 := by omega
        have hl' : ¬ List.length (leBytes 8 n) + List.length r < 8 := by simpa using hl
        simp [e1, e2]
        rw [if_neg hl', hm, if_neg hc]

theorem leBytes_eq_range (k n : Nat) :
    leBytes k n = (List.range k).map (fun i => UInt8.ofNat (n / 256 ^ i % 256)) := by
  induction k generalizing n with
  | zero => simp [leBytes]
  | succ k ih =>
    rw [leBytes, ih, List.range_succ_eq_map, List.map_cons, List.map_map]
    simp only [Nat.pow_zero, Nat.div_one, List.cons.injEq, true_and]
    apply List.map_congr_left
    intro i _
    simp only [Function.comp]
    rw [Nat.div_div_eq_div_mul, Nat.pow_succ, Nat.mul_comm]

theorem writeVarInt_eq_compactSize (n : Nat) : writeVarInt n = compactSize n := by
  unfold writeVarInt compactSize
  simp only [leBytes_eq_range]

/-! ### N-prefixed serialisation round trip -/

theorem nbytes_roundtrip (H : Bytes → Nat) (P M : Nat) (data : List Bytes) (f : Filter)
    (hb : build H P M data = .ok f) : fromNBytes P M f.nBytes = .ok f := by
  obtain ⟨hP, hn, en, ep, em, _⟩ := build_spec H P M data f hb
  unfold fromNBytes Filter.nBytes
  rw [readVarInt_writeVarInt f.n (by omega)]
  simp only []
  rw [if_neg (by omega)]
  unfold fromBytes
  rw [if_neg (by omega)]
  cases f
  simp only [] at en ep em ⊢
  subst en ep em
  rfl

/-! ### basic filter contents -/

theorem basicEntries_eq_spec (outs : List (List Bytes)) (prevs : List Bytes) :
    basicEntries outs prevs = basicElements outs prevs := by
  unfold basicEntries basicElements
  simp only []
  congr 1
  · rw [List.flatMap_def, ← List.filter_flatten]
    congr 1
    funext s
    cases s with
    | nil => simp
    | cons b t =>
      simp only [List.length_cons, Nat.add_one_ne_zero, if_false, List.headD_cons]
      by_cases hb : b = OP_RETURN <;> simp [hb]
  · apply List.filter_congr
    intro s _
    cases s <;> simp

theorem mem_dedup (l : List Bytes) (x : Bytes) : x ∈ dedup l ↔ x ∈ l := by
  induction l with
  | nil => simp [dedup]
  | cons a l ih =>
    simp only [dedup, List.mem_cons, List.mem_filter, ih]
    constructor
    · rintro (h | ⟨h, _⟩)
      · left; exact h
      · right; exact h
    · rintro (h | h)
      · left; exact h
      · by_cases hx : x = a
        · left; exact hx
        · right; exact ⟨h, by simpa using hx⟩

theorem dedup_nodup (l : List Bytes) : (dedup l).Nodup := by
  induction l with
  | nil => simp [dedup]
  | cons a l ih =>
    simp only [dedup, List.nodup_cons, List.mem_filter]
    refine ⟨?_, ih.filter _⟩
    rintro ⟨_, h⟩
    simp at h

/-! ### F-C20-a: what the unfixed HashMatchAny did -/

/-- an (abstract) keyed hash, a one-element filter with `N*M = 2^33`, and a query whose reduced hash
    differs from the element's only above bit 32 -/
def w_H : Bytes → Nat := fun q => if q = [1] then 2 ^ 63 else 0
def w_filter : Filter := ⟨1, 32, 2 ^ 33, [0, 0, 0, 0, 0]⟩

theorem w_filter_built : build w_H 32 (2 ^ 33) [[0]] = .ok w_filter := by
  unfold build
  rw [if_neg (by decide), if_neg (by decide)]
  simp only [List.length_cons, List.length_nil]
  rw [if_neg (by decide)]
  have : sortValues (List.map (fun d => reduce (w_H d) ((0 + 1) * 2 ^ 33 % 2 ^ 64)) [[0]]) = [0] := by
    simp [sortValues, w_H, reduce, fastReduction]
  rw [this]
  decide

end BV.C20.Lemmas
