/- C20 helper lemmas: fastReduction, bit stream, Golomb-Rice coder. -/
import BV.C20.Model
import Mathlib.Tactic.Ring
namespace BV.C20.Lemmas
open BV.C20 BV.C20.Spec

/-! ### fastReduction = high word of the 128-bit product -/

theorem mul_lt_2_64 {a b : Nat} (ha : a < 2 ^ 32) (hb : b < 2 ^ 32) : a * b < 2 ^ 64 := by
  have : a * b < 2 ^ 32 * 2 ^ 32 := Nat.mul_lt_mul'' ha hb
  simpa using this

theorem fastReduction_eq (v nHi nLo : Nat) (hv : v < 2 ^ 64) (hh : nHi < 2 ^ 32) (hl : nLo < 2 ^ 32) :
    fastReduction v nHi nLo = v * (nHi * 2 ^ 32 + nLo) / 2 ^ 64 := by
  have ha : v / 2 ^ 32 < 2 ^ 32 := by omega
  have hb : v % 2 ^ 32 < 2 ^ 32 := by omega
  have hx := mul_lt_2_64 ha hh
  have hy := mul_lt_2_64 ha hl
  have hz := mul_lt_2_64 hh hb
  have hw := mul_lt_2_64 hb hl
  have hprod : v * (nHi * 2 ^ 32 + nLo) =
      (v / 2 ^ 32 * nHi) * 2 ^ 64 + ((v / 2 ^ 32 * nLo) + (nHi * (v % 2 ^ 32))) * 2 ^ 32
        + (v % 2 ^ 32) * nLo := by
    have hv' : v = (v / 2 ^ 32) * 2 ^ 32 + v % 2 ^ 32 := by omega
    generalize v / 2 ^ 32 = a at *
    generalize v % 2 ^ 32 = b at *
    subst hv'
    ring
  have hlt : v * (nHi * 2 ^ 32 + nLo) < 2 ^ 64 * 2 ^ 64 := Nat.mul_lt_mul'' hv (by omega)
  unfold fastReduction
  simp only []
  rw [hprod] at hlt ⊢
  clear hprod
  generalize v / 2 ^ 32 * nHi = x at *
  generalize v / 2 ^ 32 * nLo = y at *
  generalize nHi * (v % 2 ^ 32) = z at *
  generalize v % 2 ^ 32 * nLo = w at *
  omega

theorem reduce_eq_mulhi (v nm : Nat) (hv : v < 2 ^ 64) (hn : nm < 2 ^ 64) :
    reduce v nm = mulhi v nm := by
  unfold reduce mulhi
  rw [fastReduction_eq v _ _ hv (by omega) (by omega)]
  congr 2
  omega

theorem mulhi_lt (v nm : Nat) (hv : v < 2 ^ 64) : mulhi v nm < nm ∨ nm = 0 := by
  unfold mulhi
  by_cases h : nm = 0
  · right; exact h
  · left
    have : v * nm < 2 ^ 64 * nm := Nat.mul_lt_mul_of_pos_right hv (by omega)
    rw [Nat.div_lt_iff_lt_mul (by decide)]
    rw [Nat.mul_comm nm]; exact this

end BV.C20.Lemmas
