/- C20 helper lemmas: fastReduction, bit stream, Golomb-Rice coder. -/
import BV.C20.Model
import Mathlib.Tactic.Ring
namespace BV.C20.Lemmas
open BV.C20 BV.C20.Spec

/-! ### fastReduction = high word of the 128-bit product -/

theorem mul_lt_2_64 {a b : Nat} (ha : a < 2 ^ 32) (hb : b < 2 ^ 32) : a * b < 2 ^ 64 := by
  have : a * b < 2 ^ 32 * 2 ^ 32 := Nat.mul_lt_mul'' ha hb
  simpa using this

theorem fastReduction_eq (v nHi nLo : Nat) (hv : v < 2 ^ 64) (hh : nHi < 2 ^ 32) (hl : nLo < 2 ^ 32) :
    fastReduction v nHi nLo = v * (nHi * 2 ^ 32 + nLo) / 2 ^ 64 := by
  have ha : v / 2 ^ 32 < 2 ^ 32 := by omega
  have hb : v % 2 ^ 32 < 2 ^ 32 := by omega
  have hx := mul_lt_2_64 ha hh
  have hy := mul_lt_2_64 ha hl
  have hz := mul_lt_2_64 hh hb
  have hw := mul_lt_2_64 hb hl
  have hprod : v * (nHi * 2 ^ 32 + nLo) =
      (v / 2 ^ 32 * nHi) * 2 ^ 64 + ((v / 2 ^ 32 * nLo) + (nHi * (v % 2 ^ 32))) * 2 ^ 32
        + (v % 2 ^ 32) * nLo := by
    have hv' : v = (v / 2 ^ 32) * 2 ^ 32 + v % 2 ^ 32 := by omega
    generalize v / 2 ^ 32 = a at *
    generalize v % 2 ^ 32 = b at *
    subst hv'
    ring
  have hlt : v * (nHi * 2 ^ 32 + nLo) < 2 ^ 64 * 2 ^ 64 := Nat.mul_lt_mul'' hv (by omega)
  unfold fastReduction
  simp only []
  rw [hprod] at hlt ⊢
  clear hprod
  generalize v / 2 ^ 32 * nHi = x at *
  generalize v / 2 ^ 32 * nLo = y at *
  generalize nHi * (v % 2 ^ 32) = z at *
  generalize v % 2 ^ 32 * nLo = w at *
  omega

theorem reduce_eq_mulhi (v nm : Nat) (hv : v < 2 ^ 64) (hn : nm < 2 ^ 64) :
    reduce v nm = mulhi v nm := by
  unfold reduce mulhi
  rw [fastReduction_eq v _ _ hv (by omega) (by omega)]
  congr 2
  omega

theorem mulhi_lt (v nm : Nat) (hv : v < 2 ^ 64) : mulhi v nm < nm ∨ nm = 0 := by
  unfold mulhi
  by_cases h : nm = 0
  · right; exact h
  · left
    have : v * nm < 2 ^ 64 * nm := Nat.mul_lt_mul_of_pos_right hv (by omega)
    rw [Nat.div_lt_iff_lt_mul (by decide)]
    rw [Nat.mul_comm nm]; exact this

/-! ### bit stream -/

theorem readUnaryAux_replicate (k q : Nat) (r : List Bool) :
    readUnaryAux q (List.replicate k true ++ false :: r) = some (q + k, r) := by
  induction k generalizing q with
  | zero => simp [readUnaryAux]
  | succ k ih =>
    rw [List.replicate_succ, List.cons_append, readUnaryAux, ih]
    congr 2; omega

theorem readUnary_replicate (k : Nat) (r : List Bool) :
    readUnary (List.replicate k true ++ false :: r) = some (k, r) := by
  unfold readUnary; rw [readUnaryAux_replicate]; simp

theorem readBitsAux_beBits (p acc x : Nat) (r : List Bool) :
    readBitsAux p acc (beBits p x ++ r) = some (acc * 2 ^ p + x % 2 ^ p, r) := by
  induction p generalizing acc with
  | zero => simp [readBitsAux, beBits, Nat.mod_one]
  | succ p ih =>
    rw [beBits, List.cons_append, readBitsAux, ih]
    congr 2
    have h2 : x % 2 ^ (p + 1) = (x / 2 ^ p % 2) * 2 ^ p + x % 2 ^ p := by
      rw [Nat.pow_succ, Nat.mod_mul, Nat.add_comm, Nat.mul_comm]
    rw [h2]
    rcases Nat.mod_two_eq_zero_or_one (x / 2 ^ p) with h | h <;> simp [h, Nat.pow_succ] <;> ring

theorem readBits_beBits (p x : Nat) (r : List Bool) :
    readBits p (beBits p x ++ r) = some (x % 2 ^ p, r) := by
  unfold readBits; rw [readBitsAux_beBits]; simp

/-- one Golomb-Rice value decodes to itself, whatever follows -/
theorem readFull_golombEncode (P x : Nat) (hx : x < 2 ^ 64) (r : List Bool) :
    readFull P (golombEncode P x ++ r) = some (x, r) := by
  unfold readFull golombEncode
  rw [List.append_assoc, List.cons_append, readUnary_replicate]
  simp only [readBits_beBits]
  have hd : x / 2 ^ P * 2 ^ P + x % 2 ^ P = x := by
    rw [Nat.mul_comm]; exact Nat.div_add_mod x (2 ^ P)
  have hle : x / 2 ^ P * 2 ^ P ≤ x := by omega
  have h1 : x / 2 ^ P * 2 ^ P % 2 ^ 64 = x / 2 ^ P * 2 ^ P := Nat.mod_eq_of_lt (by omega)
  rw [h1, Nat.mod_mod, hd, Nat.mod_eq_of_lt hx]

/-- ascending chain starting at `last` -/
def Asc : Nat → List Nat → Prop
  | _, [] => True
  | last, v :: vs => last ≤ v ∧ Asc v vs

theorem Asc.ge {last : Nat} {vs : List Nat} (h : Asc last vs) : ∀ x ∈ vs, last ≤ x := by
  induction vs generalizing last with
  | nil => intro x hx; cases hx
  | cons v vs ih =>
    intro x hx
    rcases List.mem_cons.mp hx with rfl | hx
    · exact h.1
    · exact Nat.le_trans h.1 (ih h.2 x hx)

theorem asc_of_pairwise {l : List Nat} (h : l.Pairwise (fun a b => a ≤ b)) (last : Nat)
    (hl : ∀ x ∈ l, last ≤ x) : Asc last l := by
  induction l generalizing last with
  | nil => trivial
  | cons v vs ih =>
    rw [List.pairwise_cons] at h
    exact ⟨hl v (List.mem_cons_self), ih h.2 v h.1⟩

theorem encodeValues_cons (P last v : Nat) (vs : List Nat) (hlv : last ≤ v) (hv : v < 2 ^ 64) :
    encodeValues P last (v :: vs) = golombEncode P (v - last) ++ encodeValues P v vs := by
  have h1 : (v + 2 ^ 64 - last) % 2 ^ 64 = v - last := by
    have : v + 2 ^ 64 - last = (v - last) + 2 ^ 64 := by omega
    rw [this, Nat.add_mod_right, Nat.mod_eq_of_lt (by omega)]
  have hm : (v - last) % 2 ^ P ≤ v - last := Nat.mod_le _ _
  have h2 : ((v - last) + 2 ^ 64 - (v - last) % 2 ^ P) % 2 ^ 64 = (v - last) - (v - last) % 2 ^ P := by
    have : (v - last) + 2 ^ 64 - (v - last) % 2 ^ P = ((v - last) - (v - last) % 2 ^ P) + 2 ^ 64 := by omega
    rw [this, Nat.add_mod_right, Nat.mod_eq_of_lt (by omega)]
  have h3 : ((v - last) - (v - last) % 2 ^ P) / 2 ^ P = (v - last) / 2 ^ P := by
    have hd := Nat.div_add_mod (v - last) (2 ^ P)
    have : (v - last) - (v - last) % 2 ^ P = 2 ^ P * ((v - last) / 2 ^ P) := by omega
    rw [this, Nat.mul_div_cancel_left _ (Nat.pow_pos (by decide))]
  rw [encodeValues]
  simp only [h1, h2, h3]
  simp [golombEncode]

/-- the write loop of the builder is BIP158's `golomb_encode` of the successive differences -/
theorem encodeValues_eq (P last : Nat) (vs : List Nat) (h : Asc last vs) (hb : ∀ x ∈ vs, x < 2 ^ 64) :
    encodeValues P last vs = golombEncodeAll P (deltas last vs) := by
  induction vs generalizing last with
  | nil => simp [encodeValues, golombEncodeAll, deltas]
  | cons v vs ih =>
    rw [encodeValues_cons P last v vs h.1 (hb v (List.mem_cons_self)),
      ih v h.2 (fun x hx => hb x (List.mem_cons_of_mem _ hx))]
    simp [golombEncodeAll, deltas]

/-- reading `k` values back (no running sum) -/
def readN (p : Nat) : Nat → List Bool → Option (List Nat × List Bool)
  | 0, bits => some ([], bits)
  | k+1, bits => match readFull p bits with
    | none => none
    | some (v, rest) => match readN p k rest with
      | none => none
      | some (vs, rest') => some (v :: vs, rest')

theorem readN_golombEncodeAll (P : Nat) (ds : List Nat) (hb : ∀ x ∈ ds, x < 2 ^ 64) (pad : List Bool) :
    readN P ds.length (golombEncodeAll P ds ++ pad) = some (ds, pad) := by
  induction ds with
  | nil => simp [readN, golombEncodeAll]
  | cons d ds ih =>
    have : golombEncodeAll P (d :: ds) ++ pad = golombEncode P d ++ (golombEncodeAll P ds ++ pad) := by
      simp [golombEncodeAll]
    rw [this, List.length_cons, readN, readFull_golombEncode P d (hb d (List.mem_cons_self))]
    simp only []
    rw [ih (fun x hx => hb x (List.mem_cons_of_mem _ hx))]

end BV.C20.Lemmas
