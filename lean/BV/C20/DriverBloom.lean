/- C20 bloom-filter ops of the line protocol (ops `bloom…`). Core-only. Stub until Bloom.lean lands. -/
namespace BV.C20.DriverBloom

def handle : List String → String
  | _ => "unimplemented"

end BV.C20.DriverBloom
