/- C20 bloom-filter ops of the line protocol (ops `bloom…`). Core-only.

  bloommm <seed> <hex>                                   raw MurmurHash3 → decimal
  bloom <filter> <hashFuncs> <tweak> <flags> <ops>       LoadFilter + op sequence
     filter : nil (LoadFilter(nil)) | - (empty) | hex | z<N> (N zero bytes)
     ops    : `.` (none) or `;`-separated
        a:<hex>  m:<hex>  ao:<hash32>:<index>  mo:<hash32>:<index>
        tx:<rawtx>:<txid>:<outs>:<ins>     (rawtx is for the Go side; the rest is the abstract view)
           outs = `.` | out,out,…   out = <k|o>/<pushes>       k = pubkey or multisig script class
           ins  = `.` | in,in,…     in  = <prevhash>/<previndex>/<pushes>
           pushes = `!` (PushedData error) | `.` (no push) | hex+hex+…   (`-` = empty push)
  bloomnew <elements> <fprate float64 bits, hex> <tweak> <flags> <size> <hashFuncs> <ops>
     Go: NewFilter(elements, tweak, fprate, flags) must have exactly <size>/<hashFuncs> (observed by the
     generator; the float64 sizing is not modelled) and stay within the wire limits; then the ops.
  answer: r=<one 0/1 per m/mo/tx op | -> f=<hex | - | nil | len:<n>:sha256> k=<hashFuncs> t=<tweak> fl=<flags>
-/
import BV.Common.Hex
import BV.Common.Sha256
import BV.Common.Murmur3
import BV.C20.Bloom
namespace BV.C20.DriverBloom
open BV.Hex BV.C20.Bloom

def murmur : UInt32 → Bytes → UInt32 := BV.Murmur3.hash

/-- hash-function counts above this are rejected by both sides (4·10^9 murmur calls are no test) -/
def maxFuncs : Nat := 100000

def u32? (s : String) : Option UInt32 :=
  match s.toNat? with
  | some n => if n < 2 ^ 32 then some (UInt32.ofNat n) else none
  | none => none

def parseFilterBits? (s : String) : Option Bytes :=
  if s.startsWith "z" then
    match (s.drop 1).toString.toNat? with
    | some n => if n ≤ 1000000 then some (List.replicate n 0) else none
    | none => none
  else hexToList? s

def parsePushes? (s : String) : Option (Option (List Bytes)) :=
  if s == "!" then some none
  else if s == "." then some (some [])
  else ((s.splitOn "+").mapM hexToList?).map some

def parseOut? (s : String) : Option TxOut :=
  match s.splitOn "/" with
  | [c, p] =>
    match parsePushes? p with
    | some ps => if c == "k" then some ⟨ps, true⟩ else if c == "o" then some ⟨ps, false⟩ else none
    | none => none
  | _ => none

def parseIn? (s : String) : Option TxIn :=
  match s.splitOn "/" with
  | [hh, i, p] =>
    match hexToList? hh, u32? i, parsePushes? p with
    | some hh, some i, some ps => if hh.length = 32 then some ⟨hh, i, ps⟩ else none
    | _, _, _ => none
  | _ => none

def parseList? {α} (f : String → Option α) (s : String) : Option (List α) :=
  if s == "." then some [] else (s.splitOn ",").mapM f

inductive Op where
  | add (d : Bytes)
  | mat (d : Bytes)
  | addOp (hh : Bytes) (i : UInt32)
  | matOp (hh : Bytes) (i : UInt32)
  | tx (t : Tx)
  | isLoaded
  | unload
  | reload (s : State)

def parseOp? (s : String) : Option Op :=
  match s.splitOn ":" with
  | ["a", d] => (hexToList? d).map .add
  | ["m", d] => (hexToList? d).map .mat
  | ["ah", d] => match hexToList? d with
    | some d => if d.length = 32 then some (.add d) else none
    | none => none
  | ["il"] => some .isLoaded
  | ["ul"] => some .unload
  | ["rn"] => some (.reload none)
  | ["rl", flt, k, t, fl] =>
    match parseFilterBits? flt, k.toNat?, u32? t, fl.toNat? with
    | some bits, some k, some t, some fl =>
      if k > maxFuncs ∨ fl ≥ 256 then none else some (.reload (some ⟨bits, UInt32.ofNat k, t, UInt8.ofNat fl⟩))
    | _, _, _, _ => none
  | ["ao", hh, i] =>
    match hexToList? hh, u32? i with
    | some hh, some i => if hh.length = 32 then some (.addOp hh i) else none
    | _, _ => none
  | ["mo", hh, i] =>
    match hexToList? hh, u32? i with
    | some hh, some i => if hh.length = 32 then some (.matOp hh i) else none
    | _, _ => none
  | ["tx", _raw, txid, outs, ins] =>
    match hexToList? txid, parseList? parseOut? outs, parseList? parseIn? ins with
    | some txid, some outs, some ins => if txid.length = 32 then some (.tx ⟨txid, outs, ins⟩) else none
    | _, _, _ => none
  | _ => none

def parseOps? (s : String) : Option (List Op) :=
  if s == "." then some [] else (s.splitOn ";").mapM parseOp?

/-- run the ops; `none` = Go panic -/
def runOps : List Op → State → List Bool → Option (State × List Bool)
  | [], s, acc => some (s, acc.reverse)
  | .add d :: ops, s, acc => (add? murmur s d).bind (fun s' => runOps ops s' acc)
  | .mat d :: ops, s, acc => (matches? murmur s d).bind (fun b => runOps ops s (b :: acc))
  | .addOp hh i :: ops, s, acc => (addOutPoint? murmur s hh i).bind (fun s' => runOps ops s' acc)
  | .matOp hh i :: ops, s, acc => (matchesOutPoint? murmur s hh i).bind (fun b => runOps ops s (b :: acc))
  | .tx t :: ops, s, acc => (matchTxAndUpdate? murmur s t).bind (fun r => runOps ops r.2 (r.1 :: acc))
  | .isLoaded :: ops, s, acc => runOps ops s (s.isSome :: acc)
  | .unload :: ops, _, acc => runOps ops none acc
  | .reload s' :: ops, _, acc => runOps ops (load s') acc

def bitsTok (b : Bytes) : String :=
  if b.length ≤ 128 then listToHexTok b
  else s!"len:{b.length}:{listToHex (BV.Sha256.hashList b)}"

def showState : State → String
  | none => "f=nil"
  | some f => s!"f={bitsTok f.bits} k={f.hashFuncs.toNat} t={f.tweak.toNat} fl={f.flags.toNat}"

def resStr (l : List Bool) : String :=
  if l.isEmpty then "-" else String.ofList (l.map (fun b => if b then '1' else '0'))

def runLine (s0 : State) (ops : List Op) : String :=
  match runOps ops s0 [] with
  | none => "panic"
  | some (s, rs) => s!"r={resStr rs} {showState s}"

/-- `uint32(x)` of a non-negative finite double below 2^63 as Go/amd64 computes it (truncate, keep the
    low 32 bits); NaN gives 0 there as well -/
def f64ToU32 (x : Float) : Nat := x.toUInt64.toNat % 2 ^ 32

/-- the sizing arithmetic of `bloom.NewFilter` (float64; not used by any theorem):
    `ln2Squared` is Go's exact constant product rounded once, given here by its bit pattern -/
def newFilterShape (elements : UInt32) (fprateBits : UInt64) : Nat × Nat :=
  let fp := Float.ofBits fprateBits
  let fp := if fp > 1.0 then 1.0 else fp
  let fp := if fp < 1e-9 then 1e-9 else fp
  let ln2sq := Float.ofBits 4602326691975710095
  let ln2 := Float.ofBits 4604418534313441775
  let e := elements.toNat.toFloat
  let dataLen := f64ToU32 (-1.0 * e * Float.log fp / ln2sq)
  let dataLen := (min dataLen (Spec.MAX_FILTER_SIZE * 8)) / 8
  let k := f64ToU32 ((dataLen * 8).toFloat / e * ln2)
  (dataLen, min k Spec.MAX_HASH_FUNCS)

def handle : List String → String
  | ["bloommm", sd, d] =>
    match u32? sd, hexToList? d with
    | some sd, some d => toString (murmur sd d).toNat
    | _, _ => "bad-op"
  | ["bloom", flt, k, t, fl, ops] =>
    match k.toNat?, u32? t, fl.toNat?, parseOps? ops with
    | some k, some t, some fl, some ops =>
      if k ≥ 2 ^ 32 ∨ fl ≥ 256 then "bad-op" else
      if k > maxFuncs then "skip" else
      if flt == "nil" then runLine (load none) ops else
      match parseFilterBits? flt with
      | some bits => runLine (load (some ⟨bits, UInt32.ofNat k, t, UInt8.ofNat fl⟩)) ops
      | none => "bad-op"
    | _, _, _, _ => "bad-op"
  | ["bloomnew", el, fp, t, fl, size, k, ops] =>
    match u32? el, hexToNat? fp, u32? t, fl.toNat?, size.toNat?, k.toNat?, parseOps? ops with
    | some el, some fp, some t, some fl, some size, some k, some ops =>
      if fl ≥ 256 ∨ fp ≥ 2 ^ 64 then "bad-op" else
      if size > Spec.MAX_FILTER_SIZE ∨ k > Spec.MAX_HASH_FUNCS then "err:limits" else
      -- the shape is recomputed here (IEEE double arithmetic as in NewFilter); the one on the line is
      -- what the generator saw from the code under test
      let (size', k') := newFilterShape el (UInt64.ofNat fp)
      if size' ≠ size ∨ k' ≠ k then s!"shape:{size'}:{k'}" else
      -- NewFilter does not normalise: an empty field keeps its hash-function count
      runLine (some ⟨List.replicate size 0, UInt32.ofNat k, t, UInt8.ofNat fl⟩) ops
    | _, _, _, _, _, _, _ => "bad-op"
  | _ => "bad-op"

end BV.C20.DriverBloom
