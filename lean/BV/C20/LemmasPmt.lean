/- C20 helper lemmas: partial merkle tree (build then extract). -/
import BV.C20.Pmt
namespace BV.C20.Pmt
variable {α : Type} (hh : α → α → α) (dflt : α)

/-! ### leaf ranges -/

theorem span_succ (n h pos : Nat) : span n (h + 1) pos = span n h (pos * 2) ++ span n h (pos * 2 + 1) := by
  unfold span
  rw [← List.filter_append]
  congr 1
  have e1 : pos * 2 ^ (h + 1) = pos * 2 * 2 ^ h := by rw [Nat.pow_succ]; ac_rfl
  have e2 : (pos * 2 + 1) * 2 ^ h = pos * 2 * 2 ^ h + 2 ^ h := by rw [Nat.add_mul, Nat.one_mul]
  have e3 : 2 ^ (h + 1) = 2 ^ h + 2 ^ h := by rw [Nat.pow_succ]; omega
  rw [e1, e2, e3, List.range'_append_1]

theorem le_mul_of_width_le (n h pos : Nat) (hw : width n h ≤ pos) : n ≤ pos * 2 ^ h := by
  unfold width at hw
  have hp : 0 < 2 ^ h := Nat.pow_pos (by decide)
  have : (n + 2 ^ h - 1) / 2 ^ h < pos + 1 := by omega
  rw [Nat.div_lt_iff_lt_mul hp, Nat.add_mul, Nat.one_mul] at this
  omega

theorem mul_lt_of_lt_width (n h pos : Nat) (hw : pos < width n h) : pos * 2 ^ h < n := by
  unfold width at hw
  have hp : 0 < 2 ^ h := Nat.pow_pos (by decide)
  have : pos + 1 ≤ (n + 2 ^ h - 1) / 2 ^ h := hw
  rw [Nat.le_div_iff_mul_le hp, Nat.add_mul, Nat.one_mul] at this
  omega

theorem span_empty (n h pos : Nat) (hw : ¬ pos < width n h) : span n h pos = [] := by
  unfold span
  rw [List.filter_eq_nil_iff]
  intro x hx
  rw [List.mem_range'_1] at hx
  have := le_mul_of_width_le n h pos (by omega)
  simp only [decide_eq_true_eq]
  omega

theorem span_zero (n pos : Nat) : span n 0 pos = if pos < n then [pos] else [] := by
  unfold span
  by_cases h : pos < n <;> simp [h, List.range'_one]

/-- matched (index, txid) pairs below a node, in index order -/
def matchedUnder (leaves : List α) (matched : List Bool) (h pos : Nat) : List (Nat × α) :=
  ((span matched.length h pos).filter (fun i => matched.getD i false)).map (fun i => (i, leaves.getD i dflt))

theorem matchedUnder_succ (leaves : List α) (matched : List Bool) (h pos : Nat) :
    matchedUnder dflt leaves matched (h + 1) pos =
      matchedUnder dflt leaves matched h (pos * 2) ++ matchedUnder dflt leaves matched h (pos * 2 + 1) := by
  unfold matchedUnder
  rw [span_succ, List.filter_append, List.map_append]

theorem matchedUnder_not_parent (leaves : List α) (matched : List Bool) (h pos : Nat)
    (hp : isParent matched h pos = false) : matchedUnder dflt leaves matched h pos = [] := by
  unfold matchedUnder
  unfold isParent at hp
  rw [List.any_eq_false] at hp
  rw [List.map_eq_nil_iff, List.filter_eq_nil_iff]
  intro x hx
  exact hp x hx

/-! ### extract ∘ traverse -/

theorem extract_traverse (leaves : List α) (matched : List Bool) (hlen : matched.length = leaves.length)
    (h pos : Nat) (bits' : List Bool) (hs' : List α) :
    extractNode hh leaves.length h pos
      ((traverse hh dflt leaves matched h pos).1 ++ bits') ((traverse hh dflt leaves matched h pos).2 ++ hs')
    = some (calcHash hh dflt leaves h pos, matchedUnder dflt leaves matched h pos, bits', hs') := by
  induction h generalizing pos bits' hs' with
  | zero =>
    simp only [traverse, List.cons_append, List.nil_append, extractNode]
    congr 2
    simp only [calcHash]
    unfold isParent matchedUnder
    rw [span_zero]
    by_cases hp : pos < matched.length
    · simp only [if_pos hp, List.any_cons, List.any_nil, Bool.or_false, List.filter_cons, List.filter_nil]
      cases hm : matched.getD pos false <;> simp
    · simp [hp]
  | succ h ih =>
    by_cases hp : isParent matched (h + 1) pos = false
    · rw [traverse, if_pos hp]
      simp only [List.cons_append, List.nil_append, extractNode, if_true]
      rw [matchedUnder_not_parent dflt leaves matched (h + 1) pos hp]
    · rw [traverse, if_neg hp]
      by_cases hw : pos * 2 + 1 < width leaves.length h
      · simp only [if_pos hw, List.cons_append, extractNode, Bool.true_eq_false, if_false,
          List.append_assoc]
        simp only [ih]
        rw [matchedUnder_succ]
        simp [calcHash, hw]
      · simp only [if_neg hw, List.cons_append, extractNode, Bool.true_eq_false, if_false]
        simp only [ih]
        rw [matchedUnder_succ]
        have he : matchedUnder dflt leaves matched h (pos * 2 + 1) = [] := by
          unfold matchedUnder
          rw [span_empty _ _ _ (by rw [hlen]; exact hw)]
          rfl
        rw [he, List.append_nil]
        simp [calcHash, hw]

/-! ### sizes -/

theorem traverse_hashes_le_bits (leaves : List α) (matched : List Bool) (h pos : Nat) :
    (traverse hh dflt leaves matched h pos).2.length ≤ (traverse hh dflt leaves matched h pos).1.length := by
  induction h generalizing pos with
  | zero => simp [traverse]
  | succ h ih =>
    rw [traverse]
    by_cases hp : isParent matched (h + 1) pos = false
    · simp [hp]
    · rw [if_neg hp]
      have h1 := ih (pos * 2)
      have h2 := ih (pos * 2 + 1)
      by_cases hw : pos * 2 + 1 < width leaves.length h
      · simp only [if_pos hw, List.length_append, List.length_cons]; omega
      · simp only [if_neg hw, List.length_cons]; omega

theorem traverse_hashes_bound (leaves : List α) (matched : List Bool) (h pos : Nat)
    (hpos : pos * 2 ^ h < leaves.length) :
    (traverse hh dflt leaves matched h pos).2.length + pos * 2 ^ h ≤ leaves.length ∧
    (traverse hh dflt leaves matched h pos).2.length ≤ 2 ^ h := by
  induction h generalizing pos with
  | zero => simp only [traverse, List.length_cons, List.length_nil]; omega
  | succ h ih =>
    have hp2 : 0 < 2 ^ h := Nat.pow_pos (by decide)
    have e1 : pos * 2 ^ (h + 1) = pos * 2 * 2 ^ h := by rw [Nat.pow_succ]; ac_rfl
    have e2 : (pos * 2 + 1) * 2 ^ h = pos * 2 * 2 ^ h + 2 ^ h := by rw [Nat.add_mul, Nat.one_mul]
    have e3 : 2 ^ (h + 1) = 2 ^ h + 2 ^ h := by rw [Nat.pow_succ]; omega
    rw [traverse]
    by_cases hp : isParent matched (h + 1) pos = false
    · rw [if_pos hp]
      simp only [List.length_cons, List.length_nil]
      omega
    · rw [if_neg hp]
      have h1 := ih (pos * 2) (by omega)
      by_cases hw : pos * 2 + 1 < width leaves.length h
      · have h2 := ih (pos * 2 + 1) (mul_lt_of_lt_width _ _ _ hw)
        simp only [if_pos hw, List.length_append]
        omega
      · simp only [if_neg hw]
        omega

/-! ### flag bytes -/

theorem flag8 (b0 b1 b2 b3 b4 b5 b6 b7 : Bool) :
    (List.range 8).map (fun i => (flagByte [b0, b1, b2, b3, b4, b5, b6, b7]).toNat / 2 ^ i % 2 == 1)
      = [b0, b1, b2, b3, b4, b5, b6, b7] := by
  cases b0 <;> cases b1 <;> cases b2 <;> cases b3 <;> cases b4 <;> cases b5 <;> cases b6 <;> cases b7 <;> rfl

theorem flagByte_pad (l : List Bool) (k : Nat) : flagByte (l ++ List.replicate k false) = flagByte l := by
  unfold flagByte
  congr 1
  induction l with
  | nil => induction k with
    | zero => rfl
    | succ k ih =>
      simp only [List.nil_append, List.foldr_nil] at ih
      simp [List.replicate_succ, ih]
  | cons b l ih => simp [ih]

theorem unpack_packFlags : ∀ bs : List Bool,
    ∃ k, k < 8 ∧ unpackFlags (packFlags bs) = bs ++ List.replicate k false
  | [] => ⟨0, by decide, by simp [packFlags, unpackFlags]⟩
  | [b0] => ⟨7, by decide, by
      have := flagByte_pad [b0] 7
      simp only [packFlags, unpackFlags, List.flatMap_cons, List.flatMap_nil, List.append_nil]
      rw [← this]; exact flag8 b0 false false false false false false false⟩
  | [b0, b1] => ⟨6, by decide, by
      have := flagByte_pad [b0, b1] 6
      simp only [packFlags, unpackFlags, List.flatMap_cons, List.flatMap_nil, List.append_nil]
      rw [← this]; exact flag8 b0 b1 false false false false false false⟩
  | [b0, b1, b2] => ⟨5, by decide, by
      have := flagByte_pad [b0, b1, b2] 5
      simp only [packFlags, unpackFlags, List.flatMap_cons, List.flatMap_nil, List.append_nil]
      rw [← this]; exact flag8 b0 b1 b2 false false false false false⟩
  | [b0, b1, b2, b3] => ⟨4, by decide, by
      have := flagByte_pad [b0, b1, b2, b3] 4
      simp only [packFlags, unpackFlags, List.flatMap_cons, List.flatMap_nil, List.append_nil]
      rw [← this]; exact flag8 b0 b1 b2 b3 false false false false⟩
  | [b0, b1, b2, b3, b4] => ⟨3, by decide, by
      have := flagByte_pad [b0, b1, b2, b3, b4] 3
      simp only [packFlags, unpackFlags, List.flatMap_cons, List.flatMap_nil, List.append_nil]
      rw [← this]; exact flag8 b0 b1 b2 b3 b4 false false false⟩
  | [b0, b1, b2, b3, b4, b5] => ⟨2, by decide, by
      have := flagByte_pad [b0, b1, b2, b3, b4, b5] 2
      simp only [packFlags, unpackFlags, List.flatMap_cons, List.flatMap_nil, List.append_nil]
      rw [← this]; exact flag8 b0 b1 b2 b3 b4 b5 false false⟩
  | [b0, b1, b2, b3, b4, b5, b6] => ⟨1, by decide, by
      have := flagByte_pad [b0, b1, b2, b3, b4, b5, b6] 1
      simp only [packFlags, unpackFlags, List.flatMap_cons, List.flatMap_nil, List.append_nil]
      rw [← this]; exact flag8 b0 b1 b2 b3 b4 b5 b6 false⟩
  | b0 :: b1 :: b2 :: b3 :: b4 :: b5 :: b6 :: b7 :: rest => by
      obtain ⟨k, hk, h⟩ := unpack_packFlags rest
      refine ⟨k, hk, ?_⟩
      have hp : packFlags (b0 :: b1 :: b2 :: b3 :: b4 :: b5 :: b6 :: b7 :: rest)
          = flagByte [b0, b1, b2, b3, b4, b5, b6, b7] :: packFlags rest := by
        simp [packFlags]
      rw [hp]
      unfold unpackFlags at h ⊢
      rw [List.flatMap_cons, h, flag8]
      simp

theorem packFlags_length (bs : List Bool) : (packFlags bs).length = (bs.length + 7) / 8 := by
  obtain ⟨k, hk, h⟩ := unpack_packFlags bs
  have := congrArg List.length h
  simp only [unpackFlags, List.length_flatMap, List.length_map, List.length_range, List.length_append,
    List.length_replicate] at this
  have h8 : (List.map (fun _ => 8) (packFlags bs)).sum = 8 * (packFlags bs).length := by
    induction packFlags bs with
    | nil => rfl
    | cons a l ih => simp [ih]; omega
  rw [h8] at this
  omega

/-! ### tree height -/

theorem heightFrom_spec (n fuel h : Nat) :
    width n (heightFrom n fuel h) ≤ 1 ∨ heightFrom n fuel h = h + fuel := by
  induction fuel generalizing h with
  | zero => right; rfl
  | succ fuel ih =>
    rw [heightFrom]
    by_cases hw : width n h > 1
    · rw [if_pos hw]
      rcases ih (h + 1) with h1 | h1
      · left; exact h1
      · right; rw [h1]; omega
    · rw [if_neg hw]; left; omega

theorem le_pow_treeHeight (n : Nat) (hn : n ≤ 2 ^ 64) : n ≤ 2 ^ treeHeight n := by
  have hw : width n (treeHeight n) ≤ 1 := by
    rcases heightFrom_spec n 64 0 with h | h
    · exact h
    · unfold treeHeight; rw [h]
      unfold width
      have : (n + 2 ^ (0 + 64) - 1) / 2 ^ (0 + 64) < 2 := by
        rw [Nat.div_lt_iff_lt_mul (by decide)]; omega
      omega
  have := le_mul_of_width_le n (treeHeight n) 1 hw
  omega

theorem span_root (n H : Nat) (hn : n ≤ 2 ^ H) : span n H 0 = List.range n := by
  unfold span
  have hsplit : List.range' (0 * 2 ^ H) (2 ^ H) = List.range' 0 n ++ List.range' n (2 ^ H - n) := by
    have := List.range'_append_1 (s := 0) (m := n) (n := 2 ^ H - n)
    rw [Nat.zero_add] at this
    rw [this, Nat.zero_mul]; congr 1; omega
  rw [hsplit, List.filter_append]
  have h1 : (List.range' 0 n).filter (fun x => decide (x < n)) = List.range' 0 n := by
    rw [List.filter_eq_self]; intro x hx; rw [List.mem_range'_1] at hx; simp; omega
  have h2 : (List.range' n (2 ^ H - n)).filter (fun x => decide (x < n)) = [] := by
    rw [List.filter_eq_nil_iff]; intro x hx; rw [List.mem_range'_1] at hx; simp; omega
  rw [h1, h2, List.append_nil, List.range_eq_range']

/-! ### extract ∘ build -/

theorem extract_newMerkleBlock (leaves : List α) (matched : List Bool)
    (hne : leaves ≠ []) (hlen : matched.length = leaves.length) :
    extract hh leaves.length (packFlags (newMerkleBlock hh dflt leaves matched).bits)
        (newMerkleBlock hh dflt leaves matched).hashes
      = some (calcHash hh dflt leaves (treeHeight leaves.length) 0,
              matchedUnder dflt leaves matched (treeHeight leaves.length) 0) := by
  have hn : 0 < leaves.length := List.length_pos_iff.mpr hne
  unfold extract newMerkleBlock
  simp only []
  generalize hH : treeHeight leaves.length = H
  have hb := traverse_hashes_bound hh dflt leaves matched H 0 (by omega)
  have hle := traverse_hashes_le_bits hh dflt leaves matched H 0
  have hfl := packFlags_length (traverse hh dflt leaves matched H 0).1
  obtain ⟨k, hk, hun⟩ := unpack_packFlags (traverse hh dflt leaves matched H 0).1
  rw [if_neg (by omega), if_neg (by omega), if_neg (by omega), hun]
  have := extract_traverse hh dflt leaves matched hlen H 0 (List.replicate k false) []
  rw [List.append_nil] at this
  rw [this]
  simp only [List.length_replicate, List.length_nil]
  rw [if_neg (by omega)]
  simp

theorem matchedUnder_root (leaves : List α) (matched : List Bool) (hlen : matched.length = leaves.length)
    (hn : leaves.length ≤ 2 ^ 64) :
    matchedUnder dflt leaves matched (treeHeight leaves.length) 0 =
      ((List.range leaves.length).filter (fun i => matched.getD i false)).map
        (fun i => (i, leaves.getD i dflt)) := by
  unfold matchedUnder
  rw [hlen, span_root _ _ (le_pow_treeHeight _ hn)]

/-! ### the CVE-2012-2459 guard never fires on a built tree with distinct siblings -/

theorem extractStrict_traverse [DecidableEq α] (leaves : List α) (matched : List Bool)
    (hlen : matched.length = leaves.length) (hd : DistinctSiblings hh dflt leaves)
    (h pos : Nat) (bits' : List Bool) (hs' : List α) :
    extractNodeStrict hh leaves.length h pos
      ((traverse hh dflt leaves matched h pos).1 ++ bits') ((traverse hh dflt leaves matched h pos).2 ++ hs')
    = some (calcHash hh dflt leaves h pos, matchedUnder dflt leaves matched h pos, bits', hs') := by
  induction h generalizing pos bits' hs' with
  | zero =>
    simp only [traverse, List.cons_append, List.nil_append, extractNodeStrict]
    congr 2
    simp only [calcHash]
    unfold isParent matchedUnder
    rw [span_zero]
    by_cases hp : pos < matched.length
    · simp only [if_pos hp, List.any_cons, List.any_nil, Bool.or_false, List.filter_cons, List.filter_nil]
      cases hm : matched.getD pos false <;> simp
    · simp [hp]
  | succ h ih =>
    by_cases hp : isParent matched (h + 1) pos = false
    · rw [traverse, if_pos hp]
      simp only [List.cons_append, List.nil_append, extractNodeStrict, if_true]
      rw [matchedUnder_not_parent dflt leaves matched (h + 1) pos hp]
    · rw [traverse, if_neg hp]
      by_cases hw : pos * 2 + 1 < width leaves.length h
      · simp only [if_pos hw, List.cons_append, extractNodeStrict, Bool.true_eq_false, if_false,
          List.append_assoc]
        simp only [ih]
        rw [if_neg (hd h pos hw), matchedUnder_succ]
        simp [calcHash, hw]
      · simp only [if_neg hw, List.cons_append, extractNodeStrict, Bool.true_eq_false, if_false]
        simp only [ih]
        rw [matchedUnder_succ]
        have he : matchedUnder dflt leaves matched h (pos * 2 + 1) = [] := by
          unfold matchedUnder
          rw [span_empty _ _ _ (by rw [hlen]; exact hw)]
          rfl
        rw [he, List.append_nil]
        simp [calcHash, hw]

theorem extractStrict_newMerkleBlock [DecidableEq α] (leaves : List α) (matched : List Bool)
    (hne : leaves ≠ []) (hlen : matched.length = leaves.length) (hd : DistinctSiblings hh dflt leaves) :
    extractStrict hh leaves.length (packFlags (newMerkleBlock hh dflt leaves matched).bits)
        (newMerkleBlock hh dflt leaves matched).hashes
      = some (calcHash hh dflt leaves (treeHeight leaves.length) 0,
              matchedUnder dflt leaves matched (treeHeight leaves.length) 0) := by
  have hn : 0 < leaves.length := List.length_pos_iff.mpr hne
  unfold extractStrict newMerkleBlock
  simp only []
  generalize hH : treeHeight leaves.length = H
  have hb := traverse_hashes_bound hh dflt leaves matched H 0 (by omega)
  have hle := traverse_hashes_le_bits hh dflt leaves matched H 0
  have hfl := packFlags_length (traverse hh dflt leaves matched H 0).1
  obtain ⟨k, hk, hun⟩ := unpack_packFlags (traverse hh dflt leaves matched H 0).1
  rw [if_neg (by omega), if_neg (by omega), if_neg (by omega), hun]
  have := extractStrict_traverse hh dflt leaves matched hlen hd H 0 (List.replicate k false) []
  rw [List.append_nil] at this
  rw [this]
  simp only [List.length_replicate, List.length_nil]
  rw [if_neg (by omega)]
  simp

end BV.C20.Pmt
