/-
C20, bloom-filter part: proofs about the model in Bloom.lean. Core-only.
The murmur hash `h` is universally quantified in every statement.
-/
import BV.C20.Bloom
namespace BV.C20.Bloom

/-! ### bytes -/

theorem u8_or_and_self (b m : UInt8) : (b ||| m) &&& m = m := by
  apply UInt8.toBitVec_inj.1
  ext i hi
  simp
  exact Or.inr

theorem u8_or_and_distrib (b x m : UInt8) : (b ||| x) &&& m = (b &&& m) ||| (x &&& m) := by
  apply UInt8.toBitVec_inj.1
  ext i hi
  simp [Bool.and_or_distrib_right]

theorem shl_lt8_ne_zero : ∀ k : Nat, k < 8 → (1 <<< k) % 256 ≠ 0 := by decide

theorem mask_ne_zero (idx : UInt32) : mask idx ≠ 0 := by
  unfold mask
  intro h
  have := congrArg UInt8.toNat h
  simp at this
  exact shl_lt8_ne_zero _ (Nat.mod_lt _ (by decide)) this

/-! ### the divisor and the range of bit offsets -/

theorem nbits_toNat (bits : Bytes) : (nbits bits).toNat = (bits.length % 2 ^ 32) * 8 % 2 ^ 32 := by
  unfold nbits
  rw [UInt32.toNat_shiftLeft]
  simp [Nat.shiftLeft_eq]

theorem nbits_ne_zero_of_size (bits : Bytes) (h0 : 0 < bits.length) (h1 : bits.length * 8 < 2 ^ 32) :
    nbits bits ≠ 0 := by
  intro e
  have := congrArg UInt32.toNat e
  rw [nbits_toNat] at this
  simp at this
  omega

theorem nbits_nil : nbits [] = 0 := by decide

/-- no index-out-of-range panic: every offset `mm % (uint32(len) << 3)` addresses a byte of the field,
    whatever the length (even when `len * 8` wraps) -/
theorem in_range (x : UInt32) (bits : Bytes) (h : nbits bits ≠ 0) :
    ((x % nbits bits) >>> 3).toNat < bits.length := by
  have h0 : (nbits bits).toNat ≠ 0 := fun e => h (UInt32.toNat_inj.1 (by simpa using e))
  have h1 : (x % nbits bits).toNat < (nbits bits).toNat := by
    rw [UInt32.toNat_mod]; exact Nat.mod_lt _ (Nat.pos_of_ne_zero h0)
  rw [UInt32.toNat_shiftRight]
  rw [nbits_toNat] at h1
  generalize (x % nbits bits).toNat = r at h1
  have : (3 : UInt32).toNat % 32 = 3 := by decide
  rw [this, Nat.shiftRight_eq_div_pow]
  omega

/-! ### single bits -/

theorem setBit_length (bits : Bytes) (idx : UInt32) : (setBit bits idx).length = bits.length := by
  simp [setBit]

theorem testBit_setBit_self (bits : Bytes) (idx : UInt32) (hr : (idx >>> 3).toNat < bits.length) :
    testBit (setBit bits idx) idx = true := by
  unfold testBit setBit
  rw [List.getD_eq_getElem?_getD, List.getElem?_set_self hr]
  simp only [Option.getD_some]
  rw [u8_or_and_self]
  simp [mask_ne_zero]

/-- `setBit` only sets bits -/
theorem testBit_setBit_mono (bits : Bytes) (idx j : UInt32) (h : testBit bits j = true) :
    testBit (setBit bits idx) j = true := by
  unfold testBit setBit at *
  by_cases hij : (idx >>> 3).toNat = (j >>> 3).toNat
  · by_cases hr : (idx >>> 3).toNat < bits.length
    · rw [← hij] at h ⊢
      rw [List.getD_eq_getElem?_getD, List.getElem?_set_self hr]
      simp only [Option.getD_some]
      rw [u8_or_and_distrib]
      simp only [bne_iff_ne, ne_eq] at *
      intro e
      exact h (UInt8.or_eq_zero_iff.1 e).1
    · rw [List.set_eq_of_length_le (Nat.le_of_not_lt hr)]; exact h
  · rw [List.getD_eq_getElem?_getD, List.getElem?_set_ne hij, ← List.getD_eq_getElem?_getD]; exact h

theorem foldl_setBit_length (is : List UInt32) (bits : Bytes) :
    (is.foldl setBit bits).length = bits.length := by
  induction is generalizing bits with
  | nil => rfl
  | cons i is ih => simp [List.foldl_cons, ih, setBit_length]

theorem foldl_setBit_mono (is : List UInt32) (bits : Bytes) (j : UInt32) (h : testBit bits j = true) :
    testBit (is.foldl setBit bits) j = true := by
  induction is generalizing bits with
  | nil => exact h
  | cons i is ih => exact ih _ (testBit_setBit_mono bits i j h)

theorem foldl_setBit_mem (is : List UInt32) (bits : Bytes)
    (hr : ∀ i ∈ is, (i >>> 3).toNat < bits.length) :
    ∀ i ∈ is, testBit (is.foldl setBit bits) i = true := by
  induction is generalizing bits with
  | nil => intro i hi; cases hi
  | cons a is ih =>
    intro i hi
    rw [List.foldl_cons]
    rcases List.mem_cons.1 hi with e | hm
    · subst e
      exact foldl_setBit_mono is _ _ (testBit_setBit_self bits i (hr i (List.mem_cons_self ..)))
    · refine ih (setBit bits a) ?_ i hm
      intro k hk
      rw [setBit_length]
      exact hr k (List.mem_cons_of_mem _ hk)

/-! ### filters -/

namespace Filter

/-- `g` extends `f`: same shape and parameters, every bit of `f` is set in `g` -/
structure le (f g : Filter) : Prop where
  len : g.bits.length = f.bits.length
  k : g.hashFuncs = f.hashFuncs
  tweak : g.tweak = f.tweak
  flags : g.flags = f.flags
  bits : ∀ j, testBit f.bits j = true → testBit g.bits j = true

theorem le_refl (f : Filter) : le f f := ⟨rfl, rfl, rfl, rfl, fun _ h => h⟩

theorem le_trans {f g k : Filter} (a : le f g) (b : le g k) : le f k :=
  ⟨b.len.trans a.len, b.k.trans a.k, b.tweak.trans a.tweak, b.flags.trans a.flags,
   fun j h => b.bits j (a.bits j h)⟩

theorem nbits_eq_of_length {a b : Bytes} (e : a.length = b.length) : nbits a = nbits b := by
  unfold nbits; rw [e]

theorem idxs_of_le (h : UInt32 → Bytes → UInt32) {f g : Filter} (l : le f g) (d : Bytes) :
    g.idxs h d = f.idxs h d := by
  unfold idxs
  rw [l.k, l.tweak, nbits_eq_of_length l.len]

theorem panics_of_le {f g : Filter} (l : le f g) : g.panics = f.panics := by
  unfold panics
  rw [l.k, nbits_eq_of_length l.len]

theorem le_add (h : UInt32 → Bytes → UInt32) (f : Filter) (d : Bytes) : le f (f.add h d) :=
  ⟨foldl_setBit_length _ _, rfl, rfl, rfl, fun j hj => foldl_setBit_mono _ _ j hj⟩

/-- `add` changes neither the size of the bit field nor the parameters -/
theorem add_preserves (h : UInt32 → Bytes → UInt32) (f : Filter) (d : Bytes) :
    (f.add h d).bits.length = f.bits.length ∧ (f.add h d).hashFuncs = f.hashFuncs ∧
    (f.add h d).tweak = f.tweak ∧ (f.add h d).flags = f.flags :=
  ⟨foldl_setBit_length _ _, rfl, rfl, rfl⟩

/-- every offset `add`/`matches` touch lies inside the field when the divisor is non-zero -/
theorem idxs_in_range (h : UInt32 → Bytes → UInt32) (f : Filter) (d : Bytes) (hp : f.panics = false) :
    ∀ i ∈ f.idxs h d, (i >>> 3).toNat < f.bits.length := by
  intro i hi
  unfold idxs at hi
  rcases List.mem_map.1 hi with ⟨n, hn, rfl⟩
  have hk : f.hashFuncs ≠ 0 := by
    intro e
    rw [e] at hn
    simp at hn
  have hnb : nbits f.bits ≠ 0 := by
    intro e
    unfold panics at hp
    rw [e] at hp
    simp [hk] at hp
  exact in_range _ _ hnb

theorem matches_mono (h : UInt32 → Bytes → UInt32) {f g : Filter} (l : le f g) (d : Bytes)
    (hm : f.matches h d = true) : g.matches h d = true := by
  unfold Filter.matches at *
  rw [idxs_of_le h l, l.len]
  rw [Bool.and_eq_true] at *
  refine ⟨?_, hm.2⟩
  rw [List.all_eq_true] at *
  intro i hi
  exact l.bits i (hm.1 i hi)

/-- what was just added matches (non-empty field, no zero divisor) -/
theorem add_then_matches_of_ok (h : UInt32 → Bytes → UInt32) (f : Filter) (d : Bytes)
    (hp : f.panics = false) (hl : 0 < f.bits.length) : (f.add h d).matches h d = true := by
  unfold Filter.matches
  rw [idxs_of_le h (le_add h f d), (le_add h f d).len, Bool.and_eq_true]
  refine ⟨?_, by simpa using hl⟩
  rw [List.all_eq_true]
  intro i hi
  exact foldl_setBit_mem _ _ (idxs_in_range h f d hp) i hi

theorem panics_false_of_size (f : Filter) (h0 : 0 < f.bits.length) (h1 : f.bits.length * 8 < 2 ^ 32) :
    f.panics = false := by
  unfold panics
  have := nbits_ne_zero_of_size f.bits h0 h1
  simp [this]

theorem le_foldl_add (h : UInt32 → Bytes → UInt32) (ds : List Bytes) (f : Filter) :
    le f (ds.foldl (Filter.add h) f) := by
  induction ds generalizing f with
  | nil => exact le_refl f
  | cons x xs ih => exact le_trans (le_add h f x) (ih _)

/-- everything inserted by any insertion sequence matches afterwards -/
theorem matches_after_adds_of_ok (h : UInt32 → Bytes → UInt32) (ds : List Bytes) (f : Filter)
    (hp : f.panics = false) (hl : 0 < f.bits.length) :
    ∀ d ∈ ds, (ds.foldl (Filter.add h) f).matches h d = true := by
  induction ds generalizing f with
  | nil => intro d hd; cases hd
  | cons x xs ih =>
    intro d hd
    rw [List.foldl_cons]
    rcases List.mem_cons.1 hd with e | hm
    · subst e
      exact matches_mono h (le_foldl_add h xs _) d (add_then_matches_of_ok h f d hp hl)
    · have l := le_add h f x
      exact ih (f.add h x) ((panics_of_le l).trans hp) (by rw [l.len]; exact hl) d hm

/-- an empty bit field matches nothing -/
theorem empty_not_matches (h : UInt32 → Bytes → UInt32) (f : Filter) (d : Bytes) (he : f.bits.length = 0) :
    f.matches h d = false := by
  unfold Filter.matches
  simp [he]

/-- zero hash functions and a non-empty field: matches everything (Bitcoin Core behaviour) -/
theorem zero_funcs_matches (h : UInt32 → Bytes → UInt32) (f : Filter) (d : Bytes) (hk : f.hashFuncs = 0)
    (hl : 0 < f.bits.length) : f.matches h d = true := by
  unfold Filter.matches idxs
  simp [hk, hl]

/-! ### matchTxAndUpdate -/

theorem le_maybeAddOutpoint (h : UInt32 → Bytes → UInt32) (f : Filter) (o : TxOut) (txid : Bytes) (i : UInt32) :
    le f (maybeAddOutpoint h f o txid i) := by
  unfold maybeAddOutpoint
  split
  · exact le_add h f _
  · exact le_refl f

theorem anyPush_mono (h : UInt32 → Bytes → UInt32) {f g : Filter} (l : le f g) (ps : Option (List Bytes))
    (hm : anyPush h f ps = true) : anyPush h g ps = true := by
  cases ps with
  | none => exact hm
  | some ps =>
    unfold anyPush at *
    rw [List.any_eq_true] at *
    rcases hm with ⟨p, hp, hpm⟩
    exact ⟨p, hp, matches_mono h l p hpm⟩

theorem outsLoop_le (h : UInt32 → Bytes → UInt32) (txid : Bytes) (os : List TxOut) (i : Nat) (m : Bool) (f : Filter) :
    le f (outsLoop h txid os i (m, f)).2 := by
  induction os generalizing i m f with
  | nil => exact le_refl f
  | cons o os ih =>
    unfold outsLoop
    split
    · exact le_trans (le_maybeAddOutpoint h f o txid _) (ih _ _ _)
    · exact ih _ _ _

theorem outsLoop_true (h : UInt32 → Bytes → UInt32) (txid : Bytes) (os : List TxOut) (i : Nat) (f : Filter) :
    (outsLoop h txid os i (true, f)).1 = true := by
  induction os generalizing i f with
  | nil => rfl
  | cons o os ih =>
    unfold outsLoop
    split
    · exact ih _ _
    · exact ih _ _

/-- an output one of whose pushed data elements matches makes the transaction match -/
theorem outsLoop_of_push (h : UInt32 → Bytes → UInt32) (txid : Bytes) (os : List TxOut) (i : Nat) (m : Bool)
    (f : Filter) (o : TxOut) (ho : o ∈ os) (hm : anyPush h f o.pushes = true) :
    (outsLoop h txid os i (m, f)).1 = true := by
  induction os generalizing i m f with
  | nil => cases ho
  | cons o' os ih =>
    unfold outsLoop
    split
    · exact outsLoop_true ..
    · rename_i hn
      rcases List.mem_cons.1 ho with e | hmem
      · subst e; exact absurd hm hn
      · exact ih _ _ _ hmem hm

/-- the outpoint of a matched output that the update flag selects matches afterwards -/
theorem outsLoop_updates (h : UInt32 → Bytes → UInt32) (txid : Bytes) (os : List TxOut) (i : Nat) (m : Bool)
    (f : Filter) (hp : f.panics = false) (hl : 0 < f.bits.length)
    (k : Nat) (o : TxOut) (hk : os[k]? = some o) (hm : anyPush h f o.pushes = true)
    (hs : shouldAdd f.flags o = true) :
    (outsLoop h txid os i (m, f)).2.matchesOutPoint h txid (UInt32.ofNat (i + k)) = true := by
  induction os generalizing i m f k with
  | nil => simp at hk
  | cons o' os ih =>
    cases k with
    | zero =>
      simp at hk
      subst hk
      unfold outsLoop
      rw [if_pos hm]
      refine matches_mono h (outsLoop_le ..) _ ?_
      unfold maybeAddOutpoint
      rw [if_pos hs]
      exact add_then_matches_of_ok h f _ hp hl
    | succ k =>
      simp at hk
      have e : i + (k + 1) = (i + 1) + k := by omega
      rw [e]
      unfold outsLoop
      split
      · have l := le_maybeAddOutpoint h f o' txid (UInt32.ofNat i)
        exact ih (i + 1) true _ ((panics_of_le l).trans hp) (by rw [l.len]; exact hl) k hk
          (anyPush_mono h l _ hm) (by rw [l.flags]; exact hs)
      · exact ih (i + 1) m f hp hl k hk hm hs

/-- no selected output ⇒ the filter is left unchanged -/
theorem outsLoop_unchanged (h : UInt32 → Bytes → UInt32) (txid : Bytes) (os : List TxOut) (i : Nat) (m : Bool)
    (f : Filter) (hs : ∀ o ∈ os, shouldAdd f.flags o = false) :
    (outsLoop h txid os i (m, f)).2 = f := by
  induction os generalizing i m f with
  | nil => rfl
  | cons o os ih =>
    have h1 : maybeAddOutpoint h f o txid (UInt32.ofNat i) = f := by
      unfold maybeAddOutpoint
      rw [hs o (List.mem_cons_self ..)]
      simp
    unfold outsLoop
    rw [h1]
    split
    · exact ih _ _ _ (fun o' ho' => hs o' (List.mem_cons_of_mem _ ho'))
    · exact ih _ _ _ (fun o' ho' => hs o' (List.mem_cons_of_mem _ ho'))

theorem matchTx_snd (h : UInt32 → Bytes → UInt32) (f : Filter) (tx : Tx) :
    (f.matchTxAndUpdate h tx).2 = (outsLoop h tx.txid tx.outs 0 (f.matches h tx.txid, f)).2 := by
  unfold matchTxAndUpdate
  simp only []
  split <;> rfl

theorem matchTx_of_outs (h : UInt32 → Bytes → UInt32) (f : Filter) (tx : Tx)
    (hm : (outsLoop h tx.txid tx.outs 0 (f.matches h tx.txid, f)).1 = true) :
    (f.matchTxAndUpdate h tx).1 = true := by
  unfold matchTxAndUpdate
  simp only []
  rw [if_pos hm]
  exact hm

theorem matchTx_le (h : UInt32 → Bytes → UInt32) (f : Filter) (tx : Tx) : le f (f.matchTxAndUpdate h tx).2 := by
  rw [matchTx_snd]; exact outsLoop_le ..

theorem matchTx_of_txid (h : UInt32 → Bytes → UInt32) (f : Filter) (tx : Tx) (hm : f.matches h tx.txid = true) :
    (f.matchTxAndUpdate h tx).1 = true := by
  apply matchTx_of_outs
  rw [hm]
  exact outsLoop_true ..

theorem matchTx_of_out (h : UInt32 → Bytes → UInt32) (f : Filter) (tx : Tx) (o : TxOut) (ho : o ∈ tx.outs)
    (hm : anyPush h f o.pushes = true) : (f.matchTxAndUpdate h tx).1 = true :=
  matchTx_of_outs h f tx (outsLoop_of_push h tx.txid tx.outs 0 _ f o ho hm)

theorem inMatches_mono (h : UInt32 → Bytes → UInt32) {f g : Filter} (l : le f g) (i : TxIn)
    (hm : inMatches h f i = true) : inMatches h g i = true := by
  unfold inMatches at *
  rw [Bool.or_eq_true] at *
  rcases hm with a | b
  · exact Or.inl (matches_mono h l _ a)
  · exact Or.inr (anyPush_mono h l _ b)

theorem matchTx_of_in (h : UInt32 → Bytes → UInt32) (f : Filter) (tx : Tx) (i : TxIn) (hi : i ∈ tx.ins)
    (hm : inMatches h f i = true) : (f.matchTxAndUpdate h tx).1 = true := by
  unfold matchTxAndUpdate
  simp only []
  split
  · assumption
  · simp only []
    rw [List.any_eq_true]
    exact ⟨i, hi, inMatches_mono h (outsLoop_le ..) i hm⟩

/-- a transaction one of whose BIP37 data elements matches the filter is matched -/
theorem matchTx_of_element (h : UInt32 → Bytes → UInt32) (f : Filter) (tx : Tx) (x : Bytes)
    (hx : x ∈ tx.elements) (hm : f.matches h x = true) : (f.matchTxAndUpdate h tx).1 = true := by
  unfold Tx.elements at hx
  rcases List.mem_cons.1 hx with e | hx
  · subst e; exact matchTx_of_txid h f tx hm
  rcases List.mem_append.1 hx with hx | hx
  · rcases List.mem_flatMap.1 hx with ⟨o, ho, hxo⟩
    refine matchTx_of_out h f tx o ho ?_
    cases hp : o.pushes with
    | none => rw [hp] at hxo; simp at hxo
    | some ps =>
      rw [hp] at hxo
      unfold anyPush
      simp only []
      rw [List.any_eq_true]
      exact ⟨x, by simpa using hxo, hm⟩
  · rcases List.mem_flatMap.1 hx with ⟨i, hi, hxi⟩
    refine matchTx_of_in h f tx i hi ?_
    unfold inMatches
    rw [Bool.or_eq_true]
    rcases List.mem_cons.1 hxi with e | hxp
    · subst e; exact Or.inl hm
    · right
      cases hp : i.pushes with
      | none => rw [hp] at hxp; simp at hxp
      | some ps =>
        rw [hp] at hxp
        unfold anyPush
        simp only []
        rw [List.any_eq_true]
        exact ⟨x, by simpa using hxp, hm⟩

end Filter

/-! ### the model's bit addressing is BIP37's -/

theorem nat_and_two_pow (a i : Nat) : a &&& 2 ^ i = (a.testBit i).toNat * 2 ^ i := by
  apply Nat.eq_of_testBit_eq
  intro j
  rw [Nat.testBit_and, Nat.testBit_two_pow]
  cases h : a.testBit i
  · simp
    intro hj e
    subst e
    rw [h] at hj
    cases hj
  · simp [Nat.testBit_two_pow]
    intro e
    subst e
    exact h

theorem mask_toNat (idx : UInt32) : (mask idx).toNat = 2 ^ (idx.toNat % 8) := by
  unfold mask
  have e : (idx.toNat % 256 &&& 7) = idx.toNat % 8 := by
    have := Nat.and_two_pow_sub_one_eq_mod (idx.toNat % 256) 3
    simp at this
    omega
  have hlt : 2 ^ (idx.toNat % 8) < 2 ^ 8 := Nat.pow_lt_pow_right (by decide) (Nat.mod_lt _ (by decide))
  simp
  rw [e, Nat.mod_mod, Nat.shiftLeft_eq, Nat.one_mul]
  exact Nat.mod_eq_of_lt hlt

theorem testBit_eq_bitAt (bits : Bytes) (idx : UInt32) : testBit bits idx = Spec.bitAt bits idx.toNat := by
  unfold testBit Spec.bitAt
  have e : (idx >>> 3).toNat = idx.toNat / 8 := by
    rw [UInt32.toNat_shiftRight]
    have : (3 : UInt32).toNat % 32 = 3 := by decide
    rw [this, Nat.shiftRight_eq_div_pow]
  rw [e]
  generalize bits.getD (idx.toNat / 8) 0 = b
  have key : (b &&& mask idx).toNat = (b.toNat.testBit (idx.toNat % 8)).toNat * 2 ^ (idx.toNat % 8) := by
    rw [UInt8.toNat_and, mask_toNat, nat_and_two_pow]
  cases hb : b.toNat.testBit (idx.toNat % 8)
  · rw [hb] at key
    have : b &&& mask idx = 0 := UInt8.toNat_inj.1 (by simpa using key)
    simp [this]
  · rw [hb] at key
    have : b &&& mask idx ≠ 0 := by
      intro e0
      rw [e0] at key
      have hpos := Nat.two_pow_pos (idx.toNat % 8)
      simp at key
      omega
    simp [this]

theorem hashIdx_eq_bitIndex (h : UInt32 → Bytes → UInt32) (tweak : UInt32) (bits : Bytes) (i : Nat) (d : Bytes)
    (h1 : bits.length * 8 < 2 ^ 32) :
    (hashIdx h tweak (nbits bits) (UInt32.ofNat i) d).toNat = Spec.bitIndex h tweak bits.length i d := by
  unfold hashIdx Spec.bitIndex seed
  rw [UInt32.toNat_mod, nbits_toNat]
  have : bits.length % 2 ^ 32 * 8 % 2 ^ 32 = bits.length * 8 := by omega
  rw [this]

/-! ### Model = Spec: `add` sets exactly the BIP37 bits, `matches` tests exactly them -/

theorem shr3_toNat (idx : UInt32) : (idx >>> 3).toNat = idx.toNat / 8 := by
  rw [UInt32.toNat_shiftRight]
  have : (3 : UInt32).toNat % 32 = 3 := by decide
  rw [this, Nat.shiftRight_eq_div_pow]

theorem bitAt_setBit (bits : Bytes) (idx : UInt32) (n : Nat) (hn : n / 8 < bits.length) :
    Spec.bitAt (setBit bits idx) n = (Spec.bitAt bits n || decide (idx.toNat = n)) := by
  unfold Spec.bitAt setBit
  rw [shr3_toNat]
  by_cases hi : idx.toNat / 8 = n / 8
  · rw [hi, List.getD_eq_getElem?_getD, List.getElem?_set_self hn]
    simp only [Option.getD_some]
    rw [UInt8.toNat_or, mask_toNat, Nat.testBit_or, Nat.testBit_two_pow, List.getD_eq_getElem?_getD]
    have : (idx.toNat % 8 = n % 8) ↔ (idx.toNat = n) := by omega
    simp [this]
  · rw [List.getD_eq_getElem?_getD, List.getElem?_set_ne hi, ← List.getD_eq_getElem?_getD]
    have : idx.toNat ≠ n := fun e => hi (by rw [e])
    simp [this]

theorem bitAt_foldl_setBit (is : List UInt32) (bits : Bytes) (n : Nat) (hn : n / 8 < bits.length) :
    Spec.bitAt (is.foldl setBit bits) n = (Spec.bitAt bits n || is.any (fun i => decide (i.toNat = n))) := by
  induction is generalizing bits with
  | nil => simp
  | cons a is ih =>
    rw [List.foldl_cons, ih _ (by rw [setBit_length]; exact hn), bitAt_setBit bits a n hn, List.any_cons,
      Bool.or_assoc]

/-- Model = Spec for `add`: bit `n` of the field afterwards is set iff it was set before or it is one of
    the `hashFuncs` BIP37 offsets `murmur(i*0xFBA4C795+tweak, d) mod (L*8)` -/
theorem add_spec (h : UInt32 → Bytes → UInt32) (f : Filter) (d : Bytes) (n : Nat)
    (h1 : f.bits.length * 8 < 2 ^ 32) (hn : n < f.bits.length * 8) :
    Spec.bitAt (f.add h d).bits n =
      (Spec.bitAt f.bits n ||
        (List.range f.hashFuncs.toNat).any (fun i => decide (Spec.bitIndex h f.tweak f.bits.length i d = n))) := by
  unfold Filter.add Filter.idxs
  simp only []
  rw [bitAt_foldl_setBit _ _ _ (by omega), List.any_map]
  congr 1
  refine List.any_congr rfl ?_
  intro i
  simp only [Function.comp]
  rw [hashIdx_eq_bitIndex h f.tweak f.bits i d h1]

/-- Model = Spec for `matches`: non-empty field and all `hashFuncs` BIP37 offsets set -/
theorem matches_spec (h : UInt32 → Bytes → UInt32) (f : Filter) (d : Bytes) (h1 : f.bits.length * 8 < 2 ^ 32) :
    f.matches h d =
      ((List.range f.hashFuncs.toNat).all (fun i => Spec.bitAt f.bits (Spec.bitIndex h f.tweak f.bits.length i d))
        && decide (0 < f.bits.length)) := by
  unfold Filter.matches Filter.idxs
  rw [List.all_map]
  congr 1
  refine List.all_congr rfl ?_
  intro i
  simp only [Function.comp]
  rw [testBit_eq_bitAt, hashIdx_eq_bitIndex h f.tweak f.bits i d h1]

/-! ### the API on a possibly-unloaded filter: where the Go code can panic -/

theorem load_of_nonempty (f : Filter) (h0 : 0 < f.bits.length) : load (some f) = some f := by
  unfold load normalize
  have : f.bits.length ≠ 0 := by omega
  rw [Option.map_some, if_neg this]

theorem normalize_panics_of_empty (f : Filter) (he : f.bits.length = 0) : (normalize f).panics = false := by
  unfold normalize Filter.panics
  simp [he]

theorem load_empty_matches (h : UInt32 → Bytes → UInt32) (f : Filter) (d : Bytes) (he : f.bits.length = 0) :
    matches? h (load (some f)) d = some false := by
  unfold load matches?
  simp only [Option.map_some]
  rw [normalize_panics_of_empty f he]
  have : (normalize f).bits.length = 0 := by unfold normalize; simp [he]
  simp [Filter.empty_not_matches h _ d this]

theorem load_empty_add (h : UInt32 → Bytes → UInt32) (f : Filter) (d : Bytes) (he : f.bits.length = 0) :
    add? h (load (some f)) d = some (load (some f)) := by
  unfold load add?
  simp only [Option.map_some]
  rw [normalize_panics_of_empty f he]
  have hk : (normalize f).hashFuncs = 0 := by unfold normalize; simp [he]
  have key : ∀ g : Filter, g.hashFuncs = 0 → g.add h d = g := by
    intro g hg
    cases g with
    | mk b k t fl =>
      simp only at hg
      subst hg
      simp [Filter.add, Filter.idxs]
  simp [key _ hk]

theorem no_panic_of_size (h : UInt32 → Bytes → UInt32) (f : Filter) (d : Bytes)
    (h0 : 0 < f.bits.length) (h1 : f.bits.length * 8 < 2 ^ 32) :
    add? h (some f) d = some (some (f.add h d)) ∧ matches? h (some f) d = some (f.matches h d) := by
  unfold add? matches?
  simp [Filter.panics_false_of_size f h0 h1]

end BV.C20.Bloom
