/-
C20 Spec — BIP158 / BIP157 definitions stated directly. Core-only.
(The bloom-filter and partial-merkle-tree specs live in Bloom.lean / Pmt.lean.)
-/
namespace BV.C20.Spec

/-- protocol constants (pinned against the code's values in Props) -/
def BASIC_P : Nat := 19
def BASIC_M : Nat := 784931
def OP_RETURN : UInt8 := 0x6a
def KEY_SIZE : Nat := 16
def MAX_P : Nat := 32

/-- BIP158 `hash_to_range`: `(hash * F) >> 64`. -/
def mulhi (v f : Nat) : Nat := v * f / 2 ^ 64

/-- BIP158 `hashed_set_construct` for raw items, `F = N * M` (the reduced 64-bit product the
    implementation stores; equal to `N * M` whenever that fits 64 bits). `H` is the keyed hash. -/
def hashedValues (H : List UInt8 → Nat) (f : Nat) (items : List (List UInt8)) : List Nat :=
  items.map (fun d => mulhi (H d) f)

/-- `p` bits of `x`, most significant first. -/
def beBits : Nat → Nat → List Bool
  | 0, _ => []
  | p+1, x => (x / 2 ^ p % 2 == 1) :: beBits p x

/-- BIP158 `golomb_encode`: quotient in unary (ones, then a zero), remainder in `P` bits. -/
def golombEncode (P x : Nat) : List Bool :=
  List.replicate (x / 2 ^ P) true ++ false :: beBits P (x % 2 ^ P)

/-- differences of an ascending list, starting from `last` -/
def deltas : Nat → List Nat → List Nat
  | _, [] => []
  | last, v :: vs => (v - last) :: deltas v vs

/-- the Golomb-coded set of an ascending value list -/
def golombEncodeAll (P : Nat) (ds : List Nat) : List Bool :=
  (ds.map (golombEncode P)).flatten

/-- BIP158 membership: the query's reduced hash is one of the set's reduced hashes. -/
def member (H : List UInt8 → Nat) (f : Nat) (items : List (List UInt8)) (q : List UInt8) : Prop :=
  mulhi (H q) f ∈ hashedValues H f items

/-- CompactSize of `n` (BIP158 prefixes the filter with `N` in this form). -/
def compactSize (n : Nat) : List UInt8 :=
  let le (k : Nat) : List UInt8 := (List.range k).map (fun i => UInt8.ofNat (n / 256 ^ i % 256))
  if n < 0xfd then [UInt8.ofNat n]
  else if n ≤ 0xffff then 0xfd :: le 2
  else if n ≤ 0xffffffff then 0xfe :: le 4
  else 0xff :: le 8

/-- BIP158 basic filter contents: every output script of every transaction that is non-empty and
    does not start with OP_RETURN, and every spent previous-output script that is non-empty. -/
def basicElements (outs : List (List (List UInt8))) (prevs : List (List UInt8)) : List (List UInt8) :=
  (outs.flatten.filter (fun s => match s with | [] => false | b :: _ => b != OP_RETURN))
    ++ prevs.filter (fun s => !s.isEmpty)

/-- BIP157 filter header: `dSHA256(filterHash ‖ prevHeader)`. -/
def filterHeader (dsha : List UInt8 → List UInt8) (filterHash prev : List UInt8) : List UInt8 :=
  dsha (filterHash ++ prev)

/-- BIP157 header chain over a sequence of filter hashes, starting from `prev` (32 zero bytes at genesis). -/
def headerChain (dsha : List UInt8 → List UInt8) : List UInt8 → List (List UInt8) → List (List UInt8)
  | _, [] => []
  | prev, fh :: rest => let h := filterHeader dsha fh prev; h :: headerChain dsha h rest

end BV.C20.Spec
