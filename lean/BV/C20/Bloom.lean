/-
C20, bloom-filter part: Spec + Model of btcutil/bloom/filter.go (BIP37 filters). Core-only.

The murmur hash is a parameter `h : UInt32 → Bytes → UInt32` (seed, data) everywhere; the driver
instantiates it with `BV.Murmur3.hash`, the theorems (LemmasBloom.lean) hold for every `h`.

What is modelled (mirror of the Go code as of the fix "matches ends with len(Filter) > 0"):
  * the loaded `wire.MsgFilterLoad` = `Filter` (bit field bytes, HashFuncs, Tweak, Flags); the
    unloaded (nil) filter = `none : State`;
  * `LoadFilter`/`Reload` (`normalize`: empty bit field ⇒ HashFuncs := 0), `hash`, `add`, `matches`,
    `addOutPoint`, `matchesOutPoint`, `maybeAddOutpoint`, `matchTxAndUpdate`;
  * the only reachable Go panic: `mm % (uint32(len) << 3)` with a zero divisor (`Filter.panics`);
    an index-out-of-range panic is impossible (LemmasBloom: `in_range`, `Filter.idxs_in_range`).
What is not modelled: `NewFilter`'s sizing (float64 `math.Log`), the mutex, script parsing
(`txscript.PushedData` / `GetScriptClass` results are inputs of the abstract transaction).
-/
namespace BV.C20.Bloom

abbrev Bytes := List UInt8

/-! ## Spec: protocol constants (BIP37) -/
namespace Spec

/-- `wire.MaxFilterLoadFilterSize` -/
def MAX_FILTER_SIZE : Nat := 36000
/-- `wire.MaxFilterLoadHashFuncs` -/
def MAX_HASH_FUNCS : Nat := 50
/-- BIP37 seed multiplier: `nHashNum * 0xFBA4C795 + nTweak` -/
def SEED_MUL : UInt32 := 0xFBA4C795
def UPDATE_NONE : UInt8 := 0
def UPDATE_ALL : UInt8 := 1
def UPDATE_P2PUBKEY_ONLY : UInt8 := 2

/-- BIP37: bit `n` of the filter is bit `n % 8` (LSB first) of byte `n / 8`. -/
def bitAt (bits : Bytes) (n : Nat) : Bool := (bits.getD (n / 8) 0).toNat.testBit (n % 8)

/-- BIP37 bit index of hash function `i` for `data` in a field of `L` bytes (`L*8 < 2^32`):
    `murmur(i * 0xFBA4C795 + tweak, data) mod (L * 8)`. -/
def bitIndex (h : UInt32 → Bytes → UInt32) (tweak : UInt32) (L : Nat) (i : Nat) (data : Bytes) : Nat :=
  (h (UInt32.ofNat i * SEED_MUL + tweak) data).toNat % (L * 8)

/-- the serialised outpoint inserted into / looked up in a filter: 32-byte hash ‖ LE32(index) -/
def outPointBytes (hash : Bytes) (index : UInt32) : Bytes :=
  hash ++ [index.toUInt8, (index >>> 8).toUInt8, (index >>> 16).toUInt8, (index >>> 24).toUInt8]

end Spec

/-! ## Model -/

/-- a loaded `wire.MsgFilterLoad` -/
structure Filter where
  bits : Bytes
  hashFuncs : UInt32
  tweak : UInt32
  flags : UInt8
deriving DecidableEq, Repr

/-- `*Filter` with `msgFilterLoad == nil` is `none` -/
abbrev State := Option Filter

/-- `normalize`: an empty bit field forces zero hash functions -/
def normalize (f : Filter) : Filter :=
  if f.bits.length = 0 then { f with hashFuncs := 0 } else f

/-- `LoadFilter(msg)` / `Reload(msg)`; `none` = nil message -/
def load (m : Option Filter) : State := m.map normalize

/-- `uint32(len(Filter)) << 3`: the divisor in `hash` (wraps modulo 2^32 like the Go expression) -/
def nbits (bits : Bytes) : UInt32 := UInt32.ofNat bits.length <<< 3

/-- `hashNum*0xfba4c795 + Tweak` in uint32 arithmetic -/
def seed (tweak i : UInt32) : UInt32 := i * Spec.SEED_MUL + tweak

/-- `bf.hash(hashNum, data)`; the Go code divides by `nb` (panic when 0, see `Filter.panics`) -/
def hashIdx (h : UInt32 → Bytes → UInt32) (tweak nb i : UInt32) (d : Bytes) : UInt32 :=
  h (seed tweak i) d % nb

/-- `1 << (idx & 7)` as a byte -/
def mask (idx : UInt32) : UInt8 := (1 : UInt8) <<< (idx &&& 7).toUInt8

/-- `Filter[idx>>3] & (1<<(idx&7)) != 0` -/
def testBit (bits : Bytes) (idx : UInt32) : Bool :=
  (bits.getD (idx >>> 3).toNat 0 &&& mask idx) != 0

/-- `Filter[idx>>3] |= 1 << (7&idx)` -/
def setBit (bits : Bytes) (idx : UInt32) : Bytes :=
  bits.set (idx >>> 3).toNat (bits.getD (idx >>> 3).toNat 0 ||| mask idx)

namespace Filter

/-- the bit offsets probed / set for `d`: `hash(i, d)` for `i = 0 .. HashFuncs-1`, in loop order -/
def idxs (h : UInt32 → Bytes → UInt32) (f : Filter) (d : Bytes) : List UInt32 :=
  (List.range f.hashFuncs.toNat).map (fun i => hashIdx h f.tweak (nbits f.bits) (UInt32.ofNat i) d)

/-- the first loop iteration of `add`/`matches` divides by zero -/
def panics (f : Filter) : Bool := f.hashFuncs != 0 && nbits f.bits == 0

/-- `add` on a loaded filter (loop body only; see `add?` for the panic) -/
def add (h : UInt32 → Bytes → UInt32) (f : Filter) (d : Bytes) : Filter :=
  { f with bits := (f.idxs h d).foldl setBit f.bits }

/-- `matches` on a loaded filter: every probed bit set, and a non-empty bit field -/
def «matches» (h : UInt32 → Bytes → UInt32) (f : Filter) (d : Bytes) : Bool :=
  (f.idxs h d).all (testBit f.bits) && decide (0 < f.bits.length)

def addOutPoint (h : UInt32 → Bytes → UInt32) (f : Filter) (hash : Bytes) (index : UInt32) : Filter :=
  f.add h (Spec.outPointBytes hash index)

def matchesOutPoint (h : UInt32 → Bytes → UInt32) (f : Filter) (hash : Bytes) (index : UInt32) : Bool :=
  f.matches h (Spec.outPointBytes hash index)

end Filter

/-! ### abstract transaction (what `matchTxAndUpdate` looks at) -/

/-- an output: `txscript.PushedData(pkScript)` (`none` = parse error) and whether
    `txscript.GetScriptClass(pkScript)` is `PubKeyTy` or `MultiSigTy` -/
structure TxOut where
  pushes : Option (List Bytes)
  isPk : Bool
deriving Repr

/-- an input: previous outpoint and `txscript.PushedData(sigScript)` -/
structure TxIn where
  prevHash : Bytes
  prevIndex : UInt32
  pushes : Option (List Bytes)
deriving Repr

structure Tx where
  txid : Bytes
  outs : List TxOut
  ins : List TxIn
deriving Repr

/-- Spec (BIP37, "filter matching algorithm"): the data elements of a transaction a filter is tested
    against — the txid, every data element of every output script, every spent outpoint and every
    data element of every signature script. -/
def Tx.elements (tx : Tx) : List Bytes :=
  tx.txid :: (tx.outs.flatMap (fun o => o.pushes.getD []) ++
    tx.ins.flatMap (fun i => Spec.outPointBytes i.prevHash i.prevIndex :: i.pushes.getD []))

namespace Filter

/-- `maybeAddOutpoint`: does the update flag ask for the outpoint of a matched output? -/
def shouldAdd (flags : UInt8) (o : TxOut) : Bool :=
  if flags = Spec.UPDATE_ALL then true
  else if flags = Spec.UPDATE_P2PUBKEY_ONLY then o.isPk
  else false

def maybeAddOutpoint (h : UInt32 → Bytes → UInt32) (f : Filter) (o : TxOut) (txid : Bytes) (i : UInt32) : Filter :=
  if shouldAdd f.flags o then f.addOutPoint h txid i else f

/-- does any pushed data element of a script match? (parse error ⇒ skipped) -/
def anyPush (h : UInt32 → Bytes → UInt32) (f : Filter) : Option (List Bytes) → Bool
  | none => false
  | some ps => ps.any (f.matches h)

/-- the output loop of `matchTxAndUpdate`, from output number `i` on:
    (matched so far, filter so far) ↦ (matched, filter) -/
def outsLoop (h : UInt32 → Bytes → UInt32) (txid : Bytes) : List TxOut → Nat → Bool × Filter → Bool × Filter
  | [], _, acc => acc
  | o :: os, i, (m, f) =>
    if anyPush h f o.pushes then
      outsLoop h txid os (i + 1) (true, maybeAddOutpoint h f o txid (UInt32.ofNat i))
    else outsLoop h txid os (i + 1) (m, f)

def inMatches (h : UInt32 → Bytes → UInt32) (f : Filter) (i : TxIn) : Bool :=
  f.matchesOutPoint h i.prevHash i.prevIndex || anyPush h f i.pushes

/-- `matchTxAndUpdate`: result and the updated filter -/
def matchTxAndUpdate (h : UInt32 → Bytes → UInt32) (f : Filter) (tx : Tx) : Bool × Filter :=
  let r := outsLoop h tx.txid tx.outs 0 (f.matches h tx.txid, f)
  if r.1 then r else (tx.ins.any (inMatches h r.2), r.2)

end Filter

/-! ### the exported API on a possibly-unloaded filter; outer `none` = Go panic (division by zero) -/

def add? (h : UInt32 → Bytes → UInt32) (s : State) (d : Bytes) : Option State :=
  match s with
  | none => some none
  | some f => if f.panics then none else some (some (f.add h d))

def matches? (h : UInt32 → Bytes → UInt32) (s : State) (d : Bytes) : Option Bool :=
  match s with
  | none => some false
  | some f => if f.panics then none else some (f.matches h d)

def addOutPoint? (h : UInt32 → Bytes → UInt32) (s : State) (hash : Bytes) (index : UInt32) : Option State :=
  add? h s (Spec.outPointBytes hash index)

def matchesOutPoint? (h : UInt32 → Bytes → UInt32) (s : State) (hash : Bytes) (index : UInt32) : Option Bool :=
  matches? h s (Spec.outPointBytes hash index)

def matchTxAndUpdate? (h : UInt32 → Bytes → UInt32) (s : State) (tx : Tx) : Option (Bool × State) :=
  match s with
  | none => some (false, none)
  | some f =>
    if f.panics then none else
    let r := f.matchTxAndUpdate h tx
    some (r.1, some r.2)

end BV.C20.Bloom
