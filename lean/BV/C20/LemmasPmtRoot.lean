/- C20 helper lemmas: the recursive `calcHash(height, 0)` is the level-by-level Bitcoin merkle root. -/
import BV.C20.LemmasPmt
namespace BV.C20.Pmt
variable {α : Type} (hh : α → α → α) (dflt : α)

/-- pairing a run of consecutive nodes `f (2s) … f (2s+m-1)` -/
theorem pairUp_range (f : Nat → α) : ∀ (m s : Nat),
    pairUp hh ((List.range' (s * 2) m).map f) =
      (List.range' s ((m + 1) / 2)).map
        (fun pos => hh (f (pos * 2)) (if pos * 2 + 1 < s * 2 + m then f (pos * 2 + 1) else f (pos * 2)))
  | 0, s => by simp [pairUp]
  | 1, s => by simp [pairUp, List.range'_one]
  | m + 2, s => by
    have e : (m + 2 + 1) / 2 = (m + 1) / 2 + 1 := by omega
    rw [e, List.range'_succ, List.range'_succ, List.range'_succ, List.map_cons, List.map_cons, pairUp,
      List.map_cons]
    have hs : s * 2 + 1 + 1 = (s + 1) * 2 := by omega
    rw [hs, pairUp_range f m (s + 1)]
    congr 1
    · rw [if_pos (by omega)]
    · apply List.map_congr_left
      intro pos _
      have : (s + 1) * 2 + m = s * 2 + (m + 2) := by omega
      rw [this]

theorem width_succ (n k : Nat) : width n (k + 1) = (width n k + 1) / 2 := by
  unfold width
  have hp : 0 < 2 ^ k := Nat.pow_pos (by decide)
  have e : 2 ^ (k + 1) = 2 ^ k * 2 := Nat.pow_succ 2 k
  rw [e, ← Nat.div_div_eq_div_mul]
  have : n + 2 ^ k * 2 - 1 = (n + 2 ^ k - 1) + 2 ^ k := by omega
  rw [this, Nat.add_div_right _ hp]

/-- the nodes of level `k`, left to right -/
def level (leaves : List α) (k : Nat) : List α :=
  (List.range' 0 (width leaves.length k)).map (calcHash hh dflt leaves k)

theorem level_zero (leaves : List α) : level hh dflt leaves 0 = leaves := by
  unfold level
  have hw : width leaves.length 0 = leaves.length := by simp [width]
  rw [hw]
  apply List.ext_getElem
  · simp
  · intro i h1 h2
    simp [calcHash, h2]

theorem pairUp_level (leaves : List α) (k : Nat) :
    pairUp hh (level hh dflt leaves k) = level hh dflt leaves (k + 1) := by
  unfold level
  have := pairUp_range hh (calcHash hh dflt leaves k) (width leaves.length k) 0
  rw [Nat.zero_mul] at this
  rw [this, width_succ]
  apply List.map_congr_left
  intro pos _
  simp [calcHash]

theorem level_one (leaves : List α) (k : Nat) (hw : width leaves.length k = 1) :
    level hh dflt leaves k = [calcHash hh dflt leaves k 0] := by
  unfold level; rw [hw]; rfl

theorem heightFrom_eq (n : Nat) : ∀ (fuel k j : Nat), j ≤ fuel → (∀ i, i < j → width n (k + i) > 1) →
    width n (k + j) ≤ 1 → heightFrom n fuel k = k + j
  | 0, k, j, hj, _, _ => by
    have : j = 0 := by omega
    subst this; rfl
  | fuel + 1, k, 0, _, _, hw => by
    rw [heightFrom, if_neg (by simpa using hw)]; rfl
  | fuel + 1, k, j + 1, hj, hlt, hw => by
    have h0 := hlt 0 (by omega)
    rw [heightFrom, if_pos (by simpa using h0)]
    rw [heightFrom_eq n fuel (k + 1) j (by omega)
      (fun i hi => by have := hlt (i + 1) (by omega); rwa [show k + 1 + i = k + (i + 1) by omega])
      (by rwa [show k + 1 + j = k + (j + 1) by omega])]
    omega

theorem rootFrom_level (leaves : List α) : ∀ (fuel k : Nat), 1 ≤ width leaves.length k →
    width leaves.length k ≤ 2 ^ fuel →
    ∃ j, j ≤ fuel ∧ (∀ i, i < j → width leaves.length (k + i) > 1) ∧ width leaves.length (k + j) ≤ 1 ∧
      rootFrom hh dflt fuel (level hh dflt leaves k) = calcHash hh dflt leaves (k + j) 0
  | fuel, k, h1, h2 => by
    by_cases hw : width leaves.length k = 1
    · refine ⟨0, by omega, by intro i hi; omega, by simpa using (by omega : width leaves.length k ≤ 1), ?_⟩
      rw [level_one hh dflt leaves k hw]
      cases fuel <;> rfl
    · cases fuel with
      | zero => simp at h2; omega
      | succ fuel =>
        have hk1 : 1 ≤ width leaves.length (k + 1) := by rw [width_succ]; omega
        have hk2 : width leaves.length (k + 1) ≤ 2 ^ fuel := by
          rw [width_succ]; rw [Nat.pow_succ] at h2; omega
        obtain ⟨j, hj, hlt, hle, hr⟩ := rootFrom_level leaves fuel (k + 1) hk1 hk2
        refine ⟨j + 1, by omega, ?_, by rwa [show k + (j + 1) = k + 1 + j by omega], ?_⟩
        · intro i hi
          cases i with
          | zero => simp; omega
          | succ i => have := hlt i (by omega); rwa [show k + (i + 1) = k + 1 + i by omega]
        · have hlen : 2 ≤ (level hh dflt leaves k).length := by
            simp only [level, List.length_map, List.length_range']; omega
          have hstep : rootFrom hh dflt (fuel + 1) (level hh dflt leaves k) =
              rootFrom hh dflt fuel (pairUp hh (level hh dflt leaves k)) := by
            generalize level hh dflt leaves k = l at hlen
            match l, hlen with
            | _ :: _ :: _, _ => rfl
          rw [hstep, pairUp_level, hr, show k + (j + 1) = k + 1 + j by omega]

/-- `calcHash(treeHeight, 0)` is the Bitcoin merkle root -/
theorem calcHash_root (leaves : List α) (hne : leaves ≠ []) (hn : leaves.length ≤ 2 ^ 64) :
    calcHash hh dflt leaves (treeHeight leaves.length) 0 = merkleRoot hh dflt leaves := by
  have hpos : 0 < leaves.length := List.length_pos_iff.mpr hne
  have hw0 : width leaves.length 0 = leaves.length := by simp [width]
  have hpow : leaves.length ≤ 2 ^ leaves.length := Nat.le_of_lt Nat.lt_two_pow_self
  obtain ⟨j, hj, hlt, hle, hr⟩ := rootFrom_level hh dflt leaves leaves.length 0 (by omega) (by omega)
  rw [level_zero] at hr
  have hj64 : j ≤ 64 := by
    apply Nat.le_of_not_lt
    intro hc
    have h64 := hlt 64 hc
    have : width leaves.length (0 + 64) ≤ 1 := by
      unfold width
      have : (leaves.length + 2 ^ (0 + 64) - 1) / 2 ^ (0 + 64) < 2 := by
        rw [Nat.div_lt_iff_lt_mul (by decide)]; omega
      omega
    omega
  unfold merkleRoot treeHeight
  rw [hr, heightFrom_eq leaves.length 64 0 j hj64 hlt hle]

end BV.C20.Pmt
