/- C20 helper lemmas: the recursive `calcHash(height, 0)` is the level-by-level Bitcoin merkle root. -/
import BV.C20.LemmasPmt
namespace BV.C20.Pmt
variable {α : Type} (hh : α → α → α) (dflt : α)

/-- pairing a run of consecutive nodes `f (2s) … f (2s+m-1)` -/
theorem pairUp_range (f : Nat → α) : ∀ (m s : Nat),
    pairUp hh ((List.range' (s * 2) m).map f) =
      (List.range' s ((m + 1) / 2)).map
        (fun pos => hh (f (pos * 2)) (if pos * 2 + 1 < s * 2 + m then f (pos * 2 + 1) else f (pos * 2)))
  | 0, s => by simp [pairUp]
  | 1, s => by simp [pairUp, List.range'_one]
  | m + 2, s => by
    have e : (m + 2 + 1) / 2 = (m + 1) / 2 + 1 := by omega
    rw [e, List.range'_succ, List.range'_succ, List.range'_succ, List.map_cons, List.map_cons, pairUp,
      List.map_cons]
    have hs : s * 2 + 1 + 1 = (s + 1) * 2 := by omega
    rw [hs, pairUp_range f m (s + 1)]
    congr 1
    · rw [if_pos (by omega)]
    · apply List.map_congr_left
      intro pos _
      have : (s + 1) * 2 + m = s * 2 + (m + 2) := by omega
      rw [this]

theorem width_succ (n k : Nat) : width n (k + 1) = (width n k + 1) / 2 := by
  unfold width
  have hp : 0 < 2 ^ k := Nat.pow_pos (by decide)
  have e : 2 ^ (k + 1) = 2 ^ k * 2 := Nat.pow_succ 2 k
  rw [e, ← Nat.div_div_eq_div_mul]
  have : n + 2 ^ k * 2 - 1 = (n + 2 ^ k - 1) + 2 ^ k := by omega
  rw [this, Nat.add_div_right _ hp]

/-- the nodes of level `k`, left to right -/
def level (leaves : List α) (k : Nat) : List α :=
  (List.range' 0 (width leaves.length k)).map (calcHash hh dflt leaves k)

theorem level_zero (leaves : List α) : level hh dflt leaves 0 = leaves := by
  unfold level
  have hw : width leaves.length 0 = leaves.length := by simp [width]
  rw [hw]
  apply List.ext_getElem
  · simp
  · intro i h1 h2
    simp [calcHash, h2]

theorem pairUp_level (leaves : List α) (k : Nat) :
    pairUp hh (level hh dflt leaves k) = level hh dflt leaves (k + 1) := by
  unfold level
  have := pairUp_range hh (calcHash hh dflt leaves k) (width leaves.length k) 0
  rw [Nat.zero_mul] at this
  rw [this, width_succ]
  apply List.map_congr_left
  intro pos _
  simp [calcHash]

theorem level_one (leaves : List α) (k : Nat) (hw : width leaves.length k = 1) :
    level hh dflt leaves k = [calcHash hh dflt leaves k 0] := by
  unfold level; rw [hw]; rfl

theorem heightFrom_eq (n : Nat) : ∀ (fuel k j : Nat), j ≤ fuel → (∀ i, i < j → width n (k + i) > 1) →
    width n (k + j) ≤ 1 → heightFrom n fuel k = k + j
  | 0, k, j, hj, _, _ => by
    have : j = 0 := by omega
    subst this; rfl
  | fuel + 1, k, 0, _, _, hw => by
    rw [heightFrom, if_neg (by simpa using hw)]; rfl
  | fuel + 1, k, j + 1, hj, hlt, hw => by
    have h0 := hlt 0 (by omega)
    rw [heightFrom, if_pos (by simpa using h0)]
    rw [heightFrom_eq n fuel (k + 1) j (by omega)
      (fun i hi => by have := hlt (i + 1) (by omega); rwa [show k + 1 + i = k + (i + 1) by omega])
      (by rwa [show k + 1 + j = k + (j + 1) by omega])]
    omega

theorem rootFrom_level (leaves : List α) : ∀ (fuel k : Nat), 1 ≤ width leaves.length k →
    width leaves.length k ≤ 2 ^ fuel →
    ∃ j, j ≤ fuel ∧ (∀ i, i < j → width leaves.length (k + i) > 1) ∧ width leaves.length (k + j) ≤ 1 ∧
      rootFrom hh dflt fuel (level hh dflt leaves k) = calcHash hh dflt leaves (k + j) 0
  | fuel, k, h1, h2 => by
    by_cases hw : width leaves.length k = 1
    · refine ⟨0, by omega, by intro i hi; omega, by simpa using (by omega : width leaves.length k ≤ 1), ?_⟩
      rw [level_one hh dflt leaves k hw]
      cases fuel <;> rfl
    · cases fuel with
      | zero => simp at h2; omega
      | succ fuel =>
        have hk1 : 1 ≤ width leaves.length (k + 1) := by rw [width_succ]; omega
        have hk2 : width leaves.length (k + 1) ≤ 2 ^ fuel := by
          rw [width_succ]; rw [Nat.pow_succ] at h2; omega
        obtain ⟨j, hj, hlt, hle, hr⟩ := rootFrom_level leaves fuel (k + 1) hk1 hk2
        refine ⟨j + 1, by omega, ?_, by rwa [show k + (j + 1) = k + 1 + j by omega], ?_⟩
        · intro i hi
          cases i with
          | zero => simp; omega
          | succ i => have := hlt i (by omega); rwa [show k + (i + 1) = k + 1 + i by omega]
        · have hlen : 2 ≤ (level hh dflt leaves k).length := by
            simp only [level, List.length_map, List.length_range']; omega
          have hstep : rootFrom hh dflt (fuel + 1) (level hh dflt leaves k) =
              rootFrom hh dflt fuel (pairUp hh (level hh dflt leaves k)) := by
            generalize level hh dflt leaves k = l at hlen
            match l, hlen with
            | _ :: _ :: _, _ => rfl
          rw [hstep, pairUp_level, hr, show k + (j + 1) = k + 1 + j by omega]

/-- `calcHash(treeHeight, 0)` is the Bitcoin merkle root -/
theorem calcHash_root (leaves : List α) (hne : leaves ≠ []) (hn : leaves.length ≤ 2 ^ 64) :
    calcHash hh dflt leaves (treeHeight leaves.length) 0 = merkleRoot hh dflt leaves := by
  have hpos : 0 < leaves.length := List.length_pos_iff.mpr hne
  have hw0 : width leaves.length 0 = leaves.length := by simp [width]
  have hpow : leaves.length ≤ 2 ^ leaves.length := Nat.le_of_lt Nat.lt_two_pow_self
  obtain ⟨j, hj, hlt, hle, hr⟩ := rootFrom_level hh dflt leaves leaves.length 0 (by omega) (by omega)
  rw [level_zero] at hr
  have hj64 : j ≤ 64 := by
    apply Nat.le_of_not_lt
    intro hc
    have h64 := hlt 64 hc
    have : width leaves.length (0 + 64) ≤ 1 := by
      unfold width
      have : (leaves.length + 2 ^ (0 + 64) - 1) / 2 ^ (0 + 64) < 2 := by
        rw [Nat.div_lt_iff_lt_mul (by decide)]; omega
      omega
    omega
  unfold merkleRoot treeHeight
  rw [hr, heightFrom_eq leaves.length 64 0 j hj64 hlt hle]

/-! ### soundness of extraction under a collision-free node hash -/

theorem extractNode_sound (inj : ∀ a b c d : α, hh a b = hh c d → a = c ∧ b = d) (leaves : List α) :
    ∀ (h pos : Nat) (bits : List Bool) (hs : List α) (r : α) (m : List (Nat × α)) (bits' : List Bool)
      (hs' : List α), pos < width leaves.length h →
      extractNode hh leaves.length h pos bits hs = some (r, m, bits', hs') →
      r = calcHash hh dflt leaves h pos →
      ∀ p ∈ m, p.1 < leaves.length ∧ p.2 = leaves.getD p.1 dflt := by
  intro h
  induction h with
  | zero =>
    intro pos bits hs r m bits' hs' hpos hex hr p hp
    have hw : width leaves.length 0 = leaves.length := by simp [width]
    rw [hw] at hpos
    cases bits with
    | nil => simp [extractNode] at hex
    | cons b bits =>
      cases hs with
      | nil => simp [extractNode] at hex
      | cons x hs =>
        simp only [extractNode, Option.some.injEq, Prod.mk.injEq] at hex
        obtain ⟨hx, hm, _, _⟩ := hex
        subst hm
        cases b with
        | false => simp at hp
        | true =>
          simp only [if_true, List.mem_singleton] at hp
          subst hp
          refine ⟨hpos, ?_⟩
          simp only [calcHash] at hr
          show x = leaves.getD pos dflt
          rw [hx, hr]
  | succ h ih =>
    intro pos bits hs r m bits' hs' hpos hex hr p hp
    have hwl : pos * 2 < width leaves.length h := by
      rw [width_succ] at hpos; omega
    cases bits with
    | nil => simp [extractNode] at hex
    | cons b bits =>
      cases b with
      | false =>
        cases hs with
        | nil => simp [extractNode] at hex
        | cons x hs =>
          simp only [extractNode, if_true, Option.some.injEq, Prod.mk.injEq] at hex
          obtain ⟨_, hm, _, _⟩ := hex
          subst hm
          simp at hp
      | true =>
        simp only [extractNode, Bool.true_eq_false, if_false] at hex
        cases hl : extractNode hh leaves.length h (pos * 2) bits hs with
        | none => rw [hl] at hex; simp at hex
        | some lres =>
          obtain ⟨l, m1, bits1, hs1⟩ := lres
          rw [hl] at hex
          simp only [] at hex
          by_cases hw : pos * 2 + 1 < width leaves.length h
          · rw [if_pos hw] at hex
            cases hr2 : extractNode hh leaves.length h (pos * 2 + 1) bits1 hs1 with
            | none => rw [hr2] at hex; simp at hex
            | some rres =>
              obtain ⟨r', m2, bits2, hs2⟩ := rres
              rw [hr2] at hex
              simp only [Option.some.injEq, Prod.mk.injEq] at hex
              obtain ⟨hroot, hm, _, _⟩ := hex
              subst hm
              have hc : calcHash hh dflt leaves (h + 1) pos =
                  hh (calcHash hh dflt leaves h (pos * 2)) (calcHash hh dflt leaves h (pos * 2 + 1)) := by
                simp [calcHash, hw]
              rw [← hroot, hc] at hr
              obtain ⟨e1, e2⟩ := inj _ _ _ _ hr
              rcases List.mem_append.mp hp with hp | hp
              · exact ih (pos * 2) bits hs l m1 bits1 hs1 hwl hl e1 p hp
              · exact ih (pos * 2 + 1) bits1 hs1 r' m2 bits2 hs2 hw hr2 e2 p hp
          · rw [if_neg hw] at hex
            simp only [Option.some.injEq, Prod.mk.injEq] at hex
            obtain ⟨hroot, hm, _, _⟩ := hex
            subst hm
            have hc : calcHash hh dflt leaves (h + 1) pos =
                hh (calcHash hh dflt leaves h (pos * 2)) (calcHash hh dflt leaves h (pos * 2)) := by
              simp [calcHash, hw]
            rw [← hroot, hc] at hr
            obtain ⟨e1, _⟩ := inj _ _ _ _ hr
            exact ih (pos * 2) bits hs l m1 bits1 hs1 hwl hl e1 p hp

/-- any partial merkle tree (however produced) that extracts to the block's merkle root proves only
    real transactions of the block at their real positions, if the node hash is collision-free -/
theorem extract_sound (inj : ∀ a b c d : α, hh a b = hh c d → a = c ∧ b = d) (leaves : List α)
    (hn : leaves.length ≤ 2 ^ 64) (flags : List UInt8) (hashes : List α) (m : List (Nat × α))
    (hex : extract hh leaves.length flags hashes = some (merkleRoot hh dflt leaves, m)) :
    ∀ p ∈ m, p.1 < leaves.length ∧ p.2 = leaves.getD p.1 dflt := by
  unfold extract at hex
  by_cases h0 : leaves.length = 0
  · rw [if_pos h0] at hex; cases hex
  · rw [if_neg h0] at hex
    have hne : leaves ≠ [] := fun e => h0 (by rw [e]; rfl)
    split at hex
    · cases hex
    · split at hex
      · cases hex
      · cases hx : extractNode hh leaves.length (treeHeight leaves.length) 0 (unpackFlags flags) hashes with
        | none => rw [hx] at hex; cases hex
        | some res =>
          obtain ⟨r, m', rb, rh⟩ := res
          rw [hx] at hex
          simp only [] at hex
          split at hex
          · cases hex
          · split at hex
            · cases hex
            · simp only [Option.some.injEq, Prod.mk.injEq] at hex
              obtain ⟨hr, hm⟩ := hex
              subst hm
              have hpos : 0 < width leaves.length (treeHeight leaves.length) := by
                have hp2 : 0 < 2 ^ treeHeight leaves.length := Nat.pow_pos (by decide)
                unfold width
                rw [Nat.lt_div_iff_mul_lt hp2] ; omega
              exact extractNode_sound hh dflt inj leaves _ 0 _ _ r m' rb rh hpos hx
                (by rw [hr, calcHash_root hh dflt leaves hne hn])

end BV.C20.Pmt
