/-
C02 property theorems: "the active chain is the most-work fully-valid chain, whatever the delivery
order; every view of it agrees; invalidate / reconsider move the tip to the best chain".

Only statements + non-vacuity examples live here; proofs are in Lemmas.lean … Lemmas7.lean.

Vocabulary (Spec.lean / Model.lean): a history `ops : List Op` is a list of deliveries
(`block b`, `header b`) and manual ops (`invalidate h`, `reconsider h`); `run ops` is the state of the
`ChainCore` machine (mirror of btcd's ProcessBlock/…); `Spec.delivered ops` are the blocks delivered with
their data; `Spec.ValidChain D h w` says `h` ends a chain of delivered, fully valid blocks of cumulative
work `w`; `Spec.IsBest D t` says `t` ends such a chain and none has more work.

Hypotheses used below (all decidable on a concrete history, see the examples at the end):
* `deliveryOnly ops`     — the clause is about deliveries (block/header ops) only;
* `Spec.WF (mentioned …)`— block hashes identify blocks (collision-freeness), no block claims the genesis
                           hash, every block has positive work (C09);
* `(run ops).evicted = []` — the orphan pool never overflowed its bound of 100 (an evicted orphan was
                           delivered but is forgotten by design; wall-clock expiry is not modelled).
-/
import BV.C02.Lemmas13
import BV.C02.Witness
import BV.Generated.C02
namespace BV.C02
open Spec Lemmas

/-! ### 1. the tip is the best chain -/

/-- After ANY sequence of block and header deliveries — any order, forks, orphans (children before
parents), duplicates, blocks invalid at any stage and at any depth — the tip of the active chain ends a
chain of delivered, fully valid blocks, and no chain of delivered, fully valid blocks has more work. -/
theorem tip_is_best (ops : List Op) (hdo : deliveryOnly ops) (hwf : WF (mentioned ops))
    (hev : (run ops).evicted = []) : IsBest (delivered ops) (run ops).tip :=
  run_isBest ops hdo hwf hev

/-- The eviction hypothesis is automatically met by histories with at most 100 block deliveries
(the orphan pool cannot overflow): for those, `tip_is_best` needs no assumption about the run. -/
theorem tip_is_best_small (ops : List Op) (hdo : deliveryOnly ops) (hwf : WF (mentioned ops))
    (hsmall : blockCount ops ≤ maxOrphans) : IsBest (delivered ops) (run ops).tip :=
  run_isBest ops hdo hwf (run_noEvict ops hdo hsmall)

/-- Deliveries, a clean restart, more deliveries: the tip is the best chain of what survived the
restart — the blocks that were stored (`storedOf`; blocks only pooled as orphans are forgotten by a
restart, by design) — together with everything delivered afterwards. -/
theorem tip_is_best_across_restart (ops1 ops2 : List Op) (hd1 : deliveryOnly ops1) (hd2 : deliveryOnly ops2)
    (hwf : WF (mentioned (ops1 ++ ops2)))
    (hev : (runFrom (restart (run ops1)) ops2).evicted = []) :
    IsBest (storedOf ops1 ++ delivered ops2) (runFrom (restart (run ops1)) ops2).tip :=
  run_restart_isBest ops1 ops2 hd1 hd2 hwf hev

/-- First-seen rule ("ties going to the chain that became active first"): one more delivery either
leaves the whole active chain as it is or moves it to a chain of STRICTLY greater cumulative work;
an equal-work chain never displaces the active one. -/
theorem first_seen_rule (ops : List Op) (o : Op) (hdo : deliveryOnly (ops ++ [o]))
    (hwf : WF (mentioned (ops ++ [o]))) :
    (run (ops ++ [o])).best = (run ops).best ∨
      (run ops).wsum (run ops).tip < (run (ops ++ [o])).wsum (run (ops ++ [o])).tip :=
  step_first_seen ops o hdo hwf

/-- The same over ANY number of further deliveries: however the history continues, the active chain
is either still the same chain or one of strictly greater cumulative work. -/
theorem first_seen_rule_multi (ops more : List Op) (hdo : deliveryOnly (ops ++ more))
    (hwf : WF (mentioned (ops ++ more))) :
    (run (ops ++ more)).best = (run ops).best ∨
      (run ops).wsum (run ops).tip < (run (ops ++ more)).wsum (run (ops ++ more)).tip :=
  run_first_seen_multi ops more hdo hwf

/-! ### 2. failed reorganisations -/

/-- `connectBestChain` that ends in an error — a block extending the tip that fails its connect-time
check, a reorganisation whose attach list contains an invalid block, or one that is refused because
of a known-invalid ancestor — leaves the active chain, the notification stream, the index, the orphan
pool exactly as they were: nothing but status bits changes. For every state and node. -/
theorem failed_reorg_is_noop (s : State) (n : Node) (h : (connectBest s n).2 = none) :
    (connectBest s n).1.best = s.best ∧ (connectBest s n).1.notes = s.notes ∧
    (connectBest s n).1.idx = s.idx ∧ (connectBest s n).1.orphans = s.orphans := by
  have := connectBest_fail s n h
  exact ⟨this.2.1, this.2.2, this.1.1, this.1.2.1⟩

/-- the same for `reorganizeChain` itself (also used by InvalidateBlock / ReconsiderBlock) -/
theorem failed_reorganize_is_noop (s : State) (detach : List Hash) (attach : List Node)
    (h : (reorganize s detach attach).2 ≠ .ok) :
    (reorganize s detach attach).1.best = s.best ∧ (reorganize s detach attach).1.notes = s.notes := by
  have := reorganize_fail s detach attach h
  exact ⟨this.2.1, this.2.2⟩

/-! ### 3. the views agree -/

/-- Σ connected − Σ disconnected notifications = the active chain, after EVERY history — deliveries,
InvalidateBlock and ReconsiderBlock included: replaying the NTBlockConnected/NTBlockDisconnected stream
from genesis reproduces `best` exactly. -/
theorem notifications_replay_to_chain (ops : List Op) : replay (run ops).notes = (run ops).best :=
  rep_run ops

/-- After any delivery history all views describe one chain: the snapshot tip is the head of `best`
(definition of `tip`); `best` (= BlockHashByHeight / the persisted height index / MainChainHasBlock)
ends in genesis, consecutive entries are linked by the parent pointer, the entry at position `i` from
the tip has node height `length − 1 − i` (so hash↔height lookups agree with the nodes), every entry is
stored, marked valid (genesis aside) and not marked invalid; ChainTips reports exactly the tip as
`active`, with branch length 0 and its node height; and the notifications replay to `best`. -/
theorem views_agree (ops : List Op) (hdo : deliveryOnly ops) (hwf : WF (mentioned ops)) :
    let s := run ops
    replay s.notes = s.best ∧
    s.best.getLast? = some 0 ∧
    (∀ i c p, s.best[i]? = some c → s.best[i + 1]? = some p →
      ∃ n, lookup s.idx c = some n ∧ n.blk.parent = p) ∧
    (∀ i c, s.best[i]? = some c → ∃ n, lookup s.idx c = some n ∧ n.height + i + 1 = s.best.length) ∧
    (∀ c ∈ s.best, (s.status c).data = true ∧ (c ≠ 0 → (s.status c).valid = true) ∧
      (s.status c).knownInvalid = false) ∧
    (∀ t ∈ chainTips s, t.2.2.2 = .active ↔ t.1 = s.tip) ∧
    (∃ n, lookup s.idx s.tip = some n ∧ (s.tip, n.height, 0, TipStatus.active) ∈ chainTips s) := by
  intro s
  obtain ⟨D', _, hi⟩ := run_inv ops hdo hwf
  obtain ⟨a, b, c, d⟩ := pathOK_plain hi.c hi.c.path
  have hne : s.best ≠ [] := by
    intro e
    have hp := hi.c.path
    have e' : (run ops).best = [] := e
    rw [e'] at hp; cases hp
  have htip : ∃ n, lookup s.idx s.tip = some n := by
    have hb := hi.c.path
    cases hbb : (run ops).best with
    | nil => exact absurd hbb hne
    | cons t r =>
      have : (run ops).best[0]? = some t := by rw [hbb]; rfl
      obtain ⟨n, hn, _⟩ := c 0 t this
      have ht : s.tip = t := by show (run ops).best.headD 0 = t; rw [hbb]; rfl
      exact ⟨n, by rw [ht]; exact hn⟩
  obtain ⟨n, hn⟩ := htip
  obtain ⟨t1, t2⟩ := chainTips_active s hne n hn
  exact ⟨rep_run ops, a, b, c, d, t1, n, hn, t2⟩

/-- For EVERY history — deliveries, InvalidateBlock, ReconsiderBlock in any mixture — the active
chain is sound and the views agree: the tip ends a chain of delivered blocks that pass every check
(`ValidChain`), with the cumulative work recorded for it; `best` ends in genesis, consecutive entries
are linked by the parent pointer, node heights match positions, every entry is stored and passes its
connect-time check; and the notification stream replays to `best`. (Manual invalidation can make the
node settle on a chain that is not the best one — F-C02-a/b — but never on an unsound or inconsistent one.) -/
theorem active_chain_sound_all_ops (ops : List Op) (hwf : WF (mentioned ops)) :
    let s := run ops
    ValidChain (delivered ops) s.tip (s.wsum s.tip) ∧
    replay s.notes = s.best ∧
    s.best.getLast? = some 0 ∧
    (∀ i c p, s.best[i]? = some c → s.best[i + 1]? = some p →
      ∃ n, lookup s.idx c = some n ∧ n.blk.parent = p) ∧
    (∀ i c, s.best[i]? = some c → ∃ n, lookup s.idx c = some n ∧ n.height + i + 1 = s.best.length) ∧
    (∀ c ∈ s.best, (s.status c).data = true ∧ ∃ n, lookup s.idx c = some n ∧ n.blk.connOk = true) := by
  intro s
  obtain ⟨D', h1, hi⟩ := run_safe_all ops hwf
  obtain ⟨a, b, c, d⟩ := pathOK'_plain hi hi.path
  exact ⟨validChain_mono (fun x hx => (h1 x).mp hx) (path_valid' hi hi.path), rep_run ops, a, b, c, d⟩

/-- Across a clean restart (only stored blocks are reloaded, the orphan pool and header-only nodes are
gone, the best-header view restarts at the tip): the restart itself leaves the active chain and the
notification stream untouched, and whatever history follows, the active chain stays sound and
consistent as in `active_chain_sound_all_ops`. -/
theorem active_chain_sound_across_restart (ops1 ops2 : List Op) (hwf : WF (mentioned (ops1 ++ ops2))) :
    (restart (run ops1)).best = (run ops1).best ∧ (restart (run ops1)).notes = (run ops1).notes ∧
    (let s := runFrom (restart (run ops1)) ops2
     ValidChain (delivered (ops1 ++ ops2)) s.tip (s.wsum s.tip) ∧
     s.best.getLast? = some 0 ∧
     (∀ i c p, s.best[i]? = some c → s.best[i + 1]? = some p →
       ∃ n, lookup s.idx c = some n ∧ n.blk.parent = p) ∧
     (∀ i c, s.best[i]? = some c → ∃ n, lookup s.idx c = some n ∧ n.height + i + 1 = s.best.length) ∧
     (∀ c ∈ s.best, (s.status c).data = true ∧ ∃ n, lookup s.idx c = some n ∧ n.blk.connOk = true)) := by
  refine ⟨rfl, rfl, ?_⟩
  intro s
  obtain ⟨D', h1, hi⟩ := run_restart_safe ops1 ops2 hwf
  obtain ⟨a, b, c, d⟩ := pathOK'_plain hi hi.path
  exact ⟨validChain_mono (fun x hx => (h1 x).mp hx) (path_valid' hi hi.path), a, b, c, d⟩

/-- The best-header view (`BestHeader`, `HeaderHashByHeight`, `IsValidHeader`): every op other than a
header delivery leaves its tip untouched — ProcessBlock, processOrphans, reorganisations,
InvalidateBlock and ReconsiderBlock never move it. For every state. -/
theorem best_header_frame (s : State) (o : Op) (hno : ∀ b, o ≠ .header b) :
    (step s o).1.bestHdr = s.bestHdr :=
  step_hdr_frame s o hno

/-- … and a header delivery leaves it where it is or moves it to the delivered header, which then
extends the old tip or has strictly more cumulative work (first-seen rule of the header view). -/
theorem best_header_rule (s : State) (b : BlockAbs) (n : Node) (hl : lookup s.idx s.bestHdr = some n) :
    (step s (.header b)).1.bestHdr = s.bestHdr ∨
    ((step s (.header b)).1.bestHdr = b.hash ∧
      (b.parent = s.bestHdr ∨ s.wsum s.bestHdr < (step s (.header b)).1.wsum b.hash)) :=
  processHeader_hdr_rule s b n hl

/-- For every history the best-header tip is an indexed node (the index only grows), so the
first-seen rule of the header view holds along every run without further hypotheses. -/
theorem best_header_rule_run (ops : List Op) (b : BlockAbs) :
    let s := run ops
    (step s (.header b)).1.bestHdr = s.bestHdr ∨
    ((step s (.header b)).1.bestHdr = b.hash ∧
      (b.parent = s.bestHdr ∨ s.wsum s.bestHdr < (step s (.header b)).1.wsum b.hash)) := by
  intro s
  obtain ⟨n, hn⟩ := hdrIdx_run ops
  exact processHeader_hdr_rule s b n hn

/-- The index only grows: whatever op follows, every indexed node stays indexed, unchanged. -/
theorem index_only_grows (s : State) (o : Op) (h : Hash) (n : Node) (hl : lookup s.idx h = some n) :
    lookup (step s o).1.idx h = some n :=
  lm_step s o h n hl

/-- A delivered block whose own index node is known invalid (e.g. a header-only node invalidated by
hand) is refused by `maybeAcceptBlock` without any effect (the repair of F-C02-e). For every state. -/
theorem known_invalid_block_never_accepted (s : State) (b : BlockAbs)
    (hk : (s.status b.hash).knownInvalid = true) : maybeAccept s b = (s, none) :=
  maybeAccept_known_invalid s b hk

/-! ### 4. order independence -/

/-- Any two delivery histories that deliver the same set of blocks (in any order, with any
duplicates, headers, orphan detours) end on best tips of the same delivered set, of equal cumulative
work; if the best tip is unique they end on the same tip. (With several equal-work best tips the
first-seen rule decides, which depends on the order by design.) -/
theorem order_independent (ops1 ops2 : List Op) (hd1 : deliveryOnly ops1) (hd2 : deliveryOnly ops2)
    (hwf : WF (mentioned ops1 ++ mentioned ops2))
    (he1 : (run ops1).evicted = []) (he2 : (run ops2).evicted = [])
    (hsame : ∀ b, b ∈ delivered ops1 ↔ b ∈ delivered ops2) :
    IsBest (delivered ops1) (run ops1).tip ∧ IsBest (delivered ops1) (run ops2).tip ∧
    (∃ w, ValidChain (delivered ops1) (run ops1).tip w ∧ ValidChain (delivered ops1) (run ops2).tip w) ∧
    ((∀ t t', IsBest (delivered ops1) t → IsBest (delivered ops1) t' → t = t') →
      (run ops1).tip = (run ops2).tip) := by
  have w1 : WF (mentioned ops1) := wf_sub (fun x hx => List.mem_append_left _ hx) hwf
  have w2 : WF (mentioned ops2) := wf_sub (fun x hx => List.mem_append_right _ hx) hwf
  have b1 := run_isBest ops1 hd1 w1 he1
  have b2 : IsBest (delivered ops1) (run ops2).tip :=
    isBest_congr (fun x => (hsame x).symm) (run_isBest ops2 hd2 w2 he2)
  exact ⟨b1, b2, isBest_same_work b1 b2, fun hu => hu _ _ b1 b2⟩

/-! ### 5. InvalidateBlock / ReconsiderBlock

The property clause "invalidating or reconsidering a block moves the tip to the best chain that
excludes or again includes it" does NOT hold for btcd as it stands (findings F-C02-a, F-C02-b). What is
proved: the notification/chain agreement for every such op (`notifications_replay_to_chain`), failed
reorganisations are no-ops (`failed_reorganize_is_noop`), and the clause itself when the invalidated
block is not on the active chain. The two `_full_fails` theorems are the counter-examples, checked by
evaluation of the model (which the correspondence run ties to the real code on the same histories). -/

/-- `_partial`: proved under the extra hypothesis that the invalidated block is NOT on the active chain
(the negation of the F-C02-a trigger, which needs an active-chain block with side branches above it).
Missing: invalidation of an active-chain block — false in general, see `…_full_fails`. -/
theorem invalidate_moves_to_best_partial (ops : List Op) (h : Hash) (c : Option Hash)
    (hdo : deliveryOnly ops) (hwf : WF (mentioned ops)) (hev : (run ops).evicted = [])
    (hna : (run ops).best.contains h = false) :
    IsBestEx (delivered ops) [h] (run (ops ++ [.invalidate h c])).tip :=
  (invalidate_inactive_isBestEx ops h c hdo hwf hev hna).2

/-- `_partial`, second half: after any delivery history, invalidating a (non-genesis) block of the
active chain always takes that block off the active chain — the new tip's chain excludes it — whatever
becomes of the attempt to activate another tip. Missing: that the new tip is the BEST such chain. -/
theorem invalidate_excludes_partial (ops : List Op) (h : Hash) (c : Option Hash) (hdo : deliveryOnly ops)
    (hwf : WF (mentioned ops)) (hb : (run ops).best.contains h = true) (h0 : h ≠ 0) :
    (run (ops ++ [.invalidate h c])).best.contains h = false :=
  run_invalidate_excludes ops h c hdo hwf hb h0

theorem witnessA_tip : (run witnessA).tip = 0 := by decide
theorem witnessB_tip : (run witnessB).tip = 2 := by decide

/-- The full clause fails for InvalidateBlock: after `witnessA` the tip is genesis (work 0) although
D1–D3, which avoids the invalidated block, is delivered, valid and has work 3. -/
theorem invalidate_moves_to_best_full_fails :
    ¬ ∀ ops : List Op, WF (mentioned ops) → (run ops).evicted = [] →
        IsBestEx (delivered ops) (excluded ops) (run ops).tip := by
  intro h
  have hb := h witnessA (by decide) (by decide)
  rw [witnessA_tip] at hb
  obtain ⟨w, hv, hm⟩ := hb
  have hw : w = 0 := by
    rcases validChainEx_inv hv with ⟨_, h0⟩ | ⟨b, w', hbm, _, _, hh, _, _⟩
    · exact h0
    · have : ∀ x ∈ delivered witnessA, x.hash ≠ 0 := by decide
      exact absurd hh (this b hbm)
  have c1 : ValidChainEx (delivered witnessA) (excluded witnessA) 8 (0 + 1) :=
    ValidChainEx.step (b := vb 8 0) (by decide) (by decide) (by decide) ValidChainEx.genesis
  have := hm 8 1 c1
  omega

/-- The full clause fails for ReconsiderBlock: after `witnessB` (a choice btcd's map iteration can
make) the tip is A2 (work 2) although B1–B2b–B3b is delivered, valid, not excluded and has work 3. -/
theorem reconsider_moves_to_best_full_fails :
    ¬ ∀ ops : List Op, WF (mentioned ops) → (run ops).evicted = [] →
        IsBestEx (delivered ops) (excluded ops) (run ops).tip := by
  intro h
  have hb := h witnessB (by decide) (by decide)
  obtain ⟨w, hv, hm⟩ := hb
  rw [witnessB_tip] at hv
  -- the tip chain G–A1–A2 has work 2 …
  have hw : w = 2 := by
    rcases validChainEx_inv hv with ⟨h0, _⟩ | ⟨b, w', hbm, _, _, hh, hwe, hp⟩
    · cases h0
    · have hb2 : b = vb 2 1 := by
        have : ∀ x ∈ delivered witnessB, x.hash = 2 → x = vb 2 1 := by decide
        exact this b hbm hh
      subst hb2
      rcases validChainEx_inv hp with ⟨h0, _⟩ | ⟨b1, w1, hbm1, _, _, hh1, hwe1, hp1⟩
      · cases h0
      · have hb1 : b1 = vb 1 0 := by
          have : ∀ x ∈ delivered witnessB, x.hash = (vb 2 1).parent → x = vb 1 0 := by decide
          exact this b1 hbm1 hh1
        subst hb1
        rcases validChainEx_inv hp1 with ⟨_, h0⟩ | ⟨b0, w0, hbm0, _, _, hh0, _, _⟩
        · subst h0; subst hwe1; subst hwe; rfl
        · have : ∀ x ∈ delivered witnessB, x.hash ≠ (vb 1 0).parent := by decide
          exact absurd hh0 (this b0 hbm0)
  -- … but B1–B2b–B3b has work 3
  have c5 : ValidChainEx (delivered witnessB) (excluded witnessB) 5 (0 + 1) :=
    ValidChainEx.step (b := vb 5 0) (by decide) (by decide) (by decide) ValidChainEx.genesis
  have c7 : ValidChainEx (delivered witnessB) (excluded witnessB) 7 (0 + 1 + 1) :=
    ValidChainEx.step (b := vb 7 5) (by decide) (by decide) (by decide) c5
  have c8 : ValidChainEx (delivered witnessB) (excluded witnessB) 8 (0 + 1 + 1 + 1) :=
    ValidChainEx.step (b := vb 8 7) (by decide) (by decide) (by decide) c7
  have := hm 8 3 c8
  omega

/-- `_partial`: after a pure delivery history (nothing was manually invalidated), ReconsiderBlock of
ANY block with ANY map-order choice leaves the active chain where it is, and the tip is still the
best chain: there is nothing to re-include, a genuinely invalid block fails its re-validation again,
and no lesser or invalid chain can be activated. Missing: reconsidering after an InvalidateBlock —
false in general, see `reconsider_moves_to_best_full_fails`. -/
theorem reconsider_moves_to_best_partial (ops : List Op) (h : Hash) (c : Option Hash) (hdo : deliveryOnly ops)
    (hwf : WF (mentioned ops)) (hev : (run ops).evicted = []) :
    (run (ops ++ [.reconsider h c])).best = (run ops).best ∧
    IsBest (delivered ops) (run (ops ++ [.reconsider h c])).tip :=
  run_reconsider_keeps_best ops h c hdo hwf hev

/-- reconsidering a block that is marked valid is the identity on the whole state -/
theorem reconsider_valid_is_noop (s : State) (h : Hash) (c : Option Hash) (n : Node)
    (hl : lookup s.idx h = some n) (hv : (s.status h).valid = true) : (reconsider s h c).1 = s :=
  reconsider_valid_noop s h c n hl hv

/-- The executable Spec the driver consults after every op (`Spec.chainWork`, the work of the valid
delivered chain ending in `h` that avoids `X`) is sound for the relational Spec: so a driver answer
`!spec/…` really exhibits a valid delivered chain with more work than the model's (= the code's) tip. -/
theorem spec_exec_sound (D : List BlockAbs) (X : List Hash) (fuel : Nat) (h : Hash) (w : Nat)
    (hw : chainWork D X fuel h = some w) : ValidChainEx D X h w :=
  chainWork_sound D X fuel h w hw

/-! ### 6. pinned constants

Only format-level constants are pinned: the five `blockStatus` bits are written to the block index
bucket (dbStoreBlockNode). The orphan-pool bound, the numeric values of `TipStatus` and of the
notification types are internal and deliberately NOT pinned: the driver reads the bound from the tree on
every run and the harness compares tip statuses / notifications through the exported constants. -/

theorem pin_status_bits :
    Generated.C02.statusDataStored = 1 ∧ Generated.C02.statusValid = 2 ∧ Generated.C02.statusValidateFailed = 4 ∧
    Generated.C02.statusInvalidAncestor = 8 ∧ Generated.C02.statusHeaderStored = 16 := by decide

/-- the status byte of the model uses the same bit positions -/
theorem pin_status_byte :
    (Status.toByte { data := true } : Int) = Generated.C02.statusDataStored ∧
    (Status.toByte { valid := true } : Int) = Generated.C02.statusValid ∧
    (Status.toByte { failed := true } : Int) = Generated.C02.statusValidateFailed ∧
    (Status.toByte { invalidAnc := true } : Int) = Generated.C02.statusInvalidAncestor ∧
    (Status.toByte { header := true } : Int) = Generated.C02.statusHeaderStored := by decide

/-! ### 7. the hypotheses are satisfiable -/

example : deliveryOnly sampleOps ∧ WF (mentioned sampleOps) ∧ (run sampleOps).evicted = [] := by
  refine ⟨by decide, by decide, by decide⟩

example : (run sampleOps).tip = 8 := by decide

example : IsBest (delivered sampleOps) 8 := by
  have := tip_is_best sampleOps (by decide) (by decide) (by decide)
  rwa [show (run sampleOps).tip = 8 by decide] at this

end BV.C02
