/-
C02 property theorems (statements only; proofs in Lemmas*.lean).
-/
import BV.C02.Model
import BV.Generated.C02
namespace BV.C02

/-- pinned constants regenerated from the tree -/
theorem pin_maxOrphans : Generated.C02.maxOrphanBlocks = (maxOrphans : Int) := by decide

theorem pin_status_bits :
    Generated.C02.statusDataStored = 1 ∧ Generated.C02.statusValid = 2 ∧ Generated.C02.statusValidateFailed = 4 ∧
    Generated.C02.statusInvalidAncestor = 8 ∧ Generated.C02.statusHeaderStored = 16 := by decide

end BV.C02
