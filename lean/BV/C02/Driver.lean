/- C02 line-protocol driver (core-only).

  run <tree> <ops>                 one observation per op (same rendering as harness/p02 `observe`)
  amb <tree> <ops>                 "1" if some invalidate/reconsider op of the history has more than one
                                   admissible outcome in the model (map-order dependence), else "0"
  explain <tree> <ops> <goOut>     replays the faithful model, resolving each map-order choice so that the
                                   model reproduces the implementation's observations; answers
                                   `ok` | `F-C02-a@k` | `F-C02-b@k` | `nomatch@k`

The `run` answer is the model's observation; after every op the Spec is consulted independently
(`Spec.bestWork` over the delivered blocks): if the model's tip is not a most-work valid chain the
answer for that op is replaced by `!spec/<work>` and the line stops there, so that a disagreement
between the algorithm and the property is visible as a Go≠Lean line. -/
import BV.C02.Model
import BV.Generated.C02
namespace BV.C02.Driver
open BV.C02

/-- a block token `id:parent:work:flags[:pace]`; returns the block and whether a pace was given -/
def parseBlock? (t : String) : Option (BlockAbs × Bool) :=
  let go (i p w f : String) (paced : Bool) : Option (BlockAbs × Bool) := do
    let i ← i.toNat?
    let p ← p.toNat?
    let w ← w.toNat?
    if i == 0 || w == 0 then none else
    match f.toList with
    | [a, b, c, d] =>
      if [a, b, c, d].all (fun x => x == '0' || x == '1') then
        some (⟨i, p, w, a == '1', b == '1', c == '1', d == '1'⟩, paced)
      else none
    | _ => none
  match t.splitOn ":" with
  | [i, p, w, f] => go i p w f false
  | [i, p, w, f, pc] => if pc == "f" || pc == "n" || pc == "s" then go i p w f true else none
  | _ => none

def parseTree? (t : String) : Option (List BlockAbs) :=
  if t == "-" then some [] else
  match (t.splitOn ",").mapM parseBlock? with
  | some ps =>
    let bs := ps.map (·.1)
    -- ids must be unique; a pace on all blocks or on none
    if (bs.map (·.hash)).eraseDups.length == bs.length &&
       (ps.all (fun x => x.2) || ps.all (fun x => !x.2)) then some bs else none
  | none => none

/-- every block's parent chain must reach genesis inside the tree (the harness cannot build it otherwise) -/
def reaches (bs : List BlockAbs) : Nat → Hash → Bool
  | 0, _ => false
  | f + 1, h => if h == 0 then true else
    match bs.find? (fun b => b.hash == h) with
    | some b => reaches bs f b.parent
    | none => false

/-- driver-level ops: the ops of the proved histories plus `ProcessBlock(BFFastAdd)` and a clean
restart (modelled, used for the correspondence only) -/
inductive DOp where
  | op (o : Op)
  | fast (b : BlockAbs)
  | restart
  | blockEv (b : BlockAbs) (fast : Bool) (victim : Option Hash)   -- delivery with a forced eviction victim
deriving Inhabited

/-- the orphan-pool bound is an internal tuning constant of btcd: it is read from the compiled tree
(regenerated facts) on every run, the driver is parametric in it -/
def orphanBound : Nat := BV.Generated.C02.maxOrphanBlocks.toNat

def stepD (s : State) : DOp → State × Res
  -- the genesis header has no known parent (the zero hash): always refused
  | .op (.header ⟨0, _, _, _, _, _, _⟩) => (s, .rej)
  | .op (.block b) => processBlockB orphanBound false none s b
  | .op o => step s o
  | .fast b => processBlockB orphanBound true none s b
  | .restart => (restart s, .ok)
  | .blockEv b f v => processBlockB orphanBound f (some v) s b

/-- op tokens: b<id> ProcessBlock, n<id> ProcessBlock with BFNoPoWCheck (same effect on valid PoW),
f<id> ProcessBlock with BFFastAdd, h<id> / k<id> ProcessBlockHeader (k: skipCheckpoint, no
checkpoints configured), i<id> InvalidateBlock, r<id> ReconsiderBlock, R<n> restart (n = config variant) -/
def parseOp? (bs : List BlockAbs) (t : String) : Option DOp :=
  match t.toList with
  | k :: rest =>
    let body := String.ofList rest
    let ch : Option Hash := none
    match body.toNat? with
    | none => none
    | some id =>
      -- id 0: the genesis block / header itself is (re-)delivered
      let blk := if id == 0 then some genesisBlk else bs.find? (fun b => b.hash == id)
      if k == 'b' || k == 'n' then blk.map (fun b => DOp.op (Op.block b))
      else if k == 'f' then blk.map DOp.fast
      else if k == 'h' || k == 'k' then blk.map (fun b => DOp.op (Op.header b))
      else if k == 'i' then (if blk.isSome then some (.op (.invalidate id ch)) else none)
      else if k == 'r' then (if blk.isSome then some (.op (.reconsider id ch)) else none)
      else if k == 'R' then some .restart
      else none
  | [] => none

def parseOps? (bs : List BlockAbs) (t : String) : Option (List DOp) :=
  if t == "-" then some [] else (t.splitOn ",").mapM (parseOp? bs)

def resStr : Res → String
  | .main => "m" | .side => "s" | .orphan => "o" | .dup => "d" | .rej => "e" | .ok => "k" | .fail => "f"

def hexDigit (n : Nat) : Char := if n < 10 then Char.ofNat (48 + n) else Char.ofNat (87 + n)
def hexStr (n : Nat) : String :=
  if n < 16 then String.singleton (hexDigit n) else String.singleton (hexDigit (n / 16)) ++ String.singleton (hexDigit (n % 16))

def insertSorted (x : Hash × Nat × Nat × TipStatus) : List (Hash × Nat × Nat × TipStatus) → List (Hash × Nat × Nat × TipStatus)
  | [] => [x]
  | y :: r => if x.1 ≤ y.1 then x :: y :: r else y :: insertSorted x r

def tipChar : TipStatus → String
  | .active => "a" | .invalid => "i" | .validFork => "v" | .unknown => "u"

def heightOf (s : State) (h : Hash) : Nat :=
  match lookup s.idx h with
  | some n => n.height
  | none => 0

/-- res/tip@height/besthdr@height/chain/mainbits/hdrbits/statuses/tips/notes/orphans -/
def observe (s : State) (r : Res) (ids : List Hash) (newNotes : List Note) : String :=
  let chain := String.intercalate "." (s.best.reverse.map toString)
  let main := String.join (ids.map (fun i => if s.best.contains i then "1" else "0"))
  -- per block, at the level of the public API: not indexed / header only / data stored, + known invalid
  let sts := String.intercalate "." (ids.map (fun i =>
    match lookup s.idx i with
    | some _ => (if (s.status i).data then "d" else "h") ++ (if (s.status i).knownInvalid then "i" else "")
    | none => "-"))
  let tips := (chainTips s).foldl (fun acc t => insertSorted t acc) []
  let tipsS := String.intercalate "," (tips.map (fun t =>
    toString t.1 ++ ":" ++ toString t.2.1 ++ ":" ++ toString t.2.2.1 ++ ":" ++ tipChar t.2.2.2))
  let notesS := if newNotes.isEmpty then "=" else
    String.join (newNotes.map (fun n => match n with | .conn h => "+" ++ toString h | .disc h => "-" ++ toString h))
  let hdrBits := String.join (ids.map (fun i => if isValidHeader s i then "1" else "0"))
  let orph := String.intercalate "." (ids.map (fun i =>
    if s.orphans.any (fun p => p.1.hash == i) then "o" ++ toString (orphanRoot s.orphans (s.orphans.length + 1) i) else "-"))
  resStr r ++ "/" ++ toString s.tip ++ "@" ++ toString (heightOf s s.tip) ++ "/" ++
    toString s.bestHdr ++ "@" ++ toString (heightOf s s.bestHdr) ++ "/" ++ chain ++ "/" ++ main ++ "/" ++ hdrBits ++ "/" ++
    sts ++ "/" ++ tipsS ++ "/" ++ notesS ++ "/" ++ orph

def sortNat (l : List Nat) : List Nat :=
  l.foldl (fun acc x =>
    let rec ins : List Nat → List Nat
      | [] => [x]
      | y :: r => if x ≤ y then x :: y :: r else y :: ins r
    ins acc) []

/-- Spec bookkeeping carried along a history: delivered blocks (minus evicted orphans) and the
hashes currently excluded by a manual invalidation -/
structure SpecSt where
  delivered : List BlockAbs := []
  excl : List Hash := []

def specAfterOp (sp : SpecSt) (o : Op) (s s' : State) : SpecSt :=
  match o with
  | .block b =>
    let d := if sp.delivered.any (fun x => x.hash == b.hash) then sp.delivered else b :: sp.delivered
    -- orphans dropped by the pool bound during this op no longer count as delivered (until re-delivered)
    let gone := s'.evicted.take (s'.evicted.length - s.evicted.length)
    { sp with delivered := d.filter (fun x => !gone.contains x.hash) }
  | .header _ => sp
  | .invalidate h _ =>
    if h == 0 || (lookup s'.idx h).isNone then sp
    else if sp.excl.contains h then sp else { sp with excl := h :: sp.excl }
  | .reconsider h _ => { sp with excl := sp.excl.filter (· != h) }

def specAfter (sp : SpecSt) (o : DOp) (s s' : State) : SpecSt :=
  match o with
  | .op o => specAfterOp sp o s s'
  | .fast b => specAfterOp sp (.block b) s s'
  | .blockEv b _ _ => specAfterOp sp (.block b) s s'
  -- the orphan pool does not survive a restart: what was only pooled is no longer delivered
  -- likewise header-only nodes are not persisted (by design, for compatibility with older versions): a
  -- manual invalidation of such a node is forgotten together with the node
  | .restart => { sp with delivered := sp.delivered.filter (fun x => (s'.status x.hash).data),
                          excl := sp.excl.filter (fun h => (lookup s'.idx h).isSome) }

def specOk (sp : SpecSt) (s : State) : Bool :=
  Spec.bestWork sp.delivered sp.excl == s.wsum s.tip

def stepNotes (s s' : State) : List Note := (s'.notes.take (s'.notes.length - s.notes.length)).reverse

/-- check the Spec after every op on small trees, otherwise after i/r ops and at the end -/
def checkHere (n : Nat) (o : DOp) (last : Bool) : Bool :=
  last || n ≤ 40 || (match o with | .op (.invalidate ..) => true | .op (.reconsider ..) => true | _ => false)

def isFast : DOp → Bool
  | .fast _ => true
  | _ => false

/-- `chk = false` switches the Spec consultation off (histories with BFFastAdd deliveries, whose
checks are skipped by design) -/
def runObs (chk : Bool) (ids : List Hash) : State → SpecSt → List DOp → List String → List String
  | _, _, [], acc => acc.reverse
  | s, sp, o :: rest, acc =>
    let (s', r) := stepD s o
    let sp' := specAfter sp o s s'
    if chk && checkHere ids.length o rest.isEmpty && !specOk sp' s' then
      (("!spec/" ++ toString (Spec.bestWork sp'.delivered sp'.excl)) :: acc).reverse
    else runObs chk ids s' sp' rest (observe s' r ids (stepNotes s s') :: acc)

/-! #### explain / amb: the admissible choices of an i/r op -/

def choicesOf (s : State) : DOp → List (Option Hash)
  | .op (.invalidate h _) =>
    -- simulate up to the selection point: the candidates are determined by the state after detaching
    match lookup s.idx h with
    | none => [none]
    | some _ =>
      if !(s.best.contains h) then [none] else
      -- all inactive tips may be named; `pick` ignores names outside the max-work set
      none :: ((s.idx.map (fun n => some n.blk.hash)))
  | .op (.reconsider h _) => none :: (s.idx.map (fun n => some n.blk.hash))
  -- pool overflow: the model's own policy (none), "drop nothing" (some 0: genesis is never pooled),
  -- or any one pooled orphan
  | .op (.block b) => if overflows orphanBound s b then none :: some 0 :: s.orphans.map (fun p => some p.1.hash) else [none]
  | .fast b => if overflows orphanBound s b then none :: some 0 :: s.orphans.map (fun p => some p.1.hash) else [none]
  | _ => [none]

def withChoice : DOp → Option Hash → DOp
  | .op (.invalidate h _), c => .op (.invalidate h c)
  | .op (.reconsider h _), c => .op (.reconsider h c)
  | .op (.block b), some v => .blockEv b false (if v == 0 then none else some v)
  | .fast b, some v => .blockEv b true (if v == 0 then none else some v)
  | o, _ => o

def distinctOutcomes (s : State) (o : DOp) (ids : List Hash) : List String :=
  ((choicesOf s o).map (fun c => let (s', r) := stepD s (withChoice o c); observe s' r ids (stepNotes s s'))).eraseDups

def ambRun (ids : List Hash) : State → List DOp → Bool
  | _, [] => false
  | s, o :: rest =>
    if (distinctOutcomes s o ids).length > 1 then true
    else ambRun ids (stepD s o).1 rest

def explainRun (ids : List Hash) : State → SpecSt → List DOp → List String → Nat → String
  | _, _, [], _, _ => "ok"
  | _, _, _ :: _, [], k => "nomatch@" ++ toString k
  | s, sp, o :: rest, g :: gs, k =>
    let cs := choicesOf s o
    match cs.find? (fun c => let (s', r) := stepD s (withChoice o c); observe s' r ids (stepNotes s s') == g) with
    | none => "nomatch@" ++ toString k
    | some c =>
      let (s', _) := stepD s (withChoice o c)
      let sp' := specAfter sp o s s'
      if !specOk sp' s' then
        match o with
        | .op (.invalidate ..) => "F-C02-a@" ++ toString k
        | .op (.reconsider ..) => "F-C02-b@" ++ toString k
        | .op (.block b) =>
          -- a delivered block whose header-only index node had been manually invalidated is accepted and
          -- connected all the same (maybeAcceptBlock does not look at the node's own invalid status)
          -- (the delivered block itself or a pooled orphan drained by this delivery)
          let _ := b
          if s.idx.any (fun n => !(s.status n.blk.hash).data && (s.status n.blk.hash).knownInvalid &&
              (s'.status n.blk.hash).data)
          then "F-C02-e@" ++ toString k else "spec@" ++ toString k
        | _ => "spec@" ++ toString k
      else explainRun ids s' sp' rest gs (k + 1)

/-- is the implementation's observation sequence one the model admits (for SOME admissible choice at
every op whose outcome the property leaves open: map order in invalidate/reconsider, the eviction
victim on pool overflow)? -/
def memberRun (ids : List Hash) : State → List DOp → List String → Bool
  | _, [], [] => true
  | _, [], _ :: _ => false
  | _, _ :: _, [] => false
  | s, o :: rest, g :: gs =>
    match (choicesOf s o).find? (fun c => let (s', r) := stepD s (withChoice o c); observe s' r ids (stepNotes s s') == g) with
    | none => false
    | some c => memberRun ids (stepD s (withChoice o c)).1 rest gs

def prep (tree ops : String) : Option (List BlockAbs × List DOp × List Hash) :=
  match parseTree? tree with
  | none => none
  | some bs =>
    if !(bs.all (fun b => reaches bs (bs.length + 1) b.hash)) then none else
    match parseOps? bs ops with
    | none => none
    | some os => some (bs, os, sortNat (bs.map (·.hash)))

def runLine (tree ops : String) : String :=
  match prep tree ops with
  | none => "bad-op"
  | some (_, os, ids) =>
    let out := runObs (!(os.any isFast)) ids init {} os []
    if out.isEmpty then "-" else String.intercalate ";" out

/-- `par t1 o1 t2 o2 …`: independent histories (run concurrently by the harness), answers joined by `#` -/
def runPar : List String → Option (List String)
  | [] => some []
  | [_] => none
  | t :: o :: rest => (runPar rest).map (fun r => runLine t o :: r)

def handle : List String → String
  | ["run", tree, ops] => runLine tree ops
  | "par" :: rest =>
    match runPar rest with
    | some (a :: r) => String.intercalate "#" (a :: r)
    | _ => "bad-op"
  | ["amb", tree, ops] =>
    match prep tree ops with
    | none => "bad-op"
    | some (_, os, ids) => if ambRun ids init os then "1" else "0"
  | ["member", tree, ops, g] =>
    -- "1" if g is admissible; the harness then reports the model's default rendering (`run`) as the
    -- canonical representative of the admissible set
    match prep tree ops with
    | none => "bad-op"
    | some (_, os, ids) => if memberRun ids init os (g.splitOn ";") then "1" else "0"
  | ["explain", tree, ops, g] =>
    match prep tree ops with
    | none => "bad-op"
    | some (_, os, ids) => explainRun ids init {} os (g.splitOn ";") 0
  | _ => "bad-op"

end BV.C02.Driver
