/-
C02 helper lemmas, part 11: the best-header view. Only ProcessBlockHeader moves it, and only forward:
to a header that extends its tip or has strictly more cumulative work.
-/
import BV.C02.Lemmas10
namespace BV.C02
namespace Lemmas
open Spec

def SameHdr (s s' : State) : Prop := s'.bestHdr = s.bestHdr

theorem sameHdr_markAll (s : State) (l : List Hash) : SameHdr s (markAllInvAnc s l) := by
  induction l generalizing s with
  | nil => rfl
  | cons h r ih => exact (ih (s.markInvAnc h)).trans rfl

theorem sameHdr_verify (s : State) (l : List Node) : SameHdr s (verify s l).1 := by
  induction l generalizing s with
  | nil => rfl
  | cons n r ih =>
    unfold verify
    split
    · rfl
    · split
      · exact ih s
      · split
        · exact (ih (s.markValid n.blk.hash)).trans rfl
        · exact (sameHdr_markAll _ _).trans rfl

theorem sameHdr_getReorgNodes (s : State) (n : Node) : SameHdr s (getReorgNodes s n).1 := by
  unfold getReorgNodes
  split
  · rfl
  · simp only []
    split
    · exact sameHdr_markAll _ _
    · rfl

theorem sameHdr_reorganize (s : State) (d : List Hash) (a : List Node) : SameHdr s (reorganize s d a).1 := by
  unfold reorganize
  have hv := sameHdr_verify s a
  generalize verify s a = r at hv ⊢
  obtain ⟨s1, vr⟩ := r
  cases vr <;> exact hv

theorem sameHdr_connectBest (s : State) (n : Node) : SameHdr s (connectBest s n).1 := by
  unfold connectBest
  simp only []
  split
  · split
    · rfl
    · split <;> rfl
  · split
    · rfl
    · have hg := sameHdr_getReorgNodes s n
      generalize getReorgNodes s n = g at hg ⊢
      obtain ⟨s1, d, a⟩ := g
      simp only [] at hg ⊢
      have hr := sameHdr_reorganize s1 d a
      generalize reorganize s1 d a = r at hr ⊢
      obtain ⟨s2, vr⟩ := r
      cases vr <;> exact hr.trans hg

theorem sameHdr_maybeAccept (s : State) (b : BlockAbs) : SameHdr s (maybeAccept s b).1 := by
  unfold maybeAccept
  split
  · rfl
  · split
    · rfl
    · split
      · rfl
      · split
        · rfl
        · split
          · exact (sameHdr_connectBest _ _).trans rfl
          · exact (sameHdr_connectBest _ _).trans rfl

theorem sameHdr_acceptKids (s : State) (ks : List BlockAbs) (acc : List Hash) (e : Bool) :
    SameHdr s (acceptKids s ks acc e).1 := by
  induction ks generalizing s acc e with
  | nil => rfl
  | cons k ks ih =>
    unfold acceptKids
    have h1 := sameHdr_maybeAccept s k
    generalize maybeAccept s k = r at h1 ⊢
    obtain ⟨s1, o⟩ := r
    cases o with
    | none => exact (ih s1 acc true).trans h1
    | some m => exact (ih s1 (acc ++ [k.hash]) e).trans h1

theorem sameHdr_drain (f : Nat) (s : State) (q : List Hash) (e : Bool) : SameHdr s (drain f s q e).1 := by
  induction f generalizing s q e with
  | zero => rfl
  | succ f ih =>
    cases q with
    | nil => rfl
    | cons h q' =>
      unfold drain
      simp only []
      have h1 := sameHdr_acceptKids { s with orphans := s.orphans.filter (fun p => !(p.1.parent == h)) }
        ((s.orphans.filter (fun p => p.1.parent == h)).map (·.1)) [] e
      generalize acceptKids { s with orphans := s.orphans.filter (fun p => !(p.1.parent == h)) }
        ((s.orphans.filter (fun p => p.1.parent == h)).map (·.1)) [] e = r at h1 ⊢
      obtain ⟨s1, acc, e1⟩ := r
      exact (ih s1 (q' ++ acc) e1).trans h1

theorem sameHdr_addOrphan (s : State) (b : BlockAbs) : SameHdr s (addOrphan s b) := by
  unfold addOrphan addOrphanB SameHdr
  simp only []
  split
  · split <;> rfl
  · rfl

theorem sameHdr_processBlock (s : State) (b : BlockAbs) : SameHdr s (processBlock s b).1 := by
  unfold processBlock
  split
  · rfl
  · split
    · rfl
    · split
      · rfl
      · split
        · exact sameHdr_addOrphan s b
        · have h1 := sameHdr_maybeAccept s b
          generalize maybeAccept s b = r at h1 ⊢
          obtain ⟨s1, o⟩ := r
          cases o with
          | none => exact h1
          | some m =>
            simp only []
            have h2 := sameHdr_drain (s1.orphans.length + 1) s1 [b.hash] false
            generalize drain (s1.orphans.length + 1) s1 [b.hash] false = d at h2 ⊢
            obtain ⟨s2, e⟩ := d
            cases e <;> exact h2.trans h1

theorem sameHdr_foldl {α : Type} (l : List α) (g : State → α → State) (hg : ∀ s a, SameHdr s (g s a)) (s : State) :
    SameHdr s (l.foldl g s) := by
  induction l generalizing s with
  | nil => rfl
  | cons a r ih => exact (ih (g s a)).trans (hg s a)

theorem sameHdr_unmark (s : State) (h : Hash) : SameHdr s (unmarkValidMarkInvAnc s h) := by
  unfold unmarkValidMarkInvAnc
  split <;> rfl

theorem sameHdr_invalidate (s : State) (h : Hash) (c : Option Hash) : SameHdr s (invalidate s h c).1 := by
  unfold invalidate
  split
  · rfl
  · split
    · rfl
    · split
      · rfl
      · simp only []
        split
        · exact (sameHdr_foldl _ _ (fun s a => sameHdr_foldl _ _ (fun s x => sameHdr_unmark s x) s) _).trans rfl
        · have h1 : SameHdr s (s.setSt h (fun t => { t with failed := true, valid := false })) := rfl
          generalize (s.setSt h (fun t => { t with failed := true, valid := false })) = s0 at h1 ⊢
          have h2 := sameHdr_foldl
            ((s0.best.takeWhile (· != h)).filter (fun x => !(s0.status x).knownInvalid))
            (fun s x => s.setSt x (fun t => { t with invalidAnc := true, valid := false }))
            (fun s a => rfl) s0
          generalize ((s0.best.takeWhile (· != h)).filter (fun x => !(s0.status x).knownInvalid)) = above at h2 ⊢
          generalize (above.foldl (fun s x => s.setSt x (fun t => { t with invalidAnc := true, valid := false })) s0) = s1 at h2 ⊢
          have h3 := sameHdr_reorganize s1 (above ++ [h]) []
          generalize reorganize s1 (above ++ [h]) [] = r at h3 ⊢
          obtain ⟨s2, vr⟩ := r
          have h012 : SameHdr s s2 := h3.trans (h2.trans h1)
          cases vr with
          | rule => exact h012
          | other => exact h012
          | ok =>
            simp only []
            split
            · exact h012
            · split
              · exact h012
              · rename_i t _ _
                have hg := sameHdr_getReorgNodes s2 t
                generalize getReorgNodes s2 t = g at hg ⊢
                obtain ⟨s3, detach, attach⟩ := g
                simp only [] at hg ⊢
                exact (sameHdr_reorganize s3 detach attach).trans (hg.trans h012)

theorem sameHdr_reconsider (s : State) (h : Hash) (c : Option Hash) : SameHdr s (reconsider s h c).1 := by
  unfold reconsider
  split
  · rfl
  · split
    · rfl
    · simp only []
      have h1 : SameHdr s (s.setSt h (fun t => { t with invalidAnc := false, failed := false })) := rfl
      generalize (s.setSt h (fun t => { t with invalidAnc := false, failed := false })) = s0 at h1 ⊢
      have h2 := sameHdr_foldl (descTips s0 h)
        (fun s t => ((t.blk.hash :: ancestors s.idx t.blk.hash).takeWhile (· != h)).foldl
          (fun s x => s.setSt x (fun t => { t with invalidAnc := false })) s)
        (fun s a => sameHdr_foldl _ (fun s x => s.setSt x (fun t => { t with invalidAnc := false })) (fun s x => rfl) s) s0
      generalize ((descTips s0 h).foldl (fun s t => ((t.blk.hash :: ancestors s.idx t.blk.hash).takeWhile (· != h)).foldl
          (fun s x => s.setSt x (fun t => { t with invalidAnc := false })) s) s0) = s1 at h2 ⊢
      generalize reconsiderTarget (descTips s0 h) _ c = rtn
      split
      · exact h2.trans h1
      · have hg := sameHdr_getReorgNodes s1 rtn
        generalize getReorgNodes s1 rtn = g at hg ⊢
        obtain ⟨s3, detach, attach⟩ := g
        simp only [] at hg ⊢
        exact (sameHdr_reorganize s3 detach attach).trans (hg.trans (h2.trans h1))

theorem processHeaderCore_hdr (s : State) (b : BlockAbs) : SameHdr s (processHeaderCore s b).1 := by
  unfold processHeaderCore
  split
  · rfl
  · split
    · rfl
    · split
      · split <;> rfl
      · split <;> rfl

theorem processHeaderCore_wsum (s : State) (b : BlockAbs) (h : Hash) (n : Node) (hl : lookup s.idx h = some n) :
    (processHeaderCore s b).1.wsum h = s.wsum h := by
  have := processHeaderCore_lookup_mono s b h n hl
  unfold State.wsum wsumOf
  rw [this, hl]

/-- a header delivery leaves the best-header tip where it is, or moves it to the delivered header,
which then either extends the old tip or has strictly more cumulative work (indexed old tip) -/
theorem processHeader_hdr_rule (s : State) (b : BlockAbs) (n : Node) (hl : lookup s.idx s.bestHdr = some n) :
    (processHeader s b).1.bestHdr = s.bestHdr ∨
    ((processHeader s b).1.bestHdr = b.hash ∧
      (b.parent = s.bestHdr ∨ s.wsum s.bestHdr < (processHeader s b).1.wsum b.hash)) := by
  unfold processHeader
  have hc := processHeaderCore_hdr s b
  have hw := processHeaderCore_wsum s b s.bestHdr n hl
  generalize processHeaderCore s b = r at hc hw ⊢
  obtain ⟨s1, res⟩ := r
  simp only [] at hc hw
  have hupd : (updateBestHdr s1 b).1.bestHdr = s.bestHdr ∨
      ((updateBestHdr s1 b).1.bestHdr = b.hash ∧
        (b.parent = s.bestHdr ∨ s.wsum s.bestHdr < (updateBestHdr s1 b).1.wsum b.hash)) := by
    unfold updateBestHdr
    split
    · exact Or.inl hc
    · split
      · rename_i hp
        right
        exact ⟨rfl, Or.inl (by rw [← hc]; simpa using hp)⟩
      · split
        · exact Or.inl hc
        · rename_i hle
          right
          refine ⟨rfl, Or.inr ?_⟩
          have : (State.wsum { s1 with bestHdr := b.hash } b.hash) = s1.wsum b.hash := rfl
          rw [this, ← hw, ← hc]
          omega
  cases res <;> first
    | exact Or.inl hc
    | (simp only []; split
       · exact Or.inl hc
       · exact hupd)

/-- every op other than a header delivery leaves the best-header view untouched -/
theorem step_hdr_frame (s : State) (o : Op) (hno : ∀ b, o ≠ .header b) : (step s o).1.bestHdr = s.bestHdr := by
  cases o with
  | block b => exact sameHdr_processBlock s b
  | header b => exact absurd rfl (hno b)
  | invalidate h c =>
    simp only [step]
    have := sameHdr_invalidate s h c
    generalize invalidate s h c = r at this ⊢
    obtain ⟨s1, ok⟩ := r
    cases ok <;> exact this
  | reconsider h c =>
    simp only [step]
    have := sameHdr_reconsider s h c
    generalize reconsider s h c = r at this ⊢
    obtain ⟨s1, ok⟩ := r
    cases ok <;> exact this

end Lemmas
end BV.C02
