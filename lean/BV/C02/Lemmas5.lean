/-
C02 helper lemmas, part 5: processOrphans, addOrphanBlock, ProcessBlock, ProcessBlockHeader and the
run over a delivery history preserve the invariant.
-/
import BV.C02.Lemmas4
namespace BV.C02
namespace Lemmas
open Spec

theorem inv_mono_Q {U D : List BlockAbs} {Q Q' : List Hash} {P : List BlockAbs} {s : State}
    (hq : ∀ x ∈ Q, x ∈ Q') (hi : Inv U D Q P s) : Inv U D Q' P s :=
  { hi with oPar := fun o ho hd => (hi.oPar o ho hd).imp id (hq _) }

theorem acceptKids_spec {U D : List BlockAbs} (hwf : WF U) (hDU : ∀ b ∈ D, b ∈ U) :
    ∀ (ks : List BlockAbs) (s : State) (Q acc : List Hash) (e : Bool),
    Inv U D (Q ++ acc) ks s → (∀ k ∈ ks, (s.status k.parent).data = true) →
    (∀ h ∈ acc, (s.status h).data = true) →
    Inv U D (Q ++ (acceptKids s ks acc e).2.1) [] (acceptKids s ks acc e).1 ∧
    (acceptKids s ks acc e).1.orphans = s.orphans ∧ (acceptKids s ks acc e).1.evicted = s.evicted ∧
    (∀ h, (s.status h).data = true → ((acceptKids s ks acc e).1.status h).data = true) ∧
    (∀ h ∈ (acceptKids s ks acc e).2.1, ((acceptKids s ks acc e).1.status h).data = true) ∧
    (acceptKids s ks acc e).2.1.length ≤ acc.length + ks.length ∧ Adv s (acceptKids s ks acc e).1 := by
  intro ks
  induction ks with
  | nil =>
    intro s Q acc e hi _ hacc
    exact ⟨hi, rfl, rfl, fun h hh => hh, hacc, by simp [acceptKids], adv_refl s⟩
  | cons k ks ih =>
    intro s Q acc e hi hpar hacc
    obtain ⟨h1, h2, h3, h4, h5, h6⟩ := maybeAccept_spec hwf hDU hi (hpar k (by simp))
    unfold acceptKids
    generalize maybeAccept s k = res at h1 h2 h3 h4 h5 h6 ⊢
    obtain ⟨s1, o⟩ := res
    simp only [] at h1 h2 h3 h4 h5 h6 ⊢
    cases o with
    | none =>
      simp only [Option.isSome_none, Bool.false_eq_true, if_false] at h1
      simp only []
      obtain ⟨a, b, c, d, f, g, ad⟩ := ih s1 Q acc true h1 (fun k' hk' => h4 _ (hpar k' (by simp [hk'])))
        (fun h hh => h4 _ (hacc h hh))
      exact ⟨a, b.trans h2, c.trans h3, fun h hh => d h (h4 h hh), f, by simp only [List.length_cons]; omega,
        adv_trans h6 ad⟩
    | some m =>
      simp only [Option.isSome_some, if_true] at h1 h5
      simp only []
      rw [List.append_assoc] at h1
      obtain ⟨a, b, c, d, f, g, ad⟩ := ih s1 Q (acc ++ [k.hash]) e h1
        (fun k' hk' => h4 _ (hpar k' (by simp [hk'])))
        (by
          intro h hh
          simp at hh
          rcases hh with hh | hh
          · exact h4 _ (hacc h hh)
          · rw [hh]; exact h5 trivial)
      refine ⟨a, b.trans h2, c.trans h3, fun h hh => d h (h4 h hh), f, ?_, adv_trans h6 ad⟩
      simp only [List.length_append, List.length_cons, List.length_nil] at g ⊢
      omega

theorem drain_spec {U D : List BlockAbs} (hwf : WF U) (hDU : ∀ b ∈ D, b ∈ U) :
    ∀ (f : Nat) (s : State) (q : List Hash) (e : Bool),
    Inv U D q [] s → (∀ h ∈ q, (s.status h).data = true) → q.length + s.orphans.length ≤ f →
    Inv U D [] [] (drain f s q e).1 ∧ (drain f s q e).1.evicted = s.evicted ∧ Adv s (drain f s q e).1 := by
  intro f
  induction f with
  | zero =>
    intro s q e hi _ hf
    have : q = [] := by
      cases q with
      | nil => rfl
      | cons a r => simp at hf
    subst this
    exact ⟨hi, rfl, adv_refl s⟩
  | succ f ih =>
    intro s q e hi hqd hf
    cases q with
    | nil => exact ⟨hi, rfl, adv_refl s⟩
    | cons h q' =>
      unfold drain
      simp only []
      generalize hs0 : ({ s with orphans := s.orphans.filter (fun p => !(p.1.parent == h)) } : State) = s0
      have hi0 : s0.idx = s.idx := by rw [← hs0]
      have hst0 : s0.st = s.st := by rw [← hs0]
      have hb0 : s0.best = s.best := by rw [← hs0]
      have ho0 : s0.orphans = s.orphans.filter (fun p => !(p.1.parent == h)) := by rw [← hs0]
      have he0 : s0.evicted = s.evicted := by rw [← hs0]
      have hss : ∀ k, s0.status k = s.status k := fun k => by unfold State.status; rw [hst0]
      have hperm : (Pool s0 ((s.orphans.filter (fun p => p.1.parent == h)).map (·.1))).Perm (Pool s []) := by
        unfold Pool
        rw [ho0, List.append_nil, ← List.map_append]
        apply List.Perm.map
        exact List.perm_append_comm.trans (List.filter_append_perm _ _)
      have hinv0 : Inv U D q' ((s.orphans.filter (fun p => p.1.parent == h)).map (·.1)) s0 := by
        refine ⟨cinv_congr hi0 hst0 hb0 hi.c, maxAll_congr hi0 hst0 hb0 hi.max, ?_, ?_, ?_, ?_⟩
        · intro w hw
          rw [hss]
          exact hi.wOK w (hperm.mem_iff.mp hw)
        · exact (hperm.map _).nodup_iff.mpr hi.wND
        · intro o ho hd
          rw [ho0] at ho
          obtain ⟨ho1, ho2⟩ := List.mem_filter.mp ho
          rw [hss] at hd ⊢
          rcases hi.oPar o ho1 hd with hk | hk
          · exact Or.inl hk
          · right
            simp only [List.mem_cons] at hk
            rcases hk with hk | hk
            · simp [hk] at ho2
            · exact hk
        · intro b hb hp
          rw [hss, hss, he0]
          rcases hi.deliv b hb hp with x | x | x | x | x
          · exact Or.inl x
          · exact Or.inr (Or.inl (hperm.mem_iff.mpr x))
          · exact Or.inr (Or.inr (Or.inl x))
          · exact Or.inr (Or.inr (Or.inr (Or.inl x)))
          · exact Or.inr (Or.inr (Or.inr (Or.inr x)))
      have hkids : ∀ k ∈ (s.orphans.filter (fun p => p.1.parent == h)).map (·.1), (s0.status k.parent).data = true := by
        intro k hk
        obtain ⟨o, ho, rfl⟩ := List.mem_map.mp hk
        obtain ⟨_, ho2⟩ := List.mem_filter.mp ho
        have : o.1.parent = h := by simpa using ho2
        rw [hss, this]
        exact hqd h (by simp)
      have hq'0 : Inv U D (q' ++ []) ((s.orphans.filter (fun p => p.1.parent == h)).map (·.1)) s0 := by
        rw [List.append_nil]; exact hinv0
      obtain ⟨a, b, c, d, g, hl, ad⟩ := acceptKids_spec hwf hDU _ s0 q' [] e hq'0 hkids (by intro x hx; cases hx)
      generalize acceptKids s0 ((s.orphans.filter (fun p => p.1.parent == h)).map (·.1)) [] e = res at a b c d g hl ad ⊢
      obtain ⟨s1, acc, e1⟩ := res
      simp only [] at a b c d g hl ad ⊢
      have ad0 : Adv s s0 := by
        refine ⟨Or.inl hb0, fun x n hx => by rw [hi0]; exact hx⟩
      have hlen : (s.orphans.filter (fun p => p.1.parent == h)).length +
          (s.orphans.filter (fun p => !(p.1.parent == h))).length = s.orphans.length := by
        have := (List.filter_append_perm (fun p : BlockAbs × Nat => p.1.parent == h) s.orphans).length_eq
        simpa using this
      obtain ⟨r1, r2, r3⟩ := ih s1 (q' ++ acc) e1 a
        (by
          intro x hx
          simp at hx
          rcases hx with hx | hx
          · apply d; rw [hss]; exact hqd x (by simp [hx])
          · exact g x hx)
        (by
          rw [b, ho0]
          simp only [List.length_append, List.length_cons, List.length_map, List.length_nil] at hf hl ⊢
          omega)
      exact ⟨r1, r2.trans (c.trans he0), adv_trans ad0 (adv_trans ad r3)⟩

/-! ### addOrphanBlock -/

theorem addOrphan_shape (s : State) (b : BlockAbs) :
    (addOrphan s b).idx = s.idx ∧ (addOrphan s b).st = s.st ∧ (addOrphan s b).best = s.best ∧
    ∃ keep c, (addOrphan s b).orphans = keep ++ [(b, c)] ∧ keep.Sublist s.orphans ∧
      (∀ o ∈ s.orphans, o ∈ keep ∨ o.1.hash ∈ (addOrphan s b).evicted) ∧
      (∀ x ∈ s.evicted, x ∈ (addOrphan s b).evicted) := by
  unfold addOrphan addOrphanB
  simp only []
  split
  · split
    · rename_i h t hc
      refine ⟨rfl, rfl, rfl, s.orphans.filter (fun p => p.1.hash != h), s.clock, rfl, List.filter_sublist, ?_, ?_⟩
      · intro o ho
        by_cases e : o.1.hash = h
        · right
          have : s.orphans.any (fun p => p.1.hash == h) = true := by
            simp only [List.any_eq_true]; exact ⟨o, ho, by simpa using e⟩
          simp only [this, if_true, List.mem_cons]
          exact Or.inl e
        · left
          exact List.mem_filter.mpr ⟨ho, by simpa using e⟩
      · intro x hx
        split
        · exact List.mem_cons_of_mem _ hx
        · exact hx
    · exact ⟨rfl, rfl, rfl, s.orphans, s.clock, rfl, List.Sublist.refl _, fun o ho => Or.inl ho, fun x hx => hx⟩
  · exact ⟨rfl, rfl, rfl, s.orphans, s.clock, rfl, List.Sublist.refl _, fun o ho => Or.inl ho, fun x hx => hx⟩

theorem addOrphan_spec {U D : List BlockAbs} {s : State} {b : BlockAbs} (hi : Inv U D [] [] s)
    (hsane : b.sane = true) (hnd : (s.status b.hash).data = false)
    (hfresh : ∀ o ∈ s.orphans, o.1.hash ≠ b.hash) (hpar : (s.status b.parent).data = false) :
    Inv U (b :: D) [] [] (addOrphan s b) := by
  obtain ⟨hidx, hst, hbest, keep, c, horph, hsub, hkeep, hev⟩ := addOrphan_shape s b
  generalize addOrphan s b = s' at hidx hst hbest horph hkeep hev ⊢
  have hss : ∀ k, s'.status k = s.status k := fun k => by unfold State.status; rw [hst]
  have hpool : Pool s' [] = keep.map (·.1) ++ [b] := by unfold Pool; rw [horph]; simp
  have hkm : ∀ o ∈ keep, o ∈ s.orphans := fun o ho => hsub.subset ho
  refine ⟨cinv_mono_D (fun x hx => List.mem_cons_of_mem _ hx) (cinv_congr hidx hst hbest hi.c),
    maxAll_congr hidx hst hbest hi.max, ?_, ?_, ?_, ?_⟩
  · intro w hw
    rw [hpool] at hw
    rw [hss]
    simp only [List.mem_append, List.mem_map, List.mem_singleton] at hw
    rcases hw with ⟨o, ho, rfl⟩ | rfl
    · obtain ⟨a, c, d⟩ := hi.wOK o.1 (by unfold Pool; simp; exact ⟨o.2, hkm o ho⟩)
      exact ⟨List.mem_cons_of_mem _ a, c, d⟩
    · exact ⟨by simp, hsane, hnd⟩
  · rw [hpool]
    simp only [List.map_append, List.map_map, List.map_cons, List.map_nil]
    rw [List.nodup_append]
    refine ⟨?_, by simp, ?_⟩
    · have h0 := hi.wND
      unfold Pool at h0
      simp only [List.append_nil, List.map_map] at h0
      exact List.Nodup.sublist (hsub.map _) h0
    · intro a ha x hx
      simp only [List.mem_singleton] at hx
      subst hx
      obtain ⟨o, ho, rfl⟩ := List.mem_map.mp ha
      exact hfresh o (hkm o ho)
  · intro o ho hd
    rw [horph] at ho
    rw [hss] at hd ⊢
    simp only [List.mem_append, List.mem_singleton] at ho
    rcases ho with ho | ho
    · exact hi.oPar o (hkm o ho) hd
    · subst ho; simp only [] at hd; rw [hpar] at hd; cases hd
  · intro x hx hp
    rw [hss, hss]
    simp only [List.mem_cons] at hx
    rcases hx with hx | hx
    · subst hx; right; left; rw [hpool]; simp
    · rcases hi.deliv x hx hp with y | y | y | y | y
      · exact Or.inl y
      · unfold Pool at y
        simp only [List.append_nil, List.mem_map] at y
        obtain ⟨o, ho, rfl⟩ := y
        rcases hkeep o ho with z | z
        · right; left; rw [hpool]; simp only [List.mem_append, List.mem_map, List.mem_singleton]
          exact Or.inl ⟨o, z, rfl⟩
        · exact Or.inr (Or.inr (Or.inr (Or.inl z)))
      · exact Or.inr (Or.inr (Or.inl y))
      · exact Or.inr (Or.inr (Or.inr (Or.inl (hev _ y))))
      · exact Or.inr (Or.inr (Or.inr (Or.inr y)))

/-- a newly delivered block joins `D` once the invariant can account for it -/
theorem inv_add_D {U D : List BlockAbs} {Q : List Hash} {P : List BlockAbs} {s : State} {b : BlockAbs}
    (hi : Inv U D Q P s)
    (hb : b.preOk = true → (s.status b.hash).data = true ∨ b ∈ Pool s P ∨
      (s.status b.parent).knownInvalid = true ∨ b.hash ∈ s.evicted ∨ (s.status b.hash).knownInvalid = true) :
    Inv U (b :: D) Q P s := by
  refine ⟨cinv_mono_D (fun x hx => List.mem_cons_of_mem _ hx) hi.c, hi.max, ?_, hi.wND, hi.oPar, ?_⟩
  · intro w hw
    obtain ⟨a, c, d⟩ := hi.wOK w hw
    exact ⟨List.mem_cons_of_mem _ a, c, d⟩
  · intro x hx hp
    simp only [List.mem_cons] at hx
    rcases hx with hx | hx
    · subst hx; exact hb hp
    · exact hi.deliv x hx hp

/-! ### ProcessBlock -/

theorem processBlock_spec {U D : List BlockAbs} {s : State} {b : BlockAbs} (hwf : WF U) (hDU : ∀ x ∈ D, x ∈ U)
    (hbU : b ∈ U) (hi : Inv U D [] [] s) :
    Inv U (b :: D) [] [] (processBlock s b).1 ∧ Adv s (processBlock s b).1 := by
  have hDU' : ∀ x ∈ b :: D, x ∈ U := by
    intro x hx; simp only [List.mem_cons] at hx; rcases hx with hx | hx
    · subst hx; exact hbU
    · exact hDU x hx
  unfold processBlock
  cases hdat : (s.status b.hash).data with
  | true =>
    simp only [if_true]
    exact ⟨inv_add_D hi (fun _ => Or.inl hdat), adv_refl s⟩
  | false =>
    simp only [Bool.false_eq_true, if_false]
    cases horp : s.orphans.any (fun p => p.1.hash == b.hash) with
    | true =>
      simp only [if_true]
      refine ⟨?_, adv_refl s⟩
      apply inv_add_D hi
      intro _
      right; left
      simp only [List.any_eq_true] at horp
      obtain ⟨o, ho, he⟩ := horp
      have he' : o.1.hash = b.hash := by simpa using he
      have hoP : o.1 ∈ Pool s [] := by unfold Pool; simp; exact ⟨o.2, ho⟩
      have : o.1 = b := wf_eq hwf (hDU _ (hi.wOK _ hoP).1) hbU he'
      rw [← this]; exact hoP
    | false =>
      simp only [Bool.false_eq_true, if_false]
      have hfresh : ∀ o ∈ s.orphans, o.1.hash ≠ b.hash := by
        intro o ho e
        have : s.orphans.any (fun p => p.1.hash == b.hash) = true := by
          simp only [List.any_eq_true]; exact ⟨o, ho, by simpa using e⟩
        rw [horp] at this; cases this
      cases hsane : b.sane with
      | false =>
        simp only [Bool.not_false, if_true]
        refine ⟨?_, adv_refl s⟩
        apply inv_add_D hi
        intro hp
        unfold BlockAbs.preOk at hp
        simp [hsane] at hp
      | true =>
        simp only [Bool.not_true, Bool.false_eq_true, if_false]
        cases hpd : (s.status b.parent).data with
        | false =>
          simp only [Bool.not_false, if_true]
          refine ⟨addOrphan_spec hi hsane hdat hfresh hpd, ?_⟩
          obtain ⟨hidx, _, hbest, _⟩ := addOrphan_shape s b
          exact ⟨Or.inl hbest, fun x n hx => by rw [hidx]; exact hx⟩
        | true =>
          simp only [Bool.not_true, Bool.false_eq_true, if_false]
          have hiP : Inv U (b :: D) [] [b] s := by
            refine ⟨cinv_mono_D (fun x hx => List.mem_cons_of_mem _ hx) hi.c, hi.max, ?_, ?_, hi.oPar, ?_⟩
            · intro w hw
              unfold Pool at hw
              simp only [List.mem_append, List.mem_singleton] at hw
              rcases hw with hw | hw
              · obtain ⟨a, c, d⟩ := hi.wOK w (by unfold Pool; simpa using hw)
                exact ⟨List.mem_cons_of_mem _ a, c, d⟩
              · subst hw; exact ⟨by simp, hsane, hdat⟩
            · unfold Pool
              simp only [List.map_append, List.map_map, List.map_cons, List.map_nil]
              rw [List.nodup_append]
              refine ⟨?_, by simp, ?_⟩
              · have h0 := hi.wND
                unfold Pool at h0
                simpa using h0
              · intro a ha x hx
                simp only [List.mem_singleton] at hx
                subst hx
                obtain ⟨o, ho, rfl⟩ := List.mem_map.mp ha
                exact hfresh o ho
            · intro x hx hp
              simp only [List.mem_cons] at hx
              rcases hx with hx | hx
              · subst hx; right; left; unfold Pool; simp
              · rcases hi.deliv x hx hp with y | y | y | y | y
                · exact Or.inl y
                · right; left; unfold Pool at y ⊢; simp at y ⊢; exact Or.inl y
                · exact Or.inr (Or.inr (Or.inl y))
                · exact Or.inr (Or.inr (Or.inr (Or.inl y)))
                · exact Or.inr (Or.inr (Or.inr (Or.inr y)))
          obtain ⟨h1, h2, h3, h4, h5, h6⟩ := maybeAccept_spec hwf hDU' hiP hpd
          generalize maybeAccept s b = res at h1 h2 h3 h4 h5 h6 ⊢
          obtain ⟨s1, o⟩ := res
          simp only [] at h1 h2 h3 h4 h5 h6 ⊢
          cases o with
          | none =>
            simp only [Option.isSome_none, Bool.false_eq_true, if_false] at h1
            exact ⟨h1, h6⟩
          | some m =>
            simp only [Option.isSome_some, if_true, List.nil_append] at h1 h5
            simp only []
            obtain ⟨r1, _, r3⟩ := drain_spec hwf hDU' (s1.orphans.length + 1) s1 [b.hash] false h1
              (by intro x hx; simp only [List.mem_singleton] at hx; subst hx; exact h5 trivial)
              (by simp only [List.length_cons, List.length_nil]; omega)
            generalize drain (s1.orphans.length + 1) s1 [b.hash] false = dres at r1 r3 ⊢
            obtain ⟨s2, e2⟩ := dres
            cases e2 <;> exact ⟨r1, adv_trans h6 r3⟩

/-! ### ProcessBlockHeader -/

theorem processHeaderCore_spec {U D : List BlockAbs} {s : State} {b : BlockAbs} (hwf : WF U)
    (hbU : b ∈ U) (hi : Inv U D [] [] s) : Inv U D [] [] (processHeaderCore s b).1 := by
  unfold processHeaderCore
  cases hlp : lookup s.idx b.parent with
  | none => exact hi
  | some p =>
    simp only []
    split
    · exact hi
    · cases hlb : lookup s.idx b.hash with
      | some n =>
        simp only []
        split <;> exact hi
      | none =>
        simp only []
        split
        · exact hi
        · have hb0 : b.hash ≠ 0 := hwf.2.1 b hbU
          generalize hn : (⟨b, p.height + 1, p.workSum + b.work⟩ : Node) = n
          have hnb : n.blk = b := by rw [← hn]
          generalize hs1 : ({ s with idx := n :: s.idx, st := (b.hash, ({ header := true } : Status)) :: s.st } : State) = s1
          have hidx1 : s1.idx = n :: s.idx := by rw [← hs1]
          have hbest1 : s1.best = s.best := by rw [← hs1]
          have horph1 : s1.orphans = s.orphans := by rw [← hs1]
          have hev1 : s1.evicted = s.evicted := by rw [← hs1]
          have hst1 : ∀ h, s1.status h = if b.hash = h then ({ header := true } : Status) else s.status h := by
            intro h; rw [← hs1]; unfold State.status; simp only [stOf_cons]
          have hnd : (s.status b.hash).data = false := by
            cases hd : (s.status b.hash).data with
            | false => rfl
            | true =>
              obtain ⟨m, hm⟩ := hi.c.dIdx _ hd
              rw [hlb] at hm; cases hm
          have hnk : (s.status b.hash).knownInvalid = false := by
            cases hd : (s.status b.hash).knownInvalid with
            | false => rfl
            | true =>
              obtain ⟨m, hm⟩ := iw_lookup (hi.c.fs.kIW _ hd)
              rw [hlb] at hm; cases hm
          have hdat : ∀ h, (s1.status h).data = (s.status h).data := by
            intro h; rw [hst1]
            by_cases e : b.hash = h
            · subst e; simp [hnd]
            · simp [e]
          have hki : ∀ h, (s1.status h).knownInvalid = (s.status h).knownInvalid := by
            intro h; rw [hst1]
            by_cases e : b.hash = h
            · subst e
              have h2 := hnk
              simp only [Status.knownInvalid, Bool.or_eq_false_iff] at h2
              simp [Status.knownInvalid, h2]
            · simp [e]
          have hlk : ∀ h, h ≠ b.hash → lookup s1.idx h = lookup s.idx h := by
            intro h hh; rw [hidx1, lookup_cons, hnb]; simp [Ne.symm hh]
          have hlmono : ∀ h m, lookup s.idx h = some m → lookup s1.idx h = some m := by
            intro h m hm
            rw [hidx1]
            exact lookup_cons_of_some (by rw [hnb]; exact hlb) hm
          have hc1 : CInv U D s1 := by
            constructor
            · rw [hidx1]
              refine IdxOK.cons hi.c.idx (by rw [hnb]; exact hb0) (by rw [hnb]; exact hlb) (by rw [hnb]; exact hbU)
                (by rw [hnb]; exact hlp) ?_ ?_
              · rw [← hn]
              · rw [← hn]
            · rw [hdat]; exact hi.c.gData
            · intro h hh; rw [hdat] at hh
              obtain ⟨m, hm⟩ := hi.c.dIdx h hh
              exact ⟨m, hlmono h m hm⟩
            · intro h m hh hm h0
              rw [hdat] at hh ⊢
              have hne : h ≠ b.hash := by intro e; rw [e, hnd] at hh; cases hh
              rw [hlk h hne] at hm
              exact hi.c.dClosed h m hh hm h0
            · intro h m hh hm h0
              rw [hdat] at hh
              have hne : h ≠ b.hash := by intro e; rw [e, hnd] at hh; cases hh
              rw [hlk h hne] at hm
              exact hi.c.dD h m hh hm h0
            · constructor
              · intro h m hv hm
                rw [hst1] at hv
                by_cases e : b.hash = h
                · simp [e] at hv
                · simp only [e, if_false] at hv
                  rw [hlk h (Ne.symm e)] at hm
                  exact hi.c.fs.vOk h m hv hm
              · intro h hk
                rw [hki] at hk
                rw [hidx1]
                exact iw_cons (by rw [hnb]; exact hlb) (hi.c.fs.kIW h hk)
            · rw [hbest1]
              have hbd := pathOK_data hi.c.gData hi.c.path
              apply pathOK_mono _ _ _ hi.c.path
              · intro h _ m hm; exact hlmono h m hm
              · intro h _ hd; rw [hdat]; exact hd
              · intro h hh hv
                have hne : b.hash ≠ h := by intro e; have := hbd h hh; rw [← e, hnd] at this; cases this
                rw [hst1]; simp only [hne, if_false]; exact hv
          have htipne : s.tip ≠ b.hash := by
            have hbd := pathOK_data hi.c.gData hi.c.path
            have hz := hi.c.path
            cases hbest : s.best with
            | nil => rw [hbest] at hz; cases hz
            | cons t r =>
              have : s.tip = t := by unfold State.tip; rw [hbest]; rfl
              rw [this]
              intro e
              have := hbd t (by rw [hbest]; simp)
              rw [e, hnd] at this; cases this
          have hmax1 : MaxAll s1 := by
            intro h m hm hg
            have hw : s1.wsum s1.tip = s.wsum s.tip := by
              unfold State.wsum State.tip wsumOf
              rw [hbest1]
              unfold State.tip at htipne
              rw [hlk _ htipne]
            rw [hw]
            by_cases e : h = b.hash
            · exfalso
              rw [e] at hg
              obtain ⟨_, _, hd, _, _⟩ := goodPath_inv hg hb0
              rw [hdat, hnd] at hd; cases hd
            · rw [hlk h e] at hm
              apply hi.max h m hm
              apply goodPath_back hlk (fun h _ => hdat h) _ hg e
              intro h' m' hd' hl' h0' e'
              have := hi.c.dClosed h' m' hd' hl' h0'
              rw [e', hnd] at this; cases this
          have hpool : Pool s1 [] = Pool s [] := by unfold Pool; rw [horph1]
          refine ⟨hc1, hmax1, ?_, ?_, ?_, ?_⟩
          · intro w hw; rw [hpool] at hw; rw [hdat]; exact hi.wOK w hw
          · rw [hpool]; exact hi.wND
          · intro o ho hd; rw [horph1] at ho; rw [hdat] at hd; rw [hki]; exact hi.oPar o ho hd
          · intro x hx hp
            rw [hdat, hki, hki, hpool, hev1]
            exact hi.deliv x hx hp

theorem inv_congr {U D : List BlockAbs} {Q : List Hash} {P : List BlockAbs} {s s' : State} (hi' : s'.idx = s.idx)
    (hst : s'.st = s.st) (hb : s'.best = s.best) (ho : s'.orphans = s.orphans) (he : s'.evicted = s.evicted)
    (hi : Inv U D Q P s) : Inv U D Q P s' := by
  have hss : ∀ k, s'.status k = s.status k := fun k => by unfold State.status; rw [hst]
  have hpool : Pool s' P = Pool s P := by unfold Pool; rw [ho]
  refine ⟨cinv_congr hi' hst hb hi.c, maxAll_congr hi' hst hb hi.max, ?_, ?_, ?_, ?_⟩
  · intro w hw; rw [hpool] at hw; rw [hss]; exact hi.wOK w hw
  · rw [hpool]; exact hi.wND
  · intro o ho' hd; rw [ho] at ho'; rw [hss] at hd ⊢; exact hi.oPar o ho' hd
  · intro x hx hp; rw [hss, hss, hpool, he]; exact hi.deliv x hx hp

theorem processHeader_spec {U D : List BlockAbs} {s : State} {b : BlockAbs} (hwf : WF U)
    (hbU : b ∈ U) (hi : Inv U D [] [] s) : Inv U D [] [] (processHeader s b).1 := by
  obtain ⟨x, hx⟩ := processHeader_shape s b
  rw [hx]
  exact inv_congr (s := (processHeaderCore s b).1) rfl rfl rfl rfl rfl (processHeaderCore_spec hwf hbU hi)

theorem processHeaderCore_best (s : State) (b : BlockAbs) :
    (processHeaderCore s b).1.best = s.best := by
  unfold processHeaderCore
  split
  · rfl
  · split
    · rfl
    · split
      · split <;> rfl
      · split <;> rfl

theorem processHeader_best (s : State) (b : BlockAbs) : (processHeader s b).1.best = s.best := by
  obtain ⟨x, hx⟩ := processHeader_shape s b
  rw [hx]
  exact processHeaderCore_best s b

/-! ### a whole delivery history -/

theorem run_spec {U : List BlockAbs} (hwf : WF U) :
    ∀ (ops : List Op) (D : List BlockAbs) (s : State), deliveryOnly ops → (∀ x ∈ mentioned ops, x ∈ U) →
    (∀ x ∈ D, x ∈ U) → Inv U D [] [] s →
    ∃ D', (∀ x, x ∈ D' ↔ x ∈ D ∨ x ∈ delivered ops) ∧ Inv U D' [] [] (runFrom s ops) := by
  intro ops
  induction ops with
  | nil => intro D s _ _ _ hi; exact ⟨D, by simp [delivered], hi⟩
  | cons o r ih =>
    intro D s hdo hm hDU hi
    cases o with
    | block b =>
      have hbU : b ∈ U := hm b (by simp [mentioned])
      have h1 := (processBlock_spec hwf hDU hbU hi).1
      obtain ⟨D', hD', hi'⟩ := ih (b :: D) (step s (.block b)).1 hdo
        (fun x hx => hm x (by simp [mentioned, hx]))
        (by intro x hx; simp only [List.mem_cons] at hx; rcases hx with hx | hx
            · subst hx; exact hbU
            · exact hDU x hx)
        h1
      refine ⟨D', ?_, hi'⟩
      intro x
      rw [hD']
      simp only [List.mem_cons, delivered]
      constructor
      · rintro ((h | h) | h)
        · exact Or.inr (Or.inl h)
        · exact Or.inl h
        · exact Or.inr (Or.inr h)
      · rintro (h | h | h)
        · exact Or.inl (Or.inr h)
        · exact Or.inl (Or.inl h)
        · exact Or.inr h
    | header b =>
      have hbU : b ∈ U := hm b (by simp [mentioned])
      have h1 := processHeader_spec hwf hbU hi
      obtain ⟨D', hD', hi'⟩ := ih D (step s (.header b)).1 hdo
        (fun x hx => hm x (by simp [mentioned, hx])) hDU h1
      exact ⟨D', by intro x; rw [hD']; simp [delivered], hi'⟩
    | invalidate h c => exact absurd hdo (by simp [deliveryOnly])
    | reconsider h c => exact absurd hdo (by simp [deliveryOnly])

theorem inv_init (U : List BlockAbs) : Inv U [] [] [] init := by
  have hst : ∀ h, init.status h = if 0 = h then ({ data := true, valid := true } : Status) else {} := by
    intro h; unfold State.status init; simp only [stOf_cons]; rfl
  refine ⟨⟨IdxOK.base, ?_, ?_, ?_, ?_, ⟨?_, ?_⟩, PathOK.base⟩, ?_, ?_, ?_, ?_, ?_⟩
  · rw [hst]; simp
  · intro h hh
    rw [hst] at hh
    by_cases e : 0 = h
    · subst e; exact ⟨genesisNode, rfl⟩
    · simp [e] at hh
  · intro h n hh _ h0
    rw [hst] at hh
    simp [Ne.symm h0] at hh
  · intro h n hh _ h0
    rw [hst] at hh
    simp [Ne.symm h0] at hh
  · intro h n hv hl
    rw [hst] at hv
    by_cases e : 0 = h
    · subst e
      have : n = genesisNode := by
        have : lookup init.idx 0 = some genesisNode := rfl
        rw [this] at hl; cases hl; rfl
      subst this; rfl
    · simp [e] at hv
  · intro h hk
    rw [hst] at hk
    by_cases e : 0 = h
    · subst e; simp [Status.knownInvalid] at hk
    · simp [e, Status.knownInvalid] at hk
  · intro h n hl hg
    have : n = genesisNode ∧ h = 0 := by
      have hi : init.idx = [genesisNode] := rfl
      rw [hi, lookup_cons] at hl
      by_cases e : genesisNode.blk.hash = h
      · simp [e] at hl; exact ⟨hl.symm, e.symm⟩
      · simp [e, lookup] at hl
    obtain ⟨rfl, rfl⟩ := this
    exact Nat.zero_le _
  · intro w hw; unfold Pool init at hw; simp at hw
  · unfold Pool init; simp
  · intro o ho; unfold init at ho; simp at ho
  · intro b hb; cases hb

end Lemmas
end BV.C02
