/-
C02 helper lemmas, part 8: a history with at most `maxOrphans` block deliveries never evicts an orphan
(so the `evicted = []` hypothesis of `tip_is_best` is automatically met by such histories).
-/
import BV.C02.Lemmas7
namespace BV.C02
namespace Lemmas
open Spec

/-- orphan pool and eviction ghost unchanged -/
def SameOE (s s' : State) : Prop := s'.orphans = s.orphans ∧ s'.evicted = s.evicted

theorem sameOE_of_core {s s' : State} (h : SameCore s s') : SameOE s s' := ⟨h.2.1, h.2.2.1⟩

theorem connectBest_sameCore (s : State) (n : Node) : SameCore s (connectBest s n).1 := by
  unfold connectBest
  simp only []
  split
  · split
    · exact ⟨rfl, rfl, rfl, rfl, rfl⟩
    · split
      · exact ⟨rfl, rfl, rfl, rfl, rfl⟩
      · exact sameCore_setSt s _ _
  · split
    · exact SameCore.refl s
    · have hg := (sameChain_getReorgNodes s n).1
      generalize getReorgNodes s n = g at hg ⊢
      obtain ⟨s1, detach, attach⟩ := g
      simp only [] at hg ⊢
      have hr := reorganize_sameCore s1 detach attach
      generalize reorganize s1 detach attach = r at hr ⊢
      obtain ⟨s2, vr⟩ := r
      cases vr <;> exact hg.trans hr

theorem connectBest_sameOE_of (s s1 : State) (n : Node) (ho : s1.orphans = s.orphans) (he : s1.evicted = s.evicted) :
    SameOE s (connectBest s1 n).1 := by
  have h2 := sameOE_of_core (connectBest_sameCore s1 n)
  exact ⟨h2.1.trans ho, h2.2.trans he⟩

theorem maybeAccept_sameOE (s : State) (b : BlockAbs) : SameOE s (maybeAccept s b).1 := by
  unfold maybeAccept
  split
  · exact ⟨rfl, rfl⟩
  · split
    · exact ⟨rfl, rfl⟩
    · split
      · exact ⟨rfl, rfl⟩
      · split
        · exact sameOE_of_core ((sameCore_setSt s _ _).trans (connectBest_sameCore _ _))
        · exact connectBest_sameOE_of s _ _ rfl rfl

theorem acceptKids_sameOE (s : State) (ks : List BlockAbs) (acc : List Hash) (e : Bool) :
    SameOE s (acceptKids s ks acc e).1 := by
  induction ks generalizing s acc e with
  | nil => exact ⟨rfl, rfl⟩
  | cons k ks ih =>
    unfold acceptKids
    have h1 := maybeAccept_sameOE s k
    generalize maybeAccept s k = r at h1 ⊢
    obtain ⟨s1, o⟩ := r
    cases o with
    | none => have := ih s1 acc true; exact ⟨this.1.trans h1.1, this.2.trans h1.2⟩
    | some m => have := ih s1 (acc ++ [k.hash]) e; exact ⟨this.1.trans h1.1, this.2.trans h1.2⟩

theorem drain_oe (f : Nat) (s : State) (q : List Hash) (e : Bool) :
    (drain f s q e).1.orphans.length ≤ s.orphans.length ∧ (drain f s q e).1.evicted = s.evicted := by
  induction f generalizing s q e with
  | zero => exact ⟨Nat.le_refl _, rfl⟩
  | succ f ih =>
    cases q with
    | nil => exact ⟨Nat.le_refl _, rfl⟩
    | cons h q' =>
      unfold drain
      simp only []
      have h1 := acceptKids_sameOE { s with orphans := s.orphans.filter (fun p => !(p.1.parent == h)) }
        ((s.orphans.filter (fun p => p.1.parent == h)).map (·.1)) [] e
      generalize acceptKids { s with orphans := s.orphans.filter (fun p => !(p.1.parent == h)) }
        ((s.orphans.filter (fun p => p.1.parent == h)).map (·.1)) [] e = r at h1 ⊢
      obtain ⟨s1, acc, e1⟩ := r
      have h2 := ih s1 (q' ++ acc) e1
      refine ⟨Nat.le_trans h2.1 ?_, h2.2.trans h1.2⟩
      rw [h1.1]
      exact List.length_filter_le _ _

def blockCount : List Op → Nat
  | [] => 0
  | .block _ :: r => blockCount r + 1
  | _ :: r => blockCount r

theorem addOrphan_small (s : State) (b : BlockAbs) (h : s.orphans.length + 1 ≤ maxOrphans) :
    (addOrphan s b).orphans.length = s.orphans.length + 1 ∧ (addOrphan s b).evicted = s.evicted := by
  unfold addOrphan
  simp only []
  have : ¬ (s.orphans.length + 1 > maxOrphans) := by omega
  simp only [this, if_false]
  simp

theorem processBlock_oe (s : State) (b : BlockAbs) (k : Nat) (hk : s.orphans.length ≤ k) (hk2 : k + 1 ≤ maxOrphans) :
    (processBlock s b).1.orphans.length ≤ k + 1 ∧ (processBlock s b).1.evicted = s.evicted := by
  unfold processBlock
  split
  · exact ⟨by show s.orphans.length ≤ k + 1; omega, rfl⟩
  · split
    · exact ⟨by show s.orphans.length ≤ k + 1; omega, rfl⟩
    · split
      · exact ⟨by show s.orphans.length ≤ k + 1; omega, rfl⟩
      · split
        · obtain ⟨a, c⟩ := addOrphan_small s b (by omega)
          exact ⟨by show (addOrphan s b).orphans.length ≤ k + 1; omega, c⟩
        · have h1 := maybeAccept_sameOE s b
          generalize maybeAccept s b = r at h1 ⊢
          obtain ⟨s1, o⟩ := r
          cases o with
          | none => exact ⟨by show s1.orphans.length ≤ k + 1; rw [h1.1]; omega, h1.2⟩
          | some m =>
            simp only []
            have h2 := drain_oe (s1.orphans.length + 1) s1 [b.hash] false
            generalize drain (s1.orphans.length + 1) s1 [b.hash] false = d at h2 ⊢
            obtain ⟨s2, e⟩ := d
            simp only [] at h2
            have h1o : s1.orphans = s.orphans := h1.1
            have h1e : s1.evicted = s.evicted := h1.2
            cases e
            · exact ⟨by have := h2.1; rw [h1o] at this; show s2.orphans.length ≤ k + 1; omega, h2.2.trans h1e⟩
            · exact ⟨by have := h2.1; rw [h1o] at this; show s2.orphans.length ≤ k + 1; omega, h2.2.trans h1e⟩

theorem processHeader_oe (s : State) (b : BlockAbs) : SameOE s (processHeader s b).1 := by
  unfold processHeader
  split
  · exact ⟨rfl, rfl⟩
  · split
    · exact ⟨rfl, rfl⟩
    · split
      · split <;> exact ⟨rfl, rfl⟩
      · split <;> exact ⟨rfl, rfl⟩

theorem runFrom_noEvict (ops : List Op) (s : State) (k : Nat) (hdo : deliveryOnly ops)
    (hk : s.orphans.length ≤ k) (hb : k + blockCount ops ≤ maxOrphans) (he : s.evicted = []) :
    (runFrom s ops).evicted = [] := by
  induction ops generalizing s k with
  | nil => exact he
  | cons o r ih =>
    cases o with
    | block b =>
      simp only [blockCount] at hb
      obtain ⟨a, c⟩ := processBlock_oe s b k hk (by omega)
      exact ih (step s (.block b)).1 (k + 1) hdo a (by omega) (c.trans he)
    | header b =>
      simp only [blockCount] at hb
      obtain ⟨a, c⟩ := processHeader_oe s b
      exact ih (step s (.header b)).1 k hdo (by show (processHeader s b).1.orphans.length ≤ k; rw [a]; exact hk) hb
        (c.trans he)
    | invalidate h c => exact absurd hdo (by simp [deliveryOnly])
    | reconsider h c => exact absurd hdo (by simp [deliveryOnly])

/-- at most `maxOrphans` (= 100) block deliveries: nothing is ever evicted -/
theorem run_noEvict (ops : List Op) (hdo : deliveryOnly ops) (hb : blockCount ops ≤ maxOrphans) :
    (run ops).evicted = [] :=
  runFrom_noEvict ops init 0 hdo (by simp [init]) (by omega) rfl

/-! ### the executable Spec used by the driver is sound for the relational Spec -/

/-- whatever `Spec.chainWork` computes is the work of a valid delivered chain avoiding `X` -/
theorem chainWork_sound (D : List BlockAbs) (X : List Hash) :
    ∀ (fuel : Nat) (h : Hash) (w : Nat), chainWork D X fuel h = some w → ValidChainEx D X h w := by
  intro fuel
  induction fuel with
  | zero => intro h w hw; simp [chainWork] at hw
  | succ f ih =>
    intro h w hw
    unfold chainWork at hw
    by_cases h0 : h = 0
    · subst h0
      simp at hw
      subst hw
      exact ValidChainEx.genesis
    · have h0' : (h == 0) = false := by simpa using h0
      simp only [h0', Bool.false_eq_true, if_false] at hw
      cases hx : X.contains h with
      | true =>
        simp only [hx, if_true] at hw
        cases hw
      | false =>
        simp only [hx, Bool.false_eq_true, if_false] at hw
        cases hf : D.find? (fun b => b.hash == h) with
        | none => simp [hf] at hw
        | some b =>
          simp only [hf] at hw
          have hbD : b ∈ D := List.mem_of_find?_eq_some hf
          have hbh : b.hash = h := by
            have := List.find?_some hf
            simpa using this
          cases hok : b.ok with
          | false => simp [hok] at hw
          | true =>
            simp only [hok, if_true] at hw
            cases hr : chainWork D X f b.parent with
            | none => simp [hr] at hw
            | some w' =>
              simp only [hr] at hw
              cases hw
              have := ValidChainEx.step hbD hok (by rw [hbh]; simpa using hx) (ih b.parent w' hr)
              rw [hbh] at this
              exact this

end Lemmas
end BV.C02
